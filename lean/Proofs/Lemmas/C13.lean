import Kurbo.Dash
import Mathlib.Tactic.Common
/-! Structural lemmas about the dash iterator model (`Kurbo/Dash.lean`): index invariant, no index panic,
    phase reset, output kinds.  No arithmetic law is used: everything holds for every `[Scalar K]` (also `Float`). -/
set_option linter.unusedSectionVars false
namespace Kurbo
variable {K : Type} [Scalar K]

/-- both pattern indices are in range (so `self.dashes[self.dash_ix]` cannot panic) -/
def DashIt.IxOk (s : DashIt K) : Prop := s.dash_ix < s.dashes.size ∧ s.init_dash_ix < s.dashes.size

/-- the phase is the initial phase computed by `dash_impl` -/
def DashIt.PhaseInit (s : DashIt K) : Prop :=
  s.dash_ix = s.init_dash_ix ∧ s.dash_remaining = s.init_dash_remaining ∧ s.is_active = s.init_is_active

/-- the fields written by `dash_impl` only -/
def DashIt.SameInit (s s' : DashIt K) : Prop :=
  s'.dashes = s.dashes ∧ s'.init_dash_ix = s.init_dash_ix ∧ s'.init_dash_remaining = s.init_dash_remaining ∧
    s'.init_is_active = s.init_is_active

theorem DashIt.SameInit.refl (s : DashIt K) : s.SameInit s := ⟨rfl, rfl, rfl, rfl⟩
theorem DashIt.SameInit.trans {a b c : DashIt K} (h1 : a.SameInit b) (h2 : b.SameInit c) : a.SameInit c := by
  obtain ⟨a1, a2, a3, a4⟩ := h1
  obtain ⟨b1, b2, b3, b4⟩ := h2
  exact ⟨b1.trans a1, b2.trans a2, b3.trans a3, b4.trans a4⟩

theorem dashAt_lt (d : Array K) (i : Nat) (h : i < d.size) : dashAt d i = some d[i] := by
  unfold dashAt; exact Array.getElem?_eq_getElem h

theorem dashAt_none (d : Array K) (i : Nat) (h : dashAt d i = none) : d.size ≤ i := by
  unfold dashAt at h; simpa using h

/-! ### `dash_impl` -/

theorem dashInitLoop_ok (dashes : Array K) (hn : 0 < dashes.size) : ∀ (fuel ix : Nat) (rem : K) (act : Bool),
    ix < dashes.size → ∃ r, dashInitLoop dashes fuel ix rem act = some r ∧ r.1 < dashes.size
  | 0, ix, rem, act, h => ⟨_, rfl, h⟩
  | fuel + 1, ix, rem, act, h => by
    unfold dashInitLoop
    split
    · have hlt : (ix + 1) % dashes.size < dashes.size := Nat.mod_lt _ hn
      simp only [dashAt_lt _ _ hlt]
      exact dashInitLoop_ok dashes hn fuel _ _ _ hlt
    · exact ⟨_, rfl, h⟩

theorem dashImpl_ok (inner : List (PathEl K)) (off : K) (dashes : Array K) (fuel : Nat) (hn : 0 < dashes.size) :
    ∃ it, dashImpl inner off dashes fuel = some it ∧ it.IxOk ∧ it.dashes = dashes ∧ it.inner = inner ∧ it.PhaseInit ∧
      it.state = .NeedInput ∧ it.stash = #[] ∧ it.stash_ix = 0 ∧ it.input_done = false ∧ it.closepath_pending = false := by
  unfold dashImpl
  simp only [dashAt_lt _ _ hn]
  obtain ⟨⟨ix, rem, act⟩, h1, h2⟩ := dashInitLoop_ok dashes hn fuel 0 (Scalar.sub dashes[0] off) true hn
  split
  · rename_i heq
    cases h1.symm.trans heq
  · rename_i heq
    cases h1.symm.trans heq
    exact ⟨_, rfl, ⟨h2, h2⟩, rfl, rfl, ⟨rfl, rfl, rfl⟩, rfl, rfl, rfl, rfl, rfl⟩

/-! ### `reset_phase`, `handle_closepath`, `get_input` -/

/-- what `get_input` may do to the phase: leave it, or reset it -/
def DashIt.PhaseKept (s s' : DashIt K) : Prop :=
  s'.dash_ix = s.dash_ix ∧ s'.dash_remaining = s.dash_remaining ∧ s'.is_active = s.is_active

theorem reset_phase_sameInit (s : DashIt K) : s.SameInit s.reset_phase := ⟨rfl, rfl, rfl, rfl⟩
theorem reset_phase_phaseInit (s : DashIt K) : s.reset_phase.PhaseInit := ⟨rfl, rfl, rfl⟩

theorem handle_closepath_sameInit (s : DashIt K) : s.SameInit s.handle_closepath := by
  unfold DashIt.handle_closepath
  split
  · exact ⟨rfl, rfl, rfl, rfl⟩
  · split <;> exact ⟨rfl, rfl, rfl, rfl⟩

theorem handle_closepath_phaseInit (s : DashIt K) : s.handle_closepath.PhaseInit := by
  unfold DashIt.handle_closepath
  split
  · exact ⟨rfl, rfl, rfl⟩
  · split <;> exact ⟨rfl, rfl, rfl⟩

theorem handle_closepath_state (s : DashIt K) : s.handle_closepath.state = .FromStash := by
  unfold DashIt.handle_closepath
  split
  · rfl
  · split <;> rfl

theorem getInputList_phase : ∀ (b : Bool) (l : List (PathEl K)) (s : DashIt K),
    s.SameInit (getInputList b l s) ∧ (s.PhaseKept (getInputList b l s) ∨ (getInputList b l s).PhaseInit)
  | _, [], s => ⟨⟨rfl, rfl, rfl, rfl⟩, Or.inl ⟨rfl, rfl, rfl⟩⟩
  | b, el :: rest, s => by
    cases el with
    | MoveTo p =>
      simp only [getInputList]
      split
      · obtain ⟨h1, h2⟩ := getInputList_phase true rest
          ({ s with inner := rest, state := .FromStash, start_pt := p, last_pt := p } : DashIt K).reset_phase
        refine ⟨DashIt.SameInit.trans ⟨rfl, rfl, rfl, rfl⟩ h1, Or.inr ?_⟩
        rcases h2 with h2 | h2
        · obtain ⟨a1, a2, a3⟩ := h2
          obtain ⟨c1, c2, c3, c4⟩ := h1
          exact ⟨a1.trans c2.symm, a2.trans c3.symm, a3.trans c4.symm⟩
        · exact h2
      · obtain ⟨h1, h2⟩ := getInputList_phase true rest
          ({ s with inner := rest, start_pt := p, last_pt := p } : DashIt K).reset_phase
        refine ⟨DashIt.SameInit.trans ⟨rfl, rfl, rfl, rfl⟩ h1, Or.inr ?_⟩
        rcases h2 with h2 | h2
        · obtain ⟨a1, a2, a3⟩ := h2
          obtain ⟨c1, c2, c3, c4⟩ := h1
          exact ⟨a1.trans c2.symm, a2.trans c3.symm, a3.trans c4.symm⟩
        · exact h2
    | LineTo p => exact ⟨⟨rfl, rfl, rfl, rfl⟩, Or.inl ⟨rfl, rfl, rfl⟩⟩
    | QuadTo p1 p2 => exact ⟨⟨rfl, rfl, rfl, rfl⟩, Or.inl ⟨rfl, rfl, rfl⟩⟩
    | CurveTo p1 p2 p3 => exact ⟨⟨rfl, rfl, rfl, rfl⟩, Or.inl ⟨rfl, rfl, rfl⟩⟩
    | ClosePath =>
      simp only [getInputList]
      split
      · obtain ⟨h1, h2⟩ := getInputList_phase true rest ({ s with inner := rest } : DashIt K)
        exact ⟨DashIt.SameInit.trans ⟨rfl, rfl, rfl, rfl⟩ h1, h2⟩
      · split
        · exact ⟨⟨rfl, rfl, rfl, rfl⟩, Or.inl ⟨rfl, rfl, rfl⟩⟩
        · exact ⟨handle_closepath_sameInit _, Or.inr (handle_closepath_phaseInit _)⟩

section
open Ops
/-- index of the pattern entry after the current one (`step`'s wrap-around) -/
def DashIt.nextIx (s : DashIt K) : Nat := if s.dash_ix + 1 == s.dashes.size then 0 else s.dash_ix + 1

/-- the rest of the current segment, `current_seg.subsegment(t..1)` -/
def DashIt.restSeg (s : DashIt K) : PathSeg K := s.current_seg.subsegment ⟨s.t, (1 : K)⟩

/-- parameter (on `restSeg`) at which the current pattern entry ends -/
def DashIt.cutT (s : DashIt K) : K := s.restSeg.inv_arclen s.dash_remaining (Scalar.ofRat dashAccuracy)

theorem step_stash_start (s : DashIt K) (h0 : (s.state == .ToStash && s.stash.isEmpty) = true) :
    s.step = if s.is_active then some (some (.MoveTo s.current_seg.start), s)
      else some (none, { s with state := .Working }) := by
  unfold DashIt.step
  simp only [h0, if_true]

theorem step_switch (s : DashIt K) (h0 : (s.state == .ToStash && s.stash.isEmpty) = false)
    (h1 : (s.dash_remaining <. s.seg_remaining) = true) :
    s.step = match dashAt s.dashes s.nextIx with
      | none => none
      | some d => some (some (if s.is_active then segToEl (s.restSeg.subsegment ⟨(0 : K), s.cutT⟩)
                          else .MoveTo (s.restSeg.eval s.cutT)),
                  { s with state := if s.is_active then .Working else s.state, is_active := !s.is_active,
                           t := s.t + s.cutT * ((1 : K) - s.t),
                           seg_remaining := s.seg_remaining - s.dash_remaining,
                           dash_ix := s.nextIx, dash_remaining := d }) := by
  unfold DashIt.step
  simp only [h0, h1, if_true, Bool.false_eq_true, if_false]
  cases hact : s.is_active
  · simp only [hact, Bool.false_eq_true, if_false]
    rfl
  · simp only [if_true]
    rfl

/-- the state in which the segment-ending `step` calls `get_input`: while the first dash is being stashed (`ToStash`, entry on)
    the rest of the segment has been pushed to the stash BEFORE (repair 7127469), so that a `ClosePath` appended by
    `get_input` comes after it -/
def DashIt.endPush (s : DashIt K) : DashIt K :=
  if s.is_active && s.state == .ToStash then { s with stash := s.stash.push (segToEl s.restSeg) } else s

set_option linter.unusedSimpArgs false in
theorem step_seg_end (s : DashIt K) (h0 : (s.state == .ToStash && s.stash.isEmpty) = false)
    (h1 : (s.dash_remaining <. s.seg_remaining) = false) :
    s.step = some (if s.is_active && !(s.state == .ToStash) then some (segToEl s.restSeg) else none,
      ({ s.endPush with dash_remaining := s.dash_remaining - s.seg_remaining } : DashIt K).get_input) := by
  unfold DashIt.step DashIt.endPush
  simp only [h0, h1, Bool.false_eq_true, if_false]
  cases ha : s.is_active <;> cases hs : (s.state == DashState.ToStash) <;>
    simp only [Bool.false_eq_true, if_false, if_true, Bool.and_true, Bool.and_false, Bool.false_and, Bool.true_and,
      Bool.not_true, Bool.not_false] <;> rfl

/-- outside `ToStash` the element is returned -/
theorem step_seg_end_ns (s : DashIt K) (h0 : (s.state == .ToStash && s.stash.isEmpty) = false)
    (hns : (s.state == .ToStash) = false) (h1 : (s.dash_remaining <. s.seg_remaining) = false) :
    s.step = some (if s.is_active then some (segToEl s.restSeg) else none,
      ({ s with dash_remaining := s.dash_remaining - s.seg_remaining } : DashIt K).get_input) := by
  rw [step_seg_end s h0 h1]
  unfold DashIt.endPush
  simp only [hns, Bool.and_false, Bool.false_eq_true, if_false, Bool.not_false, Bool.and_true]

/-- in `ToStash` with the entry on, the element goes to the stash before `get_input`; nothing is returned -/
theorem step_seg_end_stash (s : DashIt K) (h0 : (s.state == .ToStash && s.stash.isEmpty) = false)
    (hs : s.state = .ToStash) (ha : s.is_active = true) (h1 : (s.dash_remaining <. s.seg_remaining) = false) :
    s.step = some (none, ({ s with stash := s.stash.push (segToEl s.restSeg),
                                   dash_remaining := s.dash_remaining - s.seg_remaining } : DashIt K).get_input) := by
  rw [step_seg_end s h0 h1]
  unfold DashIt.endPush
  have hb : (s.state == DashState.ToStash) = true := by rw [hs]; rfl
  simp only [hb, ha, Bool.and_true, if_true, Bool.not_true, Bool.and_false, Bool.false_eq_true, if_false]
end

theorem endPush_fields (s : DashIt K) :
    s.endPush.dashes = s.dashes ∧ s.endPush.dash_ix = s.dash_ix ∧ s.endPush.init_dash_ix = s.init_dash_ix ∧
    s.endPush.init_dash_remaining = s.init_dash_remaining ∧ s.endPush.init_is_active = s.init_is_active ∧
    s.endPush.inner = s.inner ∧ s.endPush.current_seg = s.current_seg := by
  unfold DashIt.endPush
  split <;> exact ⟨rfl, rfl, rfl, rfl, rfl, rfl, rfl⟩


theorem get_input_phase (s : DashIt K) :
    s.SameInit s.get_input ∧ (s.PhaseKept s.get_input ∨ s.get_input.PhaseInit) := by
  unfold DashIt.get_input
  split
  · exact ⟨handle_closepath_sameInit s, Or.inr (handle_closepath_phaseInit s)⟩
  · exact getInputList_phase _ _ _

theorem IxOk_of_phase {s s' : DashIt K} (h : s.IxOk) (h1 : s.SameInit s')
    (h2 : s.PhaseKept s' ∨ s'.PhaseInit) : s'.IxOk := by
  obtain ⟨a1, a2⟩ := h
  obtain ⟨c1, c2, -, -⟩ := h1
  unfold DashIt.IxOk
  rw [c1, c2]
  refine ⟨?_, a2⟩
  rcases h2 with h2 | h2
  · rw [h2.1]; exact a1
  · rw [h2.1, c2]; exact a2

theorem get_input_ixOk (s : DashIt K) (h : s.IxOk) : s.get_input.IxOk :=
  IxOk_of_phase h (get_input_phase s).1 (get_input_phase s).2

theorem nextIx_lt (s : DashIt K) (h : s.dash_ix < s.dashes.size) : s.nextIx < s.dashes.size := by
  unfold DashIt.nextIx
  split
  · omega
  · rename_i hne
    simp only [beq_iff_eq] at hne
    omega

/-! ### `step` -/

theorem step_ok (s : DashIt K) (h : s.IxOk) : ∃ r s', s.step = some (r, s') ∧ s'.IxOk ∧ s.SameInit s' := by
  cases h0 : (s.state == .ToStash && s.stash.isEmpty)
  · cases h1 : Scalar.lt s.dash_remaining s.seg_remaining
    · rw [step_seg_end s h0 h1]
      obtain ⟨f1, f2, f3, f4, f5, -, -⟩ := endPush_fields s
      refine ⟨_, _, rfl, ?_, ?_⟩
      · refine get_input_ixOk _ ?_
        show s.endPush.dash_ix < s.endPush.dashes.size ∧ s.endPush.init_dash_ix < s.endPush.dashes.size
        rw [f1, f2, f3]; exact h
      · exact DashIt.SameInit.trans ⟨f1, f3, f4, f5⟩ (get_input_phase _).1
    · rw [step_switch s h0 h1, dashAt_lt _ _ (nextIx_lt s h.1)]
      exact ⟨_, _, rfl, ⟨nextIx_lt s h.1, h.2⟩, ⟨rfl, rfl, rfl, rfl⟩⟩
  · rw [step_stash_start s h0]
    split
    · exact ⟨_, _, rfl, h, DashIt.SameInit.refl _⟩
    · exact ⟨_, _, rfl, h, ⟨rfl, rfl, rfl, rfl⟩⟩

theorem step_ne_none (s : DashIt K) (h : s.IxOk) : s.step ≠ none := by
  obtain ⟨r, s', e, -⟩ := step_ok s h
  rw [e]; exact Option.some_ne_none _

theorem step_ixOk (s s' : DashIt K) (r : Option (PathEl K)) (h : s.IxOk) (e : s.step = some (r, s')) :
    s'.IxOk ∧ s.SameInit s' := by
  obtain ⟨r1, s1, e1, h1, h2⟩ := step_ok s h
  rw [e] at e1
  cases e1
  exact ⟨h1, h2⟩

/-! ### `Iterator::next`: a generic invariant rule -/

/-- closure conditions under which a state predicate `P` is kept by `next` and every emitted element satisfies `Q` -/
structure NextInv (P : DashIt K → Prop) (Q : PathEl K → Prop) : Prop where
  get_input : ∀ s, P s → P s.get_input
  step : ∀ s r s', P s → s.step = some (r, s') → P s' ∧ ∀ el, r = some el → Q el
  set_state : ∀ s st, P s → P { s with state := st }
  push : ∀ s el, P s → Q el → P { s with stash := s.stash.push el }
  stash : ∀ s el, P s → s.stash[s.stash_ix]? = some el → Q el
  set_ix : ∀ s i, P s → P { s with stash_ix := i }
  clear : ∀ s, P s → P { s with stash := #[], stash_ix := 0 }
  set_cp : ∀ s b, P s → P { s with closepath_pending := b }

/-- what the rule gives for one result of `next` -/
def DashNext.Good (P : DashIt K → Prop) (Q : PathEl K → Prop) (noPanic : Prop) : DashNext K → Prop
  | .some el s => P s ∧ Q el
  | .none s => P s
  | .panic => ¬ noPanic
  | .outOfFuel => True

theorem next_inv {P : DashIt K → Prop} {Q : PathEl K → Prop} (I : NextInv P Q) :
    ∀ (fuel : Nat) (s : DashIt K), P s → (s.next fuel).Good P Q (∀ s, P s → s.step ≠ none)
  | 0, _, _ => trivial
  | fuel + 1, s, h => by
    unfold DashIt.next
    split
    · -- NeedInput
      split
      · exact h
      · simp only []
        split
        · exact I.get_input s h
        · split
          · exact next_inv I fuel _ (I.get_input s h)
          · exact next_inv I fuel _ (I.set_state _ _ (I.get_input s h))
    · -- ToStash
      split
      · rename_i e
        exact fun hp => hp s h e
      · rename_i el s' e
        obtain ⟨h1, h2⟩ := I.step s _ _ h e
        exact next_inv I fuel _ (I.push _ _ h1 (h2 el rfl))
      · rename_i s' e
        exact next_inv I fuel _ (I.step s _ _ h e).1
    · -- Working
      split
      · rename_i e
        exact fun hp => hp s h e
      · rename_i el s' e
        obtain ⟨h1, h2⟩ := I.step s _ _ h e
        exact ⟨h1, h2 el rfl⟩
      · rename_i s' e
        exact next_inv I fuel _ (I.step s _ _ h e).1
    · -- FromStash
      split
      · rename_i el e
        exact ⟨I.set_ix _ _ h, I.stash s el h e⟩
      · simp only []
        split
        · exact I.clear s h
        · split
          · exact next_inv I fuel _ (I.set_state _ _ (I.set_cp _ _ (I.clear s h)))
          · exact next_inv I fuel _ (I.set_state _ _ (I.clear s h))

/-- `dash(..).collect()` under the rule -/
def DashRes.Good (Q : PathEl K → Prop) (noPanic : Prop) : DashRes K → Prop
  | .ok els => ∀ el ∈ els, Q el
  | .panic => ¬ noPanic
  | .outOfFuel => True

theorem dashCollect_inv {P : DashIt K → Prop} {Q : PathEl K → Prop} (I : NextInv P Q) :
    ∀ (n : Nat) (s : DashIt K) (acc : List (PathEl K)), P s → (∀ el ∈ acc, Q el) →
      (dashCollect n s acc).Good Q (∀ s, P s → s.step ≠ none)
  | 0, _, _, _, _ => trivial
  | n + 1, s, acc, h, hacc => by
    unfold dashCollect
    have hn := next_inv I 100000 s h
    split
    · rename_i el s' e
      rw [e] at hn
      refine dashCollect_inv I n s' (el :: acc) hn.1 ?_
      intro x hx
      rcases List.mem_cons.mp hx with rfl | hx
      · exact hn.2
      · exact hacc x hx
    · intro el hel
      exact hacc el (List.mem_reverse.mp hel)
    · rename_i e
      rw [e] at hn
      exact hn
    · trivial

/-- the index invariant satisfies the rule -/
theorem ixOk_nextInv : NextInv (K := K) DashIt.IxOk (fun _ => True) where
  get_input := get_input_ixOk
  step s r s' h e := ⟨(step_ixOk s s' r h e).1, fun _ _ => trivial⟩
  set_state _ _ h := h
  push _ _ h _ := h
  stash _ _ _ _ := trivial
  set_ix _ _ h := h
  clear _ h := h
  set_cp _ _ h := h

/-! ### output kinds -/

/-- `MoveTo`, `LineTo` or `ClosePath` -/
def PathEl.isPoly : PathEl K → Bool
  | .MoveTo _ => true
  | .LineTo _ => true
  | .ClosePath => true
  | _ => false

/-- polyline input not yet consumed, a straight current segment, only polyline elements in the stash -/
def DashIt.PolyInv (s : DashIt K) : Prop :=
  (∀ el ∈ s.inner, el.isPoly = true) ∧ (∃ l, s.current_seg = .Line l) ∧ (∀ el ∈ s.stash.toList, el.isPoly = true)

theorem handle_closepath_polyInv (s : DashIt K) (h : s.PolyInv) : s.handle_closepath.PolyInv := by
  obtain ⟨h1, h2, h3⟩ := h
  unfold DashIt.handle_closepath
  split
  · refine ⟨h1, h2, ?_⟩
    intro el hel
    simp only [DashIt.reset_phase, Array.toList_push, List.mem_append, List.mem_singleton] at hel
    rcases hel with hel | rfl
    · exact h3 el hel
    · rfl
  · split <;> exact ⟨h1, h2, h3⟩

theorem getInputList_polyInv : ∀ (b : Bool) (l : List (PathEl K)) (s : DashIt K),
    (∀ el ∈ l, el.isPoly = true) → s.PolyInv → (getInputList b l s).PolyInv
  | _, [], s, _, h => ⟨fun el hel => (by cases hel), h.2.1, h.2.2⟩
  | b, el :: rest, s, hl, h => by
    have hrest : ∀ el ∈ rest, el.isPoly = true := fun x hx => hl x (List.mem_cons_of_mem _ hx)
    obtain ⟨h1, h2, h3⟩ := h
    cases el with
    | MoveTo p =>
      simp only [getInputList]
      split
      · exact getInputList_polyInv true rest _ hrest ⟨hrest, h2, h3⟩
      · exact getInputList_polyInv true rest _ hrest ⟨hrest, h2, h3⟩
    | LineTo p => exact ⟨hrest, ⟨_, rfl⟩, h3⟩
    | QuadTo p1 p2 => cases hl _ List.mem_cons_self
    | CurveTo p1 p2 p3 => cases hl _ List.mem_cons_self
    | ClosePath =>
      simp only [getInputList]
      split
      · exact getInputList_polyInv true rest _ hrest ⟨hrest, h2, h3⟩
      · split
        · exact ⟨hrest, ⟨_, rfl⟩, h3⟩
        · exact handle_closepath_polyInv _ ⟨hrest, h2, h3⟩

theorem get_input_polyInv (s : DashIt K) (h : s.PolyInv) : s.get_input.PolyInv := by
  unfold DashIt.get_input
  split
  · exact handle_closepath_polyInv s h
  · exact getInputList_polyInv _ _ _ h.1 h

theorem step_polyInv (s s' : DashIt K) (r : Option (PathEl K)) (h : s.PolyInv) (e : s.step = some (r, s')) :
    s'.PolyInv ∧ ∀ el, r = some el → el.isPoly = true := by
  obtain ⟨l, hl⟩ := h.2.1
  cases h0 : (s.state == .ToStash && s.stash.isEmpty)
  · cases h1 : Scalar.lt s.dash_remaining s.seg_remaining
    · rw [step_seg_end s h0 h1] at e
      simp only [Option.some.injEq, Prod.mk.injEq] at e
      obtain ⟨e1, e2⟩ := e
      subst e1 e2
      have hrest : (segToEl s.restSeg).isPoly = true := by
        simp only [DashIt.restSeg, hl, PathSeg.subsegment, segToEl, PathEl.isPoly]
      refine ⟨get_input_polyInv _ ?_, ?_⟩
      · show (∀ el ∈ s.endPush.inner, el.isPoly = true) ∧ (∃ l, s.endPush.current_seg = .Line l) ∧
          (∀ el ∈ s.endPush.stash.toList, el.isPoly = true)
        unfold DashIt.endPush
        split
        · refine ⟨h.1, h.2.1, ?_⟩
          intro x hx
          simp only [Array.toList_push, List.mem_append, List.mem_singleton] at hx
          rcases hx with hx | rfl
          · exact h.2.2 x hx
          · exact hrest
        · exact h
      · intro el hel
        split at hel
        · cases hel
          exact hrest
        · cases hel
    · rw [step_switch s h0 h1] at e
      split at e
      · cases e
      · simp only [Option.some.injEq, Prod.mk.injEq] at e
        obtain ⟨e1, e2⟩ := e
        subst e1 e2
        refine ⟨h, ?_⟩
        intro el hel
        cases hel
        split
        · simp only [DashIt.restSeg, hl, PathSeg.subsegment, segToEl, PathEl.isPoly]
        · rfl
  · rw [step_stash_start s h0] at e
    split at e
    · cases e
      exact ⟨h, fun el hel => by cases hel; rfl⟩
    · cases e
      exact ⟨h, fun el hel => by cases hel⟩

theorem polyInv_nextInv : NextInv (K := K) DashIt.PolyInv (fun el => el.isPoly = true) where
  get_input := get_input_polyInv
  step s r s' h e := step_polyInv s s' r h e
  set_state _ _ h := h
  push s el h hq := by
    refine ⟨h.1, h.2.1, ?_⟩
    intro x hx
    simp only [Array.toList_push, List.mem_append, List.mem_singleton] at hx
    rcases hx with hx | rfl
    · exact h.2.2 x hx
    · exact hq
  stash s el h e := by
    apply h.2.2
    rw [Array.getElem?_eq_some_iff] at e
    obtain ⟨hi, e⟩ := e
    rw [← e]
    exact Array.getElem_mem_toList hi
  set_ix _ _ h := h
  clear _ h := ⟨h.1, h.2.1, by intro el hel; simp at hel⟩
  set_cp _ _ h := h

/-- what one `step` can emit: a `MoveTo`, or (the element of) a sub-segment of the current segment -/
theorem step_output (s s' : DashIt K) (el : PathEl K) (e : s.step = some (some el, s')) :
    (∃ p, el = .MoveTo p) ∨ (∃ r : Range K, el = segToEl (s.current_seg.subsegment r)) ∨
      (∃ r r' : Range K, el = segToEl ((s.current_seg.subsegment r).subsegment r')) := by
  cases h0 : (s.state == .ToStash && s.stash.isEmpty)
  · cases h1 : Scalar.lt s.dash_remaining s.seg_remaining
    · rw [step_seg_end s h0 h1] at e
      simp only [Option.some.injEq, Prod.mk.injEq] at e
      obtain ⟨e1, -⟩ := e
      split at e1
      · cases e1
        exact Or.inr (Or.inl ⟨_, rfl⟩)
      · cases e1
    · rw [step_switch s h0 h1] at e
      split at e
      · cases e
      · simp only [Option.some.injEq, Prod.mk.injEq] at e
        obtain ⟨e1, -⟩ := e
        subst e1
        split
        · exact Or.inr (Or.inr ⟨_, _, rfl⟩)
        · exact Or.inl ⟨_, rfl⟩
  · rw [step_stash_start s h0] at e
    split at e
    · cases e
      exact Or.inl ⟨_, rfl⟩
    · cases e

/-! ### the three ways `get_input`'s loop ends -/

/-- `handle_closepath` touches only the stash, the state and the phase -/
theorem handle_closepath_fields (s : DashIt K) :
    s.handle_closepath.input_done = s.input_done ∧ s.handle_closepath.inner = s.inner ∧
    s.handle_closepath.closepath_pending = s.closepath_pending ∧ s.handle_closepath.current_seg = s.current_seg ∧
    s.handle_closepath.t = s.t ∧ s.handle_closepath.seg_remaining = s.seg_remaining ∧
    s.handle_closepath.start_pt = s.start_pt ∧ s.handle_closepath.last_pt = s.last_pt := by
  unfold DashIt.handle_closepath
  split
  · exact ⟨rfl, rfl, rfl, rfl, rfl, rfl, rfl, rfl⟩
  · split <;> exact ⟨rfl, rfl, rfl, rfl, rfl, rfl, rfl, rfl⟩

theorem phaseInit_of_kept {s s' : DashIt K} (h : s.PhaseInit) (hs : s.SameInit s') (hk : s.PhaseKept s') :
    s'.PhaseInit := by
  obtain ⟨a1, a2, a3⟩ := h
  obtain ⟨-, c2, c3, c4⟩ := hs
  obtain ⟨k1, k2, k3⟩ := hk
  exact ⟨k1.trans (a1.trans c2.symm), k2.trans (a2.trans c3.symm), k3.trans (a3.trans c4.symm)⟩

/-- `s'` is the state after `get_input`'s loop ran from `s` over the remaining input `l`:
    * the input ended: `input_done`, state `FromStash`; or (otherwise `t = 0`, `input_done` untouched, input got shorter)
    * a segment was loaded into `current_seg`: it starts at the previous `last_pt` with phase, `start_pt` and state
      untouched, or – when `MoveTo`s were consumed first – at the last `MoveTo` point, which is the new `start_pt`, with the
      phase reset (and the state set to `FromStash` if there was a stash to flush); `last_pt` is its end,
      `seg_remaining` its arc length; or
    * a `ClosePath` was handled (`handle_closepath`: state `FromStash`, phase reset). -/
def DashIt.InputOutcome (l : List (PathEl K)) (s s' : DashIt K) : Prop :=
  (s'.input_done = true ∧ s'.state = .FromStash ∧ s'.inner = []) ∨
  (s'.input_done = s.input_done ∧ s'.inner.length < l.length ∧ s'.t = Scalar.ofRat (0 : Nat) ∧
    ((s'.seg_remaining = s'.current_seg.arclen (Scalar.ofRat dashAccuracy) ∧ s'.last_pt = s'.current_seg.end ∧
        ((s'.current_seg.start = s.last_pt ∧ s.PhaseKept s' ∧ s'.start_pt = s.start_pt ∧ s'.state = s.state) ∨
         (PathEl.MoveTo s'.current_seg.start ∈ l ∧ s'.PhaseInit ∧ s'.start_pt = s'.current_seg.start ∧
           (s'.state = s.state ∨ s'.state = .FromStash)))) ∨
     (s'.state = .FromStash ∧ s'.PhaseInit ∧ s'.closepath_pending = true)))

theorem DashIt.InputOutcome.cons {l : List (PathEl K)} {s s' : DashIt K} (el : PathEl K)
    (h : s.InputOutcome l s') : s.InputOutcome (el :: l) s' := by
  rcases h with h | ⟨a, b, c, d⟩
  · exact Or.inl h
  · refine Or.inr ⟨a, Nat.lt_succ_of_lt b, c, ?_⟩
    rcases d with ⟨d1, d2, d3⟩ | d
    · refine Or.inl ⟨d1, d2, ?_⟩
      rcases d3 with d3 | ⟨e1, e2⟩
      · exact Or.inl d3
      · exact Or.inr ⟨List.mem_cons_of_mem _ e1, e2⟩
    · exact Or.inr d

/-- outcome after a `MoveTo p` was consumed (`s₁` = state after the `MoveTo`) -/
theorem DashIt.InputOutcome.moveTo {rest : List (PathEl K)} {s s₁ s' : DashIt K} (p : Point K)
    (h : s₁.InputOutcome rest s') (hs : s₁.SameInit s') (g1 : s₁.input_done = s.input_done) (g2 : s₁.last_pt = p)
    (g3 : s₁.start_pt = p) (g4 : s₁.PhaseInit) (g5 : s₁.state = s.state ∨ s₁.state = .FromStash) :
    s.InputOutcome (.MoveTo p :: rest) s' := by
  rcases h with h | ⟨a, b, c, d⟩
  · exact Or.inl h
  · refine Or.inr ⟨a.trans g1, Nat.lt_succ_of_lt b, c, ?_⟩
    rcases d with ⟨d1, d2, d3⟩ | d
    · refine Or.inl ⟨d1, d2, Or.inr ?_⟩
      rcases d3 with ⟨e1, e2, e3, e4⟩ | ⟨e1, e2, e3, e4⟩
      · refine ⟨?_, phaseInit_of_kept g4 hs e2, e3.trans (g3.trans (e1.trans g2).symm), ?_⟩
        · rw [e1, g2]; exact List.mem_cons_self
        · rw [e4]; exact g5
      · refine ⟨List.mem_cons_of_mem _ e1, e2, e3, ?_⟩
        rcases e4 with e4 | e4
        · rw [e4]; exact g5
        · exact Or.inr e4
    · exact Or.inr d

theorem getInputList_outcome : ∀ (b : Bool) (l : List (PathEl K)) (s : DashIt K),
    s.InputOutcome l (getInputList b l s)
  | _, [], s => Or.inl ⟨rfl, rfl, rfl⟩
  | b, el :: rest, s => by
    cases el with
    | MoveTo p =>
      simp only [getInputList]
      split
      · exact (getInputList_outcome true rest _).moveTo p (getInputList_phase true rest _).1 rfl rfl rfl
          (reset_phase_phaseInit _) (Or.inr rfl)
      · exact (getInputList_outcome true rest _).moveTo p (getInputList_phase true rest _).1 rfl rfl rfl
          (reset_phase_phaseInit _) (Or.inl rfl)
    | LineTo p1 =>
      exact Or.inr ⟨rfl, Nat.lt_succ_self _, rfl, Or.inl ⟨rfl, rfl, Or.inl ⟨rfl, ⟨rfl, rfl, rfl⟩, rfl, rfl⟩⟩⟩
    | QuadTo p1 p2 =>
      exact Or.inr ⟨rfl, Nat.lt_succ_self _, rfl, Or.inl ⟨rfl, rfl, Or.inl ⟨rfl, ⟨rfl, rfl, rfl⟩, rfl, rfl⟩⟩⟩
    | CurveTo p1 p2 p3 =>
      exact Or.inr ⟨rfl, Nat.lt_succ_self _, rfl, Or.inl ⟨rfl, rfl, Or.inl ⟨rfl, ⟨rfl, rfl, rfl⟩, rfl, rfl⟩⟩⟩
    | ClosePath =>
      simp only [getInputList]
      split
      · exact DashIt.InputOutcome.cons _ (getInputList_outcome true rest ({ s with inner := rest } : DashIt K))
      · split
        · exact Or.inr ⟨rfl, Nat.lt_succ_self _, rfl, Or.inl ⟨rfl, rfl, Or.inl ⟨rfl, ⟨rfl, rfl, rfl⟩, rfl, rfl⟩⟩⟩
        · obtain ⟨f1, f2, f3, -⟩ := handle_closepath_fields
            ({ s with inner := rest, closepath_pending := true } : DashIt K)
          have g1 := handle_closepath_state ({ s with inner := rest, closepath_pending := true } : DashIt K)
          have g2 := handle_closepath_phaseInit ({ s with inner := rest, closepath_pending := true } : DashIt K)
          refine Or.inr ⟨f1, ?_, rfl, Or.inr ⟨g1, g2, f3⟩⟩
          exact lt_of_eq_of_lt (congrArg List.length f2) (Nat.lt_succ_self _)

/-- `get_input` consumes at least one element or reports the end of the input -/
theorem getInputList_progress (b : Bool) (l : List (PathEl K)) (s : DashIt K) :
    (getInputList b l s).input_done = true ∨ (getInputList b l s).inner.length < l.length := by
  rcases getInputList_outcome b l s with h | h
  · exact Or.inl h.1
  · exact Or.inr h.2.1

/-! ### further consequences used by `Proofs/C13.lean` -/

theorem reset_phase_ixOk (s : DashIt K) (h : s.IxOk) : s.reset_phase.IxOk :=
  IxOk_of_phase h (reset_phase_sameInit s) (Or.inr (reset_phase_phaseInit s))

theorem handle_closepath_ixOk (s : DashIt K) (h : s.IxOk) : s.handle_closepath.IxOk :=
  IxOk_of_phase h (handle_closepath_sameInit s) (Or.inr (handle_closepath_phaseInit s))

/-- a `MoveTo` at the head of the input resets the phase, whatever is consumed after it in the same call -/
theorem getInputList_moveTo_phaseInit (b : Bool) (p : Point K) (rest : List (PathEl K)) (s : DashIt K) :
    (getInputList b (.MoveTo p :: rest) s).PhaseInit := by
  simp only [getInputList]
  split
  · obtain ⟨h1, h2⟩ := getInputList_phase true rest
      ({ s with inner := rest, state := .FromStash, start_pt := p, last_pt := p } : DashIt K).reset_phase
    rcases h2 with h2 | h2
    · exact phaseInit_of_kept (reset_phase_phaseInit _) h1 h2
    · exact h2
  · obtain ⟨h1, h2⟩ := getInputList_phase true rest
      ({ s with inner := rest, start_pt := p, last_pt := p } : DashIt K).reset_phase
    rcases h2 with h2 | h2
    · exact phaseInit_of_kept (reset_phase_phaseInit _) h1 h2
    · exact h2

/-- a `ClosePath` directly after a `MoveTo` consumed in the same call is skipped -/
theorem getInputList_moveTo_closePath (b : Bool) (p : Point K) (rest : List (PathEl K)) (s : DashIt K) :
    getInputList b (.MoveTo p :: .ClosePath :: rest) s = getInputList b (.MoveTo p :: rest) s := by
  cases h : s.stash.isEmpty <;> simp only [getInputList, h, Bool.not_true, Bool.not_false, Bool.false_eq_true,
    if_true, if_false] <;> rfl

/-- the state that `dash_impl` builds satisfies the polyline invariant if the input is a polyline -/
theorem dashImpl_polyInv (inner : List (PathEl K)) (off : K) (dashes : Array K) (fuel : Nat) (it : DashIt K)
    (hp : ∀ el ∈ inner, el.isPoly = true) (h : dashImpl inner off dashes fuel = some it) : it.PolyInv := by
  unfold dashImpl at h
  split at h
  · cases h
  · split at h
    · cases h
    · cases h
      exact ⟨hp, ⟨_, rfl⟩, by intro el hel; simp at hel⟩

/-! ### witnesses for the examples of `Proofs/C13.lean` -/

/-- a state of the iterator over `Rat` used as witness below: inside the segment (0,0)–(21,0), 1 unit done, pattern
    [1,5,2,5], in the first gap -/
def exWorking : DashIt Rat :=
  { inner := [.LineTo ⟨21, 5⟩], dashes := #[1, 5, 2, 5], dash_ix := 1, init_dash_ix := 0, init_dash_remaining := 1,
    init_is_active := true, is_active := false, state := .Working, current_seg := .Line ⟨⟨0, 0⟩, ⟨21, 0⟩⟩, t := 1 / 21,
    dash_remaining := 5, seg_remaining := 20, start_pt := ⟨0, 0⟩, last_pt := ⟨21, 0⟩ }

/-- first dash of a sub-path under way: state `ToStash`, the opening `MoveTo` already stashed -/
def exToStash : DashIt Rat :=
  { exWorking with state := .ToStash, stash := #[.MoveTo ⟨0, 0⟩], is_active := true, dash_ix := 0, dash_remaining := 1,
                   t := 0, seg_remaining := 21 }

/-- playing back a stashed first dash -/
def exFromStash : DashIt Rat :=
  { exWorking with state := .FromStash, stash := #[.MoveTo ⟨0, 0⟩, .LineTo ⟨1, 0⟩] }

/-- the element returned by a `next` call, if any -/
def DashNext.el? : DashNext K → Option (PathEl K)
  | .some el _ => Option.some el
  | _ => Option.none

/-- the collected elements, if `dash` ended normally -/
def DashRes.okList : DashRes K → Option (List (PathEl K))
  | .ok l => some l
  | _ => none

end Kurbo
