import Proofs.KDefs
import Kurbo.Arclen
import Proofs.Lemmas.C03QReal
/-! Helper lemmas for `Proofs/C03Q.lean`: the coefficients `A B C` of `|q′(t)|² = 4 (A t² + B t + C)`, the laws of the
    irrational `Scalar` fields over ℝ (`C03QRealLaws`) with an instance, and the unfolding of the model's
    `QuadBez.arclen` into Mathlib arithmetic. -/
set_option linter.unusedSectionVars false
namespace Kurbo

section coeffs
variable {K : Type} [Field K]

/-- `a = |p0 − 2 p1 + p2|²` -/
def c03q_A (q : QuadBez K) : K := (q.p0.x - 2 * q.p1.x + q.p2.x) ^ 2 + (q.p0.y - 2 * q.p1.y + q.p2.y) ^ 2
/-- `b = 2 (p0 − 2 p1 + p2) · (p1 − p0)` -/
def c03q_B (q : QuadBez K) : K :=
  2 * ((q.p0.x - 2 * q.p1.x + q.p2.x) * (q.p1.x - q.p0.x) + (q.p0.y - 2 * q.p1.y + q.p2.y) * (q.p1.y - q.p0.y))
/-- `c = |p1 − p0|²` -/
def c03q_C (q : QuadBez K) : K := (q.p1.x - q.p0.x) ^ 2 + (q.p1.y - q.p0.y) ^ 2

end coeffs

/-- the irrational fields of a `Scalar ℝ` instance that `QuadBez::arclen` uses are the real functions -/
class C03QRealLaws [Scalar ℝ] : Prop where
  sqrt_eq : ∀ x : ℝ, Scalar.sqrt x = Real.sqrt x
  hypot_eq : ∀ x y : ℝ, Scalar.hypot x y = Real.sqrt (x ^ 2 + y ^ 2)
  ln_eq : ∀ x : ℝ, Scalar.ln x = Real.log x
  powf_eq : ∀ x y : ℝ, 0 < x → Scalar.powf x y = x ^ y

section real
variable [Scalar ℝ] [LawfulScalar ℝ] [C03QRealLaws]

/-- branch (1) of the model (3-point Gauss–Legendre rule), in Mathlib arithmetic -/
noncomputable def c03q_gauss (q : QuadBez ℝ) : ℝ :=
  √((q.p0.x * -(492943519233745 / 1000000000000000) + q.p1.x * (430331482911935 / 1000000000000000) +
        q.p2.x * (626120363218102 / 10000000000000000)) ^ 2 +
      (q.p0.y * -(492943519233745 / 1000000000000000) + q.p1.y * (430331482911935 / 1000000000000000) +
        q.p2.y * (626120363218102 / 10000000000000000)) ^ 2) +
    √(((q.p2.x - q.p0.x) * (4444444444444444 / 10000000000000000)) ^ 2 +
      ((q.p2.y - q.p0.y) * (4444444444444444 / 10000000000000000)) ^ 2) +
    √((q.p0.x * -(626120363218102 / 10000000000000000) - q.p1.x * (430331482911935 / 1000000000000000) +
        q.p2.x * (492943519233745 / 1000000000000000)) ^ 2 +
      (q.p0.y * -(626120363218102 / 10000000000000000) - q.p1.y * (430331482911935 / 1000000000000000) +
        q.p2.y * (492943519233745 / 1000000000000000)) ^ 2)

theorem c03q_C_nonneg (q : QuadBez ℝ) : 0 ≤ c03q_C q := by unfold c03q_C; positivity
theorem c03q_A_nonneg (q : QuadBez ℝ) : 0 ≤ c03q_A q := by unfold c03q_A; positivity

/-- the model leaves branch (1) only with `a > 0` -/
theorem c03q_A_pos {q : QuadBez ℝ} (h : ¬ c03q_A q ≤ 5 / 10000 * c03q_C q) : 0 < c03q_A q := by
  have := c03q_C_nonneg q
  have h' := not_le.mp h
  linarith

/-- `4ac − b² = 4 (d2 × d1)² ≥ 0` (Cauchy–Schwarz / Lagrange identity) -/
theorem c03q_disc_nonneg (q : QuadBez ℝ) : 0 ≤ 4 * c03q_A q * c03q_C q - c03q_B q ^ 2 := by
  have : 4 * c03q_A q * c03q_C q - c03q_B q ^ 2
      = 4 * ((q.p0.x - 2 * q.p1.x + q.p2.x) * (q.p1.y - q.p0.y)
              - (q.p0.y - 2 * q.p1.y + q.p2.y) * (q.p1.x - q.p0.x)) ^ 2 := by
    unfold c03q_A c03q_B c03q_C; ring
  rw [this]; positivity

/-- `QuadBez.arclen` in Mathlib arithmetic: the three branches -/
theorem c03q_arclen_eq (q : QuadBez ℝ) (acc : ℝ) :
    q.arclen acc =
      if c03q_A q ≤ 5 / 10000 * c03q_C q then c03q_gauss q
      else if c03q_bac2 (c03q_A q) (c03q_B q) (c03q_C q) ≤ 1 / 10000000000000 * (2 * √(c03q_C q)) then
        c03q_v0 (c03q_A q) (c03q_B q) (c03q_C q)
      else c03q_v0 (c03q_A q) (c03q_B q) (c03q_C q) + c03q_logpart (c03q_A q) (c03q_B q) (c03q_C q) := by
  have hA : (q.p0.x - q.p1.x * 2 + q.p2.x) * (q.p0.x - q.p1.x * 2 + q.p2.x) +
      (q.p0.y - q.p1.y * 2 + q.p2.y) * (q.p0.y - q.p1.y * 2 + q.p2.y) = c03q_A q := by
    unfold c03q_A; ring
  have hB : 2 * ((q.p0.x - q.p1.x * 2 + q.p2.x) * (q.p1.x - q.p0.x) +
      (q.p0.y - q.p1.y * 2 + q.p2.y) * (q.p1.y - q.p0.y)) = c03q_B q := by
    unfold c03q_B; ring
  have hC : (q.p1.x - q.p0.x) * (q.p1.x - q.p0.x) + (q.p1.y - q.p0.y) * (q.p1.y - q.p0.y) = c03q_C q := by
    unfold c03q_C; ring
  have hS : (q.p2.x - q.p1.x) ^ 2 + (q.p2.y - q.p1.y) ^ 2 = c03q_A q + c03q_B q + c03q_C q := by
    unfold c03q_A c03q_B c03q_C; ring
  unfold QuadBez.arclen
  simp only [kdefs, scalar_norm, Vec2.hypot, C03QRealLaws.sqrt_eq, C03QRealLaws.hypot_eq, C03QRealLaws.ln_eq]
  push_cast
  simp only [hA, hB, hC, hS, decide_eq_true_eq]
  by_cases h1 : c03q_A q ≤ 5 / 10000 * c03q_C q
  · rw [if_pos h1, if_pos h1]; rfl
  · rw [if_neg h1, if_neg h1]
    have hApos := c03q_A_pos h1
    have hp : Scalar.powf (c03q_A q) (-(1 / 2)) = (√(c03q_A q))⁻¹ := by
      rw [C03QRealLaws.powf_eq _ _ hApos, Real.rpow_neg hApos.le, Real.sqrt_eq_rpow]
    rw [hp]
    rfl

/-- the model enters branch (2) only with `ba_c2 > 0` -/
theorem c03q_bac2_pos (q : QuadBez ℝ)
    (h2 : ¬ c03q_bac2 (c03q_A q) (c03q_B q) (c03q_C q) ≤ 1 / 10000000000000 * (2 * √(c03q_C q))) :
    0 < c03q_bac2 (c03q_A q) (c03q_B q) (c03q_C q) := by
  have h := not_le.mp h2
  have : 0 ≤ 1 / 10000000000000 * (2 * √(c03q_C q)) := by positivity
  linarith

theorem c03q_sqrt_four_mul (x : ℝ) : √(4 * x) = 2 * √x := by
  rw [Real.sqrt_mul (by norm_num), show (4:ℝ) = 2 ^ 2 by norm_num, Real.sqrt_sq (by norm_num)]

/-- in branch (2) the quadratic under the root is positive on `[0, ∞)` -/
theorem c03q_branch2_Q_pos (q : QuadBez ℝ)
    (h1 : ¬ c03q_A q ≤ 5 / 10000 * c03q_C q)
    (h2 : ¬ c03q_bac2 (c03q_A q) (c03q_B q) (c03q_C q) ≤ 1 / 10000000000000 * (2 * √(c03q_C q)))
    {t : ℝ} (ht : 0 ≤ t) : 0 < c03q_A q * t ^ 2 + c03q_B q * t + c03q_C q := by
  have hA := c03q_A_pos h1
  have hD := c03q_disc_nonneg q
  exact c03q_Q_pos hA hD (c03q_L_pos hA hD (c03q_L_zero_pos hA (c03q_bac2_pos q h2)) ht)

end real

/-! ### a `Scalar ℝ` instance meeting the laws -/

/-- ℝ with the Mathlib functions as a `Scalar` (fields that no C03Q statement mentions are filled arbitrarily) -/
@[instance_reducible] noncomputable def c03q_realScalar : Scalar ℝ where
  add := (· + ·); sub := (· - ·); mul := (· * ·); div := (· / ·); neg := (- ·)
  abs x := |x|
  lt a b := decide (a < b); le a b := decide (a ≤ b); beq a b := decide (a = b)
  ofRat r := (r : ℝ)
  floor x := (⌊x⌋ : ℝ); ceil x := (⌈x⌉ : ℝ)
  round a := if a < 0 then (⌈a - 1/2⌉ : ℝ) else (⌊a + 1/2⌋ : ℝ)
  trunc a := if a < 0 then (⌈a⌉ : ℝ) else (⌊a⌋ : ℝ)
  sqrt := Real.sqrt
  cbrt _ := 0
  sin _ := 0
  cos _ := 0
  tan _ := 0
  acos _ := 0
  atan2 _ _ := 0
  powf x y := x ^ y
  ln := Real.log
  log2 _ := 0
  fma a b c := a * b + c
  hypot x y := Real.sqrt (x ^ 2 + y ^ 2)
  copysign a b := if b < 0 then -|a| else |a|
  fin _ := true
  finQuot den _ := decide (den ≠ 0)
  isNan _ := false
  toUSize x := ⌊x⌋₊
  signum x := if x < 0 then -1 else 1
  min a b := min a b
  max a b := max a b
  fmod _ _ := 0
  pi := 0

theorem c03q_realScalar_lawful : @LawfulScalar ℝ _ _ _ _ c03q_realScalar :=
  letI := c03q_realScalar
  { add_eq := fun _ _ => rfl, sub_eq := fun _ _ => rfl, mul_eq := fun _ _ => rfl, div_eq := fun _ _ => rfl,
    neg_eq := fun _ => rfl, abs_eq := fun _ => rfl, lt_eq := fun _ _ => rfl, le_eq := fun _ _ => rfl,
    beq_eq := fun _ _ => rfl, ofRat_eq := fun _ => rfl, min_eq := fun _ _ => rfl, max_eq := fun _ _ => rfl,
    floor_eq := fun _ => rfl, ceil_eq := fun _ => rfl, trunc_eq := fun _ => rfl, round_eq := fun _ => rfl,
    copysign_eq := fun _ _ => rfl, signum_eq := fun _ => rfl, fin_eq := fun _ => rfl, finQuot_eq := fun _ _ => rfl,
    isNan_eq := fun _ => rfl, fma_eq := fun _ _ _ => rfl }

theorem c03q_realScalar_laws : @C03QRealLaws c03q_realScalar :=
  letI := c03q_realScalar
  { sqrt_eq := fun _ => rfl, hypot_eq := fun _ _ => rfl, ln_eq := fun _ => rfl, powf_eq := fun _ _ _ => rfl }

end Kurbo
