import Proofs.KDefs
import Kurbo.Simplify
/-! helpers for `Proofs/C18T.lean` (the fall-back chains of `PathSeg::tangents`) -/
namespace Kurbo
open Kurbo.Ops in
/-- `PathSeg::tangents` as it was BEFORE the repair (commit f4732a0 of the crate): the last fall-back is always the chord.
    Only used to state that the repair changes nothing on segments whose end points differ. -/
def PathSeg.tangentsOld {K : Type} [Scalar K] (s : PathSeg K) : Vec2 K × Vec2 K :=
  let eps : K := Scalar.ofRat (1/1000000000000)
  match s with
  | .Line l =>
    let d := l.p1 - l.p0
    (d, d)
  | .Quad q =>
    let d01 := q.p1 - q.p0
    let d0 := if eps <. d01.hypot2 then d01 else q.p2 - q.p0
    let d12 := q.p2 - q.p1
    let d1 := if eps <. d12.hypot2 then d12 else q.p2 - q.p0
    (d0, d1)
  | .Cubic c =>
    let d01 := c.p1 - c.p0
    let d0 := if eps <. d01.hypot2 then d01 else
      let d02 := c.p2 - c.p0
      if eps <. d02.hypot2 then d02 else c.p3 - c.p0
    let d23 := c.p3 - c.p2
    let d1 := if eps <. d23.hypot2 then d23 else
      let d13 := c.p3 - c.p1
      if eps <. d13.hypot2 then d13 else c.p3 - c.p0
    (d0, d1)

/-- all control points of the segment are the same point -/
def PathSeg.IsPoint {K : Type} : PathSeg K → Prop
  | .Line l => l.p1 = l.p0
  | .Quad q => q.p1 = q.p0 ∧ q.p2 = q.p0
  | .Cubic c => c.p1 = c.p0 ∧ c.p2 = c.p0 ∧ c.p3 = c.p0

section lawful
variable {K : Type} [Field K] [LinearOrder K] [IsStrictOrderedRing K] [FloorRing K] [Scalar K] [LawfulScalar K]

theorem c18t_isZero_iff (v : Vec2 K) : v.isZero = true ↔ v = ⟨0, 0⟩ := by
  cases v
  simp only [Vec2.isZero, scalar_norm, Bool.and_eq_true, decide_eq_true_eq, Vec2.mk.injEq, Nat.cast_zero]

theorem c18t_isZero_false_iff (v : Vec2 K) : v.isZero = false ↔ v ≠ ⟨0, 0⟩ := by
  rw [Ne, ← c18t_isZero_iff, Bool.not_eq_true]

/-- a vector that passes the `EPS` test is not the zero vector -/
theorem c18t_ne_zero_of_eps_lt (v : Vec2 K)
    (h : Scalar.lt (Scalar.ofRat (1/1000000000000) : K) v.hypot2 = true) : v ≠ ⟨0, 0⟩ := by
  rintro rfl
  simp only [kdefs, scalar_norm, decide_eq_true_eq, mul_zero, add_zero] at h
  have : (0 : K) < ((1/1000000000000 : ℚ) : K) := by
    have : (0 : ℚ) < 1/1000000000000 := by norm_num
    exact_mod_cast this
  exact absurd h (not_lt.mpr this.le)

theorem c18t_point_sub_eq_zero (a b : Point K) : (a - b : Vec2 K) = ⟨0, 0⟩ ↔ a = b := by
  cases a; cases b
  simp only [kdefs, scalar_norm, Vec2.mk.injEq, Point.mk.injEq, sub_eq_zero]

/-- the fall-back of the quadratic: `if |a|² > EPS || c == 0 { a } else { c }` is zero only if both are -/
theorem c18t_quadPick (a c : Vec2 K) :
    (if (Scalar.lt (Scalar.ofRat (1/1000000000000) : K) a.hypot2 || c.isZero) = true then a else c) = ⟨0, 0⟩
      ↔ a = ⟨0, 0⟩ ∧ c = ⟨0, 0⟩ := by
  by_cases hc : c.isZero = true
  · have hc0 := (c18t_isZero_iff c).mp hc
    simp only [hc, Bool.or_true, if_true]
    simp only [hc0, and_true]
  · have hc0 : c ≠ ⟨0, 0⟩ := fun h => hc ((c18t_isZero_iff c).mpr h)
    rw [Bool.not_eq_true] at hc
    by_cases ha : Scalar.lt (Scalar.ofRat (1/1000000000000) : K) a.hypot2 = true
    · have ha0 := c18t_ne_zero_of_eps_lt a ha
      simp only [ha, Bool.true_or, if_true]
      exact ⟨fun h => absurd h ha0, fun h => h.1⟩
    · rw [Bool.not_eq_true] at ha
      simp only [ha, hc, Bool.or_false, Bool.false_eq_true, if_false]
      exact ⟨fun h => absurd h hc0, fun h => h.2⟩

/-- the fall-back chain of the cubic is zero only if all three candidates are -/
theorem c18t_cubicPick (a b c : Vec2 K) :
    (if Scalar.lt (Scalar.ofRat (1/1000000000000) : K) a.hypot2 = true then a
      else if Scalar.lt (Scalar.ofRat (1/1000000000000) : K) b.hypot2 = true then b
      else if (!c.isZero) = true then c
      else if (!a.isZero) = true then a
      else b) = ⟨0, 0⟩
      ↔ a = ⟨0, 0⟩ ∧ b = ⟨0, 0⟩ ∧ c = ⟨0, 0⟩ := by
  by_cases ha : Scalar.lt (Scalar.ofRat (1/1000000000000) : K) a.hypot2 = true
  · have ha0 := c18t_ne_zero_of_eps_lt a ha
    rw [if_pos ha]
    exact ⟨fun h => absurd h ha0, fun h => h.1⟩
  rw [if_neg ha]
  by_cases hb : Scalar.lt (Scalar.ofRat (1/1000000000000) : K) b.hypot2 = true
  · have hb0 := c18t_ne_zero_of_eps_lt b hb
    rw [if_pos hb]
    exact ⟨fun h => absurd h hb0, fun h => h.2.1⟩
  rw [if_neg hb]
  by_cases hc : c.isZero = true
  · have hc0 := (c18t_isZero_iff c).mp hc
    simp only [hc, Bool.not_true, Bool.false_eq_true, if_false]
    by_cases haz : a.isZero = true
    · have ha0 := (c18t_isZero_iff a).mp haz
      simp only [haz, Bool.not_true, Bool.false_eq_true, if_false]
      simp only [ha0, hc0, true_and, and_true]
    · have ha0 : a ≠ ⟨0, 0⟩ := fun h => haz ((c18t_isZero_iff a).mpr h)
      rw [Bool.not_eq_true] at haz
      simp only [haz, Bool.not_false, if_true]
      exact ⟨fun h => absurd h ha0, fun h => h.1⟩
  · have hc0 : c ≠ ⟨0, 0⟩ := fun h => hc ((c18t_isZero_iff c).mpr h)
    rw [Bool.not_eq_true] at hc
    simp only [hc, Bool.not_false, if_true]
    exact ⟨fun h => absurd h hc0, fun h => h.2.2⟩

end lawful
end Kurbo
