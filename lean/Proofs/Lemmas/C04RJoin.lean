import Proofs.Lemmas.C04RReal
import Proofs.Lemmas.C04Real
import Proofs.Lemmas.C10Ellipse
/-! Helper lemmas for C04R, part 3: the round branch of `do_join`; with `LawfulReal` (`atan2 y x = arg (x + iy)`) and
    `C04HypotLaw`: the turning angle `atan2(ab × cd, ab · cd)` rotates `norm(ab)` to `norm(cd)`, so the round join starts where
    the previous offset segment ended. -/
set_option linter.unusedSectionVars false
namespace Kurbo

section lawful
variable {K : Type} [Field K] [LinearOrder K] [IsStrictOrderedRing K] [FloorRing K] [Scalar K] [LawfulScalar K]

/-- the round branch of `do_join` (`style.join` neither bevel nor miter, join not skipped) -/
theorem c04r_joinApp_round (c : StrokeCtx K) (style : StrokeStyle K) (tan0 : Vec2 K) (hj0 : style.join ≠ 0)
    (hj1 : style.join ≠ 1) (ht : c04_joinTest c tan0 = true) :
    c04_joinApp c style tan0 =
      if 0 < Scalar.atan2 (c.last_tan.cross tan0) (c.last_tan.dot tan0) then
        (c04_pivotF c.last_pt (c.last_tan.cross tan0) ++
            roundJoin c.join_thresh c.last_pt (c04_norm style.width tan0) (Scalar.atan2 (c.last_tan.cross tan0) (c.last_tan.dot tan0)),
         c04_pivotB c.last_pt (c.last_tan.cross tan0) ++ [.LineTo (c.last_pt + c04_norm style.width tan0)])
      else
        (c04_pivotF c.last_pt (c.last_tan.cross tan0) ++ [.LineTo (c.last_pt - c04_norm style.width tan0)],
         c04_pivotB c.last_pt (c.last_tan.cross tan0) ++
            roundJoinRev c.join_thresh c.last_pt (-(c04_norm style.width tan0)) (-(Scalar.atan2 (c.last_tan.cross tan0) (c.last_tan.dot tan0)))) := by
  simp only [c04_joinApp, ht, hj0, hj1, if_true, if_false, scalar_norm, Nat.cast_zero, decide_eq_true_eq]

end lawful

section real
variable [Scalar ℝ] [LawfulScalar ℝ] [LawfulReal] [C04HypotLaw ℝ]

/-- `|ab|·|cd|·cos φ = ab · cd`, `|ab|·|cd|·sin φ = ab × cd` for `φ = atan2(ab × cd, ab · cd)` -/
theorem c04r_turn_cos_sin (ab cd : Vec2 ℝ) :
    Scalar.hypot ab.x ab.y * Scalar.hypot cd.x cd.y * Real.cos (Scalar.atan2 (ab.cross cd) (ab.dot cd)) = ab.x * cd.x + ab.y * cd.y ∧
    Scalar.hypot ab.x ab.y * Scalar.hypot cd.x cd.y * Real.sin (Scalar.atan2 (ab.cross cd) (ab.dot cd)) = ab.x * cd.y - ab.y * cd.x := by
  have hd : ab.dot cd = ab.x * cd.x + ab.y * cd.y := by simp only [Vec2.dot, scalar_norm]
  have hc : ab.cross cd = ab.x * cd.y - ab.y * cd.x := by simp only [Vec2.cross, scalar_norm]
  rw [LawfulReal.atan2_eq, hd, hc]
  obtain ⟨h1, h2⟩ := hyp_cos_sin_arg (ab.x * cd.x + ab.y * cd.y) (ab.x * cd.y - ab.y * cd.x)
  have hH : Real.sqrt ((ab.x * cd.x + ab.y * cd.y) ^ 2 + (ab.x * cd.y - ab.y * cd.x) ^ 2)
      = Scalar.hypot ab.x ab.y * Scalar.hypot cd.x cd.y := by
    have h0 : 0 ≤ Scalar.hypot ab.x ab.y * Scalar.hypot cd.x cd.y :=
      mul_nonneg (C04HypotLaw.hypot_nonneg _ _) (C04HypotLaw.hypot_nonneg _ _)
    rw [← Real.sqrt_sq h0]
    congr 1
    have ea := C04HypotLaw.hypot_mul_self ab.x ab.y
    have ec := C04HypotLaw.hypot_mul_self cd.x cd.y
    have : (Scalar.hypot ab.x ab.y * Scalar.hypot cd.x cd.y) ^ 2
        = (Scalar.hypot ab.x ab.y * Scalar.hypot ab.x ab.y) * (Scalar.hypot cd.x cd.y * Scalar.hypot cd.x cd.y) := by ring
    rw [this, ea, ec]; ring
  rw [hH] at h1 h2
  exact ⟨h1, h2⟩

/-- the sign of the turning angle is the sign of the cross product -/
theorem c04r_turn_sign (ab cd : Vec2 ℝ) :
    (0 < Scalar.atan2 (ab.cross cd) (ab.dot cd) → 0 ≤ ab.cross cd) ∧
    (¬ 0 < Scalar.atan2 (ab.cross cd) (ab.dot cd) → ab.cross cd ≤ 0) := by
  rw [LawfulReal.atan2_eq]
  constructor
  · intro h
    have := (Complex.arg_nonneg_iff (z := ⟨ab.dot cd, ab.cross cd⟩)).mp h.le
    exact this
  · intro h
    by_contra hc
    have hpos : 0 < ab.cross cd := not_le.mp hc
    have h0 : 0 ≤ Complex.arg ⟨ab.dot cd, ab.cross cd⟩ :=
      (Complex.arg_nonneg_iff (z := ⟨ab.dot cd, ab.cross cd⟩)).mpr hpos.le
    have he : Complex.arg ⟨ab.dot cd, ab.cross cd⟩ = 0 := le_antisymm (not_lt.mp h) h0
    have := (Complex.arg_eq_zero_iff (z := ⟨ab.dot cd, ab.cross cd⟩)).mp he
    exact hpos.ne' this.2

/-- rotating `norm(cd)` back by the turning angle gives `norm(ab)` (coordinates) -/
theorem c04r_rotate_norm (w : ℝ) (ab cd : Vec2 ℝ) (hab : ab.x ≠ 0 ∨ ab.y ≠ 0) (hcd : cd.x ≠ 0 ∨ cd.y ≠ 0) :
    let φ := Scalar.atan2 (ab.cross cd) (ab.dot cd)
    (c04_norm w cd).x * Real.cos φ + (c04_norm w cd).y * Real.sin φ = (c04_norm w ab).x ∧
    (c04_norm w cd).y * Real.cos φ - (c04_norm w cd).x * Real.sin φ = (c04_norm w ab).y := by
  intro φ
  rw [c04_norm_x, c04_norm_y, c04_norm_x, c04_norm_y]
  obtain ⟨hC, hS⟩ := c04r_turn_cos_sin ab cd
  have ha := c04_hypot_pos ab.x ab.y hab
  have hd := c04_hypot_pos cd.x cd.y hcd
  have ed := C04HypotLaw.hypot_mul_self cd.x cd.y
  set a := Scalar.hypot ab.x ab.y with ha'
  set d := Scalar.hypot cd.x cd.y with hd'
  set C := Real.cos φ with hC'
  set S := Real.sin φ with hS'
  have k1 : (-cd.y * C + cd.x * S) * a = -ab.y * d := by
    apply mul_right_cancel₀ hd.ne'
    linear_combination (-cd.y) * hC + cd.x * hS + ab.y * ed
  have k2 : (cd.x * C + cd.y * S) * a = ab.x * d := by
    apply mul_right_cancel₀ hd.ne'
    linear_combination cd.x * hC + cd.y * hS - ab.x * ed
  constructor
  · have : -cd.y * (1 / 2 * w / d) * C + cd.x * (1 / 2 * w / d) * S = (1 / 2 * w / d) * (-cd.y * C + cd.x * S) := by ring
    rw [this, show -cd.y * C + cd.x * S = -ab.y * d / a from by rw [eq_div_iff ha.ne']; exact k1]
    field_simp
  · have : cd.x * (1 / 2 * w / d) * C - -cd.y * (1 / 2 * w / d) * S = (1 / 2 * w / d) * (cd.x * C + cd.y * S) := by ring
    rw [this, show cd.x * C + cd.y * S = ab.x * d / a from by rw [eq_div_iff ha.ne']; exact k2]
    field_simp

end real
end Kurbo
