import Kurbo.Quads
import Mathlib.Tactic.SplitIfs
import Mathlib.Data.List.Basic
/-! Helper lemmas for C17: the loop of `approx_spline_n` in closed form (no arithmetic law is used).

    `splineStep` is the body of the loop, copied verbatim from `CubicBez.approx_spline_n`; `approx_spline_n_eq`
    (`rfl`) shows that it *is* the body.  `splineState … j` is the loop state after `j` iterations in closed form.
    `open Ops` is confined to the first section: it holds only these helper *definitions* in model syntax (so that they
    are syntactically the sub-terms of the model) and three unfolding lemmas; no arithmetic statement lives there. -/
namespace Kurbo
section
open Ops
variable {K : Type} [Scalar K]

/-- the loop body of `approx_spline_n`, verbatim -/
def splineStep (n : Nat) (accuracy : K) (acc : Option (SplineSt K)) (i : Nat) : Option (SplineSt K) :=
  match acc with
  | none => none
  | some st =>
    let current_cubic := st.next_cubic
    let q0 := st.q2
    let q1 := st.next_q1
    let st' : Option (SplineSt K × Point K) :=
      if i < n then
        match st.rest with
        | [] => none
        | nc :: rest' =>
          let nq1 := nc.approx_quad_control (natK i / natK (n - 1))
          some ({ st with next_cubic := nc, next_q1 := nq1, spline := st.spline ++ [nq1], rest := rest' }, q1.midpoint nq1)
      else some (st, current_cubic.p3)
    match st' with
    | none => none
    | some (st2, q2) =>
      let d0 := st.d1
      let d1 := q2.to_vec2 - current_cubic.p3.to_vec2
      if accuracy <. d1.hypot
          || !(CubicBez.new d0.to_point (q0.lerp q1 ((2 : K) / (3 : K)) - current_cubic.p1.to_vec2)
                (q2.lerp q1 ((2 : K) / (3 : K)) - current_cubic.p2.to_vec2) d1.to_point).fit_inside accuracy fitFuel then none
      else some { st2 with q2 := q2, d1 := d1 }

theorem approx_spline_n_eq (self : CubicBez K) (n : Nat) (accuracy : K) :
    self.approx_spline_n n accuracy =
      if n == 1 then
        (self.try_approx_quadratic accuracy).map fun q => [q.p0, q.p1, q.p2]
      else
        match self.split_into_n n with
        | [] => none
        | first :: rest =>
          match ((List.range n).map (· + 1)).foldl (splineStep n accuracy)
              (some { next_cubic := first, next_q1 := first.approx_quad_control (0 : K), q2 := self.p0, d1 := Vec2.ZERO,
                      spline := [self.p0, first.approx_quad_control (0 : K)], rest := rest }) with
          | none => none
          | some st => some (st.spline ++ [self.p3]) := rfl

/-- control point `k` (0-based, `k < n`) of the spline built from the pieces `S 0 … S (n-1)` -/
def splineQ (S : Nat → CubicBez K) (n k : Nat) : Point K :=
  if k = 0 then (S 0).approx_quad_control (0 : K) else (S k).approx_quad_control (natK k / natK (n - 1))

theorem splineQ_succ (S : Nat → CubicBez K) (n k : Nat) :
    splineQ S n (k + 1) = (S (k + 1)).approx_quad_control (natK (k + 1) / natK (n - 1)) := by
  unfold splineQ; rw [if_neg (Nat.succ_ne_zero k)]

theorem splineQ_zero (S : Nat → CubicBez K) (n : Nat) : splineQ S n 0 = (S 0).approx_quad_control (0 : K) := by
  unfold splineQ; rw [if_pos rfl]

/-- the on-curve point `q2` after iteration `j` (`j = 0`: the start point) -/
def splineQ2 (c0 : Point K) (S : Nat → CubicBez K) (n j : Nat) : Point K :=
  if j = 0 then c0 else if j < n then (splineQ S n (j - 1)).midpoint (splineQ S n j) else (S (j - 1)).p3

/-- the end-point error `d1` after iteration `j` -/
def splineD1 (c0 : Point K) (S : Nat → CubicBez K) (n j : Nat) : Vec2 K :=
  if j = 0 then Vec2.ZERO else (splineQ2 c0 S n j).to_vec2 - (S (j - 1)).p3.to_vec2

/-- the error cubic tested in iteration `j + 1` (quadratic number `j`) -/
def splineErr (c0 : Point K) (S : Nat → CubicBez K) (n j : Nat) : CubicBez K :=
  CubicBez.new (splineD1 c0 S n j).to_point
    ((splineQ2 c0 S n j).lerp (splineQ S n j) ((2 : K) / (3 : K)) - (S j).p1.to_vec2)
    ((splineQ2 c0 S n (j + 1)).lerp (splineQ S n j) ((2 : K) / (3 : K)) - (S j).p2.to_vec2)
    (splineD1 c0 S n (j + 1)).to_point

/-- iteration `j + 1` does not give up -/
def splineCheck (a : K) (c0 : Point K) (S : Nat → CubicBez K) (n j : Nat) : Bool :=
  !(a <. (splineD1 c0 S n (j + 1)).hypot || !(splineErr c0 S n j).fit_inside a fitFuel)

/-- the loop state after `j` iterations -/
def splineState (c0 : Point K) (S : Nat → CubicBez K) (n j : Nat) : SplineSt K :=
  { next_cubic := S (min j (n - 1)), next_q1 := splineQ S n (min j (n - 1)), q2 := splineQ2 c0 S n j,
    d1 := splineD1 c0 S n j, spline := c0 :: (List.range (min j (n - 1) + 1)).map (splineQ S n),
    rest := ((List.range n).map S).drop (min j (n - 1) + 1) }

end

variable {K : Type} [Scalar K]

theorem splineStep_state (a : K) (c0 : Point K) (S : Nat → CubicBez K) (n j : Nat) (hj : j < n) :
    splineStep n a (some (splineState c0 S n j)) (j + 1)
      = if splineCheck a c0 S n j then some (splineState c0 S n (j + 1)) else none := by
  by_cases hlt : j + 1 < n
  · have m1 : min j (n - 1) = j := by omega
    have m2 : min (j + 1) (n - 1) = j + 1 := by omega
    have hdrop : ((List.range n).map S).drop (j + 1) = S (j + 1) :: ((List.range n).map S).drop (j + 2) := by
      rw [List.drop_eq_getElem_cons (by simp; omega)]
      simp
    have hQ := splineQ_succ S n j
    have hQ2 : splineQ2 c0 S n (j + 1) = (splineQ S n j).midpoint (splineQ S n (j + 1)) := by
      simp [splineQ2, hlt]
    have hD1 : splineD1 c0 S n (j + 1) = (splineQ2 c0 S n (j + 1)).to_vec2 - (S j).p3.to_vec2 := by
      simp [splineD1]
    have hsp : c0 :: List.map (splineQ S n) (List.range (j + 1)) ++ [splineQ S n (j + 1)]
        = c0 :: List.map (splineQ S n) (List.range (j + 1 + 1)) := by
      rw [List.range_succ (n := j + 1)]; simp
    simp only [splineStep, splineState, m1, m2, hlt, if_true, hdrop]
    rw [← hQ, ← hQ2, ← hD1, hsp]
    simp only [splineCheck, splineErr]
    split_ifs with h1 h2 <;> simp_all
  · have hn : j + 1 = n := by omega
    have m1 : min j (n - 1) = j := by omega
    have m2 : min (j + 1) (n - 1) = j := by omega
    have hQ2 : splineQ2 c0 S n (j + 1) = (S j).p3 := by
      simp [splineQ2, hlt]
    have hD1 : splineD1 c0 S n (j + 1) = (splineQ2 c0 S n (j + 1)).to_vec2 - (S j).p3.to_vec2 := by
      simp [splineD1]
    simp only [splineStep, splineState, m1, m2, hlt, if_false]
    simp only [splineCheck, splineErr, hD1, hQ2]
    split_ifs with h1 h2 <;> simp_all

theorem splineStep_none (n : Nat) (a : K) (i : Nat) : splineStep n a none i = none := rfl

theorem splineFold (a : K) (c0 : Point K) (S : Nat → CubicBez K) (n : Nat) : ∀ j, j ≤ n →
    ((List.range j).map (· + 1)).foldl (splineStep n a) (some (splineState c0 S n 0))
      = if (List.range j).all (splineCheck a c0 S n) then some (splineState c0 S n j) else none
  | 0, _ => by simp
  | j + 1, hj => by
    rw [List.range_succ, List.map_append, List.foldl_append, splineFold a c0 S n j (by omega)]
    simp only [List.map_cons, List.map_nil, List.foldl_cons, List.foldl_nil, List.all_append, List.all_cons,
      List.all_nil, Bool.and_true]
    by_cases hall : (List.range j).all (splineCheck a c0 S n) = true
    · rw [if_pos hall, splineStep_state a c0 S n j (by omega), hall]
      simp
    · rw [if_neg hall, splineStep_none]
      simp only [Bool.not_eq_true] at hall
      simp [hall]

theorem splineState_zero (c0 : Point K) (S : Nat → CubicBez K) (n : Nat) :
    splineState c0 S (n + 1) 0
      = { next_cubic := S 0, next_q1 := splineQ S (n + 1) 0, q2 := c0, d1 := Vec2.ZERO,
          spline := [c0, splineQ S (n + 1) 0], rest := (List.range n).map (fun i => S (i + 1)) } := by
  simp [splineState, splineQ2, splineD1, List.range_succ_eq_map, Function.comp_def]

/-- `approx_spline_n` (n ≠ 1) in closed form: the control points and the list of checks that passed -/
theorem approx_spline_n_closed (c : CubicBez K) (n : Nat) (a : K) (pts : List (Point K)) (S : Nat → CubicBez K)
    (hn : n ≠ 1) (hS : c.split_into_n n = (List.range n).map S) (h : c.approx_spline_n n a = some pts) :
    2 ≤ n ∧ pts = c.p0 :: ((List.range n).map (splineQ S n) ++ [c.p3]) ∧
      ∀ j, j < n → splineCheck a c.p0 S n j = true := by
  rw [approx_spline_n_eq, hS] at h
  have hn' : (n == 1) = false := by simpa using hn
  simp only [hn', Bool.false_eq_true, if_false] at h
  rcases n with _ | n
  · simp at h
  · rw [List.range_succ_eq_map, List.map_cons, List.map_map] at h
    simp only [] at h
    have hinit := splineState_zero c.p0 S n
    rw [splineQ_zero] at hinit
    have hfold := splineFold a c.p0 S (n + 1) (n + 1) (Nat.le_refl _)
    rw [hinit] at hfold
    simp only [Function.comp_def] at h
    rw [← List.range_succ_eq_map] at h
    erw [hfold] at h
    by_cases hall : (List.range (n + 1)).all (splineCheck a c.p0 S (n + 1)) = true
    · rw [if_pos hall] at h
      simp only [Option.some.injEq] at h
      refine ⟨by omega, ?_, ?_⟩
      · rw [← h]
        have : min (n + 1) (n + 1 - 1) + 1 = n + 1 := by omega
        simp [splineState]
      · intro j hj
        rw [List.all_eq_true] at hall
        exact hall j (List.mem_range.mpr hj)
    · rw [if_neg hall] at h
      cases h

/-! ### `quadSplineToQuads` of such a control point list -/

omit [Scalar K] in
theorem ctrl_get_lt (Q : Nat → Point K) (c3 : Point K) (n k : Nat) (hk : k < n) :
    ((List.range n).map Q ++ [c3])[k]? = some (Q k) := by
  rw [List.getElem?_append_left (by simpa using hk)]
  simp [hk]

omit [Scalar K] in
theorem ctrl_get_n (Q : Nat → Point K) (c3 : Point K) (n : Nat) :
    ((List.range n).map Q ++ [c3])[n]? = some c3 := by
  rw [List.getElem?_append_right (by simp)]
  simp

theorem quadSplineToQuads_closed (c0 c3 : Point K) (Q : Nat → Point K) (n : Nat) :
    quadSplineToQuads (c0 :: ((List.range n).map Q ++ [c3]))
      = (List.range n).map fun idx =>
          (⟨if idx = 0 then c0 else (Q (idx - 1)).midpoint (Q idx), Q idx,
            if idx + 1 < n then (Q idx).midpoint (Q (idx + 1)) else c3⟩ : QuadBez K) := by
  unfold quadSplineToQuads
  have hlen : (c0 :: ((List.range n).map Q ++ [c3])).length - 2 = n := by simp
  simp only [hlen]
  conv_rhs => rw [← List.filterMap_eq_map]
  apply List.filterMap_congr
  intro idx hidx
  have hi : idx < n := List.mem_range.mp hidx
  have h1 : (c0 :: ((List.range n).map Q ++ [c3]))[idx + 1]? = some (Q idx) := by
    rw [List.getElem?_cons_succ]; exact ctrl_get_lt Q c3 n idx hi
  have h0 : (c0 :: ((List.range n).map Q ++ [c3]))[idx]? = some (if idx = 0 then c0 else Q (idx - 1)) := by
    rcases idx with _ | k
    · simp
    · rw [List.getElem?_cons_succ, ctrl_get_lt Q c3 n k (by omega)]; simp
  have h2 : (c0 :: ((List.range n).map Q ++ [c3]))[idx + 2]? = some (if idx + 1 < n then Q (idx + 1) else c3) := by
    rw [List.getElem?_cons_succ]
    by_cases hlt : idx + 1 < n
    · rw [ctrl_get_lt Q c3 n (idx + 1) hlt, if_pos hlt]
    · have : idx + 1 = n := by omega
      rw [if_neg hlt, this, ctrl_get_n]
  rw [h0, h1, h2]
  have hl2 : (c0 :: ((List.range n).map Q ++ [c3])).length - 1 = n + 1 := by simp
  simp only [hl2, Function.comp_apply, Option.some.injEq]
  rcases idx with _ | k
  · by_cases hlt : 0 + 1 < n
    · have : 0 + 2 < n + 1 := by omega
      simp [hlt, this]
    · have : ¬ 0 + 2 < n + 1 := by omega
      simp [hlt, this]
  · by_cases hlt : k + 1 + 1 < n
    · have : k + 1 + 2 < n + 1 := by omega
      simp [hlt, this]
    · have : ¬ k + 1 + 2 < n + 1 := by omega
      simp [hlt, this]

omit [Scalar K] in
/-- every list of `n + 2` points has the shape used by `quadSplineToQuads_closed` -/
theorem list_shape {α : Type} (pts : List α) (n : Nat) (h : pts.length = n + 2) (d : α) :
    pts = pts[0]?.getD d :: ((List.range n).map (fun k => pts[k + 1]?.getD d) ++ [pts[n + 1]?.getD d]) := by
  apply List.ext_getElem?
  intro i
  rcases i with _ | i
  · rw [List.getElem?_cons_zero, List.getElem?_eq_getElem (by omega)]; rfl
  · rw [List.getElem?_cons_succ]
    rcases Nat.lt_trichotomy i n with hlt | heq | hgt
    · rw [List.getElem?_append_left (by simpa using hlt)]
      rw [List.getElem?_map, List.getElem?_range hlt]
      have hi : i + 1 < pts.length := by omega
      simp [List.getElem?_eq_getElem hi]
    · subst heq
      rw [List.getElem?_append_right (by simp)]
      rw [List.getElem?_eq_getElem (by omega)]; simp
    · rw [List.getElem?_eq_none (by omega), List.getElem?_eq_none (by simp; omega)]

/-- `QuadSpline::to_quads` on any control point list of length `n + 2`: `n` quadratics; quadratic `idx` has the
    control point `pts[idx+1]`, starts at `pts[0]` (`idx = 0`) or at the midpoint of `pts[idx], pts[idx+1]`, and ends
    at the midpoint of `pts[idx+1], pts[idx+2]` or (last one) at `pts[n+1]` -/
theorem quadSplineToQuads_general (pts : List (Point K)) (n : Nat) (h : pts.length = n + 2) :
    (quadSplineToQuads pts).length = n ∧
    ∀ idx, idx < n → ∃ p0 p1 p2, pts[idx]? = some p0 ∧ pts[idx + 1]? = some p1 ∧ pts[idx + 2]? = some p2 ∧
      (quadSplineToQuads pts)[idx]? = some ⟨if idx = 0 then p0 else p0.midpoint p1, p1,
        if idx + 1 < n then p1.midpoint p2 else p2⟩ := by
  have hne : pts ≠ [] := by intro e; rw [e] at h; simp at h
  have hshape := list_shape pts n h (pts.head hne)
  set d := pts.head hne
  have hq := quadSplineToQuads_closed (pts[0]?.getD d) (pts[n + 1]?.getD d) (fun k => pts[k + 1]?.getD d) n
  rw [← hshape] at hq
  refine ⟨by rw [hq]; simp, ?_⟩
  intro idx hidx
  have g : ∀ k, k < n + 2 → pts[k]? = some (pts[k]?.getD d) := by
    intro k hk
    rw [List.getElem?_eq_getElem (by omega)]; rfl
  refine ⟨pts[idx]?.getD d, pts[idx + 1]?.getD d, pts[idx + 2]?.getD d, g idx (by omega), g (idx + 1) (by omega),
    g (idx + 2) (by omega), ?_⟩
  rw [hq, List.getElem?_map, List.getElem?_range hidx]
  simp only [Option.map_some, Option.some.injEq, QuadBez.mk.injEq, true_and]
  constructor
  · rcases idx with _ | k
    · simp
    · simp
  · by_cases hlt : idx + 1 < n
    · simp [hlt]
    · have : n = idx + 1 := by omega
      subst this
      simp

end Kurbo
