import Proofs.Lemmas.C16Spec
/-! Helper lemmas for the C16 step lemmas: separators, number chunks (`ws* number ws* ','?`), `getNumberPair`/`getMaybeRelative`
    on well-formed chunks, `getCmd` on a letter / on implicit repetition, the arms of `svgCommand`, and the fuel-free loop `svgRun`. -/
namespace Kurbo

/-- a separator `ws* ','?` in front of `r` (without a comma, `r` must not start with white space or a comma, so the separator is
    everything `optComma` consumes) -/
def SepOk (s r : List UInt8) : Prop :=
  ∃ ws, (∀ c ∈ ws, isWs c = true) ∧ (s = ws ++ [44] ∨ (s = ws ∧ StopsAt (fun c => isWs c || c == 44) r))

theorem optComma_rem {l : Lx} {s r : List UInt8} (h : l.rem = s ++ r) (hs : SepOk s r) :
    optComma l = some (l.adv s.length) := by
  obtain ⟨ws, hws, hs | ⟨hs, hr⟩⟩ := hs
  · subst hs
    have h' : l.rem = ws ++ (44 :: r) := by rw [h]; simp
    unfold optComma
    simp only
    rw [skipWs_rem h' hws (by intro c r' hc; simp only [List.cons.injEq] at hc; rw [← hc.1]; decide)]
    have h1 : (l.adv ws.length).rem = 44 :: r := Lx.rem_adv h'
    rw [Lx.getByte_cons h1]
    simp [Lx.adv_adv]
  · subst hs
    unfold optComma
    simp only
    rw [skipWs_rem h hws (by intro c r' hc; have := hr c r' hc; simp only [Bool.or_eq_false_iff] at this; exact this.1)]
    have h1 : (l.adv s.length).rem = r := Lx.rem_adv h
    cases r with
    | nil => rw [Lx.rem_nil h1]
    | cons c r' =>
      have hg := Lx.getByte_cons h1
      rw [hg]
      have := hr c r' rfl
      simp only [Bool.or_eq_false_iff] at this
      simp only [bne, this.2, Bool.not_false, if_true]
      exact unget_after_getByte hg

/-- a number with the white space in front of it and the separator behind it: `ws* number ws* ','?` -/
structure NumChunk where
  ws : List UInt8 := []
  p : NumParts
  sep : List UInt8 := []

def NumChunk.bytes (k : NumChunk) : List UInt8 := k.ws ++ k.p.bytes ++ k.sep

/-- the chunk is well formed in front of `r` -/
structure NumChunk.Ok (k : NumChunk) (r : List UInt8) : Prop where
  ws : ∀ c ∈ k.ws, isWs c = true
  valid : k.p.Valid
  stops : k.p.Stops (k.sep ++ r)
  sep : SepOk k.sep r

section
variable {K : Type} [Scalar K]

/-- the value `getNumber` returns for the chunk -/
def NumChunk.value (k : NumChunk) : K := tokValue (parseTok k.p.bytes)

theorem getNumber_chunk {l : Lx} {k : NumChunk} {r : List UInt8} (h : l.rem = k.bytes ++ r) (hk : k.Ok r) :
    getNumber (K := K) l = .ok k.value (l.adv (k.ws.length + k.p.bytes.length)) ∧
    optComma (l.adv (k.ws.length + k.p.bytes.length)) = some (l.adv k.bytes.length) := by
  have h' : l.rem = k.ws ++ k.p.bytes ++ (k.sep ++ r) := by rw [h]; simp [NumChunk.bytes]
  refine ⟨getNumber_spec_rem l k.ws (k.sep ++ r) k.p hk.valid hk.stops hk.ws h', ?_⟩
  have h1 : (l.adv (k.ws.length + k.p.bytes.length)).rem = k.sep ++ r := by
    rw [← List.length_append]; exact Lx.rem_adv h'
  rw [optComma_rem h1 hk.sep, Lx.adv_adv]
  simp [NumChunk.bytes, Nat.add_assoc]

theorem getNumberPair_spec {l : Lx} {k1 k2 : NumChunk} {r : List UInt8} (h : l.rem = k1.bytes ++ (k2.bytes ++ r))
    (h1 : k1.Ok (k2.bytes ++ r)) (h2 : k2.Ok r) :
    getNumberPair (K := K) l = .ok ⟨k1.value, k2.value⟩ (l.adv (k1.bytes.length + k2.bytes.length)) := by
  obtain ⟨ha, hb⟩ := getNumber_chunk (K := K) h h1
  have h' : (l.adv k1.bytes.length).rem = k2.bytes ++ r := Lx.rem_adv h
  obtain ⟨hc, hd⟩ := getNumber_chunk (K := K) h' h2
  unfold getNumberPair
  rw [ha]; simp only [hb]
  rw [hc]; simp only [hd]; rw [Lx.adv_adv]

theorem getMaybeRelative_spec {l : Lx} {k1 k2 : NumChunk} {r : List UInt8} (cmd : UInt8) (last : Point K)
    (h : l.rem = k1.bytes ++ (k2.bytes ++ r)) (h1 : k1.Ok (k2.bytes ++ r)) (h2 : k2.Ok r) :
    getMaybeRelative cmd last l =
      .ok (if isLower cmd then last + (⟨k1.value, k2.value⟩ : Point K).to_vec2 else ⟨k1.value, k2.value⟩)
        (l.adv (k1.bytes.length + k2.bytes.length)) := by
  unfold getMaybeRelative
  rw [getNumberPair_spec h h1 h2]
  simp only
  split <;> rfl

end

theorem isLetter_not_ws {c : UInt8} (h : (isLower c || isUpper c) = true) : isWs c = false := by
  unfold isWs
  simp only [Bool.or_eq_false_iff, beq_eq_false_iff_ne, ne_eq]
  refine ⟨⟨⟨⟨?_, ?_⟩, ?_⟩, ?_⟩, ?_⟩ <;> (rintro rfl; revert h; decide)

theorem getCmd_letter_rem {l : Lx} {ws r : List UInt8} {c : UInt8} (lc : UInt8) (h : l.rem = ws ++ c :: r)
    (hws : ∀ c ∈ ws, isWs c = true) (hc : (isLower c || isUpper c) = true) :
    getCmd lc l = some (some c, l.adv (ws.length + 1)) := by
  unfold getCmd
  simp only
  rw [skipWs_rem h hws (by intro c' r' hc'; simp only [List.cons.injEq] at hc'; rw [← hc'.1]; exact isLetter_not_ws hc)]
  have h1 : (l.adv ws.length).rem = c :: r := Lx.rem_adv h
  rw [Lx.getByte_cons h1]
  simp [hc, Lx.adv_adv]

theorem getCmd_end_rem {l : Lx} {ws : List UInt8} (lc : UInt8) (h : l.rem = ws) (hws : ∀ c ∈ ws, isWs c = true) :
    getCmd lc l = some (none, l.adv ws.length) := by
  unfold getCmd
  simp only
  have h' : l.rem = ws ++ [] := by simpa using h
  rw [skipWs_rem h' hws (by intro c r' hc; simp at hc)]
  rw [Lx.rem_nil (Lx.rem_adv h')]

section
variable {K : Type} [Scalar K]

/-- the implicit `MoveTo` a non-move command flushes into the path -/
def SvgSt.flushed (st : SvgSt K) : SvgSt K :=
  match st.implicit_moveto with
  | some pt => { st with path := st.path ++ [.MoveTo pt], implicit_moveto := none }
  | none => st

omit [Scalar K] in
theorem svgPre_of_nonempty {c : UInt8} {st : SvgSt K} (hc : c ≠ 109 ∧ c ≠ 77) (hp : st.path ≠ []) :
    svgPre c st = some st.flushed := by
  unfold svgPre SvgSt.flushed
  have : (c != 109 && c != 77) = true := by simp [hc.1, hc.2]
  rw [if_pos this]
  have : st.path.isEmpty = false := by simpa using hp
  rw [this]; simp only [Bool.false_eq_true, if_false]
  cases h : st.implicit_moveto <;> rfl

/-- go to the arm of `svgCommand` selected by `hlc : lowerCmd c = <letter>`, given `hpre : svgPre c st = some st1` -/
macro "svg_arm" hpre:ident hlc:ident : tactic => `(tactic| (
  unfold svgCommand
  simp only
  split
  · rename_i heq
    have hh : svgPre _ _ = none := heq
    rw [$hpre:ident] at hh; cases hh
  rename_i st1 heq
  have hh : svgPre _ _ = some st1 := heq
  rw [$hpre:ident] at hh
  cases hh
  rw [show (if isUpper _ = true then _ + 32 else _) = lowerCmd _ from rfl, $hlc:ident]))

theorem svgCommand_close (st : SvgSt K) (l : Lx) {c : UInt8} (hc : c = 122 ∨ c = 90) (hp : st.path ≠ []) :
    svgCommand c st l =
      .ok { st.flushed with
              path := st.flushed.path ++ [.ClosePath], last_pt := st.first_pt, last_ctrl := none,
              implicit_moveto := some st.first_pt } l := by
  have hpre : svgPre c st = some st.flushed := svgPre_of_nonempty (by rcases hc with rfl | rfl <;> decide) hp
  have hf : st.flushed.first_pt = st.first_pt := by unfold SvgSt.flushed; split <;> rfl
  have hlc : lowerCmd c = 122 := lowerCmd_eq_122.mpr hc
  svg_arm hpre hlc
  rw [hf]; rfl

theorem svgCommand_moveTo {c : UInt8} {st : SvgSt K} {l l1 : Lx} {pt : Point K} (hc : c = 109 ∨ c = 77)
    (h1 : getMaybeRelative c st.last_pt l = .ok pt l1) :
    svgCommand c st l =
      .ok { st with
              implicit_moveto := none, path := st.path ++ [.MoveTo pt], last_pt := pt, first_pt := pt,
              last_ctrl := some pt, last_cmd := c - 1 } l1 := by
  have hpre : svgPre c st = some st := by rcases hc with rfl | rfl <;> rfl
  have hlc : lowerCmd c = 109 := by rcases hc with rfl | rfl <;> decide
  svg_arm hpre hlc
  rw [show ((109 : UInt8) == 109) = true from rfl, if_pos rfl, h1]

theorem svgCommand_lineTo {c : UInt8} {st st1 : SvgSt K} {l l1 : Lx} {pt : Point K} (hlc : lowerCmd c = 108)
    (hpre : svgPre c st = some st1) (h1 : getMaybeRelative c st1.last_pt l = .ok pt l1) :
    svgCommand c st l =
      .ok { st1 with path := st1.path ++ [.LineTo pt], last_ctrl := some pt, last_pt := pt, last_cmd := c } l1 := by
  svg_arm hpre hlc
  rw [show ((108 : UInt8) == 109) = false from rfl, if_neg (by decide), show ((108 : UInt8) == 108) = true from rfl,
    if_pos rfl, h1]

theorem svgCommand_horiz {c : UInt8} {st st1 : SvgSt K} {l l1 l2 : Lx} {x : K} (hlc : lowerCmd c = 104)
    (hpre : svgPre c st = some st1) (h1 : getNumber (K := K) l = .ok x l1) (h2 : optComma l1 = some l2) :
    svgCommand c st l =
      (let pt : Point K := ⟨if c == 104 then Scalar.add x st1.last_pt.x else x, st1.last_pt.y⟩
       .ok { st1 with path := st1.path ++ [.LineTo pt], last_ctrl := some pt, last_pt := pt, last_cmd := c } l2) := by
  svg_arm hpre hlc
  simp +decide only [h1, h2, if_false, if_true]
  rfl

theorem svgCommand_vert {c : UInt8} {st st1 : SvgSt K} {l l1 l2 : Lx} {y : K} (hlc : lowerCmd c = 118)
    (hpre : svgPre c st = some st1) (h1 : getNumber (K := K) l = .ok y l1) (h2 : optComma l1 = some l2) :
    svgCommand c st l =
      (let pt : Point K := ⟨st1.last_pt.x, if c == 118 then Scalar.add y st1.last_pt.y else y⟩
       .ok { st1 with path := st1.path ++ [.LineTo pt], last_ctrl := some pt, last_pt := pt, last_cmd := c } l2) := by
  svg_arm hpre hlc
  simp +decide only [h1, h2, if_false, if_true]
  rfl

theorem svgCommand_quadTo {c : UInt8} {st st1 : SvgSt K} {l l1 l2 : Lx} {p1 p2 : Point K} (hlc : lowerCmd c = 113)
    (hpre : svgPre c st = some st1) (h1 : getMaybeRelative c st1.last_pt l = .ok p1 l1)
    (h2 : getMaybeRelative c st1.last_pt l1 = .ok p2 l2) :
    svgCommand c st l =
      .ok { st1 with path := st1.path ++ [.QuadTo p1 p2], last_ctrl := some p1, last_pt := p2, last_cmd := c } l2 := by
  svg_arm hpre hlc
  simp +decide only [h1, h2, if_false, if_true]

/-- the first control point of a smooth quadratic `T`: the reflection of the last control point if the previous command was
    `Q`/`q`/`T`/`t`, else the current point -/
def SvgSt.smoothQuadCtrl (st : SvgSt K) : Point K :=
  match st.last_ctrl with
  | some ctrl =>
    if st.last_cmd == 113 || st.last_cmd == 81 || st.last_cmd == 116 || st.last_cmd == 84 then reflectCtrl st.last_pt ctrl
    else st.last_pt
  | none => st.last_pt

/-- the first control point of a smooth cubic `S` -/
def SvgSt.smoothCubicCtrl (st : SvgSt K) : Point K :=
  match st.last_ctrl with
  | some ctrl =>
    if st.last_cmd == 99 || st.last_cmd == 67 || st.last_cmd == 115 || st.last_cmd == 83 then reflectCtrl st.last_pt ctrl
    else st.last_pt
  | none => st.last_pt

theorem svgCommand_smoothQuadTo {c : UInt8} {st st1 : SvgSt K} {l l1 : Lx} {p2 : Point K} (hlc : lowerCmd c = 116)
    (hpre : svgPre c st = some st1) (h1 : getMaybeRelative c st1.last_pt l = .ok p2 l1) :
    svgCommand c st l =
      .ok { st1 with path := st1.path ++ [.QuadTo st1.smoothQuadCtrl p2], last_ctrl := some st1.smoothQuadCtrl,
                     last_pt := p2, last_cmd := c } l1 := by
  svg_arm hpre hlc
  simp +decide only [h1, if_false, if_true]
  rfl

theorem svgCommand_curveTo {c : UInt8} {st st1 : SvgSt K} {l l1 l2 l3 : Lx} {p1 p2 p3 : Point K} (hlc : lowerCmd c = 99)
    (hpre : svgPre c st = some st1) (h1 : getMaybeRelative c st1.last_pt l = .ok p1 l1)
    (h2 : getMaybeRelative c st1.last_pt l1 = .ok p2 l2) (h3 : getMaybeRelative c st1.last_pt l2 = .ok p3 l3) :
    svgCommand c st l =
      .ok { st1 with path := st1.path ++ [.CurveTo p1 p2 p3], last_ctrl := some p2, last_pt := p3, last_cmd := c } l3 := by
  svg_arm hpre hlc
  simp +decide only [h1, h2, h3, if_false, if_true]

theorem svgCommand_smoothCurveTo {c : UInt8} {st st1 : SvgSt K} {l l1 l2 : Lx} {p2 p3 : Point K} (hlc : lowerCmd c = 115)
    (hpre : svgPre c st = some st1) (h1 : getMaybeRelative c st1.last_pt l = .ok p2 l1)
    (h2 : getMaybeRelative c st1.last_pt l1 = .ok p3 l2) :
    svgCommand c st l =
      .ok { st1 with path := st1.path ++ [.CurveTo st1.smoothCubicCtrl p2 p3], last_ctrl := some p2, last_pt := p3,
                     last_cmd := c } l2 := by
  svg_arm hpre hlc
  simp +decide only [h1, h2, if_false, if_true]
  rfl

theorem isNumStart_not_ws {c : UInt8} (h : isNumStart c = true) : isWs c = false := by
  unfold isNumStart at h
  simp only [Bool.or_eq_true, beq_iff_eq] at h
  rcases h with ((rfl | rfl) | rfl) | h
  · decide
  · decide
  · decide
  · exact (isDigit_ne h).2.2.2.2.2

theorem isNumStart_not_letter {c : UInt8} (h : isNumStart c = true) : (isLower c || isUpper c) = false := by
  unfold isNumStart at h
  simp only [Bool.or_eq_true, beq_iff_eq] at h
  rcases h with ((rfl | rfl) | rfl) | h
  · decide
  · decide
  · decide
  · unfold isDigit at h; unfold isLower isUpper
    simp only [Bool.and_eq_true, decide_eq_true_eq] at h
    simp only [Bool.or_eq_false_iff, Bool.and_eq_false_iff, decide_eq_false_iff_not, UInt8.not_le]
    have h1 := UInt8.le_iff_toNat_le.mp h.1
    have h2 := UInt8.le_iff_toNat_le.mp h.2
    simp only [UInt8.lt_iff_toNat_lt]
    simp at h1 h2 ⊢
    omega

/-- implicit repetition: a byte that can start a number makes `getCmd` return the previous command without consuming it -/
theorem getCmd_implicit_rem {l : Lx} {ws r : List UInt8} {c : UInt8} {lc : UInt8} (h : l.rem = ws ++ c :: r)
    (hws : ∀ c ∈ ws, isWs c = true) (hc : isNumStart c = true) (hlc : lc ≠ 0) :
    getCmd lc l = some (some lc, l.adv ws.length) := by
  unfold getCmd
  simp only
  rw [skipWs_rem h hws (by intro c' r' hc'; simp only [List.cons.injEq] at hc'; rw [← hc'.1]; exact isNumStart_not_ws hc)]
  have h1 : (l.adv ws.length).rem = c :: r := Lx.rem_adv h
  have hg := Lx.getByte_cons h1
  rw [hg]
  simp only [isNumStart_not_letter hc, Bool.false_eq_true, if_false]
  have : (lc != 0 && (c == 45 || c == 43 || c == 46 || isDigit c)) = true := by
    simp only [Bool.and_eq_true, bne_iff_ne, ne_eq]
    exact ⟨hlc, hc⟩
  rw [if_pos this, unget_after_getByte hg]; rfl

theorem svgLoop_step_ok (fuel : Nat) {st st' : SvgSt K} {l l1 l2 : Lx} {c : UInt8}
    (hg : getCmd st.last_cmd l = some (some c, l1)) (hs : svgCommand c st l1 = .ok st' l2) :
    svgLoop (fuel + 1) st l = svgLoop fuel st' l2 := by
  rw [svgLoop, hg]; simp only [hs]

theorem svgLoop_step_end (fuel : Nat) {st : SvgSt K} {l l1 : Lx}
    (hg : getCmd st.last_cmd l = some (none, l1)) : svgLoop (fuel + 1) st l = .ok st.path := by
  rw [svgLoop, hg]

theorem svgLoop_step_err (fuel : Nat) {st : SvgSt K} {l l1 : Lx} {c : UInt8} {e : SvgErr}
    (hg : getCmd st.last_cmd l = some (some c, l1)) (hs : svgCommand c st l1 = .err e) :
    svgLoop (fuel + 1) st l = .err e := by
  rw [svgLoop, hg]; simp only [hs]

/-- the parse loop with exactly the fuel `fromSvgBytes` would give it for the remaining bytes -/
def svgRun (st : SvgSt K) (l : Lx) : SvgRes K := svgLoop (l.data.size - l.ix + 1) st l

open Kurbo.Ops in
/-- the initial parser state of `from_svg` (the numerals are the model's `Scalar.ofRat 0`, hence the local `open Ops`) -/
def svgInit : SvgSt K := { first_pt := ⟨0, 0⟩, last_pt := ⟨0, 0⟩ }

theorem fromSvgBytes_eq_run (data : ByteArray) : fromSvgBytes (K := K) data = svgRun svgInit ⟨data, 0⟩ := rfl

theorem svgInit_inv : (svgInit (K := K)).Inv := by
  show lowerCmd 0 ≠ 122
  decide

/-- fuel-free form of a successful loop iteration -/
theorem svgRun_step {st st' : SvgSt K} {l l1 l2 : Lx} {c : UInt8} (hwf : l.WF) (hinv : st.Inv)
    (hg : getCmd st.last_cmd l = some (some c, l1)) (hs : svgCommand c st l1 = .ok st' l2) :
    svgRun st l = svgRun st' l2 ∧ l2.WF ∧ st'.Inv := by
  rcases svgLoop_step st l hinv with ⟨l', h⟩ | ⟨c', l1', h, ⟨e, hs'⟩ | ⟨st'', l2', hs', hinv', hlt⟩⟩
  · rw [hg] at h; simp at h
  · rw [hg] at h; simp only [Option.some.injEq, Prod.mk.injEq] at h
    obtain ⟨rfl, rfl⟩ := h
    rw [hs] at hs'; simp at hs'
  · rw [hg] at h; simp only [Option.some.injEq, Prod.mk.injEq] at h
    obtain ⟨rfl, rfl⟩ := h
    rw [hs] at hs'; simp only [LR.ok.injEq] at hs'
    obtain ⟨rfl, rfl⟩ := hs'
    have hwf' := hlt.wf hwf
    refine ⟨?_, hwf', hinv'⟩
    unfold svgRun
    rw [svgLoop_step_ok _ hg hs]
    have := hlt.ix
    unfold Lx.WF at hwf hwf'
    apply svgLoop_fuel_irrel _ _ _ _ hwf' hinv'
    · rw [hlt.data] at hwf' ⊢; omega
    · omega
end


section
variable {K : Type} [Scalar K]

/-- `get_maybe_relative`'s result: relative (lower-case command) or absolute -/
def relPt (c : UInt8) (last p : Point K) : Point K := if isLower c then last + p.to_vec2 else p

set_option linter.unusedSectionVars false
/-- a coordinate pair: two number chunks -/
structure PtChunk where
  x : NumChunk
  y : NumChunk

def PtChunk.bytes (q : PtChunk) : List UInt8 := q.x.bytes ++ q.y.bytes
/-- the pair is well formed in front of `r` -/
def PtChunk.Ok (q : PtChunk) (r : List UInt8) : Prop := q.x.Ok (q.y.bytes ++ r) ∧ q.y.Ok r
def PtChunk.value (q : PtChunk) : Point K := ⟨q.x.value, q.y.value⟩

theorem getMaybeRelative_pt {l : Lx} {q : PtChunk} {r : List UInt8} (cmd : UInt8) (last : Point K)
    (h : l.rem = q.bytes ++ r) (hq : q.Ok r) :
    getMaybeRelative cmd last l = .ok (relPt cmd last q.value) (l.adv q.bytes.length) := by
  have h' : l.rem = q.x.bytes ++ (q.y.bytes ++ r) := by rw [h]; simp [PtChunk.bytes]
  rw [getMaybeRelative_spec cmd last h' hq.1 hq.2]
  simp only [PtChunk.bytes, List.length_append, relPt, PtChunk.value]

@[simp] theorem SvgSt.flushed_last_pt (st : SvgSt K) : st.flushed.last_pt = st.last_pt := by
  unfold SvgSt.flushed; split <;> rfl
@[simp] theorem SvgSt.flushed_first_pt (st : SvgSt K) : st.flushed.first_pt = st.first_pt := by
  unfold SvgSt.flushed; split <;> rfl
@[simp] theorem SvgSt.flushed_last_cmd (st : SvgSt K) : st.flushed.last_cmd = st.last_cmd := by
  unfold SvgSt.flushed; split <;> rfl
@[simp] theorem SvgSt.flushed_last_ctrl (st : SvgSt K) : st.flushed.last_ctrl = st.last_ctrl := by
  unfold SvgSt.flushed; split <;> rfl
@[simp] theorem SvgSt.flushed_implicit_moveto (st : SvgSt K) : st.flushed.implicit_moveto = none := by
  unfold SvgSt.flushed; split <;> simp_all
theorem SvgSt.flushed_path (st : SvgSt K) :
    st.flushed.path = st.path ++ (match st.implicit_moveto with | some pt => [.MoveTo pt] | none => []) := by
  unfold SvgSt.flushed; split <;> simp

end

/-- a valid number token starts with a sign, a period or a digit -/
theorem NumParts.Valid.bytes_head {p : NumParts} (hv : p.Valid) : ∃ c r, p.bytes = c :: r ∧ isNumStart c = true := by
  obtain ⟨m0, mr, hm, hm0⟩ := hv.mant_head
  unfold NumParts.bytes
  rw [hm]
  rcases hv.sign with hs | hs | hs <;> rw [hs]
  · refine ⟨m0, _, rfl, ?_⟩
    unfold isNumStart
    rcases hm0 with h | rfl
    · simp [h]
    · decide
  · exact ⟨43, _, rfl, by decide⟩
  · exact ⟨45, _, rfl, by decide⟩

/-- dropping the leading white space of a chunk -/
def NumChunk.noWs (k : NumChunk) : NumChunk := { k with ws := [] }

theorem NumChunk.Ok.noWs {k : NumChunk} {r : List UInt8} (h : k.Ok r) : k.noWs.Ok r :=
  ⟨fun c hc => by simp [NumChunk.noWs] at hc, h.valid, h.stops, h.sep⟩

theorem NumChunk.bytes_noWs (k : NumChunk) : k.bytes = k.ws ++ k.noWs.bytes := by
  simp [NumChunk.bytes, NumChunk.noWs]

theorem NumChunk.value_noWs {K : Type} [Scalar K] (k : NumChunk) : (k.noWs.value : K) = k.value := rfl


/-! ### composing steps, and deciding the side conditions on concrete chunks -/

theorem Lx.adv_wf_of_rem {l : Lx} {xs r : List UInt8} (h : l.rem = xs ++ r) (hx : 0 < xs.length) :
    (l.adv xs.length).ix ≤ l.data.size := by
  have := congrArg List.length h
  simp [Lx.rem] at this
  simp only [Lx.adv_ix]
  omega

/-- from the fuel form of a step lemma to the fuel-free form -/
theorem svgRun_of_loop_step {K : Type} [Scalar K] {st st' : SvgSt K} {l : Lx} {n : Nat}
    (hstep : ∀ fuel, svgLoop (fuel + 1) st l = svgLoop fuel st' (l.adv n)) (hn : 0 < n)
    (hwf : (l.adv n).ix ≤ l.data.size) (hinv' : st'.Inv) : svgRun st l = svgRun st' (l.adv n) := by
  unfold svgRun
  rw [hstep]
  have hwf' : (l.adv n).WF := hwf
  simp only [Lx.adv_ix] at hwf
  apply svgLoop_fuel_irrel _ _ _ _ hwf' hinv'
  · simp only [Lx.adv_ix, Lx.adv_data]; omega
  · simp only [Lx.adv_ix, Lx.adv_data]; omega

theorem NumParts.stops_nil (p : NumParts) : p.Stops [] := fun c r h => by cases h
theorem NumParts.stops_cons {p : NumParts} {c : UInt8} {r : List UInt8}
    (h : isDigit c = false ∧ (p.hasExp = false → c ≠ 101 ∧ c ≠ 69 ∧ (p.dot = false → c ≠ 46))) : p.Stops (c :: r) := by
  intro c' r' hc; simp only [List.cons.injEq] at hc; rw [← hc.1]; exact h
theorem StopsAt.nil (p : UInt8 → Bool) : StopsAt p [] := fun c r h => by cases h
theorem StopsAt.cons {p : UInt8 → Bool} {c : UInt8} {r : List UInt8} (h : p c = false) : StopsAt p (c :: r) := by
  intro c' r' hc; simp only [List.cons.injEq] at hc; rw [← hc.1]; exact h

instance (p : NumParts) : Decidable p.Valid :=
  decidable_of_iff (IsSign p.sign ∧ AllDigits p.ip ∧ AllDigits p.fd ∧ (p.dot = false → p.fd = []) ∧
      0 < p.ip.length + p.fd.length ∧
      (p.hasExp = true → (p.e = 101 ∨ p.e = 69) ∧ IsSign p.esign ∧ AllDigits p.ed ∧ p.ed ≠ []))
    ⟨fun ⟨a, b, c, d, e, f⟩ => ⟨a, b, c, d, e, f⟩, fun h => ⟨h.sign, h.ip, h.fd, h.fd_nil, h.digits, h.exp⟩⟩

instance (p : NumParts) (rest : List UInt8) : Decidable (p.Stops rest) :=
  match rest with
  | [] => isTrue p.stops_nil
  | c :: r => decidable_of_iff _ ⟨NumParts.stops_cons, fun h => h c r rfl⟩

instance (p : UInt8 → Bool) (r : List UInt8) : Decidable (StopsAt p r) :=
  match r with
  | [] => isTrue (StopsAt.nil p)
  | c :: r => decidable_of_iff _ ⟨StopsAt.cons, fun h => h c r rfl⟩

/-- separator with a comma: `ws* ','` -/
theorem SepOk.comma {ws r : List UInt8} (hws : ∀ c ∈ ws, isWs c = true) : SepOk (ws ++ [44]) r := ⟨ws, hws, .inl rfl⟩
/-- separator without a comma: `ws*` (possibly empty) in front of something that is neither white space nor a comma -/
theorem SepOk.ws {ws r : List UInt8} (hws : ∀ c ∈ ws, isWs c = true) (hr : StopsAt (fun c => isWs c || c == 44) r) :
    SepOk ws r := ⟨ws, hws, .inr ⟨rfl, hr⟩⟩

theorem relPt_upper {K : Type} [Scalar K] {c : UInt8} (h : isLower c = false) (last p : Point K) : relPt c last p = p := by
  unfold relPt; rw [h]; rfl

theorem SvgSt.flushed_of_none {K : Type} {st : SvgSt K} (h : st.implicit_moveto = none) : st.flushed = st := by
  unfold SvgSt.flushed; rw [h]

section
variable {K : Type} [Scalar K]

/-! ### leading white space is irrelevant for a command that starts with a number -/

theorem getNumber_skipWs (l : Lx) : getNumber (K := K) (skipWs l) = getNumber l := by
  rw [getNumber_eq, getNumber_eq, skipWs_idem]

theorem getNumberPair_skipWs (l : Lx) : getNumberPair (K := K) (skipWs l) = getNumberPair l := by
  unfold getNumberPair; rw [getNumber_skipWs]

theorem getMaybeRelative_skipWs (c : UInt8) (p : Point K) (l : Lx) :
    getMaybeRelative c p (skipWs l) = getMaybeRelative c p l := by
  unfold getMaybeRelative; rw [getNumberPair_skipWs]

theorem svgCommand_skipWs (c : UInt8) (st : SvgSt K) (l : Lx) (hz : lowerCmd c ≠ 122) :
    svgCommand c st (skipWs l) = svgCommand c st l := by
  unfold svgCommand
  simp only [getMaybeRelative_skipWs, getNumber_skipWs, getNumberPair_skipWs]
  split
  · rfl
  rw [show (if isUpper c = true then c + 32 else c) = lowerCmd c from rfl]
  generalize lowerCmd c = lc at hz
  by_cases h109 : (lc == 109) = true
  · simp only [if_pos h109]
  simp only [if_neg h109]
  by_cases h108 : (lc == 108) = true
  · simp only [if_pos h108]
  simp only [if_neg h108]
  by_cases h104 : (lc == 104) = true
  · simp only [if_pos h104]
  simp only [if_neg h104]
  by_cases h118 : (lc == 118) = true
  · simp only [if_pos h118]
  simp only [if_neg h118]
  by_cases h113 : (lc == 113) = true
  · simp only [if_pos h113]
  simp only [if_neg h113]
  by_cases h116 : (lc == 116) = true
  · simp only [if_pos h116]
  simp only [if_neg h116]
  by_cases h99 : (lc == 99) = true
  · simp only [if_pos h99]
  simp only [if_neg h99]
  by_cases h115 : (lc == 115) = true
  · simp only [if_pos h115]
  simp only [if_neg h115]
  by_cases h97 : (lc == 97) = true
  · simp only [if_pos h97]
  simp only [if_neg h97]
  have h122 : ¬ (lc == 122) = true := by simpa using hz
  simp only [if_neg h122]

/-! ### loop glue: explicit letter / implicit repetition -/

/-- what the loop does after `getCmd` returned the command `c` and the lexer `l1` -/
def svgAfterCmd (fuel : Nat) (st : SvgSt K) (c : UInt8) (l1 : Lx) : SvgRes K :=
  match svgCommand c st l1 with
  | .panic => .panic
  | .err e => .err e
  | .ok st' l2 => svgLoop fuel st' l2

theorem svgLoop_succ_of_getCmd (fuel : Nat) {st : SvgSt K} {l l1 : Lx} {c : UInt8}
    (hg : getCmd st.last_cmd l = some (some c, l1)) : svgLoop (fuel + 1) st l = svgAfterCmd fuel st c l1 := by
  rw [svgLoop, hg]; rfl

theorem svgLoop_letter (fuel : Nat) (st : SvgSt K) {l : Lx} {ws r : List UInt8} {c : UInt8} (h : l.rem = ws ++ c :: r)
    (hws : ∀ b ∈ ws, isWs b = true) (hc : (isLower c || isUpper c) = true) :
    svgLoop (fuel + 1) st l = svgAfterCmd fuel st c (l.adv (ws.length + 1)) :=
  svgLoop_succ_of_getCmd fuel (getCmd_letter_rem st.last_cmd h hws hc)

/-- implicit repetition: if the next non-white-space byte can start a number and there was a previous command (never `z`), the
    loop behaves as if `last_cmd` had been spelled right here (nothing is consumed for it) -/
theorem svgLoop_implicit (fuel : Nat) (st : SvgSt K) {l : Lx} {ws r : List UInt8} {b : UInt8} (h : l.rem = ws ++ b :: r)
    (hws : ∀ b ∈ ws, isWs b = true) (hb : isNumStart b = true) (hlc : st.last_cmd ≠ 0) (hinv : st.Inv) :
    svgLoop (fuel + 1) st l = svgAfterCmd fuel st st.last_cmd l := by
  rw [svgLoop_succ_of_getCmd fuel (getCmd_implicit_rem h hws hb hlc)]
  have : l.adv ws.length = skipWs l :=
    (skipWs_rem h hws (by intro c' r' hc'; simp only [List.cons.injEq] at hc'; rw [← hc'.1]; exact isNumStart_not_ws hb)).symm
  unfold svgAfterCmd
  rw [this, svgCommand_skipWs _ _ _ hinv]

/-! ### flags and the arc arm -/
end

/-- a flag with the white space in front of it and the separator behind it: `ws* ('0'|'1') ws* ','?` -/
structure FlagChunk where
  ws : List UInt8 := []
  flag : UInt8
  sep : List UInt8 := []

def FlagChunk.bytes (k : FlagChunk) : List UInt8 := k.ws ++ k.flag :: k.sep
def FlagChunk.value (k : FlagChunk) : Bool := k.flag == 49

structure FlagChunk.Ok (k : FlagChunk) (r : List UInt8) : Prop where
  ws : ∀ c ∈ k.ws, isWs c = true
  flag : k.flag = 48 ∨ k.flag = 49
  sep : SepOk k.sep r

theorem getFlag_chunk {l : Lx} {k : FlagChunk} {r : List UInt8} (h : l.rem = k.bytes ++ r) (hk : k.Ok r) :
    getFlag l = .ok k.value (l.adv (k.ws.length + 1)) ∧
    optComma (l.adv (k.ws.length + 1)) = some (l.adv k.bytes.length) := by
  have h' : l.rem = k.ws ++ k.flag :: (k.sep ++ r) := by rw [h]; simp [FlagChunk.bytes]
  have hnws : isWs k.flag = false := by rcases hk.flag with h | h <;> rw [h] <;> decide
  constructor
  · unfold getFlag
    simp only
    rw [skipWs_rem h' hk.ws (by intro c r' hc; simp only [List.cons.injEq] at hc; rw [← hc.1]; exact hnws)]
    have h1 : (l.adv k.ws.length).rem = k.flag :: (k.sep ++ r) := Lx.rem_adv h'
    rw [Lx.getByte_cons h1]
    simp only [Lx.adv_adv, FlagChunk.value]
    rcases hk.flag with hf | hf <;> rw [hf] <;> rfl
  · have h1 : (l.adv (k.ws.length + 1)).rem = k.sep ++ r := by
      have : l.rem = (k.ws ++ [k.flag]) ++ (k.sep ++ r) := by rw [h']; simp
      simpa using Lx.rem_adv this
    rw [optComma_rem h1 hk.sep, Lx.adv_adv]
    have : k.bytes.length = k.ws.length + 1 + k.sep.length := by
      simp only [FlagChunk.bytes, List.length_append, List.length_cons]; omega
    rw [this]

section
variable {K : Type} [Scalar K]

/-- the path elements an arc command appends -/
def arcElements (from_pt to_pt : Point K) (radii : Point K) (xrot : K) (large_arc sweep : Bool) : List (PathEl K) :=
  match Arc.from_svg_arc { «from» := from_pt, to := to_pt, radii := radii.to_vec2, x_rotation := toRadians xrot,
                           large_arc := large_arc, sweep := sweep } with
  | some arc => arcToCubics arc
  | none => [.LineTo to_pt]

theorem svgCommand_arc {c : UInt8} {st st1 : SvgSt K} {l l1 l2 l3 l4 l5 l6 l7 l8 : Lx} {radii p : Point K} {xrot : K}
    {la sw : Bool} (hlc : lowerCmd c = 97) (hpre : svgPre c st = some st1)
    (h1 : getNumberPair (K := K) l = .ok radii l1) (h2 : getNumber (K := K) l1 = .ok xrot l2) (h3 : optComma l2 = some l3)
    (h4 : getFlag l3 = .ok la l4) (h5 : optComma l4 = some l5) (h6 : getFlag l5 = .ok sw l6) (h7 : optComma l6 = some l7)
    (h8 : getMaybeRelative c st1.last_pt l7 = .ok p l8) :
    svgCommand c st l =
      .ok { st1 with path := st1.path ++ arcElements st1.last_pt p radii xrot la sw, last_ctrl := some p, last_pt := p,
                     last_cmd := c } l8 := by
  svg_arm hpre hlc
  simp +decide only [h1, h2, h3, h4, h5, h6, h7, h8, if_false, if_true]
  rfl
end
end Kurbo
