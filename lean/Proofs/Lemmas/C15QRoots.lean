import Proofs.Lemmas.C15QSelect
/-! helper lemmas for C15Q: composition of the pieces of `factor_quartic_inner`, and the roots `solve_quartic_inner` returns -/
set_option linter.unusedSectionVars false
namespace Kurbo
variable {K : Type} [Field K] [LinearOrder K] [IsStrictOrderedRing K] [FloorRing K] [Scalar K] [LawfulScalar K]

theorem sn_one : (@OfNat.ofNat K 1 Ops.instOfNat) = (1 : K) := by rw [sn_ofNat]; simp

/-- `factor_quartic_inner` after `phi` is known -/
theorem factorQuarticInner_of_phi {a b c d : K} {rescale : Bool} {phi : K} (hq : quarticPhi a b c d rescale = some phi) :
    factorQuarticInner a b c d rescale =
      match ldlInit a b c d (ldlSelect a b c d phi).1 (ldlSelect a b c d phi).2.1 (ldlSelect a b c d phi).2.2.1
          (ldlSelect a b c d phi).2.2.2 with
      | none => none
      | some z0 =>
        some (((quarticNewton a b c d 8 z0 (newtonEps a b c d z0)).1, (quarticNewton a b c d 8 z0 (newtonEps a b c d z0)).2.1),
          ((quarticNewton a b c d 8 z0 (newtonEps a b c d z0)).2.2.1, (quarticNewton a b c d 8 z0 (newtonEps a b c d z0)).2.2.2)) := by
  unfold factorQuarticInner
  rw [hq]
  rfl

/-- an exact pair before the Newton loop is returned unchanged -/
theorem factorQuarticInner_of_exact_init {a b c d : K} {rescale : Bool} {phi : K} {z0 : K × K × K × K}
    (hq : quarticPhi a b c d rescale = some phi)
    (hi : ldlInit a b c d (ldlSelect a b c d phi).1 (ldlSelect a b c d phi).2.1 (ldlSelect a b c d phi).2.2.1
      (ldlSelect a b c d phi).2.2.2 = some z0)
    (hex : z0.1 + z0.2.2.1 = a ∧ z0.2.1 + z0.1 * z0.2.2.1 + z0.2.2.2 = b ∧ z0.2.1 * z0.2.2.1 + z0.1 * z0.2.2.2 = c ∧
      z0.2.1 * z0.2.2.2 = d) :
    factorQuarticInner a b c d rescale = some ((z0.1, z0.2.1), (z0.2.2.1, z0.2.2.2)) := by
  rw [factorQuarticInner_of_phi hq, hi]
  have h0 : newtonEps a b c d z0 = 0 := (calcEpsT_eq_zero_iff' a b c d _ _ _ _).mpr hex
  simp only [h0, quarticNewton_zero']

theorem factorQuarticInner_none_of_init {a b c d : K} {rescale : Bool} {phi : K}
    (hq : quarticPhi a b c d rescale = some phi)
    (hi : ldlInit a b c d (ldlSelect a b c d phi).1 (ldlSelect a b c d phi).2.1 (ldlSelect a b c d phi).2.2.1
      (ldlSelect a b c d phi).2.2.2 = none) :
    factorQuarticInner a b c d rescale = none := by
  rw [factorQuarticInner_of_phi hq, hi]

/-- the values `solve_quartic_inner` returns are exactly the real roots of the product of the two quadratics -/
theorem solveQuarticInner_of_factor {a b c d : K} {rescale : Bool} {a1 b1 a2 b2 : K}
    (hf : factorQuarticInner a b c d rescale = some ((a1, b1), (a2, b2)))
    (hs1 : 0 < quadArg b1 a1 1 → SqrtExact (quadArg b1 a1 1)) (hs2 : 0 < quadArg b2 a2 1 → SqrtExact (quadArg b2 a2 1)) :
    ∃ r, solveQuarticInner a b c d rescale = some r ∧ r.length ≤ 4 ∧
      ∀ x, x ∈ r ↔ (x ^ 2 + a1 * x + b1) * (x ^ 2 + a2 * x + b2) = 0 := by
  unfold solveQuarticInner
  rw [hf]
  simp only [Option.map_some, sn_one]
  obtain ⟨m1, -, l1⟩ := solveQuadratic_quadratic b1 a1 1 one_ne_zero hs1
  obtain ⟨m2, -, l2⟩ := solveQuadratic_quadratic b2 a2 1 one_ne_zero hs2
  refine ⟨_, rfl, by rw [List.length_append]; omega, fun x => ?_⟩
  rw [List.mem_append, m1 x, m2 x, mul_eq_zero]
  constructor
  · rintro (h | h)
    · left; linear_combination h
    · right; linear_combination h
  · rintro (h | h)
    · left; linear_combination h
    · right; linear_combination h

theorem solveQuarticInner_none {a b c d : K} {rescale : Bool} (hf : factorQuarticInner a b c d rescale = none) :
    solveQuarticInner a b c d rescale = none := by
  unfold solveQuarticInner; rw [hf]; rfl

theorem solveQuarticGeneral_of_some {a b c d : K} {r : List K} (h : solveQuarticInner a b c d false = some r) :
    solveQuarticGeneral a b c d = r := by
  unfold solveQuarticGeneral; rw [h]

/-- the powers of `K_Q` the rescaling retries divide by are the powers of the one constant `K_Q` -/
theorem quarticKQpow_eq (n : Nat) : (quarticKQpow n : K) = (quarticKQ : K) ^ n := by
  unfold quarticKQpow quarticKQ
  rw [sn_ofRat, sn_ofRat]; push_cast; rfl

theorem solveQuartic_general_eq (c0 c1 c2 c3 c4 : K) (h4 : c4 ≠ 0) (h0 : c0 ≠ 0) (h31 : ¬ (c3 = 0 ∧ c1 = 0)) :
    solveQuartic c0 c1 c2 c3 c4 = solveQuarticGeneral (c3 / c4) (c2 / c4) (c1 / c4) (c0 / c4) := by
  unfold solveQuartic solveQuarticWith
  simp only [scalar_norm]
  simp only [Nat.cast_zero, h4, h0, decide_false, Bool.false_eq_true, if_false, Bool.and_eq_true, decide_eq_true_eq,
    div_eq_zero_iff, or_false]
  rw [if_neg h31]

theorem monic_quartic_scaled (c0 c1 c2 c3 c4 x : K) (h4 : c4 ≠ 0) :
    c0 + c1 * x + c2 * x ^ 2 + c3 * x ^ 3 + c4 * x ^ 4 =
      c4 * (x ^ 4 + c3 / c4 * x ^ 3 + c2 / c4 * x ^ 2 + c1 / c4 * x + c0 / c4) := by
  field_simp; ring

end Kurbo
