import Proofs.Lemmas.C18S
/-! Helper lemmas for C18S, part 2: facts about the specification functions – the split into smooth stretches
    (`simpSplitGo`), the output of a stretch (`simpStretchOut`) and of a sub-path (`simpChunkOut`), the parse of the input
    into sub-paths (`simpChunks`).  Core Lean only, arbitrary `[Scalar K]`. -/
set_option linter.unusedSectionVars false
namespace Kurbo
variable {K : Type} [Scalar K]

/-! ### the split into stretches -/

theorem c18s_getLast?_append_cons {α : Type} (l₁ : List α) (a : α) (l₂ : List α) :
    (l₁ ++ a :: l₂).getLast? = (a :: l₂).getLast? := by
  rw [List.getLast?_append, List.getLast?_cons]; rfl

theorem c18s_split_flatten (th : K) :
    ∀ (segs pend : List (PathSeg K)), (simpSplitGo th pend segs).flatten = pend ++ segs := by
  intro segs
  induction segs with
  | nil => intro pend; cases pend <;> simp [simpSplitGo]
  | cons s r ih =>
    intro pend
    simp only [simpSplitGo]
    cases hp : pend.getLast? with
    | none =>
      have : pend = [] := List.getLast?_eq_none_iff.1 hp
      subst this; simp [ih]
    | some l =>
      simp only []
      split <;> simp [ih]

theorem c18s_split_ne (th : K) :
    ∀ (segs pend : List (PathSeg K)), ∀ g ∈ simpSplitGo th pend segs, g ≠ [] := by
  intro segs
  induction segs with
  | nil =>
    intro pend g hg
    cases pend with
    | nil => simp [simpSplitGo] at hg
    | cons a r => simp [simpSplitGo] at hg; subst hg; simp
  | cons s r ih =>
    intro pend g hg
    simp only [simpSplitGo] at hg
    cases hp : pend.getLast? with
    | none => rw [hp] at hg; exact ih [s] g hg
    | some l =>
      rw [hp] at hg
      simp only [] at hg
      split at hg
      · rcases List.mem_cons.1 hg with h | h
        · subst h; intro h; subst h; simp at hp
        · exact ih [s] g h
      · exact ih _ g hg

theorem c18s_split_isEmpty (th : K) (segs pend : List (PathSeg K)) :
    (simpSplitGo th pend segs).isEmpty = (pend ++ segs).isEmpty := by
  have h := c18s_split_flatten th segs pend
  cases hs : simpSplitGo th pend segs with
  | nil => rw [hs] at h; simp at h; obtain ⟨rfl, rfl⟩ := h; rfl
  | cons g gs =>
    have hg : g ≠ [] := c18s_split_ne th segs pend g (by rw [hs]; simp)
    rw [hs] at h
    cases g with
    | nil => exact absurd rfl hg
    | cons a g' => rw [← h]; simp

/-- a corner between `lst` (the last segment before) and `b` cuts the split in two independent parts -/
theorem c18s_split_append_corner (th : K) (b : PathSeg K) (B : List (PathSeg K)) :
    ∀ (A pend : List (PathSeg K)) (lst : PathSeg K), (pend ++ A).getLast? = some lst → simpCorner th lst b = true →
      simpSplitGo th pend (A ++ b :: B) = simpSplitGo th pend A ++ simpSplitGo th [] (b :: B) := by
  intro A
  induction A with
  | nil =>
    intro pend lst h hc
    simp only [List.append_nil] at h
    have hne : pend.isEmpty = false := by cases pend <;> simp_all
    simp [simpSplitGo, h, hc, hne]
  | cons a A' ih =>
    intro pend lst h hc
    simp only [List.cons_append, simpSplitGo]
    cases hp : pend.getLast? with
    | none =>
      have : pend = [] := List.getLast?_eq_none_iff.1 hp
      subst this
      exact ih [a] lst (by simpa using h) hc
    | some l =>
      simp only []
      split
      · rw [ih [a] lst (by rw [← h, c18s_getLast?_append_cons]; rfl) hc]; rfl
      · exact ih (pend ++ [a]) lst (by simpa using h) hc

/-- the last stretch ends with the last segment -/
theorem c18s_split_getLast (th : K) :
    ∀ (segs pend : List (PathSeg K)), pend ++ segs ≠ [] →
      ∃ g, (simpSplitGo th pend segs).getLast? = some g ∧ g.getLast? = (pend ++ segs).getLast? := by
  intro segs
  induction segs with
  | nil =>
    intro pend h
    cases pend with
    | nil => simp at h
    | cons a r => exact ⟨a :: r, by simp [simpSplitGo], by simp⟩
  | cons s r ih =>
    intro pend _
    simp only [simpSplitGo]
    cases hp : pend.getLast? with
    | none =>
      have : pend = [] := List.getLast?_eq_none_iff.1 hp
      subst this
      simpa using ih [s] (by simp)
    | some l =>
      simp only []
      split
      · obtain ⟨g, h1, h2⟩ := ih [s] (by simp)
        refine ⟨g, ?_, ?_⟩
        · cases hs : simpSplitGo th [s] r with
          | nil => rw [hs] at h1; simp at h1
          | cons x xs => rw [hs] at h1; rw [List.getLast?_cons_cons]; exact h1
        · rw [h2, c18s_getLast?_append_cons]; rfl
      · obtain ⟨g, h1, h2⟩ := ih (pend ++ [s]) (by simp)
        exact ⟨g, h1, by rw [h2]; simp⟩

/-- inside a stretch there is no corner -/
theorem c18s_split_smooth (th : K) :
    ∀ (segs pend : List (PathSeg K)),
      (∀ X s s' Y, pend = X ++ s :: s' :: Y → simpCorner th s s' = false) →
      ∀ g ∈ simpSplitGo th pend segs, ∀ X s s' Y, g = X ++ s :: s' :: Y → simpCorner th s s' = false := by
  intro segs
  induction segs with
  | nil =>
    intro pend hp g hg
    cases pend with
    | nil => simp [simpSplitGo] at hg
    | cons a r => simp [simpSplitGo] at hg; subst hg; exact hp
  | cons s r ih =>
    intro pend hpend g hg
    simp only [simpSplitGo] at hg
    have hsingle : ∀ X (a a' : PathSeg K) Y, [s] = X ++ a :: a' :: Y → simpCorner th a a' = false := by
      intro X a a' Y h
      have := congrArg List.length h
      simp at this; omega
    cases hp : pend.getLast? with
    | none => rw [hp] at hg; exact ih [s] hsingle g hg
    | some l =>
      rw [hp] at hg
      simp only [] at hg
      split at hg
      · rcases List.mem_cons.1 hg with h | h
        · subst h; exact hpend
        · exact ih [s] hsingle g h
      · rename_i hc
        refine ih (pend ++ [s]) ?_ g hg
        intro X a a' Y h
        -- either the pair lies inside `pend`, or it is `(l, s)`
        rcases List.eq_nil_or_concat Y with hY | ⟨Y', y, hY⟩
        · subst hY
          have h' : pend ++ [s] = (X ++ [a]) ++ [a'] := by simpa using h
          obtain ⟨h1, h2⟩ := List.append_inj' h' rfl
          have : a' = s := by simpa using h2.symm
          subst this
          have : l = a := by rw [h1] at hp; simpa using hp.symm
          subst this
          simpa using hc
        · subst hY
          have h' : pend ++ [s] = (X ++ a :: a' :: Y') ++ [y] := by simpa using h
          obtain ⟨h1, _⟩ := List.append_inj' h' rfl
          exact hpend X a a' Y' h1

/-! ### the output of one stretch (under the fit specification) -/

theorem c18s_curve_draw {e : PathEl K} (h : e.simpCurve = true) : e.simpDraw = true := by
  cases e <;> first | rfl | cases h

theorem c18s_draw_not_close {e : PathEl K} (h : e.simpDraw = true) : e.simpClose = false := by
  cases e <;> first | rfl | cases h

theorem c18s_stretchOut_single (fit : List (PathEl K) → List (PathEl K)) (s : PathSeg K) :
    simpStretchOut fit [s] = [s.drawEl] := rfl

theorem c18s_stretchOut_spec {fit : List (PathEl K) → List (PathEl K)} (hfit : C18FitSpec fit) (g : List (PathSeg K))
    (hg : g ≠ []) :
    simpStretchOut fit g ≠ [] ∧ (∀ e ∈ simpStretchOut fit g, e.simpDraw = true) ∧
      simpLastEnd (simpStretchOut fit g) = g.getLast?.map PathSeg.end := by
  cases g with
  | nil => exact absurd rfl hg
  | cons s r =>
    cases r with
    | nil =>
      refine ⟨by simp [simpStretchOut], ?_, ?_⟩
      · intro e he; simp [simpStretchOut] at he; subst he; exact c18s_drawEl_draw s
      · simp [simpStretchOut, simpLastEnd, c18s_drawEl_end]
    | cons s' r' =>
      obtain ⟨cs, h1, h2, h3, h4⟩ :=
        hfit.shape s.start ((s :: s' :: r').map PathSeg.drawEl) (c18s_queue_draw _) (by simp)
      have hq : simpQueue (s :: s' :: r') = .MoveTo s.start :: (s :: s' :: r').map PathSeg.drawEl := rfl
      have e : simpStretchOut fit (s :: s' :: r') = cs := by
        simp only [simpStretchOut, hq, h1, List.drop_succ_cons, List.drop_zero]
      rw [e]
      refine ⟨h2, fun x hx => c18s_curve_draw (h3 x hx), ?_⟩
      rw [h4]
      unfold simpLastEnd
      rw [List.getLast?_map]
      cases (s :: s' :: r').getLast? with
      | none => rfl
      | some x => simp [c18s_drawEl_end]

/-! ### the output of one sub-path -/

/-- the drawing elements emitted for the segments of one sub-path -/
def simpChunkDraws (fit : List (PathEl K) → List (PathEl K)) (th : K) (segs : List (PathSeg K)) : List (PathEl K) :=
  ((simpSplitGo th [] segs).map (simpStretchOut fit)).flatten

theorem c18s_chunkOut_nil (fit : List (PathEl K) → List (PathEl K)) (th : K) (start : Point K) (closed : Bool) :
    simpChunkOut fit th ⟨start, [], closed⟩ = if closed then [.MoveTo start, .ClosePath] else [] := by
  cases closed <;> simp [simpChunkOut, simpChunkTail, simpSplitGo]

theorem c18s_chunkOut_cons (fit : List (PathEl K) → List (PathEl K)) (th : K) (start : Point K) (s : PathSeg K)
    (r : List (PathSeg K)) (closed : Bool) :
    simpChunkOut fit th ⟨start, s :: r, closed⟩ =
      .MoveTo start :: simpChunkDraws fit th (s :: r) ++ (if closed then [.ClosePath] else []) := by
  have h : (simpSplitGo th [] (s :: r)).isEmpty = false := by rw [c18s_split_isEmpty]; rfl
  simp [simpChunkOut, simpChunkTail, simpChunkDraws, h]

theorem c18s_flatten_stretch_draw {fit : List (PathEl K) → List (PathEl K)} (hfit : C18FitSpec fit)
    (gs : List (List (PathSeg K))) (hne : ∀ g ∈ gs, g ≠ []) :
    ∀ e ∈ (gs.map (simpStretchOut fit)).flatten, e.simpDraw = true := by
  intro e he
  obtain ⟨l, hl, hel⟩ := List.mem_flatten.1 he
  obtain ⟨g, hg, rfl⟩ := List.mem_map.1 hl
  exact (c18s_stretchOut_spec hfit g (hne g hg)).2.1 e hel

theorem c18s_chunkDraws_spec {fit : List (PathEl K) → List (PathEl K)} (hfit : C18FitSpec fit) (th : K)
    (segs : List (PathSeg K)) (hs : segs ≠ []) :
    simpChunkDraws fit th segs ≠ [] ∧ (∀ e ∈ simpChunkDraws fit th segs, e.simpDraw = true) ∧
      simpLastEnd (simpChunkDraws fit th segs) = segs.getLast?.map PathSeg.end := by
  obtain ⟨g, h1, h2⟩ := c18s_split_getLast th segs [] (by simpa using hs)
  simp only [List.nil_append] at h2
  have hgm : g ∈ simpSplitGo th [] segs := List.mem_of_getLast? h1
  have hg : g ≠ [] := c18s_split_ne th segs [] g hgm
  obtain ⟨o1, o2, o3⟩ := c18s_stretchOut_spec hfit g hg
  -- the split is `front ++ [g]`
  obtain ⟨front, hfront⟩ : ∃ front, simpSplitGo th [] segs = front ++ [g] := by
    rcases List.eq_nil_or_concat (simpSplitGo th [] segs) with h | ⟨f, x, h⟩
    · rw [h] at h1; simp at h1
    · rw [h] at h1; simp at h1; subst h1; exact ⟨f, by simpa using h⟩
  have hd : simpChunkDraws fit th segs = (front.map (simpStretchOut fit)).flatten ++ simpStretchOut fit g := by
    simp [simpChunkDraws, hfront]
  refine ⟨?_, ?_, ?_⟩
  · rw [hd]; intro h; exact o1 (List.append_eq_nil_iff.1 h).2
  · exact c18s_flatten_stretch_draw hfit _ (c18s_split_ne th segs [])
  · rw [hd]
    unfold simpLastEnd at o3 ⊢
    rw [List.getLast?_append]
    cases hl : (simpStretchOut fit g).getLast? with
    | none => exact absurd (List.getLast?_eq_none_iff.1 hl) o1
    | some x => rw [hl] at o3; simp only [Option.some_or]; rw [o3, h2]

/-! ### the parse of the input -/

/-- the current sub-path and the ones after it -/
def simpChunksFrom (start last : Point K) (els : List (PathEl K)) : List (SimpChunk K) :=
  ⟨start, simpHeadSegs last els, simpHeadClosed els⟩ :: simpTailChunks start els

theorem c18s_chunks_moveTo (p : Point K) (r : List (PathEl K)) : simpChunks (.MoveTo p :: r) = simpChunksFrom p p r := rfl

theorem c18s_chunksFrom_draws (start : Point K) :
    ∀ (ds : List (PathEl K)) (last : Point K), (∀ e ∈ ds, e.simpDraw = true) →
      simpChunksFrom start last ds = [⟨start, simpHeadSegs last ds, false⟩] := by
  intro ds
  induction ds with
  | nil => intro last _; rfl
  | cons d r ih =>
    intro last h
    have hd : d.simpDraw = true := h d (by simp)
    have hr : ∀ e ∈ r, e.simpDraw = true := fun e he => h e (by simp [he])
    simp only [simpChunksFrom, simpHeadSegs, simpHeadClosed, hd, if_true, c18s_tailChunks_draw start r hd]
    cases simpElSeg last d with
    | none =>
      have := ih last hr
      simp only [simpChunksFrom, List.cons.injEq, SimpChunk.mk.injEq] at this
      simp [this.1.2.2, this.2]
    | some s =>
      have := ih s.end hr
      simp only [simpChunksFrom, List.cons.injEq, SimpChunk.mk.injEq] at this
      simp [this.1.2.2, this.2]

/-- general unfolding: drawing elements, then anything -/
theorem c18s_chunksFrom_append (start : Point K) (rest : List (PathEl K)) :
    ∀ (ds : List (PathEl K)) (_last : Point K), (∀ e ∈ ds, e.simpDraw = true) →
      simpHeadClosed (ds ++ rest) = simpHeadClosed rest ∧
      simpTailChunks start (ds ++ rest) = simpTailChunks start rest := by
  intro ds
  induction ds with
  | nil => intro last _; exact ⟨rfl, rfl⟩
  | cons d r ih =>
    intro last h
    have hd : d.simpDraw = true := h d (by simp)
    have hr : ∀ e ∈ r, e.simpDraw = true := fun e he => h e (by simp [he])
    obtain ⟨i1, i2⟩ := ih last hr
    refine ⟨?_, ?_⟩
    · simp only [List.cons_append, simpHeadClosed, hd, if_true, i1]
    · rw [List.cons_append, c18s_tailChunks_draw start _ hd, i2]

theorem c18s_headSegs_append_stop (rest : List (PathEl K)) (hrest : ∀ e ∈ rest.head?, e.simpDraw = false) :
    ∀ (ds : List (PathEl K)) (last : Point K), (∀ e ∈ ds, e.simpDraw = true) →
      simpHeadSegs last (ds ++ rest) = simpHeadSegs last ds := by
  intro ds
  induction ds with
  | nil =>
    intro last _
    cases rest with
    | nil => rfl
    | cons e r => simp [simpHeadSegs, hrest e (by simp)]
  | cons d r ih =>
    intro last h
    have hd : d.simpDraw = true := h d (by simp)
    have hr : ∀ e ∈ r, e.simpDraw = true := fun e he => h e (by simp [he])
    simp only [List.cons_append, simpHeadSegs, hd, if_true]
    cases simpElSeg last d with
    | none => exact ih last hr
    | some s => simp only []; rw [ih s.end hr]

/-- number of closed sub-paths = number of `ClosePath`s -/
theorem c18s_closed_count_aux :
    ∀ (els : List (PathEl K)) (start : Point K) (X : List (PathSeg K)),
      ((⟨start, X, simpHeadClosed els⟩ :: simpTailChunks start els).filter SimpChunk.closed).length =
        els.countP PathEl.simpClose := by
  intro els
  induction els with
  | nil => intro start X; simp [simpHeadClosed, simpTailChunks]
  | cons el r ih =>
    intro start X
    cases el with
    | MoveTo p =>
      simpa [simpHeadClosed, simpTailChunks, PathEl.simpDraw, PathEl.simpClose, List.countP_cons]
        using ih p (simpHeadSegs p r)
    | ClosePath =>
      simpa [simpHeadClosed, simpTailChunks, PathEl.simpDraw, PathEl.simpClose, List.countP_cons]
        using ih start (simpHeadSegs start r)
    | LineTo p =>
      simpa [simpHeadClosed, simpTailChunks, PathEl.simpDraw, PathEl.simpClose, List.countP_cons] using ih start X
    | QuadTo p1 p2 =>
      simpa [simpHeadClosed, simpTailChunks, PathEl.simpDraw, PathEl.simpClose, List.countP_cons] using ih start X
    | CurveTo p1 p2 p3 =>
      simpa [simpHeadClosed, simpTailChunks, PathEl.simpDraw, PathEl.simpClose, List.countP_cons] using ih start X

theorem c18s_closed_count (start last : Point K) (els : List (PathEl K)) :
    ((simpChunksFrom start last els).filter SimpChunk.closed).length = els.countP PathEl.simpClose :=
  c18s_closed_count_aux els start _

/-! ### leading `ClosePath`s -/

theorem c18s_lead_split (els : List (PathEl K)) :
    els = List.replicate (simpLead els) .ClosePath ++ els.drop (simpLead els) := by
  induction els with
  | nil => rfl
  | cons e r ih =>
    cases e with
    | ClosePath => simp only [simpLead, List.replicate_succ, List.drop_succ_cons, List.cons_append]; rw [← ih]
    | MoveTo p => rfl
    | LineTo p => rfl
    | QuadTo p1 p2 => rfl
    | CurveTo p1 p2 p3 => rfl

theorem c18s_lead_drop_head (els : List (PathEl K)) : ∀ e ∈ (els.drop (simpLead els)).head?, e.simpClose = false := by
  induction els with
  | nil => intro e he; simp at he
  | cons x r ih =>
    cases x with
    | ClosePath => simpa [simpLead] using ih
    | MoveTo p => intro e he; simp [simpLead] at he; subst he; rfl
    | LineTo p => intro e he; simp [simpLead] at he; subst he; rfl
    | QuadTo p1 p2 => intro e he; simp [simpLead] at he; subst he; rfl
    | CurveTo p1 p2 p3 => intro e he; simp [simpLead] at he; subst he; rfl

end Kurbo
