import Kurbo.Solve
import Proofs.Lawful
import Mathlib.Tactic.LinearCombination
/-! helper lemmas for C15, quadratic part (any lawful scalar; the only fact about `Scalar.sqrt` that is used is
    exactness at the one discriminant the call computes) -/
set_option linter.unusedSectionVars false
namespace Kurbo
variable {K : Type} [Field K] [LinearOrder K] [IsStrictOrderedRing K] [FloorRing K] [Scalar K] [LawfulScalar K]

/-- `Scalar.sqrt` is the exact non-negative square root at `a` -/
def SqrtExact (a : K) : Prop := 0 ≤ Scalar.sqrt a ∧ Scalar.sqrt a * Scalar.sqrt a = a

/-- the discriminant of the scaled polynomial, as `solve_quadratic` computes it -/
def quadArg (c0 c1 c2 : K) : K := c1 / c2 * (c1 / c2) - 4 * (c0 / c2)

/-- the first root `solve_quadratic` computes in the two-root branch -/
def quadRoot1 (c0 c1 c2 : K) : K :=
  -(1 / 2) * (c1 / c2 + if c1 / c2 < 0 then -|Scalar.sqrt (quadArg c0 c1 c2)| else |Scalar.sqrt (quadArg c0 c1 c2)|)

/-- roots of a monic quadratic with positive discriminant, via the numerically stable formula -/
theorem monic_roots {p q s : K} (hD : 0 < p * p - 4 * q) (hs0 : 0 ≤ s) (hss : s * s = p * p - 4 * q) :
    let r1 := -(1 / 2) * (p + if p < 0 then -|s| else |s|)
    r1 ≠ 0 ∧ r1 ≠ q / r1 ∧ ∀ x, (x ^ 2 + p * x + q = 0 ↔ x = r1 ∨ x = q / r1) := by
  intro r1
  have hpos : 0 < s := by
    rcases hs0.lt_or_eq with h | h
    · exact h
    · exfalso; rw [← h] at hss; linarith
  have habs : |s| = s := abs_of_pos hpos
  set sg : K := if p < 0 then -|s| else |s| with hsg
  have hs2 : sg * sg = p * p - 4 * q := by
    rw [hsg]; split_ifs <;> rw [habs] <;> linarith
  have hne : p + sg ≠ 0 := by
    rw [hsg]; split_ifs with h <;> rw [habs]
    · intro h0; linarith
    · intro h0; have := not_lt.mp h; linarith
  have hr1 : r1 ≠ 0 := by
    intro h0; apply hne
    have : r1 = -(1 / 2) * (p + sg) := rfl
    rw [this] at h0; linarith
  have hq : q = r1 * (-p - r1) := by
    have : r1 = -(1 / 2) * (p + sg) := rfl
    rw [this]; linear_combination (1 / 4 : K) * hs2
  have hother : q / r1 = -p - r1 := by
    rw [div_eq_iff hr1]; linear_combination hq
  have hdist : r1 ≠ -p - r1 := by
    intro h
    have h1 : sg = 0 := by
      have : r1 = -(1 / 2) * (p + sg) := rfl
      rw [this] at h; linarith
    rw [h1] at hs2; linarith
  refine ⟨hr1, by rw [hother]; exact hdist, fun x => ?_⟩
  rw [hother]
  constructor
  · intro h
    have : (x - r1) * (x - (-p - r1)) = 0 := by linear_combination h - hq
    rcases mul_eq_zero.mp this with h1 | h1
    · left; linear_combination h1
    · right; linear_combination h1
  · rintro (h | h) <;> rw [h]
    · linear_combination hq
    · linear_combination hq

/-! ### the value of `solveQuadratic` branch by branch -/

theorem solveQuadratic_linear_eq (c0 c1 : K) (h1 : c1 ≠ 0) : solveQuadratic c0 c1 0 = [-c0 / c1] := by
  unfold solveQuadratic
  simp only [scalar_norm]
  simp [h1]

theorem solveQuadratic_zero (c0 : K) :
    solveQuadratic c0 0 0 = if c0 = 0 then [(0 : K)] else [] := by
  unfold solveQuadratic
  simp only [scalar_norm]
  simp

theorem solveQuadratic_neg_disc (c0 c1 c2 : K) (h2 : c2 ≠ 0) (hd : quadArg c0 c1 c2 < 0) :
    solveQuadratic c0 c1 c2 = [] := by
  unfold quadArg at hd
  unfold solveQuadratic
  simp only [scalar_norm, mul_one_div]
  simp [h2, hd]

theorem solveQuadratic_zero_disc (c0 c1 c2 : K) (h2 : c2 ≠ 0) (hd : quadArg c0 c1 c2 = 0) :
    solveQuadratic c0 c1 c2 = [-(1 / 2) * (c1 / c2)] := by
  unfold quadArg at hd
  unfold solveQuadratic
  simp only [scalar_norm, mul_one_div]
  simp [h2, hd]

theorem solveQuadratic_pos_disc (c0 c1 c2 : K) (h2 : c2 ≠ 0) (hd : 0 < quadArg c0 c1 c2)
    (hr : quadRoot1 c0 c1 c2 ≠ 0) :
    solveQuadratic c0 c1 c2 =
      if quadRoot1 c0 c1 c2 < c0 / c2 / quadRoot1 c0 c1 c2 then [quadRoot1 c0 c1 c2, c0 / c2 / quadRoot1 c0 c1 c2]
      else [c0 / c2 / quadRoot1 c0 c1 c2, quadRoot1 c0 c1 c2] := by
  unfold quadRoot1 at hr ⊢
  unfold quadArg at hd hr ⊢
  unfold solveQuadratic
  simp only [scalar_norm, mul_one_div]
  push_cast
  have h1 : ¬ (c1 / c2 * (c1 / c2) - 4 * (c0 / c2) < 0) := not_lt.mpr hd.le
  have h2' : ¬ (c1 / c2 * (c1 / c2) - 4 * (c0 / c2) = 0) := ne_of_gt hd
  simp only [ne_eq, h2, not_false_eq_true, decide_true, Bool.not_true, Bool.or_self, Bool.false_eq_true, if_false,
    h1, decide_false, h2', hr, if_true, decide_eq_true_eq]

end Kurbo

namespace Kurbo
variable {K : Type} [Field K] [LinearOrder K] [IsStrictOrderedRing K] [FloorRing K] [Scalar K] [LawfulScalar K]

theorem quad_eq_scaled (c0 c1 c2 x : K) (h2 : c2 ≠ 0) :
    c0 + c1 * x + c2 * x ^ 2 = c2 * (x ^ 2 + c1 / c2 * x + c0 / c2) := by
  field_simp; ring

/-- the genuinely quadratic case, all three discriminant signs -/
theorem solveQuadratic_quadratic (c0 c1 c2 : K) (h2 : c2 ≠ 0)
    (hs : 0 < quadArg c0 c1 c2 → SqrtExact (quadArg c0 c1 c2)) :
    (∀ x, x ∈ solveQuadratic c0 c1 c2 ↔ c0 + c1 * x + c2 * x ^ 2 = 0) ∧
    (solveQuadratic c0 c1 c2).Pairwise (· < ·) ∧ (solveQuadratic c0 c1 c2).length ≤ 2 := by
  have key : ∀ x, c0 + c1 * x + c2 * x ^ 2 = 0 ↔ x ^ 2 + c1 / c2 * x + c0 / c2 = 0 := by
    intro x; rw [quad_eq_scaled c0 c1 c2 x h2, mul_eq_zero, or_iff_right h2]
  rcases lt_trichotomy (quadArg c0 c1 c2) 0 with hd | hd | hd
  · rw [solveQuadratic_neg_disc c0 c1 c2 h2 hd]
    refine ⟨fun x => ?_, List.Pairwise.nil, by simp⟩
    rw [key]
    simp only [List.not_mem_nil, false_iff]
    intro h
    unfold quadArg at hd
    have : 0 ≤ (2 * x + c1 / c2) ^ 2 := sq_nonneg _
    have e : (2 * x + c1 / c2) ^ 2 = c1 / c2 * (c1 / c2) - 4 * (c0 / c2) := by linear_combination 4 * h
    linarith
  · rw [solveQuadratic_zero_disc c0 c1 c2 h2 hd]
    refine ⟨fun x => ?_, List.pairwise_singleton _ _, by simp⟩
    rw [key]
    simp only [List.mem_singleton]
    unfold quadArg at hd
    constructor
    · rintro rfl; linear_combination (-1 / 4 : K) * hd
    · intro h
      have : (x + c1 / c2 / 2) ^ 2 = 0 := by linear_combination h + (1 / 4 : K) * hd
      have := pow_eq_zero_iff (two_ne_zero) |>.mp this
      linear_combination this
  · obtain ⟨hs0, hss⟩ := hs hd
    obtain ⟨hr1, hne, hiff⟩ := monic_roots (p := c1 / c2) (q := c0 / c2) (s := Scalar.sqrt (quadArg c0 c1 c2))
      hd hs0 hss
    have hr1' : quadRoot1 c0 c1 c2 ≠ 0 := hr1
    rw [solveQuadratic_pos_disc c0 c1 c2 h2 hd hr1']
    have hne' : quadRoot1 c0 c1 c2 ≠ c0 / c2 / quadRoot1 c0 c1 c2 := hne
    have hiff' : ∀ x, x ^ 2 + c1 / c2 * x + c0 / c2 = 0 ↔
        x = quadRoot1 c0 c1 c2 ∨ x = c0 / c2 / quadRoot1 c0 c1 c2 := hiff
    generalize quadRoot1 c0 c1 c2 = r1 at hne' hiff' ⊢
    generalize c0 / c2 / r1 = r2 at hne' hiff' ⊢
    by_cases hlt : r1 < r2
    · rw [if_pos hlt]
      refine ⟨fun x => ?_, by simp [hlt], by simp⟩
      rw [key, hiff']; simp
    · rw [if_neg hlt]
      have hlt' : r2 < r1 := lt_of_le_of_ne (not_lt.mp hlt) (Ne.symm hne')
      refine ⟨fun x => ?_, by simp [hlt'], by simp⟩
      rw [key, hiff']; simp [or_comm]

end Kurbo
