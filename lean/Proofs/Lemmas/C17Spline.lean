import Kurbo.Quads
import Mathlib.Tactic.SplitIfs
import Mathlib.Data.List.Basic
/-! Helper lemmas for C17: the structure of `approx_spline_n` / `cubicsToQuadraticSplines` results
    (no arithmetic law is used: valid for every `Scalar`, also `Float`). -/
namespace Kurbo

/-- invariant propagation through a `foldl` over an `Option` state that can only fail -/
theorem foldl_opt_inv {σ ι : Type} (step : Option σ → ι → Option σ) (hnone : ∀ i, step none i = none)
    (inv : σ → Nat → Prop) (w : ι → Nat)
    (hstep : ∀ st i st' k, step (some st) i = some st' → inv st k → inv st' (k + w i)) :
    ∀ (l : List ι) (st st' : σ) (k : Nat), l.foldl step (some st) = some st' → inv st k →
      inv st' (k + (l.map w).sum)
  | [], st, st', k, h, hi => by
    simp only [List.foldl_nil, Option.some.injEq] at h
    subst h; simpa using hi
  | i :: l, st, st', k, h, hi => by
    rw [List.foldl_cons] at h
    cases hs : step (some st) i with
    | none =>
      rw [hs] at h
      have : ∀ l : List ι, l.foldl step none = none := by
        intro l; induction l with
        | nil => rfl
        | cons j l ih => rw [List.foldl_cons, hnone, ih]
      rw [this] at h; cases h
    | some st1 =>
      rw [hs] at h
      have := foldl_opt_inv step hnone inv w hstep l st1 st' (k + w i) h (hstep st i st1 k hs hi)
      simpa [Nat.add_assoc] using this

theorem sum_pushes (n : Nat) : ∀ m : Nat,
    ((((List.range m).map (· + 1)).map (fun i => if i < n then 1 else 0)).sum : Nat) = min m (n - 1)
  | 0 => by simp
  | m + 1 => by
    rw [List.range_succ, List.map_append, List.map_append, List.sum_append, sum_pushes n m]
    simp only [List.map_cons, List.map_nil, List.sum_cons, List.sum_nil]
    split_ifs <;> omega

variable {K : Type} [Scalar K]

theorem try_approx_quadratic_ends (c : CubicBez K) (a : K) (q : QuadBez K)
    (h : c.try_approx_quadratic a = some q) : q.p0 = c.p0 ∧ q.p2 = c.p3 := by
  unfold CubicBez.try_approx_quadratic at h
  split at h
  · simp only [] at h
    split at h
    · cases h
    · simp only [Option.some.injEq] at h
      subst h; exact ⟨rfl, rfl⟩
  · cases h

theorem approx_spline_n_shape (c : CubicBez K) (n : Nat) (a : K) (pts : List (Point K))
    (h : c.approx_spline_n n a = some pts) :
    pts.head? = some c.p0 ∧ pts.getLast? = some c.p3 ∧ pts.length = n + 2 := by
  unfold CubicBez.approx_spline_n at h
  split at h
  · rename_i hn
    simp only [beq_iff_eq] at hn
    subst hn
    cases hq : c.try_approx_quadratic a with
    | none => rw [hq] at h; cases h
    | some q =>
      rw [hq] at h
      simp only [Option.map_some, Option.some.injEq] at h
      obtain ⟨h0, h2⟩ := try_approx_quadratic_ends c a q hq
      subst h
      simp [h0, h2]
  · split at h
    · cases h
    · rename_i first rest hsplit
      simp only [] at h
      split at h
      · cases h
      · rename_i st hfold
        simp only [Option.some.injEq] at h
        subst h
        have key := foldl_opt_inv _ ?_ (fun (s : SplineSt K) k => s.spline.head? = some c.p0 ∧ s.spline.length = k + 2)
          (fun i => if i < n then 1 else 0) ?_ _ _ _ 0 hfold ?_
        · rw [sum_pushes n n] at key
          obtain ⟨k1, k2⟩ := key
          have hne : st.spline ≠ [] := by intro e; rw [e] at k2; simp at k2
          refine ⟨?_, ?_, ?_⟩
          · rw [List.head?_append_of_ne_nil _ hne]; exact k1
          · simp
          · rw [List.length_append, k2]
            simp only [List.length_cons, List.length_nil]
            have : 1 ≤ n := by
              rcases n with _ | n
              · simp [CubicBez.split_into_n] at hsplit
              · omega
            omega
        · intro i; rfl
        · intro st i st' k hs hinv
          simp only [] at hs
          obtain ⟨hi1, hi2⟩ := hinv
          by_cases hi : i < n
          · simp only [hi, if_true] at hs ⊢
            cases hr : st.rest with
            | nil => rw [hr] at hs; cases hs
            | cons nc rest' =>
              rw [hr] at hs
              simp only [] at hs
              split at hs
              · cases hs
              · simp only [Option.some.injEq] at hs
                subst hs
                have hne : st.spline ≠ [] := by intro e; rw [e] at hi2; simp at hi2
                refine ⟨?_, ?_⟩
                · simp only []
                  rw [List.head?_append_of_ne_nil _ hne]; exact hi1
                · simp only [List.length_append, List.length_cons, List.length_nil, hi2]
          · simp only [hi, if_false] at hs ⊢
            split at hs
            · cases hs
            · simp only [Option.some.injEq] at hs
              subst hs
              exact ⟨hi1, hi2⟩
        · simp

theorem forall₂_right_all {α β : Type} {R : α → β → Prop} {P : β → Prop} (h : ∀ a b, R a b → P b) :
    ∀ {l₁ : List α} {l₂ : List β}, List.Forall₂ R l₁ l₂ → ∀ b ∈ l₂, P b
  | _, _, .nil => by simp
  | _, _, .cons hab hrest => by
    intro b hb
    rcases List.mem_cons.mp hb with rfl | hb
    · exact h _ _ hab
    · exact forall₂_right_all h hrest b hb

theorem approx_spline_some (c : CubicBez K) (a : K) (pts : List (Point K)) (h : c.approx_spline a = some pts) :
    ∃ n, 1 ≤ n ∧ n ≤ maxSplineSplit ∧ c.approx_spline_n n a = some pts := by
  unfold CubicBez.approx_spline at h
  obtain ⟨n, hn, hf⟩ := List.exists_of_findSome?_eq_some h
  simp only [List.mem_map, List.mem_range] at hn
  obtain ⟨m, hm, rfl⟩ := hn
  exact ⟨m + 1, by omega, by omega, hf⟩

theorem splines_go_forall₂ (a : K) (order : Nat) : ∀ (curves : List (CubicBez K)) (splines : List (List (Point K))),
    cubicsToQuadraticSplines.go a order curves = some splines →
    List.Forall₂ (fun c sp => c.approx_spline_n order a = some sp) curves splines
  | [], splines, h => by
    simp only [cubicsToQuadraticSplines.go, Option.some.injEq] at h
    subst h; exact List.Forall₂.nil
  | c :: cs, splines, h => by
    rw [cubicsToQuadraticSplines.go] at h
    split at h
    · cases h
    · rename_i sp hsp
      cases hg : cubicsToQuadraticSplines.go a order cs with
      | none => rw [hg] at h; cases h
      | some rest =>
        rw [hg] at h
        simp only [Option.map_some, Option.some.injEq] at h
        subst h
        exact List.Forall₂.cons hsp (splines_go_forall₂ a order cs rest hg)

theorem cubicsToQuadraticSplines_some (curves : List (CubicBez K)) (a : K) (splines : List (List (Point K)))
    (h : cubicsToQuadraticSplines curves a = some splines) :
    ∃ order, 1 ≤ order ∧ order ≤ maxSplineSplit + 1 ∧
      List.Forall₂ (fun c sp => c.approx_spline_n order a = some sp) curves splines := by
  unfold cubicsToQuadraticSplines at h
  obtain ⟨n, hn, hf⟩ := List.exists_of_findSome?_eq_some h
  simp only [List.mem_map, List.mem_range] at hn
  obtain ⟨m, hm, rfl⟩ := hn
  exact ⟨m + 1, by omega, by omega, splines_go_forall₂ a (m + 1) curves splines hf⟩

end Kurbo
