import Proofs.Lemmas.C16Cmd
/-! Helper lemmas for C16/C14: the parse loop never runs out of fuel. -/
namespace Kurbo
variable {K : Type} [Scalar K]

theorem lowerCmd_eq_122 {c : UInt8} : lowerCmd c = 122 ↔ c = 122 ∨ c = 90 := by
  unfold lowerCmd isUpper
  constructor
  · intro h
    split at h
    · right
      rename_i hu
      have := congrArg UInt8.toNat h
      simp only [UInt8.toNat_add] at this
      apply UInt8.toNat_inj.mp
      have hlt := c.toNat_lt
      simp at this ⊢
      omega
    · exact .inl h
  · rintro (rfl | rfl) <;> decide

theorem lowerCmd_eq_109 {c : UInt8} (h : lowerCmd c = 109) : c = 109 ∨ c = 77 := by
  unfold lowerCmd isUpper at h
  split at h
  · right
    have := congrArg UInt8.toNat h
    simp only [UInt8.toNat_add] at this
    apply UInt8.toNat_inj.mp
    have hlt := c.toNat_lt
    simp at this ⊢
    omega
  · exact .inl h

/-- the loop invariant on the parser state: the remembered command is never `z`/`Z` (`z` does not update `last_cmd`), so an
    implicitly repeated command always starts with a `getNumber` -/
def SvgSt.Inv (st : SvgSt K) : Prop := lowerCmd st.last_cmd ≠ 122

theorem svgCommand_inv {c : UInt8} {st st' : SvgSt K} {l l' : Lx} (h : svgCommand c st l = .ok st' l')
    (hinv : st.Inv) : st'.Inv := by
  have hp := svgCommand_post h
  obtain ⟨-, -, -, -, h1, h2⟩ := hp
  unfold SvgSt.Inv at *
  by_cases hz : lowerCmd c = 122
  · rw [(h2 hz).2]; exact hinv
  · by_cases hm : lowerCmd c = 109
    · rw [(h1 hz).2.1 hm]
      rcases lowerCmd_eq_109 hm with rfl | rfl <;> decide
    · rw [(h1 hz).2.2 hm]; exact hz

/-- one loop iteration, seen from `svgLoop`: it stops with a value ≠ panic, or continues from a state with the invariant and a
    strictly larger lexer index -/
theorem svgLoop_step (st : SvgSt K) (l : Lx) (hinv : st.Inv) :
    (∃ l', getCmd st.last_cmd l = some (none, l')) ∨
    (∃ c l1, getCmd st.last_cmd l = some (some c, l1) ∧
      ((∃ e, svgCommand c st l1 = .err e) ∨
       (∃ st' l2, svgCommand c st l1 = .ok st' l2 ∧ st'.Inv ∧ l.Lt l2))) := by
  rcases getCmd_cases st.last_cmd l with ⟨l', h, _⟩ | ⟨c, l1, h, hc, hlt⟩ | ⟨c, l1, h, hne, hg, hc⟩
  · exact .inl ⟨l', h⟩
  · refine .inr ⟨c, l1, h, ?_⟩
    cases hs : svgCommand c st l1 with
    | panic => exact (svgCommand_post hs).elim
    | err e => exact .inl ⟨e, rfl⟩
    | ok st' l2 =>
      exact .inr ⟨st', l2, rfl, svgCommand_inv hs hinv, hlt.trans_le (svgCommand_post hs).1⟩
  · refine .inr ⟨st.last_cmd, skipWs l, h, ?_⟩
    cases hs : svgCommand st.last_cmd st (skipWs l) with
    | panic => exact (svgCommand_post hs).elim
    | err e => exact .inl ⟨e, rfl⟩
    | ok st' l2 =>
      have hp := svgCommand_post hs
      exact .inr ⟨st', l2, rfl, svgCommand_inv hs hinv, (skipWs_le l).trans_lt (hp.2.2.2.2.1 hinv).1⟩

theorem svgLoop_ne_panic (fuel : Nat) (st : SvgSt K) (l : Lx) (hwf : l.WF) (hinv : st.Inv)
    (hf : l.data.size - l.ix < fuel) : svgLoop fuel st l ≠ .panic := by
  induction fuel generalizing st l with
  | zero => omega
  | succ fuel ih =>
    unfold svgLoop
    rcases svgLoop_step st l hinv with ⟨l', h⟩ | ⟨c, l1, h, ⟨e, hs⟩ | ⟨st', l2, hs, hinv', hlt⟩⟩
    · rw [h]; simp
    · rw [h]; simp only [hs]; simp
    · rw [h]; simp only [hs]
      have hwf' := hlt.wf hwf
      unfold Lx.WF at hwf hwf'
      have := hlt.ix; have := hlt.data
      exact ih st' l2 hwf' hinv' (by rw [hlt.data] at hwf' ⊢; omega)

/-- the result does not depend on the fuel once it exceeds the number of remaining bytes -/
theorem svgLoop_fuel_irrel (f1 f2 : Nat) (st : SvgSt K) (l : Lx) (hwf : l.WF) (hinv : st.Inv)
    (h1 : l.data.size - l.ix < f1) (h2 : l.data.size - l.ix < f2) : svgLoop f1 st l = svgLoop f2 st l := by
  induction f1 generalizing f2 st l with
  | zero => omega
  | succ f1 ih =>
    cases f2 with
    | zero => omega
    | succ f2 =>
      unfold svgLoop
      rcases svgLoop_step st l hinv with ⟨l', h⟩ | ⟨c, l1, h, ⟨e, hs⟩ | ⟨st', l2, hs, hinv', hlt⟩⟩
      · rw [h]
      · rw [h]; simp only [hs]
      · rw [h]; simp only [hs]
        have hwf' := hlt.wf hwf
        unfold Lx.WF at hwf hwf'
        have := hlt.ix
        exact ih f2 st' l2 hwf' hinv' (by rw [hlt.data] at hwf' ⊢; omega) (by rw [hlt.data] at hwf' ⊢; omega)

theorem fromSvgBytes_ne_panic (data : ByteArray) : fromSvgBytes (K := K) data ≠ .panic := by
  unfold fromSvgBytes
  apply svgLoop_ne_panic
  · exact Nat.zero_le _
  · show lowerCmd 0 ≠ 122
    decide
  · simp

end Kurbo
