import Proofs.Lemmas.C13Arith
/-! C13: the model's `step` sequence on straight segments refines the arc-length specification `DashSpec.walk`
    (state `Working`, open polyline). -/
set_option linter.unusedSectionVars false
namespace Kurbo
open DashSpec
variable {K : Type} [Field K] [LinearOrder K] [IsStrictOrderedRing K] [FloorRing K] [Scalar K] [LawfulScalar K]

/-- a chain of `step`s taken in state `Working`, with the elements they produce (these are exactly the elements that
    successive `next` calls return, see `next_working_some` / `next_working_none`) -/
inductive Steps : DashIt K → List (PathEl K) → DashIt K → Prop
  | refl (s : DashIt K) : Steps s [] s
  | cons {s s1 s2 : DashIt K} {r : Option (PathEl K)} {outs : List (PathEl K)} :
      s.state = .Working → s.step = some (r, s1) → Steps s1 outs s2 → Steps s (r.toList ++ outs) s2

theorem Steps.trans {a b c : DashIt K} {o1 o2 : List (PathEl K)} (h1 : Steps a o1 b) (h2 : Steps b o2 c) :
    Steps a (o1 ++ o2) c := by
  induction h1 with
  | refl s => exact h2
  | cons hw e _ ih => rw [List.append_assoc]; exact Steps.cons hw e (ih h2)

theorem Steps.single {s s1 : DashIt K} {r : Option (PathEl K)} (hw : s.state = .Working)
    (e : s.step = some (r, s1)) : Steps s r.toList s1 := by
  have := Steps.cons hw e (Steps.refl s1)
  rwa [List.append_nil] at this

/-- in state `Working` a `step` that produces an element is one `next` call … -/
theorem next_working_some (s s1 : DashIt K) (el : PathEl K) (fuel : Nat) (hw : s.state = .Working)
    (e : s.step = some (some el, s1)) : s.next (fuel + 1) = .some el s1 := by
  unfold DashIt.next
  rw [hw]
  simp only [e]

/-- … and a `step` that produces nothing is skipped inside `next` -/
theorem next_working_none (s s1 : DashIt K) (fuel : Nat) (hw : s.state = .Working)
    (e : s.step = some (none, s1)) : s.next (fuel + 1) = s1.next fuel := by
  conv_lhs => unfold DashIt.next
  rw [hw]
  simp only [e]

/-- total length of the strokes drawn by a list of polyline elements, the pen starting at `pen` -/
def drawnLen : Point K → List (PathEl K) → K
  | _, [] => 0
  | _, .MoveTo p :: r => drawnLen p r
  | pen, .LineTo p :: r => (p - pen).hypot + drawnLen p r
  | pen, _ :: r => drawnLen pen r

/-- where the pen is afterwards -/
def c13_penAfter : Point K → List (PathEl K) → Point K
  | pen, [] => pen
  | _, .MoveTo p :: r => c13_penAfter p r
  | _, .LineTo p :: r => c13_penAfter p r
  | pen, _ :: r => c13_penAfter pen r

theorem drawnLen_append (pen : Point K) (a b : List (PathEl K)) :
    drawnLen pen (a ++ b) = drawnLen pen a + drawnLen (c13_penAfter pen a) b := by
  induction a generalizing pen with
  | nil => simp [drawnLen, c13_penAfter]
  | cons el a ih =>
    cases el <;> simp only [List.cons_append, drawnLen, c13_penAfter, ih, add_assoc]

theorem penAfter_append (pen : Point K) (a b : List (PathEl K)) :
    c13_penAfter pen (a ++ b) = c13_penAfter (c13_penAfter pen a) b := by
  induction a generalizing pen with
  | nil => simp [c13_penAfter]
  | cons el a ih =>
    cases el <;> simp only [List.cons_append, c13_penAfter, ih]

/-- the fields that no `step` inside a polyline touches -/
def DashIt.SameAux (s s₁ : DashIt K) : Prop :=
  s₁.closepath_pending = s.closepath_pending ∧ s₁.stash = s.stash ∧ s₁.stash_ix = s.stash_ix ∧
    s₁.input_done = s.input_done

theorem DashIt.SameAux.trans {a b c : DashIt K} (h1 : a.SameAux b) (h2 : b.SameAux c) : a.SameAux c :=
  ⟨h2.1.trans h1.1, h2.2.1.trans h1.2.1, h2.2.2.1.trans h1.2.2.1, h2.2.2.2.trans h1.2.2.2⟩

/-- pattern position of the iterator -/
def DashIt.ph (s : DashIt K) : Ph K := ⟨s.dash_ix, s.dash_remaining, s.is_active⟩

/-- the iterator is in state `Working` inside the straight segment `l` of length `L` -/
structure OnLine (s : DashIt K) (l : Line K) (L : K) : Prop where
  seg : s.current_seg = .Line l
  len : l.arclen 0 = L
  t_lt : s.t < 1
  rem : s.seg_remaining = (1 - s.t) * L
  working : s.state = .Working
  ix : s.dash_ix < s.dashes.size
  dash_nonneg : 0 ≤ s.dash_remaining
  last : s.last_pt = l.p1

/-- the state after a switch inside a straight segment of length `L` (`step_line_switch`) -/
def DashIt.switched (s : DashIt K) (L : K) : DashIt K :=
  { s with state := if s.is_active then .Working else s.state, is_active := !s.is_active,
           t := s.t + s.dash_remaining / L, seg_remaining := s.seg_remaining - s.dash_remaining,
           dash_ix := (s.dash_ix + 1) % s.dashes.size, dash_remaining := cyc s.dashes (s.dash_ix + 1) }

/-- what the `step` at the end of the segment emits -/
def finEl (s : DashIt K) (l : Line K) : List (PathEl K) := if s.is_active then [.LineTo l.p1] else []

variable [LawfulHypotSq K]

theorem OnLine.len_pos {s : DashIt K} {l : Line K} {L : K} (hon : OnLine s l L)
    (hlt : s.dash_remaining < s.seg_remaining) : 0 < L := by
  have h1t : 0 < 1 - s.t := by linarith [hon.t_lt]
  have : 0 < (1 - s.t) * L := by rw [← hon.rem]; linarith [hon.dash_nonneg]
  exact (mul_pos_iff_of_pos_left h1t).mp this

theorem OnLine.switched {s : DashIt K} {l : Line K} {L : K} (hon : OnLine s l L)
    (hpat : ∀ i, 0 ≤ cyc s.dashes i) (hlt : s.dash_remaining < s.seg_remaining) : OnLine (s.switched L) l L := by
  have hL := hon.len_pos hlt
  refine ⟨hon.seg, hon.len, ?_, ?_, ?_, ?_, ?_, hon.last⟩
  · show s.t + s.dash_remaining / L < 1
    have : s.dash_remaining / L < 1 - s.t := by
      rw [div_lt_iff₀ hL, ← hon.rem]; exact hlt
    linarith
  · show s.seg_remaining - s.dash_remaining = (1 - (s.t + s.dash_remaining / L)) * L
    rw [hon.rem]; field_simp; ring
  · show (if s.is_active then DashState.Working else s.state) = .Working
    rw [hon.working]; split <;> rfl
  · exact Nat.mod_lt _ (by have := hon.ix; omega)
  · exact hpat _

/-- **One segment.** From a state inside a straight segment, if the arc-length specification walks the rest of the segment
    (length `seg_remaining`) from the iterator's pattern position, then the iterator makes a chain of switching `step`s to a
    state `s₁` at which the rest of the segment fits into the current entry; `s₁` is at the position the specification
    computes (up to the subtraction that the final `step` does), and the strokes produced – including the final `LineTo`
    to the segment end if the entry is on – have total length equal to the specification's on-length. -/
theorem seg_sim (l : Line K) (L : K) : ∀ (f : Nat) (s : DashIt K) (o : K) (ph' : Ph K),
    (∀ i, 0 ≤ cyc s.dashes i) → OnLine s l L →
    walk s.dashes.size (cyc s.dashes) f s.ph s.seg_remaining = some (o, ph') →
    ∃ outs s₁, Steps s outs s₁ ∧ OnLine s₁ l L ∧ s₁.dashes = s.dashes ∧ ¬ s₁.dash_remaining < s₁.seg_remaining ∧
      ph' = ⟨s₁.dash_ix, s₁.dash_remaining - s₁.seg_remaining, s₁.is_active⟩ ∧
      s₁.inner = s.inner ∧ s.SameAux s₁ ∧
      ∀ pen, (s.is_active = true → pen = l.eval s.t) →
        drawnLen pen (outs ++ finEl s₁ l) = o ∧ (s₁.is_active = true → c13_penAfter pen (outs ++ finEl s₁ l) = l.p1)
  | 0, s, o, ph', _, _, h => by simp [walk] at h
  | f + 1, s, o, ph', hpat, hon, h => by
    unfold walk at h
    by_cases hlt : s.dash_remaining < s.seg_remaining
    · have hlt' : s.ph.rem < s.seg_remaining := hlt
      rw [if_pos hlt'] at h
      have hLpos := hon.len_pos hlt
      have hst : (s.state == .ToStash && s.stash.isEmpty) = false := by rw [hon.working]; rfl
      have hstep : s.step = some (some (if s.is_active then .LineTo (l.eval (s.t + s.dash_remaining / L))
          else .MoveTo (l.eval (s.t + s.dash_remaining / L))), s.switched L) :=
        step_line_switch s l L hon.seg hon.len hLpos hon.t_lt hst hon.ix hlt
      have hon2 := hon.switched hpat hlt
      cases hc : walk s.dashes.size (cyc s.dashes) f (s.ph.next s.dashes.size (cyc s.dashes))
          (s.seg_remaining - s.ph.rem) with
      | none => rw [hc] at h; simp at h
      | some q =>
        obtain ⟨o1, ph1⟩ := q
        rw [hc] at h
        simp only [Option.some.injEq, Prod.mk.injEq] at h
        obtain ⟨ho, hp⟩ := h
        subst hp
        have e : (s.switched L).ph = s.ph.next s.dashes.size (cyc s.dashes) := by
          simp only [DashIt.switched, DashIt.ph, Ph.next, cyc, Nat.mod_mod]
        obtain ⟨outs', s₁, hsteps, hon1, hd1, hn1, hph, hin, hcp, hdraw⟩ :=
          seg_sim l L f (s.switched L) o1 ph1 hpat hon2 (by
            show walk s.dashes.size (cyc s.dashes) f (s.switched L).ph (s.seg_remaining - s.dash_remaining) = _
            rw [e]; exact hc)
        refine ⟨_, s₁, Steps.cons hon.working hstep hsteps, hon1, hd1, hn1, hph, hin, hcp, ?_⟩
        intro pen hpen
        have htle : s.t ≤ s.t + s.dash_remaining / L := by
          have := div_nonneg hon.dash_nonneg hLpos.le
          linarith
        cases hact : s.is_active
        · -- off: a `MoveTo` to the switch point
          obtain ⟨d1, d2⟩ := hdraw (l.eval (s.t + s.dash_remaining / L)) (fun _ => rfl)
          simp only [Bool.false_eq_true, if_false, Option.toList_some, List.cons_append, List.nil_append, drawnLen,
            c13_penAfter]
          refine ⟨?_, d2⟩
          rw [d1, ← ho]
          simp [onPart, DashIt.ph, hact]
        · -- on: a `LineTo` to the switch point, of length `dash_remaining`
          obtain ⟨d1, d2⟩ := hdraw (l.eval (s.t + s.dash_remaining / L)) (fun _ => rfl)
          simp only [if_true, Option.toList_some, List.cons_append, List.nil_append, drawnLen, c13_penAfter]
          refine ⟨?_, d2⟩
          rw [d1, ← ho, hpen hact, line_eval_dist l _ _ 0 htle, hon.len]
          simp only [onPart, DashIt.ph, hact, if_true]
          field_simp
          ring
    · have hlt' : ¬ s.ph.rem < s.seg_remaining := hlt
      rw [if_neg hlt'] at h
      simp only [Option.some.injEq, Prod.mk.injEq] at h
      obtain ⟨ho, hp⟩ := h
      refine ⟨[], s, Steps.refl s, hon, rfl, hlt, hp.symm, rfl, ⟨rfl, rfl, rfl, rfl⟩, ?_⟩
      intro pen hpen
      simp only [List.nil_append, finEl]
      cases hact : s.is_active
      · simp only [Bool.false_eq_true, if_false, drawnLen]
        refine ⟨?_, fun h => by cases h⟩
        rw [← ho]; simp [onPart, DashIt.ph, hact]
      · simp only [if_true, drawnLen, c13_penAfter, add_zero]
        refine ⟨?_, fun _ => trivial⟩
        rw [← ho, hpen hact, ← (line_eval_zero_one l).2, line_eval_dist l _ _ 0 hon.t_lt.le, hon.len, ← hon.rem]
        simp [onPart, DashIt.ph, hact]

/-! ### an open polyline -/

section
omit [LawfulHypotSq K]
/-- a `LineTo q` is loaded: the segment from `last_pt` to `q` -/
def DashIt.loadLine (s : DashIt K) (q : Point K) (tl : List (PathEl K)) : DashIt K :=
  { s with inner := tl, seg_remaining := (Line.mk s.last_pt q).arclen 0,
           current_seg := .Line ⟨s.last_pt, q⟩, last_pt := q, t := 0 }

/-- `get_input` on a `LineTo` -/
theorem get_input_lineTo (s : DashIt K) (q : Point K) (tl : List (PathEl K)) (hcp : s.closepath_pending = false)
    (hin : s.inner = .LineTo q :: tl) : s.get_input = s.loadLine q tl := by
  unfold DashIt.get_input DashIt.loadLine
  rw [if_neg (by rw [hcp]; exact Bool.false_ne_true), hin]
  simp only [getInputList, Line.arclen, scalar_norm, Nat.cast_zero]

theorem finEl_eq (s : DashIt K) (l : Line K) :
    (if s.is_active then some (PathEl.LineTo l.p1) else none).toList = finEl s l := by
  unfold finEl; cases s.is_active <;> rfl
end

/-- lengths of the segments of the polyline `p, q₁, q₂, …` -/
def polyLens : Point K → List (Point K) → List K
  | _, [] => []
  | p, q :: r => (Line.mk p q).arclen 0 :: polyLens q r

theorem polyLens_length (p : Point K) (pts : List (Point K)) : (polyLens p pts).length = pts.length := by
  induction pts generalizing p with
  | nil => rfl
  | cons q r ih => simp [polyLens, ih]

theorem polyLens_nonneg (p : Point K) (pts : List (Point K)) : ∀ x ∈ polyLens p pts, 0 ≤ x := by
  induction pts generalizing p with
  | nil => intro x hx; cases hx
  | cons q r ih =>
    intro x hx
    rcases List.mem_cons.mp hx with rfl | hx
    · exact line_arclen_nonneg _ _
    · exact ih q x hx

/-- **Open polyline.** From a state inside a straight segment with `LineTo q₁, …, LineTo qₖ` next in the input: if the
    arc-length specification walks the rest of the current segment and then the `k` further segments, the iterator makes a
    chain of `step`s to a state `s₁` inside the last segment, the rest of which fits into the current entry; the `LineTo`s
    are consumed, `s₁` is at the pattern position that the specification computes, and the strokes produced (with the final
    `LineTo` to the end of the polyline if the entry is on) have total length equal to the specification's on-length. -/
theorem polyline_sim : ∀ (pts : List (Point K)) (rest : List (PathEl K)) (l : Line K) (L : K) (f : Nat) (s : DashIt K)
    (o : K) (ph' : Ph K),
    (∀ i, 0 ≤ cyc s.dashes i) → OnLine s l L → s.closepath_pending = false → s.inner = pts.map .LineTo ++ rest →
    walkList s.dashes.size (cyc s.dashes) f s.ph (s.seg_remaining :: polyLens s.last_pt pts) = some (o, ph') →
    ∃ outs s₁ l₁ L₁, Steps s outs s₁ ∧ OnLine s₁ l₁ L₁ ∧ s₁.dashes = s.dashes ∧
      ¬ s₁.dash_remaining < s₁.seg_remaining ∧
      ph' = ⟨s₁.dash_ix, s₁.dash_remaining - s₁.seg_remaining, s₁.is_active⟩ ∧
      s₁.inner = rest ∧ s.SameAux s₁ ∧
      ∀ pen, (s.is_active = true → pen = l.eval s.t) →
        drawnLen pen (outs ++ finEl s₁ l₁) = o ∧ (s₁.is_active = true → c13_penAfter pen (outs ++ finEl s₁ l₁) = l₁.p1)
  | [], rest, l, L, f, s, o, ph', hpat, hon, hcp, hin, h => by
    simp only [polyLens, walkList] at h
    cases hc : walk s.dashes.size (cyc s.dashes) f s.ph s.seg_remaining with
    | none => rw [hc] at h; simp at h
    | some q =>
      obtain ⟨o1, ph1⟩ := q
      rw [hc] at h
      simp only [Option.some.injEq, Prod.mk.injEq, add_zero] at h
      obtain ⟨ho, hp⟩ := h
      subst ho hp
      obtain ⟨outs, s₁, h1, h2, h3, h4, h5, h6, h7, h8⟩ := seg_sim l L f s o1 ph1 hpat hon hc
      exact ⟨outs, s₁, l, L, h1, h2, h3, h4, h5, by rw [h6, hin]; rfl, h7, h8⟩
  | q :: pts, rest, l, L, f, s, o, ph', hpat, hon, hcp, hin, h => by
    rw [polyLens] at h
    unfold walkList at h
    cases hc : walk s.dashes.size (cyc s.dashes) f s.ph s.seg_remaining with
    | none => rw [hc] at h; simp at h
    | some r =>
      obtain ⟨o1, ph1⟩ := r
      rw [hc] at h
      simp only at h
      obtain ⟨outs1, s₁, h1, hon1, hd1, hn1, hph1, hin1, hcp1, hdraw1⟩ := seg_sim l L f s o1 ph1 hpat hon hc
      -- the step that finishes the segment and loads the next one
      have hst : (s₁.state == .ToStash && s₁.stash.isEmpty) = false := by rw [hon1.working]; rfl
      have hstep := step_line_end_working s₁ l hon1.seg hst (by rw [hon1.working]; decide) hn1
      have hlast : s₁.last_pt = s.last_pt := by rw [hon1.last, hon.last]
      rw [get_input_lineTo ({ s₁ with dash_remaining := s₁.dash_remaining - s₁.seg_remaining } : DashIt K) q
        (pts.map .LineTo ++ rest) (hcp1.1.trans hcp)
        (by show s₁.inner = _; rw [hin1, hin]; rfl)] at hstep
      obtain ⟨s₂, hs2⟩ : ∃ s₂ : DashIt K, s₂ = ({ s₁ with dash_remaining := s₁.dash_remaining - s₁.seg_remaining }
        : DashIt K).loadLine q (pts.map .LineTo ++ rest) := ⟨_, rfl⟩
      rw [← hs2] at hstep
      have hon2 : OnLine s₂ ⟨s.last_pt, q⟩ ((Line.mk s.last_pt q).arclen 0) := by
        subst hs2
        rw [← hlast]
        exact ⟨rfl, rfl, zero_lt_one, by simp [DashIt.loadLine], hon1.working, hon1.ix,
          sub_nonneg.mpr (not_lt.mp hn1), rfl⟩
      have hd2 : s₂.dashes = s.dashes := by subst hs2; exact hd1
      have hph2 : s₂.ph = ph1 := by subst hs2; exact hph1.symm
      have hsr2 : s₂.seg_remaining = (Line.mk s.last_pt q).arclen 0 := by subst hs2; rw [← hlast]; rfl
      have hl2 : s₂.last_pt = q := by subst hs2; rfl
      have hcp2 : s₂.closepath_pending = false := by subst hs2; exact hcp1.1.trans hcp
      have haux2 : s.SameAux s₂ := by subst hs2; exact hcp1
      have hin2 : s₂.inner = pts.map .LineTo ++ rest := by subst hs2; rfl
      have ht2 : s₂.t = 0 := by subst hs2; rfl
      have hact2 : s₂.is_active = s₁.is_active := by subst hs2; rfl
      cases hc2 : walkList s.dashes.size (cyc s.dashes) f ph1 ((Line.mk s.last_pt q).arclen 0 :: polyLens q pts) with
      | none => rw [hc2] at h; simp at h
      | some r2 =>
        obtain ⟨o2, ph2⟩ := r2
        rw [hc2] at h
        simp only [Option.some.injEq, Prod.mk.injEq] at h
        obtain ⟨ho, hp⟩ := h
        subst ho hp
        rw [← hd2, ← hph2, ← hsr2, ← hl2] at hc2
        obtain ⟨outs2, s₃, l₃, L₃, g1, g2, g3, g4, g5, g6, g7, g8⟩ :=
          polyline_sim pts rest ⟨s.last_pt, q⟩ _ f s₂ o2 ph2 (by rw [hd2]; exact hpat) hon2 hcp2 hin2 hc2
        refine ⟨outs1 ++ (finEl s₁ l ++ outs2), s₃, l₃, L₃, ?_, g2, g3.trans hd2, g4, g5, g6, haux2.trans g7, ?_⟩
        · rw [← finEl_eq]
          exact h1.trans (Steps.cons hon1.working hstep g1)
        · intro pen hpen
          obtain ⟨d1, d2⟩ := hdraw1 pen hpen
          have e : outs1 ++ (finEl s₁ l ++ outs2) ++ finEl s₃ l₃ = (outs1 ++ finEl s₁ l) ++ (outs2 ++ finEl s₃ l₃) := by
            simp only [List.append_assoc]
          obtain ⟨d3, d4⟩ := g8 (c13_penAfter pen (outs1 ++ finEl s₁ l)) (by
            intro ha
            rw [d2 (hact2 ▸ ha), ht2, (line_eval_zero_one _).1, ← hon.last])
          rw [e, drawnLen_append, d1, d3]
          refine ⟨rfl, ?_⟩
          rw [penAfter_append]
          exact d4

end Kurbo
