import Proofs.Lemmas.C10CircleTol
/-! Helper lemmas for C10, part 5: circular arcs (equal radii, no rotation: the corner arcs of rounded rectangles and
    the arcs of circle segments).  Each piece is the standard circular-arc cubic with arm `4/3·tan(step/4)`;
    its radial error is `≤ |R|·(2/27)·sin⁶(step/4)/cos²(step/4)`, which is `≤ T` when the count formula works with
    `n_err ≥ 5` (i.e. `1.1163·R/T ≥ 5⁶`). -/
set_option linter.unusedSectionVars false
namespace Kurbo

section real
variable [Scalar ℝ] [LawfulScalar ℝ]

/-- a piece with arm `4/3·tan(φ/2)` and half-angle `|φ| ≤ π/m`, `m ≥ 5`, `|R|·1.1163/m⁶ ≤ T`, stays within `T` -/
theorem tanArm_piece_within (ctr : Point ℝ) (R μ φ m T : ℝ) (hm : 5 ≤ m) (hφ : |φ / 2| * m ≤ Real.pi / 2)
    (hT : |R| * (11163 / 10000 / m ^ 6) ≤ T) {t : ℝ} (h0 : 0 ≤ t) (h1 : t ≤ 1) :
    abs (Real.sqrt ((((circleArcCubic ctr R (4 / 3 * Real.tan (φ / 2)) (μ - φ) (μ + φ)).eval t).x - ctr.x) ^ 2
        + (((circleArcCubic ctr R (4 / 3 * Real.tan (φ / 2)) (μ - φ) (μ + φ)).eval t).y - ctr.y) ^ 2) - abs R) ≤ T := by
  have hm0 : (0 : ℝ) < m := by linarith
  have hpi := Real.pi_pos
  have hx0 : 0 ≤ |φ / 2| := abs_nonneg _
  have hxlt : |φ / 2| < Real.pi / 2 := by nlinarith
  have hC' : 0 < Real.cos |φ / 2| := Real.cos_pos_of_mem_Ioo ⟨by linarith, hxlt⟩
  have hC : 0 < Real.cos (φ / 2) := by rwa [Real.cos_abs] at hC'
  obtain ⟨hs0, hs1⟩ := sigma_poly_range (sigma_range h0 h1).1 (sigma_range h0 h1).2
  have hd := circleArcCubic_tan_dist_sq ctr R μ φ t hC.ne'
  have htrig := trig_bound_real m |φ / 2| hm hx0 hφ
  rw [Real.cos_abs] at htrig
  have hS6 : Real.sin |φ / 2| ^ 6 = Real.sin (φ / 2) ^ 6 := by
    rcases abs_choice (φ / 2) with h | h <;> rw [h]
    rw [Real.sin_neg]; ring
  rw [hS6] at htrig
  set S := Real.sin (φ / 2) with hS
  set C := Real.cos (φ / 2) with hCd
  have hE0 : 0 ≤ 16 * S ^ 6 / C ^ 2 := by positivity
  have hu0 : 0 ≤ 16 * S ^ 6 / C ^ 2 * ((t * (1 - t)) ^ 2 - 4 * (t * (1 - t)) ^ 3) := mul_nonneg hE0 hs0
  refine ((dist_from_sq hd hu0).trans ?_).trans hT
  have hr : 0 ≤ abs R := abs_nonneg R
  have hm6 : (0 : ℝ) < m ^ 6 := by positivity
  have hC2 : 0 < C ^ 2 := by positivity
  have hA : 16 * S ^ 6 / C ^ 2 * ((t * (1 - t)) ^ 2 - 4 * (t * (1 - t)) ^ 3) / 2 ≤ 2 / 27 * S ^ 6 / C ^ 2 := by
    have : 16 * S ^ 6 / C ^ 2 * ((t * (1 - t)) ^ 2 - 4 * (t * (1 - t)) ^ 3) ≤ 16 * S ^ 6 / C ^ 2 * (1 / 108) :=
      mul_le_mul_of_nonneg_left hs1 hE0
    calc 16 * S ^ 6 / C ^ 2 * ((t * (1 - t)) ^ 2 - 4 * (t * (1 - t)) ^ 3) / 2
        ≤ 16 * S ^ 6 / C ^ 2 * (1 / 108) / 2 := by linarith
      _ = 2 / 27 * S ^ 6 / C ^ 2 := by ring
  have hB : 2 / 27 * S ^ 6 / C ^ 2 ≤ 11163 / 10000 / m ^ 6 := by
    rw [div_le_div_iff₀ hC2 hm6]; linarith
  calc abs R * (16 * S ^ 6 / C ^ 2 * ((t * (1 - t)) ^ 2 - 4 * (t * (1 - t)) ^ 3)) / 2
      = abs R * (16 * S ^ 6 / C ^ 2 * ((t * (1 - t)) ^ 2 - 4 * (t * (1 - t)) ^ 3) / 2) := by ring
    _ ≤ abs R * (11163 / 10000 / m ^ 6) := mul_le_mul_of_nonneg_left (hA.trans hB) hr

variable [LawfulTrig]
open LawfulTrig

/-- piece `k` of a circular arc is the circular-arc cubic between its two accumulated angles, with the arc's arm -/
theorem arc_piece_circular (c : Point ℝ) (R arm step start : ℝ) (k : Nat) :
    (⟨arcPt c ⟨R, R⟩ 0 step start k, arcC1 c ⟨R, R⟩ 0 arm step start k, arcC2 c ⟨R, R⟩ 0 arm step start k,
        arcPt c ⟨R, R⟩ 0 step start (k + 1)⟩ : CubicBez ℝ)
      = circleArcCubic c R arm (accAngle start step k) (accAngle start step (k + 1)) := by
  simp only [arcPt, arcC1, arcC2, circleArcCubic, circlePt, sampleEllipse_real, fracPi2_real, kdefs, scalar_norm,
    Real.cos_add_pi_div_two, Real.sin_add_pi_div_two, Real.cos_zero, Real.sin_zero, CubicBez.mk.injEq, Point.mk.injEq]
  refine ⟨⟨?_, ?_⟩, ⟨?_, ?_⟩, ⟨?_, ?_⟩, ⟨?_, ?_⟩⟩ <;> ring

end real

section count
variable [Scalar ℝ] [LawfulScalar ℝ] [LawfulTrig] [LawfulCount]
open LawfulTrig LawfulCount

/-- the arm of an arc is `4/3·tan(step/4)` (the sign factor and the absolute value cancel) -/
theorem arc_arm_eq_tan (a : Arc ℝ) (tol : ℝ) :
    (a.appendParams tol).2.1 = 4 / 3 * Real.tan ((a.appendParams tol).2.2 / 2 / 2) := by
  obtain ⟨h1, h2, h3, -⟩ := appendParams_real a tol
  rw [h2, h1]
  set n := ((a.appendParams tol).1 : ℝ) with hn
  have hn0 : 0 ≤ n := Nat.cast_nonneg _
  rw [show a.sweep_angle / n / 2 / 2 = 1 / 4 * (a.sweep_angle / n) by ring]
  by_cases hs : a.sweep_angle < 0
  · rw [if_pos hs]
    have hne : (a.appendParams tol).1 ≠ 0 := fun h => by rw [h3 h] at hs; exact lt_irrefl _ hs
    have hnpos : 0 < n := by
      have : (0 : ℝ) < ((a.appendParams tol).1 : ℝ) := by exact_mod_cast Nat.pos_of_ne_zero hne
      exact this
    have : 1 / 4 * (a.sweep_angle / n) < 0 := by
      have := div_neg_of_neg_of_pos hs hnpos
      linarith
    rw [abs_of_neg this, Real.tan_neg]; ring
  · rw [if_neg hs]
    have : 0 ≤ 1 / 4 * (a.sweep_angle / n) := by
      have := div_nonneg (not_lt.mp hs) hn0
      linarith
    rw [abs_of_nonneg this]; ring

/-- `n_err ≥ 3.999999`, `n_err ≥ (1.1163·max(rx,ry)/T)^(1/6)`, and every piece spans at most `2π/n_err` -/
theorem appendParams_nerr (a : Arc ℝ) (tol : ℝ) :
    ∃ m : ℝ, 3999999 / 1000000 ≤ m ∧ (11163 / 10000 * (max a.radii.x a.radii.y / tol)) ^ ((1 : ℝ) / 6) ≤ m ∧
      |(a.appendParams tol).2.2| * m ≤ 2 * Real.pi := by
  obtain ⟨h1, -, h3, -⟩ := appendParams_real a tol
  refine ⟨max ((11163 / 10000 * (max a.radii.x a.radii.y / tol)) ^ ((1 : ℝ) / 6)) (3999999 / 1000000),
    le_max_right _ _, le_max_left _ _, ?_⟩
  set m := max ((11163 / 10000 * (max a.radii.x a.radii.y / tol)) ^ ((1 : ℝ) / 6)) (3999999 / 1000000 : ℝ) with hm
  have hm0 : 0 < m := lt_of_lt_of_le (by norm_num) (le_max_right _ _)
  have hpi : 0 < 2 * Real.pi := by positivity
  -- n ≥ m·|sweep|/(2π)
  have hcount : m * |a.sweep_angle| ≤ 2 * Real.pi * ((a.appendParams tol).1 : ℝ) := by
    have hx : m * |a.sweep_angle| * (1 / (2 * Real.pi)) ≤ ((a.appendParams tol).1 : ℝ) := by
      simp only [Arc.appendParams, scalar_norm, toUSize_eq, pi_eq, powf_eq]
      push_cast
      rw [← hm]
      set x := m * |a.sweep_angle| * (1 / (2 * Real.pi)) with hxd
      have hx0 : 0 ≤ x := by positivity
      have hc0 : (0 : ℝ) ≤ (⌈x⌉ : ℝ) := by exact_mod_cast Int.ceil_nonneg hx0
      rw [natCast_floor_eq_intCast_floor hc0, Int.floor_intCast]
      exact Int.le_ceil x
    have : m * |a.sweep_angle| = m * |a.sweep_angle| * (1 / (2 * Real.pi)) * (2 * Real.pi) := by field_simp
    rw [this, mul_comm (2 * Real.pi)]
    exact mul_le_mul_of_nonneg_right hx hpi.le
  rw [h1]
  by_cases hn : (a.appendParams tol).1 = 0
  · rw [hn]; simp; positivity
  · have hnpos : (0 : ℝ) < ((a.appendParams tol).1 : ℝ) := by exact_mod_cast Nat.pos_of_ne_zero hn
    rw [abs_div, abs_of_pos hnpos, div_mul_eq_mul_div, div_le_iff₀ hnpos]
    linarith

/-- THE TOLERANCE CLAIM FOR CIRCULAR ARCS in the regime `n_err ≥ 5`: radii `(R, R)`, `R ≥ 0`, `T > 0`,
    `1.1163·R/T ≥ 5⁶`: every point of every piece is within `T` of the circle -/
theorem circular_arc_within (a : Arc ℝ) (tol R : ℝ) (hr : a.radii = ⟨R, R⟩) (hR : 0 ≤ R)
    (htol : 0 < tol) (hbig : 15625 ≤ 11163 / 10000 * (R / tol)) (k : Nat) {t : ℝ} (h0 : 0 ≤ t) (h1 : t ≤ 1) :
    abs (Real.sqrt ((((circleArcCubic a.center R (a.appendParams tol).2.1
            (accAngle a.start_angle (a.appendParams tol).2.2 k)
            (accAngle a.start_angle (a.appendParams tol).2.2 (k + 1))).eval t).x - a.center.x) ^ 2
        + (((circleArcCubic a.center R (a.appendParams tol).2.1
            (accAngle a.start_angle (a.appendParams tol).2.2 k)
            (accAngle a.start_angle (a.appendParams tol).2.2 (k + 1))).eval t).y - a.center.y) ^ 2) - abs R) ≤ tol := by
  obtain ⟨m, -, hm1, hm2⟩ := appendParams_nerr a tol
  rw [hr] at hm1
  simp only [max_self] at hm1
  set b := 11163 / 10000 * (R / tol) with hb
  have hb0 : 0 ≤ b := by positivity
  -- m ≥ 5 and m⁶ ≥ b
  have h5 : (5 : ℝ) ≤ b ^ ((1 : ℝ) / 6) := by
    have : (5 : ℝ) = (15625 : ℝ) ^ ((1 : ℝ) / 6) := by
      have := Real.pow_rpow_inv_natCast (x := (5 : ℝ)) (n := 6) (by norm_num) (by norm_num)
      rw [show ((5 : ℝ) ^ 6) = 15625 by norm_num] at this
      rw [show ((1 : ℝ) / 6) = ((6 : ℕ) : ℝ)⁻¹ by norm_num, this]
    rw [this]
    exact Real.rpow_le_rpow (by norm_num) hbig (by norm_num)
  have hm5 : 5 ≤ m := h5.trans hm1
  have hz6 : (b ^ ((1 : ℝ) / 6)) ^ 6 = b := by
    rw [← Real.rpow_natCast, ← Real.rpow_mul hb0]; norm_num
  have hm6 : b ≤ m ^ 6 := by
    rw [← hz6]; exact pow_le_pow_left₀ (Real.rpow_nonneg hb0 _) hm1 6
  have hm0 : (0 : ℝ) < m := by linarith
  have hm6pos : (0 : ℝ) < m ^ 6 := by positivity
  have hT : |R| * (11163 / 10000 / m ^ 6) ≤ tol := by
    rw [abs_of_nonneg hR, show R * (11163 / 10000 / m ^ 6) = 11163 / 10000 * R / m ^ 6 by ring, div_le_iff₀ hm6pos]
    have : b * tol = 11163 / 10000 * R := by rw [hb]; field_simp
    nlinarith
  set step := (a.appendParams tol).2.2 with hstep
  set θ := accAngle a.start_angle step k with hθ
  have e1 : θ = (θ + step / 2) - step / 2 := by ring
  have e2 : accAngle a.start_angle step (k + 1) = (θ + step / 2) + step / 2 := by
    rw [hθ, accAngle_eq, accAngle_eq]; push_cast; ring
  rw [arc_arm_eq_tan, e2]
  nth_rewrite 1 [e1]
  nth_rewrite 3 [e1]
  refine tanArm_piece_within a.center R (θ + step / 2) (step / 2) m tol hm5 ?_ hT h0 h1
  rw [show step / 2 / 2 = step / 4 by ring, abs_div, abs_of_pos (by norm_num : (0 : ℝ) < 4)]
  linarith

/-- … stated for the segments of the arc's outline -/
theorem circular_arc_segs_within (a : Arc ℝ) (tol R : ℝ) (hr : a.radii = ⟨R, R⟩) (hrot : a.x_rotation = 0) (hR : 0 ≤ R)
    (htol : 0 < tol) (hbig : 15625 ≤ 11163 / 10000 * (R / tol)) :
    ∃ ss, segs (a.path_elements tol) = some ss ∧ ss.length = (a.appendParams tol).1 ∧ ∀ s ∈ ss, ∃ q, s = PathSeg.Cubic q ∧
      ∀ t : ℝ, 0 ≤ t → t ≤ 1 →
        abs (Real.sqrt (((q.eval t).x - a.center.x) ^ 2 + ((q.eval t).y - a.center.y) ^ 2) - abs R) ≤ tol := by
  have hsegs : segs (a.path_elements tol) = some ((List.range (a.appendParams tol).1).map fun k => PathSeg.Cubic
      (circleArcCubic a.center R (a.appendParams tol).2.1 (accAngle a.start_angle (a.appendParams tol).2.2 k)
        (accAngle a.start_angle (a.appendParams tol).2.2 (k + 1)))) := by
    show segs (PathEl.MoveTo (arcPt a.center a.radii a.x_rotation (a.appendParams tol).2.2 a.start_angle 0)
      :: a.append_iter tol) = _
    rw [append_iter_eq, segs_moveTo_curveEls, curveSegs_arc, hr, hrot]
    congr 1
    apply List.map_congr_left
    intro k _
    rw [arc_piece_circular]
  refine ⟨_, hsegs, by simp, ?_⟩
  intro s hs
  obtain ⟨k, -, rfl⟩ := List.mem_map.mp hs
  exact ⟨_, rfl, fun t h0 h1 => circular_arc_within a tol R hr hR htol hbig k h0 h1⟩

end count
end Kurbo
