import Proofs.Lemmas.C10ArcTol
import Proofs.Lemmas.C10ATaylor
/-! Helper lemmas for C10A, part 2: the sharp numeric inequality behind the constants `1.1163` and `3.999999` of
    `Arc::append_iter`, for EVERY real `n_err = m ≥ 3.999999`:

      `√(1 + (4/27)·sin⁶x/cos²x) − 1 ≤ 1.1163/m⁶`   whenever `0 ≤ x ≤ π/(2m)`

    (`x = step/4`; the left side is the maximal relative radial deviation of the standard cubic of a circular arc of
    angle `step`).  At `m = 3.999999`, `x = π/(2m)` the two sides are `2.7253042e-4` and `2.7253459e-4`: the relative
    margin is `1.53e-5`, so
    * `√(1+u) ≤ 1 + u/2` is too coarse (it costs `1.2e-4`): the square root is removed exactly
      (`1 + u ≤ (1 + k)²`, `k = 1.1163/m⁶`), which leaves `(4/27)·sin⁶x·m⁶ ≤ cos²x·(2·1.1163 + 1.1163²/m⁶)`;
    * `sin x ≤ x − x³/6 + x⁵/120` (cost `4.5e-6`), `cos x ≥ 1 − x²/2 + x⁴/24 − x⁶/720` (cost `3e-8`),
      `π < 3.141593` (cost `6.6e-7`), `1/m⁶ ≥ (2x/π)⁶`;
    * what remains is a polynomial inequality of degree 12 in `y = x²` on `[0, 0.154213]` with margin `1.93e-5` at the
      right end (of `2.2326`), proved by `linarith` from the products `(B − y)·yᵏ ≥ 0`, `(B − y)²·yᵏ ≥ 0`. -/
set_option linter.unusedSectionVars false
namespace Kurbo

/-- polynomial core: with `q = 1 − y/6 + y²/120` (`sin x ≤ x·q(x²)`), `g = 1 − y/2 + y²/24 − y³/720` (`cos x ≥ g(x²)`),
    `2.225439421 ≥ (4/27)(3.141593/2)⁶`, `0.08295 ≤ 1.1163²·(2/3.141593)⁶`:
    `2.225439421·q⁶ ≤ g²·(2·1.1163 + 0.08295·y³)` on `[0, 0.154213]` (margin `1.93e-5` at the right end) -/
theorem c10a_poly_core {y : ℝ} (h0 : 0 ≤ y) (h1 : y ≤ 154213 / 1000000) :
    2225439421 / 1000000000 * (1 - y / 6 + y ^ 2 / 120) ^ 6
      ≤ (1 - y / 2 + y ^ 2 / 24 - y ^ 3 / 720) ^ 2 * (2 * (11163 / 10000) + 8295 / 100000 * y ^ 3) := by
  have hB : 0 ≤ 154213 / 1000000 - y := sub_nonneg.2 h1
  have H0 := hB
  have H1 := mul_nonneg hB h0
  have H2 := mul_nonneg hB (pow_nonneg h0 2)
  have H3 := mul_nonneg hB (pow_nonneg h0 3)
  have H4 := mul_nonneg hB (pow_nonneg h0 4)
  have H5 := mul_nonneg hB (pow_nonneg h0 5)
  have H6 := mul_nonneg hB (pow_nonneg h0 6)
  have H7 := mul_nonneg hB (pow_nonneg h0 7)
  have H8 := mul_nonneg hB (pow_nonneg h0 8)
  have H9 := mul_nonneg hB (pow_nonneg h0 9)
  have H10 := mul_nonneg hB (pow_nonneg h0 10)
  have H11 := mul_nonneg hB (pow_nonneg h0 11)
  have G1 := mul_nonneg (mul_nonneg hB hB) h0
  have G2 := mul_nonneg (mul_nonneg hB hB) (pow_nonneg h0 2)
  have G3 := mul_nonneg (mul_nonneg hB hB) (pow_nonneg h0 3)
  have G4 := mul_nonneg (mul_nonneg hB hB) (pow_nonneg h0 4)
  have G5 := mul_nonneg (mul_nonneg hB hB) (pow_nonneg h0 5)
  have G6 := mul_nonneg (mul_nonneg hB hB) (pow_nonneg h0 6)
  have G7 := mul_nonneg (mul_nonneg hB hB) (pow_nonneg h0 7)
  have G8 := mul_nonneg (mul_nonneg hB hB) (pow_nonneg h0 8)
  have G9 := mul_nonneg (mul_nonneg hB hB) (pow_nonneg h0 9)
  have G10 := mul_nonneg (mul_nonneg hB hB) (pow_nonneg h0 10)
  linarith

/-- THE SHARP TRIGONOMETRIC INEQUALITY: for real `m ≥ 3.999999` and `0 ≤ x ≤ π/(2m)`:
    `(4/27)·sin⁶x·m⁶ ≤ cos²x·(2·1.1163 + 1.1163²/m⁶)` -/
theorem c10a_trig_core (m x : ℝ) (hm : 3999999 / 1000000 ≤ m) (hx0 : 0 ≤ x) (hxm : x * m ≤ Real.pi / 2) :
    4 / 27 * Real.sin x ^ 6 * m ^ 6
      ≤ Real.cos x ^ 2 * (2 * (11163 / 10000) + (11163 / 10000) ^ 2 / m ^ 6) := by
  have hm0 : (0 : ℝ) < m := by linarith
  have hm6 : (0 : ℝ) < m ^ 6 := by positivity
  have hpi := Real.pi_lt_d6
  have hxm' : x * (3999999 / 1000000) ≤ x * m := mul_le_mul_of_nonneg_left hm hx0
  have hx1 : x ≤ 3926993 / 10000000 := by linarith
  set y := x ^ 2 with hy
  have hy0 : 0 ≤ y := sq_nonneg x
  have hy1 : y ≤ 154213 / 1000000 := by rw [hy]; nlinarith
  -- sine
  have hs0 : 0 ≤ Real.sin x := Real.sin_nonneg_of_nonneg_of_le_pi hx0 (by linarith [Real.pi_gt_three])
  have hs1 : Real.sin x ≤ x * (1 - y / 6 + y ^ 2 / 120) := by
    have := c10a_sin_le_taylor5 hx0
    calc Real.sin x ≤ x - x ^ 3 / 6 + x ^ 5 / 120 := this
      _ = x * (1 - y / 6 + y ^ 2 / 120) := by rw [hy]; ring
  have hq0 : 0 ≤ 1 - y / 6 + y ^ 2 / 120 := by nlinarith [sq_nonneg y]
  -- cosine
  have hc1 : 1 - y / 2 + y ^ 2 / 24 - y ^ 3 / 720 ≤ Real.cos x := by
    have := c10a_cos_ge_taylor6 hx0
    calc 1 - y / 2 + y ^ 2 / 24 - y ^ 3 / 720 = 1 - x ^ 2 / 2 + x ^ 4 / 24 - x ^ 6 / 720 := by rw [hy]; ring
      _ ≤ Real.cos x := this
  have hy3 : y ^ 3 ≤ 1 := pow_le_one₀ hy0 (by linarith)
  have hg0 : 0 ≤ 1 - y / 2 + y ^ 2 / 24 - y ^ 3 / 720 := by nlinarith [sq_nonneg y]
  have hc2 : (1 - y / 2 + y ^ 2 / 24 - y ^ 3 / 720) ^ 2 ≤ Real.cos x ^ 2 := pow_le_pow_left₀ hg0 hc1 2
  -- the angle bound
  have hxm0 : 0 ≤ x * m := mul_nonneg hx0 hm0.le
  have hxm6 : (x * m) ^ 6 ≤ (3141593 / 2000000 : ℝ) ^ 6 := pow_le_pow_left₀ hxm0 (by linarith) 6
  have hy3m : y ^ 3 * m ^ 6 = (x * m) ^ 6 := by rw [hy]; ring
  -- 1/m⁶ ≥ (2x/π)⁶
  have hlam : 8295 / 100000 * y ^ 3 ≤ (11163 / 10000) ^ 2 / m ^ 6 := by
    rw [le_div_iff₀ hm6]
    have : 8295 / 100000 * y ^ 3 * m ^ 6 = 8295 / 100000 * (x * m) ^ 6 := by rw [← hy3m]; ring
    rw [this]
    have h2 : (8295 / 100000 : ℝ) * (3141593 / 2000000 : ℝ) ^ 6 ≤ (11163 / 10000) ^ 2 := by norm_num
    nlinarith
  have hy30 : 0 ≤ y ^ 3 := pow_nonneg hy0 3
  have hsin6 : Real.sin x ^ 6 ≤ (x * (1 - y / 6 + y ^ 2 / 120)) ^ 6 := pow_le_pow_left₀ hs0 hs1 6
  have hq6 : 0 ≤ (1 - y / 6 + y ^ 2 / 120) ^ 6 := by positivity
  calc 4 / 27 * Real.sin x ^ 6 * m ^ 6
      ≤ 4 / 27 * (x * (1 - y / 6 + y ^ 2 / 120)) ^ 6 * m ^ 6 := by gcongr
    _ = 4 / 27 * (x * m) ^ 6 * (1 - y / 6 + y ^ 2 / 120) ^ 6 := by ring
    _ ≤ 4 / 27 * (3141593 / 2000000 : ℝ) ^ 6 * (1 - y / 6 + y ^ 2 / 120) ^ 6 := by gcongr
    _ ≤ 2225439421 / 1000000000 * (1 - y / 6 + y ^ 2 / 120) ^ 6 := by
        have : (4 / 27 * (3141593 / 2000000 : ℝ) ^ 6) ≤ 2225439421 / 1000000000 := by norm_num
        exact mul_le_mul_of_nonneg_right this hq6
    _ ≤ (1 - y / 2 + y ^ 2 / 24 - y ^ 3 / 720) ^ 2 * (2 * (11163 / 10000) + 8295 / 100000 * y ^ 3) :=
        c10a_poly_core hy0 hy1
    _ ≤ Real.cos x ^ 2 * (2 * (11163 / 10000) + (11163 / 10000) ^ 2 / m ^ 6) := by
        apply mul_le_mul hc2 (by linarith) (by positivity) (sq_nonneg _)

/-- from the squared distance to the distance, without loss: `D² = r²(1 + u)`, `0 ≤ u ≤ 2k + k²` ⇒ `| D − |r| | ≤ |r|·k` -/
theorem c10a_dist_from_sq {D2 r u k : ℝ} (h : D2 = r ^ 2 * (1 + u)) (hu0 : 0 ≤ u) (hk : 0 ≤ k)
    (huk : u ≤ 2 * k + k ^ 2) : abs (Real.sqrt D2 - abs r) ≤ abs r * k := by
  rw [h, Real.sqrt_mul (sq_nonneg r), Real.sqrt_sq_eq_abs]
  have hr : 0 ≤ abs r := abs_nonneg r
  have h1 : 1 ≤ Real.sqrt (1 + u) := by
    have := Real.sqrt_le_sqrt (show (1 : ℝ) ≤ 1 + u by linarith)
    rwa [Real.sqrt_one] at this
  have h2 : Real.sqrt (1 + u) ≤ 1 + k := by
    have : 1 + u ≤ (1 + k) ^ 2 := by nlinarith
    have := Real.sqrt_le_sqrt this
    rwa [Real.sqrt_sq (by linarith)] at this
  rw [abs_le]
  constructor <;> nlinarith

/-- the same as a bound for the maximal relative radial deviation `√(1 + (4/27)·sin⁶x/cos²x) − 1` of the standard cubic
    of a circular arc of angle `4x`: it is `≤ 1.1163/m⁶` for every real `m ≥ 3.999999` with `x ≤ π/(2m)` -/
theorem c10a_radial_error_bound (m x : ℝ) (hm : 3999999 / 1000000 ≤ m) (hx0 : 0 ≤ x) (hxm : x * m ≤ Real.pi / 2) :
    Real.sqrt (1 + 4 / 27 * Real.sin x ^ 6 / Real.cos x ^ 2) - 1 ≤ 11163 / 10000 / m ^ 6 := by
  have hm0 : (0 : ℝ) < m := by linarith
  have hm6 : (0 : ℝ) < m ^ 6 := by positivity
  have hpi := Real.pi_pos
  have hxlt : x < Real.pi / 2 := by nlinarith
  have hC : 0 < Real.cos x := Real.cos_pos_of_mem_Ioo ⟨by linarith, hxlt⟩
  have hC2 : 0 < Real.cos x ^ 2 := by positivity
  have htrig := c10a_trig_core m x hm hx0 hxm
  have hk0 : (0 : ℝ) ≤ 11163 / 10000 / m ^ 6 := by positivity
  have hB : 4 / 27 * Real.sin x ^ 6 / Real.cos x ^ 2 ≤ 2 * (11163 / 10000 / m ^ 6) + (11163 / 10000 / m ^ 6) ^ 2 := by
    have e : 2 * (11163 / 10000 / m ^ 6) + (11163 / 10000 / m ^ 6) ^ 2
        = (2 * (11163 / 10000) + (11163 / 10000) ^ 2 / m ^ 6) / m ^ 6 := by
      field_simp
    rw [e, div_le_div_iff₀ hC2 hm6]
    linarith
  have h2 : Real.sqrt (1 + 4 / 27 * Real.sin x ^ 6 / Real.cos x ^ 2) ≤ 1 + 11163 / 10000 / m ^ 6 := by
    have : 1 + 4 / 27 * Real.sin x ^ 6 / Real.cos x ^ 2 ≤ (1 + 11163 / 10000 / m ^ 6) ^ 2 := by nlinarith
    have := Real.sqrt_le_sqrt this
    rwa [Real.sqrt_sq (by linarith)] at this
  linarith

section real
variable [Scalar ℝ] [LawfulScalar ℝ]

/-- a piece with arm `4/3·tan(φ/2)` and half-angle `|φ| ≤ π/m`, for ANY real `m ≥ 3.999999` with `|R|·1.1163/m⁶ ≤ T`,
    stays within `T` of the circle (and, by `circleArcCubic_tan_dist_sq`, never enters it) -/
theorem c10a_tanArm_piece_within (ctr : Point ℝ) (R μ φ m T : ℝ) (hm : 3999999 / 1000000 ≤ m)
    (hφ : |φ / 2| * m ≤ Real.pi / 2) (hT : |R| * (11163 / 10000 / m ^ 6) ≤ T) {t : ℝ} (h0 : 0 ≤ t) (h1 : t ≤ 1) :
    abs (Real.sqrt ((((circleArcCubic ctr R (4 / 3 * Real.tan (φ / 2)) (μ - φ) (μ + φ)).eval t).x - ctr.x) ^ 2
        + (((circleArcCubic ctr R (4 / 3 * Real.tan (φ / 2)) (μ - φ) (μ + φ)).eval t).y - ctr.y) ^ 2) - abs R) ≤ T := by
  have hm0 : (0 : ℝ) < m := by linarith
  have hpi := Real.pi_pos
  have hx0 : 0 ≤ |φ / 2| := abs_nonneg _
  have hxlt : |φ / 2| < Real.pi / 2 := by nlinarith
  have hC' : 0 < Real.cos |φ / 2| := Real.cos_pos_of_mem_Ioo ⟨by linarith, hxlt⟩
  have hC : 0 < Real.cos (φ / 2) := by rwa [Real.cos_abs] at hC'
  obtain ⟨hs0, hs1⟩ := sigma_poly_range (sigma_range h0 h1).1 (sigma_range h0 h1).2
  have hd := circleArcCubic_tan_dist_sq ctr R μ φ t hC.ne'
  have htrig := c10a_trig_core m |φ / 2| hm hx0 hφ
  rw [Real.cos_abs] at htrig
  have hS6 : Real.sin |φ / 2| ^ 6 = Real.sin (φ / 2) ^ 6 := by
    rcases abs_choice (φ / 2) with h | h <;> rw [h]
    rw [Real.sin_neg]; ring
  rw [hS6] at htrig
  set S := Real.sin (φ / 2) with hS
  set C := Real.cos (φ / 2) with hCd
  have hE0 : 0 ≤ 16 * S ^ 6 / C ^ 2 := by positivity
  have hu0 : 0 ≤ 16 * S ^ 6 / C ^ 2 * ((t * (1 - t)) ^ 2 - 4 * (t * (1 - t)) ^ 3) := mul_nonneg hE0 hs0
  have hm6 : (0 : ℝ) < m ^ 6 := by positivity
  have hC2 : 0 < C ^ 2 := by positivity
  have hk0 : (0 : ℝ) ≤ 11163 / 10000 / m ^ 6 := by positivity
  refine ((c10a_dist_from_sq hd hu0 hk0 ?_).trans_eq rfl).trans hT
  have hA : 16 * S ^ 6 / C ^ 2 * ((t * (1 - t)) ^ 2 - 4 * (t * (1 - t)) ^ 3) ≤ 4 / 27 * S ^ 6 / C ^ 2 := by
    have : 16 * S ^ 6 / C ^ 2 * ((t * (1 - t)) ^ 2 - 4 * (t * (1 - t)) ^ 3) ≤ 16 * S ^ 6 / C ^ 2 * (1 / 108) :=
      mul_le_mul_of_nonneg_left hs1 hE0
    calc 16 * S ^ 6 / C ^ 2 * ((t * (1 - t)) ^ 2 - 4 * (t * (1 - t)) ^ 3)
        ≤ 16 * S ^ 6 / C ^ 2 * (1 / 108) := this
      _ = 4 / 27 * S ^ 6 / C ^ 2 := by ring
  have hB : 4 / 27 * S ^ 6 / C ^ 2 ≤ 2 * (11163 / 10000 / m ^ 6) + (11163 / 10000 / m ^ 6) ^ 2 := by
    have e : 2 * (11163 / 10000 / m ^ 6) + (11163 / 10000 / m ^ 6) ^ 2
        = (2 * (11163 / 10000) + (11163 / 10000) ^ 2 / m ^ 6) / m ^ 6 := by
      field_simp
    rw [e, div_le_div_iff₀ hC2 hm6]
    linarith
  exact hA.trans hB

end real
end Kurbo
