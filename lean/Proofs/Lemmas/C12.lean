import Proofs.KDefs
/-! Helper lemmas for C12 (affine maps): unfolding lemmas for the operator instances declared in `Kurbo/Kernel.lean`
    (`A * B`, `A * p`, `A * line`, `ts * p`, …), the `kdefs` registration of the affine kernel definitions, the tactic
    `kaff` (= `kring` with more structure-equality lemmas) and the min/max facts used for `transform_rect_bbox`. -/
set_option linter.unusedSectionVars false
namespace Kurbo
section unfold
variable {K : Type} [Scalar K]

@[kdefs] theorem affine_mul_def (A B : Affine K) : A * B = Affine.mul_Affine A B := rfl
@[kdefs] theorem affine_mul_point_def (A : Affine K) (p : Point K) : A * p = Affine.mul_Point A p := rfl
@[kdefs] theorem affine_mul_line_def (A : Affine K) (l : Line K) : A * l = Affine.mul_Line A l := rfl
@[kdefs] theorem affine_mul_quad_def (A : Affine K) (q : QuadBez K) : A * q = Affine.mul_QuadBez A q := rfl
@[kdefs] theorem affine_mul_cubic_def (A : Affine K) (c : CubicBez K) : A * c = Affine.mul_CubicBez A c := rfl
theorem affine_mul_pathSeg_def (A : Affine K) (s : PathSeg K) : A * s = Affine.mul_PathSeg A s := rfl
theorem affine_mul_pathEl_def (A : Affine K) (e : PathEl K) : A * e = Affine.mul_PathEl A e := rfl
@[kdefs] theorem ts_mul_point_def (T : TranslateScale K) (p : Point K) : T * p = TranslateScale.mul_Point T p := rfl
@[kdefs] theorem ts_mul_ts_def (S T : TranslateScale K) : S * T = TranslateScale.mul_TranslateScale S T := rfl
@[kdefs] theorem rect_mabs_def (r : Rect K) : MAbs.abs r = Rect.abs r := rfl
@[kdefs] theorem rect_coe_def (p q : Point K) : ((↑(p, q) : Rect K)) = Rect.from_points p q := rfl

attribute [kdefs] Affine.mul_Affine Affine.mul_Point Affine.scale Affine.scale_non_uniform Affine.translate Affine.skew
  Affine.rotate Affine.then_translate Affine.then_rotate Affine.then_scale Affine.then_scale_non_uniform
  Affine.scale_about Affine.rotate_about Affine.then_rotate_about Affine.then_scale_about
  Affine.pre_rotate Affine.pre_rotate_about Affine.pre_scale Affine.pre_scale_non_uniform Affine.pre_translate
  Affine.determinant Affine.inverse Affine.translation Affine.with_translation
  Affine.mul_Line Affine.mul_QuadBez Affine.mul_CubicBez Affine.map_unit_square
  TranslateScale.translate TranslateScale.from_scale_about TranslateScale.inverse TranslateScale.to_affine
  TranslateScale.mul_Point TranslateScale.mul_TranslateScale TranslateScale.add_Vec2 TranslateScale.sub_Vec2
  TranslateScale.mul_Line TranslateScale.mul_QuadBez TranslateScale.mul_CubicBez

end unfold
end Kurbo

/-- `kring` with the structure-equality lemmas of `TranslateScale`/`PathSeg`/`PathEl` added and any number of conjuncts -/
macro "kaff" : tactic => `(tactic| (
  simp only [kdefs, scalar_norm, Kurbo.Point.mk.injEq, Kurbo.Vec2.mk.injEq, Kurbo.Line.mk.injEq,
    Kurbo.QuadBez.mk.injEq, Kurbo.CubicBez.mk.injEq, Kurbo.Affine.mk.injEq, Kurbo.Rect.mk.injEq,
    Kurbo.TranslateScale.mk.injEq, Prod.mk.injEq]
  <;> (try push_cast) <;> (repeat' (refine And.intro ?_ ?_)) <;> (first | exact True.intro | ring)))

/-- unfold to field arithmetic (no closing step) -/
macro "kaff_unfold" : tactic => `(tactic| (
  simp only [kdefs, scalar_norm, Kurbo.Point.mk.injEq, Kurbo.Vec2.mk.injEq, Kurbo.Line.mk.injEq,
    Kurbo.QuadBez.mk.injEq, Kurbo.CubicBez.mk.injEq, Kurbo.Affine.mk.injEq, Kurbo.Rect.mk.injEq,
    Kurbo.TranslateScale.mk.injEq, Prod.mk.injEq]
  <;> (try push_cast)))

namespace Kurbo
section order
variable {K : Type} [Field K] [LinearOrder K] [IsStrictOrderedRing K]

/-- a linear function on an interval (end points in any order) is at least its smaller end value -/
theorem c12_min_mul_le (a x x0 x1 : K) (h0 : min x0 x1 ≤ x) (h1 : x ≤ max x0 x1) : min (a * x0) (a * x1) ≤ a * x := by
  rcases le_total 0 a with ha | ha <;> rcases le_total x0 x1 with hx | hx
  · rw [min_eq_left hx] at h0
    exact le_trans (min_le_left _ _) (mul_le_mul_of_nonneg_left h0 ha)
  · rw [min_eq_right hx] at h0
    exact le_trans (min_le_right _ _) (mul_le_mul_of_nonneg_left h0 ha)
  · rw [max_eq_right hx] at h1
    exact le_trans (min_le_right _ _) (mul_le_mul_of_nonpos_left h1 ha)
  · rw [max_eq_left hx] at h1
    exact le_trans (min_le_left _ _) (mul_le_mul_of_nonpos_left h1 ha)

theorem c12_le_max_mul (a x x0 x1 : K) (h0 : min x0 x1 ≤ x) (h1 : x ≤ max x0 x1) : a * x ≤ max (a * x0) (a * x1) := by
  have h := c12_min_mul_le (-a) x x0 x1 h0 h1
  rcases le_total (a * x0) (a * x1) with h' | h'
  · rw [max_eq_right h']
    rw [min_eq_right (by linarith)] at h; linarith
  · rw [max_eq_left h']
    rw [min_eq_left (by linarith)] at h; linarith

/-- the smallest of the four corner values of `a x + b y + c` bounds the value at every point of the box -/
theorem c12_min4_le_bilin (a b c x y x0 x1 y0 y1 : K)
    (hx0 : min x0 x1 ≤ x) (hx1 : x ≤ max x0 x1) (hy0 : min y0 y1 ≤ y) (hy1 : y ≤ max y0 y1) :
    min (min (a * x0 + b * y0 + c) (a * x0 + b * y1 + c)) (min (a * x1 + b * y0 + c) (a * x1 + b * y1 + c))
      ≤ a * x + b * y + c := by
  have hx := c12_min_mul_le a x x0 x1 hx0 hx1
  have hy := c12_min_mul_le b y y0 y1 hy0 hy1
  rcases min_choice (a * x0) (a * x1) with e | e <;> rcases min_choice (b * y0) (b * y1) with f | f <;>
    rw [e] at hx <;> rw [f] at hy
  · exact le_trans (le_trans (min_le_left _ _) (min_le_left _ _)) (by linarith)
  · exact le_trans (le_trans (min_le_left _ _) (min_le_right _ _)) (by linarith)
  · exact le_trans (le_trans (min_le_right _ _) (min_le_left _ _)) (by linarith)
  · exact le_trans (le_trans (min_le_right _ _) (min_le_right _ _)) (by linarith)

theorem c12_bilin_le_max4 (a b c x y x0 x1 y0 y1 : K)
    (hx0 : min x0 x1 ≤ x) (hx1 : x ≤ max x0 x1) (hy0 : min y0 y1 ≤ y) (hy1 : y ≤ max y0 y1) :
    a * x + b * y + c
      ≤ max (max (a * x0 + b * y0 + c) (a * x0 + b * y1 + c)) (max (a * x1 + b * y0 + c) (a * x1 + b * y1 + c)) := by
  have hx := c12_le_max_mul a x x0 x1 hx0 hx1
  have hy := c12_le_max_mul b y y0 y1 hy0 hy1
  rcases max_choice (a * x0) (a * x1) with e | e <;> rcases max_choice (b * y0) (b * y1) with f | f <;>
    rw [e] at hx <;> rw [f] at hy
  · exact le_trans (by linarith) (le_trans (le_max_left _ _) (le_max_left _ _))
  · exact le_trans (by linarith) (le_trans (le_max_right _ _) (le_max_left _ _))
  · exact le_trans (by linarith) (le_trans (le_max_left _ _) (le_max_right _ _))
  · exact le_trans (by linarith) (le_trans (le_max_right _ _) (le_max_right _ _))

/-- a non-degenerate scaling reflects betweenness -/
theorem c12_between_of_scaled (s t x x0 x1 : K) (hs : s ≠ 0) (h0 : min (x0 * s + t) (x1 * s + t) ≤ x * s + t)
    (h1 : x * s + t ≤ max (x0 * s + t) (x1 * s + t)) : min x0 x1 ≤ x ∧ x ≤ max x0 x1 := by
  rcases lt_or_gt_of_ne hs with hneg | hpos <;> rcases le_total x0 x1 with hx | hx
  · rw [min_eq_right (by nlinarith)] at h0; rw [max_eq_left (by nlinarith)] at h1
    rw [min_eq_left hx, max_eq_right hx]
    constructor <;> nlinarith
  · rw [min_eq_left (by nlinarith)] at h0; rw [max_eq_right (by nlinarith)] at h1
    rw [min_eq_right hx, max_eq_left hx]
    constructor <;> nlinarith
  · rw [min_eq_left (by nlinarith)] at h0; rw [max_eq_right (by nlinarith)] at h1
    rw [min_eq_left hx, max_eq_right hx]
    constructor <;> nlinarith
  · rw [min_eq_right (by nlinarith)] at h0; rw [max_eq_left (by nlinarith)] at h1
    rw [min_eq_right hx, max_eq_left hx]
    constructor <;> nlinarith

theorem c12_min4_cases (a b c d : K) : min (min a b) (min c d) = a ∨ min (min a b) (min c d) = b ∨
    min (min a b) (min c d) = c ∨ min (min a b) (min c d) = d := by
  rcases min_choice (min a b) (min c d) with h | h <;> rw [h]
  · rcases min_choice a b with h' | h' <;> simp [h']
  · rcases min_choice c d with h' | h' <;> simp [h']
theorem c12_max4_cases (a b c d : K) : max (max a b) (max c d) = a ∨ max (max a b) (max c d) = b ∨
    max (max a b) (max c d) = c ∨ max (max a b) (max c d) = d := by
  rcases max_choice (max a b) (max c d) with h | h <;> rw [h]
  · rcases max_choice a b with h' | h' <;> simp [h']
  · rcases max_choice c d with h' | h' <;> simp [h']

theorem c12_min4_attained {α : Type} (f : α → K) (a b c d : α) :
    ∃ p ∈ [a, b, c, d], f p = min (min (f a) (f b)) (min (f c) (f d)) := by
  rcases c12_min4_cases (f a) (f b) (f c) (f d) with h | h | h | h
  · exact ⟨a, by simp, h.symm⟩
  · exact ⟨b, by simp, h.symm⟩
  · exact ⟨c, by simp, h.symm⟩
  · exact ⟨d, by simp, h.symm⟩
theorem c12_max4_attained {α : Type} (f : α → K) (a b c d : α) :
    ∃ p ∈ [a, b, c, d], f p = max (max (f a) (f b)) (max (f c) (f d)) := by
  rcases c12_max4_cases (f a) (f b) (f c) (f d) with h | h | h | h
  · exact ⟨a, by simp, h.symm⟩
  · exact ⟨b, by simp, h.symm⟩
  · exact ⟨c, by simp, h.symm⟩
  · exact ⟨d, by simp, h.symm⟩

end order
end Kurbo
