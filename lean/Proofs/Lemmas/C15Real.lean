import Proofs.Lemmas.C15Cubic
import Mathlib.Analysis.SpecialFunctions.Pow.Real
import Mathlib.Analysis.SpecialFunctions.Sqrt
import Mathlib.Analysis.SpecialFunctions.Complex.Arg
import Mathlib.Analysis.SpecialFunctions.Trigonometric.Basic
import Mathlib.Algebra.Order.Archimedean.Real.Basic
/-! helper lemmas for C15, the real-analysis part of `solve_cubic`: the laws of the transcendental `Scalar` fields over ℝ
    (`LawfulReal`) and the three discriminant branches on the depressed cubic `t³ + 3·d0·t + de`. -/
set_option linter.unusedSectionVars false
namespace Kurbo
open Real

/-- real cube root, as `f64::cbrt` computes it (sign-aware) -/
noncomputable def realCbrt (x : ℝ) : ℝ := if 0 ≤ x then x ^ ((1:ℝ)/3) else -((-x) ^ ((1:ℝ)/3))

/-- the transcendental fields of a `Scalar ℝ` instance are the real functions they are named after -/
class LawfulReal [Scalar ℝ] : Prop where
  sqrt_eq : ∀ x : ℝ, Scalar.sqrt x = Real.sqrt x
  cbrt_eq : ∀ x : ℝ, Scalar.cbrt x = realCbrt x
  sin_eq : ∀ x : ℝ, Scalar.sin x = Real.sin x
  cos_eq : ∀ x : ℝ, Scalar.cos x = Real.cos x
  /-- `y.atan2(x)` is the argument of `x + i·y` in `(-π, π]` -/
  atan2_eq : ∀ y x : ℝ, Scalar.atan2 y x = Complex.arg ⟨x, y⟩

/-! ### cube root -/

theorem cbrt_cube_nonneg {x : ℝ} (hx : 0 ≤ x) : (x ^ ((1:ℝ)/3)) ^ 3 = x := by
  rw [← Real.rpow_natCast, ← Real.rpow_mul hx]
  norm_num

theorem realCbrt_pow (x : ℝ) : realCbrt x ^ 3 = x := by
  unfold realCbrt
  split_ifs with h
  · exact cbrt_cube_nonneg h
  · have h' : 0 ≤ -x := by linarith
    have := cbrt_cube_nonneg h'
    calc (-((-x) ^ ((1:ℝ)/3))) ^ 3 = -(((-x) ^ ((1:ℝ)/3)) ^ 3) := by ring
      _ = x := by rw [this]; ring

/-- cube roots are unique -/
theorem eq_of_cube_eq {a b : ℝ} (h : a ^ 3 = b ^ 3) : a = b := by
  have hodd : Odd 3 := by decide
  exact (hodd.strictMono_pow (R := ℝ)).injective h

theorem realCbrt_mul (x y : ℝ) : realCbrt x * realCbrt y = realCbrt (x * y) := by
  apply eq_of_cube_eq
  rw [mul_pow, realCbrt_pow, realCbrt_pow, realCbrt_pow]

theorem realCbrt_of_cube (a : ℝ) : realCbrt (a ^ 3) = a := by
  apply eq_of_cube_eq; rw [realCbrt_pow]

/-! ### the depressed cubic `t³ + 3·d0·t + de` with `de² + d + 4·d0³ = 0` -/

/-- `d < 0`: Cardano's value is a root -/
theorem cardano_root {d0 de d : ℝ} (hid : de ^ 2 + d + 4 * d0 ^ 3 = 0) (hd : d < 0) :
    let t1 := realCbrt (-(1 / 2) * de + Real.sqrt (-(1 / 4) * d)) + realCbrt (-(1 / 2) * de - Real.sqrt (-(1 / 4) * d))
    t1 ^ 3 + 3 * d0 * t1 + de = 0 := by
  intro t1
  set sq := Real.sqrt (-(1 / 4) * d) with hsqdef
  set r := -(1 / 2) * de with hr
  have hsq : sq * sq = -(1 / 4) * d := Real.mul_self_sqrt (by linarith)
  set u := realCbrt (r + sq) with hu
  set v := realCbrt (r - sq) with hv
  have hu3 : u ^ 3 = r + sq := realCbrt_pow _
  have hv3 : v ^ 3 = r - sq := realCbrt_pow _
  have huv : u * v = -d0 := by
    rw [hu, hv, realCbrt_mul]
    have : (r + sq) * (r - sq) = (-d0) ^ 3 := by
      rw [hr]; linear_combination (-1 : ℝ) * hsq + (1 / 4 : ℝ) * hid
    rw [this, realCbrt_of_cube]
  have e1 : t1 = u + v := rfl
  have : t1 ^ 3 = u ^ 3 + v ^ 3 + 3 * (u * v) * t1 := by rw [e1]; ring
  rw [this, hu3, hv3, huv, hr]; ring

/-- `d < 0`: there is only one real root -/
theorem depressed_unique {d0 de d t1 t : ℝ} (hid : de ^ 2 + d + 4 * d0 ^ 3 = 0) (hd : d < 0)
    (h1 : t1 ^ 3 + 3 * d0 * t1 + de = 0) (h : t ^ 3 + 3 * d0 * t + de = 0) : t = t1 := by
  -- (s + 4 d0)(s + d0)² = de² + 4 d0³ = -d > 0 with s = t1²
  have hprod : (t1 ^ 2 + 4 * d0) * (t1 ^ 2 + d0) ^ 2 = -d := by
    have hde : de = -(t1 ^ 3 + 3 * d0 * t1) := by linear_combination h1
    have : d = -(de ^ 2 + 4 * d0 ^ 3) := by linear_combination hid
    rw [this, hde]; ring
  have hpos : 0 < t1 ^ 2 + 4 * d0 := by
    by_contra hneg
    have h0 : t1 ^ 2 + 4 * d0 ≤ 0 := not_lt.mp hneg
    have : (t1 ^ 2 + 4 * d0) * (t1 ^ 2 + d0) ^ 2 ≤ 0 := mul_nonpos_of_nonpos_of_nonneg h0 (sq_nonneg _)
    linarith
  have hfac : (t - t1) * (t ^ 2 + t1 * t + t1 ^ 2 + 3 * d0) = 0 := by linear_combination h - h1
  rcases mul_eq_zero.mp hfac with h2 | h2
  · linarith
  · exfalso
    have : 0 ≤ (2 * t + t1) ^ 2 := sq_nonneg _
    nlinarith

/-- `d = 0`: `t1 = copysign(√(−d0), de)` is the double root, `−2·t1` the simple one -/
theorem double_root_facts {d0 de : ℝ} (hid : de ^ 2 + 4 * d0 ^ 3 = 0) :
    let t1 := if de < 0 then -|Real.sqrt (-d0)| else |Real.sqrt (-d0)|
    d0 = -t1 ^ 2 ∧ de = 2 * t1 ^ 3 := by
  intro t1
  have hd0 : d0 ≤ 0 := by
    by_contra h
    have h0 : 0 < d0 := not_le.mp h
    have : 0 < d0 ^ 3 := by positivity
    nlinarith [sq_nonneg de]
  set ρ := Real.sqrt (-d0) with hρ
  have hρ0 : 0 ≤ ρ := Real.sqrt_nonneg _
  have hρ2 : ρ ^ 2 = -d0 := Real.sq_sqrt (by linarith)
  have habs : |ρ| = ρ := abs_of_nonneg hρ0
  have hde2 : de ^ 2 = (2 * ρ ^ 3) ^ 2 := by
    have : d0 = -ρ ^ 2 := by linarith
    rw [this] at hid; linear_combination hid
  have hρ3 : 0 ≤ 2 * ρ ^ 3 := by positivity
  by_cases hde : de < 0
  · have ht : t1 = -ρ := by simp only [t1, if_pos hde]; rw [← hρ, habs]
    refine ⟨by rw [ht]; linarith, ?_⟩
    have : de = -(2 * ρ ^ 3) := by
      rcases sq_eq_sq_iff_eq_or_eq_neg.mp hde2 with h | h
      · linarith
      · exact h
    rw [ht, this]; ring
  · have ht : t1 = ρ := by simp only [t1, if_neg hde]; rw [← hρ, habs]
    refine ⟨by rw [ht]; linarith, ?_⟩
    have : de = 2 * ρ ^ 3 := by
      rcases sq_eq_sq_iff_eq_or_eq_neg.mp hde2 with h | h
      · exact h
      · have := not_lt.mp hde
        have : ρ ^ 3 = 0 := by linarith
        rw [h, this]; ring
    rw [ht, this]

theorem double_root_iff {d0 de t1 t : ℝ} (h0 : d0 = -t1 ^ 2) (he : de = 2 * t1 ^ 3) :
    t ^ 3 + 3 * d0 * t + de = 0 ↔ t = t1 ∨ t = -2 * t1 := by
  have hfac : t ^ 3 + 3 * d0 * t + de = (t - t1) ^ 2 * (t + 2 * t1) := by rw [h0, he]; ring
  rw [hfac, mul_eq_zero, sq_eq_zero_iff, sub_eq_zero]
  constructor
  · rintro (h | h)
    · exact Or.inl h
    · right; linarith
  · rintro (h | h)
    · exact Or.inl h
    · right; linarith

/-! ### the trigonometric branch -/

theorem cos_arg_mk {y x : ℝ} (h : ¬ (x = 0 ∧ y = 0)) :
    Real.cos (Complex.arg ⟨x, y⟩) = x / Real.sqrt (x * x + y * y) := by
  have hz : (⟨x, y⟩ : ℂ) ≠ 0 := by
    intro h0; apply h; exact ⟨congrArg Complex.re h0, congrArg Complex.im h0⟩
  rw [Complex.cos_arg hz]
  simp [Complex.norm_def, Complex.normSq_apply]

/-- a value `T = 2ρ·cos φ` with `cos 3φ = −de/(2ρ³)` solves the depressed cubic `T³ + 3·d0·T + de = 0`, `d0 = −ρ²` -/
theorem trig_root {ρ de φ : ℝ} (hρ : 0 < ρ) (hφ : Real.cos (3 * φ) = -de / (2 * ρ ^ 3)) :
    (2 * ρ * Real.cos φ) ^ 3 + 3 * (-(ρ ^ 2)) * (2 * ρ * Real.cos φ) + de = 0 := by
  have h3 := Real.cos_three_mul φ
  have : (2 * ρ * Real.cos φ) ^ 3 + 3 * (-(ρ ^ 2)) * (2 * ρ * Real.cos φ) = 2 * ρ ^ 3 * Real.cos (3 * φ) := by
    rw [h3]; ring
  rw [this, hφ]
  field_simp
  ring

theorem cos_two_pi_div_three : Real.cos (2 * π / 3) = -1 / 2 := by
  have : 2 * π / 3 = π - π / 3 := by ring
  rw [this, Real.cos_pi_sub, Real.cos_pi_div_three]; ring
theorem sin_two_pi_div_three : Real.sin (2 * π / 3) = Real.sqrt 3 / 2 := by
  have : 2 * π / 3 = π - π / 3 := by ring
  rw [this, Real.sin_pi_sub, Real.sin_pi_div_three]

/-- `d > 0`: the three values of the trigonometric branch are roots of the depressed cubic and strictly decreasing -/
theorem trig_roots {d0 de d : ℝ} (hid : de ^ 2 + d + 4 * d0 ^ 3 = 0) (hd : 0 < d) :
    let th := Complex.arg ⟨-de, Real.sqrt d⟩ * (1 / 3)
    let t := 2 * Real.sqrt (-d0)
    let T0 := t * Real.cos th
    let T1 := t * (1 / 2 * (-Real.cos th + Real.sin th * Real.sqrt 3))
    let T2 := t * (1 / 2 * (-Real.cos th - Real.sin th * Real.sqrt 3))
    (T0 ^ 3 + 3 * d0 * T0 + de = 0 ∧ T1 ^ 3 + 3 * d0 * T1 + de = 0 ∧ T2 ^ 3 + 3 * d0 * T2 + de = 0) ∧
    T2 < T1 ∧ T1 < T0 := by
  intro th t T0 T1 T2
  have hd0 : d0 < 0 := by
    by_contra h
    have h0 : 0 ≤ d0 := not_lt.mp h
    have : 0 ≤ d0 ^ 3 := by positivity
    nlinarith [sq_nonneg de]
  set ρ := Real.sqrt (-d0) with hρdef
  have hρ : 0 < ρ := Real.sqrt_pos.mpr (by linarith)
  have hρ2 : ρ ^ 2 = -d0 := Real.sq_sqrt (by linarith)
  have hsdpos : 0 < Real.sqrt d := Real.sqrt_pos.mpr hd
  have hsd : Real.sqrt d * Real.sqrt d = d := Real.mul_self_sqrt hd.le
  have hnorm : Real.sqrt ((-de) * (-de) + Real.sqrt d * Real.sqrt d) = 2 * ρ ^ 3 := by
    have h1 : (-de) * (-de) + Real.sqrt d * Real.sqrt d = (2 * ρ ^ 3) ^ 2 := by
      rw [hsd]
      have : (2 * ρ ^ 3) ^ 2 = 4 * (ρ ^ 2) ^ 3 := by ring
      rw [this, hρ2]; linear_combination hid
    rw [h1]; exact Real.sqrt_sq (by positivity)
  have hcos3 : Real.cos (3 * th) = -de / (2 * ρ ^ 3) := by
    have : 3 * th = Complex.arg ⟨-de, Real.sqrt d⟩ := by simp only [th]; ring
    rw [this, cos_arg_mk (by rintro ⟨_, h⟩; linarith), hnorm]
  have key : ∀ φ : ℝ, Real.cos (3 * φ) = -de / (2 * ρ ^ 3) →
      (t * Real.cos φ) ^ 3 + 3 * d0 * (t * Real.cos φ) + de = 0 := by
    intro φ hφ
    have hroot := trig_root hρ hφ
    have : d0 = -(ρ ^ 2) := by rw [hρ2]; ring
    rw [this]; exact hroot
  have hr1 : 1 / 2 * (-Real.cos th + Real.sin th * Real.sqrt 3) = Real.cos (th - 2 * π / 3) := by
    rw [Real.cos_sub, cos_two_pi_div_three, sin_two_pi_div_three]; ring
  have hr2 : 1 / 2 * (-Real.cos th - Real.sin th * Real.sqrt 3) = Real.cos (th + 2 * π / 3) := by
    rw [Real.cos_add, cos_two_pi_div_three, sin_two_pi_div_three]; ring
  have hT1 : T1 = t * Real.cos (th - 2 * π / 3) := by simp only [T1]; rw [hr1]
  have hT2 : T2 = t * Real.cos (th + 2 * π / 3) := by simp only [T2]; rw [hr2]
  refine ⟨⟨key th hcos3, ?_, ?_⟩, ?_, ?_⟩
  · rw [hT1]; apply key
    have : 3 * (th - 2 * π / 3) = 3 * th - 2 * π := by ring
    rw [this, Real.cos_sub_two_pi, hcos3]
  · rw [hT2]; apply key
    have : 3 * (th + 2 * π / 3) = 3 * th + 2 * π := by ring
    rw [this, Real.cos_add_two_pi, hcos3]
  all_goals
    have harg0 : 0 < Complex.arg ⟨-de, Real.sqrt d⟩ := by
      have h1 : 0 ≤ Complex.arg ⟨-de, Real.sqrt d⟩ := Complex.arg_nonneg_iff.mpr hsdpos.le
      rcases h1.lt_or_eq with h | h
      · exact h
      · exfalso
        have := (Complex.arg_eq_zero_iff.mp h.symm).2
        simp at this; linarith
    have hargpi : Complex.arg ⟨-de, Real.sqrt d⟩ < π :=
      Complex.arg_lt_pi_iff.mpr (Or.inr (by simp; linarith))
    have hth0 : 0 < th := by simp only [th]; positivity
    have hth1 : th < π / 3 := by simp only [th]; linarith
    have ht : 0 < t := by simp only [t]; positivity
    have hpi := Real.pi_pos
  · -- T2 < T1
    rw [hT1, hT2]
    apply mul_lt_mul_of_pos_left _ ht
    rw [← Real.cos_neg (th - 2 * π / 3)]
    apply Real.strictAntiOn_cos
    · constructor <;> linarith
    · constructor <;> linarith
    · linarith
  · -- T1 < T0
    rw [hT1]
    apply mul_lt_mul_of_pos_left _ ht
    rw [← Real.cos_neg (th - 2 * π / 3)]
    apply Real.strictAntiOn_cos
    · constructor <;> linarith
    · constructor <;> linarith
    · linarith

/-! ### a monic cubic has at most three roots (elementary) -/

theorem depressed_root_mem_three {F : Type} [Field F] {P Q a b c x : F} (hab : a ≠ b) (hac : a ≠ c) (hbc : b ≠ c)
    (ha : a ^ 3 + P * a + Q = 0) (hb : b ^ 3 + P * b + Q = 0) (hc : c ^ 3 + P * c + Q = 0)
    (hx : x ^ 3 + P * x + Q = 0) : x = a ∨ x = b ∨ x = c := by
  by_contra hcon
  simp only [not_or] at hcon
  obtain ⟨hxa, hxb, hxc⟩ := hcon
  have q : ∀ y, y ≠ a → y ^ 3 + P * y + Q = 0 → y ^ 2 + y * a + a ^ 2 + P = 0 := by
    intro y hy h
    have : (y - a) * (y ^ 2 + y * a + a ^ 2 + P) = 0 := by linear_combination h - ha
    rcases mul_eq_zero.mp this with h1 | h1
    · exact absurd (sub_eq_zero.mp h1) hy
    · exact h1
  have qx := q x hxa hx
  have qb := q b (Ne.symm hab) hb
  have qc := q c (Ne.symm hac) hc
  have l : ∀ y, y ≠ b → y ^ 2 + y * a + a ^ 2 + P = 0 → y = -(a + b) := by
    intro y hy h
    have : (y - b) * (y + b + a) = 0 := by linear_combination h - qb
    rcases mul_eq_zero.mp this with h1 | h1
    · exact absurd (sub_eq_zero.mp h1) hy
    · linear_combination h1
  exact hxc ((l x hxb qx).trans (l c (Ne.symm hbc) qc).symm)

/-! ### `cubicCore` over ℝ -/
section core
variable {K : Type} [Field K] [LinearOrder K] [IsStrictOrderedRing K] [FloorRing K] [Scalar K] [LawfulScalar K]

theorem cub_id (a0 a1 a2 : K) : cubDe a0 a1 a2 ^ 2 + cubD a0 a1 a2 + 4 * cubD0 a1 a2 ^ 3 = 0 := by
  unfold cubDe cubD cubD0 cubD1 cubD2; ring

theorem cub_depress (a0 a1 a2 x : K) :
    x ^ 3 + 3 * a2 * x ^ 2 + 3 * a1 * x + a0 = (x + a2) ^ 3 + 3 * cubD0 a1 a2 * (x + a2) + cubDe a0 a1 a2 := by
  unfold cubDe cubD0 cubD1; ring
end core

section real
variable [Scalar ℝ] [LawfulScalar ℝ] [LawfulReal]

/-- `solve_cubic` on the scaled coefficients returns exactly the real roots -/
theorem cubicCore_mem_iff (a0 a1 a2 x : ℝ) :
    x ∈ cubicCore a0 a1 a2 ↔ x ^ 3 + 3 * a2 * x ^ 2 + 3 * a1 * x + a0 = 0 := by
  rw [cub_depress]
  have hid := cub_id a0 a1 a2
  unfold cubicCore
  simp only [LawfulReal.sqrt_eq, LawfulReal.cbrt_eq, LawfulReal.sin_eq, LawfulReal.cos_eq, LawfulReal.atan2_eq]
  generalize cubD0 a1 a2 = d0 at hid ⊢
  generalize cubDe a0 a1 a2 = de at hid ⊢
  generalize cubD a0 a1 a2 = d at hid ⊢
  rcases lt_trichotomy d 0 with hd | hd | hd
  · rw [if_pos hd]
    have h1 := cardano_root hid hd
    simp only [List.mem_singleton]
    constructor
    · intro h
      have : x + a2 = realCbrt (-(1 / 2) * de + Real.sqrt (-(1 / 4) * d))
          + realCbrt (-(1 / 2) * de - Real.sqrt (-(1 / 4) * d)) := by rw [h]; ring
      rw [this]; exact h1
    · intro h
      have := depressed_unique hid hd h1 h
      linear_combination this
  · rw [if_neg (by rw [hd]; exact lt_irrefl _), if_pos hd]
    rw [hd, add_zero] at hid
    obtain ⟨h0, he⟩ := double_root_facts hid
    rw [double_root_iff h0 he]
    simp only [List.mem_cons, List.not_mem_nil, or_false]
    constructor
    · rintro (h | h)
      · left; rw [h]; ring
      · right; rw [h]; ring
    · rintro (h | h)
      · left; linear_combination h
      · right; linear_combination h
  · rw [if_neg (not_lt.mpr hd.le), if_neg (ne_of_gt hd)]
    obtain ⟨⟨r0, r1, r2⟩, h21, h10⟩ := trig_roots hid hd
    simp only [List.mem_cons, List.not_mem_nil, or_false]
    constructor
    · rintro (h | h | h)
      · subst h; rw [neg_add_cancel_right]; exact r0
      · subst h; rw [neg_add_cancel_right]; exact r1
      · subst h; rw [neg_add_cancel_right]; exact r2
    · intro h
      rcases depressed_root_mem_three h10.ne' (h21.trans h10).ne' h21.ne' r0 r1 r2 h with h | h | h
      · left; linear_combination h
      · right; left; linear_combination h
      · right; right; linear_combination h

/-- no value is returned twice unless the cubic has a triple root (`d = 0 ∧ d0 = 0`) -/
theorem cubicCore_nodup (a0 a1 a2 : ℝ) (h : cubD a0 a1 a2 ≠ 0 ∨ cubD0 a1 a2 ≠ 0) :
    (cubicCore a0 a1 a2).Nodup := by
  have hid := cub_id a0 a1 a2
  unfold cubicCore
  simp only [LawfulReal.sqrt_eq, LawfulReal.cbrt_eq, LawfulReal.sin_eq, LawfulReal.cos_eq, LawfulReal.atan2_eq]
  generalize cubD0 a1 a2 = d0 at hid h ⊢
  generalize cubDe a0 a1 a2 = de at hid ⊢
  generalize cubD a0 a1 a2 = d at hid h ⊢
  rcases lt_trichotomy d 0 with hd | hd | hd
  · rw [if_pos hd]; exact List.nodup_singleton _
  · rw [if_neg (by rw [hd]; exact lt_irrefl _), if_pos hd]
    rw [hd, add_zero] at hid
    obtain ⟨h0, -⟩ := double_root_facts hid
    have hd0 : d0 ≠ 0 := h.resolve_left (fun h' => h' hd)
    simp only [List.nodup_cons, List.mem_singleton, List.not_mem_nil, not_false_eq_true, List.nodup_nil, and_true]
    intro heq
    apply hd0
    generalize (if de < 0 then -|Real.sqrt (-d0)| else |Real.sqrt (-d0)|) = t1 at h0 heq
    have : t1 = 0 := by linear_combination (1 / 3 : ℝ) * heq
    rw [h0, this]; ring
  · rw [if_neg (not_lt.mpr hd.le), if_neg (ne_of_gt hd)]
    obtain ⟨-, h21, h10⟩ := trig_roots hid hd
    simp only [List.nodup_cons, List.mem_cons, List.not_mem_nil, not_false_eq_true, List.nodup_nil,
      and_true, not_or, or_false, add_left_inj]
    exact ⟨⟨h10.ne', (h21.trans h10).ne'⟩, h21.ne'⟩

/-- the usual discriminant of `c0 + c1 x + c2 x² + c3 x³` -/
def cubicDisc {F : Type} [Field F] (c0 c1 c2 c3 : F) : F :=
  c1 ^ 2 * c2 ^ 2 - 4 * c3 * c1 ^ 3 - 4 * c2 ^ 3 * c0 - 27 * c3 ^ 2 * c0 ^ 2 + 18 * c3 * c2 * c1 * c0

theorem cubD_scaled (c0 c1 c2 c3 : ℝ) (h3 : c3 ≠ 0) :
    cubD (c0 * (1 / c3)) (c1 * (1 / 3 * (1 / c3))) (c2 * (1 / 3 * (1 / c3))) = cubicDisc c0 c1 c2 c3 / (27 * c3 ^ 4) := by
  unfold cubD cubD0 cubD1 cubD2 cubicDisc
  field_simp
  ring

theorem cubD0_scaled (c1 c2 c3 : ℝ) (h3 : c3 ≠ 0) :
    cubD0 (c1 * (1 / 3 * (1 / c3))) (c2 * (1 / 3 * (1 / c3))) = (3 * c1 * c3 - c2 ^ 2) / (9 * c3 ^ 2) := by
  unfold cubD0
  field_simp
  ring

theorem cubic_eq_scaled (c0 c1 c2 c3 x : ℝ) (h3 : c3 ≠ 0) :
    c0 + c1 * x + c2 * x ^ 2 + c3 * x ^ 3 =
      c3 * (x ^ 3 + 3 * (c2 * (1 / 3 * (1 / c3))) * x ^ 2 + 3 * (c1 * (1 / 3 * (1 / c3))) * x + c0 * (1 / c3)) := by
  field_simp
  ring

end real

/-! ### `LawfulReal` is inhabited: the real numbers with the Mathlib functions -/

/-- ℝ with the Mathlib functions as a `Scalar` (fields that no C15 statement mentions are filled arbitrarily) -/
@[instance_reducible] noncomputable def realScalar : Scalar ℝ where
  add := (· + ·); sub := (· - ·); mul := (· * ·); div := (· / ·); neg := (- ·)
  abs x := |x|
  lt a b := decide (a < b); le a b := decide (a ≤ b); beq a b := decide (a = b)
  ofRat r := (r : ℝ)
  floor x := (⌊x⌋ : ℝ); ceil x := (⌈x⌉ : ℝ)
  round a := if a < 0 then (⌈a - 1/2⌉ : ℝ) else (⌊a + 1/2⌋ : ℝ)
  trunc a := if a < 0 then (⌈a⌉ : ℝ) else (⌊a⌋ : ℝ)
  sqrt := Real.sqrt
  cbrt := realCbrt
  sin := Real.sin
  cos := Real.cos
  tan := Real.tan
  acos := Real.arccos
  atan2 y x := Complex.arg ⟨x, y⟩
  powf x y := x ^ y
  ln := Real.log
  log2 x := Real.log x / Real.log 2
  fma a b c := a * b + c
  hypot x y := Real.sqrt (x * x + y * y)
  copysign a b := if b < 0 then -|a| else |a|
  fin _ := true
  finQuot den _ := decide (den ≠ 0)
  isNan _ := false
  toUSize x := ⌊x⌋₊
  signum x := if x < 0 then -1 else 1
  min a b := min a b
  max a b := max a b
  fmod a b := a - b * (if a / b < 0 then (⌈a / b⌉ : ℝ) else (⌊a / b⌋ : ℝ))
  pi := Real.pi

theorem realScalar_lawful : @LawfulScalar ℝ _ _ _ _ realScalar :=
  letI := realScalar
  { add_eq := fun _ _ => rfl, sub_eq := fun _ _ => rfl, mul_eq := fun _ _ => rfl, div_eq := fun _ _ => rfl,
    neg_eq := fun _ => rfl, abs_eq := fun _ => rfl, lt_eq := fun _ _ => rfl, le_eq := fun _ _ => rfl,
    beq_eq := fun _ _ => rfl, ofRat_eq := fun _ => rfl, min_eq := fun _ _ => rfl, max_eq := fun _ _ => rfl,
    floor_eq := fun _ => rfl, ceil_eq := fun _ => rfl, trunc_eq := fun _ => rfl, round_eq := fun _ => rfl,
    copysign_eq := fun _ _ => rfl, signum_eq := fun _ => rfl, fin_eq := fun _ => rfl, finQuot_eq := fun _ _ => rfl,
    isNan_eq := fun _ => rfl, fma_eq := fun _ _ _ => rfl }

theorem realScalar_lawfulReal : @LawfulReal realScalar :=
  letI := realScalar
  { sqrt_eq := fun _ => rfl, cbrt_eq := fun _ => rfl, sin_eq := fun _ => rfl, cos_eq := fun _ => rfl,
    atan2_eq := fun _ _ => rfl }

end Kurbo
