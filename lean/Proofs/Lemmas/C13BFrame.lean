import Proofs.Lemmas.C13Open
/-! C13B (closed polyline sub-path), generic part: the `ClosePath` arm of `get_input`, the two forms of `handle_closepath`,
    frame lemmas for chains of `step`s (what a chain that consumes `LineTo`s leaves untouched), splitting the
    specification's `walkList`, playback of the stash when a `ClosePath` is pending. -/
set_option linter.unusedSectionVars false
namespace Kurbo
open DashSpec
variable {K : Type} [Field K] [LinearOrder K] [IsStrictOrderedRing K] [FloorRing K] [Scalar K] [LawfulScalar K]

/-! ### `Point.peq`, `get_input` at a `ClosePath`, `handle_closepath` -/

theorem c13b_peq_iff (a b : Point K) : a.peq b = true ↔ a = b := by
  unfold Point.peq
  simp only [scalar_norm, Bool.and_eq_true, decide_eq_true_eq]
  constructor
  · rintro ⟨h1, h2⟩
    cases a; cases b
    simp only at h1 h2
    rw [h1, h2]
  · rintro rfl
    exact ⟨rfl, rfl⟩

/-- `get_input` with a pending `ClosePath` (the closing line has just been dashed) -/
theorem c13b_get_input_pending (s : DashIt K) (h : s.closepath_pending = true) :
    s.get_input = { s.handle_closepath with t := 0 } := by
  unfold DashIt.get_input
  rw [if_pos h]
  simp only [scalar_norm, Nat.cast_zero]

/-- the closing line is loaded: from `last_pt` to `start_pt`, and the `ClosePath` is pending -/
def DashIt.c13b_loadClose (s : DashIt K) (rest : List (PathEl K)) : DashIt K :=
  { s with inner := rest, closepath_pending := true, seg_remaining := (Line.mk s.last_pt s.start_pt).arclen 0,
           current_seg := .Line ⟨s.last_pt, s.start_pt⟩, last_pt := s.start_pt, t := 0 }

/-- `get_input` on a `ClosePath` when the sub-path does not end at its start: the closing line -/
theorem c13b_get_input_close_ne (s : DashIt K) (rest : List (PathEl K)) (hcp : s.closepath_pending = false)
    (hin : s.inner = .ClosePath :: rest) (hne : s.last_pt ≠ s.start_pt) : s.get_input = s.c13b_loadClose rest := by
  have hp : s.last_pt.peq s.start_pt = false := by
    cases h : s.last_pt.peq s.start_pt
    · rfl
    · exact absurd ((c13b_peq_iff _ _).mp h) hne
  unfold DashIt.get_input DashIt.c13b_loadClose
  rw [if_neg (by rw [hcp]; exact Bool.false_ne_true), hin]
  simp only [getInputList, hp, Bool.false_eq_true, if_false, Bool.not_false, if_true, Line.arclen, scalar_norm,
    Nat.cast_zero]

/-- `get_input` on a `ClosePath` when the sub-path ends at its start: closed at once -/
theorem c13b_get_input_close_eq (s : DashIt K) (rest : List (PathEl K)) (hcp : s.closepath_pending = false)
    (hin : s.inner = .ClosePath :: rest) (heq : s.last_pt = s.start_pt) :
    s.get_input = { ({ s with inner := rest, closepath_pending := true } : DashIt K).handle_closepath with t := 0 } := by
  have hp : s.last_pt.peq s.start_pt = true := (c13b_peq_iff _ _).mpr heq
  unfold DashIt.get_input
  rw [if_neg (by rw [hcp]; exact Bool.false_ne_true), hin]
  simp only [getInputList, hp, Bool.false_eq_true, if_false, Bool.not_true, scalar_norm, Nat.cast_zero]

/-- `handle_closepath` (and `t := 0`) when the first dash is over: playback from index 1 if the pattern is on -/
def DashIt.c13b_closedW (s : DashIt K) : DashIt K :=
  { s with stash_ix := if s.is_active then 1 else s.stash_ix, state := .FromStash, dash_ix := s.init_dash_ix,
           dash_remaining := s.init_dash_remaining, is_active := s.init_is_active, t := 0 }

theorem c13b_handle_working (s : DashIt K) (h : s.state = .Working) :
    ({ s.handle_closepath with t := (0 : K) } : DashIt K) = s.c13b_closedW := by
  unfold DashIt.handle_closepath DashIt.c13b_closedW DashIt.reset_phase
  rw [h]
  cases s.is_active <;> rfl

/-- `handle_closepath` (and `t := 0`) inside the first dash: `ClosePath` goes to the stash -/
def DashIt.c13b_closedS (s : DashIt K) : DashIt K :=
  { s with stash := s.stash.push .ClosePath, state := .FromStash, dash_ix := s.init_dash_ix,
           dash_remaining := s.init_dash_remaining, is_active := s.init_is_active, t := 0 }

theorem c13b_handle_toStash (s : DashIt K) (h : s.state = .ToStash) :
    ({ s.handle_closepath with t := (0 : K) } : DashIt K) = s.c13b_closedS := by
  unfold DashIt.handle_closepath DashIt.c13b_closedS DashIt.reset_phase
  rw [h]
  rfl

/-! ### frame lemmas for `step` and for chains of `step`s -/

/-- a `step` in state `Working` either leaves the input side alone or is the segment-ending step (`get_input`) -/
theorem c13b_step_frame (s s' : DashIt K) (r : Option (PathEl K)) (hw : s.state = .Working) (e : s.step = some (r, s')) :
    (s'.inner = s.inner ∧ s'.start_pt = s.start_pt ∧ s'.last_pt = s.last_pt ∧
      s'.closepath_pending = s.closepath_pending ∧ s'.input_done = s.input_done ∧ s.SameInit s') ∨
    s' = ({ s with dash_remaining := s.dash_remaining - s.seg_remaining } : DashIt K).get_input := by
  cases h0 : (s.state == .ToStash && s.stash.isEmpty)
  · cases h1 : Scalar.lt s.dash_remaining s.seg_remaining
    · rw [step_seg_end_ns s h0 (by rw [hw]; rfl) h1] at e
      simp only [Option.some.injEq, Prod.mk.injEq] at e
      right
      rw [← e.2]
      simp only [scalar_norm]
    · rw [step_switch s h0 h1] at e
      split at e
      · cases e
      · simp only [Option.some.injEq, Prod.mk.injEq] at e
        obtain ⟨-, e2⟩ := e
        subst e2
        exact Or.inl ⟨rfl, rfl, rfl, rfl, rfl, ⟨rfl, rfl, rfl, rfl⟩⟩
  · rw [step_stash_start s h0] at e
    split at e
    · cases e
      exact Or.inl ⟨rfl, rfl, rfl, rfl, rfl, ⟨rfl, rfl, rfl, rfl⟩⟩
    · cases e
      exact Or.inl ⟨rfl, rfl, rfl, rfl, rfl, ⟨rfl, rfl, rfl, rfl⟩⟩

theorem c13b_step_sameInit (s s' : DashIt K) (r : Option (PathEl K)) (hw : s.state = .Working)
    (e : s.step = some (r, s')) : s.SameInit s' := by
  rcases c13b_step_frame s s' r hw e with h | h
  · exact h.2.2.2.2.2
  · rw [h]
    exact DashIt.SameInit.trans ⟨rfl, rfl, rfl, rfl⟩ (get_input_phase _).1

theorem c13b_steps_sameInit {s s' : DashIt K} {outs : List (PathEl K)} (h : Steps s outs s') : s.SameInit s' := by
  induction h with
  | refl s => exact DashIt.SameInit.refl s
  | cons hw e _ ih => exact DashIt.SameInit.trans (c13b_step_sameInit _ _ _ hw e) ih

theorem c13b_get_input_inner_le (s : DashIt K) : s.get_input.inner.length ≤ s.inner.length := by
  unfold DashIt.get_input
  split
  · exact le_of_eq (congrArg List.length (handle_closepath_fields s).2.1)
  · rcases getInputList_outcome false s.inner s with h | h
    · rw [h.2.2]; exact Nat.zero_le _
    · exact h.2.1.le

theorem c13b_get_input_inner_lt (s : DashIt K) (hcp : s.closepath_pending = false) (hne : s.inner ≠ []) :
    s.get_input.inner.length < s.inner.length := by
  unfold DashIt.get_input
  rw [if_neg (by rw [hcp]; exact Bool.false_ne_true)]
  rcases getInputList_outcome false s.inner s with h | h
  · rw [h.2.2]; exact List.length_pos_of_ne_nil hne
  · exact h.2.1

theorem c13b_steps_inner_le {s s' : DashIt K} {outs : List (PathEl K)} (h : Steps s outs s') :
    s'.inner.length ≤ s.inner.length := by
  induction h with
  | refl s => exact le_rfl
  | @cons s s1 s2 r outs hw e _ ih =>
    refine le_trans ih ?_
    rcases c13b_step_frame s s1 r hw e with h | h
    · rw [h.1]
    · rw [h]; exact c13b_get_input_inner_le _

/-- the last point of the polyline `p, q₁, …, qₖ` -/
def c13b_lastPt : Point K → List (Point K) → Point K
  | p, [] => p
  | _, q :: r => c13b_lastPt q r

/-- **Frame.** A chain of `step`s that starts with `LineTo q₁ … LineTo qₖ` followed by a non-empty `rest` in the input and
    ends with exactly `rest` left has consumed exactly these `LineTo`s: `start_pt` is untouched and `last_pt = qₖ`. -/
theorem c13b_steps_frame {s s₁ : DashIt K} {outs : List (PathEl K)} (h : Steps s outs s₁) :
    ∀ (pts : List (Point K)) (rest : List (PathEl K)), s.closepath_pending = false → rest ≠ [] →
      s.inner = pts.map .LineTo ++ rest → s₁.inner = rest →
      s₁.start_pt = s.start_pt ∧ s₁.last_pt = c13b_lastPt s.last_pt pts := by
  induction h with
  | refl s =>
    intro pts rest _ _ hin hin1
    have : pts = [] := by
      have := congrArg List.length (hin.symm.trans hin1)
      simp only [List.length_append, List.length_map] at this
      exact List.eq_nil_of_length_eq_zero (by omega)
    subst this
    exact ⟨rfl, rfl⟩
  | @cons s s1 s2 r outs hw e hsteps ih =>
    intro pts rest hcp hne hin hin2
    rcases c13b_step_frame s s1 r hw e with h | h
    · obtain ⟨a1, a2, a3, a4, -, -⟩ := h
      have := ih pts rest (a4.trans hcp) hne (a1.trans hin) hin2
      rw [a2, a3] at this
      exact this
    · cases pts with
      | nil =>
        exfalso
        have h1 := c13b_steps_inner_le hsteps
        have h2 := c13b_get_input_inner_lt ({ s with dash_remaining := s.dash_remaining - s.seg_remaining } : DashIt K) hcp
          (by show s.inner ≠ []; rw [hin]; simpa using hne)
        rw [← h] at h2
        have h3 : s.inner.length = rest.length := by rw [hin]; simp
        have h4 : s2.inner.length = rest.length := by rw [hin2]
        have h5 : ({ s with dash_remaining := s.dash_remaining - s.seg_remaining } : DashIt K).inner.length
            = s.inner.length := rfl
        omega
      | cons q pts =>
        rw [get_input_lineTo ({ s with dash_remaining := s.dash_remaining - s.seg_remaining } : DashIt K) q
          (pts.map .LineTo ++ rest) hcp (by show s.inner = _; rw [hin]; rfl)] at h
        have := ih pts rest (by rw [h]; exact hcp) hne (by rw [h]; rfl) hin2
        rw [h] at this
        exact this

/-! ### splitting the specification's walk -/

omit [FloorRing K] [Scalar K] [LawfulScalar K] in
theorem c13b_walkList_append (n : Nat) (pat : Nat → K) (f : Nat) : ∀ (a b : List K) (ph ph' : Ph K) (o : K),
    walkList n pat f ph (a ++ b) = some (o, ph') →
    ∃ o1 ph1 o2, walkList n pat f ph a = some (o1, ph1) ∧ walkList n pat f ph1 b = some (o2, ph') ∧ o = o1 + o2
  | [], b, ph, ph', o, h => ⟨0, ph, o, rfl, h, (zero_add o).symm⟩
  | x :: a, b, ph, ph', o, h => by
    rw [List.cons_append] at h
    unfold walkList at h
    cases hc : walk n pat f ph x with
    | none => rw [hc] at h; simp at h
    | some q =>
      obtain ⟨ox, phx⟩ := q
      rw [hc] at h
      simp only at h
      cases hc2 : walkList n pat f phx (a ++ b) with
      | none => rw [hc2] at h; simp at h
      | some q2 =>
        obtain ⟨o', ph2⟩ := q2
        rw [hc2] at h
        simp only [Option.some.injEq, Prod.mk.injEq] at h
        obtain ⟨ho, hp⟩ := h
        subst hp
        obtain ⟨o1, ph1, o2, e1, e2, e3⟩ := c13b_walkList_append n pat f a b phx ph2 o' hc2
        refine ⟨ox + o1, ph1, o2, ?_, e2, ?_⟩
        · rw [walkList, hc]
          simp only [e1]
        · rw [← ho, e3, add_assoc]

omit [FloorRing K] [Scalar K] [LawfulScalar K] in
theorem c13b_walkList_single (n : Nat) (pat : Nat → K) (f : Nat) (ph ph' : Ph K) (c o : K)
    (h : walkList n pat f ph [c] = some (o, ph')) : walk n pat f ph c = some (o, ph') := by
  unfold walkList at h
  cases hc : walk n pat f ph c with
  | none => rw [hc] at h; simp at h
  | some q =>
    obtain ⟨o1, ph1⟩ := q
    rw [hc] at h
    simp only [walkList, Option.some.injEq, Prod.mk.injEq, add_zero] at h
    rw [h.1, h.2]

theorem c13b_polyLens_snoc (p : Point K) (pts : List (Point K)) (r : Point K) :
    polyLens p (pts ++ [r]) = polyLens p pts ++ [(Line.mk (c13b_lastPt p pts) r).arclen 0] := by
  induction pts generalizing p with
  | nil => rfl
  | cons q pts ih => simp only [List.cons_append, polyLens, c13b_lastPt, ih]

/-! ### playback of the stash with a `ClosePath` pending, and the end of the input -/

/-- the state in which the next sub-path is fetched: stash cleared, `ClosePath` done, `NeedInput` -/
def DashIt.c13b_afterClose (s : DashIt K) : DashIt K :=
  { s with stash := #[], stash_ix := 0, closepath_pending := false, state := .NeedInput }

theorem c13b_next_fromStash_cp (s : DashIt K) (fuel : Nat) (hs : s.state = .FromStash)
    (e : s.stash[s.stash_ix]? = none) (hd : s.input_done = false) (hcp : s.closepath_pending = true) :
    s.next (fuel + 1) = s.c13b_afterClose.next fuel := by
  conv_lhs => unfold DashIt.next
  rw [hs]
  simp only [e]
  rw [if_neg (by show ¬ s.input_done = true; rw [hd]; exact Bool.false_ne_true), if_pos (by exact hcp)]
  rfl

/-- playback: in state `FromStash` with the `ClosePath` pending, `collect()` appends the rest of the stash and goes on in
    state `NeedInput` -/
theorem c13b_collect_replay_cp : ∀ (k : Nat) (s : DashIt K) (n fuel : Nat) (acc out : List (PathEl K)),
    s.stash.size - s.stash_ix = k → s.state = .FromStash → s.input_done = false → s.closepath_pending = true →
    collectFrom n fuel s acc = .ok out →
    ∃ n' fuel', collectFrom n' fuel' s.c13b_afterClose ((s.stash.toList.drop s.stash_ix).reverse ++ acc) = .ok out := by
  intro k
  induction k with
  | zero =>
    intro s n fuel acc out hk hs hd hcp h
    cases fuel with
    | zero => exact absurd h (collectFrom_zero _ _ _ _)
    | succ fuel =>
      have hnone : s.stash[s.stash_ix]? = none := by
        rw [Array.getElem?_eq_none_iff]; omega
      unfold collectFrom at h
      rw [c13b_next_fromStash_cp s fuel hs hnone hd hcp] at h
      refine ⟨n, fuel, ?_⟩
      rw [List.drop_eq_nil_of_le (by simp; omega)]
      exact h
  | succ k ih =>
    intro s n fuel acc out hk hs hd hcp h
    cases fuel with
    | zero => exact absurd h (collectFrom_zero _ _ _ _)
    | succ fuel =>
      have hlt : s.stash_ix < s.stash.size := by omega
      have hsome : s.stash[s.stash_ix]? = some s.stash[s.stash_ix] := Array.getElem?_eq_getElem hlt
      unfold collectFrom at h
      rw [next_fromStash_some s _ fuel hs hsome] at h
      simp only at h
      cases n with
      | zero => exact absurd h (dashCollect_zero _ _ _)
      | succ n =>
        rw [dashCollect_succ] at h
        obtain ⟨n', fuel', h'⟩ := ih { s with stash_ix := s.stash_ix + 1 } n 100000 _ out
          (by show s.stash.size - (s.stash_ix + 1) = k; omega) hs hd hcp h
        refine ⟨n', fuel', ?_⟩
        have hl : s.stash_ix < s.stash.toList.length := by simpa using hlt
        rw [List.drop_eq_getElem_cons hl]
        have e : ((s.stash.toList[s.stash_ix] :: List.drop (s.stash_ix + 1) s.stash.toList).reverse ++ acc)
            = (List.drop (s.stash_ix + 1) s.stash.toList).reverse ++ (s.stash[s.stash_ix] :: acc) := by
          simp
        rw [e]
        exact h'

/-- `NeedInput` at the end of the input: `collect()` stops -/
theorem c13b_collect_end (s : DashIt K) (n fuel : Nat) (acc out : List (PathEl K)) (hs : s.state = .NeedInput)
    (hd : s.input_done = false) (hcp : s.closepath_pending = false) (hin : s.inner = [])
    (h : collectFrom n fuel s acc = .ok out) : out = acc.reverse := by
  cases fuel with
  | zero => exact absurd h (collectFrom_zero _ _ _ _)
  | succ fuel =>
    unfold collectFrom DashIt.next at h
    rw [hs] at h
    simp only [hd, Bool.false_eq_true, if_false, get_input_nil s hcp hin, if_true] at h
    cases h
    rfl

end Kurbo
