import Proofs.Lemmas.C04Geom
import Proofs.Lemmas.C11
import Proofs.Lemmas.C04CConvex
import Proofs.Lemmas.C04COutline
/-! Helper lemmas for C04C, part 3 (lawful ordered field + the law of `hypot`): the rectangle swept by one segment, in the
    coordinates of the model (`c04_norm`), tied to the crossing-sum lemmas of `C04CConvex`. -/
set_option linter.unusedSectionVars false
set_option linter.unusedVariables false
namespace Kurbo
open PathEl
variable {K : Type} [Field K] [LinearOrder K] [IsStrictOrderedRing K] [FloorRing K] [Scalar K] [LawfulScalar K]

/-- `q` is in the OPEN rectangle swept by the segment `p0 p1` with half-width `w/2`: its orthogonal projection on the
    supporting line is interior to the segment (`0 < (q − p0)·t < t·t`, `t = p1 − p0`) and its distance from the line is
    `< w/2` (`(t × (q − p0))² < (w/2)²·t·t`) -/
def c04c_InRect (p0 p1 : Point K) (w : K) (q : Point K) : Prop :=
  0 < (q - p0).dot (p1 - p0) ∧ (q - p0).dot (p1 - p0) < (p1 - p0).hypot2 ∧
    ((p1 - p0).cross (q - p0)) ^ 2 < (w / 2) ^ 2 * (p1 - p0).hypot2

instance (p0 p1 : Point K) (w : K) (q : Point K) : Decidable (c04c_InRect p0 p1 w q) := by
  unfold c04c_InRect; infer_instance

theorem c04c_pathWinding_quad (A B C D q : Point K) :
    pathWinding [MoveTo A, LineTo B, LineTo C, LineTo D, ClosePath] q
      = some (C04C.quadSum (A.x - q.x) (A.y - q.y) (B.x - q.x) (B.y - q.y) (C.x - q.x) (C.y - q.y)
          (D.x - q.x) (D.y - q.y)) := by
  rw [pathWinding_quadrilateral]
  simp only [kc, vsub_x, vsub_y, C04C.quadSum]

/-! ### pure field: the rectangle `p0 ∓ n, p1 ∓ n` with `n = k·(−t.y, t.x)` -/
section field
variable (p0x p0y p1x p1y qx qy k nx ny : K)

theorem c04c_rect_ids (hnx : nx = -(p1y - p0y) * k) (hny : ny = (p1x - p0x) * k) :
    (p0x - nx - qx) * (p1y - ny - qy) - (p0y - ny - qy) * (p1x - nx - qx)
      = ((p1x - p0x) * (qy - p0y) - (p1y - p0y) * (qx - p0x)) + k * ((p1x - p0x) * (p1x - p0x) + (p1y - p0y) * (p1y - p0y)) ∧
    (p1x - nx - qx) * (p1y + ny - qy) - (p1y - ny - qy) * (p1x + nx - qx)
      = 2 * k * (((p1x - p0x) * (p1x - p0x) + (p1y - p0y) * (p1y - p0y))
          - ((qx - p0x) * (p1x - p0x) + (qy - p0y) * (p1y - p0y))) ∧
    (p1x + nx - qx) * (p0y + ny - qy) - (p1y + ny - qy) * (p0x + nx - qx)
      = k * ((p1x - p0x) * (p1x - p0x) + (p1y - p0y) * (p1y - p0y))
          - ((p1x - p0x) * (qy - p0y) - (p1y - p0y) * (qx - p0x)) ∧
    (p0x + nx - qx) * (p0y - ny - qy) - (p0y + ny - qy) * (p0x - nx - qx)
      = 2 * k * ((qx - p0x) * (p1x - p0x) + (qy - p0y) * (p1y - p0y)) := by
  subst hnx hny
  refine ⟨?_, ?_, ?_, ?_⟩ <;> ring

theorem c04c_rect_strictIn_iff (hnx : nx = -(p1y - p0y) * k) (hny : ny = (p1x - p0x) * k) (hk : 0 < k) :
    C04C.StrictIn (p0x - nx - qx) (p0y - ny - qy) (p1x - nx - qx) (p1y - ny - qy) (p1x + nx - qx) (p1y + ny - qy)
        (p0x + nx - qx) (p0y + ny - qy) ↔
      (0 < (qx - p0x) * (p1x - p0x) + (qy - p0y) * (p1y - p0y) ∧
       (qx - p0x) * (p1x - p0x) + (qy - p0y) * (p1y - p0y) < (p1x - p0x) * (p1x - p0x) + (p1y - p0y) * (p1y - p0y) ∧
       -(k * ((p1x - p0x) * (p1x - p0x) + (p1y - p0y) * (p1y - p0y))) < (p1x - p0x) * (qy - p0y) - (p1y - p0y) * (qx - p0x) ∧
       (p1x - p0x) * (qy - p0y) - (p1y - p0y) * (qx - p0x) < k * ((p1x - p0x) * (p1x - p0x) + (p1y - p0y) * (p1y - p0y))) := by
  obtain ⟨e1, e2, e3, e4⟩ := c04c_rect_ids p0x p0y p1x p1y qx qy k nx ny hnx hny
  have h2k : 0 < 2 * k := by linarith
  simp only [C04C.StrictIn]
  rw [e1, e2, e3, e4]
  constructor
  · rintro ⟨h1, h2, h3, h4⟩
    have := (mul_pos_iff_of_pos_left h2k).mp h2
    have := (mul_pos_iff_of_pos_left h2k).mp h4
    exact ⟨by linarith, by linarith, by linarith, by linarith⟩
  · rintro ⟨h1, h2, h3, h4⟩
    exact ⟨by linarith, mul_pos h2k (by linarith), by linarith, mul_pos h2k h1⟩

theorem c04c_rect_closedIn_iff (hnx : nx = -(p1y - p0y) * k) (hny : ny = (p1x - p0x) * k) (hk : 0 < k) :
    C04C.ClosedIn (p0x - nx - qx) (p0y - ny - qy) (p1x - nx - qx) (p1y - ny - qy) (p1x + nx - qx) (p1y + ny - qy)
        (p0x + nx - qx) (p0y + ny - qy) ↔
      (0 ≤ (qx - p0x) * (p1x - p0x) + (qy - p0y) * (p1y - p0y) ∧
       (qx - p0x) * (p1x - p0x) + (qy - p0y) * (p1y - p0y) ≤ (p1x - p0x) * (p1x - p0x) + (p1y - p0y) * (p1y - p0y) ∧
       -(k * ((p1x - p0x) * (p1x - p0x) + (p1y - p0y) * (p1y - p0y))) ≤ (p1x - p0x) * (qy - p0y) - (p1y - p0y) * (qx - p0x) ∧
       (p1x - p0x) * (qy - p0y) - (p1y - p0y) * (qx - p0x) ≤ k * ((p1x - p0x) * (p1x - p0x) + (p1y - p0y) * (p1y - p0y))) := by
  obtain ⟨e1, e2, e3, e4⟩ := c04c_rect_ids p0x p0y p1x p1y qx qy k nx ny hnx hny
  have h2k : 0 < 2 * k := by linarith
  simp only [C04C.ClosedIn]
  rw [e1, e2, e3, e4]
  constructor
  · rintro ⟨h1, h2, h3, h4⟩
    have := nonneg_of_mul_nonneg_right h2 h2k
    have := nonneg_of_mul_nonneg_right h4 h2k
    exact ⟨by linarith, by linarith, by linarith, by linarith⟩
  · rintro ⟨h1, h2, h3, h4⟩
    exact ⟨by linarith, mul_nonneg h2k.le (by linarith), by linarith, mul_nonneg h2k.le h1⟩

end field

/-- in the closed rectangle some point of the segment is within `w2` -/
theorem c04c_rect_near (tx ty rx ry k w2 : K) (hT : 0 < tx * tx + ty * ty) (hk : 0 < k)
    (hkw : k * k * (tx * tx + ty * ty) = w2 * w2)
    (h0 : 0 ≤ rx * tx + ry * ty) (h1 : rx * tx + ry * ty ≤ tx * tx + ty * ty)
    (h2 : -(k * (tx * tx + ty * ty)) ≤ tx * ry - ty * rx) (h3 : tx * ry - ty * rx ≤ k * (tx * tx + ty * ty)) :
    ∃ s : K, 0 ≤ s ∧ s ≤ 1 ∧ (s * tx - rx) * (s * tx - rx) + (s * ty - ry) * (s * ty - ry) ≤ w2 * w2 := by
  obtain ⟨s, hs⟩ : ∃ s, s * (tx * tx + ty * ty) = rx * tx + ry * ty :=
    ⟨(rx * tx + ry * ty) / (tx * tx + ty * ty), div_mul_cancel₀ _ hT.ne'⟩
  have hs0 : 0 ≤ s := by
    by_contra hn
    have := mul_neg_of_neg_of_pos (not_le.mp hn) hT
    linarith
  have hs1 : s ≤ 1 := by
    by_contra hn
    have := mul_lt_mul_of_pos_right (not_le.mp hn) hT
    linarith
  refine ⟨s, hs0, hs1, ?_⟩
  have key : ((s * tx - rx) * (s * tx - rx) + (s * ty - ry) * (s * ty - ry)) * (tx * tx + ty * ty)
      = (tx * ry - ty * rx) * (tx * ry - ty * rx) := by
    linear_combination (s * (tx * tx + ty * ty) - (rx * tx + ry * ty)) * hs
  have hsq : (tx * ry - ty * rx) * (tx * ry - ty * rx) ≤ (k * (tx * tx + ty * ty)) * (k * (tx * tx + ty * ty)) := by
    have e : (k * (tx * tx + ty * ty)) * (k * (tx * tx + ty * ty)) - (tx * ry - ty * rx) * (tx * ry - ty * rx)
        = (k * (tx * tx + ty * ty) - (tx * ry - ty * rx)) * (k * (tx * tx + ty * ty) + (tx * ry - ty * rx)) := by ring
    have := mul_nonneg (by linarith : 0 ≤ k * (tx * tx + ty * ty) - (tx * ry - ty * rx))
      (by linarith : 0 ≤ k * (tx * tx + ty * ty) + (tx * ry - ty * rx))
    linarith
  have e2 : (k * (tx * tx + ty * ty)) * (k * (tx * tx + ty * ty)) = (w2 * w2) * (tx * tx + ty * ty) := by
    rw [← hkw]; ring
  exact le_of_mul_le_mul_right (by linarith) hT

/-! ### the model's offset vector -/
section model
variable [C04HypotLaw K]

/-- the scale factor of `c04_norm`: `n = k·(−t.y, t.x)`, `k = (w/2)/|t|` -/
def c04c_k (w : K) (p0 p1 : Point K) : K := 1 / 2 * w / Scalar.hypot (p1.x - p0.x) (p1.y - p0.y)

theorem c04c_norm_coords (w : K) (p0 p1 : Point K) :
    (c04_norm w (p1 - p0)).x = -(p1.y - p0.y) * c04c_k w p0 p1 ∧
    (c04_norm w (p1 - p0)).y = (p1.x - p0.x) * c04c_k w p0 p1 := by
  rw [c04_norm_x, c04_norm_y, vsub_x, vsub_y]
  exact ⟨rfl, rfl⟩

theorem c04c_hyp_pos (p0 p1 : Point K) (hne : p0 ≠ p1) : 0 < Scalar.hypot (p1.x - p0.x) (p1.y - p0.y) := by
  have h := c04_sub_ne_zero (Ne.symm hne)
  rw [vsub_x, vsub_y] at h
  exact c04_hypot_pos _ _ h

theorem c04c_T2_pos (p0 p1 : Point K) (hne : p0 ≠ p1) :
    0 < (p1.x - p0.x) * (p1.x - p0.x) + (p1.y - p0.y) * (p1.y - p0.y) := by
  rw [← C04HypotLaw.hypot_mul_self]
  exact mul_pos (c04c_hyp_pos p0 p1 hne) (c04c_hyp_pos p0 p1 hne)

theorem c04c_k_pos (w : K) (p0 p1 : Point K) (hw : 0 < w) (hne : p0 ≠ p1) : 0 < c04c_k w p0 p1 :=
  div_pos (by linarith) (c04c_hyp_pos p0 p1 hne)

theorem c04c_k_hyp (w : K) (p0 p1 : Point K) (hne : p0 ≠ p1) :
    c04c_k w p0 p1 * Scalar.hypot (p1.x - p0.x) (p1.y - p0.y) = w / 2 := by
  unfold c04c_k
  rw [div_mul_cancel₀ _ (c04c_hyp_pos p0 p1 hne).ne']
  ring

theorem c04c_k_sq (w : K) (p0 p1 : Point K) (hne : p0 ≠ p1) :
    c04c_k w p0 p1 * c04c_k w p0 p1 * ((p1.x - p0.x) * (p1.x - p0.x) + (p1.y - p0.y) * (p1.y - p0.y))
      = (w / 2) * (w / 2) := by
  rw [← C04HypotLaw.hypot_mul_self, ← c04c_k_hyp w p0 p1 hne]
  ring

/-- `c04c_InRect` in the form the crossing-sum lemmas use -/
theorem c04c_inRect_iff (w : K) (p0 p1 q : Point K) (hw : 0 < w) (hne : p0 ≠ p1) :
    c04c_InRect p0 p1 w q ↔
      (0 < (q.x - p0.x) * (p1.x - p0.x) + (q.y - p0.y) * (p1.y - p0.y) ∧
       (q.x - p0.x) * (p1.x - p0.x) + (q.y - p0.y) * (p1.y - p0.y)
          < (p1.x - p0.x) * (p1.x - p0.x) + (p1.y - p0.y) * (p1.y - p0.y) ∧
       -(c04c_k w p0 p1 * ((p1.x - p0.x) * (p1.x - p0.x) + (p1.y - p0.y) * (p1.y - p0.y)))
          < (p1.x - p0.x) * (q.y - p0.y) - (p1.y - p0.y) * (q.x - p0.x) ∧
       (p1.x - p0.x) * (q.y - p0.y) - (p1.y - p0.y) * (q.x - p0.x)
          < c04c_k w p0 p1 * ((p1.x - p0.x) * (p1.x - p0.x) + (p1.y - p0.y) * (p1.y - p0.y))) := by
  have hT := c04c_T2_pos p0 p1 hne
  have hk := c04c_k_pos w p0 p1 hw hne
  have hkw := c04c_k_sq w p0 p1 hne
  have hkT := mul_pos hk hT
  have e : (w / 2) ^ 2 * ((p1.x - p0.x) * (p1.x - p0.x) + (p1.y - p0.y) * (p1.y - p0.y))
      = (c04c_k w p0 p1 * ((p1.x - p0.x) * (p1.x - p0.x) + (p1.y - p0.y) * (p1.y - p0.y))) ^ 2 := by
    rw [sq, ← hkw]; ring
  unfold c04c_InRect
  simp only [Vec2.dot, Vec2.cross, Vec2.hypot2, scalar_norm, vsub_x, vsub_y]
  rw [e]
  constructor
  · rintro ⟨h1, h2, h3⟩
    have := abs_lt.mp (abs_lt_of_sq_lt_sq h3 hkT.le)
    exact ⟨h1, h2, this.1, this.2⟩
  · rintro ⟨h1, h2, h3, h4⟩
    exact ⟨h1, h2, sq_lt_sq' h3 h4⟩

/-! ### the rectangle `p0 − n, p1 − n, p1 + n, p0 + n` as a path -/

/-- the four corners in the order the stroker emits them (one segment, butt caps) -/
def c04c_rectPath (p0 p1 : Point K) (n : Vec2 K) : List (PathEl K) :=
  [MoveTo (p0 - n), LineTo (p1 - n), LineTo (p1 + n), LineTo (p0 + n), ClosePath]

theorem c04c_rectPath_winding (p0 p1 q : Point K) (n : Vec2 K) :
    pathWinding (c04c_rectPath p0 p1 n) q
      = some (C04C.quadSum (p0.x - n.x - q.x) (p0.y - n.y - q.y) (p1.x - n.x - q.x) (p1.y - n.y - q.y)
          (p1.x + n.x - q.x) (p1.y + n.y - q.y) (p0.x + n.x - q.x) (p0.y + n.y - q.y)) := by
  unfold c04c_rectPath
  rw [c04c_pathWinding_quad]
  simp only [point_sub_vec, point_add_vec, scalar_norm]

theorem c04c_rect_D (w : K) (p0 p1 q : Point K) (hw : 0 < w) (hne : p0 ≠ p1) :
    let n := c04_norm w (p1 - p0)
    0 < ((p0.x - n.x - q.x) * (p1.y - n.y - q.y) - (p0.y - n.y - q.y) * (p1.x - n.x - q.x))
      + ((p1.x + n.x - q.x) * (p0.y + n.y - q.y) - (p1.y + n.y - q.y) * (p0.x + n.x - q.x)) := by
  intro n
  obtain ⟨hx, hy⟩ := c04c_norm_coords w p0 p1
  obtain ⟨e1, _, e3, _⟩ := c04c_rect_ids p0.x p0.y p1.x p1.y q.x q.y (c04c_k w p0 p1) n.x n.y hx hy
  rw [e1, e3]
  have := mul_pos (c04c_k_pos w p0 p1 hw hne) (c04c_T2_pos p0 p1 hne)
  linarith

/-- **coverage**: strictly inside the swept rectangle the winding number of the outline is `1` -/
theorem c04c_rect_cover (w : K) (p0 p1 q : Point K) (hw : 0 < w) (hne : p0 ≠ p1) (hin : c04c_InRect p0 p1 w q) :
    pathWinding (c04c_rectPath p0 p1 (c04_norm w (p1 - p0))) q = some 1 := by
  rw [c04c_rectPath_winding]
  obtain ⟨hx, hy⟩ := c04c_norm_coords w p0 p1
  have h := (c04c_rect_strictIn_iff p0.x p0.y p1.x p1.y q.x q.y (c04c_k w p0 p1) _ _ hx hy
    (c04c_k_pos w p0 p1 hw hne)).mpr ((c04c_inRect_iff w p0 p1 q hw hne).mp hin)
  rw [C04C.para_inside _ _ _ _ _ _ _ _ (by ring) h.1 h.2.1 h.2.2.1 h.2.2.2]

/-- at every point the winding number of the outline is `≥ 0` -/
theorem c04c_rect_nonneg (w : K) (p0 p1 q : Point K) (hw : 0 < w) (hne : p0 ≠ p1) :
    ∃ wn : Int, pathWinding (c04c_rectPath p0 p1 (c04_norm w (p1 - p0))) q = some wn ∧ 0 ≤ wn := by
  rw [c04c_rectPath_winding]
  exact ⟨_, rfl, C04C.para_nonneg _ _ _ _ _ _ _ _ (by ring) (by ring) (c04c_rect_D w p0 p1 q hw hne)⟩

/-- **the winding number of the outline at a point on none of its four edges** -/
theorem c04c_rect_winding (w : K) (p0 p1 q : Point K) (hw : 0 < w) (hne : p0 ≠ p1)
    (h1 : ¬ OnSeg (.Line ⟨p0 - c04_norm w (p1 - p0), p1 - c04_norm w (p1 - p0)⟩) q)
    (h2 : ¬ OnSeg (.Line ⟨p1 - c04_norm w (p1 - p0), p1 + c04_norm w (p1 - p0)⟩) q)
    (h3 : ¬ OnSeg (.Line ⟨p1 + c04_norm w (p1 - p0), p0 + c04_norm w (p1 - p0)⟩) q)
    (h4 : ¬ OnSeg (.Line ⟨p0 + c04_norm w (p1 - p0), p0 - c04_norm w (p1 - p0)⟩) q) :
    pathWinding (c04c_rectPath p0 p1 (c04_norm w (p1 - p0))) q = some (if c04c_InRect p0 p1 w q then 1 else 0) := by
  rw [c04c_rectPath_winding]
  obtain ⟨hx, hy⟩ := c04c_norm_coords w p0 p1
  have o1 := c11_offEdge_of_not_onSeg _ _ _ h1
  have o2 := c11_offEdge_of_not_onSeg _ _ _ h2
  have o3 := c11_offEdge_of_not_onSeg _ _ _ h3
  have o4 := c11_offEdge_of_not_onSeg _ _ _ h4
  simp only [point_sub_vec, point_add_vec, scalar_norm] at o1 o2 o3 o4
  rw [C04C.para_winding _ _ _ _ _ _ _ _ (by ring) (by ring) (c04c_rect_D w p0 p1 q hw hne) o1 o2 o3 o4]
  congr 1
  exact if_congr ((c04c_rect_strictIn_iff p0.x p0.y p1.x p1.y q.x q.y (c04c_k w p0 p1) _ _ hx hy
    (c04c_k_pos w p0 p1 hw hne)).trans (c04c_inRect_iff w p0 p1 q hw hne).symm) rfl rfl

/-- **exclusion**: a point farther than `w/2` from every point of the segment has winding number `0` -/
theorem c04c_rect_far (w : K) (p0 p1 q : Point K) (hw : 0 < w) (hne : p0 ≠ p1)
    (hfar : ∀ s : K, 0 ≤ s → s ≤ 1 → (w / 2) ^ 2 < (p0.lerp p1 s).distance_squared q) :
    pathWinding (c04c_rectPath p0 p1 (c04_norm w (p1 - p0))) q = some 0 := by
  rw [c04c_rectPath_winding]
  obtain ⟨hx, hy⟩ := c04c_norm_coords w p0 p1
  rw [C04C.para_out _ _ _ _ _ _ _ _ (by ring) (by ring) (c04c_rect_D w p0 p1 q hw hne)]
  intro hc
  obtain ⟨c1, c2, c3, c4⟩ := (c04c_rect_closedIn_iff p0.x p0.y p1.x p1.y q.x q.y (c04c_k w p0 p1) _ _ hx hy
    (c04c_k_pos w p0 p1 hw hne)).mp hc
  obtain ⟨s, hs0, hs1, hs⟩ := c04c_rect_near (p1.x - p0.x) (p1.y - p0.y) (q.x - p0.x) (q.y - p0.y) (c04c_k w p0 p1) (w / 2)
    (c04c_T2_pos p0 p1 hne) (c04c_k_pos w p0 p1 hw hne) (c04c_k_sq w p0 p1 hne) c1 c2 c3 c4
  have := hfar s hs0 hs1
  simp only [kdefs, scalar_norm] at this
  have e : (p0.x + (p1.x - p0.x) * s - q.x) * (p0.x + (p1.x - p0.x) * s - q.x) +
      (p0.y + (p1.y - p0.y) * s - q.y) * (p0.y + (p1.y - p0.y) * s - q.y)
      = (s * (p1.x - p0.x) - (q.x - p0.x)) * (s * (p1.x - p0.x) - (q.x - p0.x)) +
        (s * (p1.y - p0.y) - (q.y - p0.y)) * (s * (p1.y - p0.y) - (q.y - p0.y)) := by ring
  rw [e, sq] at this
  linarith

end model
end Kurbo
