import Proofs.Lemmas.C12
import Kurbo.Path
/-! Helper lemmas for the path-level statement of C12: the `Segments` iterator model (`segStep`, `segsIdxFrom`) commutes
    with an injective point map that is applied element-wise. -/
set_option linter.unusedSectionVars false
namespace Kurbo
variable {K : Type} [Field K] [LinearOrder K] [IsStrictOrderedRing K] [FloorRing K] [Scalar K] [LawfulScalar K]

theorem point_peq_iff (a b : Point K) : a.peq b = true ↔ a = b := by
  cases a; cases b
  simp only [Point.peq, scalar_norm, Bool.and_eq_true, decide_eq_true_eq, Point.mk.injEq]

/-- the iterator state `(start, last)` under the map -/
def mapSegSt (A : Affine K) (st : SegSt K) : SegSt K := st.map (fun sl => (A * sl.1, A * sl.2))

theorem segStep_commutes (A : Affine K) (inj : ∀ p q : Point K, A * p = A * q → p = q) (st : SegSt K) (el : PathEl K) :
    segStep (mapSegSt A st) (A * el) =
      (segStep st el).map (fun r => (mapSegSt A r.1, r.2.map (fun s : PathSeg K => A * s))) := by
  have hpeq : ∀ p q : Point K, (A * p).peq (A * q) = p.peq q := by
    intro p q
    rw [Bool.eq_iff_iff, point_peq_iff, point_peq_iff]
    exact ⟨inj p q, fun h => by rw [h]⟩
  cases st with
  | none =>
    cases el <;> simp only [segStep, mapSegSt, Option.map, affine_mul_pathEl_def, Affine.mul_PathEl, PathEl.end_point]
    all_goals rfl
  | some sl =>
    obtain ⟨start, last⟩ := sl
    cases el <;> simp only [segStep, mapSegSt, Option.map, affine_mul_pathEl_def, Affine.mul_PathEl]
    case ClosePath =>
      rw [hpeq]
      cases last.peq start <;> rfl
    all_goals rfl

theorem segsIdxFrom_commutes (A : Affine K) (inj : ∀ p q : Point K, A * p = A * q → p = q)
    (els : List (PathEl K)) : ∀ (st : SegSt K) (ix : Nat),
    segsIdxFrom (mapSegSt A st) ix (els.map (fun e : PathEl K => A * e)) =
      (segsIdxFrom st ix els).map (List.map (fun q : Nat × PathSeg K => (q.1, A * q.2))) := by
  induction els with
  | nil => intro st ix; rfl
  | cons el rest ih =>
    intro st ix
    simp only [List.map_cons, segsIdxFrom, segStep_commutes A inj]
    cases h : segStep st el with
    | none => rfl
    | some r =>
      obtain ⟨st', out⟩ := r
      simp only [Option.map_some, ih]
      cases segsIdxFrom st' (ix + 1) rest with
      | none => rfl
      | some l => cases out <;> rfl

end Kurbo
