import Proofs.Lemmas.C08Box
/-! C08 helpers over ℝ: the analytic bounding-box argument (interior extremum ⇒ zero derivative). -/
set_option linter.unusedSectionVars false
namespace Kurbo

/-- mirror image of `le_of_crit_bound` -/
theorem ge_of_crit_bound {f f' : ℝ → ℝ} (hf : ∀ t, HasDerivAt f (f' t) t) (crit : ℝ → Prop)
    (hcrit : ∀ t, 0 < t → t < 1 → f' t = 0 → crit t) (m : ℝ)
    (h0 : m ≤ f 0) (h1 : m ≤ f 1) (hm : ∀ t, 0 < t → t < 1 → crit t → m ≤ f t) :
    ∀ t ∈ Set.Icc (0:ℝ) 1, m ≤ f t := by
  have hcont : ContinuousOn f (Set.Icc 0 1) := fun t _ => (hf t).continuousAt.continuousWithinAt
  obtain ⟨ts, hts, hmin⟩ := isCompact_Icc.exists_isMinOn (⟨0, by simp⟩ : (Set.Icc (0:ℝ) 1).Nonempty) hcont
  intro t ht
  have hle : f ts ≤ f t := hmin ht
  suffices m ≤ f ts by linarith
  rcases hts.1.eq_or_lt with e0 | e0
  · rw [← e0]; exact h0
  rcases hts.2.eq_or_lt with e1 | e1
  · rw [e1]; exact h1
  have hloc : IsLocalMin f ts := hmin.isLocalMin (Icc_mem_nhds e0 e1)
  have hd : f' ts = 0 := hloc.hasDerivAt_eq_zero (hf ts)
  exact hm ts e0 e1 (hcrit ts e0 e1 hd)

section real
variable [Scalar ℝ] [LawfulScalar ℝ]

/-- the analytic core: a box folded from the end points over a list that contains every interior critical
    parameter of each coordinate (or the coordinate takes its start value there) contains the whole arc -/
theorem fold_box_contains (f : ℝ → Point ℝ) (fx' fy' : ℝ → ℝ)
    (hx : ∀ t, HasDerivAt (fun t => (f t).x) (fx' t) t) (hy : ∀ t, HasDerivAt (fun t => (f t).y) (fy' t) t)
    (ex : List ℝ)
    (hcx : ∀ t, 0 < t → t < 1 → fx' t = 0 → t ∈ ex ∨ (f t).x = (f 0).x)
    (hcy : ∀ t, 0 < t → t < 1 → fy' t = 0 → t ∈ ex ∨ (f t).y = (f 0).y) :
    ∀ t ∈ Set.Icc (0:ℝ) 1,
      (ex.foldl (fun bb t => bb.union_pt (f t)) (Rect.from_points (f 0) (f 1))).ContainsClosed (f t) := by
  obtain ⟨hinit, hpts⟩ := foldl_union_pt_contains f ex (Rect.from_points (f 0) (f 1))
  have hb0 := hinit.closed (Rect.from_points_contains (f 0) (f 1)).1
  have hb1 := hinit.closed (Rect.from_points_contains (f 0) (f 1)).2
  set bb := ex.foldl (fun bb t => bb.union_pt (f t)) (Rect.from_points (f 0) (f 1)) with hbb
  intro t ht
  refine ⟨?_, ?_, ?_, ?_⟩
  · refine ge_of_crit_bound hx (fun t => bb.x0 ≤ (f t).x) ?_ bb.x0 hb0.1 hb1.1 (fun _ _ _ h => h) t ht
    intro u h0 h1 hz
    rcases hcx u h0 h1 hz with h | h
    · exact (hpts u h).1
    · show bb.x0 ≤ (f u).x
      rw [h]; exact hb0.1
  · refine le_of_crit_bound hx (fun t => (f t).x ≤ bb.x1) ?_ bb.x1 hb0.2.1 hb1.2.1 (fun _ _ _ h => h) t ht
    intro u h0 h1 hz
    rcases hcx u h0 h1 hz with h | h
    · exact (hpts u h).2.1
    · show (f u).x ≤ bb.x1
      rw [h]; exact hb0.2.1
  · refine ge_of_crit_bound hy (fun t => bb.y0 ≤ (f t).y) ?_ bb.y0 hb0.2.2.1 hb1.2.2.1 (fun _ _ _ h => h) t ht
    intro u h0 h1 hz
    rcases hcy u h0 h1 hz with h | h
    · exact (hpts u h).2.2.1
    · show bb.y0 ≤ (f u).y
      rw [h]; exact hb0.2.2.1
  · refine le_of_crit_bound hy (fun t => (f t).y ≤ bb.y1) ?_ bb.y1 hb0.2.2.2 hb1.2.2.2 (fun _ _ _ h => h) t ht
    intro u h0 h1 hz
    rcases hcy u h0 h1 hz with h | h
    · exact (hpts u h).2.2.2
    · show (f u).y ≤ bb.y1
      rw [h]; exact hb0.2.2.2

theorem quad_bbox_contains_aux (q : QuadBez ℝ) :
    ∀ t ∈ Set.Icc (0:ℝ) 1, (PathSeg.Quad q).bounding_box.ContainsClosed (q.eval t) := by
  rw [seg_bounding_box_eq]
  refine fold_box_contains (fun t => q.eval t) (fun t => (q.deriv.eval t).x) (fun t => (q.deriv.eval t).y)
    (fun t => (quad_deriv_hasDerivAt q t).1) (fun t => (quad_deriv_hasDerivAt q t).2) q.extrema ?_ ?_
  · intro t h0 h1 hz
    rcases quad_crit_x q t h0 h1 hz with h | h
    · exact Or.inl h
    · right; show (q.eval t).x = (q.eval 0).x
      rw [quad_const_x q h t, quad_const_x q h 0]
  · intro t h0 h1 hz
    rcases quad_crit_y q t h0 h1 hz with h | h
    · exact Or.inl h
    · right; show (q.eval t).y = (q.eval 0).y
      rw [quad_const_y q h t, quad_const_y q h 0]

theorem cubic_bbox_contains_aux (S : QuadSolverSpec ℝ) (c : CubicBez ℝ) :
    ∀ t ∈ Set.Icc (0:ℝ) 1, (PathSeg.Cubic c).bounding_box.ContainsClosed (c.eval t) := by
  rw [seg_bounding_box_eq]
  refine fold_box_contains (fun t => c.eval t) (fun t => (c.deriv.eval t).x) (fun t => (c.deriv.eval t).y)
    (fun t => (cubic_deriv_hasDerivAt c t).1) (fun t => (cubic_deriv_hasDerivAt c t).2) c.extrema ?_ ?_
  · intro t h0 h1 hz
    rcases cubic_crit_x S c t h0 h1 hz with h | h
    · exact Or.inl h
    · right; show (c.eval t).x = (c.eval 0).x
      rw [cubic_const_x c h t, cubic_const_x c h 0]
  · intro t h0 h1 hz
    rcases cubic_crit_y S c t h0 h1 hz with h | h
    · exact Or.inl h
    · right; show (c.eval t).y = (c.eval 0).y
      rw [cubic_const_y c h t, cubic_const_y c h 0]

end real

/-- a line's box is the box of its end points: contains the segment by convexity (any lawful scalar) -/
theorem line_bbox_contains_aux {K : Type} [Field K] [LinearOrder K] [IsStrictOrderedRing K] [FloorRing K] [Scalar K]
    [LawfulScalar K] (l : Line K) (t : K) (ht0 : 0 ≤ t) (ht1 : t ≤ 1) :
    (PathSeg.Line l).bounding_box.ContainsClosed (l.eval t) := by
  have e : (PathSeg.Line l).bounding_box = Rect.from_points l.p0 l.p1 := rfl
  rw [e]
  exact line_eval_in_box _ l (Rect.from_points_contains _ _).1 (Rect.from_points_contains _ _).2 t ht0 ht1

end Kurbo
