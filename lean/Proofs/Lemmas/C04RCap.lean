import Proofs.Lemmas.C04RReal
import Proofs.Lemmas.C04Real
/-! Helper lemmas for C04R, part 4: the round cap (`n ≥ 2` pieces of at most a quarter turn) stays beyond the end of the segment; the
    outline of a single segment with round caps, its segments, and the plane geometry of the band around the segment. -/
set_option linter.unusedSectionVars false
namespace Kurbo

/-! ### structure (any scalar): outline of one segment with round caps -/
section anyScalar
variable {K : Type} [Scalar K]

/-- `join_thresh = 2·tolerance / width` (the model's arithmetic): the tolerance `finish` / `do_join` pass for the unit arc -/
def c04rJt (w tol : K) : K := open Ops in (2 : K) * tol / w

theorem c04r_single_outline (p0 p1 : Point K) (style : StrokeStyle K) (tol : K) (h : p1.peq p0 = false)
    (hs : style.start_cap = 2) (he : style.end_cap = 2) :
    strokeUndashed [.MoveTo p0, .LineTo p1] style tol
      = .ok ([.MoveTo (p0 - c04_norm style.width (p1 - p0)), .LineTo (p1 - c04_norm style.width (p1 - p0))]
          ++ roundCap (c04rJt style.width tol) p1 (p1 - (p1 + c04_norm style.width (p1 - p0)))
          ++ [.LineTo (p0 + c04_norm style.width (p1 - p0))]
          ++ roundCap (c04rJt style.width tol) p0 (c04_norm style.width (p1 - p0))) := by
  obtain ⟨w, j, ml, sc, ec⟩ := style
  simp only at hs he
  subst hs; subst he
  simp only [strokeUndashed, strokeLoop, StrokeCtx.finish, List.isEmpty_nil, if_true, h, Bool.not_false,
    StrokeCtx.do_join, StrokeCtx.do_line, List.nil_append, List.cons_append, List.isEmpty_cons, Bool.false_eq_true, if_false,
    lastEndPoint, List.getLast?, List.getLast, PathEl.end_point, extendReversed, extendReversedGo]
  rfl

theorem stAfterT_roundJoinWith (T : K) (a : Affine K) (angle : K) (s p : Point K) :
    stAfterT (s, p) (roundJoinWith T a angle) = (s, penAfter p (roundJoinWith T a angle)) := by
  rw [roundJoinWith_eq, (segsT_curveEls _ _ _ _ _ _).2, penAfter_curveEls]

/-- segments of `MoveTo a, LineTo (A₁·P₀), round₁, LineTo (A₂·P₀), round₂` (each round join drawn from the image of the unit
    arc's start point) -/
theorem c04r_outline_segs (T : K) (a : Point K) (A1 A2 : Affine K) (g : K) :
    segs (PathEl.MoveTo a :: PathEl.LineTo (A1 * c04rPt T g 0) ::
        (roundJoinWith T A1 g ++ PathEl.LineTo (A2 * c04rPt T g 0) :: roundJoinWith T A2 g))
      = some (PathSeg.Line ⟨a, A1 * c04rPt T g 0⟩ ::
          (((List.range (c04rN T g)).map fun k => PathSeg.Cubic (A1 * c04rPiece T g k)) ++
            PathSeg.Line ⟨penAfter (A1 * c04rPt T g 0) (roundJoinWith T A1 g), A2 * c04rPt T g 0⟩ ::
              ((List.range (c04rN T g)).map fun k => PathSeg.Cubic (A2 * c04rPiece T g k)))) := by
  rw [segs_moveTo, segsT_lineTo, segsT_append, roundJoinWith_segsT, stAfterT_roundJoinWith, segsT_lineTo, roundJoinWith_segsT]

end anyScalar

section lawful
variable {K : Type} [Field K] [LinearOrder K] [IsStrictOrderedRing K] [FloorRing K] [Scalar K] [LawfulScalar K]

/-- the y-coordinate of a cubic in Bernstein form -/
theorem c04r_cubic_eval_y (q : CubicBez K) (t : K) :
    (q.eval t).y = (1 - t) ^ 3 * q.p0.y + 3 * (1 - t) ^ 2 * t * q.p1.y + 3 * (1 - t) * t ^ 2 * q.p2.y + t ^ 3 * q.p3.y := by
  simp only [CubicBez.eval, kdefs, scalar_norm]; push_cast; ring

/-- `(A·p − c) · rot90(n) = p.y · |n|²` for the map of `round_join` -/
theorem c04rAff_rot_dot (c : Point K) (n : Vec2 K) (p : Point K) :
    -((c04rAff c n * p).x - c.x) * n.y + ((c04rAff c n * p).y - c.y) * n.x = p.y * (n.x ^ 2 + n.y ^ 2) := by
  rw [c04rAff_act]; ring

theorem c04rJt_eq (w tol : K) : c04rJt w tol = 2 * tol / w := by
  simp only [c04rJt, scalar_norm]; push_cast; rfl

theorem c04r_line_eval (a b : Point K) (t : K) :
    (PathSeg.Line ⟨a, b⟩).eval t = ⟨a.x + (b.x - a.x) * t, a.y + (b.y - a.y) * t⟩ := by
  simp only [PathSeg.eval, Line.eval, kdefs, scalar_norm]

end lawful

/-! ### plane geometry of the band around a segment (no model) -/
section plane

/-- a point of an offset edge `(p0 + σn) → (p1 + σn)`, `n ⟂ T`: at squared distance exactly `|n|²` from its foot point, and at
    least `|n|²` from every point of the line through the segment -/
theorem c04r_band_offset (p0x p0y Tx Ty k σ t s : ℝ) (hσ : σ ^ 2 = 1) :
    ((p0x + σ * (-Ty * k) + Tx * t) - (p0x + t * Tx)) ^ 2 + ((p0y + σ * (Tx * k) + Ty * t) - (p0y + t * Ty)) ^ 2
        = (-Ty * k) ^ 2 + (Tx * k) ^ 2 ∧
    (-Ty * k) ^ 2 + (Tx * k) ^ 2
      ≤ ((p0x + σ * (-Ty * k) + Tx * t) - (p0x + s * Tx)) ^ 2 + ((p0y + σ * (Tx * k) + Ty * t) - (p0y + s * Ty)) ^ 2 := by
  constructor
  · linear_combination ((-Ty * k) ^ 2 + (Tx * k) ^ 2) * hσ
  · have e : ((p0x + σ * (-Ty * k) + Tx * t) - (p0x + s * Tx)) ^ 2 + ((p0y + σ * (Tx * k) + Ty * t) - (p0y + s * Ty)) ^ 2
        = (-Ty * k) ^ 2 + (Tx * k) ^ 2 + (t - s) ^ 2 * (Tx ^ 2 + Ty ^ 2) := by
      linear_combination ((-Ty * k) ^ 2 + (Tx * k) ^ 2) * hσ
    rw [e]
    have : 0 ≤ (t - s) ^ 2 * (Tx ^ 2 + Ty ^ 2) := by positivity
    linarith

/-- a point `X = q + D` beyond an end `q` of the segment (`D·T·τ ≥ 0`, `τ = ±1` the outward direction, the other points of the
    segment being `q − τ·u·T`, `u ≥ 0`) is at least as far from every point of the segment as from `q` -/
theorem c04r_band_beyond (Dx Dy Tx Ty u τ : ℝ) (hu : 0 ≤ u) (hdot : 0 ≤ τ * (Dx * Tx + Dy * Ty)) :
    Dx ^ 2 + Dy ^ 2 ≤ (Dx + τ * u * Tx) ^ 2 + (Dy + τ * u * Ty) ^ 2 := by
  have e : (Dx + τ * u * Tx) ^ 2 + (Dy + τ * u * Ty) ^ 2
      = Dx ^ 2 + Dy ^ 2 + 2 * u * (τ * (Dx * Tx + Dy * Ty)) + (τ * u) ^ 2 * (Tx ^ 2 + Ty ^ 2) := by ring
  rw [e]
  have h1 : 0 ≤ 2 * u * (τ * (Dx * Tx + Dy * Ty)) := by positivity
  have h2 : 0 ≤ (τ * u) ^ 2 * (Tx ^ 2 + Ty ^ 2) := by positivity
  linarith

/-- the band statement for a point `X` near the END `p1` of the segment `p0 p1`: `R2 ≤ |X − p1|² ≤ U`, `X` beyond `p1`
    (`k·((X − p1)·T) ≥ 0`, `k ≥ 0`, and `R2 = 0` when `k = 0`) -/
theorem c04r_band_cap_end (p0 p1 X : Point ℝ) (k R2 U : ℝ) (hk : 0 ≤ k) (hR0 : k = 0 → R2 = 0)
    (hb1 : R2 ≤ (X.x - p1.x) ^ 2 + (X.y - p1.y) ^ 2) (hb2 : (X.x - p1.x) ^ 2 + (X.y - p1.y) ^ 2 ≤ U)
    (hdot : 0 ≤ k * ((X.x - p1.x) * (p1.x - p0.x) + (X.y - p1.y) * (p1.y - p0.y))) :
    (∃ s : ℝ, 0 ≤ s ∧ s ≤ 1 ∧ (X.x - (p0.x + s * (p1.x - p0.x))) ^ 2 + (X.y - (p0.y + s * (p1.y - p0.y))) ^ 2 ≤ U) ∧
    (∀ s : ℝ, 0 ≤ s → s ≤ 1 → R2 ≤ (X.x - (p0.x + s * (p1.x - p0.x))) ^ 2 + (X.y - (p0.y + s * (p1.y - p0.y))) ^ 2) := by
  constructor
  · refine ⟨1, by norm_num, le_refl _, ?_⟩
    have e : (X.x - (p0.x + 1 * (p1.x - p0.x))) ^ 2 + (X.y - (p0.y + 1 * (p1.y - p0.y))) ^ 2
        = (X.x - p1.x) ^ 2 + (X.y - p1.y) ^ 2 := by ring
    rw [e]; exact hb2
  · intro s hs0 hs1
    rcases hk.eq_or_lt with h0 | hpos
    · rw [hR0 h0.symm]; positivity
    · have hd : 0 ≤ 1 * ((X.x - p1.x) * (p1.x - p0.x) + (X.y - p1.y) * (p1.y - p0.y)) := by
        rw [one_mul]; exact (mul_nonneg_iff_of_pos_left hpos).mp hdot
      have := c04r_band_beyond (X.x - p1.x) (X.y - p1.y) (p1.x - p0.x) (p1.y - p0.y) (1 - s) 1 (by linarith) hd
      have e : (X.x - (p0.x + s * (p1.x - p0.x))) ^ 2 + (X.y - (p0.y + s * (p1.y - p0.y))) ^ 2
          = (X.x - p1.x + 1 * (1 - s) * (p1.x - p0.x)) ^ 2 + (X.y - p1.y + 1 * (1 - s) * (p1.y - p0.y)) ^ 2 := by ring
      rw [e]; linarith

/-- … near the START `p0`: `X` behind `p0` (`k·((X − p0)·T) ≤ 0`) -/
theorem c04r_band_cap_start (p0 p1 X : Point ℝ) (k R2 U : ℝ) (hk : 0 ≤ k) (hR0 : k = 0 → R2 = 0)
    (hb1 : R2 ≤ (X.x - p0.x) ^ 2 + (X.y - p0.y) ^ 2) (hb2 : (X.x - p0.x) ^ 2 + (X.y - p0.y) ^ 2 ≤ U)
    (hdot : 0 ≤ -(k * ((X.x - p0.x) * (p1.x - p0.x) + (X.y - p0.y) * (p1.y - p0.y)))) :
    (∃ s : ℝ, 0 ≤ s ∧ s ≤ 1 ∧ (X.x - (p0.x + s * (p1.x - p0.x))) ^ 2 + (X.y - (p0.y + s * (p1.y - p0.y))) ^ 2 ≤ U) ∧
    (∀ s : ℝ, 0 ≤ s → s ≤ 1 → R2 ≤ (X.x - (p0.x + s * (p1.x - p0.x))) ^ 2 + (X.y - (p0.y + s * (p1.y - p0.y))) ^ 2) := by
  constructor
  · refine ⟨0, le_refl _, by norm_num, ?_⟩
    have e : (X.x - (p0.x + 0 * (p1.x - p0.x))) ^ 2 + (X.y - (p0.y + 0 * (p1.y - p0.y))) ^ 2
        = (X.x - p0.x) ^ 2 + (X.y - p0.y) ^ 2 := by ring
    rw [e]; exact hb2
  · intro s hs0 hs1
    rcases hk.eq_or_lt with h0 | hpos
    · rw [hR0 h0.symm]; positivity
    · have hd : 0 ≤ (-1) * ((X.x - p0.x) * (p1.x - p0.x) + (X.y - p0.y) * (p1.y - p0.y)) := by
        have : 0 ≤ k * (-((X.x - p0.x) * (p1.x - p0.x) + (X.y - p0.y) * (p1.y - p0.y))) := by linarith
        have := (mul_nonneg_iff_of_pos_left hpos).mp this
        linarith
      have := c04r_band_beyond (X.x - p0.x) (X.y - p0.y) (p1.x - p0.x) (p1.y - p0.y) s (-1) hs0 hd
      have e : (X.x - (p0.x + s * (p1.x - p0.x))) ^ 2 + (X.y - (p0.y + s * (p1.y - p0.y))) ^ 2
          = (X.x - p0.x + (-1) * s * (p1.x - p0.x)) ^ 2 + (X.y - p0.y + (-1) * s * (p1.y - p0.y)) ^ 2 := by ring
      rw [e]; linarith

/-- … for a point of an offset edge: `X = p0 + σ·n + u·T`, `u ∈ [0, 1]`, `n = k·rot90(T)`, `σ = ±1` -/
theorem c04r_band_edge (p0 p1 X : Point ℝ) (k σ u ε : ℝ) (hσ : σ ^ 2 = 1) (hu0 : 0 ≤ u) (hu1 : u ≤ 1) (hε : 0 ≤ ε)
    (hx : X.x = p0.x + σ * (-(p1.y - p0.y) * k) + (p1.x - p0.x) * u)
    (hy : X.y = p0.y + σ * ((p1.x - p0.x) * k) + (p1.y - p0.y) * u) :
    (∃ s : ℝ, 0 ≤ s ∧ s ≤ 1 ∧ (X.x - (p0.x + s * (p1.x - p0.x))) ^ 2 + (X.y - (p0.y + s * (p1.y - p0.y))) ^ 2
        ≤ ((-(p1.y - p0.y) * k) ^ 2 + ((p1.x - p0.x) * k) ^ 2) * (1 + ε) ^ 2) ∧
    (∀ s : ℝ, 0 ≤ s → s ≤ 1 → (-(p1.y - p0.y) * k) ^ 2 + ((p1.x - p0.x) * k) ^ 2
        ≤ (X.x - (p0.x + s * (p1.x - p0.x))) ^ 2 + (X.y - (p0.y + s * (p1.y - p0.y))) ^ 2) := by
  rw [hx, hy]
  constructor
  · refine ⟨u, hu0, hu1, ?_⟩
    rw [(c04r_band_offset p0.x p0.y (p1.x - p0.x) (p1.y - p0.y) k σ u u hσ).1]
    have h0 : 0 ≤ (-(p1.y - p0.y) * k) ^ 2 + ((p1.x - p0.x) * k) ^ 2 := by positivity
    have h1 : 1 ≤ (1 + ε) ^ 2 := by nlinarith
    nlinarith
  · intro s _ _
    exact (c04r_band_offset p0.x p0.y (p1.x - p0.x) (p1.y - p0.y) k σ u s hσ).2

end plane

/-! ### the round cap over ℝ -/

/-- `4/3·tan(s/4)·cos φ ≤ sin φ` for `0 < s ≤ π/2`, `s ≤ φ ≤ π/2` -/
theorem c04r_tan_arm_le (s φ : ℝ) (hs0 : 0 < s) (hs : s ≤ Real.pi / 2) (h1 : s ≤ φ) (h2 : φ ≤ Real.pi / 2) :
    4 / 3 * Real.tan (s / 4) * Real.cos φ ≤ Real.sin φ := by
  have hpi := Real.pi_pos
  set u := s / 4 with hu
  have hs4 : s = 4 * u := by rw [hu]; ring
  have hu0 : 0 < u := by rw [hu]; positivity
  have hcu : 0 < Real.cos u := Real.cos_pos_of_mem_Ioo ⟨by linarith, by linarith⟩
  have hsu : 0 ≤ Real.sin u := Real.sin_nonneg_of_nonneg_of_le_pi hu0.le (by linarith)
  have hsφ : Real.sin s ≤ Real.sin φ := Real.sin_le_sin_of_le_of_le_pi_div_two (by linarith) h2 h1
  have hcφ : Real.cos φ ≤ Real.cos s := Real.cos_le_cos_of_nonneg_of_le_pi hs0.le (by linarith) h1
  have h3 : Real.sin u ≤ Real.sin (3 * u) := Real.sin_le_sin_of_le_of_le_pi_div_two (by linarith) (by linarith) (by linarith)
  have hsub : Real.sin (3 * u) = Real.sin s * Real.cos u - Real.cos s * Real.sin u := by
    rw [show 3 * u = s - u by rw [hs4]; ring, Real.sin_sub]
  have hc1 : Real.cos s ≤ 1 := Real.cos_le_one s
  have key : 4 / 3 * Real.sin u * Real.cos s ≤ Real.sin s * Real.cos u := by nlinarith
  rw [Real.tan_eq_sin_div_cos, show 4 / 3 * (Real.sin u / Real.cos u) * Real.cos φ = (4 / 3 * Real.sin u * Real.cos φ) / Real.cos u by ring,
    div_le_iff₀ hcu]
  have a1 : 4 / 3 * Real.sin u * Real.cos φ ≤ 4 / 3 * Real.sin u * Real.cos s :=
    mul_le_mul_of_nonneg_left hcφ (by positivity)
  have a2 : Real.sin s * Real.cos u ≤ Real.sin φ * Real.cos u := mul_le_mul_of_nonneg_right hsφ hcu.le
  linarith

section count
variable [Scalar ℝ] [LawfulScalar ℝ] [LawfulTrig] [LawfulCount]
open LawfulTrig LawfulCount

/-- a standard arc piece from `α ≥ 0` to `α + s ≤ π`, `0 < s ≤ π/2`, of the unit circle about the origin stays in the upper
    half plane (its control points do) -/
theorem c04r_arc_piece_y_nonneg (α s t : ℝ) (hα : 0 ≤ α) (hβ : α + s ≤ Real.pi) (hs0 : 0 < s) (hs : s ≤ Real.pi / 2)
    (h0 : 0 ≤ t) (h1 : t ≤ 1) :
    0 ≤ ((circleArcCubic ⟨0, 0⟩ 1 (4 / 3 * Real.tan (s / 2 / 2)) α (α + s)).eval t).y := by
  have hpi := Real.pi_pos
  have ha : 0 ≤ 4 / 3 * Real.tan (s / 4) := by
    have := Real.tan_pos_of_pos_of_lt_pi_div_two (x := s / 4) (by positivity) (by linarith)
    positivity
  rw [show s / 2 / 2 = s / 4 by ring, c04r_cubic_eval_y]
  simp only [circleArcCubic, circlePt, zero_add, one_mul]
  have y0 : 0 ≤ Real.sin α := Real.sin_nonneg_of_nonneg_of_le_pi hα (by linarith)
  have y3 : 0 ≤ Real.sin (α + s) := Real.sin_nonneg_of_nonneg_of_le_pi (by linarith) hβ
  have y1 : 0 ≤ Real.sin α + 4 / 3 * Real.tan (s / 4) * Real.cos α := by
    rcases le_total α (Real.pi / 2) with hh | hh
    · have : 0 ≤ Real.cos α := Real.cos_nonneg_of_mem_Icc ⟨by linarith, hh⟩
      positivity
    · have := c04r_tan_arm_le s (Real.pi - α) hs0 hs (by linarith) (by linarith)
      rw [Real.cos_pi_sub, Real.sin_pi_sub] at this
      linarith
  have y2 : 0 ≤ Real.sin (α + s) - 4 / 3 * Real.tan (s / 4) * Real.cos (α + s) := by
    rcases le_total (α + s) (Real.pi / 2) with hh | hh
    · have := c04r_tan_arm_le s (α + s) hs0 hs (by linarith) hh
      linarith
    · have : Real.cos (α + s) ≤ 0 := Real.cos_nonpos_of_pi_div_two_le_of_le hh (by linarith)
      nlinarith
  have hu : 0 ≤ 1 - t := by linarith
  generalize Real.sin α = Y0 at *
  generalize Real.sin (α + s) = Y3 at *
  generalize Real.sin α + 4 / 3 * Real.tan (s / 4) * Real.cos α = Y1 at *
  generalize Real.sin (α + s) - 4 / 3 * Real.tan (s / 4) * Real.cos (α + s) = Y2 at *
  generalize 1 - t = u at *
  positivity

/-- the parameters of a round cap: `n ≥ 2` pieces (`n_err ≥ 3.999999`), step `π/n ≤ π/2` -/
theorem c04r_cap_params (T : ℝ) :
    2 ≤ c04rN T (Scalar.pi : ℝ) ∧ c04rStep T (Scalar.pi : ℝ) = Real.pi / (c04rN T (Scalar.pi : ℝ) : ℝ) ∧
    0 < c04rStep T (Scalar.pi : ℝ) ∧ c04rStep T (Scalar.pi : ℝ) ≤ Real.pi / 2 := by
  obtain ⟨h1, -, -, h4⟩ := appendParams_real (c04rArc (Scalar.pi : ℝ)) T
  have hpi := Real.pi_pos
  have hsw : (c04rArc (Scalar.pi : ℝ)).sweep_angle = Real.pi := pi_eq
  rw [hsw] at h1 h4
  rw [abs_of_pos hpi] at h4
  have hn2 : 2 ≤ c04rN T (Scalar.pi : ℝ) := by
    unfold c04rN
    by_contra hlt
    have : ((c04rArc (Scalar.pi : ℝ)).appendParams T).1 ≤ 1 := by omega
    have hc : ((((c04rArc (Scalar.pi : ℝ)).appendParams T).1 : ℕ) : ℝ) ≤ 1 := by exact_mod_cast this
    nlinarith
  have hnr : (2 : ℝ) ≤ (c04rN T (Scalar.pi : ℝ) : ℝ) := by exact_mod_cast hn2
  have hstep : c04rStep T (Scalar.pi : ℝ) = Real.pi / (c04rN T (Scalar.pi : ℝ) : ℝ) := h1
  refine ⟨hn2, hstep, ?_, ?_⟩
  · rw [hstep]; positivity
  · rw [hstep, div_le_div_iff₀ (by linarith) (by norm_num)]; nlinarith

/-- every point of the cap's unit arc has `y ≥ 0` -/
theorem c04rPiece_pi_y_nonneg (T : ℝ) (k : Nat) (hk : k < c04rN T (Scalar.pi : ℝ)) (t : ℝ) (h0 : 0 ≤ t) (h1 : t ≤ 1) :
    0 ≤ ((c04rPiece T (Scalar.pi : ℝ) k).eval t).y := by
  obtain ⟨hn2, hstep, hs0, hs⟩ := c04r_cap_params T
  have hpi := Real.pi_pos
  have harm : c04rArm T (Scalar.pi : ℝ) = 4 / 3 * Real.tan (c04rStep T (Scalar.pi : ℝ) / 2 / 2) :=
    arc_arm_eq_tan (c04rArc (Scalar.pi : ℝ)) T
  have hp : (Scalar.pi : ℝ) = Real.pi := pi_eq
  rw [c04rPiece_eq, harm, accAngle_eq, accAngle_eq]
  set s := c04rStep T (Scalar.pi : ℝ) with hsdef
  have hnr : (0 : ℝ) < (c04rN T (Scalar.pi : ℝ) : ℝ) := by
    have : (2 : ℝ) ≤ (c04rN T (Scalar.pi : ℝ) : ℝ) := by exact_mod_cast hn2
    linarith
  have hns : (c04rN T (Scalar.pi : ℝ) : ℝ) * s = Real.pi := by rw [hstep]; field_simp
  have hkr : ((k : ℝ) + 1) ≤ (c04rN T (Scalar.pi : ℝ) : ℝ) := by exact_mod_cast hk
  have e : Real.pi - Scalar.pi + ((k + 1 : ℕ) : ℝ) * s = (Real.pi - Scalar.pi + (k : ℝ) * s) + s := by push_cast; ring
  rw [e]
  refine c04r_arc_piece_y_nonneg _ s t ?_ ?_ hs0 hs h0 h1
  · have : 0 ≤ (k : ℝ) * s := by positivity
    linarith
  · have : ((k : ℝ) + 1) * s ≤ (c04rN T (Scalar.pi : ℝ) : ℝ) * s := mul_le_mul_of_nonneg_right hkr hs0.le
    linarith

/-- squared form of the band of the unit arc -/
theorem c04rPiece_band_sq (T : ℝ) (hT : 0 < T) (angle : ℝ) (k : Nat) (t : ℝ) (h0 : 0 ≤ t) (h1 : t ≤ 1) :
    1 ≤ ((c04rPiece T angle k).eval t).x ^ 2 + ((c04rPiece T angle k).eval t).y ^ 2 ∧
    ((c04rPiece T angle k).eval t).x ^ 2 + ((c04rPiece T angle k).eval t).y ^ 2 ≤ (1 + T) ^ 2 := by
  obtain ⟨b1, b2⟩ := c04rPiece_band T hT angle k t h0 h1
  set S := ((c04rPiece T angle k).eval t).x ^ 2 + ((c04rPiece T angle k).eval t).y ^ 2 with hS
  have hS0 : 0 ≤ S := by positivity
  constructor
  · have := Real.sq_sqrt hS0
    nlinarith [Real.sqrt_nonneg S]
  · have := Real.sq_sqrt hS0
    nlinarith [Real.sqrt_nonneg S]

/-- every point `X` of a piece of `round_cap(T, c, n)`: `|n|² ≤ |X − c|² ≤ |n|²·(1 + T)²` and `(X − c)·rot90(n) ≥ 0` -/
theorem c04r_cap_point (T : ℝ) (hT : 0 < T) (c : Point ℝ) (n : Vec2 ℝ) (k : Nat) (hk : k < c04rN T (Scalar.pi : ℝ)) (t : ℝ)
    (h0 : 0 ≤ t) (h1 : t ≤ 1) :
    let X := (c04rAff c n * c04rPiece T (Scalar.pi : ℝ) k).eval t
    (n.x ^ 2 + n.y ^ 2 ≤ (X.x - c.x) ^ 2 + (X.y - c.y) ^ 2 ∧
      (X.x - c.x) ^ 2 + (X.y - c.y) ^ 2 ≤ (n.x ^ 2 + n.y ^ 2) * (1 + T) ^ 2) ∧
    0 ≤ -(X.x - c.x) * n.y + (X.y - c.y) * n.x := by
  intro X
  have hX : X = c04rAff c n * (c04rPiece T (Scalar.pi : ℝ) k).eval t := cubic_eval_commutes _ _ _
  obtain ⟨b1, b2⟩ := c04rPiece_band_sq T hT (Scalar.pi : ℝ) k t h0 h1
  have hy := c04rPiece_pi_y_nonneg T k hk t h0 h1
  have hN : 0 ≤ n.x ^ 2 + n.y ^ 2 := by positivity
  rw [hX, c04rAff_dist_sq, c04rAff_rot_dot]
  refine ⟨⟨?_, ?_⟩, ?_⟩
  · nlinarith
  · exact mul_le_mul_of_nonneg_left b2 hN
  · positivity

end count
end Kurbo
