import Kurbo.Quads
import Proofs.KDefs
import Mathlib.Tactic.LinearCombination
/-! Helper definitions and lemmas for C09 (nearest point), part 1: the structure of the candidate loop of
    `QuadBez::nearest` / `CubicBez::nearest` (any `[Scalar K]`), and the algebra of `Line::nearest`
    and of the critical-point polynomial (any lawful `K`). -/
set_option linter.unusedSectionVars false
namespace Kurbo.C09

/-! ### model-level names for the pieces of `QuadBez.nearest` (all `rfl`-equal to the model) -/
section defs
variable {K : Type} [Scalar K]

open Ops in
/-- the test `(0.0..=1.0).contains(&t)` of `try_t` -/
def nearInRange (t : K) : Bool := (0 : K) <=. t && t <=. (1 : K)

open Ops in
/-- the four coefficients `c0 c1 c2 c3` that `QuadBez::nearest` hands to `solve_cubic` -/
def quadNearestCoeffs (q : QuadBez K) (p : Point K) : K × K × K × K :=
  let d0 := q.p1 - q.p0
  let d1 := q.p0.to_vec2 + q.p2.to_vec2 - (2 : K) * q.p1.to_vec2
  let d := q.p0 - p
  (d.dot d0, (2 : K) * d0.hypot2 + d.dot d1, (3 : K) * d1.dot d0, d1.hypot2)

/-- the root list `QuadBez::nearest` iterates over -/
def quadNearestRoots (q : QuadBez K) (p : Point K) : List K :=
  let c := quadNearestCoeffs q p
  solveCubic c.1 c.2.1 c.2.2.1 c.2.2.2

/-- the loop body (`try_t`) -/
def nearestStep (q : QuadBez K) (p : Point K) (acc : (K × Option K) × Bool) (t : K) : (K × Option K) × Bool :=
  if !(nearInRange t) then (acc.1, true) else (nearestEvalT p acc.1 t (q.eval t), acc.2)

open Ops in
/-- `QuadBez::nearest` after the roots are known -/
def nearestOfRoots (q : QuadBez K) (p : Point K) (roots : List K) : Nearest K :=
  let r := roots.foldl (nearestStep q p) (((0 : K), none), roots.isEmpty)
  let best := if r.2 then nearestEvalT p (nearestEvalT p r.1 (0 : K) q.p0) (1 : K) q.p2 else r.1
  { t := best.1, distance_sq := best.2.getD (0 : K) }

theorem quad_nearest_eq_ofRoots (q : QuadBez K) (p : Point K) (a : K) :
    q.nearest p a = nearestOfRoots q p (quadNearestRoots q p) := rfl

/-- `need_ends` after the loop: no root at all, or some root outside `[0,1]` -/
def quadNeedEnds (roots : List K) : Bool := roots.isEmpty || roots.any (fun t => !(nearInRange t))

open Ops in
/-- the `(t, point)` pairs handed to `eval_t`, in evaluation order -/
def quadCands (q : QuadBez K) (roots : List K) : List (K × Point K) :=
  (roots.filter nearInRange).map (fun t => (t, q.eval t))
    ++ (if quadNeedEnds roots then [((0 : K), q.p0), ((1 : K), q.p2)] else [])

/-- `eval_t` folded over a candidate list -/
def bestOf (p : Point K) (acc : K × Option K) (cands : List (K × Point K)) : K × Option K :=
  cands.foldl (fun b c => nearestEvalT p b c.1 c.2) acc

theorem nearestStep_foldl (q : QuadBez K) (p : Point K) (roots : List K) (acc : (K × Option K) × Bool) :
    roots.foldl (nearestStep q p) acc
      = (bestOf p acc.1 ((roots.filter nearInRange).map (fun t => (t, q.eval t))),
         acc.2 || roots.any (fun t => !(nearInRange t))) := by
  induction roots generalizing acc with
  | nil => simp [bestOf]
  | cons t ts ih =>
    rw [List.foldl_cons, ih]
    unfold nearestStep
    cases h : nearInRange t
    · simp [h]
    · simp [h, bestOf]

theorem bestOf_append (p : Point K) (acc : K × Option K) (l₁ l₂ : List (K × Point K)) :
    bestOf p acc (l₁ ++ l₂) = bestOf p (bestOf p acc l₁) l₂ := by
  simp [bestOf, List.foldl_append]

open Ops in
theorem nearestOfRoots_eq (q : QuadBez K) (p : Point K) (roots : List K) :
    nearestOfRoots q p roots =
      { t := (bestOf p ((0 : K), none) (quadCands q roots)).1,
        distance_sq := (bestOf p ((0 : K), none) (quadCands q roots)).2.getD (0 : K) } := by
  unfold nearestOfRoots quadCands
  simp only [nearestStep_foldl, bestOf_append]
  have : (roots.isEmpty || roots.any fun t => !nearInRange t) = quadNeedEnds roots := rfl
  rw [this]
  cases quadNeedEnds roots
  · simp [bestOf]
  · simp [bestOf]

/-- the candidate list is never empty: so the `unwrap_or(0.0)` default is unreachable -/
theorem quadCands_ne_nil (q : QuadBez K) (roots : List K) : quadCands q roots ≠ [] := by
  unfold quadCands quadNeedEnds
  cases roots with
  | nil => simp
  | cons t ts =>
    by_cases h : (t :: ts).any (fun t => !(nearInRange t)) = true
    · simp [h]
    · have h' : ∀ x ∈ t :: ts, nearInRange x = true := by
        simpa using h
      simp [h' t (by simp)]

/-- squared distance the way `eval_t` computes it -/
def candDist (p : Point K) (c : K × Point K) : K := (c.2 - p).hypot2

/-! #### the generic "keep the first minimum" fold shared by `QuadBez::nearest` and `CubicBez::nearest` -/

/-- one step: keep the accumulated `(t, some r)` unless the new `(t', r')` has `r' < r` -/
def minStep (acc : K × Option K) (c : K × K) : K × Option K :=
  match acc.2 with
  | some rb => if Scalar.lt c.2 rb then (c.1, some c.2) else acc
  | none => (c.1, some c.2)

/-- fold of `minStep` over items `x` presented as `(ft x, fd x)` -/
def minFold {α : Type} (ft fd : α → K) (acc : K × Option K) (L : List α) : K × Option K :=
  L.foldl (fun b x => minStep b (ft x, fd x)) acc

theorem bestOf_eq_minFold (p : Point K) (acc : K × Option K) (cands : List (K × Point K)) :
    bestOf p acc cands = minFold Prod.fst (candDist p) acc cands := rfl

theorem minFold_some_mem {α : Type} (ft fd : α → K) (L : List α) (t0 r0 : K) :
    minFold ft fd (t0, some r0) L = (t0, some r0) ∨
      ∃ x ∈ L, minFold ft fd (t0, some r0) L = (ft x, some (fd x)) := by
  induction L generalizing t0 r0 with
  | nil => left; rfl
  | cons c cs ih =>
    unfold minFold; rw [List.foldl_cons]
    unfold minStep
    simp only
    cases h : Scalar.lt (fd c) r0
    · simp only [Bool.false_eq_true, if_false]
      rcases ih t0 r0 with h1 | ⟨c', hc', h1⟩
      · left; exact h1
      · right; exact ⟨c', List.mem_cons_of_mem _ hc', h1⟩
    · simp only [if_true]
      rcases ih (ft c) (fd c) with h1 | ⟨c', hc', h1⟩
      · right; exact ⟨c, List.mem_cons_self, h1⟩
      · right; exact ⟨c', List.mem_cons_of_mem _ hc', h1⟩

theorem minFold_none_mem {α : Type} (ft fd : α → K) (L : List α) (hne : L ≠ []) :
    ∃ x ∈ L, ∀ t0, minFold ft fd (t0, none) L = (ft x, some (fd x)) := by
  cases L with
  | nil => exact absurd rfl hne
  | cons c cs =>
    have e : ∀ t0, minFold ft fd (t0, none) (c :: cs) = minFold ft fd (ft c, some (fd c)) cs := by
      intro t0; unfold minFold; rw [List.foldl_cons]; rfl
    rcases minFold_some_mem ft fd cs (ft c) (fd c) with h1 | ⟨c', hc', h1⟩
    · exact ⟨c, List.mem_cons_self, fun t0 => (e t0).trans h1⟩
    · exact ⟨c', List.mem_cons_of_mem _ hc', fun t0 => (e t0).trans h1⟩

/-! #### `CubicBez::nearest` -/

open Ops in
/-- the loop body of `CubicBez::nearest` -/
def cubicNearestStep (p : Point K) (a : K) (acc : K × Option K) (piece : K × K × QuadBez K) : K × Option K :=
  let n := piece.2.2.nearest p a
  let better := match acc.2 with
    | some br => n.distance_sq <. br
    | none => true
  if better then (piece.1 + n.t * (piece.2.1 - piece.1), some n.distance_sq) else acc

open Ops in
theorem cubic_nearest_eq_fold (c : CubicBez K) (p : Point K) (a : K) :
    c.nearest p a =
      { t := ((c.to_quads a).foldl (cubicNearestStep p a) ((0 : K), none)).1,
        distance_sq := ((c.to_quads a).foldl (cubicNearestStep p a) ((0 : K), none)).2.getD (0 : K) } := rfl

open Ops in
/-- parameter on the cubic reported for a piece `(t0, t1, quad)` -/
def cubicPieceT (p : Point K) (a : K) (piece : K × K × QuadBez K) : K :=
  piece.1 + (piece.2.2.nearest p a).t * (piece.2.1 - piece.1)

/-- squared distance reported for a piece -/
def cubicPieceD (p : Point K) (a : K) (piece : K × K × QuadBez K) : K := (piece.2.2.nearest p a).distance_sq

theorem cubicNearestStep_eq (p : Point K) (a : K) (acc : K × Option K) (piece : K × K × QuadBez K) :
    cubicNearestStep p a acc piece = minStep acc (cubicPieceT p a piece, cubicPieceD p a piece) := by
  unfold cubicNearestStep minStep cubicPieceT cubicPieceD
  rcases acc with ⟨t, _ | r⟩
  · simp
  · simp

open Ops in
theorem cubic_nearest_eq_minFold (c : CubicBez K) (p : Point K) (a : K) :
    c.nearest p a =
      { t := (minFold (cubicPieceT p a) (cubicPieceD p a) ((0 : K), none) (c.to_quads a)).1,
        distance_sq := (minFold (cubicPieceT p a) (cubicPieceD p a) ((0 : K), none) (c.to_quads a)).2.getD (0 : K) } := by
  rw [cubic_nearest_eq_fold]
  have : cubicNearestStep p a = fun b x => minStep b (cubicPieceT p a x, cubicPieceD p a x) := by
    funext b x; exact cubicNearestStep_eq p a b x
  rw [this]; rfl

theorem toQuadsN_pos (c : CubicBez K) (a : K) : 1 ≤ toQuadsN c a := by
  unfold toQuadsN
  simp only
  split_ifs with h
  · exact le_refl _
  · omega

theorem to_quads_ne_nil (c : CubicBez K) (a : K) : c.to_quads a ≠ [] := by
  unfold CubicBez.to_quads
  have := toQuadsN_pos c a
  simp only [ne_eq, List.map_eq_nil_iff, List.range_eq_nil]
  omega

theorem mem_to_quads (c : CubicBez K) (a : K) (piece : K × K × QuadBez K) :
    piece ∈ c.to_quads a ↔ ∃ i, i < toQuadsN c a ∧ piece = toQuadsPiece c (toQuadsN c a) i := by
  unfold CubicBez.to_quads
  simp only [List.mem_map, List.mem_range]
  constructor
  · rintro ⟨i, hi, rfl⟩; exact ⟨i, hi, rfl⟩
  · rintro ⟨i, hi, rfl⟩; exact ⟨i, hi, rfl⟩

open Ops in
theorem toQuadsPiece_t0 (c : CubicBez K) (n i : Nat) : (toQuadsPiece c n i).1 = natK i / natK n := rfl
open Ops in
theorem toQuadsPiece_t1 (c : CubicBez K) (n i : Nat) : (toQuadsPiece c n i).2.1 = natK (i + 1) / natK n := rfl

theorem mem_quadCands (q : QuadBez K) (roots : List K) (c : K × Point K) :
    c ∈ quadCands q roots ↔
      (∃ t ∈ roots, nearInRange t = true ∧ c = (t, q.eval t)) ∨
      (quadNeedEnds roots = true ∧ (c = (Scalar.ofRat ((0 : Nat) : Rat), q.p0) ∨ c = (Scalar.ofRat ((1 : Nat) : Rat), q.p2))) := by
  unfold quadCands
  rw [List.mem_append]
  constructor
  · rintro (h | h)
    · left
      obtain ⟨t, ht, rfl⟩ := List.mem_map.mp h
      rw [List.mem_filter] at ht
      exact ⟨t, ht.1, ht.2, rfl⟩
    · right
      cases hN : quadNeedEnds roots
      · rw [hN] at h; simp at h
      · rw [hN] at h
        simp only [if_true, List.mem_cons, List.not_mem_nil, or_false] at h
        exact ⟨rfl, h⟩
  · rintro (⟨t, ht, hr, rfl⟩ | ⟨hN, h⟩)
    · left; exact List.mem_map.mpr ⟨t, List.mem_filter.mpr ⟨ht, hr⟩, rfl⟩
    · right; rw [hN]; simp only [if_true, List.mem_cons, List.not_mem_nil, or_false]; exact h

theorem quadNeedEnds_iff (roots : List K) :
    quadNeedEnds roots = true ↔ roots = [] ∨ ∃ t ∈ roots, nearInRange t = false := by
  unfold quadNeedEnds
  simp [List.isEmpty_iff]

end defs

/-! ### lawful scalars -/
section lawful
variable {K : Type} [Field K] [LinearOrder K] [IsStrictOrderedRing K] [FloorRing K] [Scalar K] [LawfulScalar K]

/-- squared Euclidean distance, written out -/
def dist2 {K : Type} [Field K] (p q : Point K) : K := (p.x - q.x) ^ 2 + (p.y - q.y) ^ 2

theorem dist2_nonneg (p q : Point K) : 0 ≤ dist2 p q := by
  unfold dist2; positivity

theorem candDist_eq (p : Point K) (c : K × Point K) : candDist p c = dist2 p c.2 := by
  unfold candDist dist2; simp only [kdefs, scalar_norm]; ring

theorem hypot2_sub_eq (p q : Point K) : (q - p).hypot2 = dist2 p q := by
  unfold dist2; simp only [kdefs, scalar_norm]; ring

theorem hypot2_sub_eq' (p q : Point K) : (p - q).hypot2 = dist2 p q := by
  unfold dist2; simp only [kdefs, scalar_norm]; ring

theorem nearInRange_iff (t : K) : nearInRange t = true ↔ 0 ≤ t ∧ t ≤ 1 := by
  unfold nearInRange
  simp only [scalar_norm, Bool.and_eq_true, decide_eq_true_eq, Nat.cast_zero, Nat.cast_one]

theorem nearInRange_false_iff (t : K) : nearInRange t = false ↔ ¬ (0 ≤ t ∧ t ≤ 1) := by
  rw [← nearInRange_iff]; simp

/-- the fold keeps the *first* item of minimal `fd` -/
theorem minFold_some_spec {α : Type} (ft fd : α → K) (L : List α) (t0 r0 : K) :
    (minFold ft fd (t0, some r0) L = (t0, some r0) ∧ ∀ c ∈ L, r0 ≤ fd c) ∨
      ∃ l₁ c l₂, L = l₁ ++ c :: l₂ ∧ minFold ft fd (t0, some r0) L = (ft c, some (fd c)) ∧
        fd c < r0 ∧ (∀ c' ∈ l₁, fd c < fd c') ∧ (∀ c' ∈ l₂, fd c ≤ fd c') := by
  induction L generalizing t0 r0 with
  | nil => left; exact ⟨rfl, by simp⟩
  | cons c cs ih =>
    have hstep : minFold ft fd (t0, some r0) (c :: cs)
        = minFold ft fd (if fd c < r0 then (ft c, some (fd c)) else (t0, some r0)) cs := by
      unfold minFold; rw [List.foldl_cons]
      congr 1
      unfold minStep
      simp only [scalar_norm, decide_eq_true_eq]
    rw [hstep]
    by_cases h : fd c < r0
    · rw [if_pos h]
      rcases ih (ft c) (fd c) with ⟨h1, h2⟩ | ⟨l₁, c', l₂, e, h1, h2, h3, h4⟩
      · right; exact ⟨[], c, cs, rfl, h1, h, by simp, h2⟩
      · right
        refine ⟨c :: l₁, c', l₂, by rw [e]; rfl, h1, h2.trans h, ?_, h4⟩
        intro x hx
        rcases List.mem_cons.mp hx with rfl | hx
        · exact h2
        · exact h3 x hx
    · rw [if_neg h]
      rcases ih t0 r0 with ⟨h1, h2⟩ | ⟨l₁, c', l₂, e, h1, h2, h3, h4⟩
      · left
        refine ⟨h1, ?_⟩
        intro x hx
        rcases List.mem_cons.mp hx with rfl | hx
        · exact not_lt.mp h
        · exact h2 x hx
      · right
        refine ⟨c :: l₁, c', l₂, by rw [e]; rfl, h1, h2, ?_, h4⟩
        intro x hx
        rcases List.mem_cons.mp hx with rfl | hx
        · exact lt_of_lt_of_le h2 (not_lt.mp h)
        · exact h3 x hx

theorem minFold_none_spec {α : Type} (ft fd : α → K) (L : List α) (hne : L ≠ []) :
    ∃ l₁ c l₂, L = l₁ ++ c :: l₂ ∧ (∀ t0, minFold ft fd (t0, none) L = (ft c, some (fd c))) ∧
      (∀ c' ∈ l₁, fd c < fd c') ∧ (∀ c' ∈ l₂, fd c ≤ fd c') := by
  cases L with
  | nil => exact absurd rfl hne
  | cons c cs =>
    have e : ∀ t0, minFold ft fd (t0, none) (c :: cs) = minFold ft fd (ft c, some (fd c)) cs := by
      intro t0; unfold minFold; rw [List.foldl_cons]; rfl
    rcases minFold_some_spec ft fd cs (ft c) (fd c) with ⟨h1, h2⟩ | ⟨l₁, c', l₂, e', h1, h2, h3, h4⟩
    · exact ⟨[], c, cs, rfl, fun t0 => (e t0).trans h1, by simp, h2⟩
    · refine ⟨c :: l₁, c', l₂, by rw [e']; rfl, fun t0 => (e t0).trans h1, ?_, h4⟩
      intro x hx
      rcases List.mem_cons.mp hx with rfl | hx
      · exact h2
      · exact h3 x hx

/-! #### `Line::nearest` -/

theorem line_nearest_eq (l : Line K) (p : Point K) (acc : K) :
    l.nearest p acc =
      (if (l.p1.x - l.p0.x) * (p.x - l.p0.x) + (l.p1.y - l.p0.y) * (p.y - l.p0.y) ≤ 0 then
        { distance_sq := dist2 p l.p0, t := 0 }
      else if (l.p1.x - l.p0.x) * (l.p1.x - l.p0.x) + (l.p1.y - l.p0.y) * (l.p1.y - l.p0.y)
            ≤ (l.p1.x - l.p0.x) * (p.x - l.p0.x) + (l.p1.y - l.p0.y) * (p.y - l.p0.y) then
        { distance_sq := dist2 p l.p1, t := 1 }
      else
        { distance_sq := dist2 p (l.eval (((l.p1.x - l.p0.x) * (p.x - l.p0.x) + (l.p1.y - l.p0.y) * (p.y - l.p0.y)) /
            ((l.p1.x - l.p0.x) * (l.p1.x - l.p0.x) + (l.p1.y - l.p0.y) * (l.p1.y - l.p0.y)))),
          t := ((l.p1.x - l.p0.x) * (p.x - l.p0.x) + (l.p1.y - l.p0.y) * (p.y - l.p0.y)) /
            ((l.p1.x - l.p0.x) * (l.p1.x - l.p0.x) + (l.p1.y - l.p0.y) * (l.p1.y - l.p0.y)) }) := by
  unfold Line.nearest
  simp only [hypot2_sub_eq']
  simp only [Vec2.dot, point_sub, scalar_norm, decide_eq_true_eq, Nat.cast_zero, Nat.cast_one]
  split_ifs <;> rfl

theorem proj_min (wx wy dx dy s t : K) (hD : 0 < dx * dx + dy * dy) (ht : t * (dx * dx + dy * dy) = dx * wx + dy * wy) :
    (wx - dx * t) ^ 2 + (wy - dy * t) ^ 2 ≤ (wx - dx * s) ^ 2 + (wy - dy * s) ^ 2 := by
  have e : ((wx - dx * s) ^ 2 + (wy - dy * s) ^ 2) -
      ((wx - dx * t) ^ 2 + (wy - dy * t) ^ 2) = (s - t) ^ 2 * (dx * dx + dy * dy) := by
    linear_combination (2 * (s - t)) * ht
  have := mul_nonneg (sq_nonneg (s - t)) hD.le
  linarith

theorem dist2_line_eval (l : Line K) (p : Point K) (s : K) :
    dist2 p (l.eval s) = ((p.x - l.p0.x) - (l.p1.x - l.p0.x) * s) ^ 2 + ((p.y - l.p0.y) - (l.p1.y - l.p0.y) * s) ^ 2 := by
  unfold dist2; simp only [kdefs, scalar_norm]; ring

theorem line_eval_zero (l : Line K) : l.eval 0 = l.p0 := by
  cases l; rename_i p0 p1; cases p0; cases p1; kring
theorem line_eval_one (l : Line K) : l.eval 1 = l.p1 := by
  cases l; rename_i p0 p1; cases p0; cases p1; kring

/-! #### `QuadBez::nearest` -/

/-- the coefficients in ordinary arithmetic -/
theorem quadNearestCoeffs_eq (q : QuadBez K) (p : Point K) :
    quadNearestCoeffs q p =
      ( (q.p0.x - p.x) * (q.p1.x - q.p0.x) + (q.p0.y - p.y) * (q.p1.y - q.p0.y),
        2 * ((q.p1.x - q.p0.x) ^ 2 + (q.p1.y - q.p0.y) ^ 2)
          + ((q.p0.x - p.x) * (q.p0.x + q.p2.x - 2 * q.p1.x) + (q.p0.y - p.y) * (q.p0.y + q.p2.y - 2 * q.p1.y)),
        3 * ((q.p0.x + q.p2.x - 2 * q.p1.x) * (q.p1.x - q.p0.x) + (q.p0.y + q.p2.y - 2 * q.p1.y) * (q.p1.y - q.p0.y)),
        (q.p0.x + q.p2.x - 2 * q.p1.x) ^ 2 + (q.p0.y + q.p2.y - 2 * q.p1.y) ^ 2 ) := by
  unfold quadNearestCoeffs
  simp only [kdefs, scalar_norm, Prod.mk.injEq]
  push_cast
  refine ⟨?_, ?_, ?_, ?_⟩
  all_goals first | trivial | ring

theorem quad_dist2_poly (q : QuadBez K) (p : Point K) (t : K) :
    dist2 p (q.eval t) = dist2 p q.p0 + 4 * (quadNearestCoeffs q p).1 * t + 2 * (quadNearestCoeffs q p).2.1 * t ^ 2
      + 4 / 3 * (quadNearestCoeffs q p).2.2.1 * t ^ 3 + (quadNearestCoeffs q p).2.2.2 * t ^ 4 := by
  rw [quadNearestCoeffs_eq]
  unfold dist2
  simp only [kdefs, scalar_norm]
  push_cast
  ring

theorem quad_eval_zero (q : QuadBez K) : q.eval 0 = q.p0 := by
  cases q; rename_i p0 p1 p2; cases p0; cases p1; cases p2; kring
theorem quad_eval_one (q : QuadBez K) : q.eval 1 = q.p2 := by
  cases q; rename_i p0 p1 p2; cases p0; cases p1; cases p2; kring

theorem ofRat_zero_eq : (Scalar.ofRat ((0 : Nat) : Rat) : K) = 0 := by
  rw [sn_ofRat]; norm_num
theorem ofRat_one_eq : (Scalar.ofRat ((1 : Nat) : Rat) : K) = 1 := by
  rw [sn_ofRat]; norm_num

/-- membership in the candidate list, in ordinary arithmetic -/
theorem mem_quadCands_lawful (q : QuadBez K) (roots : List K) (c : K × Point K) :
    c ∈ quadCands q roots ↔
      (∃ t ∈ roots, 0 ≤ t ∧ t ≤ 1 ∧ c = (t, q.eval t)) ∨
      ((roots = [] ∨ ∃ t ∈ roots, ¬ (0 ≤ t ∧ t ≤ 1)) ∧ (c = (0, q.p0) ∨ c = (1, q.p2))) := by
  rw [mem_quadCands, quadNeedEnds_iff, ofRat_zero_eq, ofRat_one_eq]
  simp only [nearInRange_iff, nearInRange_false_iff, and_assoc]

/-- every candidate is `(t, q.eval t)` with `t ∈ [0,1]` -/
theorem quadCands_on_curve (q : QuadBez K) (roots : List K) (c : K × Point K) (hc : c ∈ quadCands q roots) :
    0 ≤ c.1 ∧ c.1 ≤ 1 ∧ c.2 = q.eval c.1 := by
  rcases (mem_quadCands_lawful q roots c).mp hc with ⟨t, _, h0, h1, rfl⟩ | ⟨_, rfl | rfl⟩
  · exact ⟨h0, h1, rfl⟩
  · exact ⟨le_refl _, zero_le_one, (quad_eval_zero q).symm⟩
  · exact ⟨zero_le_one, le_refl _, (quad_eval_one q).symm⟩

theorem quad_nearest_firstMin (q : QuadBez K) (p : Point K) (a : K) :
    ∃ l₁ c l₂, quadCands q (quadNearestRoots q p) = l₁ ++ c :: l₂ ∧
      (q.nearest p a).t = c.1 ∧ (q.nearest p a).distance_sq = dist2 p c.2 ∧
      (∀ c' ∈ l₁, dist2 p c.2 < dist2 p c'.2) ∧ (∀ c' ∈ l₂, dist2 p c.2 ≤ dist2 p c'.2) := by
  rw [quad_nearest_eq_ofRoots, nearestOfRoots_eq, bestOf_eq_minFold]
  obtain ⟨l₁, c, l₂, e, h1, h2, h3⟩ :=
    minFold_none_spec Prod.fst (candDist p) (quadCands q (quadNearestRoots q p)) (quadCands_ne_nil q _)
  refine ⟨l₁, c, l₂, e, ?_, ?_, ?_, ?_⟩
  · show (minFold _ _ _ _).1 = _
    rw [h1]
  · show (minFold _ _ _ _).2.getD _ = _
    rw [h1, ← candDist_eq]; rfl
  · intro c' hc'; rw [← candDist_eq, ← candDist_eq]; exact h2 c' hc'
  · intro c' hc'; rw [← candDist_eq, ← candDist_eq]; exact h3 c' hc'

/-- the result is a candidate and no candidate is closer -/
theorem quad_nearest_min_cands (q : QuadBez K) (p : Point K) (a : K) :
    ∃ c ∈ quadCands q (quadNearestRoots q p),
      (q.nearest p a).t = c.1 ∧ (q.nearest p a).distance_sq = dist2 p c.2 ∧
      ∀ c' ∈ quadCands q (quadNearestRoots q p), (q.nearest p a).distance_sq ≤ dist2 p c'.2 := by
  obtain ⟨l₁, c, l₂, e, h1, h2, h3, h4⟩ := quad_nearest_firstMin q p a
  refine ⟨c, by rw [e]; simp, h1, h2, ?_⟩
  intro c' hc'
  rw [e] at hc'
  rw [h2]
  rcases List.mem_append.mp hc' with h | h
  · exact (h3 c' h).le
  · rcases List.mem_cons.mp h with rfl | h
    · exact le_refl _
    · exact h4 c' h

/-! #### sign structure of the critical polynomial -/

theorem sq_add_sq_pos' (x y : K) (h : ¬ (x = 0 ∧ y = 0)) : 0 < x ^ 2 + y ^ 2 := by
  rcases not_and_or.mp h with h | h
  · have := sq_pos_of_ne_zero h
    exact add_pos_of_pos_of_nonneg this (sq_nonneg y)
  · have := sq_pos_of_ne_zero h
    exact add_pos_of_nonneg_of_pos (sq_nonneg x) this

/-- the cubic `c0 + c1 t + c2 t² + c3 t³` handed to the solver has positive leading coefficient, of odd degree
    (3, or 1 when the quadratic is an affinely parametrised segment), or it is identically zero (the quadratic is a
    single point) -/
theorem quadCoeffs_sign (q : QuadBez K) (p : Point K) :
    0 < (quadNearestCoeffs q p).2.2.2 ∨
    ((quadNearestCoeffs q p).2.2.2 = 0 ∧ (quadNearestCoeffs q p).2.2.1 = 0 ∧ 0 < (quadNearestCoeffs q p).2.1) ∨
    ((quadNearestCoeffs q p).1 = 0 ∧ (quadNearestCoeffs q p).2.1 = 0 ∧ (quadNearestCoeffs q p).2.2.1 = 0 ∧
      (quadNearestCoeffs q p).2.2.2 = 0) := by
  rw [quadNearestCoeffs_eq]
  simp only
  set ax := q.p0.x + q.p2.x - 2 * q.p1.x
  set ay := q.p0.y + q.p2.y - 2 * q.p1.y
  set bx := q.p1.x - q.p0.x
  set b_y := q.p1.y - q.p0.y
  by_cases ha : ax = 0 ∧ ay = 0
  · obtain ⟨hax, hay⟩ := ha
    right
    by_cases hb : bx = 0 ∧ b_y = 0
    · obtain ⟨hbx, hby⟩ := hb
      right
      rw [hax, hay, hbx, hby]
      refine ⟨by ring, by ring, by ring, by ring⟩
    · left
      rw [hax, hay]
      refine ⟨by ring, by ring, ?_⟩
      have := sq_add_sq_pos' bx b_y hb
      linarith
  · left
    exact sq_add_sq_pos' ax ay ha

/-! #### `CubicBez::nearest` over the pieces of `to_quads` -/

theorem natK_eq (n : Nat) : (natK n : K) = (n : K) := by
  unfold natK; rw [sn_ofRat]; norm_num

/-- the parameter range of piece `i` of `n` -/
theorem toQuadsPiece_range (c : CubicBez K) (n i : Nat) :
    (toQuadsPiece c n i).1 = (i : K) / (n : K) ∧ (toQuadsPiece c n i).2.1 = ((i : K) + 1) / (n : K) := by
  rw [toQuadsPiece_t0, toQuadsPiece_t1]
  constructor
  · simp only [scalar_norm, natK_eq]
  · simp only [scalar_norm, natK_eq]; push_cast; rfl

theorem piece_bounds (c : CubicBez K) (a : K) (piece : K × K × QuadBez K) (h : piece ∈ c.to_quads a) :
    0 ≤ piece.1 ∧ piece.1 ≤ piece.2.1 ∧ piece.2.1 ≤ 1 := by
  obtain ⟨i, hi, rfl⟩ := (mem_to_quads c a piece).mp h
  obtain ⟨e0, e1⟩ := toQuadsPiece_range c (toQuadsN c a) i
  rw [e0, e1]
  have hn : (0 : K) < (toQuadsN c a : K) := by
    have := toQuadsN_pos c a
    exact_mod_cast this
  have hi' : (i : K) + 1 ≤ (toQuadsN c a : K) := by exact_mod_cast hi
  refine ⟨div_nonneg (Nat.cast_nonneg _) hn.le, ?_, (div_le_one hn).mpr hi'⟩
  exact div_le_div_of_nonneg_right (by linarith) hn.le

/-- the pieces tile [0,1] -/
theorem to_quads_tiling (c : CubicBez K) (a : K) (t : K) (ht0 : 0 ≤ t) (ht1 : t ≤ 1) :
    ∃ piece ∈ c.to_quads a, ∃ s, 0 ≤ s ∧ s ≤ 1 ∧ t = piece.1 + s * (piece.2.1 - piece.1) := by
  set n := toQuadsN c a with hn
  have hn1 : 1 ≤ n := toQuadsN_pos c a
  have hnK : (0 : K) < (n : K) := by exact_mod_cast hn1
  have htn0 : 0 ≤ t * n := mul_nonneg ht0 hnK.le
  set i := min ⌊t * n⌋₊ (n - 1) with hi
  have hilt : i < n := by
    have : i ≤ n - 1 := min_le_right _ _
    omega
  have hile : (i : K) ≤ t * n := by
    have h1 : (i : K) ≤ (⌊t * n⌋₊ : K) := by exact_mod_cast min_le_left _ _
    exact h1.trans (Nat.floor_le htn0)
  have hige : t * n ≤ (i : K) + 1 := by
    rcases le_total ⌊t * n⌋₊ (n - 1) with h | h
    · have : i = ⌊t * n⌋₊ := min_eq_left h
      rw [this]
      exact (Nat.lt_floor_add_one _).le
    · have : i = n - 1 := min_eq_right h
      rw [this]
      have e : ((n - 1 : Nat) : K) + 1 = (n : K) := by
        have : n - 1 + 1 = n := by omega
        exact_mod_cast this
      rw [e]
      calc t * n ≤ 1 * n := mul_le_mul_of_nonneg_right ht1 hnK.le
        _ = n := one_mul _
  refine ⟨toQuadsPiece c n i, (mem_to_quads c a _).mpr ⟨i, hilt, rfl⟩, t * n - i, by linarith, by linarith, ?_⟩
  obtain ⟨e0, e1⟩ := toQuadsPiece_range c n i
  rw [e0, e1]
  field_simp
  ring

theorem cubic_nearest_firstMin (c : CubicBez K) (p : Point K) (a : K) :
    ∃ l₁ piece l₂, c.to_quads a = l₁ ++ piece :: l₂ ∧
      (c.nearest p a).t = piece.1 + (piece.2.2.nearest p a).t * (piece.2.1 - piece.1) ∧
      (c.nearest p a).distance_sq = (piece.2.2.nearest p a).distance_sq ∧
      (∀ x ∈ l₁, (piece.2.2.nearest p a).distance_sq < (x.2.2.nearest p a).distance_sq) ∧
      (∀ x ∈ l₂, (piece.2.2.nearest p a).distance_sq ≤ (x.2.2.nearest p a).distance_sq) := by
  rw [cubic_nearest_eq_minFold]
  obtain ⟨l₁, x, l₂, e, h1, h2, h3⟩ :=
    minFold_none_spec (cubicPieceT p a) (cubicPieceD p a) (c.to_quads a) (to_quads_ne_nil c a)
  refine ⟨l₁, x, l₂, e, ?_, ?_, h2, h3⟩
  · show (minFold _ _ _ _).1 = _
    rw [h1]
    unfold cubicPieceT
    simp only [scalar_norm]
  · show (minFold _ _ _ _).2.getD _ = _
    rw [h1]; rfl

theorem cubic_nearest_min_pieces (c : CubicBez K) (p : Point K) (a : K) :
    ∃ piece ∈ c.to_quads a,
      (c.nearest p a).t = piece.1 + (piece.2.2.nearest p a).t * (piece.2.1 - piece.1) ∧
      (c.nearest p a).distance_sq = (piece.2.2.nearest p a).distance_sq ∧
      ∀ x ∈ c.to_quads a, (c.nearest p a).distance_sq ≤ (x.2.2.nearest p a).distance_sq := by
  obtain ⟨l₁, x, l₂, e, h1, h2, h3, h4⟩ := cubic_nearest_firstMin c p a
  refine ⟨x, by rw [e]; simp, h1, h2, ?_⟩
  intro y hy
  rw [e] at hy
  rw [h2]
  rcases List.mem_append.mp hy with h | h
  · exact (h3 y h).le
  · rcases List.mem_cons.mp h with rfl | h
    · exact le_refl _
    · exact h4 y h
end lawful

/-! ### what is assumed of the cubic solver -/

/-- the critical-point polynomial `c0 + c1 x + c2 x² + c3 x³` of `QuadBez::nearest` -/
def quadCritPoly {K : Type} [Field K] [Scalar K] (q : QuadBez K) (p : Point K) (x : K) : K :=
  (quadNearestCoeffs q p).1 + (quadNearestCoeffs q p).2.1 * x + (quadNearestCoeffs q p).2.2.1 * x ^ 2
    + (quadNearestCoeffs q p).2.2.2 * x ^ 3

/-- all four coefficients vanish (exactly when `p0 = p1 = p2`) -/
def quadCoeffsAllZero {K : Type} [Field K] [Scalar K] (q : QuadBez K) (p : Point K) : Prop :=
  (quadNearestCoeffs q p).1 = 0 ∧ (quadNearestCoeffs q p).2.1 = 0 ∧ (quadNearestCoeffs q p).2.2.1 = 0 ∧
    (quadNearestCoeffs q p).2.2.2 = 0

/-- what `QuadBez::nearest` needs from `solve_cubic` for this query: unless the polynomial is identically zero the
    returned list contains exactly its real roots (multiplicity and order are irrelevant) -/
def QuadRootsExact {K : Type} [Field K] [Scalar K] (q : QuadBez K) (p : Point K) : Prop :=
  ¬ quadCoeffsAllZero q p → ∀ x, x ∈ quadNearestRoots q p ↔ quadCritPoly q p x = 0

/-- specification of `solveCubic` as a real-root finder -/
structure CubicSolverSpec (K : Type) [Field K] [Scalar K] : Prop where
  roots_iff : ∀ c0 c1 c2 c3 : K, ¬ (c0 = 0 ∧ c1 = 0 ∧ c2 = 0 ∧ c3 = 0) →
    ∀ x, x ∈ solveCubic c0 c1 c2 c3 ↔ c0 + c1 * x + c2 * x ^ 2 + c3 * x ^ 3 = 0

theorem CubicSolverSpec.quadRootsExact {K : Type} [Field K] [Scalar K] (h : CubicSolverSpec K)
    (q : QuadBez K) (p : Point K) : QuadRootsExact q p := by
  intro hnz x
  exact h.roots_iff _ _ _ _ hnz x




/-! ### the cases of `solve_cubic` that are decided by field arithmetic alone -/
section solver
variable {K : Type} [Field K] [LinearOrder K] [IsStrictOrderedRing K] [FloorRing K] [Scalar K] [LawfulScalar K]

/-- the all-zero polynomial: `solve_cubic(0,0,0,0)` falls through `solve_quadratic(0,0,0)` and returns `[0]` -/
theorem solveCubic_zero : solveCubic (0 : K) 0 0 0 = [0] := by
  unfold solveCubic solveQuadratic
  simp [scalar_norm]

/-- the linear case: `solve_cubic(c0,c1,0,0) = [-c0/c1]` -/
theorem solveCubic_linear (c0 c1 : K) (h : c1 ≠ 0) : solveCubic c0 c1 0 0 = [-c0 / c1] := by
  unfold solveCubic solveQuadratic
  simp [scalar_norm, h]
/-- for an affinely parametrised segment (`p1` the midpoint of `p0 p2`; includes the one-point quadratic) the solver
    hypothesis holds outright: the critical polynomial is linear and `solve_cubic` divides exactly -/
theorem quadRootsExact_of_affine (q : QuadBez K) (p : Point K)
    (hx : q.p0.x + q.p2.x = 2 * q.p1.x) (hy : q.p0.y + q.p2.y = 2 * q.p1.y) : QuadRootsExact q p := by
  intro hnz x
  have h3 : (quadNearestCoeffs q p).2.2.2 = 0 := by
    rw [quadNearestCoeffs_eq]; simp only; rw [hx, hy]; ring
  have h2 : (quadNearestCoeffs q p).2.2.1 = 0 := by
    rw [quadNearestCoeffs_eq]; simp only; rw [hx, hy]; ring
  have h1 : (quadNearestCoeffs q p).2.1 ≠ 0 := by
    rcases quadCoeffs_sign q p with h | h | h
    · rw [h3] at h; exact absurd h (lt_irrefl _)
    · exact h.2.2.ne'
    · exact absurd h hnz
  unfold quadNearestRoots quadCritPoly
  simp only
  rw [h2, h3, solveCubic_linear _ _ h1]
  simp only [List.mem_singleton]
  constructor
  · rintro rfl; field_simp; ring
  · intro h; field_simp; linarith
/-- `to_quads` is exact on a cubic of degree ≤ 2 (vanishing third difference), whatever the number of pieces -/
theorem toQuadsPiece_exact_of_quadratic (c : CubicBez K)
    (hx : c.p3.x - 3 * c.p2.x + 3 * c.p1.x - c.p0.x = 0) (hy : c.p3.y - 3 * c.p2.y + 3 * c.p1.y - c.p0.y = 0)
    (n i : Nat) (s : K) :
    (toQuadsPiece c n i).2.2.eval s
      = c.eval ((toQuadsPiece c n i).1 + s * ((toQuadsPiece c n i).2.1 - (toQuadsPiece c n i).1)) := by
  unfold toQuadsPiece
  simp only [kdefs, scalar_norm, Point.mk.injEq]
  generalize (natK i : K) / natK n = t0
  generalize (natK (i + 1) : K) / natK n = t1
  push_cast
  constructor
  · linear_combination (-((t1 - t0) ^ 3 * s * (1 - s) * (1 - 2 * s) / 2)) * hx
  · linear_combination (-((t1 - t0) ^ 3 * s * (1 - s) * (1 - 2 * s) / 2)) * hy

end solver

end Kurbo.C09
