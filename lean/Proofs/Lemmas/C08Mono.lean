import Proofs.Lemmas.C08Real
import Mathlib.Analysis.Calculus.Deriv.MeanValue
import Mathlib.Topology.Order.IntermediateValue
import Mathlib.Topology.Order.DenselyOrdered
/-! C08 helpers: between two consecutive extrema each coordinate is monotone. -/
set_option linter.unusedSectionVars false
namespace Kurbo

/-- a function whose (continuous) derivative has no zero inside `(a,b)`, or vanishes identically, is monotone or
    antitone on `[a,b]` -/
theorem monoOn_or_antiOn {f f' : ℝ → ℝ} (hf : ∀ t, HasDerivAt f (f' t) t) (hc : Continuous f') (a b : ℝ)
    (h : (∀ u, f' u = 0) ∨ ∀ u, a < u → u < b → f' u ≠ 0) :
    MonotoneOn f (Set.Icc a b) ∨ AntitoneOn f (Set.Icc a b) := by
  have hcont : ContinuousOn f (Set.Icc a b) := fun t _ => (hf t).continuousAt.continuousWithinAt
  have hdiff : DifferentiableOn ℝ f (interior (Set.Icc a b)) :=
    fun t _ => (hf t).differentiableAt.differentiableWithinAt
  have hconv : Convex ℝ (Set.Icc a b) := convex_Icc a b
  rcases h with h | h
  · left
    refine monotoneOn_of_deriv_nonneg hconv hcont hdiff ?_
    intro x _; rw [(hf x).deriv, h x]
  by_cases hneg : ∃ u, a < u ∧ u < b ∧ f' u < 0
  · right
    obtain ⟨u, hau, hub, hu⟩ := hneg
    refine antitoneOn_of_deriv_nonpos hconv hcont hdiff ?_
    intro x hx
    rw [interior_Icc] at hx
    rw [(hf x).deriv]
    by_contra hpos
    have hpos : 0 < f' x := not_le.mp hpos
    have hsub : Set.uIcc u x ⊆ Set.Ioo a b :=
      Set.OrdConnected.uIcc_subset Set.ordConnected_Ioo ⟨hau, hub⟩ hx
    have hmem : (0 : ℝ) ∈ Set.uIcc (f' u) (f' x) := by
      rw [Set.uIcc_of_le (hu.le.trans hpos.le)]; exact ⟨hu.le, hpos.le⟩
    obtain ⟨w, hw, hw0⟩ := intermediate_value_uIcc hc.continuousOn hmem
    exact h w (hsub hw).1 (hsub hw).2 hw0
  · left
    refine monotoneOn_of_deriv_nonneg hconv hcont hdiff ?_
    intro x hx
    rw [interior_Icc] at hx
    rw [(hf x).deriv]
    by_contra hlt
    exact hneg ⟨x, hx.1, hx.2, not_le.mp hlt⟩

section lawful
variable {K : Type} [Field K] [LinearOrder K] [IsStrictOrderedRing K] [FloorRing K] [Scalar K] [LawfulScalar K]

/-- no listed parameter lies strictly inside a range -/
theorem extremaRangesFrom_gap (t0 : K) (ts : List K) (h0 : ∀ t ∈ ts, t0 ≤ t) (hs : ts.Pairwise (· ≤ ·)) :
    ∀ r ∈ extremaRangesFrom t0 ts, t0 ≤ r.start ∧ ∀ t ∈ ts, ¬ (r.start < t ∧ t < r.«end») := by
  induction ts generalizing t0 with
  | nil => intro r hr; simp only [extremaRangesFrom, List.mem_singleton] at hr; subst hr; simp
  | cons u us ih =>
    intro r hr
    rw [List.pairwise_cons] at hs
    simp only [extremaRangesFrom, List.mem_cons] at hr
    rcases hr with rfl | hr
    · refine ⟨le_rfl, ?_⟩
      intro t ht ⟨_, h2⟩
      rcases List.mem_cons.mp ht with rfl | ht
      · exact lt_irrefl _ h2
      · exact absurd (hs.1 t ht) (not_le.mpr h2)
    · obtain ⟨ha, hb⟩ := ih u hs.1 hs.2 r hr
      refine ⟨(h0 u (by simp)).trans ha, ?_⟩
      intro t ht ⟨h1, h2⟩
      rcases List.mem_cons.mp ht with rfl | ht
      · exact absurd ha (not_le.mpr h1)
      · exact hb t ht ⟨h1, h2⟩

theorem seg_extrema_ranges_eq (s : PathSeg K) : s.extrema_ranges = extremaRangesFrom 0 s.extrema := by
  unfold PathSeg.extrema_ranges
  simp only [scalar_norm]; push_cast; rfl

theorem seg_extrema_sorted (s : PathSeg K) : s.extrema.Pairwise (· ≤ ·) := by
  cases s with
  | Line l => simp [PathSeg.extrema]
  | Quad q => exact (quad_extrema_facts q).2.1
  | Cubic c => simp only [PathSeg.extrema]; rw [cubic_extrema_eq]; exact sortList_sorted _

end lawful

section real
variable [Scalar ℝ] [LawfulScalar ℝ]

theorem line_hasDerivAt (l : Line ℝ) (t : ℝ) :
    HasDerivAt (fun t => (l.eval t).x) (l.p1.x - l.p0.x) t ∧
    HasDerivAt (fun t => (l.eval t).y) (l.p1.y - l.p0.y) t := by
  constructor
  · have h := hasDerivAt_poly3 l.p0.x (l.p1.x - l.p0.x) 0 0 t
    have e1 : (fun t => (l.eval t).x) = fun x : ℝ => l.p0.x + (l.p1.x - l.p0.x) * x + 0 * x ^ 2 + 0 * x ^ 3 := by
      funext x; rw [(line_eval_bern l x).1]; ring
    have e2 : (l.p1.x - l.p0.x) + 0 * (2 * t) + 0 * (3 * t ^ 2) = l.p1.x - l.p0.x := by ring
    rw [e2] at h; rw [e1]; exact h
  · have h := hasDerivAt_poly3 l.p0.y (l.p1.y - l.p0.y) 0 0 t
    have e1 : (fun t => (l.eval t).y) = fun x : ℝ => l.p0.y + (l.p1.y - l.p0.y) * x + 0 * x ^ 2 + 0 * x ^ 3 := by
      funext x; rw [(line_eval_bern l x).2]; ring
    have e2 : (l.p1.y - l.p0.y) + 0 * (2 * t) + 0 * (3 * t ^ 2) = l.p1.y - l.p0.y := by ring
    rw [e2] at h; rw [e1]; exact h

theorem quad_deriv_continuous (q : QuadBez ℝ) :
    Continuous (fun t => (q.deriv.eval t).x) ∧ Continuous (fun t => (q.deriv.eval t).y) := by
  constructor
  · have e : (fun t => (q.deriv.eval t).x) = fun t : ℝ =>
        2 * ((q.p1.x - q.p0.x) + t * (q.p2.x - q.p1.x - (q.p1.x - q.p0.x))) := by
      funext t; exact (quad_deriv_eval q t).1
    rw [e]; fun_prop
  · have e : (fun t => (q.deriv.eval t).y) = fun t : ℝ =>
        2 * ((q.p1.y - q.p0.y) + t * (q.p2.y - q.p1.y - (q.p1.y - q.p0.y))) := by
      funext t; exact (quad_deriv_eval q t).2
    rw [e]; fun_prop

theorem cubic_deriv_continuous (c : CubicBez ℝ) :
    Continuous (fun t => (c.deriv.eval t).x) ∧ Continuous (fun t => (c.deriv.eval t).y) := by
  constructor
  · have e : (fun t => (c.deriv.eval t).x) = fun t : ℝ =>
        3 * ((c.p1.x - c.p0.x) + 2 * ((c.p2.x - c.p1.x) - (c.p1.x - c.p0.x)) * t
          + ((c.p1.x - c.p0.x) - 2 * (c.p2.x - c.p1.x) + (c.p3.x - c.p2.x)) * t ^ 2) := by
      funext t; exact (cubic_deriv_eval c t).1
    rw [e]; fun_prop
  · have e : (fun t => (c.deriv.eval t).y) = fun t : ℝ =>
        3 * ((c.p1.y - c.p0.y) + 2 * ((c.p2.y - c.p1.y) - (c.p1.y - c.p0.y)) * t
          + ((c.p1.y - c.p0.y) - 2 * (c.p2.y - c.p1.y) + (c.p3.y - c.p2.y)) * t ^ 2) := by
      funext t; exact (cubic_deriv_eval c t).2
    rw [e]; fun_prop

/-- generic form: a coordinate whose interior critical parameters are all listed (or whose velocity vanishes
    identically) is monotone or antitone on every range between consecutive listed parameters -/
theorem ranges_mono_aux {f f' : ℝ → ℝ} (hf : ∀ t, HasDerivAt f (f' t) t) (hc : Continuous f') (ts : List ℝ)
    (hunit : ∀ t ∈ ts, 0 < t ∧ t < 1) (hs : ts.Pairwise (· ≤ ·))
    (hcrit : ∀ t, 0 < t → t < 1 → f' t = 0 → t ∈ ts ∨ ∀ u, f' u = 0) :
    ∀ r ∈ extremaRangesFrom 0 ts,
      MonotoneOn f (Set.Icc r.start r.«end») ∨ AntitoneOn f (Set.Icc r.start r.«end») := by
  intro r hr
  obtain ⟨ha, hgap⟩ := extremaRangesFrom_gap 0 ts (fun t ht => (hunit t ht).1.le) hs r hr
  have hord := extremaRangesFrom_ordered 0 ts (fun t ht => (hunit t ht).1.le) zero_le_one hs
    (fun t ht => (hunit t ht).2.le) r hr
  apply monoOn_or_antiOn hf hc
  by_cases hall : ∀ u, f' u = 0
  · exact Or.inl hall
  · right
    intro u hau hub hz
    rcases hcrit u (lt_of_le_of_lt ha hau) (lt_of_lt_of_le hub hord.2.2) hz with h | h
    · exact hgap u h ⟨hau, hub⟩
    · exact hall h

end real
end Kurbo
