import Proofs.KDefs
import Proofs.Lemmas.C11Real
import Kurbo.EllipsePerimeter
import Mathlib.Algebra.BigOperators.Group.Finset.Basic
import Mathlib.Algebra.Order.BigOperators.Group.Finset
import Mathlib.Analysis.Real.Pi.Bounds
/-! Helper lemmas for C11E, part 2: the truncated Kummer series `kummer_elliptic_perimeter` and its remainder bound
    `kummer_elliptic_perimeter_range` as polynomials in `h = ((x−y)/(x+y))²`; the coefficients `binom(1/2, n)²`. -/
set_option linter.unusedSectionVars false
namespace Kurbo

section field
variable {K : Type} [Field K] [LinearOrder K] [IsStrictOrderedRing K] [FloorRing K] [Scalar K] [LawfulScalar K]

theorem powi7_eq (h : K) : powi7 h = h ^ 7 := by
  simp only [powi7, scalar_norm]; ring

/-- `h` of both Kummer functions -/
def kummerH (x y : K) : K := ((x - y) / (x + y)) ^ 2

theorem kummerH_symm (x y : K) : kummerH x y = kummerH y x := by
  unfold kummerH
  have : (x - y) / (x + y) = -((y - x) / (y + x)) := by rw [← neg_div, neg_sub, add_comm]
  rw [this, neg_sq]

theorem kummerH_nonneg (x y : K) : 0 ≤ kummerH x y := sq_nonneg _

theorem kummerH_self (r : K) : kummerH r r = 0 := by simp [kummerH]

theorem kummerH_scale (t x y : K) (ht : t ≠ 0) : kummerH (t * x) (t * y) = kummerH x y := by
  unfold kummerH
  rw [← mul_sub, ← mul_add, mul_div_mul_left _ _ ht]

/-- for radii of one sign, `h ≤ 1` -/
theorem kummerH_le_one {x y : K} (hx : 0 ≤ x) (hy : 0 ≤ y) : kummerH x y ≤ 1 := by
  unfold kummerH
  rcases eq_or_lt_of_le (add_nonneg hx hy) with h0 | hpos
  · rw [← h0]; simp
  · rw [div_pow, div_le_one (by positivity)]
    nlinarith [mul_nonneg hx hy]

theorem kummer_eq (x y : K) :
    kummerEllipticPerimeter (⟨x, y⟩ : Vec2 K) =
      (x + y) * ((Scalar.pi : K) * (1 + kummerH x y / 4 + kummerH x y ^ 2 / 64 + kummerH x y ^ 3 / 256
        + kummerH x y ^ 4 * (25 / 16384) + kummerH x y ^ 5 * (49 / 65536) + kummerH x y ^ 6 * (441 / 1048576))) := by
  simp only [kummerEllipticPerimeter, kummerH, scalar_norm]
  push_cast
  ring

theorem kummerRange_eq (x y : K) :
    kummerEllipticPerimeterRange (⟨x, y⟩ : Vec2 K) =
      (Scalar.pi : K) * (101416479131503 / 100000000000000000) * kummerH x y ^ 7 * (x + y) := by
  simp only [kummerEllipticPerimeterRange, binomSquaredRemainder, powi7_eq, kummerH, scalar_norm]
  push_cast
  ring

end field

/-! ### the coefficients `binom(1/2, n)²` of Kummer's series -/

/-- `binom(1/2, n)` -/
def halfChoose : ℕ → ℚ
  | 0 => 1
  | n + 1 => halfChoose n * ((1 / 2 - n) / (n + 1))

/-- `binom(1/2, n)²` -/
def kummerCoeff (n : ℕ) : ℚ := halfChoose n ^ 2

theorem kummerCoeff_nonneg (n : ℕ) : 0 ≤ kummerCoeff n := sq_nonneg _

theorem kummerCoeff_first :
    kummerCoeff 0 = 1 ∧ kummerCoeff 1 = 1 / 4 ∧ kummerCoeff 2 = 1 / 64 ∧ kummerCoeff 3 = 1 / 256 ∧
      kummerCoeff 4 = 25 / 16384 ∧ kummerCoeff 5 = 49 / 65536 ∧ kummerCoeff 6 = 441 / 1048576 := by
  simp only [kummerCoeff, halfChoose]
  norm_num

/-- the series truncated after `m` terms, `Σ_{n<m} binom(1/2,n)² hⁿ` -/
noncomputable def kummerPartial (h : ℝ) (m : ℕ) : ℝ := ∑ n ∈ Finset.range m, (kummerCoeff n : ℝ) * h ^ n

theorem kummerPartial_seven (h : ℝ) :
    kummerPartial h 7 = 1 + h / 4 + h ^ 2 / 64 + h ^ 3 / 256 + h ^ 4 * (25 / 16384) + h ^ 5 * (49 / 65536)
      + h ^ 6 * (441 / 1048576) := by
  obtain ⟨c0, c1, c2, c3, c4, c5, c6⟩ := kummerCoeff_first
  simp only [kummerPartial, Finset.sum_range_succ, Finset.sum_range_zero, c0, c1, c2, c3, c4, c5, c6]
  push_cast
  ring

/-- for `0 ≤ h ≤ 1` the terms from the 8th on are at most `h⁷` times their value at `h = 1` (this is where the factor
    `h.powi(7)` of the remainder bound comes from) -/
theorem kummerPartial_tail_le {h : ℝ} (h0 : 0 ≤ h) (h1 : h ≤ 1) (m : ℕ) :
    kummerPartial h (7 + m) - kummerPartial h 7 ≤ h ^ 7 * (kummerPartial 1 (7 + m) - kummerPartial 1 7) := by
  induction m with
  | zero => simp
  | succ m ih =>
    have e : 7 + (m + 1) = (7 + m) + 1 := by omega
    rw [e]
    unfold kummerPartial at ih ⊢
    rw [Finset.sum_range_succ, Finset.sum_range_succ (fun n => (kummerCoeff n : ℝ) * 1 ^ n)]
    have hc : (0 : ℝ) ≤ (kummerCoeff (7 + m) : ℝ) := by exact_mod_cast kummerCoeff_nonneg _
    have hp : h ^ (7 + m) ≤ h ^ 7 := by
      rw [pow_add]
      exact mul_le_of_le_one_right (pow_nonneg h0 7) (pow_le_one₀ h0 h1)
    have : (kummerCoeff (7 + m) : ℝ) * h ^ (7 + m) ≤ h ^ 7 * ((kummerCoeff (7 + m) : ℝ) * 1 ^ (7 + m)) := by
      rw [one_pow, mul_one, mul_comm (h ^ 7)]
      exact mul_le_mul_of_nonneg_left hp hc
    linarith

/-- the constant `BINOM_SQUARED_REMAINDER = 0.00101416479131503` is (just) above `4/π − Σ_{n<7} binom(1/2,n)²`
    (`= 0.00101416479131502990…`; needs `π` to 20 digits) -/
theorem binomSquaredRemainder_ge :
    4 / Real.pi - kummerPartial 1 7 ≤ 101416479131503 / 100000000000000000 := by
  rw [kummerPartial_seven]
  have hpi := Real.pi_gt_d20
  have hpos : 0 < Real.pi := Real.pi_pos
  rw [sub_le_iff_le_add, div_le_iff₀ hpos]
  norm_num at hpi ⊢
  linarith

end Kurbo
