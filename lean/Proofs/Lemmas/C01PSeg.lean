import Proofs.Glue
import Proofs.C08
import Proofs.C06
import Proofs.Lemmas.C01PSpec
/-! C01P helpers: the model's `winding_inner` / `winding` against the specification `Ray.rayCross`
    (`Proofs/Lemmas/C01PSpec.lean`). -/
set_option linter.unusedSectionVars false
set_option linter.unusedVariables false
set_option linter.unusedSimpArgs false
namespace Kurbo
open Set Ray

/-! ### analysis: between critical parameters a function is strictly monotone, strictly antitone or constant -/

theorem strict_or_const {f f' : ℝ → ℝ} (hf : ∀ t, HasDerivAt f (f' t) t) (hc : Continuous f') (a b : ℝ)
    (h : (∀ u, f' u = 0) ∨ ∀ u, a < u → u < b → f' u ≠ 0) :
    StrictMonoOn f (Icc a b) ∨ StrictAntiOn f (Icc a b) ∨ ∀ t ∈ Icc a b, f t = f a := by
  have hcont : ContinuousOn f (Icc a b) := fun t _ => (hf t).continuousAt.continuousWithinAt
  have hconv : Convex ℝ (Icc a b) := convex_Icc a b
  rcases h with h | h
  · right; right
    intro t _
    have hd : Differentiable ℝ f := fun t => (hf t).differentiableAt
    exact is_const_of_deriv_eq_zero hd (fun x => by rw [(hf x).deriv, h x]) t a
  by_cases hneg : ∃ u, a < u ∧ u < b ∧ f' u < 0
  · right; left
    obtain ⟨u, hau, hub, hu⟩ := hneg
    refine strictAntiOn_of_deriv_neg hconv hcont ?_
    intro x hx
    rw [interior_Icc] at hx
    rw [(hf x).deriv]
    by_contra hpos
    have hpos : 0 ≤ f' x := not_lt.mp hpos
    have hsub : uIcc u x ⊆ Ioo a b := OrdConnected.uIcc_subset ordConnected_Ioo ⟨hau, hub⟩ hx
    have hmem : (0 : ℝ) ∈ uIcc (f' u) (f' x) := by
      rw [uIcc_of_le (hu.le.trans hpos)]; exact ⟨hu.le, hpos⟩
    obtain ⟨w, hw, hw0⟩ := intermediate_value_uIcc hc.continuousOn hmem
    exact h w (hsub hw).1 (hsub hw).2 hw0
  · left
    refine strictMonoOn_of_deriv_pos hconv hcont ?_
    intro x hx
    rw [interior_Icc] at hx
    rw [(hf x).deriv]
    rcases lt_trichotomy (f' x) 0 with hlt | heq | hgt
    · exact absurd ⟨x, hx.1, hx.2, hlt⟩ hneg
    · exact absurd heq (h x hx.1 hx.2)
    · exact hgt

section real
variable [Scalar ℝ] [LawfulScalar ℝ]

/-- the velocity in `y` of a segment -/
noncomputable def ydot : PathSeg ℝ → ℝ → ℝ
  | .Line l => fun _ => l.p1.y - l.p0.y
  | .Quad q => fun t => (q.deriv.eval t).y
  | .Cubic c => fun t => (c.deriv.eval t).y

theorem seg_y_hasDerivAt (s : PathSeg ℝ) (t : ℝ) : HasDerivAt (fun t => (s.eval t).y) (ydot s t) t := by
  cases s with
  | Line l => exact (line_hasDerivAt l t).2
  | Quad q => exact (quad_deriv_hasDerivAt q t).2
  | Cubic c => exact (cubic_deriv_hasDerivAt c t).2

theorem seg_ydot_continuous (s : PathSeg ℝ) : Continuous (ydot s) := by
  cases s with
  | Line l => exact continuous_const
  | Quad q => exact (quad_deriv_continuous q).2
  | Cubic c => exact (cubic_deriv_continuous c).2

theorem seg_y_continuousOn (s : PathSeg ℝ) (a b : ℝ) : ContinuousOn (fun t => (s.eval t).y) (Icc a b) :=
  fun t _ => (seg_y_hasDerivAt s t).continuousAt.continuousWithinAt

theorem seg_eval_zero_one (s : PathSeg ℝ) : s.eval 0 = s.start ∧ s.eval 1 = s.end := by
  cases s with
  | Line l => exact line_eval_zero_one l
  | Quad q => exact quad_eval_zero_one q
  | Cubic c => exact cubic_eval_zero_one c

/-- every interior critical parameter of `y` is a listed extremum, or `y` is constant -/
theorem seg_crit_y [LawfulReal] (s : PathSeg ℝ) (t : ℝ) (h0 : 0 < t) (h1 : t < 1) (hz : ydot s t = 0) :
    t ∈ s.extrema ∨ ∀ u, ydot s u = 0 := by
  cases s with
  | Line l => exact Or.inr fun _ => hz
  | Quad q => exact quad_crit_y q t h0 h1 hz
  | Cubic c => exact cubic_crit_y quadSolverSpec_real c t h0 h1 hz

/-- **the pieces the code sums over are y-monotone**: on every range of `extrema_ranges` the ordinate is strictly
    increasing, strictly decreasing or constant, and the range is ordered -/
theorem seg_ranges_strict [LawfulReal] (s : PathSeg ℝ) :
    ∀ r ∈ s.extrema_ranges, r.start ≤ r.«end» ∧
      (StrictMonoOn (fun t => (s.eval t).y) (Icc r.start r.«end») ∨
       StrictAntiOn (fun t => (s.eval t).y) (Icc r.start r.«end») ∨
       ∀ t ∈ Icc r.start r.«end», (s.eval t).y = (s.eval r.start).y) := by
  intro r hr
  obtain ⟨-, -, -, hord, hgap⟩ := seg_extrema_ranges_tile s
  refine ⟨(hord r hr).2.1, ?_⟩
  apply strict_or_const (seg_y_hasDerivAt s) (seg_ydot_continuous s)
  by_cases hall : ∀ u, ydot s u = 0
  · exact Or.inl hall
  · right
    intro u hau hub hz
    rcases seg_crit_y s u (lt_of_le_of_lt (hord r hr).1 hau) (lt_of_lt_of_le hub (hord r hr).2.2) hz with h | h
    · exact hgap r hr u h ⟨hau, hub⟩
    · exact hall h

/-! ### `winding_inner` on a segment that traces a y-monotone piece -/

/-- transfer lemma: `g` traces `f|[a,b]` (`g u = f (a + u·(b − a))`), `W` is a number known to be `0` off the row of
    the end points of `g` and to be `rowSign · [x(tS) ≤ p.x]` when `g` is y-injective with crossing parameter `tS`;
    then `W` is the closed form `pieceCross f p a b` -/
theorem piece_transfer (f g : ℝ → Point ℝ) (p : Point ℝ) (a b : ℝ) (W : ℤ)
    (hg : ∀ u, g u = f (a + u * (b - a))) (hab : a ≤ b)
    (hcont : ContinuousOn (fun t => (f t).y) (Icc a b))
    (hm : StrictMonoOn (fun t => (f t).y) (Icc a b) ∨ StrictAntiOn (fun t => (f t).y) (Icc a b) ∨
      ∀ t ∈ Icc a b, (f t).y = (f a).y)
    (hoff : ¬ ((g 0).y ≤ p.y ∧ p.y < (g 1).y) → ¬ ((g 1).y ≤ p.y ∧ p.y < (g 0).y) → W = 0)
    (hon : ∀ tS, InjOn (fun t => (g t).y) (Icc 0 1) → 0 ≤ tS → tS ≤ 1 → (g tS).y = p.y →
      W = rowSign (g 0).y (g 1).y p.y * (if (g tS).x ≤ p.x then 1 else 0)) :
    W = pieceCross f p a b := by
  have g0 : g 0 = f a := by rw [hg]; congr 1; ring
  have g1 : g 1 = f b := by rw [hg]; congr 1; ring
  rw [g0, g1] at hoff
  by_cases hrow : ((f a).y ≤ p.y ∧ p.y < (f b).y) ∨ ((f b).y ≤ p.y ∧ p.y < (f a).y)
  · have hne : a < b := by
      rcases lt_or_eq_of_le hab with h | h
      · exact h
      · subst h; rcases hrow with h | h <;> linarith [h.1, h.2]
    have hinjf : InjOn (fun t => (f t).y) (Icc a b) := by
      rcases hm with h | h | h
      · exact h.injOn
      · exact h.injOn
      · have := h b ⟨hab, le_rfl⟩
        rcases hrow with h' | h' <;> linarith [h'.1, h'.2]
    obtain ⟨ts, hts, hys⟩ : ∃ ts ∈ Icc a b, (f ts).y = p.y := by
      rcases hrow with h | h
      · exact intermediate_value_Icc hab hcont ⟨h.1, h.2.le⟩
      · exact intermediate_value_Icc' hab hcont ⟨h.1, h.2.le⟩
    have hba : 0 < b - a := sub_pos.mpr hne
    have hgts : g ((ts - a) / (b - a)) = f ts := by
      rw [hg]; congr 1; field_simp; ring
    have hinjg : InjOn (fun t => (g t).y) (Icc 0 1) := by
      intro u hu v hv huv
      simp only [hg] at huv
      have := hinjf (show a + u * (b - a) ∈ Icc a b from ⟨by nlinarith [hu.1], by nlinarith [hu.2]⟩)
        (show a + v * (b - a) ∈ Icc a b from ⟨by nlinarith [hv.1], by nlinarith [hv.2]⟩) huv
      have : u * (b - a) = v * (b - a) := by linarith
      exact mul_right_cancel₀ hba.ne' this
    rw [hon ((ts - a) / (b - a)) hinjg (div_nonneg (by linarith [hts.1]) hba.le)
      ((div_le_one hba).mpr (by linarith [hts.2])) (by rw [hgts]; exact hys),
      pieceCross_at hinjf hts.1 hts.2 hys, g0, g1, hgts]
    rfl
  · rw [not_or] at hrow
    rw [hoff hrow.1 hrow.2, pieceCross_offRow hrow.1 hrow.2]

/-- the line branch on a y-injective line, in the `rowSign` form of the curved branches -/
theorem line_hon (l : Line ℝ) (p : Point ℝ) (tS : ℝ) (hy : (l.eval tS).y = p.y)
    (hinj : InjOn (fun t => (l.eval t).y) (Icc 0 1)) :
    PathSeg.winding_inner (.Line l) p
      = rowSign (l.eval 0).y (l.eval 1).y p.y * (if (l.eval tS).x ≤ p.x then 1 else 0) := by
  rw [windingInner_line_eq_kcr, (line_eval_zero_one l).1, (line_eval_zero_one l).2]
  have hy' : l.p0.y * (1 - tS) + l.p1.y * tS = p.y := by rw [← (line_eval_bern l tS).2]; exact hy
  have hx' : (l.eval tS).x = l.p0.x * (1 - tS) + l.p1.x * tS := (line_eval_bern l tS).1
  have key : ((l.eval tS).x - p.x) * (l.p1.y - l.p0.y)
      = (l.p0.x - p.x) * (l.p1.y - p.y) - (l.p0.y - p.y) * (l.p1.x - p.x) := by
    rw [hx', ← hy']; ring
  unfold kcr rowSign
  rcases lt_trichotomy l.p0.y l.p1.y with h | h | h
  · have hd : 0 < l.p1.y - l.p0.y := sub_pos.mpr h
    have hcr : (l.p0.x - p.x) * (l.p1.y - p.y) - (l.p0.y - p.y) * (l.p1.x - p.x) ≤ 0 ↔ (l.eval tS).x ≤ p.x := by
      rw [← key]
      constructor
      · intro hh; by_contra hc; push Not at hc; nlinarith
      · intro hh; nlinarith
    have h1 : l.p0.y - p.y < l.p1.y - p.y := by linarith
    have h2 : ¬ (l.p1.y ≤ p.y ∧ p.y < l.p0.y) := fun hh => by linarith [hh.1, hh.2]
    rw [if_pos h1]
    simp only [hcr]
    by_cases hrow : l.p0.y ≤ p.y ∧ p.y < l.p1.y
    · rw [if_pos hrow]
      by_cases hx : (l.eval tS).x ≤ p.x
      · rw [if_pos ⟨by linarith [hrow.1], by linarith [hrow.2], hx⟩, if_pos hx]; rfl
      · rw [if_neg (fun hh => hx hh.2.2), if_neg hx]; rfl
    · rw [if_neg hrow, if_neg h2, if_neg, zero_mul]
      rintro ⟨c1, c2, -⟩
      exact hrow ⟨by linarith, by linarith⟩
  · exfalso
    have e0 := (line_eval_zero_one l).1
    have e1 := (line_eval_zero_one l).2
    have := hinj (show (0 : ℝ) ∈ Icc (0 : ℝ) 1 from ⟨le_rfl, zero_le_one⟩)
      (show (1 : ℝ) ∈ Icc (0 : ℝ) 1 from ⟨zero_le_one, le_rfl⟩)
      (show (l.eval 0).y = (l.eval 1).y by rw [e0, e1, h])
    exact zero_ne_one this
  · have hd : l.p1.y - l.p0.y < 0 := sub_neg.mpr h
    have hcr : 0 ≤ (l.p0.x - p.x) * (l.p1.y - p.y) - (l.p0.y - p.y) * (l.p1.x - p.x) ↔ (l.eval tS).x ≤ p.x := by
      rw [← key]
      constructor
      · intro hh; by_contra hc; push Not at hc; nlinarith
      · intro hh; nlinarith
    have h1 : ¬ (l.p0.y - p.y < l.p1.y - p.y) := by linarith
    have h1' : l.p1.y - p.y < l.p0.y - p.y := by linarith
    have h2 : ¬ (l.p0.y ≤ p.y ∧ p.y < l.p1.y) := fun hh => by linarith [hh.1, hh.2]
    rw [if_neg h1, if_pos h1', if_neg h2]
    simp only [hcr]
    by_cases hrow : l.p1.y ≤ p.y ∧ p.y < l.p0.y
    · rw [if_pos hrow]
      by_cases hx : (l.eval tS).x ≤ p.x
      · rw [if_pos ⟨by linarith [hrow.1], by linarith [hrow.2], hx⟩, if_pos hx]; rfl
      · rw [if_neg (fun hh => hx hh.2.2), if_neg hx]; rfl
    · rw [if_neg hrow, if_neg, zero_mul]
      rintro ⟨c1, c2, -⟩
      exact hrow ⟨by linarith, by linarith⟩

/-- `winding_inner` on a y-injective segment of any kind (Glue: no solver hypothesis) -/
theorem seg_hon [LawfulReal] (s : PathSeg ℝ) (p : Point ℝ) (tS : ℝ)
    (hinj : InjOn (fun t => (s.eval t).y) (Icc 0 1)) (h0 : 0 ≤ tS) (h1 : tS ≤ 1) (hy : (s.eval tS).y = p.y) :
    s.winding_inner p = rowSign (s.eval 0).y (s.eval 1).y p.y * (if (s.eval tS).x ≤ p.x then 1 else 0) := by
  cases s with
  | Line l => exact line_hon l p tS hy hinj
  | Quad q =>
    have e := windingInner_quad_monotone_unconditional q p tS hinj h0 h1 hy
    rw [e]
    show _ = rowSign (q.eval 0).y (q.eval 1).y p.y * _
    rw [(quad_eval_zero_one q).1, (quad_eval_zero_one q).2]; rfl
  | Cubic c =>
    have e := windingInner_cubic_monotone_unconditional c p tS hinj h0 h1 hy
    rw [e]
    show _ = rowSign (c.eval 0).y (c.eval 1).y p.y * _
    rw [(cubic_eval_zero_one c).1, (cubic_eval_zero_one c).2]; rfl

/-- **one piece**: a segment `s'` that traces the y-monotone piece `[a,b]` of `s` contributes the closed form -/
theorem windingInner_trace [LawfulReal] (s s' : PathSeg ℝ) (p : Point ℝ) (a b : ℝ)
    (hg : ∀ u, s'.eval u = s.eval (a + u * (b - a))) (hab : a ≤ b)
    (hm : StrictMonoOn (fun t => (s.eval t).y) (Icc a b) ∨ StrictAntiOn (fun t => (s.eval t).y) (Icc a b) ∨
      ∀ t ∈ Icc a b, (s.eval t).y = (s.eval a).y) :
    s'.winding_inner p = pieceCross (fun t => s.eval t) p a b := by
  refine piece_transfer (fun t => s.eval t) (fun t => s'.eval t) p a b _ hg hab (seg_y_continuousOn s a b) hm ?_ ?_
  · intro h1 h2
    simp only [(seg_eval_zero_one s').1, (seg_eval_zero_one s').2] at h1 h2
    exact windingInner_offRow s' p h1 h2
  · intro tS hinj h0 h1 hy
    exact seg_hon s' p tS hinj h0 h1 hy

theorem windingInner_sub_eq_pieceCross [LawfulReal] (s : PathSeg ℝ) (p : Point ℝ) (a b : ℝ) (hab : a ≤ b)
    (hm : StrictMonoOn (fun t => (s.eval t).y) (Icc a b) ∨ StrictAntiOn (fun t => (s.eval t).y) (Icc a b) ∨
      ∀ t ∈ Icc a b, (s.eval t).y = (s.eval a).y) :
    (s.subsegment ⟨a, b⟩).winding_inner p = pieceCross (fun t => s.eval t) p a b :=
  windingInner_trace s _ p a b (fun u => pathSeg_subsegment_eval s a b u) hab hm

/-! ### summing the pieces -/

theorem sum_ranges (F : Range ℝ → ℤ) (f : ℝ → Point ℝ) (p : Point ℝ) (t0 : ℝ) (ts : List ℝ)
    (h0 : ∀ t ∈ ts, t0 ≤ t) (h01 : t0 ≤ 1) (hs : ts.Pairwise (· ≤ ·)) (h1 : ∀ t ∈ ts, t ≤ 1)
    (hF : ∀ r ∈ extremaRangesFrom t0 ts, FinCross f p r.start r.«end» ∧ F r = rayCross f p r.start r.«end») :
    FinCross f p t0 1 ∧ ((extremaRangesFrom t0 ts).map F).sum = rayCross f p t0 1 := by
  induction ts generalizing t0 with
  | nil =>
    have e : extremaRangesFrom t0 ([] : List ℝ) = [⟨t0, 1⟩] := by
      simp only [extremaRangesFrom, scalar_norm]; push_cast; rfl
    rw [e] at hF ⊢
    have := hF ⟨t0, 1⟩ (by simp)
    simp only [List.map_cons, List.map_nil, List.sum_cons, List.sum_nil, add_zero]
    exact this
  | cons t ts ih =>
    rw [List.pairwise_cons] at hs
    have e : extremaRangesFrom t0 (t :: ts) = ⟨t0, t⟩ :: extremaRangesFrom t ts := rfl
    rw [e] at hF ⊢
    have ht1 : t ≤ 1 := h1 t (by simp)
    obtain ⟨f2, s2⟩ := ih t hs.1 ht1 hs.2 (fun u hu => h1 u (by simp [hu]))
      (fun r hr => hF r (List.mem_cons_of_mem _ hr))
    obtain ⟨f1, s1⟩ := hF ⟨t0, t⟩ (by simp)
    obtain ⟨f3, s3⟩ := rayCross_add (h0 t (by simp)) ht1 f1 f2
    refine ⟨f3, ?_⟩
    rw [List.map_cons, List.sum_cons, s2, s1, s3]

/-- the specification for one segment: the ray-crossing count of its own `eval` over `[0,1]` -/
noncomputable def segCross (s : PathSeg ℝ) (p : Point ℝ) : ℤ := rayCross (fun t => s.eval t) p 0 1

/-- **whole segment**: `winding` is the ray-crossing count (and the crossing parameters are finitely many) -/
theorem winding_eq_segCross_aux [LawfulReal] (s : PathSeg ℝ) (p : Point ℝ) :
    FinCross (fun t => s.eval t) p 0 1 ∧ s.winding p = segCross s p := by
  have hpieces : ∀ r ∈ extremaRangesFrom 0 s.extrema,
      FinCross (fun t => s.eval t) p r.start r.«end» ∧
      (s.subsegment r).winding_inner p = rayCross (fun t => s.eval t) p r.start r.«end» := by
    intro r hr
    rw [← seg_extrema_ranges_eq] at hr
    obtain ⟨hord, hm⟩ := seg_ranges_strict s r hr
    obtain ⟨hfin, hray⟩ := rayCross_piece (f := fun t => s.eval t) (p := p) hord (seg_y_continuousOn s _ _) hm
    refine ⟨hfin, ?_⟩
    rw [hray]
    exact windingInner_sub_eq_pieceCross s p r.start r.«end» hord hm
  obtain ⟨hfin, hsum⟩ := sum_ranges (fun r => (s.subsegment r).winding_inner p) (fun t => s.eval t) p 0 s.extrema
    (fun t ht => (seg_extrema_unit s t ht).1.le) zero_le_one (seg_extrema_sorted s)
    (fun t ht => (seg_extrema_unit s t ht).2.le) hpieces
  refine ⟨hfin, ?_⟩
  unfold segCross
  rw [← hsum]
  cases s with
  | Line l =>
    -- a line has no extrema: one range `[0,1]`, and `subsegment ⟨0,1⟩` traces the line itself
    have hm := (seg_ranges_strict (.Line l) ⟨0, 1⟩ (by
      rw [seg_extrema_ranges_eq]; simp only [PathSeg.extrema, extremaRangesFrom, scalar_norm]; push_cast; simp)).2
    have e : extremaRangesFrom 0 (PathSeg.Line l).extrema = [⟨0, 1⟩] := by
      simp only [PathSeg.extrema, extremaRangesFrom, scalar_norm]; push_cast; rfl
    rw [e]
    simp only [List.map_cons, List.map_nil, List.sum_cons, List.sum_nil, add_zero]
    rw [windingInner_sub_eq_pieceCross (.Line l) p 0 1 zero_le_one hm]
    exact windingInner_trace (.Line l) (.Line l) p 0 1 (fun u => by congr 1; ring) zero_le_one hm
  | Quad q => rw [winding_eq_sum_pieces _ _ (by intro h; exact h), seg_extrema_ranges_eq]
  | Cubic c => rw [winding_eq_sum_pieces _ _ (by intro h; exact h), seg_extrema_ranges_eq]

end real
end Kurbo
