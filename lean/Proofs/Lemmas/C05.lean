import Kurbo.Flatten
import Mathlib.Data.List.Forall2
/-! Helper definitions and lemmas for C05 (flattening), structural part: no arithmetic law is used, every statement
    holds for an arbitrary `[Scalar K]` (in particular for `Float`). -/
set_option linter.unusedSectionVars false
namespace Kurbo
variable {K : Type} [Scalar K]

/-- the element kinds a flattened path may contain -/
def PathEl.isFlat : PathEl K → Bool
  | .MoveTo _ => true
  | .LineTo _ => true
  | .ClosePath => true
  | _ => false

def PathEl.isLineTo : PathEl K → Bool
  | .LineTo _ => true
  | _ => false

theorem PathEl.isFlat_of_isLineTo {e : PathEl K} (h : e.isLineTo = true) : e.isFlat = true := by
  cases e <;> simp_all [PathEl.isLineTo, PathEl.isFlat]

theorem PathEl.isLineTo_iff (e : PathEl K) : e.isLineTo = true ↔ ∃ p, e = .LineTo p := by
  cases e <;> simp [PathEl.isLineTo]

/-- the run emitted for one input element in state `st = (current point, sub-path start)` -/
def flattenRun (st : Option (Point K) × Option (Point K)) (el : PathEl K) (tol sqrt_tol : K) : List (PathEl K) :=
  match el with
  | .MoveTo p => [.MoveTo p]
  | .LineTo p => [.LineTo p]
  | .QuadTo p1 p2 =>
    match st.1 with
    | some p0 => flattenQuad ⟨p0, p1, p2⟩ sqrt_tol
    | none => []
  | .CurveTo p1 p2 p3 =>
    match st.1 with
    | some p0 => flattenCubic ⟨p0, p1, p2, p3⟩ tol sqrt_tol
    | none => []
  | .ClosePath => [.ClosePath]

/-- the state `(current point, sub-path start)` after one input element -/
def flattenState (st : Option (Point K) × Option (Point K)) (el : PathEl K) : Option (Point K) × Option (Point K) :=
  match el with
  | .MoveTo p => (some p, some p)
  | .LineTo p => (some p, st.2)
  | .QuadTo _ p2 => (some p2, st.2)
  | .CurveTo _ _ p3 => (some p3, st.2)
  | .ClosePath => (st.2, st.2)

/-- the state after a list of input elements -/
def flattenStateAfter (st : Option (Point K) × Option (Point K)) (els : List (PathEl K)) :
    Option (Point K) × Option (Point K) :=
  els.foldl flattenState st

/-- the runs of a list of input elements, one per element, from state `st` -/
def flattenRuns (st : Option (Point K) × Option (Point K)) (els : List (PathEl K)) (tol : K) :
    List (List (PathEl K)) :=
  match els with
  | [] => []
  | el :: rest => flattenRun st el tol (Scalar.sqrt tol) :: flattenRuns (flattenState st el) rest tol

/-- flattening continued from state `st` -/
def flattenFrom (st : Option (Point K) × Option (Point K)) (els : List (PathEl K)) (tol : K) : List (PathEl K) :=
  (flattenRuns st els tol).flatten

@[simp] theorem flattenStateAfter_nil (st : Option (Point K) × Option (Point K)) : flattenStateAfter st [] = st := rfl
@[simp] theorem flattenStateAfter_cons (st : Option (Point K) × Option (Point K)) (el : PathEl K) (els : List (PathEl K)) :
    flattenStateAfter st (el :: els) = flattenStateAfter (flattenState st el) els := rfl
theorem flattenStateAfter_append (st : Option (Point K) × Option (Point K)) (a b : List (PathEl K)) :
    flattenStateAfter st (a ++ b) = flattenStateAfter (flattenStateAfter st a) b := by
  simp [flattenStateAfter, List.foldl_append]

@[simp] theorem flattenRuns_nil (st : Option (Point K) × Option (Point K)) (tol : K) : flattenRuns st [] tol = [] := rfl
@[simp] theorem flattenRuns_cons (st : Option (Point K) × Option (Point K)) (el : PathEl K) (els : List (PathEl K)) (tol : K) :
    flattenRuns st (el :: els) tol = flattenRun st el tol (Scalar.sqrt tol) :: flattenRuns (flattenState st el) els tol := rfl

theorem flattenRuns_length (st : Option (Point K) × Option (Point K)) (els : List (PathEl K)) (tol : K) :
    (flattenRuns st els tol).length = els.length := by
  induction els generalizing st with
  | nil => rfl
  | cons el rest ih => simp [ih]

theorem flattenRuns_append (st : Option (Point K) × Option (Point K)) (a b : List (PathEl K)) (tol : K) :
    flattenRuns st (a ++ b) tol = flattenRuns st a tol ++ flattenRuns (flattenStateAfter st a) b tol := by
  induction a generalizing st with
  | nil => rfl
  | cons el rest ih => simp [ih]

theorem flattenRuns_getElem (st : Option (Point K) × Option (Point K)) (els : List (PathEl K)) (tol : K) (i : Nat)
    (hi : i < els.length) :
    (flattenRuns st els tol)[i]'(by rw [flattenRuns_length]; exact hi) =
      flattenRun (flattenStateAfter st (els.take i)) els[i] tol (Scalar.sqrt tol) := by
  induction els generalizing st i with
  | nil => simp at hi
  | cons el rest ih =>
    cases i with
    | zero => simp
    | succ j =>
      simp only [flattenRuns_cons, List.getElem_cons_succ, List.take_succ_cons, flattenStateAfter_cons]
      exact ih _ j (by simpa using hi)

/-- the fold of `flatten`, generalised over the accumulator -/
theorem flatten_fold_eq (els : List (PathEl K)) (tol : K) (l s : Option (Point K)) (out : List (PathEl K)) :
    (els.foldl (fun (acc : Option (Point K) × Option (Point K) × List (PathEl K)) el =>
      let (last_pt, start_pt, out) := acc
      match el with
      | .MoveTo p => (some p, some p, out ++ [.MoveTo p])
      | .LineTo p => (some p, start_pt, out ++ [.LineTo p])
      | .QuadTo p1 p2 =>
        match last_pt with
        | some p0 => (some p2, start_pt, out ++ flattenQuad ⟨p0, p1, p2⟩ (Scalar.sqrt tol))
        | none => (some p2, start_pt, out)
      | .CurveTo p1 p2 p3 =>
        match last_pt with
        | some p0 => (some p3, start_pt, out ++ flattenCubic ⟨p0, p1, p2, p3⟩ tol (Scalar.sqrt tol))
        | none => (some p3, start_pt, out)
      | .ClosePath => (start_pt, start_pt, out ++ [.ClosePath])) (l, s, out)).2.2
    = out ++ flattenFrom (l, s) els tol := by
  induction els generalizing l s out with
  | nil => simp [flattenFrom]
  | cons el rest ih =>
    rw [List.foldl_cons]
    cases el with
    | MoveTo p => simp only []; rw [ih]; simp [flattenFrom, flattenRun, flattenState]
    | LineTo p => simp only []; rw [ih]; simp [flattenFrom, flattenRun, flattenState]
    | QuadTo p1 p2 =>
      cases l with
      | none => simp only []; rw [ih]; simp [flattenFrom, flattenRun, flattenState]
      | some p0 => simp only []; rw [ih]; simp [flattenFrom, flattenRun, flattenState]
    | CurveTo p1 p2 p3 =>
      cases l with
      | none => simp only []; rw [ih]; simp [flattenFrom, flattenRun, flattenState]
      | some p0 => simp only []; rw [ih]; simp [flattenFrom, flattenRun, flattenState]
    | ClosePath => simp only []; rw [ih]; simp [flattenFrom, flattenRun, flattenState]

theorem flatten_eq_flattenFrom (els : List (PathEl K)) (tol : K) :
    flatten els tol = flattenFrom (none, none) els tol := by
  have h := flatten_fold_eq els tol none none []
  simp only [List.nil_append] at h
  rw [← h]
  rfl

/-! ### when is there no current point? -/

theorem flattenStateAfter_isSome (st : Option (Point K) × Option (Point K)) (els : List (PathEl K))
    (h1 : st.1.isSome = true) (h2 : st.2.isSome = true) :
    (flattenStateAfter st els).1.isSome = true ∧ (flattenStateAfter st els).2.isSome = true := by
  induction els generalizing st with
  | nil => exact ⟨h1, h2⟩
  | cons el rest ih =>
    rw [flattenStateAfter_cons]
    cases el <;> exact ih _ (by simp [flattenState, h2]) (by simp [flattenState, h2])

/-- after a prefix that contains a `MoveTo` there is a current point and a sub-path start -/
theorem flattenStateAfter_isSome_of_moveTo (st : Option (Point K) × Option (Point K)) (els : List (PathEl K))
    (p : Point K) (h : PathEl.MoveTo p ∈ els) :
    (flattenStateAfter st els).1.isSome = true ∧ (flattenStateAfter st els).2.isSome = true := by
  obtain ⟨a, b, rfl⟩ := List.append_of_mem h
  rw [flattenStateAfter_append, flattenStateAfter_cons]
  exact flattenStateAfter_isSome _ b rfl rfl

theorem flattenStateAfter_snd_of_no_moveTo (st : Option (Point K) × Option (Point K)) (els : List (PathEl K))
    (h : ∀ p, PathEl.MoveTo p ∉ els) : (flattenStateAfter st els).2 = st.2 := by
  induction els generalizing st with
  | nil => rfl
  | cons el rest ih =>
    rw [flattenStateAfter_cons, ih _ (fun p hp => h p (List.mem_cons_of_mem _ hp))]
    cases el with
    | MoveTo p => exact absurd List.mem_cons_self (h p)
    | _ => rfl

/-- after `ClosePath` the current point is the point of the last `MoveTo` (the start of the sub-path just closed) -/
theorem flattenStateAfter_close (st : Option (Point K) × Option (Point K)) (pre mid : List (PathEl K)) (p : Point K)
    (h : ∀ p', PathEl.MoveTo p' ∉ mid) :
    flattenStateAfter st (pre ++ PathEl.MoveTo p :: (mid ++ [PathEl.ClosePath])) = (some p, some p) := by
  rw [flattenStateAfter_append, flattenStateAfter_cons, flattenStateAfter_append]
  have := flattenStateAfter_snd_of_no_moveTo (some p, some p) mid h
  simp only [flattenStateAfter_cons, flattenStateAfter_nil, flattenState]
  rw [this]

/-! ### the run of a quadratic -/

open Ops in
/-- the number of lines emitted for a quadratic: `max 1 (⌈½·val/sqrt_tol⌉ as usize)` -/
def flattenQuadN (q : QuadBez K) (sqrt_tol : K) : Nat :=
  let n0 := Scalar.toUSize (Scalar.ceil ((Scalar.ofRat (1/2) : K) * (q.estimate_subdiv sqrt_tol).val / sqrt_tol))
  if n0 < 1 then 1 else n0

open Ops in
/-- the curve parameter of the `i`-th emitted vertex of a quadratic -/
def flattenQuadT (q : QuadBez K) (sqrt_tol : K) (i : Nat) : K :=
  q.determine_subdiv_t (q.estimate_subdiv sqrt_tol) (natK i * ((1 : K) / natK (flattenQuadN q sqrt_tol)))

theorem flattenQuadN_eq (q : QuadBez K) (sqrt_tol : K) :
    flattenQuadN q sqrt_tol = max 1 (Scalar.toUSize (Scalar.ceil
      (Scalar.div (Scalar.mul (Scalar.ofRat (1/2)) (q.estimate_subdiv sqrt_tol).val) sqrt_tol))) := by
  show (if Scalar.toUSize (Scalar.ceil
      (Scalar.div (Scalar.mul (Scalar.ofRat (1/2)) (q.estimate_subdiv sqrt_tol).val) sqrt_tol)) < 1 then 1 else _) = _
  generalize Scalar.toUSize (Scalar.ceil
      (Scalar.div (Scalar.mul (Scalar.ofRat (1/2)) (q.estimate_subdiv sqrt_tol).val) sqrt_tol)) = x
  split <;> omega

theorem flattenQuadN_pos (q : QuadBez K) (sqrt_tol : K) : 1 ≤ flattenQuadN q sqrt_tol := by
  rw [flattenQuadN_eq]; exact Nat.le_max_left _ _

theorem flattenQuadT_eq (q : QuadBez K) (sqrt_tol : K) (i : Nat) :
    flattenQuadT q sqrt_tol i = q.determine_subdiv_t (q.estimate_subdiv sqrt_tol)
      (Scalar.mul (natK i) (Scalar.div (Scalar.ofRat ((1 : Nat) : Rat)) (natK (flattenQuadN q sqrt_tol)))) := rfl

theorem flattenQuad_eq (q : QuadBez K) (sqrt_tol : K) :
    flattenQuad q sqrt_tol =
      ((List.range (flattenQuadN q sqrt_tol - 1)).map fun k => PathEl.LineTo (q.eval (flattenQuadT q sqrt_tol (k + 1))))
        ++ [PathEl.LineTo q.p2] := rfl

open Ops in
/-- the parabola abscissa of the start point (`x0` of `estimate_subdiv`) -/
def QuadBez.subdivX0 (q : QuadBez K) : K :=
  let d01 := q.p1 - q.p0
  let d12 := q.p2 - q.p1
  let dd := d01 - d12
  let cross := (q.p2 - q.p0).cross dd
  d01.dot dd * srecip cross

open Ops in
/-- the parabola abscissa of the end point (`x2` of `estimate_subdiv`) -/
def QuadBez.subdivX2 (q : QuadBez K) : K :=
  let d01 := q.p1 - q.p0
  let d12 := q.p2 - q.p1
  let dd := d01 - d12
  let cross := (q.p2 - q.p0).cross dd
  d12.dot dd * srecip cross

theorem estimate_subdiv_a0 (q : QuadBez K) (s : K) : (q.estimate_subdiv s).a0 = approxParabolaIntegral q.subdivX0 := rfl
theorem estimate_subdiv_a2 (q : QuadBez K) (s : K) : (q.estimate_subdiv s).a2 = approxParabolaIntegral q.subdivX2 := rfl

open Ops in
/-- the second difference `d01 − d12` of the control points -/
def QuadBez.subdivDD (q : QuadBez K) : Vec2 K := (q.p1 - q.p0) - (q.p2 - q.p1)

open Ops in
def QuadBez.subdivCross (q : QuadBez K) : K := (q.p2 - q.p0).cross q.subdivDD

open Ops in
def QuadBez.subdivDen (q : QuadBez K) : K := q.subdivDD.hypot * (q.subdivX2 - q.subdivX0)

open Ops in
def QuadBez.subdivScale (q : QuadBez K) : K := sabs (q.subdivCross / q.subdivDen)

open Ops in
/-- the field `val` of `estimate_subdiv`, in terms of the named intermediate quantities -/
theorem estimate_subdiv_val (q : QuadBez K) (s : K) :
    (q.estimate_subdiv s).val =
      if Scalar.finQuot q.subdivDen q.subdivScale then
        (if Scalar.signum q.subdivX0 ==. Scalar.signum q.subdivX2 then
          sabs (approxParabolaIntegral q.subdivX2 - approxParabolaIntegral q.subdivX0) * Scalar.sqrt q.subdivScale
        else
          s * sabs (approxParabolaIntegral q.subdivX2 - approxParabolaIntegral q.subdivX0) /
            approxParabolaIntegral (s / Scalar.sqrt q.subdivScale))
      else (0 : K) := rfl

/-! ### the run of a cubic -/

open Ops in
/-- `err` of `to_quads` -/
def toQuadsErr (c : CubicBez K) : K :=
  (((3 : K) * c.p2.to_vec2 - c.p3.to_vec2) - ((3 : K) * c.p1.to_vec2 - c.p0.to_vec2)).hypot2

open Ops in
/-- `max_hypot2` of `to_quads` -/
def toQuadsMax (accuracy : K) : K := (432 : K) * accuracy * accuracy

open Ops in
theorem toQuadsN_eq (c : CubicBez K) (accuracy : K) :
    toQuadsN c accuracy =
      if Scalar.toUSize (Scalar.ceil (Scalar.powf (toQuadsErr c / toQuadsMax accuracy) ((1 : K) / (6 : K)))) < 1 then 1
      else Scalar.toUSize (Scalar.ceil (Scalar.powf (toQuadsErr c / toQuadsMax accuracy) ((1 : K) / (6 : K)))) := rfl


open Ops in
/-- one pass of the `for (q, params) in &flatten_ctx` loop -/
def cubicStep (step : K) (n : Nat) (acc : Nat × K × List (PathEl K)) (qp : QuadBez K × FlattenParams K) :
    Nat × K × List (PathEl K) :=
  let (i, val_sum, out) := acc
  let (q, params) := qp
  let recip_val := srecip params.val
  let (i', out') := cubicWhile q params step n val_sum recip_val (n + 2) i out
  (i', val_sum + params.val, out')

open Ops in
def flattenCubicBuf (c : CubicBez K) (tolerance sqrt_tol : K) : List (QuadBez K × FlattenParams K) :=
  (c.to_quads (tolerance * (Scalar.ofRat toQuadTol : K))).map fun (_, _, q) =>
    (q, q.estimate_subdiv (sqrt_tol * Scalar.sqrt ((1 : K) - (Scalar.ofRat toQuadTol : K))))

open Ops in
def flattenCubicSum (c : CubicBez K) (tolerance sqrt_tol : K) : K :=
  (flattenCubicBuf c tolerance sqrt_tol).foldl (fun acc qp => acc + qp.2.val) (0 : K)

open Ops in
/-- the target number of lines for a cubic: `max 1 (⌈½·Σval/sqrt_remain_tol⌉ as usize)` -/
def flattenCubicN (c : CubicBez K) (tolerance sqrt_tol : K) : Nat :=
  let n0 := Scalar.toUSize (Scalar.ceil ((Scalar.ofRat (1/2) : K) * flattenCubicSum c tolerance sqrt_tol /
    (sqrt_tol * Scalar.sqrt ((1 : K) - (Scalar.ofRat toQuadTol : K)))))
  if n0 < 1 then 1 else n0

open Ops in
theorem flattenCubic_eq (c : CubicBez K) (tolerance sqrt_tol : K) :
    flattenCubic c tolerance sqrt_tol =
      ((flattenCubicBuf c tolerance sqrt_tol).foldl
        (cubicStep (flattenCubicSum c tolerance sqrt_tol / natK (flattenCubicN c tolerance sqrt_tol))
          (flattenCubicN c tolerance sqrt_tol)) (1, (0 : K), [])).2.2 ++ [PathEl.LineTo c.p3] := rfl

theorem flattenCubicN_pos (c : CubicBez K) (tolerance sqrt_tol : K) : 1 ≤ flattenCubicN c tolerance sqrt_tol := by
  unfold flattenCubicN; simp only []; split <;> omega

theorem flattenCubicBuf_length (c : CubicBez K) (tolerance sqrt_tol : K) :
    (flattenCubicBuf c tolerance sqrt_tol).length = (c.to_quads (Scalar.mul tolerance (Scalar.ofRat toQuadTol))).length := by
  unfold flattenCubicBuf; rw [List.length_map]; rfl

/-- the point emitted by the inner loop at index `i` -/
def cubicPt (q : QuadBez K) (params : FlattenParams K) (step vs rv : K) (i : Nat) : PathEl K :=
  PathEl.LineTo (q.eval (q.determine_subdiv_t params (Scalar.mul (Scalar.sub (Scalar.mul (natK i) step) vs) rv)))

theorem cubicWhile_succ (q : QuadBez K) (params : FlattenParams K) (step : K) (n : Nat) (vs rv : K)
    (fuel i : Nat) (out : List (PathEl K)) :
    cubicWhile q params step n vs rv (fuel + 1) i out =
      if Scalar.lt (Scalar.mul (natK i) step) (Scalar.add vs params.val) = true then
        (if (i + 1 == n + 1) = true then (i + 1, out ++ [cubicPt q params step vs rv i])
         else cubicWhile q params step n vs rv fuel (i + 1) (out ++ [cubicPt q params step vs rv i]))
      else (i, out) := rfl

/-- what the inner `while` loop does: it appends `extra` (at most `fuel` points, all on `q`) and advances `i` by their
    number; from `i ≤ n` it cannot pass `n + 1` -/
theorem cubicWhile_spec (q : QuadBez K) (params : FlattenParams K) (step : K) (n : Nat) (vs rv : K)
    (fuel i : Nat) (out : List (PathEl K)) :
    ∃ extra : List (PathEl K), cubicWhile q params step n vs rv fuel i out = (i + extra.length, out ++ extra) ∧
      extra.length ≤ fuel ∧ (∀ e ∈ extra, ∃ t, e = PathEl.LineTo (q.eval t)) ∧ (i ≤ n → i + extra.length ≤ n + 1) := by
  induction fuel generalizing i out with
  | zero => exact ⟨[], by simp [cubicWhile], by simp, by simp, by intro h; simp; omega⟩
  | succ fuel ih =>
    rw [cubicWhile_succ]
    split
    · split
      · rename_i h1 h2
        refine ⟨[cubicPt q params step vs rv i], rfl, by simp, ?_, ?_⟩
        · intro e he; simp at he; exact ⟨_, he⟩
        · intro hi; simpa using hi
      · rename_i h1 h2
        obtain ⟨extra, he, hlen, hall, hle⟩ := ih (i + 1) (out ++ [cubicPt q params step vs rv i])
        refine ⟨cubicPt q params step vs rv i :: extra, ?_, ?_, ?_, ?_⟩
        · rw [he]; simp; omega
        · simp; omega
        · intro e he'; simp at he'
          rcases he' with rfl | he'
          · exact ⟨_, rfl⟩
          · exact hall e he'
        · intro hi
          have : ¬ (i + 1 = n + 1) := by simpa using h2
          have := hle (by omega)
          simp; omega
    · exact ⟨[], by simp, by simp, by simp, by intro h; simp; omega⟩

/-- the outer `for` loop: one (possibly empty) group of points per quadratic, in order, each on its quadratic -/
theorem cubicFold_spec (step : K) (n : Nat) (buf : List (QuadBez K × FlattenParams K)) (i : Nat) (vs : K)
    (out : List (PathEl K)) :
    ∃ groups : List (List (PathEl K)),
      (buf.foldl (cubicStep step n) (i, vs, out)).1 = i + groups.flatten.length ∧
      (buf.foldl (cubicStep step n) (i, vs, out)).2.2 = out ++ groups.flatten ∧
      List.Forall₂ (fun (qp : QuadBez K × FlattenParams K) g =>
        g.length ≤ n + 2 ∧ ∀ e ∈ g, ∃ t, e = PathEl.LineTo (qp.1.eval t)) buf groups := by
  induction buf generalizing i vs out with
  | nil => exact ⟨[], by simp, by simp, List.Forall₂.nil⟩
  | cons qp rest ih =>
    obtain ⟨q, params⟩ := qp
    obtain ⟨extra, he, hlen, hall, -⟩ := cubicWhile_spec q params step n vs (srecip params.val) (n + 2) i out
    have hstep : cubicStep step n (i, vs, out) (q, params) = (i + extra.length, Scalar.add vs params.val, out ++ extra) := by
      unfold cubicStep; simp only []; rw [he]; rfl
    obtain ⟨groups, h1, h2, h3⟩ := ih (i + extra.length) (Scalar.add vs params.val) (out ++ extra)
    refine ⟨extra :: groups, ?_, ?_, List.Forall₂.cons ⟨hlen, hall⟩ h3⟩
    · rw [List.foldl_cons, hstep, h1]; simp; omega
    · rw [List.foldl_cons, hstep, h2]; simp

theorem length_flatten_le_of_forall₂ {α β : Type} (R : α → List β → Prop) (m : Nat) (as : List α) (gs : List (List β))
    (h : List.Forall₂ R as gs) (hm : ∀ a g, R a g → g.length ≤ m) : gs.flatten.length ≤ as.length * m := by
  induction h with
  | nil => simp
  | cons hab _ ih =>
    simp only [List.flatten_cons, List.length_append, List.length_cons]
    have := hm _ _ hab
    rw [Nat.succ_mul]; omega

theorem forall₂_exists_of_mem_right {α β : Type} {R : α → β → Prop} {as : List α} {bs : List β}
    (h : List.Forall₂ R as bs) {b : β} (hb : b ∈ bs) : ∃ a ∈ as, R a b := by
  induction h with
  | nil => simp at hb
  | cons hab _ ih =>
    rcases List.mem_cons.mp hb with rfl | hb
    · exact ⟨_, List.mem_cons_self, hab⟩
    · obtain ⟨a, ha, hr⟩ := ih hb
      exact ⟨a, List.mem_cons_of_mem _ ha, hr⟩

theorem flattenQuad_length' (q : QuadBez K) (sqrt_tol : K) : (flattenQuad q sqrt_tol).length = flattenQuadN q sqrt_tol := by
  rw [flattenQuad_eq]
  have := flattenQuadN_pos q sqrt_tol
  simp; omega

theorem flattenQuad_all_lineTo (q : QuadBez K) (sqrt_tol : K) : ∀ e ∈ flattenQuad q sqrt_tol, e.isLineTo = true := by
  intro e he
  rw [flattenQuad_eq] at he
  simp only [List.mem_append, List.mem_map, List.mem_singleton] at he
  rcases he with ⟨k, -, rfl⟩ | rfl <;> rfl

theorem flattenQuad_getLast (q : QuadBez K) (sqrt_tol : K) :
    (flattenQuad q sqrt_tol).getLast? = some (PathEl.LineTo q.p2) := by
  rw [flattenQuad_eq]; simp

/-- the groups of points emitted for a cubic: one group per quadratic of `to_quads`, in order, every point of a group
    on its quadratic, then the stored end point -/
theorem flattenCubic_groups (c : CubicBez K) (tolerance sqrt_tol : K) :
    ∃ groups : List (List (PathEl K)),
      flattenCubic c tolerance sqrt_tol = groups.flatten ++ [PathEl.LineTo c.p3] ∧
      List.Forall₂ (fun (tq : K × K × QuadBez K) g =>
        g.length ≤ flattenCubicN c tolerance sqrt_tol + 2 ∧ ∀ e ∈ g, ∃ t, e = PathEl.LineTo (tq.2.2.eval t))
        (c.to_quads (Scalar.mul tolerance (Scalar.ofRat toQuadTol))) groups := by
  obtain ⟨groups, -, h2, h3⟩ := cubicFold_spec
    (Scalar.div (flattenCubicSum c tolerance sqrt_tol) (natK (flattenCubicN c tolerance sqrt_tol)))
    (flattenCubicN c tolerance sqrt_tol) (flattenCubicBuf c tolerance sqrt_tol) 1 (Scalar.ofRat ((0 : Nat) : Rat)) []
  refine ⟨groups, ?_, ?_⟩
  · rw [flattenCubic_eq]
    rw [List.nil_append] at h2
    rw [← h2]; rfl
  · unfold flattenCubicBuf at h3
    rw [List.forall₂_map_left_iff] at h3
    exact h3

theorem flattenCubic_all_lineTo (c : CubicBez K) (tolerance sqrt_tol : K) :
    ∀ e ∈ flattenCubic c tolerance sqrt_tol, e.isLineTo = true := by
  obtain ⟨groups, he, hf⟩ := flattenCubic_groups c tolerance sqrt_tol
  rw [he]
  intro e hmem
  simp only [List.mem_append, List.mem_flatten, List.mem_singleton] at hmem
  rcases hmem with ⟨g, hg, heg⟩ | rfl
  · obtain ⟨tq, -, -, hall⟩ := forall₂_exists_of_mem_right hf hg
    obtain ⟨t, rfl⟩ := hall e heg
    rfl
  · rfl

theorem flattenCubic_getLast (c : CubicBez K) (tolerance sqrt_tol : K) :
    (flattenCubic c tolerance sqrt_tol).getLast? = some (PathEl.LineTo c.p3) := by
  rw [flattenCubic_eq]; simp

theorem flattenCubic_length_le' (c : CubicBez K) (tolerance sqrt_tol : K) :
    (flattenCubic c tolerance sqrt_tol).length ≤
      (c.to_quads (Scalar.mul tolerance (Scalar.ofRat toQuadTol))).length * (flattenCubicN c tolerance sqrt_tol + 2) + 1 := by
  obtain ⟨groups, he, hf⟩ := flattenCubic_groups c tolerance sqrt_tol
  rw [he]
  have := length_flatten_le_of_forall₂ _ (flattenCubicN c tolerance sqrt_tol + 2) _ _ hf (fun _ _ h => h.1)
  simp only [List.length_append, List.length_singleton]; omega

theorem flattenRun_isFlat (st : Option (Point K) × Option (Point K)) (el : PathEl K) (tol sqrt_tol : K) :
    ∀ e ∈ flattenRun st el tol sqrt_tol, e.isFlat = true := by
  intro e he
  cases el with
  | MoveTo p => simp [flattenRun] at he; subst he; rfl
  | LineTo p => simp [flattenRun] at he; subst he; rfl
  | ClosePath => simp [flattenRun] at he; subst he; rfl
  | QuadTo p1 p2 =>
    unfold flattenRun at he
    cases h : st.1 with
    | none => simp [h] at he
    | some p0 => simp only [h] at he; exact PathEl.isFlat_of_isLineTo (flattenQuad_all_lineTo _ _ e he)
  | CurveTo p1 p2 p3 =>
    unfold flattenRun at he
    cases h : st.1 with
    | none => simp [h] at he
    | some p0 => simp only [h] at he; exact PathEl.isFlat_of_isLineTo (flattenCubic_all_lineTo _ _ _ e he)

theorem flattenRuns_isFlat (st : Option (Point K) × Option (Point K)) (els : List (PathEl K)) (tol : K) :
    ∀ e ∈ (flattenRuns st els tol).flatten, e.isFlat = true := by
  induction els generalizing st with
  | nil => simp
  | cons el rest ih =>
    intro e he
    rw [flattenRuns_cons, List.flatten_cons, List.mem_append] at he
    rcases he with he | he
    · exact flattenRun_isFlat _ _ _ _ e he
    · exact ih _ e he

end Kurbo
