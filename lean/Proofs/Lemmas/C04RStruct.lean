import Kurbo.Stroke
import Proofs.Lemmas.C10Struct
/-! Helper definitions and lemmas for C04R, part 1 (structure; any `[Scalar K]`, core Lean only): `round_join`,
    `round_join_rev`, `round_cap` as the image of the pieces of the unit arc under the affine map of the join.
    `Ops` is opened because these are statements about the model's own arithmetic. -/
set_option linter.unusedSectionVars false
namespace Kurbo
open Ops
variable {K : Type} [Scalar K]

/-- the arc that `round_join`, `round_join_rev` (and `round_cap`: `angle = π`) outline: the unit circle about the origin
    from the angle `π − angle` through the sweep `angle` (so it always ends at the angle `π`) -/
def c04rArc (angle : K) : Arc K :=
  { center := ⟨0, 0⟩, radii := ⟨1, 1⟩, start_angle := (Scalar.pi : K) - angle, sweep_angle := angle, x_rotation := (0 : K) }

/-- the affine map of `round_join` (and of `round_cap`): `(x, y) ↦ center + x·norm + y·rot90(norm)` -/
def c04rAff (center : Point K) (norm : Vec2 K) : Affine K := Affine.new norm.x norm.y (-norm.y) norm.x center.x center.y
/-- the affine map of `round_join_rev`: `(x, y) ↦ center + x·norm − y·rot90(norm)` (a reflection composed with a similarity) -/
def c04rAffRev (center : Point K) (norm : Vec2 K) : Affine K := Affine.new norm.x norm.y norm.y (-norm.x) center.x center.y

theorem roundJoin_eq_with (T : K) (center : Point K) (norm : Vec2 K) (angle : K) :
    roundJoin T center norm angle = roundJoinWith T (c04rAff center norm) angle := rfl
theorem roundJoinRev_eq_with (T : K) (center : Point K) (norm : Vec2 K) (angle : K) :
    roundJoinRev T center norm angle = roundJoinWith T (c04rAffRev center norm) angle := rfl
theorem roundCap_eq_with (T : K) (center : Point K) (norm : Vec2 K) :
    roundCap T center norm = roundJoinWith T (c04rAff center norm) (Scalar.pi : K) := rfl

/-- number of pieces, arm length and angle step of the unit arc -/
def c04rN (T angle : K) : Nat := ((c04rArc angle).appendParams T).1
def c04rArm (T angle : K) : K := ((c04rArc angle).appendParams T).2.1
def c04rStep (T angle : K) : K := ((c04rArc angle).appendParams T).2.2

/-- the three points of piece `k` of the unit arc, and its start point -/
def c04rC1 (T angle : K) (k : Nat) : Point K :=
  arcC1 (c04rArc angle).center (c04rArc angle).radii (c04rArc angle).x_rotation (c04rArm T angle) (c04rStep T angle)
    (c04rArc angle).start_angle k
def c04rC2 (T angle : K) (k : Nat) : Point K :=
  arcC2 (c04rArc angle).center (c04rArc angle).radii (c04rArc angle).x_rotation (c04rArm T angle) (c04rStep T angle)
    (c04rArc angle).start_angle k
def c04rPt (T angle : K) (k : Nat) : Point K :=
  arcPt (c04rArc angle).center (c04rArc angle).radii (c04rArc angle).x_rotation (c04rStep T angle) (c04rArc angle).start_angle k

/-- piece `k` of the unit arc as a cubic: from arc point `k` to arc point `k + 1` -/
def c04rPiece (T angle : K) (k : Nat) : CubicBez K := ⟨c04rPt T angle k, c04rC1 T angle k, c04rC2 T angle k, c04rPt T angle (k + 1)⟩

theorem filterMap_curveEls (a : Affine K) (c1 c2 e : Nat → Point K) (n : Nat) :
    ((curveEls c1 c2 e n).filterMap fun
      | .CurveTo p1 p2 p3 => some (PathEl.CurveTo (a * p1) (a * p2) (a * p3))
      | _ => none)
      = curveEls (fun k => a * c1 k) (fun k => a * c2 k) (fun k => a * e k) n := by
  induction n with
  | zero => rfl
  | succ n ih => rw [curveEls_succ, curveEls_succ, List.filterMap_append, ih]; rfl

theorem roundJoinWith_unfold (T : K) (a : Affine K) (angle : K) :
    roundJoinWith T a angle = ((c04rArc angle).append_iter T).filterMap fun
      | .CurveTo p1 p2 p3 => some (PathEl.CurveTo (a * p1) (a * p2) (a * p3))
      | _ => none := rfl

/-- `round_join_with` in closed form: `n` `CurveTo`s, the images of the pieces of the unit arc -/
theorem roundJoinWith_eq (T : K) (a : Affine K) (angle : K) :
    roundJoinWith T a angle
      = curveEls (fun k => a * c04rC1 T angle k) (fun k => a * c04rC2 T angle k) (fun k => a * c04rPt T angle (k + 1)) (c04rN T angle) := by
  rw [roundJoinWith_unfold, append_iter_eq, filterMap_curveEls]
  rfl

theorem roundJoinWith_length (T : K) (a : Affine K) (angle : K) : (roundJoinWith T a angle).length = c04rN T angle := by
  rw [roundJoinWith_eq, curveEls_length]

/-- piece `k` -/
theorem roundJoinWith_getElem? (T : K) (a : Affine K) (angle : K) (k : Nat) (hk : k < c04rN T angle) :
    (roundJoinWith T a angle)[k]?
      = some (PathEl.CurveTo (a * c04rC1 T angle k) (a * c04rC2 T angle k) (a * c04rPt T angle (k + 1))) := by
  rw [roundJoinWith_eq]; exact curveEls_getElem? _ _ _ _ _ hk

theorem chainStart_map (a : Affine K) (p : Point K) (e : Nat → Point K) (k : Nat) :
    chainStart (a * p) (fun k => a * e k) k = a * chainStart p e k := by
  cases k <;> rfl

/-- the cubic segments of a round join drawn with the pen on the image of the unit arc's start point: the images of the
    pieces of the unit arc, joined end to end -/
theorem roundJoinWith_segs (T : K) (a : Affine K) (angle : K) :
    segs (PathEl.MoveTo (a * c04rPt T angle 0) :: roundJoinWith T a angle)
      = some ((List.range (c04rN T angle)).map fun k => PathSeg.Cubic (a * c04rPiece T angle k)) := by
  rw [roundJoinWith_eq, segs_moveTo_curveEls]
  congr 1
  apply List.map_congr_left
  intro k _
  rw [chainStart_map]
  have : chainStart (c04rPt T angle 0) (fun k => c04rPt T angle (k + 1)) k = c04rPt T angle k := by cases k <;> rfl
  rw [this]
  rfl

/-- the same when the round join is drawn in the middle of a path (iterator state `(s, a * start)`) -/
theorem roundJoinWith_segsT (T : K) (a : Affine K) (angle : K) (s : Point K) :
    segsT (s, a * c04rPt T angle 0) (roundJoinWith T a angle)
      = (List.range (c04rN T angle)).map fun k => PathSeg.Cubic (a * c04rPiece T angle k) := by
  rw [roundJoinWith_eq, (segsT_curveEls _ _ _ _ _ _).1]
  apply List.map_congr_left
  intro k _
  rw [chainStart_map]
  have : chainStart (c04rPt T angle 0) (fun k => c04rPt T angle (k + 1)) k = c04rPt T angle k := by cases k <;> rfl
  rw [this]
  rfl

/-- where the pen is after a round join drawn from `p`: on the image of arc point `n` (if there is a piece) -/
theorem penAfter_roundJoinWith (T : K) (a : Affine K) (angle : K) (p : Point K) :
    penAfter p (roundJoinWith T a angle) = if c04rN T angle = 0 then p else a * c04rPt T angle (c04rN T angle) := by
  rw [roundJoinWith_eq, penAfter_curveEls]
  cases c04rN T angle <;> rfl

/-- the last element of a round join with at least one piece, and its end point -/
theorem roundJoinWith_getLast (T : K) (a : Affine K) (angle : K) (hn : c04rN T angle ≠ 0) :
    ∃ e, (roundJoinWith T a angle).getLast? = some e ∧ e.end_point = some (a * c04rPt T angle (c04rN T angle)) := by
  obtain ⟨m, hm⟩ := Nat.exists_eq_succ_of_ne_zero hn
  rw [roundJoinWith_eq, hm, curveEls_succ, List.getLast?_concat]
  exact ⟨_, rfl, rfl⟩

/-- … the start point does not matter when there is a piece, nor do elements drawn before -/
theorem penAfter_append_roundJoinWith (T : K) (a : Affine K) (angle : K) (p : Point K) (mid : List (PathEl K))
    (hn : c04rN T angle ≠ 0) :
    penAfter p (mid ++ roundJoinWith T a angle) = a * c04rPt T angle (c04rN T angle) := by
  obtain ⟨e, he, hp⟩ := roundJoinWith_getLast T a angle hn
  unfold penAfter
  rw [List.getLast?_append, he]
  simp only [Option.some_or, Option.bind_some, hp, Option.getD_some]

end Kurbo
