import Proofs.Lemmas.C05Real
/-! Helper lemmas for C05: scaling the path by `k > 0` and the tolerance by `k` scales the flattened output. -/
set_option linter.unusedSectionVars false
namespace Kurbo

section defs
variable {K : Type} [Mul K]
/-- uniform scaling about the origin -/
def Point.scaleBy (k : K) (p : Point K) : Point K := ⟨k * p.x, k * p.y⟩
def QuadBez.scaleBy (k : K) (q : QuadBez K) : QuadBez K := ⟨q.p0.scaleBy k, q.p1.scaleBy k, q.p2.scaleBy k⟩
def CubicBez.scaleBy (k : K) (c : CubicBez K) : CubicBez K :=
  ⟨c.p0.scaleBy k, c.p1.scaleBy k, c.p2.scaleBy k, c.p3.scaleBy k⟩
def PathEl.scaleBy (k : K) : PathEl K → PathEl K
  | .MoveTo p => .MoveTo (p.scaleBy k)
  | .LineTo p => .LineTo (p.scaleBy k)
  | .QuadTo p1 p2 => .QuadTo (p1.scaleBy k) (p2.scaleBy k)
  | .CurveTo p1 p2 p3 => .CurveTo (p1.scaleBy k) (p2.scaleBy k) (p3.scaleBy k)
  | .ClosePath => .ClosePath
end defs

section lawful
variable {K : Type} [Field K] [LinearOrder K] [IsStrictOrderedRing K] [FloorRing K] [Scalar K] [LawfulScalar K]

theorem scale_quot (k a c : K) (hk : k ≠ 0) : (k ^ 2 * a) * (1 / (k ^ 2 * c)) = a * (1 / c) := by
  rcases eq_or_ne c 0 with rfl | hc
  · simp
  · field_simp

theorem subdivCross_eq (q : QuadBez K) :
    q.subdivCross = (q.p2.x - q.p0.x) * (q.p1.y - q.p0.y - (q.p2.y - q.p1.y))
      - (q.p2.y - q.p0.y) * (q.p1.x - q.p0.x - (q.p2.x - q.p1.x)) := by
  unfold QuadBez.subdivCross QuadBez.subdivDD
  simp only [kdefs, scalar_norm]

theorem subdivX0_eq (q : QuadBez K) :
    q.subdivX0 = ((q.p1.x - q.p0.x) * (q.p1.x - q.p0.x - (q.p2.x - q.p1.x))
      + (q.p1.y - q.p0.y) * (q.p1.y - q.p0.y - (q.p2.y - q.p1.y))) * (1 / q.subdivCross) := by
  rw [subdivCross_eq]
  unfold QuadBez.subdivX0
  simp only [kdefs, scalar_norm]

theorem subdivX2_eq (q : QuadBez K) :
    q.subdivX2 = ((q.p2.x - q.p1.x) * (q.p1.x - q.p0.x - (q.p2.x - q.p1.x))
      + (q.p2.y - q.p1.y) * (q.p1.y - q.p0.y - (q.p2.y - q.p1.y))) * (1 / q.subdivCross) := by
  rw [subdivCross_eq]
  unfold QuadBez.subdivX2
  simp only [kdefs, scalar_norm]

theorem subdivCross_scale (k : K) (q : QuadBez K) : (q.scaleBy k).subdivCross = k ^ 2 * q.subdivCross := by
  rw [subdivCross_eq, subdivCross_eq]
  simp only [QuadBez.scaleBy, Point.scaleBy]
  ring

theorem subdivX0_scale (k : K) (hk : k ≠ 0) (q : QuadBez K) : (q.scaleBy k).subdivX0 = q.subdivX0 := by
  rw [subdivX0_eq, subdivX0_eq, subdivCross_scale]
  simp only [QuadBez.scaleBy, Point.scaleBy]
  rw [← scale_quot k _ q.subdivCross hk]
  congr 1
  ring

theorem subdivX2_scale (k : K) (hk : k ≠ 0) (q : QuadBez K) : (q.scaleBy k).subdivX2 = q.subdivX2 := by
  rw [subdivX2_eq, subdivX2_eq, subdivCross_scale]
  simp only [QuadBez.scaleBy, Point.scaleBy]
  rw [← scale_quot k _ q.subdivCross hk]
  congr 1
  ring

theorem quad_eval_scale (k : K) (q : QuadBez K) (t : K) : (q.scaleBy k).eval t = (q.eval t).scaleBy k := by
  simp only [QuadBez.scaleBy, Point.scaleBy]
  kring


theorem toQuadsErr_scale (k : K) (c : CubicBez K) : toQuadsErr (c.scaleBy k) = k ^ 2 * toQuadsErr c := by
  unfold toQuadsErr
  simp only [kdefs, scalar_norm, CubicBez.scaleBy, Point.scaleBy]
  ring

theorem toQuadsMax_scale (k : K) (a : K) : toQuadsMax (k * a) = k ^ 2 * toQuadsMax a := by
  unfold toQuadsMax
  simp only [scalar_norm]
  ring

theorem toQuadsN_scale (k : K) (hk : k ≠ 0) (c : CubicBez K) (a : K) :
    toQuadsN (c.scaleBy k) (k * a) = toQuadsN c a := by
  rw [toQuadsN_eq, toQuadsN_eq, toQuadsErr_scale, toQuadsMax_scale]
  simp only [scalar_norm]
  rw [mul_div_mul_left _ _ (pow_ne_zero 2 hk)]

theorem toQuadsPiece_scale (k : K) (c : CubicBez K) (n i : Nat) :
    toQuadsPiece (c.scaleBy k) n i =
      ((toQuadsPiece c n i).1, (toQuadsPiece c n i).2.1, (toQuadsPiece c n i).2.2.scaleBy k) := by
  unfold toQuadsPiece
  simp only [kdefs, scalar_norm, CubicBez.scaleBy, QuadBez.scaleBy, Point.scaleBy, Prod.mk.injEq, QuadBez.mk.injEq,
    Point.mk.injEq]
  refine ⟨trivial, trivial, ⟨?_, ?_⟩, ⟨?_, ?_⟩, ⟨?_, ?_⟩⟩ <;> ring

theorem to_quads_scale (k : K) (hk : k ≠ 0) (c : CubicBez K) (a : K) :
    (c.scaleBy k).to_quads (k * a) =
      (c.to_quads a).map fun tq => (tq.1, tq.2.1, tq.2.2.scaleBy k) := by
  unfold CubicBez.to_quads
  simp only [toQuadsN_scale k hk, List.map_map]
  apply List.map_congr_left
  intro i _
  simp only [Function.comp, toQuadsPiece_scale]


/-- the parameters of the scaled quadratic: only `val` changes -/
def FlattenParams.scaleVal (m : K) (p : FlattenParams K) : FlattenParams K := { p with val := m * p.val }

theorem scale_quot1 (m a c : K) (hm : m ≠ 0) : (m * a) * (1 / (m * c)) = a * (1 / c) := by
  rcases eq_or_ne c 0 with rfl | hc
  · simp
  · field_simp

theorem determine_subdiv_t_scaleVal (q q' : QuadBez K) (p : FlattenParams K) (m x : K) :
    q'.determine_subdiv_t (p.scaleVal m) x = q.determine_subdiv_t p x := by
  rw [determine_subdiv_t_eq, determine_subdiv_t_eq]; rfl

theorem cubicPt_scale (k m : K) (hm : m ≠ 0) (q : QuadBez K) (p : FlattenParams K) (step vs : K) (i : Nat) :
    cubicPt (q.scaleBy k) (p.scaleVal m) (m * step) (m * vs) (srecip (m * p.val)) i =
      (cubicPt q p step vs (srecip p.val) i).scaleBy k := by
  unfold cubicPt
  simp only [PathEl.scaleBy]
  rw [← quad_eval_scale, determine_subdiv_t_scaleVal q]
  congr 3
  simp only [scalar_norm, LawfulScalar.mul_eq, LawfulScalar.sub_eq]
  rw [show natK i * (m * step) - m * vs = m * (natK i * step - vs) by ring]
  exact scale_quot1 m _ _ hm

theorem cubicWhile_scale (k m : K) (hm : 0 < m) (q : QuadBez K) (p : FlattenParams K) (step : K) (n : Nat) (vs : K)
    (fuel i : Nat) (out : List (PathEl K)) :
    cubicWhile (q.scaleBy k) (p.scaleVal m) (m * step) n (m * vs) (srecip (m * p.val)) fuel i
        (out.map (PathEl.scaleBy k)) =
      ((cubicWhile q p step n vs (srecip p.val) fuel i out).1,
       (cubicWhile q p step n vs (srecip p.val) fuel i out).2.map (PathEl.scaleBy k)) := by
  induction fuel generalizing i out with
  | zero => rfl
  | succ fuel ih =>
    rw [cubicWhile_succ, cubicWhile_succ]
    have hc : Scalar.lt (Scalar.mul (natK i) (m * step)) (Scalar.add (m * vs) (p.scaleVal m).val) =
        Scalar.lt (Scalar.mul (natK i) step) (Scalar.add vs p.val) := by
      simp only [LawfulScalar.lt_eq, LawfulScalar.mul_eq, LawfulScalar.add_eq, FlattenParams.scaleVal]
      rw [decide_eq_decide, show natK i * (m * step) = m * (natK i * step) by ring,
        show m * vs + m * p.val = m * (vs + p.val) by ring]
      exact mul_lt_mul_iff_right₀ hm
    rw [hc, cubicPt_scale k m hm.ne']
    split
    · split
      · simp
      · have := ih (i + 1) (out ++ [cubicPt q p step vs (srecip p.val) i])
        rw [List.map_append, List.map_singleton] at this
        exact this
    · rfl

theorem cubicStep_scale (k m : K) (hm : 0 < m) (step : K) (n : Nat) (i : Nat) (vs : K) (out : List (PathEl K))
    (q : QuadBez K) (p : FlattenParams K) :
    cubicStep (m * step) n (i, m * vs, out.map (PathEl.scaleBy k)) (q.scaleBy k, p.scaleVal m) =
      ((cubicStep step n (i, vs, out) (q, p)).1, m * (cubicStep step n (i, vs, out) (q, p)).2.1,
       (cubicStep step n (i, vs, out) (q, p)).2.2.map (PathEl.scaleBy k)) := by
  unfold cubicStep
  simp only []
  have e : (p.scaleVal m).val = m * p.val := rfl
  rw [e, cubicWhile_scale k m hm]
  simp only [scalar_norm]
  rw [mul_add]

theorem cubicFold_scale (k m : K) (hm : 0 < m) (step : K) (n : Nat) (buf : List (QuadBez K × FlattenParams K))
    (i : Nat) (vs : K) (out : List (PathEl K)) :
    (buf.map fun qp => (qp.1.scaleBy k, qp.2.scaleVal m)).foldl (cubicStep (m * step) n)
        (i, m * vs, out.map (PathEl.scaleBy k)) =
      ((buf.foldl (cubicStep step n) (i, vs, out)).1, m * (buf.foldl (cubicStep step n) (i, vs, out)).2.1,
       (buf.foldl (cubicStep step n) (i, vs, out)).2.2.map (PathEl.scaleBy k)) := by
  induction buf generalizing i vs out with
  | nil => rfl
  | cons qp rest ih =>
    obtain ⟨q, p⟩ := qp
    rw [List.map_cons, List.foldl_cons, List.foldl_cons, cubicStep_scale k m hm]
    exact ih _ _ _

theorem sumVal_scale (m : K) (buf : List (QuadBez K × FlattenParams K)) (k : K) (acc : K) :
    (buf.map fun qp => (qp.1.scaleBy k, qp.2.scaleVal m)).foldl (fun acc qp => Scalar.add acc qp.2.val) (m * acc) =
      m * buf.foldl (fun acc qp => Scalar.add acc qp.2.val) acc := by
  induction buf generalizing acc with
  | nil => rfl
  | cons qp rest ih =>
    rw [List.map_cons, List.foldl_cons, List.foldl_cons]
    have : Scalar.add (m * acc) (qp.2.scaleVal m).val = m * Scalar.add acc qp.2.val := by
      simp only [LawfulScalar.add_eq, FlattenParams.scaleVal]; ring
    rw [this]
    exact ih _

end lawful

section real
/-- the `hypot` of a `Scalar ℝ` instance is the Euclidean norm -/
class LawfulHypotR [Scalar ℝ] : Prop where
  hypot_eq : ∀ x y : ℝ, Scalar.hypot x y = Real.sqrt (x * x + y * y)

variable [Scalar ℝ] [LawfulScalar ℝ] [LawfulSqrt] [LawfulHypotR]

theorem subdivDD_hypot_scale (k : ℝ) (hk : 0 ≤ k) (q : QuadBez ℝ) :
    (q.scaleBy k).subdivDD.hypot = k * q.subdivDD.hypot := by
  unfold QuadBez.subdivDD Vec2.hypot
  simp only [kdefs, scalar_norm, LawfulHypotR.hypot_eq, QuadBez.scaleBy, Point.scaleBy]
  rw [show (k * q.p1.x - k * q.p0.x - (k * q.p2.x - k * q.p1.x)) * (k * q.p1.x - k * q.p0.x - (k * q.p2.x - k * q.p1.x)) +
      (k * q.p1.y - k * q.p0.y - (k * q.p2.y - k * q.p1.y)) * (k * q.p1.y - k * q.p0.y - (k * q.p2.y - k * q.p1.y)) =
      k ^ 2 * ((q.p1.x - q.p0.x - (q.p2.x - q.p1.x)) * (q.p1.x - q.p0.x - (q.p2.x - q.p1.x)) +
        (q.p1.y - q.p0.y - (q.p2.y - q.p1.y)) * (q.p1.y - q.p0.y - (q.p2.y - q.p1.y))) by ring]
  rw [Real.sqrt_mul (sq_nonneg k), Real.sqrt_sq hk]

theorem subdivDen_scale (k : ℝ) (hk : 0 < k) (q : QuadBez ℝ) : (q.scaleBy k).subdivDen = k * q.subdivDen := by
  unfold QuadBez.subdivDen
  rw [subdivDD_hypot_scale k hk.le, subdivX0_scale k hk.ne', subdivX2_scale k hk.ne']
  simp only [scalar_norm]
  ring

theorem subdivScale_scale (k : ℝ) (hk : 0 < k) (q : QuadBez ℝ) : (q.scaleBy k).subdivScale = k * q.subdivScale := by
  unfold QuadBez.subdivScale
  rw [subdivDen_scale k hk, subdivCross_scale]
  simp only [scalar_norm]
  rw [show k ^ 2 * q.subdivCross / (k * q.subdivDen) = k * (q.subdivCross / q.subdivDen) by
    rw [pow_two, mul_assoc, mul_div_mul_left _ _ hk.ne', mul_div_assoc]]
  rw [abs_mul, abs_of_pos hk]

theorem ite_mul_congr (c : Prop) [Decidable c] (m a b a' b' : ℝ) (h1 : a' = m * a) (h2 : b' = m * b) :
    (if c then a' else b') = m * (if c then a else b) := by
  split <;> assumption

theorem estimate_subdiv_val_scale (k : ℝ) (hk : 0 < k) (q : QuadBez ℝ) (s : ℝ) :
    ((q.scaleBy k).estimate_subdiv (Real.sqrt k * s)).val = Real.sqrt k * (q.estimate_subdiv s).val := by
  have hsk : 0 < Real.sqrt k := Real.sqrt_pos.mpr hk
  rw [estimate_subdiv_val, estimate_subdiv_val, subdivDen_scale k hk, subdivScale_scale k hk,
    subdivX0_scale k hk.ne', subdivX2_scale k hk.ne']
  simp only [scalar_norm, LawfulSqrt.sqrt_eq]
  rw [Real.sqrt_mul hk.le]
  have hden : (k * q.subdivDen ≠ 0) ↔ (q.subdivDen ≠ 0) := by
    constructor
    · intro h h0; exact h (by rw [h0, mul_zero])
    · intro h; exact mul_ne_zero hk.ne' h
  by_cases hd : q.subdivDen = 0
  · have : k * q.subdivDen = 0 := by rw [hd, mul_zero]
    simp [hd]
  · have hd' : k * q.subdivDen ≠ 0 := mul_ne_zero hk.ne' hd
    simp only [hd, hd', ne_eq, not_false_eq_true, decide_true, if_true]
    refine ite_mul_congr _ _ _ _ _ _ ?_ ?_
    · ring
    · rw [mul_div_mul_left _ _ hsk.ne']
      ring

theorem estimate_subdiv_scale (k : ℝ) (hk : 0 < k) (q : QuadBez ℝ) (s : ℝ) :
    (q.scaleBy k).estimate_subdiv (Real.sqrt k * s) =
      { q.estimate_subdiv s with val := Real.sqrt k * (q.estimate_subdiv s).val } := by
  have ha0 : ((q.scaleBy k).estimate_subdiv (Real.sqrt k * s)).a0 = (q.estimate_subdiv s).a0 := by
    rw [estimate_subdiv_a0, estimate_subdiv_a0, subdivX0_scale k hk.ne']
  have ha2 : ((q.scaleBy k).estimate_subdiv (Real.sqrt k * s)).a2 = (q.estimate_subdiv s).a2 := by
    rw [estimate_subdiv_a2, estimate_subdiv_a2, subdivX2_scale k hk.ne']
  have hu0 : ((q.scaleBy k).estimate_subdiv (Real.sqrt k * s)).u0 = (q.estimate_subdiv s).u0 := by
    rw [estimate_subdiv_u0, estimate_subdiv_u0, ha0]
  have hus : ((q.scaleBy k).estimate_subdiv (Real.sqrt k * s)).uscale = (q.estimate_subdiv s).uscale := by
    rw [estimate_subdiv_uscale, estimate_subdiv_uscale, ha0, ha2]
  have hv := estimate_subdiv_val_scale k hk q s
  cases h : (q.scaleBy k).estimate_subdiv (Real.sqrt k * s)
  rw [h] at ha0 ha2 hu0 hus hv
  simp only at ha0 ha2 hu0 hus hv
  rw [ha0, ha2, hu0, hus, hv]


theorem flattenQuadN_scale (k : ℝ) (hk : 0 < k) (q : QuadBez ℝ) (s : ℝ) :
    flattenQuadN (q.scaleBy k) (Real.sqrt k * s) = flattenQuadN q s := by
  have hsk : 0 < Real.sqrt k := Real.sqrt_pos.mpr hk
  unfold flattenQuadN
  rw [estimate_subdiv_val_scale k hk]
  simp only [scalar_norm]
  have e : ∀ c : ℝ, c * (Real.sqrt k * (q.estimate_subdiv s).val) / (Real.sqrt k * s) =
      c * (q.estimate_subdiv s).val / s := by
    intro c
    rw [mul_left_comm, mul_div_mul_left _ _ hsk.ne']
  rw [e]

theorem flattenQuadT_scale (k : ℝ) (hk : 0 < k) (q : QuadBez ℝ) (s : ℝ) (i : Nat) :
    flattenQuadT (q.scaleBy k) (Real.sqrt k * s) i = flattenQuadT q s i := by
  rw [flattenQuadT_lawful, flattenQuadT_lawful, flattenQuadN_scale k hk, determine_subdiv_t_eq, determine_subdiv_t_eq,
    estimate_subdiv_scale k hk]

theorem flattenQuad_scale' (k : ℝ) (hk : 0 < k) (q : QuadBez ℝ) (s : ℝ) :
    flattenQuad (q.scaleBy k) (Real.sqrt k * s) = (flattenQuad q s).map (PathEl.scaleBy k) := by
  rw [flattenQuad_eq, flattenQuad_eq, flattenQuadN_scale k hk, List.map_append, List.map_map]
  congr 1
  apply List.map_congr_left
  intro i _
  simp only [Function.comp, PathEl.scaleBy]
  rw [flattenQuadT_scale k hk, quad_eval_scale]


theorem estimate_subdiv_scale' (k : ℝ) (hk : 0 < k) (q : QuadBez ℝ) (s : ℝ) :
    (q.scaleBy k).estimate_subdiv (Real.sqrt k * s) = (q.estimate_subdiv s).scaleVal (Real.sqrt k) :=
  estimate_subdiv_scale k hk q s

theorem flattenCubicBuf_scale (k : ℝ) (hk : 0 < k) (c : CubicBez ℝ) (tol s : ℝ) :
    flattenCubicBuf (c.scaleBy k) (k * tol) (Real.sqrt k * s) =
      (flattenCubicBuf c tol s).map fun qp => (qp.1.scaleBy k, qp.2.scaleVal (Real.sqrt k)) := by
  unfold flattenCubicBuf
  simp only [scalar_norm]
  rw [mul_assoc k tol, to_quads_scale k hk.ne', List.map_map, List.map_map]
  apply List.map_congr_left
  intro tq _
  simp only [Function.comp]
  rw [mul_assoc (Real.sqrt k) s, estimate_subdiv_scale' k hk]

theorem flattenCubicSum_scale (k : ℝ) (hk : 0 < k) (c : CubicBez ℝ) (tol s : ℝ) :
    flattenCubicSum (c.scaleBy k) (k * tol) (Real.sqrt k * s) = Real.sqrt k * flattenCubicSum c tol s := by
  unfold flattenCubicSum
  rw [flattenCubicBuf_scale k hk]
  have h0 : Real.sqrt k * (@OfNat.ofNat ℝ 0 Ops.instOfNat) = (@OfNat.ofNat ℝ 0 Ops.instOfNat) := by
    simp only [scalar_norm]; simp
  have := sumVal_scale (Real.sqrt k) (flattenCubicBuf c tol s) k (@OfNat.ofNat ℝ 0 Ops.instOfNat)
  rw [h0] at this
  exact this

theorem flattenCubicN_scale (k : ℝ) (hk : 0 < k) (c : CubicBez ℝ) (tol s : ℝ) :
    flattenCubicN (c.scaleBy k) (k * tol) (Real.sqrt k * s) = flattenCubicN c tol s := by
  have hsk : 0 < Real.sqrt k := Real.sqrt_pos.mpr hk
  unfold flattenCubicN
  rw [flattenCubicSum_scale k hk]
  simp only [scalar_norm]
  have e : ∀ a b : ℝ, a * (Real.sqrt k * flattenCubicSum c tol s) / (Real.sqrt k * s * b) =
      a * flattenCubicSum c tol s / (s * b) := by
    intro a b
    rw [mul_left_comm, mul_assoc (Real.sqrt k) s b, mul_div_mul_left _ _ hsk.ne']
  rw [e]

theorem flattenCubic_scale' (k : ℝ) (hk : 0 < k) (c : CubicBez ℝ) (tol s : ℝ) :
    flattenCubic (c.scaleBy k) (k * tol) (Real.sqrt k * s) = (flattenCubic c tol s).map (PathEl.scaleBy k) := by
  have hsk : 0 < Real.sqrt k := Real.sqrt_pos.mpr hk
  rw [flattenCubic_eq, flattenCubic_eq, flattenCubicBuf_scale k hk, flattenCubicSum_scale k hk,
    flattenCubicN_scale k hk]
  have hstep : @HDiv.hDiv ℝ ℝ ℝ (@instHDiv ℝ Ops.instDiv) (Real.sqrt k * flattenCubicSum c tol s)
      (natK (flattenCubicN c tol s)) =
      Real.sqrt k * (@HDiv.hDiv ℝ ℝ ℝ (@instHDiv ℝ Ops.instDiv) (flattenCubicSum c tol s) (natK (flattenCubicN c tol s))) := by
    simp only [scalar_norm]; ring
  have h0 : Real.sqrt k * (@OfNat.ofNat ℝ 0 Ops.instOfNat) = (@OfNat.ofNat ℝ 0 Ops.instOfNat) := by
    simp only [scalar_norm]; simp
  rw [hstep]
  have := cubicFold_scale k (Real.sqrt k) hsk
    (@HDiv.hDiv ℝ ℝ ℝ (@instHDiv ℝ Ops.instDiv) (flattenCubicSum c tol s) (natK (flattenCubicN c tol s)))
    (flattenCubicN c tol s) (flattenCubicBuf c tol s) 1 (@OfNat.ofNat ℝ 0 Ops.instOfNat) []
  rw [List.map_nil, h0] at this
  rw [this, List.map_append]
  rfl


/-- scaling the flattening state -/
def stScale (k : ℝ) (st : Option (Point ℝ) × Option (Point ℝ)) : Option (Point ℝ) × Option (Point ℝ) :=
  (st.1.map (Point.scaleBy k), st.2.map (Point.scaleBy k))

theorem flattenState_scale (k : ℝ) (st : Option (Point ℝ) × Option (Point ℝ)) (el : PathEl ℝ) :
    flattenState (stScale k st) (el.scaleBy k) = stScale k (flattenState st el) := by
  cases el <;> rfl

theorem flattenRun_scale (k : ℝ) (hk : 0 < k) (st : Option (Point ℝ) × Option (Point ℝ)) (el : PathEl ℝ) (tol s : ℝ) :
    flattenRun (stScale k st) (el.scaleBy k) (k * tol) (Real.sqrt k * s) =
      (flattenRun st el tol s).map (PathEl.scaleBy k) := by
  obtain ⟨l, st2⟩ := st
  cases el with
  | MoveTo p => rfl
  | LineTo p => rfl
  | ClosePath => rfl
  | QuadTo p1 p2 =>
    cases l with
    | none => rfl
    | some p0 => exact flattenQuad_scale' k hk ⟨p0, p1, p2⟩ s
  | CurveTo p1 p2 p3 =>
    cases l with
    | none => rfl
    | some p0 => exact flattenCubic_scale' k hk ⟨p0, p1, p2, p3⟩ tol s

theorem flattenRuns_scale (k : ℝ) (hk : 0 < k) (st : Option (Point ℝ) × Option (Point ℝ)) (els : List (PathEl ℝ))
    (tol : ℝ) :
    flattenRuns (stScale k st) (els.map (PathEl.scaleBy k)) (k * tol) =
      (flattenRuns st els tol).map (List.map (PathEl.scaleBy k)) := by
  induction els generalizing st with
  | nil => rfl
  | cons el rest ih =>
    rw [List.map_cons, flattenRuns_cons, flattenRuns_cons, List.map_cons, flattenState_scale, ih]
    congr 1
    rw [LawfulSqrt.sqrt_eq, LawfulSqrt.sqrt_eq, Real.sqrt_mul hk.le]
    exact flattenRun_scale k hk st el tol _

theorem flatten_scale' (k : ℝ) (hk : 0 < k) (els : List (PathEl ℝ)) (tol : ℝ) :
    flatten (els.map (PathEl.scaleBy k)) (k * tol) = (flatten els tol).map (PathEl.scaleBy k) := by
  rw [flatten_eq_flattenFrom, flatten_eq_flattenFrom]
  unfold flattenFrom
  have := flattenRuns_scale k hk (none, none) els tol
  rw [show stScale k (none, none) = (none, none) from rfl] at this
  rw [this, List.map_flatten]

end real
theorem realScalarC05_lawfulHypot : @LawfulHypotR realScalarC05 :=
  letI := realScalarC05
  { hypot_eq := fun _ _ => rfl }

end Kurbo
