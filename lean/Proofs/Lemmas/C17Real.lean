import Proofs.Lemmas.C17Fit
import Mathlib.Analysis.SpecialFunctions.Pow.Real
import Mathlib.Algebra.Order.Floor.Semiring
/-! Helper file for C17: the real numbers as a lawful scalar whose `hypot`, `powf`, `toUSize` are the mathematical
    functions (shows that the law classes used by C17 are satisfiable together), and the piece count of `to_quads`. -/
set_option linter.unusedSectionVars false
namespace Kurbo

/-- laws for the two otherwise uninterpreted operations in the piece count of `to_quads` (ℝ):
    `powf` is the real power on non-negative bases, `x as usize` is the floor, saturating at `usize::MAX = 2⁶⁴−1` -/
class LawfulPowf [Scalar ℝ] : Prop where
  powf_eq : ∀ x y : ℝ, 0 ≤ x → Scalar.powf x y = x ^ y
  toUSize_eq : ∀ x : ℝ, Scalar.toUSize x = min ⌊x⌋₊ (2 ^ 64 - 1)

/-- the real numbers with the mathematical operations (the transcendental ones that C17 does not use are left
    arbitrary).  NOTE: a structure instance must list every field of `Scalar`; when a field is added to the class, add
    a line here. -/
@[reducible] noncomputable def realScalar17 : Scalar ℝ where
  add := (· + ·); sub := (· - ·); mul := (· * ·); div := (· / ·); neg := (- ·)
  abs x := |x|
  lt a b := decide (a < b); le a b := decide (a ≤ b); beq a b := decide (a = b)
  ofRat r := (r : ℝ)
  floor x := (⌊x⌋ : ℝ); ceil x := (⌈x⌉ : ℝ)
  round x := if x < 0 then (⌈x - 1 / 2⌉ : ℝ) else (⌊x + 1 / 2⌋ : ℝ)
  trunc x := if x < 0 then (⌈x⌉ : ℝ) else (⌊x⌋ : ℝ)
  sqrt := Real.sqrt
  cbrt x := x
  sin x := x
  cos x := x
  tan x := x
  acos x := x
  atan2 x _ := x
  powf x y := x ^ y
  ln x := x
  log2 x := x
  fma a b c := a * b + c
  hypot x y := Real.sqrt (x ^ 2 + y ^ 2)
  copysign a b := if b < 0 then -|a| else |a|
  fin _ := true
  finQuot den _ := decide (den ≠ 0)
  isNan _ := false
  toUSize x := min ⌊x⌋₊ (2 ^ 64 - 1)
  signum x := if x < 0 then -1 else 1
  min a b := min a b
  max a b := max a b
  fmod a _ := a
  pi := 3

theorem realScalar17_lawful : @LawfulScalar ℝ _ _ _ _ realScalar17 :=
  letI := realScalar17
  { add_eq := fun _ _ => rfl, sub_eq := fun _ _ => rfl, mul_eq := fun _ _ => rfl, div_eq := fun _ _ => rfl,
    neg_eq := fun _ => rfl, abs_eq := fun _ => rfl, lt_eq := fun _ _ => rfl, le_eq := fun _ _ => rfl,
    beq_eq := fun _ _ => rfl, ofRat_eq := fun _ => rfl, min_eq := fun _ _ => rfl, max_eq := fun _ _ => rfl,
    floor_eq := fun _ => rfl, ceil_eq := fun _ => rfl, trunc_eq := fun _ => rfl, round_eq := fun _ => rfl,
    copysign_eq := fun _ _ => rfl, signum_eq := fun _ => rfl, fin_eq := fun _ => rfl, finQuot_eq := fun _ _ => rfl,
    isNan_eq := fun _ => rfl, fma_eq := fun _ _ _ => rfl }

theorem realScalar_hypot : @LawfulHypot ℝ _ _ realScalar17 :=
  letI := realScalar17
  lawfulHypot_of_sqrt fun _ _ => rfl

theorem realScalar_powf : @LawfulPowf realScalar17 :=
  letI := realScalar17
  { powf_eq := fun _ _ _ => rfl, toUSize_eq := fun _ => rfl }

section
variable [Scalar ℝ] [LawfulScalar ℝ] [LawfulPowf]

theorem c17_toQuadsN_eq (c : CubicBez ℝ) (a : ℝ) :
    toQuadsN c a = max 1 (min ⌈(((c.p3.x - 3 * c.p2.x + 3 * c.p1.x - c.p0.x) ^ 2
        + (c.p3.y - 3 * c.p2.y + 3 * c.p1.y - c.p0.y) ^ 2) / (432 * a ^ 2)) ^ ((1 : ℝ) / 6)⌉₊ (2 ^ 64 - 1)) := by
  unfold toQuadsN
  simp only [kdefs, scalar_norm]
  push_cast
  have e : ((c.p2.x * 3 - c.p3.x - (c.p1.x * 3 - c.p0.x)) * (c.p2.x * 3 - c.p3.x - (c.p1.x * 3 - c.p0.x)) +
      (c.p2.y * 3 - c.p3.y - (c.p1.y * 3 - c.p0.y)) * (c.p2.y * 3 - c.p3.y - (c.p1.y * 3 - c.p0.y))) / (432 * a * a)
      = ((c.p3.x - 3 * c.p2.x + 3 * c.p1.x - c.p0.x) ^ 2
        + (c.p3.y - 3 * c.p2.y + 3 * c.p1.y - c.p0.y) ^ 2) / (432 * a ^ 2) := by ring
  rw [e]
  have hr : 0 ≤ ((c.p3.x - 3 * c.p2.x + 3 * c.p1.x - c.p0.x) ^ 2
        + (c.p3.y - 3 * c.p2.y + 3 * c.p1.y - c.p0.y) ^ 2) / (432 * a ^ 2) := by positivity
  rw [LawfulPowf.powf_eq _ _ hr, LawfulPowf.toUSize_eq, ← Int.floor_toNat, Int.floor_intCast, Int.ceil_toNat]
  split_ifs with h
  · omega
  · omega

/-- under the laws for `powf` and `as usize`, the piece count chosen by `to_quads` satisfies the inequality that
    `toQuads_error_bound` assumes – unless the count saturates at `usize::MAX` -/
theorem toQuadsN_meets (c : CubicBez ℝ) (a : ℝ) (ha : a ≠ 0)
    (hsat : (((c.p3.x - 3 * c.p2.x + 3 * c.p1.x - c.p0.x) ^ 2
        + (c.p3.y - 3 * c.p2.y + 3 * c.p1.y - c.p0.y) ^ 2) / (432 * a ^ 2)) ^ ((1 : ℝ) / 6) ≤ 2 ^ 64 - 1) :
    (c.p3.x - 3 * c.p2.x + 3 * c.p1.x - c.p0.x) ^ 2 + (c.p3.y - 3 * c.p2.y + 3 * c.p1.y - c.p0.y) ^ 2
      ≤ (toQuadsN c a : ℝ) ^ 6 * (432 * a ^ 2) := by
  rw [c17_toQuadsN_eq]
  set D2 := (c.p3.x - 3 * c.p2.x + 3 * c.p1.x - c.p0.x) ^ 2 + (c.p3.y - 3 * c.p2.y + 3 * c.p1.y - c.p0.y) ^ 2
  have hD : 0 ≤ D2 := by positivity
  have hA : 0 < 432 * a ^ 2 := by positivity
  set r := D2 / (432 * a ^ 2)
  have hr : 0 ≤ r := div_nonneg hD hA.le
  set x := r ^ ((1 : ℝ) / 6)
  have hx0 : 0 ≤ x := Real.rpow_nonneg hr _
  have hx6 : x ^ 6 = r := by
    show (r ^ ((1 : ℝ) / 6)) ^ 6 = r
    rw [← Real.rpow_natCast, ← Real.rpow_mul hr]
    norm_num
  have hceil : ⌈x⌉₊ ≤ 2 ^ 64 - 1 := by
    rw [Nat.ceil_le]; push_cast; norm_num at hsat ⊢; exact hsat
  have hn : x ≤ ((max 1 (min ⌈x⌉₊ (2 ^ 64 - 1)) : Nat) : ℝ) := by
    rw [min_eq_left hceil]
    calc x ≤ (⌈x⌉₊ : ℝ) := Nat.le_ceil x
      _ ≤ ((max 1 ⌈x⌉₊ : Nat) : ℝ) := by exact_mod_cast le_max_right 1 ⌈x⌉₊
  have h6 : r ≤ ((max 1 (min ⌈x⌉₊ (2 ^ 64 - 1)) : Nat) : ℝ) ^ 6 := by
    rw [← hx6]; exact pow_le_pow_left₀ hx0 hn 6
  have : D2 = r * (432 * a ^ 2) := by
    show D2 = D2 / (432 * a ^ 2) * (432 * a ^ 2)
    field_simp
  rw [this]
  exact mul_le_mul_of_nonneg_right h6 hA.le
end

end Kurbo
