import Proofs.Lemmas.C15Itp
import Proofs.Lemmas.C15Real
import Mathlib.Topology.Order.IntermediateValue
import Mathlib.Analysis.SpecialFunctions.Log.Base
/-! helper lemmas for C15, ITP over ℝ: intermediate value theorem on the final sub-bracket, and the iteration budget
    `nmax` from the laws of `log2` and `as usize` -/
set_option linter.unusedSectionVars false
namespace Kurbo

/-- for a continuous `f` the result is within `ε` of a zero of `f` in the start bracket -/
theorem ItpResult.exists_zero_near {f : ℝ → ℝ} {ε a b x : ℝ} (h : ItpResult f ε a b x) (hε : 0 ≤ ε)
    (hf : ContinuousOn f (Set.Icc a b)) : ∃ z ∈ Set.Icc a b, f z = 0 ∧ |x - z| ≤ ε := by
  obtain ⟨a', b', h1, h2, h3, h4, h5, h6, h7⟩ := h
  rcases h7 with h7 | ⟨hw, hx⟩
  · exact ⟨x, ⟨h1.trans h2, h3.trans h4⟩, h7, by rw [sub_self, abs_zero]; exact hε⟩
  · have hsub : Set.Icc a' b' ⊆ Set.Icc a b := Set.Icc_subset_Icc h1 h4
    have hivt := intermediate_value_Icc (h2.trans h3) (hf.mono hsub)
    obtain ⟨z, hz, hfz⟩ := hivt ⟨h5.le, h6.le⟩
    refine ⟨z, hsub hz, hfz, ?_⟩
    rw [hx, abs_sub_comm]
    exact (abs_sub_mid_le hz.1 hz.2).trans (by linarith)

/-- `f64::log2` on positive arguments and `as usize` over ℝ (saturation at `usize::MAX` is not modelled) -/
class LawfulRealLog [Scalar ℝ] : Prop where
  log2_eq : ∀ x : ℝ, 0 < x → Scalar.log2 x = Real.logb 2 x
  toUSize_eq : ∀ x : ℝ, Scalar.toUSize x = ⌊x⌋₊

theorem realScalar_lawfulRealLog : @LawfulRealLog realScalar :=
  letI := realScalar
  { log2_eq := fun _ _ => rfl, toUSize_eq := fun _ => rfl }

/-- the start bracket is no wider than `2·ε·2^nmax` for the `nmax` that `solve_itp` computes -/
theorem itpNmax_ok [Scalar ℝ] [LawfulScalar ℝ] [LawfulRealLog] (a b ε : ℝ) (n0 : Nat) (hab : a < b) (hε : 0 < ε) :
    b - a ≤ 2 * (ε * 2 ^ itpNmax a b ε n0) := by
  unfold itpNmax
  have hx : 0 < (b - a) / ε := div_pos (by linarith) hε
  rw [LawfulRealLog.log2_eq _ hx, LawfulRealLog.toUSize_eq]
  set L := Real.logb 2 ((b - a) / ε) with hL
  set m : ℝ := max ((⌈L⌉ : ℝ) - 1) 0 with hm
  have hm0 : 0 ≤ m := le_max_right _ _
  have hmz : m = ((max (⌈L⌉ - 1) 0 : ℤ) : ℝ) := by rw [hm]; push_cast; rfl
  have hfl : (⌊m⌋₊ : ℝ) = m := by
    rw [natCast_floor_eq_intCast_floor hm0, hmz, Int.floor_intCast]
  have hLm : L ≤ (⌊m⌋₊ : ℝ) + 1 := by
    rw [hfl]
    have h1 : (⌈L⌉ : ℝ) - 1 ≤ m := le_max_left _ _
    have h2 : L ≤ ⌈L⌉ := Int.le_ceil L
    linarith
  have hx2 : (b - a) / ε ≤ 2 ^ ((⌊m⌋₊ : ℝ) + 1) := (Real.logb_le_iff_le_rpow (by norm_num) hx).mp hLm
  have e : (2 : ℝ) ^ ((⌊m⌋₊ : ℝ) + 1) = 2 ^ (⌊m⌋₊ + 1) := by
    rw [← Real.rpow_natCast]; push_cast; rfl
  rw [e, div_le_iff₀ hε] at hx2
  have hpow : (2 : ℝ) ^ (⌊m⌋₊ + 1) ≤ 2 * 2 ^ (n0 + ⌊m⌋₊) := by
    rw [pow_succ, mul_comm]
    apply mul_le_mul_of_nonneg_left _ (by norm_num)
    exact pow_le_pow_right₀ (by norm_num) (by omega)
  calc b - a ≤ 2 ^ (⌊m⌋₊ + 1) * ε := hx2
    _ ≤ 2 * 2 ^ (n0 + ⌊m⌋₊) * ε := mul_le_mul_of_nonneg_right hpow hε.le
    _ = 2 * (ε * 2 ^ (n0 + ⌊m⌋₊)) := by ring

end Kurbo
