import Proofs.Lemmas.C04Verts
import Proofs.Lemmas.C15Real
/-! `C04HypotLaw` is inhabited: ℝ with `hypot x y = √(x·x + y·y)` (`realScalar` of C15). -/
namespace Kurbo

theorem c04_realScalar_hypotLaw : @C04HypotLaw ℝ _ _ realScalar :=
  letI := realScalar
  { hypot_nonneg := fun x y => Real.sqrt_nonneg _
    hypot_mul_self := fun x y => by
      show Real.sqrt (x * x + y * y) * Real.sqrt (x * x + y * y) = x * x + y * y
      exact Real.mul_self_sqrt (by nlinarith [mul_self_nonneg x, mul_self_nonneg y]) }

/-- the hypotheses "lawful scalar with a lawful `hypot`" of the geometric theorems of C04 are satisfiable -/
theorem c04_exReal : ∃ (_ : Scalar ℝ) (_ : LawfulScalar ℝ), C04HypotLaw ℝ :=
  ⟨realScalar, realScalar_lawful, c04_realScalar_hypotLaw⟩

end Kurbo
