import Proofs.Lemmas.C10Real
import Mathlib.Analysis.SpecialFunctions.Sqrt
/-! Helper lemmas for C10, part 3: the radial error of one circular-arc cubic.
    * the polynomial identity for `|B(t) − c|² − r²` of the cubic between the angles `μ − φ` and `μ + φ`;
    * the quarter-circle cubic with the fixed arm `0.551915024494` stays within `1.9608e-4·|r|` of the circle. -/
set_option linter.unusedSectionVars false
namespace Kurbo

/-! ### the canonical quarter `(1,0), (1,a), (a,1), (0,1)` -/

/-- x-coordinate of the cubic with control points `(1,0), (1,a), (a,1), (0,1)` -/
def qX (a t : ℝ) : ℝ := (1 - t) ^ 3 + 3 * (1 - t) ^ 2 * t + 3 * a * (1 - t) * t ^ 2
/-- y-coordinate of that cubic -/
def qY (a t : ℝ) : ℝ := 3 * a * (1 - t) ^ 2 * t + 3 * (1 - t) * t ^ 2 + t ^ 3

/-- `|B(t)|² − 1` is a cubic in `σ = t(1 − t)` without constant and linear term -/
theorem quarter_identity (a t : ℝ) :
    qX a t ^ 2 + qY a t ^ 2 = 1 + (t * (1 - t)) ^ 2 * (9 * a ^ 2 + 6 * a - 6) - 2 * (t * (1 - t)) ^ 3 * (2 - 3 * a) ^ 2 := by
  unfold qX qY; ring

/-- the arm constant of the fixed branch of `Circle::path_elements` -/
noncomputable def armFixed : ℝ := 551915024494 / 1000000000000
/-- the radial error bound that goes with it -/
noncomputable def epsFixed : ℝ := 19608 / 100000000

theorem sigma_range {t : ℝ} (h0 : 0 ≤ t) (h1 : t ≤ 1) : 0 ≤ t * (1 - t) ∧ t * (1 - t) ≤ 1 / 4 := by
  constructor
  · exact mul_nonneg h0 (by linarith)
  · nlinarith [sq_nonneg (t - 1 / 2)]

/-- `(1 − ε)² ≤ |B(t)|² ≤ (1 + ε)²` on `[0, 1]`, by exact certificates: with `σ = t(1−t) ∈ [0, 1/4]`,
    `|B|² − 1 = c₂σ² − c₃σ³`; upper: `δ − c₂σ² + c₃σ³ = c₃(σ − s)²(σ + s/2) + (δ − c₃s³/2)` with `s = 2c₂/(3c₃)`;
    lower: `c₂ − c₃σ ≥ c₂ − c₃/4` and `σ² ≤ 1/16`.  (Both margins are ≈ 7e-9.) -/
theorem quarter_sq_bounds {t : ℝ} (h0 : 0 ≤ t) (h1 : t ≤ 1) :
    (1 - epsFixed) ^ 2 ≤ qX armFixed t ^ 2 + qY armFixed t ^ 2 ∧ qX armFixed t ^ 2 + qY armFixed t ^ 2 ≤ (1 + epsFixed) ^ 2 := by
  obtain ⟨hs0, hs1⟩ := sigma_range h0 h1
  rw [quarter_identity]
  set σ := t * (1 - t) with hσ
  have e2 : (9 * armFixed ^ 2 + 6 * armFixed - 6 : ℝ) = 13245473830978394901081 / 250000000000000000000000 := by
    unfold armFixed; norm_num
  have e3 : (2 * (2 - 3 * armFixed) ^ 2 : ℝ) = 29627863607978394901081 / 125000000000000000000000 := by
    unfold armFixed; norm_num
  have e3' : 2 * σ ^ 3 * (2 - 3 * armFixed) ^ 2 = σ ^ 3 * (2 * (2 - 3 * armFixed) ^ 2) := by ring
  rw [e2, e3', e3]
  unfold epsFixed
  constructor
  · -- lower bound
    have hk : (13245473830978394901081 / 250000000000000000000000 : ℝ)
        - σ * (29627863607978394901081 / 125000000000000000000000)
        ≥ -(3136915946021605098919 / 500000000000000000000000 : ℝ) := by linarith
    have hσ2 : σ ^ 2 ≤ 1 / 16 := by nlinarith
    have hσ2' : 0 ≤ σ ^ 2 := sq_nonneg σ
    nlinarith
  · -- upper bound
    have key : (1 + 19608 / 100000000 : ℝ) ^ 2
          - (1 + σ ^ 2 * (13245473830978394901081 / 250000000000000000000000)
              - σ ^ 3 * (29627863607978394901081 / 125000000000000000000000))
        = 29627863607978394901081 / 125000000000000000000000
            * ((σ - 4415157943659464967027 / 29627863607978394901081) ^ 2
              * (σ + 4415157943659464967027 / 29627863607978394901081 / 2))
          + ((1 + 19608 / 100000000 : ℝ) ^ 2 - 1
              - 29627863607978394901081 / 125000000000000000000000
                * (4415157943659464967027 / 29627863607978394901081) ^ 3 / 2) := by ring
    have hc : (0 : ℝ) ≤ (1 + 19608 / 100000000 : ℝ) ^ 2 - 1
              - 29627863607978394901081 / 125000000000000000000000
                * (4415157943659464967027 / 29627863607978394901081) ^ 3 / 2 := by norm_num
    have hp : (0 : ℝ) ≤ 29627863607978394901081 / 125000000000000000000000
            * ((σ - 4415157943659464967027 / 29627863607978394901081) ^ 2
              * (σ + 4415157943659464967027 / 29627863607978394901081 / 2)) := by positivity
    linarith

/-- the same for the distance: `| |B(t)| − 1 | ≤ 1.9608e-4` -/
theorem quarter_radial_bound {t : ℝ} (h0 : 0 ≤ t) (h1 : t ≤ 1) :
    |Real.sqrt (qX armFixed t ^ 2 + qY armFixed t ^ 2) - 1| ≤ epsFixed := by
  obtain ⟨hl, hu⟩ := quarter_sq_bounds h0 h1
  have he : (0 : ℝ) ≤ 1 - epsFixed := by unfold epsFixed; norm_num
  have he' : (0 : ℝ) ≤ 1 + epsFixed := by unfold epsFixed; norm_num
  rw [abs_le]
  constructor
  · have := Real.sqrt_le_sqrt hl
    rw [Real.sqrt_sq he] at this
    linarith
  · have := Real.sqrt_le_sqrt hu
    rw [Real.sqrt_sq he'] at this
    linarith

/-! ### scaling and turning: the cubic from angle `α` to `α + π/2` on the circle `(ctr, r)` -/

theorem circleArcCubic_quarter_eval [Scalar ℝ] [LawfulScalar ℝ] (ctr : Point ℝ) (r a α t : ℝ) :
    ((circleArcCubic ctr r a α (α + Real.pi / 2)).eval t).x - ctr.x = r * (Real.cos α * qX a t - Real.sin α * qY a t) ∧
    ((circleArcCubic ctr r a α (α + Real.pi / 2)).eval t).y - ctr.y = r * (Real.sin α * qX a t + Real.cos α * qY a t) := by
  simp only [circleArcCubic, circlePt, Real.cos_add_pi_div_two, Real.sin_add_pi_div_two, kdefs, scalar_norm, qX, qY]
  push_cast
  constructor <;> ring

/-- squared distance from the centre: `r²·(X² + Y²)` -/
theorem circleArcCubic_quarter_dist_sq [Scalar ℝ] [LawfulScalar ℝ] (ctr : Point ℝ) (r a α t : ℝ) :
    (((circleArcCubic ctr r a α (α + Real.pi / 2)).eval t).x - ctr.x) ^ 2
      + (((circleArcCubic ctr r a α (α + Real.pi / 2)).eval t).y - ctr.y) ^ 2
      = r ^ 2 * (qX a t ^ 2 + qY a t ^ 2) := by
  obtain ⟨hx, hy⟩ := circleArcCubic_quarter_eval ctr r a α t
  rw [hx, hy]
  linear_combination r ^ 2 * (qX a t ^ 2 + qY a t ^ 2) * Real.cos_sq_add_sin_sq α

/-- every point of the quarter cubic with the fixed arm is within `1.9608e-4·|r|` of the circle -/
theorem circleArcCubic_quarter_radial [Scalar ℝ] [LawfulScalar ℝ] (ctr : Point ℝ) (r α : ℝ) {t : ℝ} (h0 : 0 ≤ t) (h1 : t ≤ 1) :
    abs (Real.sqrt ((((circleArcCubic ctr r armFixed α (α + Real.pi / 2)).eval t).x - ctr.x) ^ 2
      + (((circleArcCubic ctr r armFixed α (α + Real.pi / 2)).eval t).y - ctr.y) ^ 2) - abs r) ≤ epsFixed * abs r := by
  rw [circleArcCubic_quarter_dist_sq, Real.sqrt_mul (sq_nonneg r), Real.sqrt_sq_eq_abs]
  have := quarter_radial_bound h0 h1
  have hr : 0 ≤ |r| := abs_nonneg r
  set R := abs r with hR
  set q := Real.sqrt (qX armFixed t ^ 2 + qY armFixed t ^ 2) with hq
  calc abs (R * q - R) = R * abs (q - 1) := by
        rw [show R * q - R = R * (q - 1) by ring, abs_mul, abs_of_nonneg hr]
    _ ≤ R * epsFixed := mul_le_mul_of_nonneg_left this hr
    _ = epsFixed * R := mul_comm _ _

/-! ### the general piece: the cubic between the angles `μ − φ` and `μ + φ` -/

/-- radial identity of one circular-arc cubic with arm `a·r` and half-angle `φ`: with `σ = t(1 − t)`, `s = sin φ`,
    `c = cos φ`:  `|B(t) − ctr|² − r² = r²·(σ²·(9a² − 12s² + 12acs) − 4σ³·(2s − 3ac)²)` -/
theorem circleArcCubic_radial_identity [Scalar ℝ] [LawfulScalar ℝ] (ctr : Point ℝ) (r a μ φ t : ℝ) :
    (((circleArcCubic ctr r a (μ - φ) (μ + φ)).eval t).x - ctr.x) ^ 2
      + (((circleArcCubic ctr r a (μ - φ) (μ + φ)).eval t).y - ctr.y) ^ 2 - r ^ 2
      = r ^ 2 * ((t * (1 - t)) ^ 2 * (9 * a ^ 2 - 12 * Real.sin φ ^ 2 + 12 * a * Real.cos φ * Real.sin φ)
          - 4 * (t * (1 - t)) ^ 3 * (2 * Real.sin φ - 3 * a * Real.cos φ) ^ 2) := by
  -- in the frame turned by `−μ` the cubic is `X = c + 3asσ`, `Y = (2t−1)(s(1+2σ) − 3acσ)`
  have hx : ((circleArcCubic ctr r a (μ - φ) (μ + φ)).eval t).x - ctr.x
      = r * (Real.cos μ * (Real.cos φ + 3 * a * Real.sin φ * (t * (1 - t)))
          - Real.sin μ * ((2 * t - 1) * (Real.sin φ * (1 + 2 * (t * (1 - t))) - 3 * a * Real.cos φ * (t * (1 - t))))) := by
    simp only [circleArcCubic, circlePt, Real.cos_add, Real.sin_add, Real.cos_sub, Real.sin_sub, kdefs, scalar_norm]
    push_cast
    ring
  have hy : ((circleArcCubic ctr r a (μ - φ) (μ + φ)).eval t).y - ctr.y
      = r * (Real.sin μ * (Real.cos φ + 3 * a * Real.sin φ * (t * (1 - t)))
          + Real.cos μ * ((2 * t - 1) * (Real.sin φ * (1 + 2 * (t * (1 - t))) - 3 * a * Real.cos φ * (t * (1 - t))))) := by
    simp only [circleArcCubic, circlePt, Real.cos_add, Real.sin_add, Real.cos_sub, Real.sin_sub, kdefs, scalar_norm]
    push_cast
    ring
  rw [hx, hy]
  set X := Real.cos φ + 3 * a * Real.sin φ * (t * (1 - t)) with hX
  set Y := (2 * t - 1) * (Real.sin φ * (1 + 2 * (t * (1 - t))) - 3 * a * Real.cos φ * (t * (1 - t))) with hY
  have h1 : (r * (Real.cos μ * X - Real.sin μ * Y)) ^ 2 + (r * (Real.sin μ * X + Real.cos μ * Y)) ^ 2
      = r ^ 2 * (X ^ 2 + Y ^ 2) := by
    linear_combination r ^ 2 * (X ^ 2 + Y ^ 2) * Real.cos_sq_add_sin_sq μ
  rw [h1, hX, hY]
  linear_combination r ^ 2 * (1 + 9 * a ^ 2 * (t * (1 - t)) ^ 2) * Real.cos_sq_add_sin_sq φ

end Kurbo

namespace Kurbo
section fixed
variable [Scalar ℝ] [LawfulScalar ℝ]

/-- the fixed branch of `Circle::path_elements` -/
theorem pathParams_fixed (c : Circle ℝ) (tol : ℝ) (hb : |c.radius| / tol < 100000000 / 19608) :
    c.pathParams tol = (4, armFixed) := by
  unfold Circle.pathParams
  simp only [scalar_norm]
  push_cast
  rw [if_pos (by rw [one_div_div]; simpa using hb)]
  rfl

theorem circleAngle_four_succ (k : Nat) : circleAngle 4 (k + 1) = circleAngle 4 k + Real.pi / 2 := by
  unfold circleAngle; push_cast; ring

theorem eps_radius_lt_tol {r tol : ℝ} (htol : 0 < tol) (hb : |r| / tol < 100000000 / 19608) : epsFixed * |r| < tol := by
  rw [div_lt_iff₀ htol] at hb
  unfold epsFixed
  linarith

end fixed
end Kurbo
