import Proofs.Lemmas.C04CGeom
/-! Helper lemmas for C04C, part 4: one segment with SQUARE caps – the eight-vertex outline, its crossing sum reduced to that of
    the extended rectangle by merging collinear edges, and the extended rectangle in the model's coordinates. -/
set_option linter.unusedSectionVars false
set_option linter.unusedVariables false
namespace Kurbo
open PathEl
variable {K : Type} [Field K] [LinearOrder K] [IsStrictOrderedRing K] [FloorRing K] [Scalar K] [LawfulScalar K]

/-- crossing sum of a closed polygon `M v0 L v1 … L vn Z` -/
theorem c04c_pathWinding_polygon (v0 : Point K) (vs : List (Point K)) (q : Point K) :
    pathWinding (polygon v0 vs) q
      = some (crossSum (lineChain v0 vs) q + kc ((v0 :: vs).getLast (List.cons_ne_nil _ _) - q) (v0 - q)) := by
  have h := segs_polygon v0 vs
  rw [segs_eq_segsFrom] at h
  rw [pathWinding_eq_crossSum (allLines_polygon v0 vs) h q, crossSum_append, crossSum_closeIte]

/-- inserting a vertex `m` between `a` and `b` on a common line (`m − a = α·d`, `b − m = β·d`, `α, β ≥ 0`) -/
theorem c04c_kcr_insert (ax ay mx my bx by_ dx dy α β : K) (hα : 0 ≤ α) (hβ : 0 ≤ β)
    (hmx : mx = ax + α * dx) (hmy : my = ay + α * dy) (hbx : bx = mx + β * dx) (hby : by_ = my + β * dy) :
    kcr ax ay mx my + kcr mx my bx by_ = kcr ax ay bx by_ := by
  rcases (add_nonneg hα hβ).eq_or_lt with h0 | hpos
  · have a0 : α = 0 := by linarith
    have b0 : β = 0 := by linarith
    subst hmx hmy hbx hby
    rw [a0, b0]
    simp only [zero_mul, add_zero, kcr_self]
  · have key := kcr_split ax ay bx by_ (α / (α + β)) (div_nonneg hα hpos.le) ((div_le_one hpos).mpr (by linarith))
    have ex : ax + (bx - ax) * (α / (α + β)) = mx := by
      rw [hbx, hmx]; field_simp; ring
    have ey : ay + (by_ - ay) * (α / (α + β)) = my := by
      rw [hby, hmy]; field_simp; ring
    rw [ex, ey] at key
    exact key

/-- the eight vertices of the outline of one segment with square caps, in the order the stroker emits them:
    right side `p0 − n → p1 − n`, end cap `p1 − n + e`, `p1 + n + e`, `p1 + n`, left side back to `p0 + n`, start cap
    `p0 + n − e`, `p0 − n − e`, `ClosePath`; `e = (n.y, −n.x)` is `n` turned back to the tangent direction -/
def c04c_sqPath (p0 p1 : Point K) (n : Vec2 K) : List (PathEl K) :=
  [MoveTo (p0 - n), LineTo (p1 - n), LineTo ⟨p1.x - n.x + n.y, p1.y - n.y - n.x⟩,
   LineTo ⟨p1.x + n.x + n.y, p1.y + n.y - n.x⟩, LineTo ⟨p1.x + n.x, p1.y + n.y⟩, LineTo (p0 + n),
   LineTo ⟨p0.x + n.x - n.y, p0.y + n.y + n.x⟩, LineTo ⟨p0.x - n.x - n.y, p0.y - n.y + n.x⟩, ClosePath]

theorem c04c_strokeOne_square (p0 p1 : Point K) (style : StrokeStyle K) (tol : K) (hne : p0 ≠ p1)
    (hs : style.start_cap = 1) (he : style.end_cap = 1) :
    strokeUndashed [MoveTo p0, LineTo p1] style tol = .ok (c04c_sqPath p0 p1 (c04_norm style.width (p1 - p0))) := by
  rw [c04c_strokeOne p0 p1 style tol (Bool.eq_false_iff.mpr fun h => hne (c04_peqSound _ _ h).symm)]
  simp only [c04_endCap, c04_startCap, he, hs, c04_squareCap_eq, Bool.false_eq_true, if_false, if_true,
    List.cons_append, List.nil_append, c04c_sqPath]
  generalize c04_norm style.width (p1 - p0) = n
  have ex : (p1 - (p1 + n)).x = -n.x := by simp only [kdefs, scalar_norm]; ring
  have ey : (p1 - (p1 + n)).y = -n.y := by simp only [kdefs, scalar_norm]; ring
  simp only [ex, ey, sub_neg_eq_add, ← sub_eq_add_neg]

theorem c04c_sqPath_winding (p0 p1 q : Point K) (n : Vec2 K) (k : K) (hk : 0 ≤ k)
    (hnx : n.x = -(p1.y - p0.y) * k) (hny : n.y = (p1.x - p0.x) * k) :
    pathWinding (c04c_sqPath p0 p1 n) q
      = some (C04C.quadSum (p0.x - n.x - n.y - q.x) (p0.y - n.y + n.x - q.y) (p1.x - n.x + n.y - q.x) (p1.y - n.y - n.x - q.y)
          (p1.x + n.x + n.y - q.x) (p1.y + n.y - n.x - q.y) (p0.x + n.x - n.y - q.x) (p0.y + n.y + n.x - q.y)) := by
  show pathWinding (polygon (p0 - n) [p1 - n, ⟨p1.x - n.x + n.y, p1.y - n.y - n.x⟩,
   ⟨p1.x + n.x + n.y, p1.y + n.y - n.x⟩, ⟨p1.x + n.x, p1.y + n.y⟩, p0 + n,
   ⟨p0.x + n.x - n.y, p0.y + n.y + n.x⟩, ⟨p0.x - n.x - n.y, p0.y - n.y + n.x⟩]) q = _
  rw [c04c_pathWinding_polygon]
  simp only [lineChain, crossSum_cons, crossSum_nil, List.getLast_cons_cons, List.getLast_singleton, kc, vsub_x, vsub_y,
    PathSeg.start, PathSeg.end, Line.start, Line.end, point_sub_vec, point_add_vec, scalar_norm, add_zero]
  have hk1 : 0 ≤ k + 1 := by linarith
  have m1 := c04c_kcr_insert (p0.x - n.x - n.y - q.x) (p0.y - n.y + n.x - q.y) (p0.x - n.x - q.x) (p0.y - n.y - q.y)
    (p1.x - n.x - q.x) (p1.y - n.y - q.y) (p1.x - p0.x) (p1.y - p0.y) k 1 hk zero_le_one
    (by rw [hny]; ring) (by rw [hnx]; ring) (by ring) (by ring)
  have m2 := c04c_kcr_insert (p0.x - n.x - n.y - q.x) (p0.y - n.y + n.x - q.y) (p1.x - n.x - q.x) (p1.y - n.y - q.y)
    (p1.x - n.x + n.y - q.x) (p1.y - n.y - n.x - q.y) (p1.x - p0.x) (p1.y - p0.y) (k + 1) k hk1 hk
    (by rw [hny]; ring) (by rw [hnx]; ring) (by rw [hny]; ring) (by rw [hnx]; ring)
  have m3 := c04c_kcr_insert (p1.x + n.x + n.y - q.x) (p1.y + n.y - n.x - q.y) (p1.x + n.x - q.x) (p1.y + n.y - q.y)
    (p0.x + n.x - q.x) (p0.y + n.y - q.y) (p0.x - p1.x) (p0.y - p1.y) k 1 hk zero_le_one
    (by rw [hny]; ring) (by rw [hnx]; ring) (by ring) (by ring)
  have m4 := c04c_kcr_insert (p1.x + n.x + n.y - q.x) (p1.y + n.y - n.x - q.y) (p0.x + n.x - q.x) (p0.y + n.y - q.y)
    (p0.x + n.x - n.y - q.x) (p0.y + n.y + n.x - q.y) (p0.x - p1.x) (p0.y - p1.y) (k + 1) k hk1 hk
    (by rw [hny]; ring) (by rw [hnx]; ring) (by rw [hny]; ring) (by rw [hnx]; ring)
  unfold C04C.quadSum
  congr 1
  omega

/-! ### pure field: the extended rectangle `p0 ∓ n − e, p1 ∓ n + e`, `n = k·(−t.y, t.x)`, `e = k·t` -/
section field
variable (p0x p0y p1x p1y qx qy k nx ny : K)

theorem c04c_sq_ids (hnx : nx = -(p1y - p0y) * k) (hny : ny = (p1x - p0x) * k) :
    (p0x - nx - ny - qx) * (p1y - ny - nx - qy) - (p0y - ny + nx - qy) * (p1x - nx + ny - qx)
      = (1 + 2 * k) * (((p1x - p0x) * (qy - p0y) - (p1y - p0y) * (qx - p0x))
          + k * ((p1x - p0x) * (p1x - p0x) + (p1y - p0y) * (p1y - p0y))) ∧
    (p1x - nx + ny - qx) * (p1y + ny - nx - qy) - (p1y - ny - nx - qy) * (p1x + nx + ny - qx)
      = 2 * k * ((1 + k) * ((p1x - p0x) * (p1x - p0x) + (p1y - p0y) * (p1y - p0y))
          - ((qx - p0x) * (p1x - p0x) + (qy - p0y) * (p1y - p0y))) ∧
    (p1x + nx + ny - qx) * (p0y + ny + nx - qy) - (p1y + ny - nx - qy) * (p0x + nx - ny - qx)
      = (1 + 2 * k) * (k * ((p1x - p0x) * (p1x - p0x) + (p1y - p0y) * (p1y - p0y))
          - ((p1x - p0x) * (qy - p0y) - (p1y - p0y) * (qx - p0x))) ∧
    (p0x + nx - ny - qx) * (p0y - ny + nx - qy) - (p0y + ny + nx - qy) * (p0x - nx - ny - qx)
      = 2 * k * (((qx - p0x) * (p1x - p0x) + (qy - p0y) * (p1y - p0y))
          + k * ((p1x - p0x) * (p1x - p0x) + (p1y - p0y) * (p1y - p0y))) := by
  subst hnx hny
  refine ⟨?_, ?_, ?_, ?_⟩ <;> ring

theorem c04c_sq_strictIn_iff (hnx : nx = -(p1y - p0y) * k) (hny : ny = (p1x - p0x) * k) (hk : 0 < k) :
    C04C.StrictIn (p0x - nx - ny - qx) (p0y - ny + nx - qy) (p1x - nx + ny - qx) (p1y - ny - nx - qy)
        (p1x + nx + ny - qx) (p1y + ny - nx - qy) (p0x + nx - ny - qx) (p0y + ny + nx - qy) ↔
      (-(k * ((p1x - p0x) * (p1x - p0x) + (p1y - p0y) * (p1y - p0y)))
          < (qx - p0x) * (p1x - p0x) + (qy - p0y) * (p1y - p0y) ∧
       (qx - p0x) * (p1x - p0x) + (qy - p0y) * (p1y - p0y)
          < (1 + k) * ((p1x - p0x) * (p1x - p0x) + (p1y - p0y) * (p1y - p0y)) ∧
       -(k * ((p1x - p0x) * (p1x - p0x) + (p1y - p0y) * (p1y - p0y))) < (p1x - p0x) * (qy - p0y) - (p1y - p0y) * (qx - p0x) ∧
       (p1x - p0x) * (qy - p0y) - (p1y - p0y) * (qx - p0x) < k * ((p1x - p0x) * (p1x - p0x) + (p1y - p0y) * (p1y - p0y))) := by
  obtain ⟨e1, e2, e3, e4⟩ := c04c_sq_ids p0x p0y p1x p1y qx qy k nx ny hnx hny
  have h2k : 0 < 2 * k := by linarith
  have h12k : 0 < 1 + 2 * k := by linarith
  simp only [C04C.StrictIn]
  rw [e1, e2, e3, e4]
  constructor
  · rintro ⟨h1, h2, h3, h4⟩
    have := (mul_pos_iff_of_pos_left h12k).mp h1
    have := (mul_pos_iff_of_pos_left h2k).mp h2
    have := (mul_pos_iff_of_pos_left h12k).mp h3
    have := (mul_pos_iff_of_pos_left h2k).mp h4
    exact ⟨by linarith, by linarith, by linarith, by linarith⟩
  · rintro ⟨h1, h2, h3, h4⟩
    exact ⟨mul_pos h12k (by linarith), mul_pos h2k (by linarith), mul_pos h12k (by linarith), mul_pos h2k (by linarith)⟩

theorem c04c_sq_closedIn_iff (hnx : nx = -(p1y - p0y) * k) (hny : ny = (p1x - p0x) * k) (hk : 0 < k) :
    C04C.ClosedIn (p0x - nx - ny - qx) (p0y - ny + nx - qy) (p1x - nx + ny - qx) (p1y - ny - nx - qy)
        (p1x + nx + ny - qx) (p1y + ny - nx - qy) (p0x + nx - ny - qx) (p0y + ny + nx - qy) ↔
      (-(k * ((p1x - p0x) * (p1x - p0x) + (p1y - p0y) * (p1y - p0y)))
          ≤ (qx - p0x) * (p1x - p0x) + (qy - p0y) * (p1y - p0y) ∧
       (qx - p0x) * (p1x - p0x) + (qy - p0y) * (p1y - p0y)
          ≤ (1 + k) * ((p1x - p0x) * (p1x - p0x) + (p1y - p0y) * (p1y - p0y)) ∧
       -(k * ((p1x - p0x) * (p1x - p0x) + (p1y - p0y) * (p1y - p0y))) ≤ (p1x - p0x) * (qy - p0y) - (p1y - p0y) * (qx - p0x) ∧
       (p1x - p0x) * (qy - p0y) - (p1y - p0y) * (qx - p0x) ≤ k * ((p1x - p0x) * (p1x - p0x) + (p1y - p0y) * (p1y - p0y))) := by
  obtain ⟨e1, e2, e3, e4⟩ := c04c_sq_ids p0x p0y p1x p1y qx qy k nx ny hnx hny
  have h2k : 0 < 2 * k := by linarith
  have h12k : 0 < 1 + 2 * k := by linarith
  simp only [C04C.ClosedIn]
  rw [e1, e2, e3, e4]
  constructor
  · rintro ⟨h1, h2, h3, h4⟩
    have := nonneg_of_mul_nonneg_right h1 h12k
    have := nonneg_of_mul_nonneg_right h2 h2k
    have := nonneg_of_mul_nonneg_right h3 h12k
    have := nonneg_of_mul_nonneg_right h4 h2k
    exact ⟨by linarith, by linarith, by linarith, by linarith⟩
  · rintro ⟨h1, h2, h3, h4⟩
    exact ⟨mul_nonneg h12k.le (by linarith), mul_nonneg h2k.le (by linarith), mul_nonneg h12k.le (by linarith),
      mul_nonneg h2k.le (by linarith)⟩

end field

/-- in the closed extended rectangle some point of the segment is within `√2·w2` -/
theorem c04c_sq_near (tx ty rx ry k w2 : K) (hT : 0 < tx * tx + ty * ty) (hk : 0 < k)
    (hkw : k * k * (tx * tx + ty * ty) = w2 * w2)
    (h0 : -(k * (tx * tx + ty * ty)) ≤ rx * tx + ry * ty) (h1 : rx * tx + ry * ty ≤ (1 + k) * (tx * tx + ty * ty))
    (h2 : -(k * (tx * tx + ty * ty)) ≤ tx * ry - ty * rx) (h3 : tx * ry - ty * rx ≤ k * (tx * tx + ty * ty)) :
    ∃ s : K, 0 ≤ s ∧ s ≤ 1 ∧ (s * tx - rx) * (s * tx - rx) + (s * ty - ry) * (s * ty - ry) ≤ 2 * (w2 * w2) := by
  have hw2 : 0 ≤ w2 * w2 := mul_self_nonneg w2
  have hkT := mul_pos hk hT
  have sqb : ∀ x : K, -(k * (tx * tx + ty * ty)) ≤ x → x ≤ k * (tx * tx + ty * ty) →
      x * x ≤ (w2 * w2) * (tx * tx + ty * ty) := by
    intro x hx0 hx1
    have e : (k * (tx * tx + ty * ty)) * (k * (tx * tx + ty * ty)) - x * x
        = (k * (tx * tx + ty * ty) - x) * (k * (tx * tx + ty * ty) + x) := by ring
    have := mul_nonneg (by linarith : 0 ≤ k * (tx * tx + ty * ty) - x) (by linarith : 0 ≤ k * (tx * tx + ty * ty) + x)
    have e2 : (k * (tx * tx + ty * ty)) * (k * (tx * tx + ty * ty)) = (w2 * w2) * (tx * tx + ty * ty) := by
      rw [← hkw]; ring
    linarith
  have hTR := sqb _ h2 h3
  rcases lt_or_ge (rx * tx + ry * ty) 0 with hneg | hpos
  · -- before the start: the start point
    refine ⟨0, le_refl _, zero_le_one, ?_⟩
    have hRT := sqb _ h0 (by linarith)
    have lag : ((0 * tx - rx) * (0 * tx - rx) + (0 * ty - ry) * (0 * ty - ry)) * (tx * tx + ty * ty)
        = (rx * tx + ry * ty) * (rx * tx + ry * ty) + (tx * ry - ty * rx) * (tx * ry - ty * rx) := by ring
    exact le_of_mul_le_mul_right (by rw [lag]; linarith) hT
  · rcases le_or_gt (rx * tx + ry * ty) (tx * tx + ty * ty) with hle | hgt
    · obtain ⟨s, hs0, hs1, hs⟩ := c04c_rect_near tx ty rx ry k w2 hT hk hkw hpos hle h2 h3
      exact ⟨s, hs0, hs1, by linarith⟩
    · -- past the end: the end point
      refine ⟨1, zero_le_one, le_refl _, ?_⟩
      have hRT := sqb (rx * tx + ry * ty - (tx * tx + ty * ty)) (by linarith) (by linarith)
      have lag : ((1 * tx - rx) * (1 * tx - rx) + (1 * ty - ry) * (1 * ty - ry)) * (tx * tx + ty * ty)
          = (rx * tx + ry * ty - (tx * tx + ty * ty)) * (rx * tx + ry * ty - (tx * tx + ty * ty))
            + (tx * ry - ty * rx) * (tx * ry - ty * rx) := by ring
      exact le_of_mul_le_mul_right (by rw [lag]; linarith) hT

/-! ### model level -/
section model
variable [C04HypotLaw K]

/-- `q` is in the OPEN rectangle swept by the segment extended by `w/2` at both ends: `−(w/2)·|t| < (q − p0)·t < t·t + (w/2)·|t|`
    (`|t| = (p1 − p0).hypot`) and distance from the supporting line `< w/2` -/
def c04c_InRectSq (p0 p1 : Point K) (w : K) (q : Point K) : Prop :=
  -(w / 2 * (p1 - p0).hypot) < (q - p0).dot (p1 - p0) ∧
  (q - p0).dot (p1 - p0) < (p1 - p0).hypot2 + w / 2 * (p1 - p0).hypot ∧
    ((p1 - p0).cross (q - p0)) ^ 2 < (w / 2) ^ 2 * (p1 - p0).hypot2

instance (p0 p1 : Point K) (w : K) (q : Point K) : Decidable (c04c_InRectSq p0 p1 w q) := by
  unfold c04c_InRectSq; infer_instance

theorem c04c_kT2 (w : K) (p0 p1 : Point K) (hne : p0 ≠ p1) :
    c04c_k w p0 p1 * ((p1.x - p0.x) * (p1.x - p0.x) + (p1.y - p0.y) * (p1.y - p0.y))
      = w / 2 * Scalar.hypot (p1.x - p0.x) (p1.y - p0.y) := by
  rw [← C04HypotLaw.hypot_mul_self, ← c04c_k_hyp w p0 p1 hne]
  ring

theorem c04c_inRectSq_iff (w : K) (p0 p1 q : Point K) (hw : 0 < w) (hne : p0 ≠ p1) :
    c04c_InRectSq p0 p1 w q ↔
      (-(c04c_k w p0 p1 * ((p1.x - p0.x) * (p1.x - p0.x) + (p1.y - p0.y) * (p1.y - p0.y)))
          < (q.x - p0.x) * (p1.x - p0.x) + (q.y - p0.y) * (p1.y - p0.y) ∧
       (q.x - p0.x) * (p1.x - p0.x) + (q.y - p0.y) * (p1.y - p0.y)
          < (1 + c04c_k w p0 p1) * ((p1.x - p0.x) * (p1.x - p0.x) + (p1.y - p0.y) * (p1.y - p0.y)) ∧
       -(c04c_k w p0 p1 * ((p1.x - p0.x) * (p1.x - p0.x) + (p1.y - p0.y) * (p1.y - p0.y)))
          < (p1.x - p0.x) * (q.y - p0.y) - (p1.y - p0.y) * (q.x - p0.x) ∧
       (p1.x - p0.x) * (q.y - p0.y) - (p1.y - p0.y) * (q.x - p0.x)
          < c04c_k w p0 p1 * ((p1.x - p0.x) * (p1.x - p0.x) + (p1.y - p0.y) * (p1.y - p0.y))) := by
  have hT := c04c_T2_pos p0 p1 hne
  have hk := c04c_k_pos w p0 p1 hw hne
  have hkw := c04c_k_sq w p0 p1 hne
  have hkT := mul_pos hk hT
  have hkH := c04c_kT2 w p0 p1 hne
  have e : (w / 2) ^ 2 * ((p1.x - p0.x) * (p1.x - p0.x) + (p1.y - p0.y) * (p1.y - p0.y))
      = (c04c_k w p0 p1 * ((p1.x - p0.x) * (p1.x - p0.x) + (p1.y - p0.y) * (p1.y - p0.y))) ^ 2 := by
    rw [sq, ← hkw]; ring
  unfold c04c_InRectSq
  simp only [Vec2.dot, Vec2.cross, Vec2.hypot2, Vec2.hypot, scalar_norm, vsub_x, vsub_y]
  rw [e, ← hkH]
  constructor
  · rintro ⟨h1, h2, h3⟩
    have := abs_lt.mp (abs_lt_of_sq_lt_sq h3 hkT.le)
    exact ⟨h1, by linarith, this.1, this.2⟩
  · rintro ⟨h1, h2, h3, h4⟩
    exact ⟨h1, by linarith, sq_lt_sq' h3 h4⟩

theorem c04c_sq_D (w : K) (p0 p1 q : Point K) (hw : 0 < w) (hne : p0 ≠ p1) :
    let n := c04_norm w (p1 - p0)
    0 < ((p0.x - n.x - n.y - q.x) * (p1.y - n.y - n.x - q.y) - (p0.y - n.y + n.x - q.y) * (p1.x - n.x + n.y - q.x))
      + ((p1.x + n.x + n.y - q.x) * (p0.y + n.y + n.x - q.y) - (p1.y + n.y - n.x - q.y) * (p0.x + n.x - n.y - q.x)) := by
  intro n
  obtain ⟨hx, hy⟩ := c04c_norm_coords w p0 p1
  obtain ⟨e1, _, e3, _⟩ := c04c_sq_ids p0.x p0.y p1.x p1.y q.x q.y (c04c_k w p0 p1) n.x n.y hx hy
  rw [e1, e3]
  have hk := c04c_k_pos w p0 p1 hw hne
  have := mul_pos (by linarith : 0 < 1 + 2 * c04c_k w p0 p1) (mul_pos hk (c04c_T2_pos p0 p1 hne))
  linarith

theorem c04c_sq_cover (w : K) (p0 p1 q : Point K) (hw : 0 < w) (hne : p0 ≠ p1) (hin : c04c_InRectSq p0 p1 w q) :
    pathWinding (c04c_sqPath p0 p1 (c04_norm w (p1 - p0))) q = some 1 := by
  obtain ⟨hx, hy⟩ := c04c_norm_coords w p0 p1
  have hk := c04c_k_pos w p0 p1 hw hne
  rw [c04c_sqPath_winding p0 p1 q _ _ hk.le hx hy]
  have h := (c04c_sq_strictIn_iff p0.x p0.y p1.x p1.y q.x q.y (c04c_k w p0 p1) _ _ hx hy hk).mpr
    ((c04c_inRectSq_iff w p0 p1 q hw hne).mp hin)
  rw [C04C.para_inside _ _ _ _ _ _ _ _ (by ring) h.1 h.2.1 h.2.2.1 h.2.2.2]

theorem c04c_sq_nonneg (w : K) (p0 p1 q : Point K) (hw : 0 < w) (hne : p0 ≠ p1) :
    ∃ wn : Int, pathWinding (c04c_sqPath p0 p1 (c04_norm w (p1 - p0))) q = some wn ∧ 0 ≤ wn := by
  obtain ⟨hx, hy⟩ := c04c_norm_coords w p0 p1
  rw [c04c_sqPath_winding p0 p1 q _ _ (c04c_k_pos w p0 p1 hw hne).le hx hy]
  exact ⟨_, rfl, C04C.para_nonneg _ _ _ _ _ _ _ _ (by ring) (by ring) (c04c_sq_D w p0 p1 q hw hne)⟩

/-- the four edges of the extended rectangle (each is the union of three or one consecutive edges of the outline) -/
theorem c04c_sq_winding (w : K) (p0 p1 q : Point K) (hw : 0 < w) (hne : p0 ≠ p1)
    (h1 : ¬ OnSeg (.Line ⟨⟨p0.x - (c04_norm w (p1 - p0)).x - (c04_norm w (p1 - p0)).y,
                            p0.y - (c04_norm w (p1 - p0)).y + (c04_norm w (p1 - p0)).x⟩,
                          ⟨p1.x - (c04_norm w (p1 - p0)).x + (c04_norm w (p1 - p0)).y,
                            p1.y - (c04_norm w (p1 - p0)).y - (c04_norm w (p1 - p0)).x⟩⟩) q)
    (h2 : ¬ OnSeg (.Line ⟨⟨p1.x - (c04_norm w (p1 - p0)).x + (c04_norm w (p1 - p0)).y,
                            p1.y - (c04_norm w (p1 - p0)).y - (c04_norm w (p1 - p0)).x⟩,
                          ⟨p1.x + (c04_norm w (p1 - p0)).x + (c04_norm w (p1 - p0)).y,
                            p1.y + (c04_norm w (p1 - p0)).y - (c04_norm w (p1 - p0)).x⟩⟩) q)
    (h3 : ¬ OnSeg (.Line ⟨⟨p1.x + (c04_norm w (p1 - p0)).x + (c04_norm w (p1 - p0)).y,
                            p1.y + (c04_norm w (p1 - p0)).y - (c04_norm w (p1 - p0)).x⟩,
                          ⟨p0.x + (c04_norm w (p1 - p0)).x - (c04_norm w (p1 - p0)).y,
                            p0.y + (c04_norm w (p1 - p0)).y + (c04_norm w (p1 - p0)).x⟩⟩) q)
    (h4 : ¬ OnSeg (.Line ⟨⟨p0.x + (c04_norm w (p1 - p0)).x - (c04_norm w (p1 - p0)).y,
                            p0.y + (c04_norm w (p1 - p0)).y + (c04_norm w (p1 - p0)).x⟩,
                          ⟨p0.x - (c04_norm w (p1 - p0)).x - (c04_norm w (p1 - p0)).y,
                            p0.y - (c04_norm w (p1 - p0)).y + (c04_norm w (p1 - p0)).x⟩⟩) q) :
    pathWinding (c04c_sqPath p0 p1 (c04_norm w (p1 - p0))) q = some (if c04c_InRectSq p0 p1 w q then 1 else 0) := by
  obtain ⟨hx, hy⟩ := c04c_norm_coords w p0 p1
  have hk := c04c_k_pos w p0 p1 hw hne
  rw [c04c_sqPath_winding p0 p1 q _ _ hk.le hx hy]
  have o1 := c11_offEdge_of_not_onSeg _ _ _ h1
  have o2 := c11_offEdge_of_not_onSeg _ _ _ h2
  have o3 := c11_offEdge_of_not_onSeg _ _ _ h3
  have o4 := c11_offEdge_of_not_onSeg _ _ _ h4
  rw [C04C.para_winding _ _ _ _ _ _ _ _ (by ring) (by ring) (c04c_sq_D w p0 p1 q hw hne) o1 o2 o3 o4]
  congr 1
  exact if_congr ((c04c_sq_strictIn_iff p0.x p0.y p1.x p1.y q.x q.y (c04c_k w p0 p1) _ _ hx hy hk).trans
    (c04c_inRectSq_iff w p0 p1 q hw hne).symm) rfl rfl

/-- **exclusion, square caps**: farther than `√2·w/2` from every point of the segment -/
theorem c04c_sq_far (w : K) (p0 p1 q : Point K) (hw : 0 < w) (hne : p0 ≠ p1)
    (hfar : ∀ s : K, 0 ≤ s → s ≤ 1 → 2 * (w / 2) ^ 2 < (p0.lerp p1 s).distance_squared q) :
    pathWinding (c04c_sqPath p0 p1 (c04_norm w (p1 - p0))) q = some 0 := by
  obtain ⟨hx, hy⟩ := c04c_norm_coords w p0 p1
  have hk := c04c_k_pos w p0 p1 hw hne
  rw [c04c_sqPath_winding p0 p1 q _ _ hk.le hx hy]
  rw [C04C.para_out _ _ _ _ _ _ _ _ (by ring) (by ring) (c04c_sq_D w p0 p1 q hw hne)]
  intro hc
  obtain ⟨c1, c2, c3, c4⟩ := (c04c_sq_closedIn_iff p0.x p0.y p1.x p1.y q.x q.y (c04c_k w p0 p1) _ _ hx hy hk).mp hc
  obtain ⟨s, hs0, hs1, hs⟩ := c04c_sq_near (p1.x - p0.x) (p1.y - p0.y) (q.x - p0.x) (q.y - p0.y) (c04c_k w p0 p1) (w / 2)
    (c04c_T2_pos p0 p1 hne) hk (c04c_k_sq w p0 p1 hne) c1 c2 c3 c4
  have := hfar s hs0 hs1
  simp only [kdefs, scalar_norm] at this
  have e : (p0.x + (p1.x - p0.x) * s - q.x) * (p0.x + (p1.x - p0.x) * s - q.x) +
      (p0.y + (p1.y - p0.y) * s - q.y) * (p0.y + (p1.y - p0.y) * s - q.y)
      = (s * (p1.x - p0.x) - (q.x - p0.x)) * (s * (p1.x - p0.x) - (q.x - p0.x)) +
        (s * (p1.y - p0.y) - (q.y - p0.y)) * (s * (p1.y - p0.y) - (q.y - p0.y)) := by ring
  rw [e, sq] at this
  linarith

end model
end Kurbo
