import Proofs.Lemmas.C04Geom
/-! Helper definitions and lemmas for C04, part 8 (lawful ordered field + `C04HypotLaw`): every vertex of the outline of a
    polyline (bevel/miter joins, butt/square caps) is within the style bound of a vertex of the source. -/
set_option linter.unusedSectionVars false
set_option linter.unusedVariables false
namespace Kurbo
variable {K : Type} [Field K] [LinearOrder K] [IsStrictOrderedRing K] [FloorRing K] [Scalar K] [LawfulScalar K]

/-- `q` is within squared distance `R2` of some point of `V` -/
def c04_W (R2 : K) (V : List (Point K)) (q : Point K) : Prop := ∃ p ∈ V, q.distance_squared p ≤ R2

/-- the element is a `MoveTo`/`LineTo` whose point is near `V`, or a `ClosePath` (no curves) -/
def c04_elW (R2 : K) (V : List (Point K)) : PathEl K → Prop
  | .MoveTo q => c04_W R2 V q
  | .LineTo q => c04_W R2 V q
  | .ClosePath => True
  | _ => False

def c04_allW (R2 : K) (V : List (Point K)) (l : List (PathEl K)) : Prop := ∀ e ∈ l, c04_elW R2 V e

theorem c04_W_mono {R2 : K} {V V' : List (Point K)} (h : ∀ p ∈ V, p ∈ V') {q : Point K} (hq : c04_W R2 V q) : c04_W R2 V' q := by
  obtain ⟨p, hp, hd⟩ := hq
  exact ⟨p, h p hp, hd⟩
theorem c04_elW_mono {R2 : K} {V V' : List (Point K)} (h : ∀ p ∈ V, p ∈ V') {e : PathEl K} (he : c04_elW R2 V e) :
    c04_elW R2 V' e := by
  cases e with
  | MoveTo q => exact c04_W_mono h he
  | LineTo q => exact c04_W_mono h he
  | ClosePath => trivial
  | QuadTo _ _ => exact he
  | CurveTo _ _ _ => exact he
theorem c04_allW_mono {R2 : K} {V V' : List (Point K)} (h : ∀ p ∈ V, p ∈ V') {l : List (PathEl K)} (hl : c04_allW R2 V l) :
    c04_allW R2 V' l := fun e he => c04_elW_mono h (hl e he)

theorem c04_allW_nil {R2 : K} {V : List (Point K)} : c04_allW R2 V [] := fun _ h => (nomatch h)
theorem c04_allW_append {R2 : K} {V : List (Point K)} {a b : List (PathEl K)} (ha : c04_allW R2 V a) (hb : c04_allW R2 V b) :
    c04_allW R2 V (a ++ b) := by
  intro e he
  rcases List.mem_append.1 he with h | h
  · exact ha e h
  · exact hb e h
theorem c04_allW_cons {R2 : K} {V : List (Point K)} {x : PathEl K} {l : List (PathEl K)} (hx : c04_elW R2 V x)
    (hl : c04_allW R2 V l) : c04_allW R2 V (x :: l) := by
  intro e he
  rcases List.mem_cons.1 he with h | h
  · subst h; exact hx
  · exact hl e h
theorem c04_allW_single {R2 : K} {V : List (Point K)} {x : PathEl K} (hx : c04_elW R2 V x) : c04_allW R2 V [x] :=
  c04_allW_cons hx c04_allW_nil

theorem c04_dist_self (p : Point K) : p.distance_squared p = 0 := by
  cases p; kring
theorem c04_W_self {R2 : K} {V : List (Point K)} {p : Point K} (hR : 0 ≤ R2) (hp : p ∈ V) : c04_W R2 V p :=
  ⟨p, hp, by rw [c04_dist_self]; exact hR⟩

theorem c04_sub_add_hypot2 (p : Point K) (n : Vec2 K) : (p - (p + n)).hypot2 = n.hypot2 := by
  cases p; cases n; kring

/-- the end point of the last element of a near list is near -/
theorem c04_lastEndPoint_W {R2 : K} {V : List (Point K)} {l : List (PathEl K)} (hl : c04_allW R2 V l) {rp : Point K}
    (h : lastEndPoint l = some rp) : c04_W R2 V rp := by
  unfold lastEndPoint at h
  cases hg : l.getLast? with
  | none => rw [hg] at h; cases h
  | some e =>
    rw [hg] at h
    have hm : e ∈ l := List.mem_of_getLast? hg
    have := hl e hm
    cases e with
    | MoveTo q => simp only [PathEl.end_point, Option.some.injEq] at h; subst h; exact this
    | LineTo q => simp only [PathEl.end_point, Option.some.injEq] at h; subst h; exact this
    | ClosePath => cases h
    | QuadTo _ _ => exact this.elim
    | CurveTo _ _ _ => exact this.elim

theorem c04_lastEndPoint_snoc (l : List (PathEl K)) (e : PathEl K) : lastEndPoint (l ++ [e]) = e.end_point := by
  unfold lastEndPoint
  rw [List.getLast?_concat]

theorem c04_revEl_W {R2 : K} {V : List (Point K)} {a b : PathEl K} (ha : c04_elW R2 V a) (hb : c04_elW R2 V b) :
    c04_elW R2 V (c04_revEl a b) := by
  cases a with
  | MoveTo q => cases b <;> first | exact ha | exact hb
  | LineTo q => cases b <;> first | exact ha | exact hb
  | ClosePath => exact hb
  | QuadTo _ _ => exact ha.elim
  | CurveTo _ _ _ => exact ha.elim

theorem c04_zipWith_revEl_allW {R2 : K} {V : List (Point K)} : ∀ (l t : List (PathEl K)), c04_allW R2 V l → c04_allW R2 V t →
    c04_allW R2 V (List.zipWith c04_revEl l t) := by
  intro l
  induction l with
  | nil => intro t _ _; simp only [List.zipWith_nil_left]; exact c04_allW_nil
  | cons a l ih =>
    intro t hl ht
    cases t with
    | nil => simp only [List.zipWith_nil_right]; exact c04_allW_nil
    | cons b t =>
      simp only [List.zipWith_cons_cons]
      exact c04_allW_cons (c04_revEl_W (hl a List.mem_cons_self) (ht b List.mem_cons_self))
        (ih t (fun x hx => hl x (List.mem_cons_of_mem _ hx)) (fun x hx => ht x (List.mem_cons_of_mem _ hx)))

theorem c04_allW_reverse {R2 : K} {V : List (Point K)} {l : List (PathEl K)} (h : c04_allW R2 V l) : c04_allW R2 V l.reverse :=
  fun e he => h e (List.mem_reverse.1 he)

/-- the reversed backward path is near -/
theorem c04_extendReversed_allW {R2 : K} {V : List (Point K)} {l : List (PathEl K)} (hl : c04_PathOK l) (hw : c04_allW R2 V l)
    {rev : List (PathEl K)} (h : extendReversed l = some rev) : c04_allW R2 V rev := by
  rw [c04_extendReversed_PathOK hl] at h
  injection h with h
  subst h
  exact c04_allW_reverse (c04_zipWith_revEl_allW l l.tail hw (fun e he => hw e (List.mem_of_mem_tail he)))

/-- a square cap whose `norm` has squared length `rr`, around a point of `V` -/
theorem c04_squareCap_allW {R2 rr : K} {V : List (Point K)} (close : Bool) {s : Point K} (hs : s ∈ V) (n : Vec2 K)
    (hn : n.hypot2 = rr) (h1 : rr ≤ R2) (h2 : 2 * rr ≤ R2) : c04_allW R2 V (squareCap close s n) := by
  rw [c04_squareCap_eq]
  obtain ⟨d1, d2, d3⟩ := c04_squareCap_dist s n
  rw [hn] at d1 d2 d3
  refine c04_allW_append (c04_allW_cons ⟨s, hs, by rw [d1]; exact h2⟩ (c04_allW_single ⟨s, hs, by rw [d2]; exact h2⟩)) ?_
  cases close
  · exact c04_allW_single ⟨s, hs, by rw [d3]; exact h1⟩
  · exact c04_allW_single trivial

theorem c04_lastEndPoint_snoc' (l m : List (PathEl K)) (e : PathEl K) : lastEndPoint (l ++ (m ++ [e])) = e.end_point := by
  rw [← List.append_assoc]; exact c04_lastEndPoint_snoc _ e

/-! ### the invariant -/
section verts
variable [C04HypotLaw K]

/-- `R2` is a squared style bound: bevel or miter joins, butt or square caps; `(w/2)² ≤ R2`; `2·(w/2)² ≤ R2` if a cap is square;
    `(w/2·miter_limit)² ≤ R2` if joins are mitered -/
structure C04Bound (style : StrokeStyle K) (R2 : K) : Prop where
  join : style.join = 0 ∨ style.join = 1
  start_cap : style.start_cap ≠ 2
  end_cap : style.end_cap ≠ 2
  half : (style.width / 2) ^ 2 ≤ R2
  square : (style.start_cap ≠ 0 ∨ style.end_cap ≠ 0) → 2 * (style.width / 2) ^ 2 ≤ R2
  miter : style.join = 1 → (style.width / 2 * style.miter_limit) ^ 2 ≤ R2

/-- context invariant for the vertex bound, relative to the list `V` of source vertices seen so far -/
structure C04VInv (style : StrokeStyle K) (R2 : K) (V : List (Point K)) (c : StrokeCtx K) : Prop where
  inv : C04Inv c
  out : c04_allW R2 V c.output
  fwd : c04_allW R2 V c.forward_path
  bwd : c04_allW R2 V c.backward_path
  start_mem : c.start_pt ∈ V
  last_mem : c.last_pt ∈ V
  start_norm : c.forward_path ≠ [] → c.start_norm.hypot2 = (style.width / 2) ^ 2
  ret : c.forward_path ≠ [] → ∃ rp, lastEndPoint c.backward_path = some rp ∧ (c.last_pt - rp).hypot2 = (style.width / 2) ^ 2
  last_tan : c.forward_path ≠ [] → (c.last_tan.x ≠ 0 ∨ c.last_tan.y ≠ 0)
  start_tan : c.forward_path ≠ [] → (c.start_tan.x ≠ 0 ∨ c.start_tan.y ≠ 0)

theorem C04VInv.mono {style : StrokeStyle K} {R2 : K} {V V' : List (Point K)} {c : StrokeCtx K} (h : C04VInv style R2 V c)
    (hV : ∀ p ∈ V, p ∈ V') : C04VInv style R2 V' c :=
  ⟨h.inv, c04_allW_mono hV h.out, c04_allW_mono hV h.fwd, c04_allW_mono hV h.bwd, hV _ h.start_mem, hV _ h.last_mem,
    h.start_norm, h.ret, h.last_tan, h.start_tan⟩

theorem c04_joinApp_allW {style : StrokeStyle K} {R2 : K} {V : List (Point K)} (hB : C04Bound style R2) (c : StrokeCtx K)
    (tan0 : Vec2 K) (hl : c.last_pt ∈ V) (hab : c.last_tan.x ≠ 0 ∨ c.last_tan.y ≠ 0) (hcd : tan0.x ≠ 0 ∨ tan0.y ≠ 0) :
    c04_allW R2 V (c04_joinApp c style tan0).1 ∧ c04_allW R2 V (c04_joinApp c style tan0).2 := by
  have hR0 : 0 ≤ R2 := le_trans (sq_nonneg _) hB.half
  have hn := c04_norm_hypot2 style.width tan0 hcd
  apply c04_joinApp_forall (c04_elW R2 V) c style tan0 hB.join
  · intro e he; rw [c04_pivotF_mem he]; exact c04_W_self hR0 hl
  · intro e he; rw [c04_pivotB_mem he]; exact c04_W_self hR0 hl
  · intro h1 e he
    obtain ⟨rfl, ht, hx⟩ := c04_miterF_mem he
    have hX : 0 < c.last_tan.cross tan0 := by
      simpa only [scalar_norm, Nat.cast_zero, decide_eq_true_eq] using hx
    exact ⟨c.last_pt, hl, le_trans ((c04_miter_within_ctx c style tan0 hab hcd ht).1 hX) (hB.miter h1)⟩
  · intro h1 e he
    obtain ⟨rfl, ht, hx⟩ := c04_miterB_mem he
    have hX : c.last_tan.cross tan0 < 0 := by
      simpa only [scalar_norm, Nat.cast_zero, decide_eq_true_eq] using hx
    exact ⟨c.last_pt, hl, le_trans ((c04_miter_within_ctx c style tan0 hab hcd ht).2 hX) (hB.miter h1)⟩
  · exact ⟨c.last_pt, hl, by rw [(c04_offset_dist _ _).1, hn]; exact hB.half⟩
  · exact ⟨c.last_pt, hl, by rw [(c04_offset_dist _ _).2, hn]; exact hB.half⟩

theorem c04_stepLine_vinv {style : StrokeStyle K} {R2 : K} {V : List (Point K)} (hB : C04Bound style R2) (c : StrokeCtx K)
    (p1 : Point K) (h : C04VInv style R2 V c) (hne : p1.peq c.last_pt = false) (hp1 : p1 ∈ V) :
    C04VInv style R2 V (c04_stepLine style c p1) ∧ (c04_stepLine style c p1).forward_path ≠ [] ∧
      (c04_stepLine style c p1).start_pt = c.start_pt ∧ (c04_stepLine style c p1).last_pt = p1 := by
  have ht : (p1 - c.last_pt).x ≠ 0 ∨ (p1 - c.last_pt).y ≠ 0 := c04_sub_ne_zero (c04_peq_false_ne hne)
  have hn := c04_norm_hypot2 style.width (p1 - c.last_pt) ht
  obtain ⟨hinv', hne', ho, hs, hl⟩ := c04_stepLine_inv style c p1 h.inv
  refine ⟨?_, hne', hs, hl⟩
  have hW1m : c04_W R2 V (c.last_pt - c04_norm style.width (p1 - c.last_pt)) :=
    ⟨c.last_pt, h.last_mem, by rw [(c04_offset_dist _ _).1, hn]; exact hB.half⟩
  have hW1p : c04_W R2 V (c.last_pt + c04_norm style.width (p1 - c.last_pt)) :=
    ⟨c.last_pt, h.last_mem, by rw [(c04_offset_dist _ _).2, hn]; exact hB.half⟩
  have hW2m : c04_W R2 V (p1 - c04_norm style.width (p1 - c.last_pt)) :=
    ⟨p1, hp1, by rw [(c04_offset_dist _ _).1, hn]; exact hB.half⟩
  have hW2p : c04_W R2 V (p1 + c04_norm style.width (p1 - c.last_pt)) :=
    ⟨p1, hp1, by rw [(c04_offset_dist _ _).2, hn]; exact hB.half⟩
  by_cases he : c.forward_path = []
  · have e := c04_stepLine_empty style c p1 he
    rw [e] at hinv'
    rw [e]
    refine ⟨hinv', h.out, ?_, ?_, h.start_mem, hp1, fun _ => hn, fun _ => ⟨p1 + c04_norm style.width (p1 - c.last_pt), ?_, ?_⟩, fun _ => ht, fun _ => ht⟩
    · exact c04_allW_cons (R2 := R2) (V := V) (x := .MoveTo _) hW1m (c04_allW_single (x := .LineTo _) hW2m)
    · exact c04_allW_append h.bwd
        (c04_allW_cons (R2 := R2) (V := V) (x := .MoveTo _) hW1p (c04_allW_single (x := .LineTo _) hW2p))
    · exact c04_lastEndPoint_snoc' c.backward_path [_] (.LineTo _)
    · exact (c04_sub_add_hypot2 _ _).trans hn
  · have e := c04_stepLine_nonempty style c p1 he
    obtain ⟨hjf, hjb⟩ := c04_joinApp_allW (V := V) hB c (p1 - c.last_pt) h.last_mem (h.last_tan he) ht
    rw [e] at hinv'
    rw [e]
    refine ⟨hinv', h.out, ?_, ?_, h.start_mem, hp1, fun _ => h.start_norm he, fun _ => ⟨p1 + c04_norm style.width (p1 - c.last_pt), ?_, ?_⟩, fun _ => ht,
      fun _ => h.start_tan he⟩
    · exact c04_allW_append h.fwd (c04_allW_append hjf (c04_allW_single (x := .LineTo _) hW2m))
    · exact c04_allW_append h.bwd (c04_allW_append hjb (c04_allW_single (x := .LineTo _) hW2p))
    · exact c04_lastEndPoint_snoc' c.backward_path _ (.LineTo _)
    · exact (c04_sub_add_hypot2 _ _).trans hn

theorem c04_endCap_allW {style : StrokeStyle K} {R2 : K} {V : List (Point K)} (hB : C04Bound style R2) {tol : K} {lp rp : Point K}
    (hlp : lp ∈ V) (hrp : c04_W R2 V rp) (hd : (lp - rp).hypot2 = (style.width / 2) ^ 2) :
    c04_allW R2 V (c04_endCap tol style lp rp) := by
  unfold c04_endCap
  split
  · exact c04_allW_single (x := .LineTo _) hrp
  · rename_i h2; exact absurd h2 hB.end_cap
  · rename_i h0 _
    exact c04_squareCap_allW false hlp _ hd hB.half (hB.square (Or.inr (fun h => h0 h)))

theorem c04_startCap_allW {style : StrokeStyle K} {R2 : K} {V : List (Point K)} (hB : C04Bound style R2) {tol : K} {s : Point K}
    {n : Vec2 K} (hs : s ∈ V) (hn : n.hypot2 = (style.width / 2) ^ 2) : c04_allW R2 V (c04_startCap tol style s n) := by
  unfold c04_startCap
  split
  · exact c04_allW_single (x := .ClosePath) trivial
  · rename_i h2; exact absurd h2 hB.start_cap
  · rename_i h0 _
    exact c04_squareCap_allW true hs _ hn hB.half (hB.square (Or.inl (fun h => h0 h)))

/-- `finish` under the vertex invariant: no panic, paths reset, the new output is near `V` -/
theorem c04_finish_allW {style : StrokeStyle K} {R2 : K} {V : List (Point K)} (hB : C04Bound style R2) (c : StrokeCtx K)
    (h : C04VInv style R2 V c) :
    ∃ out', c04_allW R2 V out' ∧
      c.finish style = some { c with output := out', forward_path := [], backward_path := [] } := by
  by_cases he : c.forward_path = []
  · have hb := h.inv.empty_iff he
    refine ⟨c.output, h.out, ?_⟩
    rw [c04_finish_empty c style he]
    obtain ⟨o, f, b, _, _, _, _, _, _⟩ := c
    simp only at he hb
    subst he; subst hb
    rfl
  · obtain ⟨hf, hb⟩ := h.inv.ok_of_ne he
    obtain ⟨rp, hrp, hd⟩ := h.ret he
    obtain ⟨rev, hrev, _, _⟩ := c04_extendReversed_segs hb
    refine ⟨_, ?_, c04_finish_eq c style he hrp hrev⟩
    exact c04_allW_append (c04_allW_append (c04_allW_append (c04_allW_append h.out h.fwd)
      (c04_endCap_allW hB h.last_mem (c04_lastEndPoint_W h.bwd hrp) hd))
      (c04_extendReversed_allW hb h.bwd hrev)) (c04_startCap_allW hB h.start_mem (h.start_norm he))

/-- `finish_closed` under the vertex invariant, sub-path in progress, current point back at the start -/
theorem c04_finish_closed_vinv {style : StrokeStyle K} {R2 : K} {V : List (Point K)} (hB : C04Bound style R2) (c : StrokeCtx K)
    (h : C04VInv style R2 V c) (hne : c.forward_path ≠ []) (hls : c.last_pt = c.start_pt) :
    ∃ c', c.finish_closed style = some c' ∧ C04VInv style R2 V c' := by
  obtain ⟨hf, hb⟩ := h.inv.ok_of_ne hne
  have hs := c04_joinApp_segs c style c.start_tan
  obtain ⟨hjf, hjb⟩ := c04_joinApp_allW (V := V) hB c c.start_tan h.last_mem (h.last_tan hne) (h.start_tan hne)
  have hj := c04_do_join_nonempty c style c.start_tan hne
  have hb' : c04_PathOK (c.do_join style c.start_tan).backward_path := by
    rw [hj]; exact c04_PathOK_append hb hs.2
  have hbw : c04_allW R2 V (c.do_join style c.start_tan).backward_path := by
    rw [hj]; exact c04_allW_append h.bwd hjb
  have hfw : c04_allW R2 V (c.do_join style c.start_tan).forward_path := by
    rw [hj]; exact c04_allW_append h.fwd hjf
  have how : c04_allW R2 V (c.do_join style c.start_tan).output := by
    rw [hj]; exact h.out
  obtain ⟨rp, hrp⟩ := c04_lastEndPoint_PathOK hb'
  obtain ⟨rev, hrev, _, _⟩ := c04_extendReversed_segs hb'
  refine ⟨_, c04_finish_closed_eq c style hne hrp hrev, ?_⟩
  have hfld := c04_do_join_fields c style c.start_tan
  refine ⟨⟨Or.inl ⟨rfl, rfl⟩, fun _ _ => ?_, fun _ q t hq => (nomatch hq), fun _ q t hq => (nomatch hq)⟩, ?_, c04_allW_nil,
    c04_allW_nil, ?_, ?_, fun h0 => absurd rfl h0, fun h0 => absurd rfl h0, fun h0 => absurd rfl h0, fun h0 => absurd rfl h0⟩
  · show (c.do_join style c.start_tan).last_pt = (c.do_join style c.start_tan).start_pt
    rw [hfld.1, hfld.2.1]; exact hls
  · exact c04_allW_append (c04_allW_append (c04_allW_append (c04_allW_append (c04_allW_append how hfw)
      (c04_allW_single (x := .ClosePath) trivial)) (c04_allW_single (x := .MoveTo _) (c04_lastEndPoint_W hbw hrp)))
      (c04_extendReversed_allW hb' hbw hrev)) (c04_allW_single (x := .ClosePath) trivial)
  · show (c.do_join style c.start_tan).start_pt ∈ V
    rw [hfld.1]; exact h.start_mem
  · show (c.do_join style c.start_tan).last_pt ∈ V
    rw [hfld.2.1]; exact h.last_mem

/-! ### the loop -/

/-- the source vertices seen so far (`o`: the current point before the first element) -/
def c04_seen (o : Point K) (pre : List (PathEl K)) : List (Point K) := o :: pre.filterMap PathEl.end_point

theorem c04_seen_mono (o : Point K) (pre : List (PathEl K)) (el : PathEl K) :
    ∀ p ∈ c04_seen o pre, p ∈ c04_seen o (pre ++ [el]) := by
  intro p hp
  unfold c04_seen at hp ⊢
  rw [List.filterMap_append]
  rcases List.mem_cons.1 hp with h | h
  · exact h ▸ List.mem_cons_self
  · exact List.mem_cons_of_mem _ (List.mem_append_left _ h)

theorem c04_seen_new (o : Point K) (pre : List (PathEl K)) (el : PathEl K) (q : Point K) (h : el.end_point = some q) :
    q ∈ c04_seen o (pre ++ [el]) := by
  unfold c04_seen
  rw [List.filterMap_append]
  refine List.mem_cons_of_mem _ (List.mem_append_right _ ?_)
  simp only [List.filterMap_cons, h, List.filterMap_nil, List.mem_singleton]

theorem c04_V_step {style : StrokeStyle K} {R2 : K} (hB : C04Bound style R2) (o : Point K) (pre : List (PathEl K))
    (c : StrokeCtx K) (el : PathEl K) (hel : c04_isPoly el = true) (hI : C04VInv style R2 (c04_seen o pre) c) :
    ∃ c', c04_step style c el = some c' ∧ C04VInv style R2 (c04_seen o (pre ++ [el])) c' := by
  have hI' := hI.mono (c04_seen_mono o pre el)
  cases el with
  | QuadTo _ _ => cases hel
  | CurveTo _ _ _ => cases hel
  | MoveTo p =>
    obtain ⟨out', hout, hfin⟩ := c04_finish_allW hB c hI'
    have hst : c04_step style c (.MoveTo p) = some
        { c with output := out', forward_path := [], backward_path := [], start_pt := p, last_pt := p } := by
      simp only [c04_step, hfin]
    have hp : p ∈ c04_seen o (pre ++ [.MoveTo p]) := c04_seen_new o pre _ p rfl
    exact ⟨_, hst, ⟨Or.inl ⟨rfl, rfl⟩, fun _ _ => rfl, fun _ q t h => (nomatch h), fun _ q t h => (nomatch h)⟩, hout,
      c04_allW_nil, c04_allW_nil, hp, hp, fun h0 => absurd rfl h0, fun h0 => absurd rfl h0, fun h0 => absurd rfl h0,
      fun h0 => absurd rfl h0⟩
  | LineTo p1 =>
    by_cases hd : p1.peq c.last_pt = true
    · exact ⟨c, by simp only [c04_step, hd, Bool.not_true, Bool.false_eq_true, if_false], hI'⟩
    · have hd' : p1.peq c.last_pt = false := by simpa using hd
      exact ⟨_, by simp only [c04_step, hd', Bool.not_false, if_true],
        (c04_stepLine_vinv hB c p1 hI' hd' (c04_seen_new o pre _ p1 rfl)).1⟩
  | ClosePath =>
    have hstep : c04_step style c .ClosePath = (c04_closePrep style c).finish_closed style := rfl
    rw [hstep, c04_closePrep_eq]
    by_cases hd : c.last_pt.peq c.start_pt = true
    · simp only [hd, Bool.not_true, Bool.false_eq_true, if_false]
      by_cases he : c.forward_path = []
      · exact ⟨c, c04_finish_closed_empty c style he, hI'⟩
      · exact c04_finish_closed_vinv hB c hI' he (c04_peqSound _ _ hd)
    · have hd' : c.last_pt.peq c.start_pt = false := by simpa using hd
      simp only [hd', Bool.not_false, if_true]
      have hne : c.start_pt.peq c.last_pt = false := by
        cases hq : c.start_pt.peq c.last_pt with
        | false => rfl
        | true => rw [c04_peqSound _ _ hq] at hd'; exact absurd hd' (by simp [Point.peq, scalar_norm])
      obtain ⟨hv, hne1, hs1, hl1⟩ := c04_stepLine_vinv hB c c.start_pt hI' hne hI'.start_mem
      exact c04_finish_closed_vinv hB _ hv hne1 (by rw [hl1, hs1])

/-- every element of the output of the loop started in a fresh context at `o` is near the source vertices -/
theorem c04_loop_allW {style : StrokeStyle K} {R2 : K} (hB : C04Bound style R2) (o : Point K) (c0 : StrokeCtx K)
    (h0 : C04VInv style R2 [o] c0) (els : List (PathEl K)) (hp : ∀ e ∈ els, c04_isPoly e = true) :
    ∃ out, strokeLoop style els c0 = .ok out ∧ c04_allW R2 (c04_seen o els) out := by
  obtain ⟨cf, c', hI, hfin, hres⟩ := c04_strokeLoop_rule style (fun pre c => C04VInv style R2 (c04_seen o pre) c)
    (fun pre c el hel hI => c04_V_step hB o pre c el hel hI)
    (fun pre c hI => let ⟨_, _, h⟩ := c04_finish_allW hB c hI; ⟨_, h⟩) els [] c0 hp h0
  rw [List.nil_append] at hI
  obtain ⟨out', hout, hfin'⟩ := c04_finish_allW hB cf hI
  rw [hfin'] at hfin
  injection hfin with hfin
  subst hfin
  exact ⟨_, hres, hout⟩

theorem c04_vinv_fresh {style : StrokeStyle K} {R2 : K} (o : Point K) (c0 : StrokeCtx K) (hf : c0.forward_path = [])
    (hb : c0.backward_path = []) (ho : c0.output = []) (hs : c0.start_pt = o) (hl : c0.last_pt = o) :
    C04VInv style R2 [o] c0 := by
  refine ⟨⟨Or.inl ⟨hf, hb⟩, fun _ _ => hl.trans hs.symm, fun _ q t h => ?_, fun _ q t h => ?_⟩, ?_, ?_, ?_, ?_, ?_,
    fun h => absurd hf h, fun h => absurd hf h, fun h => absurd hf h, fun h => absurd hf h⟩
  · rw [hf] at h; cases h
  · rw [hb] at h; cases h
  · rw [ho]; exact c04_allW_nil
  · rw [hf]; exact c04_allW_nil
  · rw [hb]; exact c04_allW_nil
  · rw [hs]; exact List.mem_singleton.2 rfl
  · rw [hl]; exact List.mem_singleton.2 rfl

theorem c04_elW_iff {R2 : K} {V : List (Point K)} {e : PathEl K} (h : c04_elW R2 V e) :
    e = .ClosePath ∨ ∃ q, (e = .MoveTo q ∨ e = .LineTo q) ∧ ∃ p ∈ V, q.distance_squared p ≤ R2 := by
  cases e with
  | MoveTo q => exact Or.inr ⟨q, Or.inl rfl, h⟩
  | LineTo q => exact Or.inr ⟨q, Or.inr rfl, h⟩
  | ClosePath => exact Or.inl rfl
  | QuadTo _ _ => exact h.elim
  | CurveTo _ _ _ => exact h.elim

/-- `stroke_undashed`: the vertex bound, relative to the origin (the stroker's initial current point) and the source vertices -/
theorem c04_strokeUndashed_allW {style : StrokeStyle K} {R2 : K} (hB : C04Bound style R2) (els : List (PathEl K))
    (tolerance : K) (hp : ∀ e ∈ els, c04_isPoly e = true) :
    ∃ out, strokeUndashed els style tolerance = .ok out ∧ c04_allW R2 (c04_seen ⟨0, 0⟩ els) out := by
  unfold strokeUndashed
  refine c04_loop_allW hB ⟨0, 0⟩ _ (c04_vinv_fresh _ _ rfl rfl rfl ?_ ?_) els hp
  · simp only [scalar_norm, Nat.cast_zero]
  · simp only [scalar_norm, Nat.cast_zero]

theorem c04_loop_moveTo (style : StrokeStyle K) (p : Point K) (rest : List (PathEl K)) (c0 : StrokeCtx K)
    (hf : c0.forward_path = []) :
    strokeLoop style (.MoveTo p :: rest) c0 = strokeLoop style rest { c0 with start_pt := p, last_pt := p } := by
  rw [c04_strokeLoop_cons _ _ _ _ rfl]
  simp only [c04_step, c04_finish_empty c0 style hf]

/-- the same for a source that starts with `MoveTo`: relative to the source vertices only -/
theorem c04_strokeUndashed_allW_moveTo {style : StrokeStyle K} {R2 : K} (hB : C04Bound style R2) (p0 : Point K)
    (rest : List (PathEl K)) (tolerance : K) (hp : ∀ e ∈ rest, c04_isPoly e = true) :
    ∃ out, strokeUndashed (.MoveTo p0 :: rest) style tolerance = .ok out ∧
      c04_allW R2 ((PathEl.MoveTo p0 :: rest).filterMap PathEl.end_point) out := by
  unfold strokeUndashed
  rw [c04_loop_moveTo _ _ _ _ rfl]
  exact c04_loop_allW hB p0 _ (c04_vinv_fresh _ _ rfl rfl rfl rfl rfl) rest hp

end verts

end Kurbo
