import Mathlib.Analysis.SpecialFunctions.Integrals.Basic
import Mathlib.Analysis.SpecialFunctions.Sqrt
import Mathlib.Analysis.SpecialFunctions.Log.Deriv
import Mathlib.Analysis.SpecialFunctions.Pow.Real
import Mathlib.Analysis.Calculus.Deriv.Pow
import Mathlib.Tactic.LinearCombination
import Mathlib.MeasureTheory.Integral.DivergenceTheorem
/-! Helper lemmas for `Proofs/C03Q.lean`, plain real analysis (no model term here):
    `∫₀¹ √(a t² + b t + c) dt = F 1 − F 0` with the textbook antiderivative
    `F t = (2at+b)/(4a) · √Q(t) + (4ac − b²)/(8 a √a) · log (2 √a √Q(t) + 2at + b)`. -/
namespace Kurbo
open intervalIntegral

/-- the quadratic under the root: `|q′(t)|² = 4 · Q(t)` -/
def c03q_Q (a b c t : ℝ) : ℝ := a * t ^ 2 + b * t + c

/-- the argument of the logarithm of the antiderivative -/
noncomputable def c03q_L (a b c t : ℝ) : ℝ := 2 * √a * √(c03q_Q a b c t) + (2 * a * t + b)

/-- the antiderivative of `√Q` -/
noncomputable def c03q_F (a b c t : ℝ) : ℝ :=
  (2 * a * t + b) / (4 * a) * √(c03q_Q a b c t)
    + (4 * a * c - b ^ 2) / (8 * a * √a) * Real.log (c03q_L a b c t)

theorem c03q_four_a_Q (a b c t : ℝ) :
    4 * a * c03q_Q a b c t = (2 * a * t + b) ^ 2 + (4 * a * c - b ^ 2) := by
  unfold c03q_Q; ring

/-- with a non-negative "discriminant" `4ac − b²` the quadratic is non-negative -/
theorem c03q_Q_nonneg {a b c : ℝ} (ha : 0 < a) (hD : 0 ≤ 4 * a * c - b ^ 2) (t : ℝ) :
    0 ≤ c03q_Q a b c t := by
  have h := c03q_four_a_Q a b c t
  have h2 : 0 ≤ 4 * a * c03q_Q a b c t := by rw [h]; positivity
  have h4a : (0 : ℝ) < 4 * a := by linarith
  exact nonneg_of_mul_nonneg_right h2 h4a

theorem c03q_Q_zero (a b c : ℝ) : c03q_Q a b c 0 = c := by unfold c03q_Q; ring

theorem c03q_Q_one (a b c : ℝ) : c03q_Q a b c 1 = a + b + c := by unfold c03q_Q; ring

/-- the argument of the logarithm stays positive to the right of 0 when it is positive at 0 -/
theorem c03q_L_pos {a b c : ℝ} (ha : 0 < a) (hD : 0 ≤ 4 * a * c - b ^ 2)
    (h0 : 0 < c03q_L a b c 0) {t : ℝ} (ht : 0 ≤ t) : 0 < c03q_L a b c t := by
  by_contra hn
  have hn : c03q_L a b c t ≤ 0 := not_lt.mp hn
  unfold c03q_L at hn h0
  rw [c03q_Q_zero] at h0
  have hQ := c03q_Q_nonneg ha hD t
  have hQ0 := c03q_Q_nonneg ha hD 0
  rw [c03q_Q_zero] at hQ0
  have h4 := c03q_four_a_Q a b c t
  set r := √(c03q_Q a b c t) with hr
  set u := √a with hu
  set r0 := √c with hr0
  have hrr : r ^ 2 = c03q_Q a b c t := Real.sq_sqrt hQ
  have huu : u ^ 2 = a := Real.sq_sqrt ha.le
  have hr00 : r0 ^ 2 = c := Real.sq_sqrt hQ0
  have hr_nn : 0 ≤ r := Real.sqrt_nonneg _
  have hu_nn : 0 ≤ u := Real.sqrt_nonneg _
  have hr0_nn : 0 ≤ r0 := Real.sqrt_nonneg _
  -- 0 ≤ 2ur ≤ -s, hence 4aQ ≤ s², hence D ≤ 0
  have hur : 0 ≤ 2 * u * r := by positivity
  have hs : 2 * a * t + b ≤ 0 := by linarith
  have hsq : (2 * u * r) ^ 2 ≤ (2 * a * t + b) ^ 2 := by nlinarith
  have hsq' : (2 * u * r) ^ 2 = 4 * a * c03q_Q a b c t := by rw [mul_pow, mul_pow, huu, hrr]; ring
  have hD0 : 4 * a * c - b ^ 2 = 0 := by linarith
  -- at 0: 2 u r0 > -b ≥ 0 hence 4ac > b²
  have hb : b ≤ 0 := by nlinarith
  have hur0 : 0 ≤ 2 * u * r0 := by positivity
  have hsq0 : b ^ 2 < (2 * u * r0) ^ 2 := by nlinarith
  have hsq0' : (2 * u * r0) ^ 2 = 4 * a * c := by rw [mul_pow, mul_pow, huu, hr00]; ring
  linarith

/-- where the argument of the logarithm is positive the quadratic is positive -/
theorem c03q_Q_pos {a b c : ℝ} (ha : 0 < a) (hD : 0 ≤ 4 * a * c - b ^ 2) {t : ℝ}
    (hL : 0 < c03q_L a b c t) : 0 < c03q_Q a b c t := by
  rcases (c03q_Q_nonneg ha hD t).lt_or_eq with h | h
  · exact h
  · exfalso
    have h4 := c03q_four_a_Q a b c t
    unfold c03q_L at hL
    rw [← h, Real.sqrt_zero] at hL
    rw [← h] at h4
    have : (2 * a * t + b) ^ 2 = 0 := by nlinarith [sq_nonneg (2 * a * t + b)]
    have : 2 * a * t + b = 0 := by simpa using this
    linarith

theorem c03q_hasDerivAt_Q (a b c t : ℝ) : HasDerivAt (c03q_Q a b c) (2 * a * t + b) t := by
  unfold c03q_Q
  have h1 : HasDerivAt (fun t : ℝ => a * t ^ 2) (a * (2 * t)) t := by
    simpa using ((hasDerivAt_id t).fun_pow 2).const_mul a
  have h2 : HasDerivAt (fun t : ℝ => b * t) b t := by
    simpa using (hasDerivAt_id t).const_mul b
  refine ((h1.fun_add h2).add_const c).congr_deriv ?_
  ring

/-- `F′ = √Q` wherever `Q > 0` and the argument of the logarithm is positive -/
theorem c03q_hasDerivAt_F {a b c t : ℝ} (ha : 0 < a) (hQ : 0 < c03q_Q a b c t)
    (hL : 0 < c03q_L a b c t) : HasDerivAt (c03q_F a b c) (√(c03q_Q a b c t)) t := by
  have hq := c03q_hasDerivAt_Q a b c t
  have hs := hq.sqrt (ne_of_gt hQ)
  have hlin : HasDerivAt (fun t : ℝ => 2 * a * t + b) (2 * a) t := by
    simpa using ((hasDerivAt_id t).const_mul (2 * a)).add_const b
  have hLd : HasDerivAt (c03q_L a b c)
      (2 * √a * ((2 * a * t + b) / (2 * √(c03q_Q a b c t))) + 2 * a) t :=
    (hs.const_mul (2 * √a)).fun_add hlin
  have hlog := hLd.log (ne_of_gt hL)
  have h1 := (hlin.div_const (4 * a)).fun_mul hs
  have h2 := hlog.const_mul ((4 * a * c - b ^ 2) / (8 * a * √a))
  have h := h1.fun_add h2
  unfold c03q_F
  refine h.congr_deriv ?_
  have hLe : c03q_L a b c t = 2 * √a * √(c03q_Q a b c t) + (2 * a * t + b) := rfl
  rw [hLe] at hL ⊢
  have hrr : √(c03q_Q a b c t) ^ 2 = c03q_Q a b c t := Real.sq_sqrt hQ.le
  have huu : √a ^ 2 = a := Real.sq_sqrt ha.le
  have hr_pos : 0 < √(c03q_Q a b c t) := Real.sqrt_pos.mpr hQ
  have hu_pos : 0 < √a := Real.sqrt_pos.mpr ha
  set r := √(c03q_Q a b c t) with hr
  set u := √a with hu
  have hc : c = r ^ 2 - a * t ^ 2 - b * t := by rw [hrr]; unfold c03q_Q; ring
  rw [hc, ← huu]
  rw [← huu] at hL
  have hL' : 2 * u * r + (2 * u ^ 2 * t + b) ≠ 0 := ne_of_gt hL
  field_simp
  ring

/-- the fundamental theorem for `√Q` on `[0, 1]` -/
theorem c03q_integral_sqrt_Q {a b c : ℝ} (ha : 0 < a) (hD : 0 ≤ 4 * a * c - b ^ 2)
    (h0 : 0 < c03q_L a b c 0) :
    ∫ t in (0:ℝ)..1, √(c03q_Q a b c t) = c03q_F a b c 1 - c03q_F a b c 0 := by
  apply integral_eq_sub_of_hasDerivAt
  · intro t ht
    rw [Set.uIcc_of_le (by norm_num : (0:ℝ) ≤ 1)] at ht
    have hL := c03q_L_pos ha hD h0 ht.1
    exact c03q_hasDerivAt_F ha (c03q_Q_pos ha hD hL) hL
  · apply Continuous.intervalIntegrable
    unfold c03q_Q
    fun_prop

/-! ### the closed form as the model writes it -/

/-- `ba_c2 = b a^{-1/2} + 2 √c` of the model -/
noncomputable def c03q_bac2 (A B C : ℝ) : ℝ := B * (√A)⁻¹ + 2 * √C

/-- `v0` of the model (the non-logarithmic part of the closed form) -/
noncomputable def c03q_v0 (A B C : ℝ) : ℝ :=
  1 / 4 * (√A)⁻¹ * (√A)⁻¹ * B * (2 * √(A + B + C) - 2 * √C) + √(A + B + C)

/-- the logarithmic part of the closed form, as the model computes it -/
noncomputable def c03q_logpart (A B C : ℝ) : ℝ :=
  1 / 4 * (√A)⁻¹ ^ 3 * (4 * C * A - B * B) *
    Real.log (((2 * A + B) * (√A)⁻¹ + 2 * √(A + B + C)) / c03q_bac2 A B C)

theorem c03q_L_zero_eq {A : ℝ} (hA : 0 < A) (B C : ℝ) : c03q_L A B C 0 = √A * c03q_bac2 A B C := by
  have hu : √A ≠ 0 := ne_of_gt (Real.sqrt_pos.mpr hA)
  unfold c03q_L c03q_bac2
  rw [c03q_Q_zero]
  field_simp
  ring

theorem c03q_L_one_eq {A : ℝ} (hA : 0 < A) (B C : ℝ) :
    c03q_L A B C 1 = √A * ((2 * A + B) * (√A)⁻¹ + 2 * √(A + B + C)) := by
  have hu : √A ≠ 0 := ne_of_gt (Real.sqrt_pos.mpr hA)
  unfold c03q_L
  rw [c03q_Q_one]
  field_simp
  ring

/-- `ba_c2 > 0` is the positivity of the argument of the logarithm at `t = 0` -/
theorem c03q_L_zero_pos {A B C : ℝ} (hA : 0 < A) (h0 : 0 < c03q_bac2 A B C) : 0 < c03q_L A B C 0 := by
  rw [c03q_L_zero_eq hA]
  exact mul_pos (Real.sqrt_pos.mpr hA) h0

/-- `v0` is twice the non-logarithmic part of `F 1 − F 0` -/
theorem c03q_v0_eq {A : ℝ} (hA : 0 < A) (B C : ℝ) :
    c03q_v0 A B C = 2 * ((2 * A + B) / (4 * A) * √(A + B + C) - B / (4 * A) * √C) := by
  have hu : √A ≠ 0 := ne_of_gt (Real.sqrt_pos.mpr hA)
  have huu : √A ^ 2 = A := Real.sq_sqrt hA.le
  unfold c03q_v0
  set u := √A with hudef
  rw [← huu]
  field_simp
  ring

/-- the model's closed form is `2 (F 1 − F 0)` -/
theorem c03q_closed_form_eq {A B C : ℝ} (hA : 0 < A) (hD : 0 ≤ 4 * A * C - B ^ 2)
    (h0 : 0 < c03q_bac2 A B C) :
    c03q_v0 A B C + c03q_logpart A B C = 2 * (c03q_F A B C 1 - c03q_F A B C 0) := by
  have hu : 0 < √A := Real.sqrt_pos.mpr hA
  have hune : √A ≠ 0 := ne_of_gt hu
  have huu : √A ^ 2 = A := Real.sq_sqrt hA.le
  have hL0 := c03q_L_zero_pos hA h0
  have hL1 := c03q_L_pos hA hD hL0 (by norm_num : (0:ℝ) ≤ 1)
  have e0 : c03q_bac2 A B C = c03q_L A B C 0 / √A := by rw [c03q_L_zero_eq hA]; field_simp
  have e1 : (2 * A + B) * (√A)⁻¹ + 2 * √(A + B + C) = c03q_L A B C 1 / √A := by
    rw [c03q_L_one_eq hA]; field_simp
  have hlog : Real.log (((2 * A + B) * (√A)⁻¹ + 2 * √(A + B + C)) / c03q_bac2 A B C)
      = Real.log (c03q_L A B C 1) - Real.log (c03q_L A B C 0) := by
    rw [e0, e1, div_div_div_cancel_right₀ hune, Real.log_div (ne_of_gt hL1) (ne_of_gt hL0)]
  rw [c03q_v0_eq hA]
  unfold c03q_logpart c03q_F
  rw [hlog, c03q_Q_one, c03q_Q_zero]
  generalize Real.log (c03q_L A B C 1) = l1
  generalize Real.log (c03q_L A B C 0) = l0
  set u := √A with hudef
  rw [← huu]
  field_simp
  ring

/-! ### collinear control points (`4ac = b²`): the non-logarithmic part alone is an antiderivative, across a cusp too -/

/-- the non-logarithmic part of the antiderivative -/
noncomputable def c03q_Fnl (a b c t : ℝ) : ℝ := (2 * a * t + b) / (4 * a) * √(c03q_Q a b c t)

theorem c03q_hasDerivAt_Fnl {a b c t : ℝ} (ha : 0 < a) (hQ : 0 < c03q_Q a b c t) :
    HasDerivAt (c03q_Fnl a b c)
      (√(c03q_Q a b c t) - (4 * a * c - b ^ 2) / (8 * a * √(c03q_Q a b c t))) t := by
  have hq := c03q_hasDerivAt_Q a b c t
  have hs := hq.sqrt (ne_of_gt hQ)
  have hlin : HasDerivAt (fun t : ℝ => 2 * a * t + b) (2 * a) t := by
    simpa using ((hasDerivAt_id t).const_mul (2 * a)).add_const b
  have h1 := (hlin.div_const (4 * a)).fun_mul hs
  unfold c03q_Fnl
  refine h1.congr_deriv ?_
  have hrr : √(c03q_Q a b c t) ^ 2 = c03q_Q a b c t := Real.sq_sqrt hQ.le
  have hr_pos : 0 < √(c03q_Q a b c t) := Real.sqrt_pos.mpr hQ
  set r := √(c03q_Q a b c t) with hr
  have hc : c = r ^ 2 - a * t ^ 2 - b * t := by rw [hrr]; unfold c03q_Q; ring
  rw [hc]
  field_simp
  ring

theorem c03q_integral_sqrt_Q_collinear {a b c : ℝ} (ha : 0 < a) (hD : 4 * a * c - b ^ 2 = 0) :
    ∫ t in (0:ℝ)..1, √(c03q_Q a b c t) = c03q_Fnl a b c 1 - c03q_Fnl a b c 0 := by
  apply MeasureTheory.integral_eq_of_hasDerivAt_off_countable_of_le (c03q_Fnl a b c)
    (fun t => √(c03q_Q a b c t)) zero_le_one (Set.countable_singleton (-b / (2 * a)))
  · apply Continuous.continuousOn
    unfold c03q_Fnl c03q_Q
    fun_prop
  · intro t ht
    have htne : t ≠ -b / (2 * a) := fun h => ht.2 (by simp [h])
    have hs : 2 * a * t + b ≠ 0 := by
      intro h0
      apply htne
      field_simp
      linarith
    have h4 := c03q_four_a_Q a b c t
    rw [hD, add_zero] at h4
    have hpos : 0 < (2 * a * t + b) ^ 2 := by positivity
    have hQ : 0 < c03q_Q a b c t := by
      have h4a : (0 : ℝ) < 4 * a := by linarith
      have : 0 < 4 * a * c03q_Q a b c t := by rw [h4]; exact hpos
      exact pos_of_mul_pos_right this h4a.le
    have h := c03q_hasDerivAt_Fnl (b := b) (c := c) ha hQ
    rw [hD, zero_div, sub_zero] at h
    exact h
  · apply Continuous.intervalIntegrable
    unfold c03q_Q
    fun_prop

theorem c03q_v0_eq_Fnl {A : ℝ} (hA : 0 < A) (B C : ℝ) :
    c03q_v0 A B C = 2 * (c03q_Fnl A B C 1 - c03q_Fnl A B C 0) := by
  rw [c03q_v0_eq hA]
  unfold c03q_Fnl
  rw [c03q_Q_one, c03q_Q_zero]
  ring

/-! ### both non-Gauss branches at once: `2 ∫₀¹ √Q = v0 + logpart` whenever `a > 0` and `4ac ≥ b²` -/

/-- Cauchy–Schwarz in the form the model needs: `ba_c2 ≥ 0` -/
theorem c03q_bac2_nonneg {A B C : ℝ} (hA : 0 < A) (hD : 0 ≤ 4 * A * C - B ^ 2) : 0 ≤ c03q_bac2 A B C := by
  have hC : 0 ≤ C := by
    have h4 : 0 ≤ 4 * A * C := by nlinarith [sq_nonneg B]
    have h4a : (0 : ℝ) < 4 * A := by linarith
    exact nonneg_of_mul_nonneg_right h4 h4a
  have hu : 0 < √A := Real.sqrt_pos.mpr hA
  have huu : √A ^ 2 = A := Real.sq_sqrt hA.le
  have hrr : √C ^ 2 = C := Real.sq_sqrt hC
  have hr : 0 ≤ √C := Real.sqrt_nonneg _
  have hsq : B ^ 2 ≤ (2 * √A * √C) ^ 2 := by rw [mul_pow, mul_pow, huu, hrr]; linarith
  have habs : |B| ≤ |2 * √A * √C| := sq_le_sq.mp hsq
  rw [abs_of_nonneg (show 0 ≤ 2 * √A * √C by positivity)] at habs
  have hB : -(2 * √A * √C) ≤ B := by have := neg_abs_le B; linarith
  have e : c03q_bac2 A B C = (B + 2 * √A * √C) / √A := by
    unfold c03q_bac2; field_simp
  rw [e]
  apply div_nonneg _ hu.le
  linarith

/-- if `ba_c2 = 0` the control points are collinear: `4ac = b²` -/
theorem c03q_disc_zero_of_bac2_zero {A B C : ℝ} (hA : 0 < A) (hD : 0 ≤ 4 * A * C - B ^ 2)
    (h0 : c03q_bac2 A B C = 0) : 4 * A * C - B ^ 2 = 0 := by
  have hC : 0 ≤ C := by
    have h4 : 0 ≤ 4 * A * C := by nlinarith [sq_nonneg B]
    have h4a : (0 : ℝ) < 4 * A := by linarith
    exact nonneg_of_mul_nonneg_right h4 h4a
  have hu : 0 < √A := Real.sqrt_pos.mpr hA
  have huu : √A ^ 2 = A := Real.sq_sqrt hA.le
  have hrr : √C ^ 2 = C := Real.sq_sqrt hC
  have e : c03q_bac2 A B C = (B + 2 * √A * √C) / √A := by
    unfold c03q_bac2; field_simp
  rw [e, div_eq_zero_iff] at h0
  rcases h0 with h0 | h0
  · have hB : B = -(2 * √A * √C) := by linarith
    rw [hB, neg_sq, mul_pow, mul_pow, huu, hrr]; ring
  · exact absurd h0 (ne_of_gt hu)

theorem c03q_two_integral_eq {A B C : ℝ} (hA : 0 < A) (hD : 0 ≤ 4 * A * C - B ^ 2) :
    2 * ∫ t in (0:ℝ)..1, √(c03q_Q A B C t) = c03q_v0 A B C + c03q_logpart A B C := by
  rcases (c03q_bac2_nonneg hA hD).lt_or_eq with h | h
  · rw [c03q_closed_form_eq hA hD h, c03q_integral_sqrt_Q hA hD (c03q_L_zero_pos hA h)]
  · have hD0 := c03q_disc_zero_of_bac2_zero hA hD h.symm
    have hl : c03q_logpart A B C = 0 := by
      unfold c03q_logpart
      have : 4 * C * A - B * B = 0 := by linarith
      rw [this]; ring
    rw [hl, add_zero, c03q_v0_eq_Fnl hA, c03q_integral_sqrt_Q_collinear hA hD0]

end Kurbo
