import Proofs.Lemmas.C16B
/-! C16B: one loop iteration on a spelled command (`c16b_step`: explicit letter or implicit repetition) and the induction over
    the list of spelled commands (`c16b_loop`, `c16b_fromSvgBytes`). Arbitrary `[Scalar K]`. -/
set_option linter.unusedSectionVars false
namespace Kurbo

theorem c16b_letter_isLetter {α : Type} (c : C16Cmd α) : (isLower c.letter || isUpper c.letter) = true := by
  cases c <;> simp only [C16Cmd.letter] <;> split <;> decide

theorem c16b_letter_ne_zero {α : Type} (c : C16Cmd α) : c.letter ≠ 0 := by
  cases c <;> simp only [C16Cmd.letter] <;> split <;> decide

theorem c16b_letter_lower_ne_z {α : Type} (c : C16Cmd α) (h : c.isClose = false) : lowerCmd c.letter ≠ 122 := by
  cases c <;> first | (simp only [C16Cmd.letter]; split <;> decide) | cases h

/-- a well-formed number chunk is its white space, then a byte that can start a number, then the rest -/
theorem c16b_chunk_head {k : NumChunk} {r : List UInt8} (hk : k.Ok r) :
    ∃ b r', k.bytes = k.ws ++ b :: r' ∧ isNumStart b = true := by
  obtain ⟨b, br, hb, hnum⟩ := hk.valid.bytes_head
  exact ⟨b, br ++ k.sep, by simp [NumChunk.bytes, hb], hnum⟩

theorem c16b_ptChunk_head {q : PtChunk} {r : List UInt8} (hq : q.Ok r) :
    ∃ b r', q.bytes = q.x.ws ++ b :: r' ∧ (∀ c ∈ q.x.ws, isWs c = true) ∧ isNumStart b = true := by
  obtain ⟨b, r', hb, hnum⟩ := c16b_chunk_head hq.1
  exact ⟨b, r' ++ q.y.bytes, by simp [PtChunk.bytes, hb], hq.1.ws, hnum⟩

/-- the arguments of a command other than `Z` start with white space and a byte that can start a number -/
theorem c16b_argBytes_head {c : C16Cmd NumChunk} {r : List UInt8} (hok : c.ArgsOk r) (hc : c.isClose = false) :
    ∃ ws b r', c.argBytes = ws ++ b :: r' ∧ (∀ x ∈ ws, isWs x = true) ∧ isNumStart b = true := by
  cases c with
  | moveTo rel p => obtain ⟨b, r', h1, h2, h3⟩ := c16b_ptChunk_head (q := c16b_ptc p) hok; exact ⟨_, b, r', h1, h2, h3⟩
  | lineTo rel p => obtain ⟨b, r', h1, h2, h3⟩ := c16b_ptChunk_head (q := c16b_ptc p) hok; exact ⟨_, b, r', h1, h2, h3⟩
  | smoothQuadTo rel p => obtain ⟨b, r', h1, h2, h3⟩ := c16b_ptChunk_head (q := c16b_ptc p) hok; exact ⟨_, b, r', h1, h2, h3⟩
  | horiz rel x => obtain ⟨b, r', h1, h3⟩ := c16b_chunk_head (k := x) hok; exact ⟨_, b, r', h1, hok.ws, h3⟩
  | vert rel x => obtain ⟨b, r', h1, h3⟩ := c16b_chunk_head (k := x) hok; exact ⟨_, b, r', h1, hok.ws, h3⟩
  | quadTo rel p1 p2 =>
    obtain ⟨b, r', h1, h2, h3⟩ := c16b_ptChunk_head (q := c16b_ptc p1) hok.1
    exact ⟨_, b, r' ++ (c16b_ptc p2).bytes, by simp [C16Cmd.argBytes, h1], h2, h3⟩
  | smoothCurveTo rel p1 p2 =>
    obtain ⟨b, r', h1, h2, h3⟩ := c16b_ptChunk_head (q := c16b_ptc p1) hok.1
    exact ⟨_, b, r' ++ (c16b_ptc p2).bytes, by simp [C16Cmd.argBytes, h1], h2, h3⟩
  | curveTo rel p1 p2 p3 =>
    obtain ⟨b, r', h1, h2, h3⟩ := c16b_ptChunk_head (q := c16b_ptc p1) hok.1
    exact ⟨_, b, r' ++ ((c16b_ptc p2).bytes ++ (c16b_ptc p3).bytes), by simp [C16Cmd.argBytes, h1], h2, h3⟩
  | close rel => cases hc

section
variable {K : Type} [Scalar K]

/-- **one loop iteration = one spelled command** (letter spelled out, or omitted when it repeats `last_cmd`) -/
theorem c16b_step (fuel : Nat) (st : SvgSt K) (l : Lx) (s : C16Spelled) (r : List UInt8)
    (hrem : l.rem = s.bytes ++ r) (hok : s.Ok st.last_cmd r) (hp : st.path ≠ [] ∨ s.cmd.isMove = true) :
    svgLoop (fuel + 1) st l = svgLoop fuel (c16b_interp st s.value) (l.adv s.bytes.length) := by
  cases hex : s.explicit with
  | true =>
    have hb : s.bytes = s.ws ++ s.cmd.letter :: s.cmd.argBytes := by simp [C16Spelled.bytes, hex]
    have hrem' : l.rem = s.ws ++ s.cmd.letter :: (s.cmd.argBytes ++ r) := by rw [hrem, hb]; simp
    have h1 : (l.adv (s.ws.length + 1)).rem = s.cmd.argBytes ++ r := by
      have : l.rem = (s.ws ++ [s.cmd.letter]) ++ (s.cmd.argBytes ++ r) := by rw [hrem']; simp
      simpa using Lx.rem_adv this
    have hcmd := c16b_cmd st (l.adv (s.ws.length + 1)) s.cmd r h1 hok.args hp
    rw [step_letter fuel st _ hrem' hok.ws (c16b_letter_isLetter s.cmd) hcmd, Lx.adv_adv]
    have hlen : s.bytes.length = s.ws.length + 1 + s.cmd.argBytes.length := by
      rw [hb]; simp only [List.length_append, List.length_cons]; omega
    rw [hlen]; rfl
  | false =>
    obtain ⟨hws, hlc, hmove, hclose⟩ := hok.implicit hex
    have hb : s.bytes = s.cmd.argBytes := by simp [C16Spelled.bytes, hex, hws]
    have hp' : st.path ≠ [] := by
      rcases hp with h | h
      · exact h
      · rw [hmove] at h; cases h
    rw [hb] at hrem ⊢
    obtain ⟨ws, b, r', hab, hwsa, hnum⟩ := c16b_argBytes_head hok.args hclose
    have hrem' : l.rem = ws ++ b :: (r' ++ r) := by rw [hrem, hab]; simp
    have hcmd := c16b_cmd st l s.cmd r hrem hok.args (.inl hp')
    rw [hlc] at hcmd
    have hne : st.last_cmd ≠ 0 := by rw [← hlc]; exact c16b_letter_ne_zero _
    have hinv : st.Inv := by unfold SvgSt.Inv; rw [← hlc]; exact c16b_letter_lower_ne_z _ hclose
    rw [step_implicit fuel st _ hrem' hwsa hnum hne hinv hcmd]; rfl

theorem c16b_spelled_bytes_pos (s : C16Spelled) (lc : UInt8) (r : List UInt8) (hok : s.Ok lc r) : 0 < s.bytes.length := by
  cases hex : s.explicit with
  | true => simp [C16Spelled.bytes, hex]; omega
  | false =>
    obtain ⟨-, -, -, hclose⟩ := hok.implicit hex
    obtain ⟨ws, b, r', hab, -, -⟩ := c16b_argBytes_head hok.args hclose
    simp [C16Spelled.bytes, hex, hab]; omega

/-- **the induction**: from any state with a non-empty path (or in front of an `M`), with any fuel larger than the number of
    commands, the loop on the spelled command list returns the path of the folded meaning -/
theorem c16b_loop (ss : List C16Spelled) (tail : List UInt8) :
    ∀ (fuel : Nat) (st : SvgSt K) (l : Lx), ss.length < fuel → l.rem = c16b_spell ss tail →
      c16b_SpelledOk st.last_cmd ss tail → (st.path ≠ [] ∨ c16b_startsWithMove (ss.map (·.cmd))) →
      svgLoop fuel st l = .ok (c16b_run st (ss.map C16Spelled.value)).path := by
  induction ss with
  | nil =>
    intro fuel st l hf hrem hok _
    obtain ⟨f, rfl⟩ : ∃ f, fuel = f + 1 := ⟨fuel - 1, by simp at hf; omega⟩
    exact step_end f st l tail hrem hok
  | cons s ss ih =>
    intro fuel st l hf hrem hok hp
    obtain ⟨f, rfl⟩ : ∃ f, fuel = f + 1 := ⟨fuel - 1, by simp at hf; omega⟩
    have hp' : st.path ≠ [] ∨ s.cmd.isMove = true := hp
    rw [c16b_step f st l s (c16b_spell ss tail) hrem hok.1 hp']
    simp only [List.map_cons, c16b_run_cons]
    apply ih
    · simp at hf; omega
    · exact Lx.rem_adv hrem
    · rw [c16b_interp_last_cmd]; simpa [C16Spelled.value] using hok.2
    · exact .inl (c16b_interp_path_ne _ _)

theorem c16b_spell_length (ss : List C16Spelled) (tail : List UInt8) (lc : UInt8) (hok : c16b_SpelledOk lc ss tail) :
    ss.length ≤ (c16b_spell ss tail).length := by
  induction ss generalizing lc with
  | nil => simp
  | cons s ss ih =>
    have := c16b_spelled_bytes_pos s lc _ hok.1
    have := ih _ hok.2
    simp only [c16b_spell, List.length_cons, List.length_append]; omega

/-- the whole parser on a spelled command list -/
theorem c16b_fromSvgBytes (data : ByteArray) (ss : List C16Spelled) (tail : List UInt8)
    (hdata : data.data.toList = c16b_spell ss tail) (hok : c16b_SpelledOk 0 ss tail)
    (hm : c16b_startsWithMove (ss.map (·.cmd))) :
    fromSvgBytes (K := K) data = .ok (c16b_run svgInit (ss.map C16Spelled.value)).path := by
  rw [fromSvgBytes_eq_run]
  unfold svgRun
  apply c16b_loop ss tail
  · have := c16b_spell_length ss tail 0 hok
    have hs : data.size = (c16b_spell ss tail).length := by rw [← hdata]; simp
    simp only [Nat.sub_zero]; omega
  · simp [Lx.rem, hdata]
  · exact hok
  · exact .inr hm

end
end Kurbo
