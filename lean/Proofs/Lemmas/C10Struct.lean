import Kurbo.Shapes
import Proofs.Lemmas.C07
/-! Helper definitions and lemmas for C10 (shape outlines), part 1: the structure of the element lists, for an
    ARBITRARY `Scalar` (also `Float`).  Core Lean only.  `Ops` is opened here because these are statements about the
    model's own arithmetic (there is no Mathlib arithmetic in this file). -/
set_option linter.unusedSectionVars false
namespace Kurbo
open Ops
variable {K : Type} [Scalar K]

/-! ### chains of `CurveTo`s -/

/-- `n` consecutive `CurveTo`s with control points `c1 k, c2 k` and end point `e k` -/
def curveEls (c1 c2 e : Nat → Point K) (n : Nat) : List (PathEl K) :=
  (List.range n).map fun k => PathEl.CurveTo (c1 k) (c2 k) (e k)

/-- start point of the `k`-th piece of a chain that begins at `p0`: the end point of the piece before -/
def chainStart (p0 : Point K) (e : Nat → Point K) : Nat → Point K
  | 0 => p0
  | k + 1 => e k

/-- the cubic segments of such a chain -/
def curveSegs (p0 : Point K) (c1 c2 e : Nat → Point K) (n : Nat) : List (PathSeg K) :=
  (List.range n).map fun k => PathSeg.Cubic ⟨chainStart p0 e k, c1 k, c2 k, e k⟩

def PathEl.isCurveTo : PathEl K → Bool
  | .CurveTo _ _ _ => true
  | _ => false

theorem curveEls_length (c1 c2 e : Nat → Point K) (n : Nat) : (curveEls c1 c2 e n).length = n := by
  simp [curveEls]

theorem curveEls_succ (c1 c2 e : Nat → Point K) (n : Nat) :
    curveEls c1 c2 e (n + 1) = curveEls c1 c2 e n ++ [PathEl.CurveTo (c1 n) (c2 n) (e n)] := by
  simp [curveEls, List.range_succ]

theorem curveSegs_succ (p0 : Point K) (c1 c2 e : Nat → Point K) (n : Nat) :
    curveSegs p0 c1 c2 e (n + 1) = curveSegs p0 c1 c2 e n ++ [PathSeg.Cubic ⟨chainStart p0 e n, c1 n, c2 n, e n⟩] := by
  simp [curveSegs, List.range_succ]

theorem curveEls_isCurveTo (c1 c2 e : Nat → Point K) (n : Nat) :
    ∀ el ∈ curveEls c1 c2 e n, el.isCurveTo = true := by
  intro el h
  simp only [curveEls, List.mem_map] at h
  obtain ⟨k, _, rfl⟩ := h
  rfl

theorem mem_curveEls {c1 c2 e : Nat → Point K} {n : Nat} {el : PathEl K}
    (h : el ∈ curveEls c1 c2 e n) : ∃ k, k < n ∧ el = PathEl.CurveTo (c1 k) (c2 k) (e k) := by
  simp only [curveEls, List.mem_map, List.mem_range] at h
  obtain ⟨k, hk, rfl⟩ := h
  exact ⟨k, hk, rfl⟩

theorem curveEls_getElem? (c1 c2 e : Nat → Point K) (n k : Nat) (h : k < n) :
    (curveEls c1 c2 e n)[k]? = some (PathEl.CurveTo (c1 k) (c2 k) (e k)) := by
  simp [curveEls, h]

theorem curveEls_congr {c1 c2 e c1' c2' e' : Nat → Point K} {n : Nat}
    (h : ∀ k, k < n → c1 k = c1' k ∧ c2 k = c2' k ∧ e k = e' k) : curveEls c1 c2 e n = curveEls c1' c2' e' n := by
  apply List.map_congr_left
  intro k hk
  obtain ⟨h1, h2, h3⟩ := h k (List.mem_range.mp hk)
  rw [h1, h2, h3]

theorem curveSegs_congr {p0 : Point K} {c1 c2 e c1' c2' e' : Nat → Point K} {n : Nat}
    (h : ∀ k, k < n → c1 k = c1' k ∧ c2 k = c2' k ∧ e k = e' k) :
    curveSegs p0 c1 c2 e n = curveSegs p0 c1' c2' e' n := by
  apply List.map_congr_left
  intro k hk
  have hk' := List.mem_range.mp hk
  obtain ⟨h1, h2, h3⟩ := h k hk'
  have hs : chainStart p0 e k = chainStart p0 e' k := by
    cases k with
    | zero => rfl
    | succ j => exact (h j (by omega)).2.2
  rw [h1, h2, h3, hs]

/-- where the pen is after drawing `els` from `p` (for lists of drawing elements: the end point of the last one) -/
def penAfter (p : Point K) (els : List (PathEl K)) : Point K := (els.getLast?.bind PathEl.end_point).getD p

theorem penAfter_curveEls (p0 : Point K) (c1 c2 e : Nat → Point K) (n : Nat) :
    penAfter p0 (curveEls c1 c2 e n) = chainStart p0 e n := by
  cases n with
  | zero => rfl
  | succ n => rw [curveEls_succ, penAfter, List.getLast?_concat]; rfl

/-- the iterator state after, and the segments of, a chain of `CurveTo`s -/
theorem segsT_curveEls (s p0 : Point K) (c1 c2 e : Nat → Point K) (n : Nat) :
    segsT (s, p0) (curveEls c1 c2 e n) = curveSegs p0 c1 c2 e n ∧
    stAfterT (s, p0) (curveEls c1 c2 e n) = (s, chainStart p0 e n) := by
  induction n with
  | zero => exact ⟨rfl, rfl⟩
  | succ n ih =>
    rw [curveEls_succ, curveSegs_succ, segsT_append, stAfterT_append, ih.1, ih.2]
    exact ⟨rfl, rfl⟩

/-- `segs` of `MoveTo p0` followed by a chain of `CurveTo`s: the `n` cubics, each starting where the one before ends -/
theorem segs_moveTo_curveEls (p0 : Point K) (c1 c2 e : Nat → Point K) (n : Nat) :
    segs (PathEl.MoveTo p0 :: curveEls c1 c2 e n) = some (curveSegs p0 c1 c2 e n) := by
  rw [segs_moveTo, (segsT_curveEls p0 p0 c1 c2 e n).1]

/-- … followed by `ClosePath`: the closing line is emitted iff the chain does not end on `p0` (`Point.peq`) -/
theorem segs_moveTo_curveEls_close (p0 : Point K) (c1 c2 e : Nat → Point K) (n : Nat) :
    segs (PathEl.MoveTo p0 :: (curveEls c1 c2 e n ++ [PathEl.ClosePath]))
      = some (curveSegs p0 c1 c2 e n ++
          (if (chainStart p0 e n).peq p0 then [] else [PathSeg.Line ⟨chainStart p0 e n, p0⟩])) := by
  rw [segs_moveTo, segsT_append, (segsT_curveEls p0 p0 c1 c2 e n).1, (segsT_curveEls p0 p0 c1 c2 e n).2]
  congr 2
  simp only [segsT, stepT]
  cases (chainStart p0 e n).peq p0 <;> rfl

/-! ### elliptical arcs -/

/-- the angle after `k` steps, accumulated by repeated addition exactly as `ArcAppendIter` does:
    `start`, `start + step`, `(start + step) + step`, … -/
def accAngle (start step : K) : Nat → K
  | 0 => start
  | k + 1 => accAngle start step k + step

theorem accAngle_shift (start step : K) (k : Nat) :
    accAngle (start + step) step k = accAngle start step (k + 1) := by
  induction k with
  | zero => rfl
  | succ k ih => rw [accAngle, ih]; rfl

/-- first control point of the `k`-th piece of an arc (relative to the centre it is
    `S(θ_k) + arm · S(θ_k + π/2)`, `S = sampleEllipse radii rot`, `θ_k = accAngle start step k`) -/
def arcC1 (center : Point K) (radii : Vec2 K) (rot arm step start : K) (k : Nat) : Point K :=
  center + (sampleEllipse radii rot (accAngle start step k)
    + arm * sampleEllipse radii rot (accAngle start step k + fracPi2))

/-- second control point of the `k`-th piece: `S(θ_{k+1}) − arm · S(θ_{k+1} + π/2)` -/
def arcC2 (center : Point K) (radii : Vec2 K) (rot arm step start : K) (k : Nat) : Point K :=
  center + (sampleEllipse radii rot (accAngle start step (k + 1))
    - arm * sampleEllipse radii rot (accAngle start step (k + 1) + fracPi2))

/-- the point of the arc's ellipse at (accumulated) angle number `k` -/
def arcPt (center : Point K) (radii : Vec2 K) (rot step start : K) (k : Nat) : Point K :=
  center + sampleEllipse radii rot (accAngle start step k)

/-- end point of the `k`-th piece: the ellipse point at angle number `k + 1` -/
def arcEnd (center : Point K) (radii : Vec2 K) (rot step start : K) (k : Nat) : Point K :=
  arcPt center radii rot step start (k + 1)

theorem chainStart_arc (center : Point K) (radii : Vec2 K) (rot step start : K) (k : Nat) :
    chainStart (arcPt center radii rot step start 0) (arcEnd center radii rot step start) k
      = arcPt center radii rot step start k := by
  cases k <;> rfl

theorem arcAppendGo_eq (center : Point K) (radii : Vec2 K) (rot arm step : K) (n : Nat) (start : K) :
    arcAppendGo center radii rot arm step n (sampleEllipse radii rot start) start
      = curveEls (arcC1 center radii rot arm step start) (arcC2 center radii rot arm step start)
          (arcEnd center radii rot step start) n := by
  induction n generalizing start with
  | zero => rfl
  | succ n ih =>
    rw [arcAppendGo, ih]
    simp only [curveEls, List.range_succ_eq_map, List.map_cons, List.map_map]
    congr 1
    apply List.map_congr_left
    intro k _
    simp only [Function.comp, arcC1, arcC2, arcEnd, arcPt, accAngle_shift]

/-- `Arc::append_iter` in closed form -/
theorem append_iter_eq (a : Arc K) (tol : K) :
    a.append_iter tol
      = curveEls (arcC1 a.center a.radii a.x_rotation (a.appendParams tol).2.1 (a.appendParams tol).2.2 a.start_angle)
          (arcC2 a.center a.radii a.x_rotation (a.appendParams tol).2.1 (a.appendParams tol).2.2 a.start_angle)
          (arcEnd a.center a.radii a.x_rotation (a.appendParams tol).2.2 a.start_angle) (a.appendParams tol).1 := by
  unfold Arc.append_iter
  exact arcAppendGo_eq _ _ _ _ _ _ _

/-- the segments of an arc outline: piece `k` runs from ellipse point number `k` to ellipse point number `k + 1` -/
theorem curveSegs_arc (center : Point K) (radii : Vec2 K) (rot arm step start : K) (n : Nat) :
    curveSegs (arcPt center radii rot step start 0) (arcC1 center radii rot arm step start)
        (arcC2 center radii rot arm step start) (arcEnd center radii rot step start) n
      = (List.range n).map fun k => PathSeg.Cubic ⟨arcPt center radii rot step start k,
          arcC1 center radii rot arm step start k, arcC2 center radii rot arm step start k,
          arcPt center radii rot step start (k + 1)⟩ := by
  simp only [curveSegs, chainStart_arc, arcEnd]

/-! ### circles -/

/-- `θ_k = delta_th * k` with `delta_th = 2π / n` -/
def circleTheta (n k : Nat) : K := (2 : K) * (Scalar.pi : K) / natK n * natK k

/-- the pair `(sin, cos)` the iterator uses at index `k`: the literal `(0, 1)` when `k = n` -/
def circleSC (n k : Nat) : K × K :=
  if k == n then ((0 : K), (1 : K)) else (Scalar.sin (circleTheta n k : K), Scalar.cos (circleTheta n k : K))

/-- start angle of piece `k` as the iterator computes it: `θ_{k+1} − delta_th` -/
def circleTh0 (n k : Nat) : K := circleTheta n (k + 1) - (2 : K) * (Scalar.pi : K) / natK n

def circleC1 (c : Circle K) (a : K) (n k : Nat) : Point K :=
  ⟨c.center.x + c.radius * (Scalar.cos (circleTh0 n k : K) - a * Scalar.sin (circleTh0 n k : K)),
   c.center.y + c.radius * (Scalar.sin (circleTh0 n k : K) + a * Scalar.cos (circleTh0 n k : K))⟩

def circleC2 (c : Circle K) (a : K) (n k : Nat) : Point K :=
  ⟨c.center.x + c.radius * ((circleSC n (k + 1) : K × K).2 + a * (circleSC n (k + 1) : K × K).1),
   c.center.y + c.radius * ((circleSC n (k + 1) : K × K).1 - a * (circleSC n (k + 1) : K × K).2)⟩

def circleEnd (c : Circle K) (n k : Nat) : Point K :=
  ⟨c.center.x + c.radius * (circleSC n (k + 1) : K × K).2, c.center.y + c.radius * (circleSC n (k + 1) : K × K).1⟩

/-- the `MoveTo` point `(x + r, y)` -/
def circleStart (c : Circle K) : Point K := ⟨c.center.x + c.radius, c.center.y⟩

theorem circle_path_elements_eq (c : Circle K) (tol : K) :
    c.path_elements tol = PathEl.MoveTo (circleStart c) ::
      (curveEls (circleC1 c (c.pathParams tol).2 (c.pathParams tol).1) (circleC2 c (c.pathParams tol).2 (c.pathParams tol).1)
        (circleEnd c (c.pathParams tol).1) (c.pathParams tol).1 ++ [PathEl.ClosePath]) := by
  unfold Circle.path_elements
  generalize c.pathParams tol = pa
  obtain ⟨n, a⟩ := pa
  rfl

/-- the last piece ends at the literal `(x + r·1, y + r·0)` -/
theorem circleEnd_last (c : Circle K) (n : Nat) :
    circleEnd c (n + 1) n = ⟨c.center.x + c.radius * (1 : K), c.center.y + c.radius * (0 : K)⟩ := by
  simp [circleEnd, circleSC]

/-- every other piece ends at `(x + r·cos θ_{k+1}, y + r·sin θ_{k+1})` -/
theorem circleEnd_inner (c : Circle K) (n k : Nat) (h : k + 1 ≠ n) :
    circleEnd c n k = ⟨c.center.x + c.radius * Scalar.cos (circleTheta n (k + 1) : K),
      c.center.y + c.radius * Scalar.sin (circleTheta n (k + 1) : K)⟩ := by
  simp [circleEnd, circleSC, h]

/-! ### ellipses and circle segments -/

/-- the full-turn arc whose outline is the ellipse's outline -/
def Ellipse.arc (e : Ellipse K) : Arc K :=
  { center := e.center, radii := e.inner.svd.1, start_angle := (0 : K), sweep_angle := twoPi, x_rotation := e.inner.svd.2 }

theorem ellipse_path_elements_eq (e : Ellipse K) (tol : K) : e.path_elements tol = e.arc.path_elements tol := rfl

theorem cseg_path_elements_eq (s : CircleSegment K) (tol : K) :
    s.path_elements tol
      = [PathEl.MoveTo (pointOnCircle s.center s.inner_radius s.start_angle),
         PathEl.LineTo (pointOnCircle s.center s.outer_radius s.start_angle)]
        ++ s.outer_arc.append_iter tol
        ++ [PathEl.LineTo (pointOnCircle s.center s.inner_radius (s.inner_arc.start_angle))]
        ++ s.inner_arc.append_iter tol := rfl

/-! ### rounded rectangles -/

theorem interleaveRounded_eq (r0 r1 r2 r3 r4 : PathEl K) (a0 a1 a2 a3 : List (PathEl K)) :
    interleaveRounded [r0, r1, r2, r3, r4] [a0, a1, a2, a3]
      = [r0] ++ a0 ++ [r1] ++ a1 ++ [r2] ++ a2 ++ [r3] ++ a3 ++ [r4] := by
  simp [interleaveRounded, interleaveRounded.go]

/-- corner arc number `i` of a rounded rectangle: quarter turn starting at `i · π/2` -/
def cornerArc (i : Nat) (center : Point K) (rad : K) : Arc K :=
  { center := center, radii := ⟨rad, rad⟩, start_angle := fracPi2 * natK i, sweep_angle := fracPi2, x_rotation := (0 : K) }

def RoundedRect.arcTL (s : RoundedRect K) : Arc K :=
  cornerArc 2 ⟨s.rect.x0 + s.radii.top_left, s.rect.y0 + s.radii.top_left⟩ s.radii.top_left
def RoundedRect.arcTR (s : RoundedRect K) : Arc K :=
  cornerArc 3 ⟨s.rect.x1 - s.radii.top_right, s.rect.y0 + s.radii.top_right⟩ s.radii.top_right
def RoundedRect.arcBR (s : RoundedRect K) : Arc K :=
  cornerArc 0 ⟨s.rect.x1 - s.radii.bottom_right, s.rect.y1 - s.radii.bottom_right⟩ s.radii.bottom_right
def RoundedRect.arcBL (s : RoundedRect K) : Arc K :=
  cornerArc 1 ⟨s.rect.x0 + s.radii.bottom_left, s.rect.y1 - s.radii.bottom_left⟩ s.radii.bottom_left

theorem RoundedRect.arcs_eq (s : RoundedRect K) : s.arcs = [s.arcTL, s.arcTR, s.arcBR, s.arcBL] := rfl

/-- the five elements of the inner rectangle iterator -/
def RoundedRect.p0 (s : RoundedRect K) : Point K := ⟨s.rect.x0, s.rect.y0 + s.radii.top_left⟩
def RoundedRect.p1 (s : RoundedRect K) : Point K := ⟨s.rect.x1 - s.radii.top_right, s.rect.y0⟩
def RoundedRect.p2 (s : RoundedRect K) : Point K := ⟨s.rect.x1, s.rect.y1 - s.radii.bottom_right⟩
def RoundedRect.p3 (s : RoundedRect K) : Point K := ⟨s.rect.x0 + s.radii.bottom_left, s.rect.y1⟩

theorem RoundedRect.rectEls_eq (s : RoundedRect K) :
    s.rectEls = [.MoveTo s.p0, .LineTo s.p1, .LineTo s.p2, .LineTo s.p3, .ClosePath] := rfl

theorem roundedRect_path_elements_eq (s : RoundedRect K) (tol : K) :
    s.path_elements tol = [PathEl.MoveTo s.p0] ++ s.arcTL.append_iter tol ++ [PathEl.LineTo s.p1] ++ s.arcTR.append_iter tol
      ++ [PathEl.LineTo s.p2] ++ s.arcBR.append_iter tol ++ [PathEl.LineTo s.p3] ++ s.arcBL.append_iter tol
      ++ [PathEl.ClosePath] := by
  unfold RoundedRect.path_elements
  rw [RoundedRect.arcs_eq, RoundedRect.rectEls_eq]
  exact interleaveRounded_eq _ _ _ _ _ _ _ _ _

end Kurbo

namespace Kurbo
variable {K : Type} [Scalar K]

/-! ### segments of composite outlines -/

/-- the cubics of an arc's pieces when the pen starts at `p` (the first starts at `p`, each further one at the end
    point of the one before) -/
def arcSegsFrom (p : Point K) (a : Arc K) (tol : K) : List (PathSeg K) :=
  curveSegs p (arcC1 a.center a.radii a.x_rotation (a.appendParams tol).2.1 (a.appendParams tol).2.2 a.start_angle)
    (arcC2 a.center a.radii a.x_rotation (a.appendParams tol).2.1 (a.appendParams tol).2.2 a.start_angle)
    (arcEnd a.center a.radii a.x_rotation (a.appendParams tol).2.2 a.start_angle) (a.appendParams tol).1

theorem arcSegsFrom_length (p : Point K) (a : Arc K) (tol : K) : (arcSegsFrom p a tol).length = (a.appendParams tol).1 := by
  simp [arcSegsFrom, curveSegs]

theorem segsT_arc_append (s l : Point K) (a : Arc K) (tol : K) (rest : List (PathEl K)) :
    segsT (s, l) (a.append_iter tol ++ rest)
      = arcSegsFrom l a tol ++ segsT (s, penAfter l (a.append_iter tol)) rest := by
  rw [segsT_append, append_iter_eq, (segsT_curveEls s l _ _ _ _).1, (segsT_curveEls s l _ _ _ _).2, penAfter_curveEls]
  rfl

theorem segsT_lineTo (s l p : Point K) (rest : List (PathEl K)) :
    segsT (s, l) (PathEl.LineTo p :: rest) = PathSeg.Line ⟨l, p⟩ :: segsT (s, p) rest := rfl

theorem segsT_closePath (s l : Point K) :
    segsT (s, l) [PathEl.ClosePath] = if l.peq s then [] else [PathSeg.Line ⟨l, s⟩] := by
  simp only [segsT, stepT]
  cases l.peq s <;> rfl

/-- segments of a rounded-rectangle outline, for every `Scalar` -/
theorem roundedRect_segs_eq (s : RoundedRect K) (tol : K) :
    segs (s.path_elements tol) = some (
      arcSegsFrom s.p0 s.arcTL tol ++ PathSeg.Line ⟨penAfter s.p0 (s.arcTL.append_iter tol), s.p1⟩ ::
      (arcSegsFrom s.p1 s.arcTR tol ++ PathSeg.Line ⟨penAfter s.p1 (s.arcTR.append_iter tol), s.p2⟩ ::
      (arcSegsFrom s.p2 s.arcBR tol ++ PathSeg.Line ⟨penAfter s.p2 (s.arcBR.append_iter tol), s.p3⟩ ::
      (arcSegsFrom s.p3 s.arcBL tol ++
        (if (penAfter s.p3 (s.arcBL.append_iter tol)).peq s.p0 then []
         else [PathSeg.Line ⟨penAfter s.p3 (s.arcBL.append_iter tol), s.p0⟩]))))) := by
  rw [roundedRect_path_elements_eq]
  simp only [List.append_assoc, List.cons_append, List.nil_append]
  rw [segs_moveTo, segsT_arc_append, segsT_lineTo, segsT_arc_append, segsT_lineTo, segsT_arc_append, segsT_lineTo,
    ← List.append_nil (s.arcBL.append_iter tol ++ [PathEl.ClosePath]), List.append_assoc, segsT_arc_append,
    List.append_nil, segsT_closePath]

/-- segments of a circle-segment outline, for every `Scalar` -/
theorem cseg_segs_eq (s : CircleSegment K) (tol : K) :
    segs (s.path_elements tol) = some (
      PathSeg.Line ⟨pointOnCircle s.center s.inner_radius s.start_angle, pointOnCircle s.center s.outer_radius s.start_angle⟩ ::
      (arcSegsFrom (pointOnCircle s.center s.outer_radius s.start_angle) s.outer_arc tol ++
       PathSeg.Line ⟨penAfter (pointOnCircle s.center s.outer_radius s.start_angle) (s.outer_arc.append_iter tol),
          pointOnCircle s.center s.inner_radius s.inner_arc.start_angle⟩ ::
       arcSegsFrom (pointOnCircle s.center s.inner_radius s.inner_arc.start_angle) s.inner_arc tol)) := by
  rw [cseg_path_elements_eq]
  simp only [List.append_assoc, List.cons_append, List.nil_append]
  rw [segs_moveTo, segsT_lineTo, segsT_arc_append, segsT_lineTo,
    ← List.append_nil (s.inner_arc.append_iter tol), segsT_arc_append]
  simp [segsT]

end Kurbo
