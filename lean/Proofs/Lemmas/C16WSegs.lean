import Proofs.Lemmas.C16W
import Proofs.Lemmas.C07
/-! C16W: what the parser makes of a written element list, explicitly (`reparse`: an implicit `MoveTo first` in front of every
    non-`MoveTo` element that directly follows a `ClosePath`), and: the segments of that list are the segments of the original
    (for a lawful point equality). -/
set_option linter.unusedSectionVars false
namespace Kurbo
variable {K : Type} [Scalar K]

/-- the element list the parser produces for the commands `M L Q C Z` of `els`: `first` = the parser's `first_pt` (the last
    `MoveTo` point), `pending` = the previous element was a `ClosePath` (`implicit_moveto = Some(first_pt)`) -/
def reparse (first : Point K) (pending : Bool) : List (PathEl K) → List (PathEl K)
  | [] => []
  | .MoveTo p :: es => .MoveTo p :: reparse p false es
  | .ClosePath :: es => (if pending then [.MoveTo first] else []) ++ .ClosePath :: reparse first true es
  | .LineTo p :: es => (if pending then [.MoveTo first] else []) ++ .LineTo p :: reparse first false es
  | .QuadTo p1 p2 :: es => (if pending then [.MoveTo first] else []) ++ .QuadTo p1 p2 :: reparse first false es
  | .CurveTo p1 p2 p3 :: es => (if pending then [.MoveTo first] else []) ++ .CurveTo p1 p2 p3 :: reparse first false es

theorem flushed_path_pending {st : SvgSt K} {pending : Bool}
    (hi : st.implicit_moveto = if pending then some st.first_pt else none) :
    st.flushed.path = st.path ++ (if pending then [.MoveTo st.first_pt] else []) := by
  rw [SvgSt.flushed_path, hi]
  cases pending <;> rfl

/-- the meaning of the written commands, explicitly -/
theorem c16w_run_reparse (els : List (PathEl K)) (st : SvgSt K) (pending : Bool)
    (hi : st.implicit_moveto = if pending then some st.first_pt else none) :
    (c16b_run st (els.map c16b_ofEl)).path = st.path ++ reparse st.first_pt pending els := by
  induction els generalizing st pending with
  | nil => simp [reparse]
  | cons e es ih =>
    simp only [List.map_cons, c16b_run_cons]
    cases e with
    | MoveTo p =>
      rw [ih (c16b_interp st (c16b_ofEl (.MoveTo p))) false rfl]
      simp [c16b_ofEl, c16b_interp, c16b_pt, reparse]
    | LineTo p =>
      rw [ih (c16b_interp st (c16b_ofEl (.LineTo p))) false (by simp [c16b_ofEl, c16b_interp])]
      simp [c16b_ofEl, c16b_interp, c16b_pt, reparse, flushed_path_pending hi]
    | QuadTo p1 p2 =>
      rw [ih (c16b_interp st (c16b_ofEl (.QuadTo p1 p2))) false (by simp [c16b_ofEl, c16b_interp])]
      simp [c16b_ofEl, c16b_interp, c16b_pt, reparse, flushed_path_pending hi]
    | CurveTo p1 p2 p3 =>
      rw [ih (c16b_interp st (c16b_ofEl (.CurveTo p1 p2 p3))) false (by simp [c16b_ofEl, c16b_interp])]
      simp [c16b_ofEl, c16b_interp, c16b_pt, reparse, flushed_path_pending hi]
    | ClosePath =>
      rw [ih (c16b_interp st (c16b_ofEl .ClosePath)) true (by simp [c16b_ofEl, c16b_interp])]
      simp [c16b_ofEl, c16b_interp, reparse, flushed_path_pending hi]

/-- the inserted `MoveTo first` does not change the state of the segment iterator when the current point is `first` -/
theorem segsT_moveTo_first (first : Point K) (es : List (PathEl K)) :
    segsT (first, first) (.MoveTo first :: es) = segsT (first, first) es := by
  simp [segsT, stepT]

/-- **the segments of the re-parsed list are the segments of the original** (`sl` = state of the `Segments` iterator: sub-path
    start = the parser's `first_pt`; after a `ClosePath` the current point is the start – this needs a lawful `==` on points) -/
theorem segsT_reparse [LawfulPeq K] (els : List (PathEl K)) (first last : Point K) (pending : Bool)
    (hp : pending = true → last = first) :
    segsT (first, last) (reparse first pending els) = segsT (first, last) els := by
  induction els generalizing first last pending with
  | nil => rfl
  | cons e es ih =>
    -- the optional inserted `MoveTo first` is a no-op on the iterator state
    have hpre : ∀ tl : List (PathEl K),
        segsT (first, last) ((if pending then [PathEl.MoveTo first] else []) ++ tl) = segsT (first, last) tl := by
      intro tl
      cases pending with
      | false => rfl
      | true => rw [hp rfl]; exact segsT_moveTo_first first tl
    cases e with
    | MoveTo p => simp only [reparse, segsT, stepT]; rw [ih p p false (by intro h; cases h)]
    | LineTo p => simp only [reparse]; rw [hpre]; simp only [segsT, stepT]; rw [ih first p false (by intro h; cases h)]
    | QuadTo p1 p2 => simp only [reparse]; rw [hpre]; simp only [segsT, stepT]; rw [ih first p2 false (by intro h; cases h)]
    | CurveTo p1 p2 p3 => simp only [reparse]; rw [hpre]; simp only [segsT, stepT]; rw [ih first p3 false (by intro h; cases h)]
    | ClosePath =>
      simp only [reparse]; rw [hpre]
      have h1 : (stepT (first, last) (PathEl.ClosePath : PathEl K)).1 = (first, first) := by
        have ha := stepT_start (first, last) (PathEl.ClosePath : PathEl K)
        have hb := stepT_last (first, last) (PathEl.ClosePath : PathEl K)
        simp only [mvPt, PathEl.end_point, Option.getD] at ha hb
        exact Prod.ext ha hb
      simp only [segsT]
      rw [h1, ih first first true (fun _ => rfl)]

end Kurbo
