import Proofs.C15
import Proofs.Lemmas.C09Real
/-! Discharge of the solver hypothesis of C09 from the C15 theorems: over ℝ with the real `sqrt`, `cbrt`, `sin`, `cos`,
    `atan2` (`LawfulReal`) the cubic solver returns exactly the real roots of every polynomial that is not identically
    zero. -/
namespace Kurbo.C09

theorem cubicSolverSpec_real [Scalar ℝ] [LawfulScalar ℝ] [LawfulReal] : CubicSolverSpec ℝ where
  roots_iff c0 c1 c2 c3 h x := by
    by_cases h3 : c3 = 0
    · subst h3
      rw [solveCubic_of_c3_zero]
      have := (solveQuadratic_spec_real c0 c1 c2 (fun hh => h ⟨hh.1, hh.2.1, hh.2.2, rfl⟩)).1 x
      rw [this]
      constructor <;> intro e <;> linarith
    · exact solveCubic_mem_iff c0 c1 c2 c3 h3 x

end Kurbo.C09
