import Proofs.KDefs
import Kurbo.Curve
import Proofs.Lemmas.C02
import Proofs.Lemmas.C01Arg
import Mathlib.Tactic.Ring
import Mathlib.Tactic.Linarith

/-! C01 helpers: the crossing indicator `kcr`/`kc`, the line branch of `winding_inner` = `kcr` (early outs included),
    element lists made of lines (`AllLines`), `pathWinding` as a sum, crossing sums (`crossSum`) and their behaviour
    under reversal and vertex insertion, closed chains (`ClosedChains`) and telescoping, `OnSeg`/`OffPath`, the
    closed polygon `polygon v0 vs` and its segments. -/
set_option linter.unusedSectionVars false
namespace Kurbo
section lawful
variable {K : Type} [Field K] [LinearOrder K] [IsStrictOrderedRing K] [FloorRing K] [Scalar K] [LawfulScalar K]

/-- crossing indicator on raw coordinates relative to the query point -/
def kcr (ax ay bx by_ : K) : Int :=
  if ay < by_ then (if ay ≤ 0 ∧ 0 < by_ ∧ ax * by_ - ay * bx ≤ 0 then -1 else 0)
  else if by_ < ay then (if by_ ≤ 0 ∧ 0 < ay ∧ 0 ≤ ax * by_ - ay * bx then 1 else 0)
  else 0

def kc (a b : Vec2 K) : Int := kcr a.x a.y b.x b.y

theorem windingInner_line_eq_kcr (l : Line K) (p : Point K) :
    PathSeg.winding_inner (.Line l) p = kcr (l.p0.x - p.x) (l.p0.y - p.y) (l.p1.x - p.x) (l.p1.y - p.y) := by
  unfold PathSeg.winding_inner kcr
  simp only [PathSeg.start, PathSeg.end, Line.start, Line.end]
  simp only [scalar_norm, decide_eq_true_eq, Bool.or_eq_true]
  push_cast
  have hs1 : ((-1 : Int) == 1) = false := by decide
  have hs2 : ((1 : Int) == 1) = true := by decide
  by_cases h1 : l.p0.y < l.p1.y
  · have h1' : l.p0.y - p.y < l.p1.y - p.y := by linarith
    simp only [h1, h1', if_true]
    by_cases h2 : p.y < l.p0.y ∨ l.p1.y ≤ p.y
    · rw [if_pos h2, if_neg]; rintro ⟨a, b, _⟩; rcases h2 with h2 | h2 <;> linarith
    · rw [if_neg h2]; push Not at h2
      obtain ⟨h2a, h2b⟩ := h2
      simp only [hs1, Bool.false_eq_true, if_false, lt_min_iff, max_le_iff]
      split_ifs with g1 g2 g3 g4 g4 g4 g4
      all_goals first
        | rfl
        | (exfalso; obtain ⟨_, _, c⟩ := ‹_ ∧ _ ∧ _›; nlinarith [g1.1, g1.2])
        | (exfalso; apply ‹¬ (_ ∧ _ ∧ _)›; refine ⟨by linarith, by linarith, ?_⟩; nlinarith)
        | (exfalso; obtain ⟨_, _, c⟩ := ‹_ ∧ _ ∧ _›; nlinarith)
  · simp only [h1, if_false]
    have h1n : ¬ (l.p0.y - p.y < l.p1.y - p.y) := by intro h; apply h1; linarith
    simp only [h1n, if_false]
    by_cases h1' : l.p1.y < l.p0.y
    · have h1'' : l.p1.y - p.y < l.p0.y - p.y := by linarith
      simp only [h1', h1'', if_true]
      by_cases h2 : p.y < l.p1.y ∨ l.p0.y ≤ p.y
      · rw [if_pos h2, if_neg]; rintro ⟨a, b, _⟩; rcases h2 with h2 | h2 <;> linarith
      · rw [if_neg h2]; push Not at h2
        obtain ⟨h2a, h2b⟩ := h2
        simp only [hs2, if_true, lt_min_iff, max_le_iff]
        split_ifs with g1 g2 g3 g4 g4 g4 g4
        all_goals first
          | rfl
          | (exfalso; obtain ⟨_, _, c⟩ := ‹_ ∧ _ ∧ _›; nlinarith [g1.1, g1.2])
            | (exfalso; apply ‹¬ (_ ∧ _ ∧ _)›; refine ⟨by linarith, by linarith, ?_⟩; nlinarith)
          | (exfalso; obtain ⟨_, _, c⟩ := ‹_ ∧ _ ∧ _›; nlinarith)
    · have h1'' : ¬ (l.p1.y - p.y < l.p0.y - p.y) := by intro h; apply h1'; linarith
      simp only [h1', h1'', if_false]


theorem vsub_x (a b : Point K) : (a - b : Vec2 K).x = a.x - b.x := by simp only [point_sub, scalar_norm]
theorem vsub_y (a b : Point K) : (a - b : Vec2 K).y = a.y - b.y := by simp only [point_sub, scalar_norm]

theorem windingInner_line_eq_kc' (l : Line K) (p : Point K) :
    PathSeg.winding_inner (.Line l) p = kc (l.p0 - p) (l.p1 - p) := by
  rw [windingInner_line_eq_kcr]; unfold kc; simp only [vsub_x, vsub_y]

end lawful

/-! ### structural facts (any `Scalar`) -/
section structural
variable {K : Type} [Scalar K]

def IsLineSeg : PathSeg K → Prop
  | .Line _ => True
  | _ => False

/-- `MoveTo`, `LineTo`, `ClosePath` -/
def IsLineEl : PathEl K → Prop
  | .QuadTo _ _ => False
  | .CurveTo _ _ _ => False
  | _ => True

instance : DecidablePred (IsLineEl (K := K)) := fun e => by
  cases e <;> simp only [IsLineEl] <;> infer_instance

/-- no `QuadTo`, no `CurveTo` -/
def AllLines (els : List (PathEl K)) : Prop := ∀ e ∈ els, IsLineEl e

instance (els : List (PathEl K)) : Decidable (AllLines els) :=
  inferInstanceAs (Decidable (∀ e ∈ els, IsLineEl e))

theorem allLines_cons {e : PathEl K} {r : List (PathEl K)} : AllLines (e :: r) ↔ IsLineEl e ∧ AllLines r := by
  simp [AllLines]

theorem allLines_append {a b : List (PathEl K)} : AllLines (a ++ b) ↔ AllLines a ∧ AllLines b := by
  simp only [AllLines, List.mem_append]
  constructor
  · intro h; exact ⟨fun e he => h e (Or.inl he), fun e he => h e (Or.inr he)⟩
  · rintro ⟨h1, h2⟩ e (he | he)
    · exact h1 e he
    · exact h2 e he

theorem segStep_isLine {st st' : SegSt K} {el : PathEl K} {s : PathSeg K} (hl : IsLineEl el)
    (h : segStep st el = some (st', some s)) : IsLineSeg s := by
  cases el with
  | QuadTo _ _ => exact hl.elim
  | CurveTo _ _ _ => exact hl.elim
  | MoveTo q => rw [segStep_moveTo] at h; simp at h
  | LineTo q =>
    cases st with
    | none =>
      simp only [segStep, PathEl.end_point, Option.some.injEq, Prod.mk.injEq] at h
      obtain ⟨_, rfl⟩ := h; trivial
    | some sl =>
      simp only [segStep, Option.some.injEq, Prod.mk.injEq] at h
      obtain ⟨_, rfl⟩ := h; trivial
  | ClosePath =>
    cases st with
    | none => simp [segStep, PathEl.end_point] at h
    | some sl =>
      obtain ⟨start, last⟩ := sl
      simp only [segStep] at h
      split at h
      · simp only [Option.some.injEq, Prod.mk.injEq] at h
        obtain ⟨_, rfl⟩ := h; trivial
      · simp at h

theorem segsFrom_allLines : ∀ (els : List (PathEl K)) (st : SegSt K) (ss : List (PathSeg K)),
    AllLines els → segsFrom st els = some ss → ∀ s ∈ ss, IsLineSeg s := by
  intro els
  induction els with
  | nil =>
    intro st ss _ h s hs
    simp only [segsFrom, Option.some.injEq] at h
    subst h; simp at hs
  | cons el rest ih =>
    intro st ss hl h s hs
    rw [allLines_cons] at hl
    simp only [segsFrom] at h
    cases h1 : segStep st el with
    | none => rw [h1] at h; simp at h
    | some r =>
      obtain ⟨st', out⟩ := r
      rw [h1] at h
      simp only at h
      cases h2 : segsFrom st' rest with
      | none => rw [h2] at h; simp at h
      | some l =>
        rw [h2] at h
        simp only [Option.some.injEq] at h
        cases out with
        | none =>
          simp only at h; subst h
          exact ih st' l hl.2 h2 s hs
        | some s0 =>
          simp only at h; subst h
          rcases List.mem_cons.mp hs with rfl | hs
          · exact segStep_isLine hl.1 h1
          · exact ih st' l hl.2 h2 s hs

theorem foldl_add_int (l : List Int) (a : Int) : l.foldl (· + ·) a = a + l.sum := by
  induction l generalizing a with
  | nil => simp
  | cons x r ih => simp only [List.foldl_cons, List.sum_cons, ih]; omega

theorem pathWinding_eq_sum (els : List (PathEl K)) (p : Point K) :
    pathWinding els p = (segs els).map fun ss => (ss.map fun s => s.winding p).sum := by
  unfold pathWinding
  cases segs els with
  | none => rfl
  | some ss => simp only [Option.map_some, foldl_add_int, zero_add]

end structural


/-! ### crossing sums (any lawful scalar) -/
section lawful2
variable {K : Type} [Field K] [LinearOrder K] [IsStrictOrderedRing K] [FloorRing K] [Scalar K] [LawfulScalar K]

theorem winding_eq_kc_of_isLine (s : PathSeg K) (hs : IsLineSeg s) (p : Point K) :
    s.winding p = kc (s.start - p) (s.end - p) := by
  cases s with
  | Line l => exact windingInner_line_eq_kc' l p
  | Quad q => exact hs.elim
  | Cubic c => exact hs.elim

/-- the crossing sum of a list of segments (only meaningful for line segments) -/
def crossSum (ss : List (PathSeg K)) (p : Point K) : Int := (ss.map fun s => kc (s.start - p) (s.end - p)).sum

theorem crossSum_nil (p : Point K) : crossSum ([] : List (PathSeg K)) p = 0 := rfl
theorem crossSum_cons (s : PathSeg K) (r : List (PathSeg K)) (p : Point K) :
    crossSum (s :: r) p = kc (s.start - p) (s.end - p) + crossSum r p := by
  simp [crossSum]
theorem crossSum_append (a b : List (PathSeg K)) (p : Point K) :
    crossSum (a ++ b) p = crossSum a p + crossSum b p := by
  simp [crossSum]

theorem windingSum_eq_crossSum (ss : List (PathSeg K)) (h : ∀ s ∈ ss, IsLineSeg s) (p : Point K) :
    (ss.map fun s => s.winding p).sum = crossSum ss p := by
  unfold crossSum
  congr 1
  exact List.map_congr_left fun s hs => winding_eq_kc_of_isLine s (h s hs) p

/-- the half-open rule is antisymmetric: swapping the end points negates the indicator, for EVERY point -/
theorem kcr_swap (ax ay bx by_ : K) : kcr bx by_ ax ay = - kcr ax ay bx by_ := by
  unfold kcr
  have e : bx * ay - by_ * ax = -(ax * by_ - ay * bx) := by ring
  rw [e]
  rcases lt_trichotomy ay by_ with h | h | h
  · simp only [h, not_lt_of_gt h, if_true, if_false, neg_nonneg]
    split_ifs <;> rfl
  · subst h; simp
  · simp only [h, not_lt_of_gt h, if_true, if_false, neg_nonpos]
    split_ifs <;> rfl

theorem kc_swap (a b : Vec2 K) : kc b a = - kc a b := kcr_swap _ _ _ _

theorem reverse_start (s : PathSeg K) : s.reverse.start = s.end := by
  cases s with
  | Line l => cases l; rfl
  | Quad q => rfl
  | Cubic c => rfl
theorem reverse_end (s : PathSeg K) : s.reverse.end = s.start := by
  cases s with
  | Line l => cases l; rfl
  | Quad q => rfl
  | Cubic c => rfl
theorem reverse_isLine {s : PathSeg K} (h : IsLineSeg s) : IsLineSeg s.reverse := by
  cases s with
  | Line l => cases l; trivial
  | Quad q => exact h.elim
  | Cubic c => exact h.elim

theorem crossSum_reverse (ss : List (PathSeg K)) (p : Point K) :
    crossSum (ss.reverse.map PathSeg.reverse) p = - crossSum ss p := by
  induction ss with
  | nil => simp [crossSum]
  | cons s r ih =>
    simp only [List.reverse_cons, List.map_append, List.map_cons, List.map_nil, crossSum_append, crossSum_cons,
      crossSum_nil, ih, reverse_start, reverse_end, kc_swap (s.start - p) (s.end - p)]
    ring

/-- closed chains one after the other (the segments of a list of closed sub-paths) -/
inductive ClosedChains : List (PathSeg K) → Prop
  | nil : ClosedChains []
  | cons (q : Point K) (c rest : List (PathSeg K)) : SegChain q c q → ClosedChains rest → ClosedChains (c ++ rest)

theorem segsFrom_closedPath {els : List (PathEl K)} (h : ClosedPath els) :
    ∃ ss, segsFrom none els = some ss ∧ ClosedChains ss := by
  induction h with
  | nil => exact ⟨[], rfl, ClosedChains.nil⟩
  | close p body rest hb hrest ih =>
    obtain ⟨ss, hss, hcc⟩ := ih
    refine ⟨(bodySegs p body ++ closeSegs (bodyEnd p body) p) ++ ss, ?_, ?_⟩
    · rw [segsFrom_append_bind hrest.state_indep, segsFrom_closed_subpath none p body hb, hss]; rfl
    · exact ClosedChains.cons p _ _ (segChain_append (segChain_bodySegs body p hb) (segChain_closeSegs _ _)) hcc
  | implicit p body rest hb hend hrest ih =>
    obtain ⟨ss, hss, hcc⟩ := ih
    refine ⟨bodySegs p body ++ ss, ?_, ?_⟩
    · rw [segsFrom_append_bind hrest.state_indep, segsFrom_open_subpath none p body hb, hss]; rfl
    · have hc := segChain_bodySegs body p hb
      rw [hend] at hc
      exact ClosedChains.cons p _ _ hc hcc

theorem sum_segChain {G : Type} [AddCommGroup G] (f : Point K → G) {a b : Point K} {ss : List (PathSeg K)}
    (h : SegChain a ss b) : (ss.map fun s => f s.end - f s.start).sum = f b - f a := by
  induction ss generalizing a with
  | nil => simp only [SegChain] at h; subst h; simp
  | cons s r ih =>
    obtain ⟨h1, h2⟩ := h
    simp only [List.map_cons, List.sum_cons, ih h2, h1]
    abel

theorem sum_closedChains {G : Type} [AddCommGroup G] (f : Point K → G) {ss : List (PathSeg K)}
    (h : ClosedChains ss) : (ss.map fun s => f s.end - f s.start).sum = 0 := by
  induction h with
  | nil => rfl
  | cons q c rest hc _ ih =>
    rw [List.map_append, List.sum_append, ih, sum_segChain f hc]; simp

end lawful2


/-! ### points on a segment -/
section onseg
variable {K : Type} [Field K] [LinearOrder K] [IsStrictOrderedRing K] [FloorRing K] [Scalar K] [LawfulScalar K]

/-- `p` lies on the segment: it is a value of the segment's own `eval` on `[0,1]` -/
def OnSeg (s : PathSeg K) (p : Point K) : Prop := ∃ t : K, 0 ≤ t ∧ t ≤ 1 ∧ s.eval t = p

theorem line_eval_xy (a b : Point K) (t : K) :
    ((PathSeg.Line ⟨a, b⟩).eval t).x = a.x + (b.x - a.x) * t ∧ ((PathSeg.Line ⟨a, b⟩).eval t).y = a.y + (b.y - a.y) * t := by
  simp only [PathSeg.eval]
  constructor <;> kring

theorem onSeg_line_iff (a b p : Point K) :
    OnSeg (.Line ⟨a, b⟩) p ↔ ∃ t : K, 0 ≤ t ∧ t ≤ 1 ∧ p.x = a.x + (b.x - a.x) * t ∧ p.y = a.y + (b.y - a.y) * t := by
  unfold OnSeg
  constructor
  · rintro ⟨t, h0, h1, h⟩
    refine ⟨t, h0, h1, ?_, ?_⟩
    · rw [← h, (line_eval_xy a b t).1]
    · rw [← h, (line_eval_xy a b t).2]
  · rintro ⟨t, h0, h1, hx, hy⟩
    refine ⟨t, h0, h1, ?_⟩
    have := line_eval_xy a b t
    cases p
    cases h : (PathSeg.Line ⟨a, b⟩).eval t
    rw [h] at this
    simp only at this hx hy
    rw [Point.mk.injEq, this.1, this.2, hx, hy]; exact ⟨rfl, rfl⟩

end onseg


/-! ### inserting a vertex on an edge -/
section split
variable {K : Type} [Field K] [LinearOrder K] [IsStrictOrderedRing K] [FloorRing K] [Scalar K] [LawfulScalar K]

theorem kcr_self (ax ay : K) : kcr ax ay ax ay = 0 := by simp [kcr]

theorem kcr_split_aux (ax ay bx by_ mx my t : K) (h0 : 0 < t) (h1 : t < 1)
    (hx : mx = ax + (bx - ax) * t) (hy : my = ay + (by_ - ay) * t) :
    kcr ax ay mx my + kcr mx my bx by_ = kcr ax ay bx by_ := by
  have hAM : ax * my - ay * mx = t * (ax * by_ - ay * bx) := by rw [hx, hy]; ring
  have hMB : mx * by_ - my * bx = (1 - t) * (ax * by_ - ay * bx) := by rw [hx, hy]; ring
  have h1' : 0 < 1 - t := by linarith
  have e1 : t * (ax * by_ - ay * bx) ≤ 0 ↔ ax * by_ - ay * bx ≤ 0 :=
    ⟨fun h => by by_contra hh; push Not at hh; nlinarith [mul_pos h0 hh], fun h => by nlinarith⟩
  have e2 : (1 - t) * (ax * by_ - ay * bx) ≤ 0 ↔ ax * by_ - ay * bx ≤ 0 :=
    ⟨fun h => by by_contra hh; push Not at hh; nlinarith [mul_pos h1' hh], fun h => by nlinarith⟩
  have e3 : 0 ≤ t * (ax * by_ - ay * bx) ↔ 0 ≤ ax * by_ - ay * bx :=
    ⟨fun h => by by_contra hh; push Not at hh; nlinarith [mul_pos h0 (neg_pos.mpr hh)], fun h => by nlinarith⟩
  have e4 : 0 ≤ (1 - t) * (ax * by_ - ay * bx) ↔ 0 ≤ ax * by_ - ay * bx :=
    ⟨fun h => by by_contra hh; push Not at hh; nlinarith [mul_pos h1' (neg_pos.mpr hh)], fun h => by nlinarith⟩
  have d1 : my - ay = t * (by_ - ay) := by rw [hy]; ring
  have d2 : by_ - my = (1 - t) * (by_ - ay) := by rw [hy]; ring
  unfold kcr
  rw [hAM, hMB]
  simp only [e1, e2, e3, e4]
  rcases lt_trichotomy ay by_ with h | h | h
  · have g1 : ay < my := by nlinarith [mul_pos h0 (sub_pos.mpr h)]
    have g2 : my < by_ := by nlinarith [mul_pos h1' (sub_pos.mpr h)]
    simp only [h, g1, g2, if_true]
    by_cases hc : ax * by_ - ay * bx ≤ 0
    · simp only [hc, and_true]
      rcases le_or_gt my 0 with g | g
      · have g3 : ay ≤ 0 := by linarith
        have g4 : ¬ 0 < my := not_lt.mpr g
        simp only [g, g3, g4, true_and, and_false, if_false, zero_add]
      · have g3 : 0 < by_ := by linarith
        have g4 : ¬ my ≤ 0 := not_le.mpr g
        simp only [g, g3, g4, and_true, if_false, add_zero]
    · simp only [hc, and_false, if_false, add_zero]
  · subst h
    have g1 : my = ay := by rw [hy]; ring
    subst g1
    simp
  · have g1 : my < ay := by nlinarith [mul_pos h0 (sub_pos.mpr h)]
    have g2 : by_ < my := by nlinarith [mul_pos h1' (sub_pos.mpr h)]
    simp only [h, g1, g2, not_lt_of_gt h, not_lt_of_gt g1, not_lt_of_gt g2, if_true, if_false]
    by_cases hc : 0 ≤ ax * by_ - ay * bx
    · simp only [hc, and_true]
      rcases le_or_gt my 0 with g | g
      · have g3 : by_ ≤ 0 := by linarith
        have g4 : ¬ 0 < my := not_lt.mpr g
        simp only [g, g3, g4, true_and, and_false, if_false, add_zero]
      · have g3 : 0 < ay := by linarith
        have g4 : ¬ my ≤ 0 := not_le.mpr g
        simp only [g, g3, g4, and_true, if_false, zero_add]
    · simp only [hc, and_false, if_false, add_zero]

/-- splitting an edge at a point `m = a + t·(b − a)`, `t ∈ [0,1]`, changes nothing – for EVERY query point -/
theorem kcr_split (ax ay bx by_ t : K) (h0 : 0 ≤ t) (h1 : t ≤ 1) :
    kcr ax ay (ax + (bx - ax) * t) (ay + (by_ - ay) * t) + kcr (ax + (bx - ax) * t) (ay + (by_ - ay) * t) bx by_
      = kcr ax ay bx by_ := by
  rcases h0.eq_or_lt with rfl | h0
  · simp only [mul_zero, add_zero, kcr_self, zero_add]
  rcases h1.eq_or_lt with rfl | h1
  · have e1 : ax + (bx - ax) * 1 = bx := by ring
    have e2 : ay + (by_ - ay) * 1 = by_ := by ring
    rw [e1, e2, kcr_self, add_zero]
  exact kcr_split_aux ax ay bx by_ _ _ t h0 h1 rfl rfl

end split


/-! ### path level -/
section pathlevel
variable {K : Type} [Field K] [LinearOrder K] [IsStrictOrderedRing K] [FloorRing K] [Scalar K] [LawfulScalar K]

/-- `p` lies on no segment of the path -/
def OffPath (els : List (PathEl K)) (p : Point K) : Prop := ∀ ss, segs els = some ss → ∀ s ∈ ss, ¬ OnSeg s p

/-- the closed polygon `M v0 L v1 … L vn Z` -/
def polygon (v0 : Point K) (vs : List (Point K)) : List (PathEl K) := .MoveTo v0 :: vs.map PathEl.LineTo ++ [.ClosePath]

/-- the chain of edges `v0 v1, v1 v2, …` -/
def lineChain (v0 : Point K) : List (Point K) → List (PathSeg K)
  | [] => []
  | v :: r => .Line ⟨v0, v⟩ :: lineChain v r

theorem isBody_map_lineTo (vs : List (Point K)) : IsBody (vs.map PathEl.LineTo) := by
  intro e he
  rw [List.mem_map] at he
  obtain ⟨v, _, rfl⟩ := he
  trivial

theorem allLines_polygon (v0 : Point K) (vs : List (Point K)) : AllLines (polygon v0 vs) := by
  intro e he
  simp only [polygon, List.cons_append, List.mem_cons, List.mem_append, List.mem_map, List.mem_nil_iff, or_false] at he
  rcases he with rfl | ⟨v, _, rfl⟩ | rfl <;> trivial

theorem closedPath_polygon (v0 : Point K) (vs : List (Point K)) : ClosedPath (polygon v0 vs) := by
  have := ClosedPath.close v0 (vs.map PathEl.LineTo) [] (isBody_map_lineTo vs) ClosedPath.nil
  rwa [List.append_nil] at this

theorem bodySegs_map_lineTo (v0 : Point K) (vs : List (Point K)) :
    bodySegs v0 (vs.map PathEl.LineTo) = lineChain v0 vs := by
  induction vs generalizing v0 with
  | nil => rfl
  | cons v r ih => simp only [List.map_cons, bodySegs, lineChain, ih]

theorem bodyEnd_map_lineTo (v0 : Point K) (vs : List (Point K)) :
    bodyEnd v0 (vs.map PathEl.LineTo) = (v0 :: vs).getLast (List.cons_ne_nil _ _) := by
  induction vs generalizing v0 with
  | nil => rfl
  | cons v r ih =>
    simp only [List.map_cons, bodyEnd, PathEl.end_point, Option.getD_some, ih]
    rw [List.getLast_cons (List.cons_ne_nil _ _)]

/-- the segments of a closed polygon: the chain of edges, then the closing edge back to `v0` unless the last
    vertex is `v0` already -/
theorem segs_polygon (v0 : Point K) (vs : List (Point K)) :
    segs (polygon v0 vs) = some (lineChain v0 vs ++
      (if (v0 :: vs).getLast (List.cons_ne_nil _ _) = v0 then []
       else [PathSeg.Line ⟨(v0 :: vs).getLast (List.cons_ne_nil _ _), v0⟩])) := by
  rw [segs_eq_segsFrom, polygon, segsFrom_closed_subpath none v0 _ (isBody_map_lineTo vs), bodySegs_map_lineTo,
    bodyEnd_map_lineTo, closeSegs_eq_ite]

theorem pathWinding_eq_crossSum {els : List (PathEl K)} (hl : AllLines els) {ss : List (PathSeg K)}
    (hss : segsFrom none els = some ss) (p : Point K) : pathWinding els p = some (crossSum ss p) := by
  rw [pathWinding_eq_sum, segs_eq_segsFrom, hss, Option.map_some,
    windingSum_eq_crossSum ss (segsFrom_allLines els none ss hl hss) p]

theorem closeSegs_isLine (e p : Point K) : ∀ s ∈ closeSegs e p, IsLineSeg s := by
  intro s hs
  unfold closeSegs at hs
  split at hs
  · simp at hs
  · simp only [List.mem_cons, List.not_mem_nil, or_false] at hs; subst hs; trivial

theorem closeSegs_reverse (e p : Point K) : (closeSegs e p).reverse = closeSegs e p := by
  unfold closeSegs; split <;> rfl

end pathlevel

end Kurbo
