import Proofs.Lemmas.C07
/-! Helper definitions and lemmas for C07, part 2: `reverse_subpath` on a run of drawing elements
    (block level) and `reverse_subpaths` (path level, via a decomposition into sub-paths).  Core Lean only. -/
set_option linter.unusedSectionVars false
namespace Kurbo
variable {K : Type} [Scalar K]

/-! ### runs of drawing elements -/

/-- a drawing element (`LineTo` / `QuadTo` / `CurveTo`) -/
def PathEl.isDraw : PathEl K → Bool
  | .LineTo _ | .QuadTo _ _ | .CurveTo _ _ _ => true
  | _ => false

/-- all elements of the list are drawing elements -/
def AllDraw (els : List (PathEl K)) : Prop := ∀ e ∈ els, e.isDraw = true

theorem AllDraw.nil : AllDraw ([] : List (PathEl K)) := fun _ h => by cases h
theorem AllDraw.head {e : PathEl K} {es : List (PathEl K)} (h : AllDraw (e :: es)) : e.isDraw = true :=
  h e (List.mem_cons_self ..)
theorem AllDraw.tail {e : PathEl K} {es : List (PathEl K)} (h : AllDraw (e :: es)) : AllDraw es :=
  fun x hx => h x (List.mem_cons_of_mem _ hx)
theorem AllDraw.append {a b : List (PathEl K)} (ha : AllDraw a) (hb : AllDraw b) : AllDraw (a ++ b) := by
  intro x hx
  rcases List.mem_append.1 hx with h | h
  · exact ha x h
  · exact hb x h
theorem AllDraw.left {a b : List (PathEl K)} (h : AllDraw (a ++ b)) : AllDraw a :=
  fun x hx => h x (List.mem_append_left _ hx)
theorem AllDraw.right {a b : List (PathEl K)} (h : AllDraw (a ++ b)) : AllDraw b :=
  fun x hx => h x (List.mem_append_right _ hx)
theorem AllDraw.single {e : PathEl K} (h : e.isDraw = true) : AllDraw [e] := by
  intro x hx; rw [List.mem_singleton] at hx; subst hx; exact h

/-- end point of an element, with a default for `ClosePath` -/
def PathEl.endD (dflt : Point K) (e : PathEl K) : Point K := e.end_point.getD dflt

/-- the current point after a run of drawing elements started at `start` -/
def runEnd (start : Point K) : List (PathEl K) → Point K
  | [] => start
  | e :: es => runEnd (e.endD start) es

/-- the reversed drawing element, ending at `prevEnd` (body of the loop in `reverse_subpath`) -/
def PathEl.revTo (prevEnd : Point K) : PathEl K → PathEl K
  | .LineTo _ => .LineTo prevEnd
  | .QuadTo c0 _ => .QuadTo c0 prevEnd
  | .CurveTo c0 c1 _ => .CurveTo c1 c0 prevEnd
  | e => e

/-- what the loop of `reverse_subpath` pushes for a run that starts at `start` -/
def revBody (start : Point K) : List (PathEl K) → List (PathEl K)
  | [] => []
  | e :: es => revBody (e.endD start) es ++ [e.revTo start]

theorem runEnd_append (a : Point K) (xs ys : List (PathEl K)) :
    runEnd a (xs ++ ys) = runEnd (runEnd a xs) ys := by
  induction xs generalizing a with
  | nil => rfl
  | cons e es ih => simp only [List.cons_append, runEnd, ih]

theorem stAfterT_draw (S L : Point K) (els : List (PathEl K)) (h : AllDraw els) :
    stAfterT (S, L) els = (S, runEnd L els) := by
  induction els generalizing L with
  | nil => rfl
  | cons e es ih =>
    have he := h.head
    cases e <;> simp only [PathEl.isDraw, Bool.false_eq_true] at he <;>
      simp only [stAfterT, stepT, runEnd, PathEl.endD, PathEl.end_point, Option.getD, ih _ h.tail]

theorem revBody_isDraw (start : Point K) (els : List (PathEl K)) (h : AllDraw els) :
    AllDraw (revBody start els) := by
  induction els generalizing start with
  | nil => exact AllDraw.nil
  | cons e es ih =>
    have he := h.head
    refine AllDraw.append (ih _ h.tail) (AllDraw.single ?_)
    cases e <;> simp only [PathEl.isDraw, Bool.false_eq_true] at he <;> rfl

theorem runEnd_revBody (start : Point K) (els : List (PathEl K)) (h : AllDraw els) :
    runEnd (runEnd start els) (revBody start els) = start := by
  induction els generalizing start with
  | nil => rfl
  | cons e es ih =>
    have he := h.head
    simp only [runEnd, revBody, runEnd_append, ih _ h.tail]
    cases e <;> simp only [PathEl.isDraw, Bool.false_eq_true] at he <;> rfl

/-- **Block lemma.** The elements pushed by `reverse_subpath` for a run of drawing elements trace the reversed
    segments in reverse order, starting from the run's end point. -/
theorem segsT_revBody (S S' start : Point K) (els : List (PathEl K)) (h : AllDraw els) :
    segsT (S', runEnd start els) (revBody start els)
      = ((segsT (S, start) els).map PathSeg.reverse).reverse := by
  induction els generalizing start with
  | nil => rfl
  | cons e es ih =>
    have he := h.head
    simp only [revBody, runEnd]
    rw [segsT_append, ih _ h.tail, stAfterT_draw _ _ _ (revBody_isDraw _ _ h.tail), runEnd_revBody _ _ h.tail]
    cases e <;> simp only [PathEl.isDraw, Bool.false_eq_true] at he <;>
      simp [segsT, stepT, PathEl.revTo, PathEl.endD, PathEl.end_point, PathSeg.reverse,
        Line.new, QuadBez.new, CubicBez.new]

theorem revBody_snoc (a : Point K) (xs : List (PathEl K)) (e : PathEl K) :
    revBody a (xs ++ [e]) = e.revTo (runEnd a xs) :: revBody a xs := by
  induction xs generalizing a with
  | nil => rfl
  | cons x xs ih => simp only [List.cons_append, revBody, runEnd, ih]

/-- reversing a run twice gives back the run (element level) -/
theorem revBody_revBody (start : Point K) (els : List (PathEl K)) (h : AllDraw els) :
    revBody (runEnd start els) (revBody start els) = els := by
  induction els generalizing start with
  | nil => rfl
  | cons e es ih =>
    have he := h.head
    simp only [revBody, runEnd, revBody_snoc, ih _ h.tail, runEnd_revBody _ _ h.tail]
    cases e <;> simp only [PathEl.isDraw, Bool.false_eq_true] at he <;> rfl

/-! ### the model's `reverseSubpath` in closed form -/

/-- the end point of the element before the one being reversed -/
def prevEnd (start : Point K) : List (PathEl K) → Option (Point K)
  | [] => some start
  | prev :: _ => prev.end_point

theorem go_cons (start : Point K) (el : PathEl K) (before : List (PathEl K)) :
    reverseSubpath.go start (el :: before) =
      match prevEnd start before, reverseSubpath.go start before with
      | some ep, some rest =>
        match el with
        | .LineTo _ => some (.LineTo ep :: rest)
        | .QuadTo c0 _ => some (.QuadTo c0 ep :: rest)
        | .CurveTo c0 c1 _ => some (.CurveTo c1 c0 ep :: rest)
        | _ => none
      | _, _ => none := by
  cases before <;> rfl

theorem runEnd_reverse_cons (start : Point K) (prev : PathEl K) (b : List (PathEl K)) (h : prev.isDraw = true) :
    prev.end_point = some (runEnd start (prev :: b).reverse) := by
  rw [List.reverse_cons, runEnd_append]
  cases prev <;> simp only [PathEl.isDraw, Bool.false_eq_true] at h <;> rfl

theorem go_eq (start : Point K) (r : List (PathEl K)) (h : AllDraw r) :
    reverseSubpath.go start r = some (revBody start r.reverse) := by
  induction r with
  | nil => rfl
  | cons el before ih =>
    rw [go_cons, ih h.tail, List.reverse_cons, revBody_snoc]
    have he := h.head
    have hep : prevEnd start before = some (runEnd start before.reverse) := by
      cases before with
      | nil => rfl
      | cons prev b => exact runEnd_reverse_cons start prev b h.tail.head
    rw [hep]
    cases el <;> simp only [PathEl.isDraw, Bool.false_eq_true] at he <;> rfl

theorem end_pt_eq (start : Point K) (els : List (PathEl K)) (h : AllDraw els) :
    (els.getLast?.bind PathEl.end_point).getD start = runEnd start els := by
  induction els using snoc_induction with
  | nil => rfl
  | snoc l a _ =>
    rw [List.getLast?_concat, runEnd_append]
    have ha := (h.right).head
    cases a <;> simp only [PathEl.isDraw, Bool.false_eq_true] at ha <;> rfl

theorem reverseSubpath_eq (start : Point K) (els : List (PathEl K)) (h : AllDraw els) :
    reverseSubpath start els = some (.MoveTo (runEnd start els) :: revBody start els) := by
  unfold reverseSubpath
  have hr : AllDraw els.reverse := fun x hx => h x (List.mem_reverse.1 hx)
  simp only [go_eq start _ hr, List.reverse_reverse, end_pt_eq start els h]

theorem go_none_of_not_allDraw (start : Point K) (r : List (PathEl K)) (h : ¬ AllDraw r) :
    reverseSubpath.go start r = none := by
  induction r with
  | nil => exact absurd AllDraw.nil h
  | cons el before ih =>
    rw [go_cons]
    by_cases hb : AllDraw before
    · have hel : ¬ el.isDraw = true := by
        intro he
        exact h (AllDraw.append (AllDraw.single he) hb)
      cases el <;> simp only [PathEl.isDraw, not_true_eq_false] at hel <;>
        cases prevEnd start before <;> cases reverseSubpath.go start before <;> rfl
    · rw [ih hb]
      cases prevEnd start before <;> rfl

theorem reverseSubpath_none (start : Point K) (els : List (PathEl K)) (h : ¬ AllDraw els) :
    reverseSubpath start els = none := by
  unfold reverseSubpath
  have hr : ¬ AllDraw els.reverse := fun hr => h (fun x hx => hr x (List.mem_reverse.2 hx))
  simp only [go_none_of_not_allDraw start _ hr]

theorem segStateAfter_moveTo (p : Point K) (els : List (PathEl K)) :
    segStateAfter none (.MoveTo p :: els) = some (some (stAfterT (p, p) els)) := by
  have h0 : segStateAfter none (.MoveTo p :: els) = segStateAfter (some (p, p)) els := rfl
  rw [h0, segStateAfter_some]

end Kurbo
