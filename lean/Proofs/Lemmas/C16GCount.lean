import Proofs.Lemmas.C16G
/-! C16G helpers, part 2: the piece count of an arc command for radii up to 366 (where the error-based count is below the
    minimum `3.999999`): `n = ⌈3.999999·|sweep|/(2π)⌉`; a half turn gives 2 pieces. -/
set_option linter.unusedSectionVars false
namespace Kurbo
section count
variable [Scalar ℝ] [LawfulScalar ℝ] [LawfulTrig] [LawfulCount]
open LawfulTrig LawfulCount

theorem rpow_sixth_le {x : ℝ} (h0 : 0 ≤ x) (hx : x ≤ 4095) : x ^ ((1:ℝ)/6) ≤ 3999999 / 1000000 := by
  have hc : (0:ℝ) ≤ 3999999 / 1000000 := by norm_num
  have h1 : x ≤ ((3999999 / 1000000 : ℝ)) ^ (6 : ℕ) := by
    refine hx.trans ?_; norm_num
  have h2 := Real.rpow_le_rpow h0 h1 (by norm_num : (0:ℝ) ≤ 1 / 6)
  have h3 : (((3999999 / 1000000 : ℝ)) ^ (6 : ℕ)) ^ ((1:ℝ)/6) = 3999999 / 1000000 := by
    have := Real.pow_rpow_inv_natCast hc (n := 6) (by norm_num)
    rw [show ((6:ℕ):ℝ)⁻¹ = (1:ℝ)/6 by norm_num] at this
    exact this
  rw [h3] at h2; exact h2

/-- radii up to 366: the count is `⌈3.999999·|sweep|/(2π)⌉` -/
theorem cmdN_small (a : Arc ℝ) (h0 : 0 ≤ max a.radii.x a.radii.y) (hr : max a.radii.x a.radii.y ≤ 366) :
    (a.cmdN : ℝ) = (⌈3999999 / 1000000 * |a.sweep_angle| * (1 / (2 * Real.pi))⌉ : ℝ) := by
  unfold Arc.cmdN
  simp only [Arc.appendParams, scalar_norm, toUSize_eq, pi_eq, powf_eq]
  push_cast
  have hx : (11163 / 10000 * (max a.radii.x a.radii.y / (1 / 10)) : ℝ) ^ ((1:ℝ)/6) ≤ 3999999 / 1000000 := by
    apply rpow_sixth_le
    · positivity
    · rw [div_div_eq_mul_div, div_one]; linarith
  rw [max_eq_right hx]
  set y := 3999999 / 1000000 * |a.sweep_angle| * (1 / (2 * Real.pi)) with hy
  have hy0 : 0 ≤ y := by positivity
  have hc0 : (0 : ℝ) ≤ (⌈y⌉ : ℝ) := by exact_mod_cast Int.ceil_nonneg hy0
  rw [natCast_floor_eq_intCast_floor hc0, Int.floor_intCast]

/-- a half turn with radii up to 366 is drawn with exactly two cubics -/
theorem cmdN_half_turn (a : Arc ℝ) (h0 : 0 ≤ max a.radii.x a.radii.y) (hr : max a.radii.x a.radii.y ≤ 366)
    (hs : |a.sweep_angle| = Real.pi) : a.cmdN = 2 := by
  have h := cmdN_small a h0 hr
  rw [hs] at h
  have hpi := Real.pi_pos
  have e : (3999999 / 1000000 * Real.pi * (1 / (2 * Real.pi)) : ℝ) = 3999999 / 2000000 := by field_simp; norm_num
  rw [e] at h
  have hc : ⌈(3999999 / 2000000 : ℝ)⌉ = 2 := by
    rw [Int.ceil_eq_iff]; constructor <;> norm_num
  rw [hc] at h
  exact_mod_cast h

end count
end Kurbo
