import Proofs.KDefs
import Proofs.C06
import Proofs.Lemmas.C17
import Kurbo.Quads
/-! Helper lemmas for C17: `CubicBez.split_into_n`. -/
set_option linter.unusedSectionVars false
namespace Kurbo
variable {K : Type} [Field K] [LinearOrder K] [IsStrictOrderedRing K] [FloorRing K] [Scalar K] [LawfulScalar K]

theorem cubic_subdivide_3 (c : CubicBez K) :
    c.subdivide_3 = (c.subsegment ⟨0, 1 / 3⟩, c.subsegment ⟨1 / 3, 2 / 3⟩, c.subsegment ⟨2 / 3, 1⟩) := by
  cases c; rename_i p0 p1 p2 p3; cases p0; cases p1; cases p2; cases p3
  simp only [CubicBez.subdivide_3, Vec2.div_exact]
  kring_all

theorem cubic_subsegment_subsegment (c : CubicBez K) (a b u v : K) :
    (c.subsegment ⟨a, b⟩).subsegment ⟨u, v⟩ = c.subsegment ⟨a + u * (b - a), a + v * (b - a)⟩ := by
  cases c; rename_i p0 p1 p2 p3; cases p0; cases p1; cases p2; cases p3
  kring

theorem cubic_subsegment_full (c : CubicBez K) : c.subsegment ⟨0, 1⟩ = c := by
  cases c; rename_i p0 p1 p2 p3; cases p0; cases p1; cases p2; cases p3
  kring

theorem split_into_n_eq (c : CubicBez K) (n : Nat) :
    c.split_into_n n = (List.range n).map fun i : Nat => c.subsegment ⟨(i : K) / n, ((i : K) + 1) / n⟩ := by
  unfold CubicBez.split_into_n
  split
  · simp [List.range_succ, cubic_subsegment_full]
  · rw [cubic_subdivide]
    simp [List.range_succ]
  · rw [cubic_subdivide_3]
    simp [List.range_succ]
    norm_num
  · simp only [cubic_subdivide, cubic_subsegment_subsegment]
    simp [List.range_succ]
    norm_num
  · simp only [cubic_subdivide, cubic_subdivide_3, cubic_subsegment_subsegment]
    simp [List.range_succ]
    norm_num
  · simp only [CubicBez.parameters]
    apply List.map_congr_left
    intro i _
    simp only [CubicBez.from_parameters, Vec2.div_exact]
    kring_all

end Kurbo
