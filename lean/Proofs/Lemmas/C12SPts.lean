import Proofs.Lemmas.C12SArc
import Mathlib.Data.Set.Image
/-! Helper definitions and lemmas for C12S, part 3: the point sets of ellipses, circles and arcs. -/
set_option linter.unusedSectionVars false
namespace Kurbo
open Real

section lawful
variable {K : Type} [Field K] [LinearOrder K] [IsStrictOrderedRing K] [FloorRing K] [Scalar K] [LawfulScalar K]

/-- the ideal point set of an `Ellipse`: the image of the unit circle under its affine map -/
def Ellipse.pts (e : Ellipse K) : Set (Point K) := {p | ∃ u : Point K, u.x ^ 2 + u.y ^ 2 = 1 ∧ p = e.inner * u}

/-- the ideal point set of a `Circle` -/
def Circle.pts (c : Circle K) : Set (Point K) :=
  {p | (p.x - c.center.x) ^ 2 + (p.y - c.center.y) ^ 2 = c.radius ^ 2}

/-- `Ellipse::from(circle)` as `impl Mul<Circle> for Affine` builds it -/
def Circle.toEllipse (c : Circle K) : Ellipse K := Ellipse.new c.center ⟨c.radius, c.radius⟩ (@OfNat.ofNat K 0 Ops.instOfNat)

theorem mul_Ellipse_pts (A : Affine K) (e : Ellipse K) : (A.mul_Ellipse e).pts = (fun p : Point K => A * p) '' e.pts := by
  ext p
  constructor
  · rintro ⟨u, hu, rfl⟩
    exact ⟨e.inner * u, ⟨u, hu, rfl⟩, (c12s_mul_action A e.inner u).symm⟩
  · rintro ⟨q, ⟨u, hu, rfl⟩, rfl⟩
    exact ⟨u, hu, (c12s_mul_action A e.inner u).symm⟩

theorem mul_Ellipse_center (A : Affine K) (e : Ellipse K) : (A.mul_Ellipse e).center = A * e.center := by
  simp only [Affine.mul_Ellipse, Ellipse.center, Vec2.to_point]
  kaff

end lawful

section real
variable [Scalar ℝ] [LawfulScalar ℝ] [LawfulTrig]

/-- the unit circle is `{(cos θ, sin θ)}` -/
theorem unit_circle_param (u : Point ℝ) (hu : u.x ^ 2 + u.y ^ 2 = 1) :
    u = ⟨cos (Complex.arg ⟨u.x, u.y⟩), sin (Complex.arg ⟨u.x, u.y⟩)⟩ := by
  obtain ⟨hc, hs⟩ := hyp_cos_sin_arg u.x u.y
  rw [hu, Real.sqrt_one, one_mul] at hc hs
  cases u
  simp only [Point.mk.injEq]
  exact ⟨hc.symm, hs.symm⟩

theorem ellipse_pts_param (e : Ellipse ℝ) :
    e.pts = {p | ∃ θ : ℝ, p = e.inner * (⟨cos θ, sin θ⟩ : Point ℝ)} := by
  ext p
  constructor
  · rintro ⟨u, hu, rfl⟩
    exact ⟨_, by rw [← unit_circle_param u hu]⟩
  · rintro ⟨θ, rfl⟩
    exact ⟨_, Real.cos_sq_add_sin_sq θ, rfl⟩

/-- the point set of `Ellipse::from(circle)` is the circle (every radius, also negative and zero) -/
theorem circle_toEllipse_pts (c : Circle ℝ) : c.toEllipse.pts = c.pts := by
  have h0 : (@OfNat.ofNat ℝ 0 Ops.instOfNat) = (0 : ℝ) := ofNat_zero_eq
  have hact : ∀ u : Point ℝ, c.toEllipse.inner * u = ⟨c.center.x + |c.radius| * u.x, c.center.y + |c.radius| * u.y⟩ := by
    intro u
    unfold Circle.toEllipse
    rw [ellipse_new_act, h0, LawfulTrig.sin_eq, LawfulTrig.cos_eq, Real.sin_zero, Real.cos_zero]
    simp only [Point.mk.injEq]
    constructor <;> ring
  ext p
  simp only [Ellipse.pts, Circle.pts, Set.mem_ofPred_eq]
  constructor
  · rintro ⟨u, hu, rfl⟩
    rw [hact]
    simp only
    rw [← sq_abs c.radius]
    linear_combination (|c.radius| ^ 2) * hu
  · intro hp
    rw [← sq_abs c.radius] at hp
    by_cases hr : |c.radius| = 0
    · refine ⟨⟨1, 0⟩, by norm_num, ?_⟩
      rw [hact, hr]
      rw [hr] at hp
      have hx : p.x - c.center.x = 0 := by nlinarith [sq_nonneg (p.x - c.center.x), sq_nonneg (p.y - c.center.y)]
      have hy : p.y - c.center.y = 0 := by nlinarith [sq_nonneg (p.x - c.center.x), sq_nonneg (p.y - c.center.y)]
      cases p
      simp only [Point.mk.injEq] at *
      constructor <;> linarith
    · refine ⟨⟨(p.x - c.center.x) / |c.radius|, (p.y - c.center.y) / |c.radius|⟩, ?_, ?_⟩
      · simp only
        field_simp
        linear_combination hp
      · rw [hact]
        cases p
        simp only [Point.mk.injEq]
        constructor <;> field_simp <;> ring

variable [LawfulReal]

/-- the point set described by `(center, radii, rotation)` of `Ellipse::radii_and_rotation` -/
def Ellipse.svdPts (e : Ellipse ℝ) : Set (Point ℝ) :=
  {p | ∃ θ : ℝ, p = e.center + sampleEllipse e.inner.svd.1 e.inner.svd.2 θ}

theorem ellipse_pts_eq_svdPts (e : Ellipse ℝ) (hdet : e.inner.determinant ≠ 0) : e.pts = e.svdPts := by
  rw [ellipse_pts_param]
  ext p
  constructor
  · rintro ⟨θ, rfl⟩
    exact ⟨_, svd_point e.inner hdet θ⟩
  · rintro ⟨θ', rfl⟩
    exact ⟨_, svd_point_inv e.inner hdet θ'⟩

/-- … also for a singular `inner` (the ellipse degenerates to a segment traversed twice, or to a point) -/
theorem ellipse_pts_eq_svdPts_all (e : Ellipse ℝ) : e.pts = e.svdPts := by
  by_cases hdet : e.inner.determinant = 0
  · rw [ellipse_pts_param]
    ext p
    constructor
    · rintro ⟨θ, rfl⟩
      exact ⟨_, (svd_point_singular e.inner hdet θ).2⟩
    · rintro ⟨θ', rfl⟩
      refine ⟨θ' + svdPhase e.inner, ?_⟩
      rw [(svd_point_singular e.inner hdet _).2, add_sub_cancel_right]
      rfl
  · exact ellipse_pts_eq_svdPts e hdet

/-- the points of an arc: parameter `s ∈ [0, 1]` -/
def Arc.pts (a : Arc ℝ) : Set (Point ℝ) :=
  {p | ∃ s : ℝ, 0 ≤ s ∧ s ≤ 1 ∧ p = a.pointAt (a.start_angle + s * a.sweep_angle)}

end real
end Kurbo
