import Proofs.Lemmas.C16
import Lean.Elab.Tactic
/-! Helper lemmas for C16/C14: one `svgCommand` call (`svgCommand_post`: never panics, error kinds, progress of the lexer,
    what it does to `last_cmd`). Arbitrary `[Scalar K]`. -/
namespace Kurbo
variable {K : Type} [Scalar K]

theorem Lx.Le_iff {l l' : Lx} : l.Le l' ↔ l'.data = l.data ∧ l.ix ≤ l'.ix ∧ (l.ix ≤ l.data.size → l'.ix ≤ l'.data.size) :=
  ⟨fun h => ⟨h.data, h.ix, h.wf⟩, fun h => ⟨h.1, h.2.1, h.2.2⟩⟩
theorem Lx.Lt_iff {l l' : Lx} : l.Lt l' ↔ l'.data = l.data ∧ l.ix < l'.ix ∧ (l.ix ≤ l.data.size → l'.ix ≤ l'.data.size) :=
  ⟨fun h => ⟨h.data, h.ix, h.wf⟩, fun h => ⟨h.1, h.2.1, h.2.2⟩⟩

open Lean Elab Tactic in
/-- add the index facts (`Lx.Lt` / `Lx.Le`) of every successful lexer call recorded in the context -/
elab "lx_facts" : tactic => withMainContext do
  for d in (← getLCtx) do
    unless d.isImplementationDetail do
      let ty ← instantiateMVars d.type
      if let some (_, lhs, _) := ty.eq? then
        let fn := lhs.getAppFn
        let e ← Term.exprToSyntax d.toExpr
        if fn.isConstOf ``getMaybeRelative then
          evalTactic (← `(tactic| try have := getMaybeRelative_ok $e))
        else if fn.isConstOf ``getNumberPair then
          evalTactic (← `(tactic| try have := getNumberPair_ok $e))
        else if fn.isConstOf ``getNumber then
          evalTactic (← `(tactic| try have := getNumber_ok $e))
        else if fn.isConstOf ``getFlag then
          evalTactic (← `(tactic| try have := getFlag_ok $e))
        else if fn.isConstOf ``optComma then
          evalTactic (← `(tactic| try have := optComma_le $e))

/-- the command letter folded to lower case, as `svgCommand` does -/
def lowerCmd (c : UInt8) : UInt8 := if isUpper c then c + 32 else c

/-- the `pre` step of `svgCommand`: `none` = `UninitializedPath` -/
def svgPre (c : UInt8) (st : SvgSt K) : Option (SvgSt K) :=
  if c != 109 && c != 77 then
    if st.path.isEmpty then none
    else match st.implicit_moveto with
      | some pt => some { st with path := st.path ++ [.MoveTo pt], implicit_moveto := none }
      | none => some st
  else some st

omit [Scalar K] in
theorem svgPre_some {c : UInt8} {st st1 : SvgSt K} (h : svgPre c st = some st1) :
    st1.last_cmd = st.last_cmd ∧ st1.last_pt = st.last_pt ∧ st1.first_pt = st.first_pt ∧ st1.last_ctrl = st.last_ctrl ∧
    ((c ≠ 109 ∧ c ≠ 77) → st.path ≠ [] ∧ st1.implicit_moveto = none ∧
      st1.path = st.path ++ (match st.implicit_moveto with | some pt => [.MoveTo pt] | none => [])) ∧
    ((c = 109 ∨ c = 77) → st1 = st) := by
  unfold svgPre at h
  split at h
  · rename_i hc
    simp only [Bool.and_eq_true, bne_iff_ne, ne_eq] at hc
    split at h
    · simp at h
    · rename_i hp
      split at h
      · rename_i pt hi
        simp only [Option.some.injEq] at h; subst h
        refine ⟨rfl, rfl, rfl, rfl, fun _ => ⟨by simpa using hp, rfl, by simp⟩, ?_⟩
        intro h; rcases h with h | h <;> simp [h] at hc
      · rename_i hi
        simp only [Option.some.injEq] at h; subst h
        refine ⟨rfl, rfl, rfl, rfl, fun _ => ⟨by simpa using hp, hi, by simp⟩, fun _ => rfl⟩
  · rename_i hc
    simp only [Option.some.injEq] at h; subst h
    refine ⟨rfl, rfl, rfl, rfl, fun h => ?_, fun _ => rfl⟩
    simp only [Bool.and_eq_true, bne_iff_ne, ne_eq] at hc
    exact absurd h hc


/-- the lower-case command letters `svgCommand` knows: `m l h v q t c s a z` -/
def knownCmd (lc : UInt8) : Bool :=
  lc == 109 || lc == 108 || lc == 104 || lc == 118 || lc == 113 || lc == 116 || lc == 99 || lc == 115 || lc == 97 || lc == 122

/-- everything the no-panic / progress / error theorems need to know about one `svgCommand` call -/
def SvgCmdPost (c : UInt8) (st : SvgSt K) (l : Lx) : LR (SvgSt K) → Prop
  | .panic => False
  | .err e =>
      (e = .uninitializedPath ∧ c ≠ 109 ∧ c ≠ 77 ∧ st.path = []) ∨
      ((c = 109 ∨ c = 77 ∨ st.path ≠ []) ∧
        (((e = .wrong ∨ e = .unexpectedEof) ∧ knownCmd (lowerCmd c) = true ∧ lowerCmd c ≠ 122) ∨
         (e = .unknownCommand c ∧ knownCmd (lowerCmd c) = false)))
  | .ok st' l' =>
      l.Le l' ∧ st'.path ≠ [] ∧ knownCmd (lowerCmd c) = true ∧ (c = 109 ∨ c = 77 ∨ st.path ≠ []) ∧
      (lowerCmd c ≠ 122 → l.Lt l' ∧ (lowerCmd c = 109 → st'.last_cmd = c - 1) ∧ (lowerCmd c ≠ 109 → st'.last_cmd = c)) ∧
      (lowerCmd c = 122 → l' = l ∧ st'.last_cmd = st.last_cmd)

macro "lx_chain" : tactic => `(tactic| (lx_facts; simp only [Lx.Le_iff, Lx.Lt_iff] at *; grind))

/-- one non-`z` arm of `svgCommand_post`: split all matches of `h`, then handle the `panic` / `err` / `ok` leaves -/
macro "svg_branch" h:ident hk:ident hpath:ident hinit:ident : tactic => `(tactic| (
  repeat' split at $h:ident
  all_goals subst $h:ident
  all_goals first
    | exact absurd ‹getMaybeRelative _ _ _ = LR.panic› (getMaybeRelative_ne_panic _ _ _)
    | exact absurd ‹getNumberPair _ = LR.panic› (getNumberPair_ne_panic _)
    | exact absurd ‹getNumber _ = LR.panic› (getNumber_ne_panic _)
    | exact absurd ‹getFlag _ = LR.panic› (getFlag_ne_panic _)
    | exact absurd ‹optComma _ = none› (optComma_ne_panic _)
    | exact .inr ⟨$hinit, .inl ⟨getMaybeRelative_err ‹getMaybeRelative _ _ _ = LR.err _›, by rw [$hk:ident]; decide, by rw [$hk:ident]; decide⟩⟩
    | exact .inr ⟨$hinit, .inl ⟨getNumberPair_err ‹getNumberPair _ = LR.err _›, by rw [$hk:ident]; decide, by rw [$hk:ident]; decide⟩⟩
    | exact .inr ⟨$hinit, .inl ⟨getNumber_err ‹getNumber _ = LR.err _›, by rw [$hk:ident]; decide, by rw [$hk:ident]; decide⟩⟩
    | exact .inr ⟨$hinit, .inl ⟨getFlag_err ‹getFlag _ = LR.err _›, by rw [$hk:ident]; decide, by rw [$hk:ident]; decide⟩⟩
    | (refine ⟨Lx.Lt.le ?lt, ?_, by rw [$hk:ident]; decide, $hinit, fun _ => ⟨?lt, ?_⟩, fun hz => absurd hz (by rw [$hk:ident]; decide)⟩
       case lt => lx_chain
       · first | (simp; done) | (have := $hpath (by rw [$hk:ident]; decide); simp [this])
       · first
         | exact ⟨fun _ => rfl, fun h => absurd $hk h⟩
         | exact ⟨fun h => absurd (($hk).symm.trans h) (by decide), fun _ => rfl⟩)))

theorem svgCommand_post {c : UInt8} {st : SvgSt K} {l : Lx} {r : LR (SvgSt K)} (h : svgCommand c st l = r) :
    SvgCmdPost c st l r := by
  unfold svgCommand at h
  simp only at h
  split at h
  · rename_i pre hpre
    subst h
    have : svgPre c st = none := hpre
    unfold svgPre at this
    split at this
    · rename_i hc
      simp only [Bool.and_eq_true, bne_iff_ne, ne_eq] at hc
      split at this
      · rename_i hp; exact .inl ⟨rfl, hc.1, hc.2, by simpa using hp⟩
      · split at this <;> simp at this
    · simp at this
  rename_i pre st1 hpre
  obtain ⟨hp1, -, -, -, hp2, hp3⟩ := svgPre_some hpre
  have hlc : (if isUpper c = true then c + 32 else c) = lowerCmd c := rfl
  rw [hlc] at h
  have hinit : c = 109 ∨ c = 77 ∨ st.path ≠ [] := by
    by_cases h1 : c = 109
    · exact .inl h1
    · by_cases h2 : c = 77
      · exact .inr (.inl h2)
      · exact .inr (.inr (hp2 ⟨h1, h2⟩).1)
  generalize hlcv : lowerCmd c = lc at h ⊢
  clear hlc
  have hpath : lowerCmd c ≠ 109 → st1.path ≠ [] := by
    intro hne
    rw [hlcv] at hne
    have hc : c ≠ 109 ∧ c ≠ 77 := by
      subst hlcv
      constructor <;> (intro hc; subst hc; exact hne (by decide))
    obtain ⟨h1, _, h2⟩ := hp2 hc
    rw [h2]; simp [h1]
  clear hp2 hp3 hpre
  by_cases h109 : (lc == 109) = true
  · rw [if_pos h109] at h
    have hk : lowerCmd c = 109 := hlcv.trans (beq_iff_eq.mp h109)
    svg_branch h hk hpath hinit
  rw [if_neg h109] at h
  by_cases h108 : (lc == 108) = true
  · rw [if_pos h108] at h
    have hk : lowerCmd c = 108 := hlcv.trans (beq_iff_eq.mp h108)
    svg_branch h hk hpath hinit
  rw [if_neg h108] at h
  by_cases h104 : (lc == 104) = true
  · rw [if_pos h104] at h
    have hk : lowerCmd c = 104 := hlcv.trans (beq_iff_eq.mp h104)
    svg_branch h hk hpath hinit
  rw [if_neg h104] at h
  by_cases h118 : (lc == 118) = true
  · rw [if_pos h118] at h
    have hk : lowerCmd c = 118 := hlcv.trans (beq_iff_eq.mp h118)
    svg_branch h hk hpath hinit
  rw [if_neg h118] at h
  by_cases h113 : (lc == 113) = true
  · rw [if_pos h113] at h
    have hk : lowerCmd c = 113 := hlcv.trans (beq_iff_eq.mp h113)
    svg_branch h hk hpath hinit
  rw [if_neg h113] at h
  by_cases h116 : (lc == 116) = true
  · rw [if_pos h116] at h
    have hk : lowerCmd c = 116 := hlcv.trans (beq_iff_eq.mp h116)
    svg_branch h hk hpath hinit
  rw [if_neg h116] at h
  by_cases h99 : (lc == 99) = true
  · rw [if_pos h99] at h
    have hk : lowerCmd c = 99 := hlcv.trans (beq_iff_eq.mp h99)
    svg_branch h hk hpath hinit
  rw [if_neg h99] at h
  by_cases h115 : (lc == 115) = true
  · rw [if_pos h115] at h
    have hk : lowerCmd c = 115 := hlcv.trans (beq_iff_eq.mp h115)
    svg_branch h hk hpath hinit
  rw [if_neg h115] at h
  by_cases h97 : (lc == 97) = true
  · rw [if_pos h97] at h
    have hk : lowerCmd c = 97 := hlcv.trans (beq_iff_eq.mp h97)
    svg_branch h hk hpath hinit
  rw [if_neg h97] at h
  by_cases h122 : (lc == 122) = true
  · rw [if_pos h122] at h
    have hk : lowerCmd c = 122 := hlcv.trans (beq_iff_eq.mp h122)
    subst h
    exact ⟨Lx.Le.refl _, by simp, by rw [hk]; decide, hinit, fun hz => absurd hk hz, fun _ => ⟨rfl, hp1⟩⟩
  rw [if_neg h122] at h
  subst h
  refine .inr ⟨hinit, .inr ⟨rfl, ?_⟩⟩
  rw [hlcv]
  simp only [knownCmd, Bool.or_eq_false_iff]
  simp only [Bool.not_eq_true] at *
  simp only [*, and_self]

end Kurbo
