import Mathlib.Algebra.Order.Field.Basic
import Mathlib.Tactic.Ring
import Mathlib.Tactic.Linarith
import Mathlib.Tactic.FieldSimp
import Mathlib.Tactic.LinearCombination
import Mathlib.Tactic.Positivity
/-! Helper lemmas for C04, part 6: pure ordered-field facts (no model terms): the miter point, convexity of the disc. -/
namespace Kurbo
variable {K : Type} [Field K] [LinearOrder K] [IsStrictOrderedRing K]

/-- the miter point of `do_join` relative to the join point. `(ax, ay)` incoming tangent of length `a`, `(cx, cy)` outgoing
    tangent of length `c`, `r` half the width, `σ = -1` forward side, `σ = 1` backward side. With `D` the dot product and
    `X ≠ 0` the cross product of the tangents: `|m|² · (a·c + D) = 2·r²·a·c`. -/
theorem c04_miter_core (ax ay cx cy a c r σ X D h mx my : K) (ha : a * a = ax * ax + ay * ay)
    (hc : c * c = cx * cx + cy * cy) (ha0 : a ≠ 0) (hc0 : c ≠ 0) (hX : X ≠ 0) (hσ : σ * σ = 1)
    (eX : X = ax * cy - ay * cx) (eD : D = ax * cx + ay * cy)
    (eh : h = (ax * (σ * (r / c * cx) - σ * (r / a * ax)) - ay * (σ * (r / c * -cy) - σ * (r / a * -ay))) / X)
    (emx : mx = σ * (r / c * -cy) - cx * h) (emy : my = σ * (r / c * cx) - cy * h) :
    (mx * mx + my * my) * (a * c + D) = 2 * (r * r) * (a * c) ∧
    -- the miter point lies on the offset line of the incoming segment
    ax * (my - σ * (r / a * ax)) - ay * (mx - σ * (r / a * -ay)) = 0 := by
  have lagr : X * X + D * D = (a * a) * (c * c) := by rw [ha, hc, eX, eD]; ring
  have hh : h * (c * X) = σ * r * (D - a * c) := by
    have num : ax * (σ * (r / c * cx) - σ * (r / a * ax)) - ay * (σ * (r / c * -cy) - σ * (r / a * -ay))
        = σ * r * (D - a * c) / c := by
      rw [eD]
      field_simp
      linear_combination (σ * r * c) * ha
    rw [eh, num]
    field_simp
  have hmx : mx * (c * X) = σ * r * (-(cy * X) - cx * (D - a * c)) := by
    have : mx * (c * X) = σ * r * -cy * X - cx * (h * (c * X)) := by
      rw [emx]; field_simp
    rw [this, hh]; ring
  have hmy : my * (c * X) = σ * r * (cx * X - cy * (D - a * c)) := by
    have : my * (c * X) = σ * r * cx * X - cy * (h * (c * X)) := by
      rw [emy]; field_simp
    rw [this, hh]; ring
  have hcX : c * X ≠ 0 := mul_ne_zero hc0 hX
  have hsum : (mx * (c * X)) * (mx * (c * X)) + (my * (c * X)) * (my * (c * X))
      = r * r * (c * c) * (X * X + (D - a * c) * (D - a * c)) := by
    rw [hmx, hmy]
    linear_combination (r * r * (cx * cx + cy * cy) * (X * X + (D - a * c) * (D - a * c))) * hσ
      - (r * r * (X * X + (D - a * c) * (D - a * c))) * hc
  constructor
  · have e : ((mx * mx + my * my) * (a * c + D)) * ((c * X) * (c * X))
        = (2 * (r * r) * (a * c)) * ((c * X) * (c * X)) := by
      have e1 : ((mx * mx + my * my) * (a * c + D)) * ((c * X) * (c * X))
          = ((mx * (c * X)) * (mx * (c * X)) + (my * (c * X)) * (my * (c * X))) * (a * c + D) := by ring
      rw [e1, hsum]
      linear_combination (r * r * (c * c) * (D - a * c)) * lagr
    exact mul_right_cancel₀ (mul_ne_zero hcX hcX) e
  · have e : (ax * (my - σ * (r / a * ax)) - ay * (mx - σ * (r / a * -ay))) * (a * (c * X)) = 0 := by
      have e1 : (ax * (my - σ * (r / a * ax)) - ay * (mx - σ * (r / a * -ay))) * (a * (c * X))
          = a * (ax * (my * (c * X)) - ay * (mx * (c * X))) - σ * r * (c * X) * (ax * ax + ay * ay) := by
        field_simp
        ring
      rw [e1, hmx, hmy, ← ha, eX, eD]
      ring
    rcases mul_eq_zero.1 e with h0 | h0
    · exact h0
    · exact absurd h0 (mul_ne_zero ha0 hcX)

/-- the miter test of `do_join` bounds the miter distance -/
theorem c04_miter_within_core (m2 hyp dot r lim : K) (hm : m2 * (hyp + dot) = 2 * r ^ 2 * hyp) (hh : 0 ≤ hyp)
    (htest : 2 * hyp < (hyp + dot) * lim ^ 2) : m2 ≤ (r * lim) ^ 2 := by
  have hl : 0 ≤ lim ^ 2 := sq_nonneg lim
  have hpos : 0 < hyp + dot := by
    by_contra hn
    have : (hyp + dot) * lim ^ 2 ≤ 0 := mul_nonpos_of_nonpos_of_nonneg (not_lt.1 hn) hl
    linarith
  have h1 : m2 * (hyp + dot) ≤ (r * lim) ^ 2 * (hyp + dot) := by
    rw [hm]
    have : 0 ≤ r ^ 2 := sq_nonneg r
    nlinarith [mul_le_mul_of_nonneg_left htest.le this]
  exact le_of_mul_le_mul_right h1 hpos

/-- convexity of the disc: a point between two points of the circle of radius `r` is in the disc -/
theorem c04_chord_within (ax ay bx by_ s rr : K) (ha : ax * ax + ay * ay = rr) (hb : bx * bx + by_ * by_ = rr)
    (h0 : 0 ≤ s) (h1 : s ≤ 1) :
    ((1 - s) * ax + s * bx) * ((1 - s) * ax + s * bx) + ((1 - s) * ay + s * by_) * ((1 - s) * ay + s * by_) ≤ rr := by
  have hd : 0 ≤ (ax - bx) * (ax - bx) + (ay - by_) * (ay - by_) :=
    add_nonneg (mul_self_nonneg _) (mul_self_nonneg _)
  have hs : 0 ≤ s * (1 - s) := mul_nonneg h0 (by linarith)
  have key : ((1 - s) * ax + s * bx) * ((1 - s) * ax + s * bx) + ((1 - s) * ay + s * by_) * ((1 - s) * ay + s * by_)
      = rr - s * (1 - s) * ((ax - bx) * (ax - bx) + (ay - by_) * (ay - by_)) := by
    linear_combination ((1 - s) * (1 - s) + s * (1 - s)) * ha + (s * s + s * (1 - s)) * hb
  rw [key]
  nlinarith [mul_nonneg hs hd]

end Kurbo
