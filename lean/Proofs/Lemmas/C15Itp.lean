import Kurbo.Solve
import Proofs.Lawful
import Mathlib.Tactic.LinearCombination
import Mathlib.Order.Monotone.Basic
import Mathlib.Order.Interval.Set.Basic
/-! helper lemmas for C15, the ITP bracketing solver (any lawful scalar) -/
set_option linter.unusedSectionVars false
namespace Kurbo
section ordered
variable {K : Type} [Field K] [LinearOrder K] [IsStrictOrderedRing K]

theorem abs_sub_mid_le {a b x : K} (h1 : a ≤ x) (h2 : x ≤ b) : |x - 1 / 2 * (a + b)| ≤ 1 / 2 * (b - a) :=
  abs_le.mpr ⟨by linarith, by linarith⟩

theorem mem_of_abs_sub_mid_le {a b x : K} (h : |x - 1 / 2 * (a + b)| ≤ 1 / 2 * (b - a)) : a ≤ x ∧ x ≤ b := by
  obtain ⟨h1, h2⟩ := abs_le.mp h
  exact ⟨by linarith, by linarith⟩

theorem abs_copysign (r : K) (c : Prop) [Decidable c] : |(if c then -|r| else |r|)| = |r| := by
  split_ifs
  · rw [abs_neg, abs_abs]
  · rw [abs_abs]

/-- the regula-falsi point lies in the bracket -/
theorem falsi_mem {a b ya yb : K} (hab : a ≤ b) (hya : ya < 0) (hyb : 0 < yb) :
    a ≤ (yb * a - ya * b) / (yb - ya) ∧ (yb * a - ya * b) / (yb - ya) ≤ b := by
  have hD : 0 < yb - ya := by linarith
  constructor
  · rw [le_div_iff₀ hD]
    nlinarith [mul_nonneg (neg_nonneg.mpr hya.le) (sub_nonneg.mpr hab)]
  · rw [div_le_iff₀ hD]
    nlinarith [mul_nonneg hyb.le (sub_nonneg.mpr hab)]

end ordered

variable {K : Type} [Field K] [LinearOrder K] [IsStrictOrderedRing K] [FloorRing K] [Scalar K] [LawfulScalar K]

/-- the point `xitp` at which one iteration of `solve_itp` evaluates `f` (field operations of `K`) -/
def itpX (k1 : K) (st : ItpSt K) : K :=
  let a := st.a
  let b := st.b
  let x1_2 := 1 / 2 * (a + b)
  let r := st.scaled_epsilon - 1 / 2 * (b - a)
  let xf := (st.yb * a - st.ya * b) / (st.yb - st.ya)
  let sigma := x1_2 - xf
  let delta := k1 * (b - a) ^ 2
  let xt := if delta ≤ |x1_2 - xf| then xf + (if sigma < 0 then -|delta| else |delta|) else x1_2
  if |xt - x1_2| ≤ r then xt else x1_2 - (if sigma < 0 then -|r| else |r|)

theorem itpStep_eq (f : K → K) (ε k1 : K) (st : ItpSt K) :
    itpStep f ε k1 st =
      if 0 < f (itpX k1 st) then
        .inr { st with b := itpX k1 st, yb := f (itpX k1 st), scaled_epsilon := st.scaled_epsilon * (1 / 2) }
      else if f (itpX k1 st) < 0 then
        .inr { st with a := itpX k1 st, ya := f (itpX k1 st), scaled_epsilon := st.scaled_epsilon * (1 / 2) }
      else .inl (itpX k1 st) := by
  unfold itpStep itpX
  simp only [scalar_norm]
  push_cast
  simp only [decide_eq_true_eq]

/-- `xitp` stays in the bracket, and within `r` of the midpoint when `r ≥ 0` -/
theorem itpX_spec (k1 : K) (st : ItpSt K) (hab : st.a ≤ st.b) (hya : st.ya < 0) (hyb : 0 < st.yb)
    (hk : 0 ≤ k1) (hse : 0 ≤ st.scaled_epsilon) :
    (st.a ≤ itpX k1 st ∧ itpX k1 st ≤ st.b) ∧
    (0 ≤ st.scaled_epsilon - 1 / 2 * (st.b - st.a) →
      |itpX k1 st - 1 / 2 * (st.a + st.b)| ≤ st.scaled_epsilon - 1 / 2 * (st.b - st.a)) := by
  obtain ⟨a, b, ya, yb, se⟩ := st
  simp only at hab hya hyb hse ⊢
  unfold itpX
  simp only
  obtain ⟨hf1, hf2⟩ := falsi_mem hab hya hyb
  set xf := (yb * a - ya * b) / (yb - ya) with hxf
  set xh := 1 / 2 * (a + b) with hxh
  set r := se - 1 / 2 * (b - a) with hr
  have hδ : 0 ≤ k1 * (b - a) ^ 2 := mul_nonneg hk (sq_nonneg _)
  set δ := k1 * (b - a) ^ 2 with hδdef
  -- xt is in the bracket
  have hxt : a ≤ (if δ ≤ |xh - xf| then xf + (if xh - xf < 0 then -|δ| else |δ|) else xh) ∧
      (if δ ≤ |xh - xf| then xf + (if xh - xf < 0 then -|δ| else |δ|) else xh) ≤ b := by
    by_cases hc : δ ≤ |xh - xf|
    · rw [if_pos hc, abs_of_nonneg hδ]
      by_cases hs : xh - xf < 0
      · rw [if_pos hs]
        rw [abs_of_neg hs] at hc
        constructor <;> linarith
      · rw [if_neg hs]
        rw [abs_of_nonneg (not_lt.mp hs)] at hc
        constructor <;> linarith
    · rw [if_neg hc]; constructor <;> linarith
  set xt := (if δ ≤ |xh - xf| then xf + (if xh - xf < 0 then -|δ| else |δ|) else xh) with hxtdef
  have hxtm : |xt - xh| ≤ 1 / 2 * (b - a) := abs_sub_mid_le hxt.1 hxt.2
  by_cases hc : |xt - xh| ≤ r
  · rw [if_pos hc]
    exact ⟨hxt, fun _ => hc⟩
  · rw [if_neg hc]
    have hc' : r < |xt - xh| := not_le.mp hc
    have e : |xh - (if xh - xf < 0 then -|r| else |r|) - xh| = |r| := by
      rw [sub_sub_cancel_left, abs_neg, abs_copysign]
    refine ⟨mem_of_abs_sub_mid_le ?_, fun h0 => ?_⟩
    · rw [e]
      rcases le_or_gt 0 r with h0 | h0
      · rw [abs_of_nonneg h0]; linarith
      · rw [abs_of_neg h0]; linarith
    · rw [e, abs_of_nonneg h0]

/-- invariant of the loop state: an ordered bracket with the stored function values, negative left, positive right -/
structure ItpInv (f : K → K) (st : ItpSt K) : Prop where
  hab : st.a ≤ st.b
  hya : st.ya = f st.a
  hyb : st.yb = f st.b
  neg : st.ya < 0
  pos : 0 < st.yb
  hse : 0 ≤ st.scaled_epsilon

/-- what `solve_itp` promises about its result `x` on the start bracket `[a, b]`: `x` lies in a sub-bracket
    `[a', b'] ⊆ [a, b]` with `f a' < 0 < f b'`, and either `f x = 0` or the sub-bracket is no wider than `2ε` and `x`
    is its midpoint -/
def ItpResult (f : K → K) (ε a b x : K) : Prop :=
  ∃ a' b', a ≤ a' ∧ a' ≤ x ∧ x ≤ b' ∧ b' ≤ b ∧ f a' < 0 ∧ 0 < f b' ∧
    (f x = 0 ∨ (b' - a' ≤ 2 * ε ∧ x = 1 / 2 * (a' + b')))

theorem ItpResult.mono {f : K → K} {ε a b a1 b1 x : K} (h : ItpResult f ε a1 b1 x) (ha : a ≤ a1) (hb : b1 ≤ b) :
    ItpResult f ε a b x := by
  obtain ⟨a', b', h1, h2, h3, h4, h5⟩ := h
  exact ⟨a', b', ha.trans h1, h2, h3, h4.trans hb, h5⟩

/-- one step keeps the invariant, shrinks the bracket, and an early return is an exact zero inside the bracket -/
theorem itpStep_spec (f : K → K) (ε k1 : K) (st : ItpSt K) (hk : 0 ≤ k1) (hI : ItpInv f st) :
    match itpStep f ε k1 st with
    | .inl x => st.a ≤ x ∧ x ≤ st.b ∧ f x = 0
    | .inr st' => ItpInv f st' ∧ st.a ≤ st'.a ∧ st'.b ≤ st.b ∧ st'.scaled_epsilon = st.scaled_epsilon * (1 / 2) ∧
        (st.b - st.a ≤ 2 * st.scaled_epsilon → st'.b - st'.a ≤ 2 * st'.scaled_epsilon) := by
  obtain ⟨⟨hx1, hx2⟩, hxr⟩ := itpX_spec k1 st hI.hab hI.neg hI.pos hk hI.hse
  rw [itpStep_eq]
  have hse' : 0 ≤ st.scaled_epsilon * (1 / 2) := mul_nonneg hI.hse (by norm_num)
  by_cases h1 : 0 < f (itpX k1 st)
  · rw [if_pos h1]
    refine ⟨⟨hx1, hI.hya, rfl, hI.neg, h1, hse'⟩, le_refl _, hx2, rfl, fun hw => ?_⟩
    have := (abs_le.mp (hxr (by linarith))).2
    show itpX k1 st - st.a ≤ 2 * (st.scaled_epsilon * (1 / 2))
    linarith
  · rw [if_neg h1]
    by_cases h2 : f (itpX k1 st) < 0
    · rw [if_pos h2]
      refine ⟨⟨hx2, rfl, hI.hyb, h2, hI.pos, hse'⟩, hx1, le_refl _, rfl, fun hw => ?_⟩
      have := (abs_le.mp (hxr (by linarith))).1
      show st.b - itpX k1 st ≤ 2 * (st.scaled_epsilon * (1 / 2))
      linarith
    · rw [if_neg h2]
      exact ⟨hx1, hx2, le_antisymm (not_lt.mp h1) (not_lt.mp h2)⟩

theorem itpLoop_zero (f : K → K) (ε k1 : K) (st : ItpSt K) :
    itpLoop f ε k1 0 st = 1 / 2 * (st.a + st.b) := by
  unfold itpLoop; simp only [scalar_norm]; push_cast; rfl

theorem itpLoop_succ (f : K → K) (ε k1 : K) (fuel : Nat) (st : ItpSt K) :
    itpLoop f ε k1 (fuel + 1) st =
      if 2 * ε < st.b - st.a then
        match itpStep f ε k1 st with
        | .inl x => x
        | .inr st' => itpLoop f ε k1 fuel st'
      else 1 / 2 * (st.a + st.b) := by
  rw [itpLoop]; simp only [scalar_norm]; push_cast; simp only [decide_eq_true_eq]
  split_ifs <;> rfl

/-- the loop stops at once (midpoint) when the bracket is already narrow -/
theorem itpLoop_done' (f : K → K) (ε k1 : K) (fuel : Nat) (st : ItpSt K) (h : st.b - st.a ≤ 2 * ε) :
    itpLoop f ε k1 fuel st = 1 / 2 * (st.a + st.b) := by
  cases fuel with
  | zero => exact itpLoop_zero f ε k1 st
  | succ n => rw [itpLoop_succ, if_neg (not_lt.mpr h)]

/-- whatever the fuel, the result stays in the start bracket -/
theorem itpLoop_mem' (f : K → K) (ε k1 : K) (hk : 0 ≤ k1) :
    ∀ (fuel : Nat) (st : ItpSt K), ItpInv f st →
      st.a ≤ itpLoop f ε k1 fuel st ∧ itpLoop f ε k1 fuel st ≤ st.b := by
  intro fuel
  induction fuel with
  | zero =>
    intro st hI; rw [itpLoop_zero]; have := hI.hab; constructor <;> linarith
  | succ n ih =>
    intro st hI
    rw [itpLoop_succ]
    have hab := hI.hab
    by_cases hc : 2 * ε < st.b - st.a
    · rw [if_pos hc]
      have hs := itpStep_spec f ε k1 st hk hI
      cases hstep : itpStep f ε k1 st with
      | inl x => rw [hstep] at hs; exact ⟨hs.1, hs.2.1⟩
      | inr st' =>
        rw [hstep] at hs
        obtain ⟨hI', h1, h2, -, -⟩ := hs
        obtain ⟨i1, i2⟩ := ih st' hI'
        exact ⟨h1.trans i1, i2.trans h2⟩
    · rw [if_neg hc]; constructor <;> linarith

/-- with `scaled_epsilon = ε·2ⁿ`, a bracket no wider than `2·scaled_epsilon` and more than `n` units of fuel, the loop
    ends by its own condition (or on an exact zero): the result is an `ItpResult` -/
theorem itpLoop_spec' (f : K → K) (ε k1 : K) (hk : 0 ≤ k1) :
    ∀ (fuel n : Nat) (st : ItpSt K), ItpInv f st → st.scaled_epsilon = ε * 2 ^ n →
      st.b - st.a ≤ 2 * st.scaled_epsilon → n < fuel →
      ItpResult f ε st.a st.b (itpLoop f ε k1 fuel st) := by
  intro fuel
  induction fuel with
  | zero => intro n st _ _ _ hn; exact absurd hn (Nat.not_lt_zero _)
  | succ m ih =>
    intro n st hI hse hw hn
    rw [itpLoop_succ]
    have hab := hI.hab
    have hfa : f st.a < 0 := hI.hya ▸ hI.neg
    have hfb : 0 < f st.b := hI.hyb ▸ hI.pos
    by_cases hc : 2 * ε < st.b - st.a
    · rw [if_pos hc]
      have hs := itpStep_spec f ε k1 st hk hI
      cases hstep : itpStep f ε k1 st with
      | inl x =>
        rw [hstep] at hs
        exact ⟨st.a, st.b, le_refl _, hs.1, hs.2.1, le_refl _, hfa, hfb, Or.inl hs.2.2⟩
      | inr st' =>
        rw [hstep] at hs
        obtain ⟨hI', h1, h2, hse', hw'⟩ := hs
        cases n with
        | zero => exfalso; rw [hse] at hw; simp at hw; linarith
        | succ n' =>
          have hse'' : st'.scaled_epsilon = ε * 2 ^ n' := by rw [hse', hse, pow_succ]; ring
          exact (ih n' st' hI' hse'' (hw' hw) (Nat.lt_of_succ_lt_succ hn)).mono h1 h2
    · rw [if_neg hc]
      exact ⟨st.a, st.b, le_refl _, by linarith, by linarith, le_refl _, hfa, hfb, Or.inr ⟨not_lt.mp hc, rfl⟩⟩

/-- fuel beyond `n + 1` is never used: the loop body runs at most `n` times (`n = nmax` in `solve_itp`) before the
    condition `2ε < b − a` fails -/
theorem itpLoop_fuel' (f : K → K) (ε k1 : K) (hk : 0 ≤ k1) :
    ∀ (fuel n : Nat) (st : ItpSt K), ItpInv f st → st.scaled_epsilon = ε * 2 ^ n →
      st.b - st.a ≤ 2 * st.scaled_epsilon → n < fuel →
      itpLoop f ε k1 fuel st = itpLoop f ε k1 (n + 1) st := by
  intro fuel
  induction fuel with
  | zero => intro n st _ _ _ hn; exact absurd hn (Nat.not_lt_zero _)
  | succ m ih =>
    intro n st hI hse hw hn
    rw [itpLoop_succ, itpLoop_succ]
    by_cases hc : 2 * ε < st.b - st.a
    · rw [if_pos hc, if_pos hc]
      have hs := itpStep_spec f ε k1 st hk hI
      cases hstep : itpStep f ε k1 st with
      | inl x => rfl
      | inr st' =>
        rw [hstep] at hs
        obtain ⟨hI', -, -, hse', hw'⟩ := hs
        cases n with
        | zero => exfalso; rw [hse] at hw; simp at hw; linarith
        | succ n' =>
          have hse'' : st'.scaled_epsilon = ε * 2 ^ n' := by rw [hse', hse, pow_succ]; ring
          exact ih n' st' hI' hse'' (hw' hw) (Nat.lt_of_succ_lt_succ hn)
    · rw [if_neg hc, if_neg hc]

/-- for a monotone `f` every zero lies strictly inside the final sub-bracket, hence within `ε` of the result -/
theorem ItpResult.near_zero {f : K → K} {ε a b x z : K} (h : ItpResult f ε a b x)
    (hf : MonotoneOn f (Set.Icc a b)) (hz : z ∈ Set.Icc a b) (hfz : f z = 0) : f x = 0 ∨ |x - z| ≤ ε := by
  obtain ⟨a', b', h1, h2, h3, h4, h5, h6, h7⟩ := h
  rcases h7 with h7 | ⟨hw, hx⟩
  · exact Or.inl h7
  · right
    have ha' : a' ∈ Set.Icc a b := ⟨h1, by linarith⟩
    have hb' : b' ∈ Set.Icc a b := ⟨by linarith, h4⟩
    have hz1 : a' < z := by
      by_contra hcon
      have := hf hz ha' (not_lt.mp hcon)
      linarith
    have hz2 : z < b' := by
      by_contra hcon
      have := hf hb' hz (not_lt.mp hcon)
      linarith
    rw [hx, abs_sub_comm]
    exact (abs_sub_mid_le hz1.le hz2.le).trans (by linarith)

theorem ItpResult.near_zero_strict {f : K → K} {ε a b x z : K} (h : ItpResult f ε a b x) (hε : 0 ≤ ε)
    (hf : StrictMonoOn f (Set.Icc a b)) (hz : z ∈ Set.Icc a b) (hfz : f z = 0) : |x - z| ≤ ε := by
  rcases h.near_zero hf.monotoneOn hz hfz with h0 | h0
  · obtain ⟨a', b', h1, h2, h3, h4, -⟩ := h
    have hx : x ∈ Set.Icc a b := ⟨h1.trans h2, h3.trans h4⟩
    have : x = z := hf.injOn hx hz (h0.trans hfz.symm)
    rw [this, sub_self, abs_zero]; exact hε
  · exact h0

/-- the iteration budget `nmax` that `solve_itp` computes -/
def itpNmax (a b ε : K) (n0 : Nat) : Nat :=
  n0 + Scalar.toUSize (max ((⌈Scalar.log2 ((b - a) / ε)⌉ : K) - 1) 0)

theorem solveItp_eq (f : K → K) (a b ε : K) (n0 : Nat) (k1 ya yb : K) :
    solveItp f a b ε n0 k1 ya yb =
      itpLoop f ε k1 (itpNmax a b ε n0 + 64)
        { a := a, b := b, ya := ya, yb := yb, scaled_epsilon := ε * 2 ^ itpNmax a b ε n0 } := by
  unfold solveItp itpNmax
  simp only [scalar_norm]
  push_cast
  rfl

end Kurbo
