import Proofs.KDefs
import Proofs.C06
import Kurbo.Quads
import Mathlib.Tactic.LinearCombination
/-! Helper lemmas for C17 (cubic → quadratics). -/
set_option linter.unusedSectionVars false

/-- `kring` for goals with arbitrarily nested tuples / lists of structures -/
macro "kring_all" : tactic => `(tactic| (
  simp only [kdefs, scalar_norm, Kurbo.Point.mk.injEq, Kurbo.Vec2.mk.injEq, Kurbo.Line.mk.injEq,
    Kurbo.QuadBez.mk.injEq, Kurbo.CubicBez.mk.injEq, Prod.mk.injEq, List.cons.injEq, and_true, true_and]
  <;> (try push_cast) <;> (repeat' apply And.intro) <;> (first | trivial | ring)))

namespace Kurbo

section structural
variable {K : Type} [Scalar K]

theorem toQuadsN_pos (c : CubicBez K) (a : K) : 1 ≤ toQuadsN c a := by
  unfold toQuadsN
  simp only
  split_ifs with h
  · exact le_refl 1
  · omega

theorem toQuads_getElem? (c : CubicBez K) (a : K) (i : Nat) (hi : i < toQuadsN c a) :
    (c.to_quads a)[i]? = some (toQuadsPiece c (toQuadsN c a) i) := by
  simp [CubicBez.to_quads, hi]

end structural

variable {K : Type} [Field K] [LinearOrder K] [IsStrictOrderedRing K] [FloorRing K] [Scalar K] [LawfulScalar K]

@[scalar_norm] theorem natK_eq (n : Nat) : (natK n : K) = (n : K) := by
  simp [natK, scalar_norm]

theorem toQuadsPiece_t0 (c : CubicBez K) (n i : Nat) : (toQuadsPiece c n i).1 = (i : K) / (n : K) := by
  simp only [toQuadsPiece, scalar_norm]

theorem toQuadsPiece_t1 (c : CubicBez K) (n i : Nat) : (toQuadsPiece c n i).2.1 = ((i : K) + 1) / (n : K) := by
  simp only [toQuadsPiece, scalar_norm]; push_cast; rfl

theorem toQuadsPiece_error (c : CubicBez K) (n i : Nat) (s : K) :
    ((toQuadsPiece c n i).2.2.eval s).x
        - (c.eval ((toQuadsPiece c n i).1 + s * ((toQuadsPiece c n i).2.1 - (toQuadsPiece c n i).1))).x
      = -(c.p3.x - 3 * c.p2.x + 3 * c.p1.x - c.p0.x) * ((toQuadsPiece c n i).2.1 - (toQuadsPiece c n i).1) ^ 3
          * (s * (s - 1 / 2) * (s - 1)) ∧
    ((toQuadsPiece c n i).2.2.eval s).y
        - (c.eval ((toQuadsPiece c n i).1 + s * ((toQuadsPiece c n i).2.1 - (toQuadsPiece c n i).1))).y
      = -(c.p3.y - 3 * c.p2.y + 3 * c.p1.y - c.p0.y) * ((toQuadsPiece c n i).2.1 - (toQuadsPiece c n i).1) ^ 3
          * (s * (s - 1 / 2) * (s - 1)) := by
  simp only [toQuadsPiece]
  constructor <;> kring

/-! ### the error bound of `to_quads` -/

theorem cubic_s_bound (s : K) (h0 : 0 ≤ s) (h1 : s ≤ 1) : (s * (s - 1 / 2) * (s - 1)) ^ 2 ≤ 1 / 432 := by
  have hu : 0 ≤ s * (1 - s) := mul_nonneg h0 (by linarith)
  have key : 1 / 432 - (s * (s - 1 / 2) * (s - 1)) ^ 2
      = (s * (1 - s) - 1 / 6) ^ 2 * (s * (1 - s) + 1 / 12) := by ring
  have : 0 ≤ (s * (1 - s) - 1 / 6) ^ 2 * (s * (1 - s) + 1 / 12) :=
    mul_nonneg (sq_nonneg _) (by linarith)
  linarith

/-- the bound is attained: it is the maximum of `(s(s-½)(s-1))²` -/
theorem cubic_s_bound_tight_sq (s : K) (h : (s * (1 - s)) = 1 / 6) : (s * (s - 1 / 2) * (s - 1)) ^ 2 = 1 / 432 := by
  have key : 1 / 432 - (s * (s - 1 / 2) * (s - 1)) ^ 2
      = (s * (1 - s) - 1 / 6) ^ 2 * (s * (1 - s) + 1 / 12) := by ring
  rw [h] at key
  linarith [key]

/-- pure algebra behind the error bound -/
theorem err_alg (Dx Dy a w : K) (n : Nat) (hn : 1 ≤ n)
    (h : Dx ^ 2 + Dy ^ 2 ≤ (n : K) ^ 6 * (432 * a ^ 2)) (hw : w ^ 2 ≤ 1 / 432) :
    (-Dx * (1 / (n : K)) ^ 3 * w) ^ 2 + (-Dy * (1 / (n : K)) ^ 3 * w) ^ 2 ≤ a ^ 2 := by
  have hnpos : (0 : K) < n := by exact_mod_cast hn
  have hne : (n : K) ≠ 0 := ne_of_gt hnpos
  have e : (-Dx * (1 / (n : K)) ^ 3 * w) ^ 2 + (-Dy * (1 / (n : K)) ^ 3 * w) ^ 2
      = (Dx ^ 2 + Dy ^ 2) * (w ^ 2 / (n : K) ^ 6) := by
    field_simp
  rw [e]
  have h1 : (Dx ^ 2 + Dy ^ 2) * (w ^ 2 / (n : K) ^ 6) ≤ (n : K) ^ 6 * (432 * a ^ 2) * (w ^ 2 / (n : K) ^ 6) :=
    mul_le_mul_of_nonneg_right h (by positivity)
  have h2 : (n : K) ^ 6 * (432 * a ^ 2) * (w ^ 2 / (n : K) ^ 6) = 432 * a ^ 2 * w ^ 2 := by
    field_simp
  have h4 : 432 * a ^ 2 * w ^ 2 ≤ 432 * a ^ 2 * (1 / 432) :=
    mul_le_mul_of_nonneg_left hw (by positivity)
  have h5 : 432 * a ^ 2 * (1 / 432) = a ^ 2 := by ring
  linarith

theorem toQuadsPiece_error_bound (c : CubicBez K) (n i : Nat) (hn : 1 ≤ n) (a : K)
    (h : (c.p3.x - 3 * c.p2.x + 3 * c.p1.x - c.p0.x) ^ 2 + (c.p3.y - 3 * c.p2.y + 3 * c.p1.y - c.p0.y) ^ 2
        ≤ (n : K) ^ 6 * (432 * a ^ 2))
    (s : K) (hs0 : 0 ≤ s) (hs1 : s ≤ 1) :
    (((toQuadsPiece c n i).2.2.eval s).x
        - (c.eval ((toQuadsPiece c n i).1 + s * ((toQuadsPiece c n i).2.1 - (toQuadsPiece c n i).1))).x) ^ 2
    + (((toQuadsPiece c n i).2.2.eval s).y
        - (c.eval ((toQuadsPiece c n i).1 + s * ((toQuadsPiece c n i).2.1 - (toQuadsPiece c n i).1))).y) ^ 2
      ≤ a ^ 2 := by
  obtain ⟨hx, hy⟩ := toQuadsPiece_error c n i s
  rw [hx, hy, toQuadsPiece_t0, toQuadsPiece_t1]
  have hnpos : (0 : K) < n := by exact_mod_cast hn
  have hne : (n : K) ≠ 0 := ne_of_gt hnpos
  have hΔ : ((i : K) + 1) / n - (i : K) / n = 1 / n := by field_simp; ring
  rw [hΔ]
  exact err_alg _ _ a _ n hn h (cubic_s_bound s hs0 hs1)

end Kurbo
