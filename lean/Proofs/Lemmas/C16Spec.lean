import Proofs.Lemmas.C16Loop
/-! Helper lemmas for C16 `getNumber_spec`: the lexer functions seen as functions of the remaining bytes (`Lx.rem`), the number
    grammar (`NumParts`), and `getNumber_spec_rem`. -/
namespace Kurbo

theorem ByteArray_toList_loop (bs : ByteArray) (i : Nat) (r : List UInt8) :
    ByteArray.toList.loop bs i r = r.reverse ++ bs.data.toList.drop i := by
  fun_induction ByteArray.toList.loop bs i r with
  | case1 i r h ih =>
    rw [ih]
    have h' : i < bs.data.toList.length := by simpa using h
    rw [List.drop_eq_getElem_cons h']
    simp [ByteArray.get!, getElem!_pos, h]
  | case2 i r h =>
    have : bs.data.toList.length ≤ i := by simpa using Nat.le_of_not_lt h
    rw [List.drop_eq_nil_of_le this]; simp

theorem ByteArray_toList (bs : ByteArray) : bs.toList = bs.data.toList := by
  simp [ByteArray.toList, ByteArray_toList_loop]

/-- the bytes still to be read -/
def Lx.rem (l : Lx) : List UInt8 := l.data.data.toList.drop l.ix

theorem Lx.rem_nil {l : Lx} (h : l.rem = []) : getByte l = none := by
  rw [getByte_eq_none_iff]
  unfold Lx.rem at h
  have := List.drop_eq_nil_iff.mp h
  simpa using this

theorem Lx.rem_cons {l : Lx} {c : UInt8} {r : List UInt8} (h : l.rem = c :: r) :
    getByte l = some (c, ⟨l.data, l.ix + 1⟩) ∧ Lx.rem ⟨l.data, l.ix + 1⟩ = r := by
  unfold Lx.rem at h ⊢
  have hlt : l.ix < l.data.data.toList.length := by
    apply Nat.lt_of_not_le
    intro hle
    rw [List.drop_eq_nil_of_le hle] at h; simp at h
  rw [List.drop_eq_getElem_cons hlt] at h
  simp only [List.cons.injEq] at h
  have hlt' : l.ix < l.data.size := by simpa using hlt
  constructor
  · rw [getByte_eq_some hlt']
    simp only [Option.some.injEq, Prod.mk.injEq, and_true]
    rw [← h.1]; simp [ByteArray.getElem_eq_getElem_data]
  · exact h.2

/-- the lexer moved forward by `n` bytes -/
def Lx.adv (l : Lx) (n : Nat) : Lx := ⟨l.data, l.ix + n⟩

@[simp] theorem Lx.adv_zero (l : Lx) : l.adv 0 = l := rfl
theorem Lx.adv_adv (l : Lx) (a b : Nat) : (l.adv a).adv b = l.adv (a + b) := by
  simp [Lx.adv, Nat.add_assoc]
@[simp] theorem Lx.adv_data (l : Lx) (n : Nat) : (l.adv n).data = l.data := rfl
@[simp] theorem Lx.adv_ix (l : Lx) (n : Nat) : (l.adv n).ix = l.ix + n := rfl

theorem Lx.rem_adv {l : Lx} {xs r : List UInt8} (h : l.rem = xs ++ r) : (l.adv xs.length).rem = r := by
  unfold Lx.rem Lx.adv at *
  simp only
  rw [← List.drop_drop, h]; simp

theorem Lx.getByte_cons {l : Lx} {c : UInt8} {r : List UInt8} (h : l.rem = c :: r) :
    getByte l = some (c, l.adv 1) := (Lx.rem_cons h).1

theorem Lx.rem_adv_one {l : Lx} {c : UInt8} {r : List UInt8} (h : l.rem = c :: r) : (l.adv 1).rem = r :=
  (Lx.rem_cons h).2

theorem skipWs_eq (l : Lx) : skipWs l =
    match getByte l with
    | none => l
    | some (c, l') => if isWs c then skipWs l' else l := by
  rw [skipWs]
  unfold getByte
  split <;> rfl

/-- a list that is empty or starts with a byte satisfying `¬ p` -/
def StopsAt (p : UInt8 → Bool) (r : List UInt8) : Prop := ∀ c r', r = c :: r' → p c = false

theorem skipWs_rem {l : Lx} {ws r : List UInt8} (h : l.rem = ws ++ r) (hws : ∀ c ∈ ws, isWs c = true)
    (hr : StopsAt isWs r) : skipWs l = l.adv ws.length := by
  induction ws generalizing l with
  | nil =>
    rw [skipWs_eq]
    cases r with
    | nil => rw [Lx.rem_nil h]; rfl
    | cons c r' => rw [Lx.getByte_cons h]; simp [hr c r' rfl]
  | cons w ws ih =>
    rw [skipWs_eq, Lx.getByte_cons h]
    simp only [hws w (List.mem_cons_self), if_true]
    rw [ih (Lx.rem_adv_one h) (fun c hc => hws c (List.mem_cons_of_mem _ hc)), Lx.adv_adv]
    simp [Nat.add_comm]

theorem digitsLoop_eq (l : Lx) (cnt : Nat) (seen : Bool) : digitsLoop l cnt seen =
    match getByte l with
    | none => .ok cnt l
    | some (c, l') =>
      if isDigit c then digitsLoop l' (cnt + 1) seen
      else if c == 46 && !seen then digitsLoop l' cnt true
      else .ok cnt l := by
  rw [digitsLoop]
  split
  · rename_i h; rw [h]
  · rename_i c l' h
    rw [h]; simp only [unget_after_getByte h]

theorem expDigits_eq (l : Lx) : expDigits l =
    match getByte l with
    | none => .ok () l
    | some (c, l') => if !isDigit c then .ok () l else expDigits l' := by
  rw [expDigits]
  split
  · rename_i h; rw [h]
  · rename_i c l' h
    rw [h]; simp only [unget_after_getByte h]

theorem digitsLoop_digits {l : Lx} {ds r : List UInt8} (cnt : Nat) (seen : Bool) (h : l.rem = ds ++ r)
    (hds : ∀ c ∈ ds, isDigit c = true) :
    digitsLoop l cnt seen = digitsLoop (l.adv ds.length) (cnt + ds.length) seen := by
  induction ds generalizing l cnt with
  | nil => rfl
  | cons d ds ih =>
    rw [digitsLoop_eq, Lx.getByte_cons h]
    simp only [hds d (List.mem_cons_self), if_true]
    rw [ih (cnt + 1) (Lx.rem_adv_one h) (fun c hc => hds c (List.mem_cons_of_mem _ hc)), Lx.adv_adv]
    simp [Nat.add_comm, Nat.add_left_comm]

theorem digitsLoop_stop_rem {l : Lx} {r : List UInt8} (cnt : Nat) (seen : Bool) (h : l.rem = r)
    (hr : StopsAt (fun c => isDigit c || (c == 46 && !seen)) r) : digitsLoop l cnt seen = .ok cnt l := by
  rw [digitsLoop_eq]
  cases r with
  | nil => rw [Lx.rem_nil h]
  | cons c r' =>
    rw [Lx.getByte_cons h]
    have := hr c r' rfl
    simp only [Bool.or_eq_false_iff] at this
    simp [this.1, this.2]

theorem expDigits_rem {l : Lx} {ds r : List UInt8} (h : l.rem = ds ++ r) (hds : ∀ c ∈ ds, isDigit c = true)
    (hr : StopsAt isDigit r) : expDigits l = .ok () (l.adv ds.length) := by
  induction ds generalizing l with
  | nil =>
    rw [expDigits_eq]
    cases r with
    | nil => rw [Lx.rem_nil h]; rfl
    | cons c r' => rw [Lx.getByte_cons h]; simp [hr c r' rfl]
  | cons d ds ih =>
    rw [expDigits_eq, Lx.getByte_cons h]
    simp only [hds d (List.mem_cons_self), Bool.not_true, Bool.false_eq_true, if_false]
    rw [ih (Lx.rem_adv_one h) (fun c hc => hds c (List.mem_cons_of_mem _ hc)), Lx.adv_adv]
    simp [Nat.add_comm]

/-! ### the number grammar `[+-]? (d+ ('.' d*)? | '.' d+) ([eE] [+-]? d+)?` -/

/-- an optional sign -/
abbrev IsSign (s : List UInt8) : Prop := s = [] ∨ s = [43] ∨ s = [45]
abbrev AllDigits (ds : List UInt8) : Prop := ∀ c ∈ ds, isDigit c = true

theorem isDigit_ne {d : UInt8} (h : isDigit d = true) :
    d ≠ 43 ∧ d ≠ 45 ∧ d ≠ 46 ∧ d ≠ 101 ∧ d ≠ 69 ∧ isWs d = false := by
  refine ⟨?_, ?_, ?_, ?_, ?_, ?_⟩
  any_goals (rintro rfl; revert h; decide)
  unfold isDigit at h
  unfold isWs
  simp only [Bool.and_eq_true, decide_eq_true_eq] at h
  simp only [Bool.or_eq_false_iff, beq_eq_false_iff_ne, ne_eq]
  refine ⟨⟨⟨⟨?_, ?_⟩, ?_⟩, ?_⟩, ?_⟩ <;> (rintro rfl; revert h; decide)

/-- the parts of a number token -/
structure NumParts where
  sign : List UInt8 := []
  ip : List UInt8          -- digits before the period
  dot : Bool := false
  fd : List UInt8 := []    -- digits after the period
  hasExp : Bool := false
  e : UInt8 := 101
  esign : List UInt8 := []
  ed : List UInt8 := []

def NumParts.mantBytes (p : NumParts) : List UInt8 := p.ip ++ (if p.dot then 46 :: p.fd else [])
def NumParts.expBytes (p : NumParts) : List UInt8 := if p.hasExp then p.e :: p.esign ++ p.ed else []
/-- the bytes of the token -/
def NumParts.bytes (p : NumParts) : List UInt8 := p.sign ++ p.mantBytes ++ p.expBytes

/-- the token is in the language `[+-]? (d+ ('.' d*)? | '.' d+) ([eE] [+-]? d+)?` -/
structure NumParts.Valid (p : NumParts) : Prop where
  sign : IsSign p.sign
  ip : AllDigits p.ip
  fd : AllDigits p.fd
  fd_nil : p.dot = false → p.fd = []
  digits : 0 < p.ip.length + p.fd.length
  exp : p.hasExp = true → (p.e = 101 ∨ p.e = 69) ∧ IsSign p.esign ∧ AllDigits p.ed ∧ p.ed ≠ []

/-- `rest` is empty or starts with a byte that cannot continue the token: not a digit; after a mantissa without exponent
    also not `e`/`E` (would start an exponent) and, if no period was read yet, not a period -/
def NumParts.Stops (p : NumParts) (rest : List UInt8) : Prop :=
  ∀ c r, rest = c :: r → isDigit c = false ∧ (p.hasExp = false → c ≠ 101 ∧ c ≠ 69 ∧ (p.dot = false → c ≠ 46))

theorem digitsLoop_mantissa {l : Lx} {ip fd r : List UInt8} (dot : Bool)
    (h : l.rem = (ip ++ (if dot then 46 :: fd else [])) ++ r) (hip : AllDigits ip) (hfd : AllDigits fd)
    (hfdnil : dot = false → fd = []) (hr : StopsAt (fun c => isDigit c || (c == 46 && !dot)) r) :
    digitsLoop l 0 false = .ok (ip.length + fd.length) (l.adv (ip ++ (if dot then 46 :: fd else [])).length) := by
  rw [List.append_assoc] at h
  rw [digitsLoop_digits 0 false h hip]
  have h1 := Lx.rem_adv h
  cases dot with
  | false =>
    simp only [Bool.false_eq_true, if_false, List.nil_append, List.append_nil] at h1 ⊢
    rw [hfdnil rfl]
    simp only [List.length_nil, Nat.add_zero, Nat.zero_add]
    exact digitsLoop_stop_rem _ _ h1 hr
  | true =>
    simp only [if_true, List.cons_append] at h1 ⊢
    rw [digitsLoop_eq, Lx.getByte_cons h1]
    have h2 := Lx.rem_adv_one h1
    have : isDigit 46 = false := by decide
    simp only [this, Bool.false_eq_true, if_false, beq_self_eq_true, Bool.not_false, Bool.and_self, if_true]
    rw [digitsLoop_digits _ true h2 hfd]
    have h3 := Lx.rem_adv h2
    rw [digitsLoop_stop_rem _ _ h3 (by simpa [StopsAt] using hr)]
    simp only [Lx.adv_adv, List.length_append, List.length_cons]
    rw [show 0 + ip.length + fd.length = ip.length + fd.length by omega,
      show ip.length + 1 + fd.length = ip.length + (fd.length + 1) by omega]

theorem expPart_rem_none {l : Lx} {r : List UInt8} (h : l.rem = r) (hr : StopsAt (fun c => c == 101 || c == 69) r) :
    expPart l = .ok () l := by
  unfold expPart
  cases r with
  | nil => rw [Lx.rem_nil h]
  | cons c r' =>
    have hg := Lx.getByte_cons h
    rw [hg]
    have := hr c r' rfl
    simp only at this
    simp only [this, Bool.false_eq_true, if_false, unget_after_getByte hg]

theorem expPart_rem_some {l : Lx} {e : UInt8} {esign ed r : List UInt8} (h : l.rem = (e :: esign ++ ed) ++ r)
    (he : e = 101 ∨ e = 69) (hsign : IsSign esign) (hed : AllDigits ed) (hne : ed ≠ []) (hr : StopsAt isDigit r) :
    expPart l = .ok () (l.adv (e :: esign ++ ed).length) := by
  unfold expPart
  cases ed with
  | nil => exact absurd rfl hne
  | cons d ds =>
  have hd : isDigit d = true := hed d List.mem_cons_self
  have hds : AllDigits ds := fun c hc => hed c (List.mem_cons_of_mem _ hc)
  obtain ⟨hd43, hd45, -⟩ := isDigit_ne hd
  have hee : (e == 101 || e == 69) = true := by rcases he with rfl | rfl <;> decide
  rw [Lx.getByte_cons h]
  simp only [hee, if_true]
  rcases hsign with rfl | rfl | rfl
  · have h1 : (l.adv 1).rem = d :: (ds ++ r) := Lx.rem_adv_one h
    rw [Lx.getByte_cons h1]
    have h2 := Lx.rem_adv_one h1
    have : (d == 45 || d == 43) = false := by simp [hd43, hd45]
    simp only [this, Bool.false_eq_true, if_false, hd, Bool.not_true]
    rw [expDigits_rem h2 hds hr]
    simp only [Lx.adv_adv, List.length_cons, List.length_append, List.length_nil]
    congr 2; omega
  · have h1 : (l.adv 1).rem = 43 :: d :: (ds ++ r) := Lx.rem_adv_one h
    rw [Lx.getByte_cons h1]
    have h2 := Lx.rem_adv_one h1
    have h3 := Lx.rem_adv_one h2
    have : ((43 : UInt8) == 45 || (43 : UInt8) == 43) = true := by decide
    simp only [this, if_true]
    rw [Lx.getByte_cons h2]
    simp only [hd, Bool.not_true, Bool.false_eq_true, if_false]
    rw [expDigits_rem h3 hds hr]
    simp only [Lx.adv_adv, List.length_cons, List.length_append, List.length_nil]
    congr 2; omega
  · have h1 : (l.adv 1).rem = 45 :: d :: (ds ++ r) := Lx.rem_adv_one h
    rw [Lx.getByte_cons h1]
    have h2 := Lx.rem_adv_one h1
    have h3 := Lx.rem_adv_one h2
    have : ((45 : UInt8) == 45 || (45 : UInt8) == 43) = true := by decide
    simp only [this, if_true]
    rw [Lx.getByte_cons h2]
    simp only [hd, Bool.not_true, Bool.false_eq_true, if_false]
    rw [expDigits_rem h3 hds hr]
    simp only [Lx.adv_adv, List.length_cons, List.length_append, List.length_nil]
    congr 2; omega

theorem extract_toList_rem {l : Lx} {tok rest : List UInt8} (h : l.rem = tok ++ rest) :
    (l.data.extract l.ix (l.ix + tok.length)).toList = tok := by
  rw [ByteArray_toList, ByteArray.data_extract, Array.toList_extract, List.extract_eq_take_drop]
  unfold Lx.rem at h
  rw [h]; simp

/-- first byte of a valid mantissa: a digit or the period -/
theorem NumParts.Valid.mant_head {p : NumParts} (hv : p.Valid) :
    ∃ c r, p.mantBytes = c :: r ∧ (isDigit c = true ∨ c = 46) := by
  unfold NumParts.mantBytes
  cases hip : p.ip with
  | cons d ds => exact ⟨d, _, rfl, .inl (hv.ip d (by rw [hip]; exact List.mem_cons_self))⟩
  | nil =>
    cases hdot : p.dot with
    | false =>
      have := hv.digits
      rw [hv.fd_nil hdot, hip] at this; simp at this
    | true => exact ⟨46, p.fd, by simp, .inr rfl⟩

section
variable {K : Type} [Scalar K]

/-- **`getNumber` on a well-formed token**: after white space, a token of the grammar, and a byte (or the end) that cannot
    continue it, `getNumber` returns the token's value and stops right after the token -/
theorem getNumber_spec_rem (l : Lx) (ws rest : List UInt8) (p : NumParts) (hv : p.Valid) (hs : p.Stops rest)
    (hws : ∀ c ∈ ws, isWs c = true) (hrem : l.rem = ws ++ p.bytes ++ rest) :
    getNumber (K := K) l = .ok (tokValue (parseTok p.bytes)) (l.adv (ws.length + p.bytes.length)) := by
  obtain ⟨m0, mr, hm, hm0⟩ := hv.mant_head
  have hm0' : m0 ≠ 43 ∧ m0 ≠ 45 ∧ isWs m0 = false := by
    rcases hm0 with h | rfl
    · have := isDigit_ne h; exact ⟨this.1, this.2.1, this.2.2.2.2.2⟩
    · decide
  -- white space
  have hrem1 : l.rem = ws ++ (p.bytes ++ rest) := by rw [hrem, List.append_assoc]
  have hskip : skipWs l = l.adv ws.length := by
    apply skipWs_rem hrem1 hws
    intro c r' hc
    unfold NumParts.bytes at hc
    rw [hm] at hc
    rcases hv.sign with hsg | hsg | hsg <;> rw [hsg] at hc <;> simp at hc
    · rw [← hc.1]; exact hm0'.2.2
    · rw [← hc.1]; decide
    · rw [← hc.1]; decide
  have h0 : (l.adv ws.length).rem = p.sign ++ (p.mantBytes ++ (p.expBytes ++ rest)) := by
    rw [Lx.rem_adv hrem1]; simp [NumParts.bytes]
  rw [getNumber_eq, hskip]
  -- sign
  have hsign : ∃ c l1, getByte (l.adv ws.length) = some (c, l1) ∧
      (if (c == 45 || c == 43) = true then l1 else l.adv ws.length) = (l.adv ws.length).adv p.sign.length := by
    rcases hv.sign with hsg | hsg | hsg <;> rw [hsg] at h0 ⊢
    · rw [hm] at h0
      refine ⟨m0, _, Lx.getByte_cons h0, ?_⟩
      simp [hm0'.1, hm0'.2.1]
    · exact ⟨43, _, Lx.getByte_cons h0, by simp⟩
    · exact ⟨45, _, Lx.getByte_cons h0, by simp⟩
  obtain ⟨c, l1, hg, hl2⟩ := hsign
  rw [hg]; simp only [hl2]
  -- mantissa
  have h1 : ((l.adv ws.length).adv p.sign.length).rem = p.mantBytes ++ (p.expBytes ++ rest) := Lx.rem_adv h0
  have hstop1 : StopsAt (fun c => isDigit c || (c == 46 && !p.dot)) (p.expBytes ++ rest) := by
    intro c r' hc
    unfold NumParts.expBytes at hc
    cases hexp : p.hasExp with
    | true =>
      rw [hexp] at hc
      simp only [if_true, List.cons_append, List.cons.injEq] at hc
      obtain ⟨he, -⟩ := hv.exp hexp
      rw [← hc.1]
      rcases he with he | he <;> rw [he] <;> simp <;> decide
    | false =>
      rw [hexp] at hc
      simp only [Bool.false_eq_true, if_false, List.nil_append] at hc
      obtain ⟨hd, hne⟩ := hs c r' hc
      obtain ⟨-, -, h46⟩ := hne hexp
      simp only [hd, Bool.false_or, Bool.and_eq_false_imp, beq_iff_eq, Bool.not_eq_eq_eq_not, Bool.not_false]
      intro hc46
      cases hdot : p.dot with
      | true => rfl
      | false => exact absurd hc46 (h46 hdot)
  have hmant := digitsLoop_mantissa p.dot (by rw [h1]; rfl) hv.ip hv.fd hv.fd_nil hstop1
  rw [hmant]; simp only
  have h2 : (((l.adv ws.length).adv p.sign.length).adv p.mantBytes.length).rem = p.expBytes ++ rest := Lx.rem_adv h1
  -- exponent
  have hexpP : expPart (((l.adv ws.length).adv p.sign.length).adv p.mantBytes.length) =
      .ok () ((((l.adv ws.length).adv p.sign.length).adv p.mantBytes.length).adv p.expBytes.length) := by
    unfold NumParts.expBytes at h2 ⊢
    cases hexp : p.hasExp with
    | true =>
      rw [hexp] at h2
      simp only [if_true] at h2 ⊢
      obtain ⟨he, hes, hed, hne⟩ := hv.exp hexp
      apply expPart_rem_some h2 he hes hed hne
      intro c r' hc
      exact (hs c r' hc).1
    | false =>
      rw [hexp] at h2
      simp only [Bool.false_eq_true, if_false, List.nil_append, List.length_nil, Lx.adv_zero] at h2 ⊢
      apply expPart_rem_none h2
      intro c r' hc
      obtain ⟨-, hne⟩ := hs c r' hc
      obtain ⟨h101, h69, -⟩ := hne hexp
      simp [h101, h69]
  unfold NumParts.mantBytes at hexpP
  rw [hexpP]; simp only
  rw [if_pos hv.digits]
  have hlen : ws.length + p.bytes.length = ws.length + p.sign.length + p.mantBytes.length + p.expBytes.length := by
    simp [NumParts.bytes]; omega
  have hfin : ((((l.adv ws.length).adv p.sign.length).adv p.mantBytes.length).adv p.expBytes.length) =
      l.adv (ws.length + p.bytes.length) := by
    rw [Lx.adv_adv, Lx.adv_adv, Lx.adv_adv, hlen]
    congr 1; omega
  unfold NumParts.mantBytes at hfin
  rw [hfin]
  have hext : ((l.adv (ws.length + p.bytes.length)).data.extract (l.adv ws.length).ix (l.adv (ws.length + p.bytes.length)).ix).toList
      = p.bytes := by
    have h00 : (l.adv ws.length).rem = p.bytes ++ rest := Lx.rem_adv hrem1
    have := extract_toList_rem h00
    simp only [Lx.adv_data, Lx.adv_ix] at this ⊢
    rw [← Nat.add_assoc]; exact this
  rw [hext]

end

end Kurbo
