import Proofs.Lemmas.C04Rev
/-! Helper definitions and lemmas for C04, part 3 (structure; any `[Scalar K]`, core Lean only): `finish`, `finish_closed`,
    one step of the element loop, an invariant rule for `strokeLoop`. -/
set_option linter.unusedSectionVars false
set_option linter.unusedVariables false
namespace Kurbo
variable {K : Type} [Scalar K]

/-! ### `finish` / `finish_closed` written out -/

/-- the end cap emitted by `finish` -/
def c04_endCap (tol : K) (style : StrokeStyle K) (last_pt return_p : Point K) : List (PathEl K) :=
  match style.end_cap with
  | 0 => [.LineTo return_p]
  | 2 => roundCap tol last_pt (last_pt - return_p)
  | _ => squareCap false last_pt (last_pt - return_p)

/-- the start cap emitted by `finish` -/
def c04_startCap (tol : K) (style : StrokeStyle K) (start_pt : Point K) (start_norm : Vec2 K) : List (PathEl K) :=
  match style.start_cap with
  | 0 => [.ClosePath]
  | 2 => roundCap tol start_pt start_norm
  | _ => squareCap true start_pt start_norm

theorem c04_isEmpty_false {α : Type} {l : List α} (h : l ≠ []) : l.isEmpty = false := by
  cases l with
  | nil => exact absurd rfl h
  | cons a l => rfl

theorem c04_finish_empty (c : StrokeCtx K) (style : StrokeStyle K) (he : c.forward_path = []) : c.finish style = some c := by
  unfold StrokeCtx.finish
  simp only [he, List.isEmpty_nil, if_true]

theorem c04_finish_eq (c : StrokeCtx K) (style : StrokeStyle K) (hne : c.forward_path ≠ []) {rp : Point K}
    {rev : List (PathEl K)} (h1 : lastEndPoint c.backward_path = some rp) (h2 : extendReversed c.backward_path = some rev) :
    c.finish style = some { c with
      output := c.output ++ c.forward_path ++ c04_endCap c.join_thresh style c.last_pt rp ++ rev ++ c04_startCap c.join_thresh style c.start_pt c.start_norm,
      forward_path := [], backward_path := [] } := by
  unfold StrokeCtx.finish
  simp only [c04_isEmpty_false hne, Bool.false_eq_true, if_false, h1, h2]
  rfl

theorem c04_finish_closed_empty (c : StrokeCtx K) (style : StrokeStyle K) (he : c.forward_path = []) :
    c.finish_closed style = some c := by
  unfold StrokeCtx.finish_closed
  simp only [he, List.isEmpty_nil, if_true]

theorem c04_finish_closed_eq (c : StrokeCtx K) (style : StrokeStyle K) (hne : c.forward_path ≠ []) {rp : Point K}
    {rev : List (PathEl K)} (h1 : lastEndPoint (c.do_join style c.start_tan).backward_path = some rp)
    (h2 : extendReversed (c.do_join style c.start_tan).backward_path = some rev) :
    c.finish_closed style = some { c.do_join style c.start_tan with
      output := (c.do_join style c.start_tan).output ++ (c.do_join style c.start_tan).forward_path ++ [.ClosePath] ++ [.MoveTo rp]
        ++ rev ++ [.ClosePath],
      forward_path := [], backward_path := [] } := by
  unfold StrokeCtx.finish_closed
  simp only [c04_isEmpty_false hne, Bool.false_eq_true, if_false, h1, h2]

/-! ### one element of the loop -/

/-- one non-degenerate line segment: join, then line -/
def c04_stepLine (style : StrokeStyle K) (c : StrokeCtx K) (p1 : Point K) : StrokeCtx K :=
  let tangent := p1 - c.last_pt
  ({ c.do_join style tangent with last_tan := tangent }).do_line style tangent p1

/-- the `ClosePath` branch before `finish_closed` (verbatim) -/
def c04_closePrep (style : StrokeStyle K) (c : StrokeCtx K) : StrokeCtx K :=
  let p0 := c.last_pt
  if !(p0.peq c.start_pt) then
    let tangent := c.start_pt - p0
    let c := c.do_join style tangent
    let c := { c with last_tan := tangent }
    c.do_line style tangent c.start_pt
  else c

/-- the body of the element loop of `stroke_undashed` on a polyline element -/
def c04_step (style : StrokeStyle K) (c : StrokeCtx K) : PathEl K → Option (StrokeCtx K)
  | .MoveTo p =>
    match c.finish style with
    | some c' => some { c' with start_pt := p, last_pt := p }
    | none => none
  | .LineTo p1 => some (if !(p1.peq c.last_pt) then c04_stepLine style c p1 else c)
  | .ClosePath => (c04_closePrep style c).finish_closed style
  | _ => none

theorem c04_strokeLoop_nil (style : StrokeStyle K) (c : StrokeCtx K) :
    strokeLoop style [] c = (match c.finish style with | some c => .ok c.output | none => .panic) := by
  rw [strokeLoop]
  cases c.finish style <;> rfl

theorem c04_strokeLoop_cons (style : StrokeStyle K) (el : PathEl K) (rest : List (PathEl K)) (c : StrokeCtx K)
    (h : c04_isPoly el = true) :
    strokeLoop style (el :: rest) c =
      (match c04_step style c el with | some c' => strokeLoop style rest c' | none => .panic) := by
  cases el with
  | MoveTo p =>
    rw [strokeLoop]
    simp only [c04_step]
    cases c.finish style <;> rfl
  | LineTo p1 =>
    rw [strokeLoop]
    simp only [c04_step]
    split <;> rfl
  | ClosePath =>
    rw [strokeLoop]
    simp only [c04_step]
    rfl
  | QuadTo _ _ => cases h
  | CurveTo _ _ _ => cases h

/-- invariant rule for the element loop: an invariant `I prefix ctx` that holds initially and is kept by every step (steps
    never panic under it, `finish` neither) holds for the context the final `finish` is applied to -/
theorem c04_strokeLoop_rule (style : StrokeStyle K) (I : List (PathEl K) → StrokeCtx K → Prop)
    (hstep : ∀ pre c el, c04_isPoly el = true → I pre c → ∃ c', c04_step style c el = some c' ∧ I (pre ++ [el]) c')
    (hfin : ∀ pre c, I pre c → ∃ c', c.finish style = some c') :
    ∀ (els pre : List (PathEl K)) (c : StrokeCtx K), (∀ e ∈ els, c04_isPoly e = true) → I pre c →
      ∃ cf c', I (pre ++ els) cf ∧ cf.finish style = some c' ∧ strokeLoop style els c = .ok c'.output := by
  intro els
  induction els with
  | nil =>
    intro pre c _ hI
    obtain ⟨c', hc'⟩ := hfin pre c hI
    refine ⟨c, c', by rwa [List.append_nil], hc', ?_⟩
    rw [c04_strokeLoop_nil, hc']
  | cons el rest ih =>
    intro pre c hp hI
    obtain ⟨c1, hc1, hI1⟩ := hstep pre c el (hp el List.mem_cons_self) hI
    obtain ⟨cf, c', hIf, hf, hl⟩ := ih (pre ++ [el]) c1 (fun e he => hp e (List.mem_cons_of_mem _ he)) hI1
    refine ⟨cf, c', ?_, hf, ?_⟩
    · rwa [List.append_assoc, List.singleton_append] at hIf
    · rw [c04_strokeLoop_cons style el rest c (hp el List.mem_cons_self), hc1]
      exact hl

end Kurbo
