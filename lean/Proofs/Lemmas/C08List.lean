import Kurbo.Curve
import Proofs.Lemmas.C20
import Mathlib.Data.List.Pairwise
import Mathlib.Data.List.Chain
/-! C08 helpers, list level: `insertSorted` / `sortList` (membership for every `Scalar`, sortedness for lawful ones),
    the structure of `extremaRangesFrom`, and folds of `Rect.union_pt` / `Rect.union`. -/
set_option linter.unusedSectionVars false
namespace Kurbo

/-! ### `insertSorted`, `sortList`: structural facts (any `Scalar`, also `Float`) -/
section anyScalar
variable {K : Type} [Scalar K]

theorem mem_insertSorted (x y : K) (l : List K) : y ∈ insertSorted x l ↔ y = x ∨ y ∈ l := by
  induction l with
  | nil => simp [insertSorted]
  | cons z zs ih =>
    unfold insertSorted
    split
    · simp
    · simp only [List.mem_cons, ih]; tauto

theorem length_insertSorted (x : K) (l : List K) : (insertSorted x l).length = l.length + 1 := by
  induction l with
  | nil => simp [insertSorted]
  | cons z zs ih =>
    unfold insertSorted
    split
    · simp
    · simp [ih]

theorem insertSorted_perm (x : K) (l : List K) : (insertSorted x l).Perm (x :: l) := by
  induction l with
  | nil => simp [insertSorted]
  | cons z zs ih =>
    unfold insertSorted
    split
    · exact List.Perm.refl _
    · exact (List.Perm.cons z ih).trans (List.Perm.swap x z zs)

theorem foldl_insertSorted_perm (l acc : List K) :
    (l.foldl (fun acc x => insertSorted x acc) acc).Perm (l ++ acc) := by
  induction l generalizing acc with
  | nil => simp
  | cons x xs ih =>
    simp only [List.foldl_cons]
    refine (ih _).trans ?_
    refine (List.Perm.append_left xs (insertSorted_perm x acc)).trans ?_
    simp only [List.cons_append]
    exact List.perm_middle

/-- `sortList` only rearranges -/
theorem sortList_perm (l : List K) : (sortList l).Perm l := by
  have h := foldl_insertSorted_perm l []
  simpa [sortList] using h

theorem mem_sortList (l : List K) (y : K) : y ∈ sortList l ↔ y ∈ l := (sortList_perm l).mem_iff

theorem length_sortList (l : List K) : (sortList l).length = l.length := (sortList_perm l).length_eq

/-! ### `extremaRangesFrom`: the ranges tile `[t0, 1]` -/

/-- closed form: the ranges are the consecutive pairs of `t0 :: ts ++ [1]` -/
theorem extremaRangesFrom_eq_zipWith (t0 : K) (ts : List K) :
    extremaRangesFrom t0 ts = List.zipWith Range.mk (t0 :: ts) (ts ++ [(@OfNat.ofNat K 1 Ops.instOfNat)]) := by
  induction ts generalizing t0 with
  | nil => simp [extremaRangesFrom]
  | cons t ts ih =>
    simp only [extremaRangesFrom, List.cons_append, List.zipWith_cons_cons]
    rw [ih]

theorem length_extremaRangesFrom (t0 : K) (ts : List K) : (extremaRangesFrom t0 ts).length = ts.length + 1 := by
  induction ts generalizing t0 with
  | nil => simp [extremaRangesFrom]
  | cons t ts ih => simp [extremaRangesFrom, ih]

theorem extremaRangesFrom_ne_nil (t0 : K) (ts : List K) : extremaRangesFrom t0 ts ≠ [] := by
  cases ts <;> simp [extremaRangesFrom]

theorem head_extremaRangesFrom (t0 : K) (ts : List K) :
    ((extremaRangesFrom t0 ts).head (extremaRangesFrom_ne_nil t0 ts)).start = t0 := by
  cases ts <;> simp [extremaRangesFrom]

theorem getLast_extremaRangesFrom (t0 : K) (ts : List K) :
    ((extremaRangesFrom t0 ts).getLast (extremaRangesFrom_ne_nil t0 ts)).«end» = (@OfNat.ofNat K 1 Ops.instOfNat) := by
  induction ts generalizing t0 with
  | nil => simp [extremaRangesFrom]
  | cons t ts ih =>
    simp only [extremaRangesFrom]
    rw [List.getLast_cons (extremaRangesFrom_ne_nil t ts)]
    exact ih t

/-- consecutive ranges share their end point -/
theorem chain_extremaRangesFrom (t0 : K) (ts : List K) :
    (extremaRangesFrom t0 ts).IsChain (fun r s => r.«end» = s.start) := by
  induction ts generalizing t0 with
  | nil => simp [extremaRangesFrom]
  | cons t ts ih =>
    simp only [extremaRangesFrom]
    have h := ih t
    cases ts with
    | nil => simp [extremaRangesFrom]
    | cons u us =>
      simp only [extremaRangesFrom] at h ⊢
      exact List.IsChain.cons_cons rfl h

/-- the i-th range is `[tᵢ₋₁, tᵢ]` with `t₋₁ = t0`, `tₙ = 1` -/
theorem getElem_extremaRangesFrom (t0 : K) (ts : List K) (i : Nat) (hi : i < (extremaRangesFrom t0 ts).length) :
    (extremaRangesFrom t0 ts)[i] =
      ⟨(t0 :: ts)[i]'(by rw [length_extremaRangesFrom] at hi; simpa using hi),
       (ts ++ [(@OfNat.ofNat K 1 Ops.instOfNat)])[i]'(by rw [length_extremaRangesFrom] at hi; simpa using hi)⟩ := by
  induction ts generalizing t0 i with
  | nil =>
    simp only [extremaRangesFrom, List.length_singleton, Nat.lt_one_iff] at hi
    subst hi; simp [extremaRangesFrom]
  | cons t ts ih =>
    cases i with
    | zero => simp [extremaRangesFrom]
    | succ j =>
      simp only [extremaRangesFrom, List.getElem_cons_succ, List.cons_append]
      exact ih t j _

end anyScalar

/-! ### sortedness (lawful scalars) -/
section lawful
variable {K : Type} [Field K] [LinearOrder K] [IsStrictOrderedRing K] [FloorRing K] [Scalar K] [LawfulScalar K]

theorem insertSorted_sorted (x : K) (l : List K) (h : l.Pairwise (· ≤ ·)) : (insertSorted x l).Pairwise (· ≤ ·) := by
  induction l with
  | nil => simp [insertSorted]
  | cons z zs ih =>
    unfold insertSorted
    rw [List.pairwise_cons] at h
    simp only [scalar_norm, decide_eq_true_eq]
    split
    · rename_i hxz
      refine List.Pairwise.cons ?_ (List.Pairwise.cons h.1 h.2)
      intro y hy
      rcases List.mem_cons.mp hy with rfl | hy
      · exact hxz.le
      · exact hxz.le.trans (h.1 y hy)
    · rename_i hxz
      refine List.Pairwise.cons ?_ (ih h.2)
      intro y hy
      rcases (mem_insertSorted x y zs).mp hy with rfl | hy
      · exact not_lt.mp hxz
      · exact h.1 y hy

theorem foldl_insertSorted_sorted (l acc : List K) (h : acc.Pairwise (· ≤ ·)) :
    (l.foldl (fun acc x => insertSorted x acc) acc).Pairwise (· ≤ ·) := by
  induction l generalizing acc with
  | nil => simpa using h
  | cons x xs ih => exact ih _ (insertSorted_sorted x acc h)

theorem sortList_sorted (l : List K) : (sortList l).Pairwise (· ≤ ·) :=
  foldl_insertSorted_sorted l [] List.Pairwise.nil

/-- every range of a sorted list inside `(0,1)` is non-degenerate-or-empty and inside `[0,1]`: `start ≤ end` -/
theorem extremaRangesFrom_ordered (t0 : K) (ts : List K) (h0 : ∀ t ∈ ts, t0 ≤ t) (h01 : t0 ≤ 1)
    (hs : ts.Pairwise (· ≤ ·)) (h1 : ∀ t ∈ ts, t ≤ 1) :
    ∀ r ∈ extremaRangesFrom t0 ts, t0 ≤ r.start ∧ r.start ≤ r.«end» ∧ r.«end» ≤ 1 := by
  induction ts generalizing t0 with
  | nil =>
    intro r hr
    simp only [extremaRangesFrom, List.mem_singleton] at hr
    subst hr
    simp only [scalar_norm]; push_cast
    exact ⟨le_rfl, h01, le_rfl⟩
  | cons t ts ih =>
    intro r hr
    simp only [extremaRangesFrom, List.mem_cons] at hr
    rw [List.pairwise_cons] at hs
    rcases hr with rfl | hr
    · exact ⟨le_rfl, h0 t (by simp), h1 t (by simp)⟩
    · have := ih t hs.1 (h1 t (by simp)) hs.2 (fun u hu => h1 u (by simp [hu])) r hr
      exact ⟨(h0 t (by simp)).trans this.1, this.2.1, this.2.2⟩

/-! ### folds of `union_pt` and `union` -/

theorem Rect.union_pt_contains_self (bb : Rect K) (p : Point K) : (bb.union_pt p).ContainsRectP bb := by
  rw [Rect.union_pt_eq]
  exact ⟨min_le_left _ _, min_le_left _ _, le_max_left _ _, le_max_left _ _⟩

/-- (needs no assumption on `bb`) -/
theorem Rect.union_pt_contains_pt (bb : Rect K) (p : Point K) : (bb.union_pt p).ContainsClosed p := by
  rw [Rect.union_pt_eq]
  exact ⟨min_le_right _ _, le_max_right _ _, min_le_right _ _, le_max_right _ _⟩

theorem Rect.from_points_contains (p q : Point K) :
    (Rect.from_points p q).ContainsClosed p ∧ (Rect.from_points p q).ContainsClosed q := by
  rw [Rect.from_points_eq]
  exact ⟨⟨min_le_left _ _, le_max_left _ _, min_le_left _ _, le_max_left _ _⟩,
    ⟨min_le_right _ _, le_max_right _ _, min_le_right _ _, le_max_right _ _⟩⟩

/-- the box after folding `union_pt` over a list contains the initial box and every folded point -/
theorem foldl_union_pt_contains {α : Type} (f : α → Point K) (l : List α) (bb : Rect K) :
    (l.foldl (fun bb t => bb.union_pt (f t)) bb).ContainsRectP bb ∧
    ∀ t ∈ l, (l.foldl (fun bb t => bb.union_pt (f t)) bb).ContainsClosed (f t) := by
  induction l generalizing bb with
  | nil => exact ⟨Rect.ContainsRectP.refl _, by simp⟩
  | cons a as ih =>
    simp only [List.foldl_cons]
    obtain ⟨h1, h2⟩ := ih (bb.union_pt (f a))
    refine ⟨h1.trans (Rect.union_pt_contains_self bb (f a)), ?_⟩
    intro t ht
    rcases List.mem_cons.mp ht with rfl | ht
    · exact h1.closed (Rect.union_pt_contains_pt bb (f t))
    · exact h2 t ht

/-- each side of the folded box is a side of the initial box or a coordinate of a folded point -/
theorem foldl_union_pt_attained {α : Type} (f : α → Point K) (l : List α) (bb : Rect K) :
    let r := l.foldl (fun bb t => bb.union_pt (f t)) bb
    (r.x0 = bb.x0 ∨ ∃ t ∈ l, r.x0 = (f t).x) ∧ (r.y0 = bb.y0 ∨ ∃ t ∈ l, r.y0 = (f t).y) ∧
    (r.x1 = bb.x1 ∨ ∃ t ∈ l, r.x1 = (f t).x) ∧ (r.y1 = bb.y1 ∨ ∃ t ∈ l, r.y1 = (f t).y) := by
  induction l generalizing bb with
  | nil => simp
  | cons a as ih =>
    simp only [List.foldl_cons]
    obtain ⟨h1, h2, h3, h4⟩ := ih (bb.union_pt (f a))
    simp only [Rect.union_pt_eq] at h1 h2 h3 h4 ⊢
    refine ⟨?_, ?_, ?_, ?_⟩
    · rcases h1 with h | ⟨t, ht, h⟩
      · rcases min_choice bb.x0 (f a).x with e | e
        · left; rw [h, e]
        · right; exact ⟨a, by simp, by rw [h, e]⟩
      · right; exact ⟨t, by simp [ht], h⟩
    · rcases h2 with h | ⟨t, ht, h⟩
      · rcases min_choice bb.y0 (f a).y with e | e
        · left; rw [h, e]
        · right; exact ⟨a, by simp, by rw [h, e]⟩
      · right; exact ⟨t, by simp [ht], h⟩
    · rcases h3 with h | ⟨t, ht, h⟩
      · rcases max_choice bb.x1 (f a).x with e | e
        · left; rw [h, e]
        · right; exact ⟨a, by simp, by rw [h, e]⟩
      · right; exact ⟨t, by simp [ht], h⟩
    · rcases h4 with h | ⟨t, ht, h⟩
      · rcases max_choice bb.y1 (f a).y with e | e
        · left; rw [h, e]
        · right; exact ⟨a, by simp, by rw [h, e]⟩
      · right; exact ⟨t, by simp [ht], h⟩

theorem Rect.union_contains_left (a b : Rect K) : (a.union b).ContainsRectP a := by
  rw [Rect.union_eq]
  exact ⟨min_le_left _ _, min_le_left _ _, le_max_left _ _, le_max_left _ _⟩

theorem Rect.union_contains_right (a b : Rect K) : (a.union b).ContainsRectP b := by
  rw [Rect.union_eq]
  exact ⟨min_le_right _ _, min_le_right _ _, le_max_right _ _, le_max_right _ _⟩

/-- the union is the least box containing both -/
theorem Rect.union_least (a b c : Rect K) (ha : c.ContainsRectP a) (hb : c.ContainsRectP b) :
    c.ContainsRectP (a.union b) := by
  rw [Rect.union_eq]
  exact ⟨le_min ha.1 hb.1, le_min ha.2.1 hb.2.1, max_le ha.2.2.1 hb.2.2.1, max_le ha.2.2.2 hb.2.2.2⟩

theorem foldl_union_contains {α : Type} (f : α → Rect K) (l : List α) (bb : Rect K) :
    (l.foldl (fun bb t => bb.union (f t)) bb).ContainsRectP bb ∧
    ∀ t ∈ l, (l.foldl (fun bb t => bb.union (f t)) bb).ContainsRectP (f t) := by
  induction l generalizing bb with
  | nil => exact ⟨Rect.ContainsRectP.refl _, by simp⟩
  | cons a as ih =>
    simp only [List.foldl_cons]
    obtain ⟨h1, h2⟩ := ih (bb.union (f a))
    refine ⟨h1.trans (Rect.union_contains_left bb (f a)), ?_⟩
    intro t ht
    rcases List.mem_cons.mp ht with rfl | ht
    · exact h1.trans (Rect.union_contains_right bb (f t))
    · exact h2 t ht

theorem foldl_union_least {α : Type} (f : α → Rect K) (l : List α) (bb c : Rect K)
    (hb : c.ContainsRectP bb) (hl : ∀ t ∈ l, c.ContainsRectP (f t)) :
    c.ContainsRectP (l.foldl (fun bb t => bb.union (f t)) bb) := by
  induction l generalizing bb with
  | nil => simpa using hb
  | cons a as ih =>
    simp only [List.foldl_cons]
    exact ih _ (Rect.union_least bb (f a) c hb (hl a (by simp))) (fun t ht => hl t (by simp [ht]))

/-- each side of the folded union is the corresponding side of one of the boxes -/
theorem foldl_union_attained {α : Type} (f : α → Rect K) (l : List α) (bb : Rect K) :
    let r := l.foldl (fun bb t => bb.union (f t)) bb
    (r.x0 = bb.x0 ∨ ∃ t ∈ l, r.x0 = (f t).x0) ∧ (r.y0 = bb.y0 ∨ ∃ t ∈ l, r.y0 = (f t).y0) ∧
    (r.x1 = bb.x1 ∨ ∃ t ∈ l, r.x1 = (f t).x1) ∧ (r.y1 = bb.y1 ∨ ∃ t ∈ l, r.y1 = (f t).y1) := by
  induction l generalizing bb with
  | nil => simp
  | cons a as ih =>
    simp only [List.foldl_cons]
    obtain ⟨h1, h2, h3, h4⟩ := ih (bb.union (f a))
    simp only [Rect.union_eq] at h1 h2 h3 h4 ⊢
    refine ⟨?_, ?_, ?_, ?_⟩
    · rcases h1 with h | ⟨t, ht, h⟩
      · rcases min_choice bb.x0 (f a).x0 with e | e
        · left; rw [h, e]
        · right; exact ⟨a, by simp, by rw [h, e]⟩
      · right; exact ⟨t, by simp [ht], h⟩
    · rcases h2 with h | ⟨t, ht, h⟩
      · rcases min_choice bb.y0 (f a).y0 with e | e
        · left; rw [h, e]
        · right; exact ⟨a, by simp, by rw [h, e]⟩
      · right; exact ⟨t, by simp [ht], h⟩
    · rcases h3 with h | ⟨t, ht, h⟩
      · rcases max_choice bb.x1 (f a).x1 with e | e
        · left; rw [h, e]
        · right; exact ⟨a, by simp, by rw [h, e]⟩
      · right; exact ⟨t, by simp [ht], h⟩
    · rcases h4 with h | ⟨t, ht, h⟩
      · rcases max_choice bb.y1 (f a).y1 with e | e
        · left; rw [h, e]
        · right; exact ⟨a, by simp, by rw [h, e]⟩
      · right; exact ⟨t, by simp [ht], h⟩

end lawful
end Kurbo
