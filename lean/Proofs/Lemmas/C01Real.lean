import Proofs.Lemmas.C01
/-! C01 helpers over ℝ: the code's (non-strict) crossing indicator equals the strict one off the edge, points off a
    segment satisfy the side conditions of `edge_angle`, and the angle-sum theorem for closed chains of lines. -/
set_option linter.unusedSectionVars false
namespace Kurbo
section real
open Complex Real
variable [Scalar ℝ] [LawfulScalar ℝ]

/-- a model vector as a complex number -/
def toC (v : Vec2 ℝ) : ℂ := ⟨v.x, v.y⟩

theorem toC_sub_re (a p : Point ℝ) : (toC (a - p)).re = a.x - p.x := by simp only [toC, vsub_x]
theorem toC_sub_im (a p : Point ℝ) : (toC (a - p)).im = a.y - p.y := by simp only [toC, vsub_y]

theorem im_div_eq (A B : ℂ) : (B / A).im = (A.re * B.im - A.im * B.re) / normSq A := by
  rw [Complex.div_im]; ring
theorem re_div_eq (A B : ℂ) : (B / A).re = (A.re * B.re + A.im * B.im) / normSq A := by
  rw [Complex.div_re]; ring

theorem dot_neg_of_cross_zero {a b c d : ℝ} (e : a * d = b * c) (hk : b * d < 0) : a * c + b * d < 0 := by
  have hp : (a * c + b * d) * (b * d) = (b * c) ^ 2 + (b * d) ^ 2 := by
    calc (a * c + b * d) * (b * d) = (a * d) * (b * c) + (b * d) ^ 2 := by ring
      _ = (b * c) * (b * c) + (b * d) ^ 2 := by rw [e]
      _ = _ := by ring
  have hpos : 0 < (b * c) ^ 2 + (b * d) ^ 2 := add_pos_of_nonneg_of_pos (sq_nonneg _) (sq_pos_of_neg hk)
  by_contra hge
  have hge' : 0 ≤ a * c + b * d := not_lt.mp hge
  have : (a * c + b * d) * (b * d) ≤ 0 := mul_nonpos_of_nonneg_of_nonpos hge' hk.le
  linarith

/-- off the edge, the code's (non-strict) indicator is the strict one used in `edge_angle` -/
theorem kcr_eq_kcross {A B : ℂ} (hA : A ≠ 0) (hB : B ≠ 0) (hseg : arg (B / A) ≠ π) :
    kcr A.re A.im B.re B.im = kcross A B := by
  have hn : 0 < normSq A := normSq_pos.mpr hA
  -- cross = 0 together with opposite sides would make B/A a negative real
  have key : A.re * B.im - A.im * B.re = 0 → (A.im ≤ 0 ∧ 0 < B.im ∨ B.im ≤ 0 ∧ 0 < A.im) → False := by
    intro hc hside
    have e : A.re * B.im = A.im * B.re := by linarith
    apply hseg
    rw [arg_eq_pi_iff, re_div_eq, im_div_eq, hc]
    refine ⟨?_, by simp⟩
    apply div_neg_of_neg_of_pos _ hn
    rcases hside with ⟨h1, h2⟩ | ⟨h1, h2⟩
    · rcases h1.lt_or_eq with h1 | h1
      · exact dot_neg_of_cross_zero e (mul_neg_of_neg_of_pos h1 h2)
      · exfalso
        have h0 : A.re * B.im = 0 := by rw [h1] at e; linarith
        have : A.re = 0 := by
          rcases mul_eq_zero.mp h0 with h | h
          · exact h
          · linarith
        exact hA (Complex.ext this h1)
    · rcases h1.lt_or_eq with h1 | h1
      · exact dot_neg_of_cross_zero e (mul_neg_of_pos_of_neg h2 h1)
      · exfalso
        have h0 : A.im * B.re = 0 := by rw [h1] at e; linarith
        have hb : B.re = 0 := by
          rcases mul_eq_zero.mp h0 with h | h
          · linarith
          · exact h
        exact hB (Complex.ext hb h1)
  unfold kcr kcross
  by_cases hd : B.im ≤ 0 ∧ 0 < A.im
  · -- downward
    have h1 : ¬ A.im < B.im := by linarith [hd.1, hd.2]
    have h2 : B.im < A.im := by linarith [hd.1, hd.2]
    simp only [h1, h2, if_true, if_false]
    by_cases hc : 0 < A.re * B.im - A.im * B.re
    · rw [if_pos ⟨hd.1, hd.2, hc.le⟩, if_pos ⟨hd.1, hd.2, hc⟩]
    · have hc' : A.re * B.im - A.im * B.re < 0 := by
        rcases lt_trichotomy (A.re * B.im - A.im * B.re) 0 with h | h | h
        · exact h
        · exact absurd (key h (Or.inr hd)) id
        · exact absurd h hc
      rw [if_neg (by rintro ⟨_, _, c⟩; linarith), if_neg (by rintro ⟨_, _, c⟩; linarith),
        if_neg (by rintro ⟨a, _, _⟩; linarith [hd.2])]
  · by_cases hu : A.im ≤ 0 ∧ 0 < B.im
    · have h1 : A.im < B.im := by linarith [hu.1, hu.2]
      simp only [h1, if_true]
      by_cases hc : A.re * B.im - A.im * B.re < 0
      · rw [if_pos ⟨hu.1, hu.2, hc.le⟩, if_neg (by rintro ⟨a, _, _⟩; linarith [hu.2]), if_pos ⟨hu.1, hu.2, hc⟩]
      · have hc' : 0 < A.re * B.im - A.im * B.re := by
          rcases lt_trichotomy (A.re * B.im - A.im * B.re) 0 with h | h | h
          · exact absurd h hc
          · exact absurd (key h (Or.inl hu)) id
          · exact h
        rw [if_neg (by rintro ⟨_, _, c⟩; linarith), if_neg (by rintro ⟨a, _, _⟩; linarith [hu.2]),
          if_neg (by rintro ⟨_, _, c⟩; linarith)]
    · -- neither side condition: both are 0
      split_ifs <;> first | rfl | (exfalso; tauto)

/-- the side conditions of `edge_angle` for the edge of `s`, seen from `p` -/
def OffEdge (s : PathSeg ℝ) (p : Point ℝ) : Prop :=
  toC (s.start - p) ≠ 0 ∧ toC (s.end - p) ≠ 0 ∧ arg (toC (s.end - p) / toC (s.start - p)) ≠ π

theorem kc_eq_kcross {s : PathSeg ℝ} {p : Point ℝ} (h : OffEdge s p) :
    kc (s.start - p) (s.end - p) = kcross (toC (s.start - p)) (toC (s.end - p)) := by
  rw [← kcr_eq_kcross h.1 h.2.1 h.2.2]; rfl

/-- a point that is not on the line segment (in the sense of the segment's own `eval` on `[0,1]`) satisfies the
    side conditions -/
theorem offEdge_of_not_onSeg (a b p : Point ℝ) (h : ¬ OnSeg (.Line ⟨a, b⟩) p) : OffEdge (.Line ⟨a, b⟩) p := by
  rw [onSeg_line_iff] at h
  show toC (a - p) ≠ 0 ∧ toC (b - p) ≠ 0 ∧ arg (toC (b - p) / toC (a - p)) ≠ π
  have hA : toC (a - p) ≠ 0 := by
    intro h0
    apply h
    have hx := congrArg Complex.re h0
    have hy := congrArg Complex.im h0
    rw [toC_sub_re] at hx; rw [toC_sub_im] at hy
    simp only [Complex.zero_re, Complex.zero_im] at hx hy
    exact ⟨0, le_refl _, zero_le_one, by linarith, by linarith⟩
  have hB : toC (b - p) ≠ 0 := by
    intro h0
    apply h
    have hx := congrArg Complex.re h0
    have hy := congrArg Complex.im h0
    rw [toC_sub_re] at hx; rw [toC_sub_im] at hy
    simp only [Complex.zero_re, Complex.zero_im] at hx hy
    exact ⟨1, zero_le_one, le_refl _, by linarith, by linarith⟩
  refine ⟨hA, hB, ?_⟩
  intro hpi
  obtain ⟨hre, him⟩ := arg_eq_pi_iff.mp hpi
  -- B = z·A with z a negative real
  have hBA : toC (b - p) = (toC (b - p) / toC (a - p)) * toC (a - p) := (div_mul_cancel₀ _ hA).symm
  set z := toC (b - p) / toC (a - p) with hz
  have hx := congrArg Complex.re hBA
  have hy := congrArg Complex.im hBA
  rw [Complex.mul_re, him, toC_sub_re, toC_sub_re, toC_sub_im] at hx
  rw [Complex.mul_im, him, toC_sub_im, toC_sub_re, toC_sub_im] at hy
  apply h
  have hr : 0 < 1 - z.re := by linarith
  refine ⟨1 / (1 - z.re), by positivity, by rw [div_le_one hr]; linarith, ?_, ?_⟩
  · field_simp
    linarith
  · field_simp
    linarith

/-- per edge: `arg = Δφ + 2π·(crossing contribution)` -/
theorem edge_arg_eq {s : PathSeg ℝ} {p : Point ℝ} (h : OffEdge s p) :
    arg (toC (s.end - p) / toC (s.start - p)) =
      (phi (toC (s.end - p)) - phi (toC (s.start - p))) + 2 * π * ((kc (s.start - p) (s.end - p) : Int) : ℝ) := by
  have h1 := edge_angle h.1 h.2.1 h.2.2
  rw [kc_eq_kcross h]; linarith

theorem angleSum_eq (ss : List (PathSeg ℝ)) (p : Point ℝ) (hoff : ∀ s ∈ ss, OffEdge s p) :
    (ss.map fun s => arg (toC (s.end - p) / toC (s.start - p))).sum =
      (ss.map fun s => (phi (toC (s.end - p)) - phi (toC (s.start - p)))).sum + 2 * π * (crossSum ss p : ℝ) := by
  induction ss with
  | nil => simp [crossSum]
  | cons s r ih =>
    simp only [List.map_cons, List.sum_cons, crossSum_cons]
    rw [edge_arg_eq (hoff s List.mem_cons_self), ih (fun s' hs' => hoff s' (List.mem_cons_of_mem _ hs'))]
    push_cast
    ring

/-- **closed chains of edges**: crossing sum = angle sum / 2π, for every point off the edges -/
theorem closedChains_crossSum_eq_angleSum {ss : List (PathSeg ℝ)} (hc : ClosedChains ss) (p : Point ℝ)
    (hoff : ∀ s ∈ ss, OffEdge s p) :
    (crossSum ss p : ℝ) = (1 / (2 * π)) * (ss.map fun s => arg (toC (s.end - p) / toC (s.start - p))).sum := by
  have hπ : (2 * π) ≠ 0 := by positivity
  rw [angleSum_eq ss p hoff, sum_closedChains (fun q => phi (toC (q - p))) hc]
  field_simp
  ring

end real
end Kurbo
