import Proofs.Lemmas.C11Tri
/-! Helper lemmas for C04C, part 2 (pure crossing-indicator arithmetic, coordinates relative to the query point): the crossing
    sum (`kcr` of `Proofs/Lemmas/C01.lean`, half-open rule) of a positively oriented TRIANGLE is `≥ 0` at EVERY point (also on
    edges), that of a positively oriented PARALLELOGRAM is `≥ 0` at every point, `1` strictly inside, `0` outside the closed
    parallelogram. -/
set_option linter.unusedSectionVars false
set_option linter.unusedVariables false
namespace Kurbo
namespace C04C
open C11Tri
variable {K : Type} [Field K] [LinearOrder K] [IsStrictOrderedRing K] [FloorRing K] [Scalar K] [LawfulScalar K]

/-! ### triangles: non-negative everywhere -/

theorem oneBelow {xu xo xd ya yb yc : K} (I : xo * ya + xd * yb + xu * yc = 0)
    (ha : ya ≤ 0) (hb : 0 < yb) (hc : 0 < yc) (hs : 0 < xo + xd + xu) : xu ≤ 0 → 0 ≤ xd := by
  intro hu
  by_contra hd
  have hd' : xd < 0 := not_le.mp hd
  have t2 := mul_neg_of_neg_of_pos hd' hb
  have t3 := mul_nonpos_of_nonpos_of_nonneg hu hc.le
  have t1 : 0 < xo * ya := by linarith
  have hxo : xo < 0 := by
    by_contra h
    have := mul_nonpos_of_nonneg_of_nonpos (not_lt.mp h) ha
    linarith
  linarith

theorem oneAbove {xd xo xu ya yb yc : K} (I : xo * ya + xu * yb + xd * yc = 0)
    (ha : 0 < ya) (hb : yb ≤ 0) (hc : yc ≤ 0) (hs : 0 < xo + xd + xu) : xu ≤ 0 → 0 ≤ xd := by
  intro hu
  by_contra hd
  have hd' : xd < 0 := not_le.mp hd
  have t2 := mul_nonneg_of_nonpos_of_nonpos hu hb
  have t3 := mul_nonneg_of_nonpos_of_nonpos hd'.le hc
  have t1 : xo * ya ≤ 0 := by linarith
  have hxo : xo ≤ 0 := by
    by_contra h
    have := mul_pos (not_le.mp h) ha
    linarith
  linarith

theorem updown_nonneg {xu xd : K} (h : xu ≤ 0 → 0 ≤ xd) :
    (0 : Int) ≤ (if 0 ≤ xd then 1 else 0) + (if xu ≤ 0 then -1 else 0) := by
  by_cases hu : xu ≤ 0
  · rw [if_pos hu, if_pos (h hu)]; decide
  · rw [if_neg hu]; split_ifs <;> decide

/-- a positively oriented triangle `a → b → c → a` (coordinates relative to the query point) has a non-negative crossing sum,
    for EVERY query point, also one on an edge or at a vertex -/
theorem tri_nonneg (ax ay bx by_ cx cy : K)
    (hor : 0 < (ax * by_ - ay * bx) + (bx * cy - by_ * cx) + (cx * ay - cy * ax)) :
    0 ≤ kcr ax ay bx by_ + kcr bx by_ cx cy + kcr cx cy ax ay := by
  rcases lt_or_ge 0 ay with ha | ha <;> rcases lt_or_ge 0 by_ with hb | hb <;> rcases lt_or_ge 0 cy with hc | hc
  · rw [kcr_above ha hb, kcr_above hb hc, kcr_above hc ha]; decide
  · -- C at/below: BC down, CA up
    rw [kcr_above ha hb, kcr_down hb hc, kcr_up hc ha, zero_add]
    exact updown_nonneg (oneBelow (xo := ax * by_ - ay * bx) (ya := cy) (yb := ay) (yc := by_) (by ring) hc ha hb
      (by linarith))
  · -- B at/below: AB down, BC up
    rw [kcr_down ha hb, kcr_up hb hc, kcr_above hc ha, add_zero]
    exact updown_nonneg (oneBelow (xo := cx * ay - cy * ax) (ya := by_) (yb := cy) (yc := ay) (by ring) hb hc ha
      (by linarith))
  · -- A above: AB down, CA up
    rw [kcr_down ha hb, kcr_below hb hc, kcr_up hc ha, add_zero]
    exact updown_nonneg (oneAbove (xo := bx * cy - by_ * cx) (ya := ay) (yb := by_) (yc := cy) (by ring) ha hb hc
      (by linarith))
  · -- A at/below: AB up, CA down
    rw [kcr_up ha hb, kcr_above hb hc, kcr_down hc ha, add_zero, add_comm]
    exact updown_nonneg (oneBelow (xo := bx * cy - by_ * cx) (ya := ay) (yb := by_) (yc := cy) (by ring) ha hb hc
      (by linarith))
  · -- B above: AB up, BC down
    rw [kcr_up ha hb, kcr_down hb hc, kcr_below hc ha, add_zero, add_comm]
    exact updown_nonneg (oneAbove (xo := cx * ay - cy * ax) (ya := by_) (yb := cy) (yc := ay) (by ring) hb hc ha
      (by linarith))
  · -- C above: BC up, CA down
    rw [kcr_below ha hb, kcr_up hb hc, kcr_down hc ha, zero_add, add_comm]
    exact updown_nonneg (oneAbove (xo := ax * by_ - ay * bx) (ya := cy) (yb := ay) (yc := by_) (by ring) hc ha hb
      (by linarith))
  · rw [kcr_below ha hb, kcr_below hb hc, kcr_below hc ha]; decide

/-! ### parallelograms -/

theorem kcr_pos {ax ay bx by_ : K} (h : 0 < ax * by_ - ay * bx) :
    kcr ax ay bx by_ = if ¬ (0 < by_) ∧ 0 < ay then 1 else 0 := by
  by_cases h1 : 0 < by_ <;> by_cases h2 : 0 < ay
  · rw [kcr_above h2 h1, if_neg (by tauto)]
  · rw [kcr_up (not_lt.mp h2) h1, if_neg (not_le.mpr h), if_neg (by tauto)]
  · rw [kcr_down h2 (not_lt.mp h1), if_pos h.le, if_pos ⟨h1, h2⟩]
  · rw [kcr_below (not_lt.mp h2) (not_lt.mp h1), if_neg (by tauto)]

theorem cyc4 (pA pB pC pD : Prop) [Decidable pA] [Decidable pB] [Decidable pC] [Decidable pD]
    (h1 : ¬ (pA ∧ pB ∧ pC ∧ pD)) (h2 : ¬ (¬ pA ∧ ¬ pB ∧ ¬ pC ∧ ¬ pD))
    (h3 : ¬ (pA ∧ ¬ pB ∧ pC ∧ ¬ pD)) (h4 : ¬ (¬ pA ∧ pB ∧ ¬ pC ∧ pD)) :
    (if ¬ pB ∧ pA then (1 : Int) else 0) + (if ¬ pC ∧ pB then 1 else 0) + (if ¬ pD ∧ pC then 1 else 0)
      + (if ¬ pA ∧ pD then 1 else 0) = 1 := by
  by_cases hA : pA <;> by_cases hB : pB <;> by_cases hC : pC <;> by_cases hD : pD <;> simp_all

/-- the crossing sum of the closed quadrilateral `a → b → c → d → a` -/
def quadSum (ax ay bx by_ cx cy dx dy : K) : Int :=
  kcr ax ay bx by_ + kcr bx by_ cx cy + kcr cx cy dx dy + kcr dx dy ax ay

theorem sq_sum_pos_of_cross {tx ty mx my : K} (h : tx * my - ty * mx ≠ 0) : 0 < tx * tx + ty * ty := by
  by_contra hn
  have h1 := mul_self_nonneg tx
  have h2 := mul_self_nonneg ty
  have e1 : tx = 0 := mul_self_eq_zero.1 (by linarith)
  have e2 : ty = 0 := mul_self_eq_zero.1 (by linarith)
  apply h; rw [e1, e2]; ring

/-- **strictly inside** a positively oriented parallelogram (all four edge cross products positive): crossing sum `1` -/
theorem para_inside (ax ay bx by_ cx cy dx dy : K) (hpy : ay + cy = by_ + dy)
    (hab : 0 < ax * by_ - ay * bx) (hbc : 0 < bx * cy - by_ * cx) (hcd : 0 < cx * dy - cy * dx)
    (hda : 0 < dx * ay - dy * ax) : quadSum ax ay bx by_ cx cy dx dy = 1 := by
  unfold quadSum
  rw [kcr_pos hab, kcr_pos hbc, kcr_pos hcd, kcr_pos hda]
  refine cyc4 _ _ _ _ ?_ ?_ ?_ ?_
  · -- all strictly above the row: the four positive cross products would sum to something positive ... use the identity
    rintro ⟨ha, hb, hc, hd⟩
    -- (b×c)·(a_y) ... : the vector identity (b×c) a + (c×a) b + (a×b) c = 0 and its analogue for (c, d, a)
    have I1 : (bx * cy - by_ * cx) * ay + (cx * ay - cy * ax) * by_ + (ax * by_ - ay * bx) * cy = 0 := by ring
    have I2 : (cx * dy - cy * dx) * ay + (dx * ay - dy * ax) * cy + (ax * cy - ay * cx) * dy = 0 := by ring
    rcases le_total 0 (cx * ay - cy * ax) with h | h
    · have t1 := mul_pos hbc ha
      have t2 := mul_nonneg h hb.le
      have t3 := mul_pos hab hc
      linarith
    · have h' : 0 ≤ ax * cy - ay * cx := by linarith
      have t1 := mul_pos hcd ha
      have t2 := mul_pos hda hc
      have t3 := mul_nonneg h' hd.le
      linarith
  · rintro ⟨ha, hb, hc, hd⟩
    have ha' := not_lt.mp ha; have hb' := not_lt.mp hb; have hc' := not_lt.mp hc; have hd' := not_lt.mp hd
    have I1 : (bx * cy - by_ * cx) * ay + (cx * ay - cy * ax) * by_ + (ax * by_ - ay * bx) * cy = 0 := by ring
    have I2 : (cx * dy - cy * dx) * ay + (dx * ay - dy * ax) * cy + (ax * cy - ay * cx) * dy = 0 := by ring
    -- every term is ≤ 0, so each vanishes: a_y = 0 = c_y, hence b_y = d_y = 0 and a×b = 0
    have hay : ay = 0 ∧ cy = 0 := by
      rcases le_total 0 (cx * ay - cy * ax) with h | h
      · have t1 := mul_nonpos_of_nonneg_of_nonpos hbc.le ha'
        have t2 := mul_nonpos_of_nonneg_of_nonpos h hb'
        have t3 := mul_nonpos_of_nonneg_of_nonpos hab.le hc'
        have e1 : (bx * cy - by_ * cx) * ay = 0 := by linarith
        have e3 : (ax * by_ - ay * bx) * cy = 0 := by linarith
        exact ⟨(mul_eq_zero.mp e1).resolve_left hbc.ne', (mul_eq_zero.mp e3).resolve_left hab.ne'⟩
      · have h' : 0 ≤ ax * cy - ay * cx := by linarith
        have t1 := mul_nonpos_of_nonneg_of_nonpos hcd.le ha'
        have t2 := mul_nonpos_of_nonneg_of_nonpos hda.le hc'
        have t3 := mul_nonpos_of_nonneg_of_nonpos h' hd'
        have e1 : (cx * dy - cy * dx) * ay = 0 := by linarith
        have e2 : (dx * ay - dy * ax) * cy = 0 := by linarith
        exact ⟨(mul_eq_zero.mp e1).resolve_left hcd.ne', (mul_eq_zero.mp e2).resolve_left hda.ne'⟩
    have hby : by_ = 0 := by linarith [hay.1, hay.2]
    rw [hay.1, hby] at hab
    simp at hab
  · rintro ⟨ha, hb, hc, hd⟩
    have hb' := not_lt.mp hb; have hd' := not_lt.mp hd
    linarith
  · rintro ⟨ha, hb, hc, hd⟩
    have ha' := not_lt.mp ha; have hc' := not_lt.mp hc
    linarith

/-- a positively oriented parallelogram has a non-negative crossing sum at EVERY point (two triangles) -/
theorem para_nonneg (ax ay bx by_ cx cy dx dy : K) (hpx : ax + cx = bx + dx) (hpy : ay + cy = by_ + dy)
    (hD : 0 < (ax * by_ - ay * bx) + (cx * dy - cy * dx)) : 0 ≤ quadSum ax ay bx by_ cx cy dx dy := by
  unfold quadSum
  have e : kcr ax ay bx by_ + kcr bx by_ cx cy + kcr cx cy dx dy + kcr dx dy ax ay
      = (kcr ax ay bx by_ + kcr bx by_ cx cy + kcr cx cy ax ay)
        + (kcr ax ay cx cy + kcr cx cy dx dy + kcr dx dy ax ay) := by
    rw [kcr_swap cx cy ax ay]; ring
  rw [e]
  have hcx : cx = bx + dx - ax := by linarith
  have hcy : cy = by_ + dy - ay := by linarith
  have o1 : 0 < (ax * by_ - ay * bx) + (bx * cy - by_ * cx) + (cx * ay - cy * ax) := by
    have : (ax * by_ - ay * bx) + (bx * cy - by_ * cx) + (cx * ay - cy * ax)
        = (ax * by_ - ay * bx) + (cx * dy - cy * dx) := by rw [hcx, hcy]; ring
    rw [this]; exact hD
  have o2 : 0 < (ax * cy - ay * cx) + (cx * dy - cy * dx) + (dx * ay - dy * ax) := by
    have : (ax * cy - ay * cx) + (cx * dy - cy * dx) + (dx * ay - dy * ax)
        = (ax * by_ - ay * bx) + (cx * dy - cy * dx) := by rw [hcx, hcy]; ring
    rw [this]; exact hD
  have := tri_nonneg ax ay bx by_ cx cy o1
  have := tri_nonneg ax ay cx cy dx dy o2
  omega

/-! ### the parallelogram `a, a + t, a + t + m, a + m`: dot products of consecutive vertices
    `X = a × t`, `Y = m × a`, `D = t × m`; the edge cross products are `X`, `D − Y`, `D − X`, `Y`, and `D·a = −Y·t − X·m`. -/

section ids
variable (ax ay tx ty mx my X Y D : K)

theorem dotAB_id (hX : X = ax * ty - ay * tx) (hY : Y = ay * mx - ax * my) (hD : D = tx * my - ty * mx) :
    D * D * (ax * (ax + tx) + ay * (ay + ty))
      = Y * (Y - D) * (tx * tx + ty * ty) + X * (2 * Y - D) * (tx * mx + ty * my) + X * X * (mx * mx + my * my) := by
  subst hX hY hD; ring
theorem dotBC_id (hX : X = ax * ty - ay * tx) (hY : Y = ay * mx - ax * my) (hD : D = tx * my - ty * mx) :
    D * D * ((ax + tx) * (ax + tx + mx) + (ay + ty) * (ay + ty + my))
      = (D - Y) * (D - Y) * (tx * tx + ty * ty) + (D - Y) * (D - 2 * X) * (tx * mx + ty * my)
        + X * (X - D) * (mx * mx + my * my) := by
  subst hX hY hD; ring
theorem dotCD_id (hX : X = ax * ty - ay * tx) (hY : Y = ay * mx - ax * my) (hD : D = tx * my - ty * mx) :
    D * D * ((ax + tx + mx) * (ax + mx) + (ay + ty + my) * (ay + my))
      = Y * (Y - D) * (tx * tx + ty * ty) + (D - X) * (D - 2 * Y) * (tx * mx + ty * my)
        + (D - X) * (D - X) * (mx * mx + my * my) := by
  subst hX hY hD; ring
theorem dotDA_id (hX : X = ax * ty - ay * tx) (hY : Y = ay * mx - ax * my) (hD : D = tx * my - ty * mx) :
    D * D * ((ax + mx) * ax + (ay + my) * ay)
      = Y * Y * (tx * tx + ty * ty) + Y * (2 * X - D) * (tx * mx + ty * my) + X * (X - D) * (mx * mx + my * my) := by
  subst hX hY hD; ring
theorem dotAC_id (hX : X = ax * ty - ay * tx) (hY : Y = ay * mx - ax * my) (hD : D = tx * my - ty * mx) :
    D * D * (ax * (ax + tx + mx) + ay * (ay + ty + my))
      = Y * (Y - D) * (tx * tx + ty * ty) - (Y * (D - X) + X * (D - Y)) * (tx * mx + ty * my)
        + X * (X - D) * (mx * mx + my * my) := by
  subst hX hY hD; ring
end ids

theorem out_prod {Y D : K} (hD : 0 < D) (h : ¬ (0 ≤ Y ∧ Y ≤ D)) : 0 < Y * (Y - D) := by
  rcases lt_or_ge Y 0 with h0 | h0
  · exact mul_pos_of_neg_of_neg h0 (by linarith)
  · have : D < Y := by
      by_contra hn; exact h ⟨h0, not_lt.mp hn⟩
    exact mul_pos (by linarith) (by linarith)

theorem in_prod {Y D : K} (h0 : 0 ≤ Y) (h1 : Y ≤ D) : Y * (Y - D) ≤ 0 :=
  mul_nonpos_of_nonneg_of_nonpos h0 (by linarith)

theorem pos_of_DD {D v : K} (hD : 0 < D) (h : 0 < D * D * v) : 0 < v :=
  (mul_pos_iff_of_pos_left (mul_pos hD hD)).mp h

/-- **outside** the closed parallelogram: crossing sum `0` (two triangles; the point is on no edge of either) -/
theorem para_out_atm (ax ay tx ty mx my : K) (hD : 0 < tx * my - ty * mx)
    (hnc : ¬ (0 ≤ ax * ty - ay * tx ∧ ax * ty - ay * tx ≤ tx * my - ty * mx ∧
              0 ≤ ay * mx - ax * my ∧ ay * mx - ax * my ≤ tx * my - ty * mx)) :
    quadSum ax ay (ax + tx) (ay + ty) (ax + tx + mx) (ay + ty + my) (ax + mx) (ay + my) = 0 := by
  obtain ⟨X, hX⟩ : ∃ X, X = ax * ty - ay * tx := ⟨_, rfl⟩
  obtain ⟨Y, hY⟩ : ∃ Y, Y = ay * mx - ax * my := ⟨_, rfl⟩
  obtain ⟨D, hDe⟩ : ∃ D, D = tx * my - ty * mx := ⟨_, rfl⟩
  rw [← hX, ← hY, ← hDe] at hnc
  rw [← hDe] at hD
  have hT2 : 0 < tx * tx + ty * ty := sq_sum_pos_of_cross (mx := mx) (my := my) (by rw [← hDe]; exact hD.ne')
  have hM2 : 0 < mx * mx + my * my := by
    have := sq_sum_pos_of_cross (tx := mx) (ty := my) (mx := tx) (my := ty) (by
      have : mx * ty - my * tx = -D := by rw [hDe]; ring
      rw [this]; exact neg_ne_zero.mpr hD.ne')
    exact this
  have hS2 : 0 < (tx + mx) * (tx + mx) + (ty + my) * (ty + my) :=
    sq_sum_pos_of_cross (mx := mx) (my := my) (by
      have : (tx + mx) * my - (ty + my) * mx = D := by rw [hDe]; ring
      rw [this]; exact hD.ne')
  -- edge cross products
  have eab : ax * (ay + ty) - ay * (ax + tx) = X := by rw [hX]; ring
  have ebc : (ax + tx) * (ay + ty + my) - (ay + ty) * (ax + tx + mx) = D - Y := by rw [hY, hDe]; ring
  have ecd : (ax + tx + mx) * (ay + my) - (ay + ty + my) * (ax + mx) = D - X := by rw [hX, hDe]; ring
  have eda : (ax + mx) * ay - (ay + my) * ax = Y := by rw [hY]; ring
  have eac : ax * (ay + ty + my) - ay * (ax + tx + mx) = X - Y := by rw [hX, hY]; ring
  have eca : (ax + tx + mx) * ay - (ay + ty + my) * ax = Y - X := by rw [hX, hY]; ring
  -- the point is off every edge of the two triangles
  have oAB : offEdge ax ay (ax + tx) (ay + ty) := by
    intro hc
    rw [eab] at hc
    apply pos_of_DD hD
    rw [dotAB_id ax ay tx ty mx my X Y D hX hY hDe, hc]
    have := mul_pos (out_prod hD (fun h => hnc ⟨hc.ge, by rw [hc]; exact hD.le, h.1, h.2⟩)) hT2
    linarith
  have oBC : offEdge (ax + tx) (ay + ty) (ax + tx + mx) (ay + ty + my) := by
    intro hc
    rw [ebc] at hc
    have hYD : Y = D := by linarith
    apply pos_of_DD hD
    rw [dotBC_id ax ay tx ty mx my X Y D hX hY hDe, hc]
    have := mul_pos (out_prod hD (fun h => hnc ⟨h.1, h.2, by rw [hYD]; exact hD.le, hYD.le⟩)) hM2
    linarith
  have oCD : offEdge (ax + tx + mx) (ay + ty + my) (ax + mx) (ay + my) := by
    intro hc
    rw [ecd] at hc
    have hXD : X = D := by linarith
    apply pos_of_DD hD
    rw [dotCD_id ax ay tx ty mx my X Y D hX hY hDe, hc]
    have := mul_pos (out_prod hD (fun h => hnc ⟨by rw [hXD]; exact hD.le, hXD.le, h.1, h.2⟩)) hT2
    linarith
  have oDA : offEdge (ax + mx) (ay + my) ax ay := by
    intro hc
    rw [eda] at hc
    apply pos_of_DD hD
    rw [dotDA_id ax ay tx ty mx my X Y D hX hY hDe, hc]
    have := mul_pos (out_prod hD (fun h => hnc ⟨h.1, h.2, hc.ge, by rw [hc]; exact hD.le⟩)) hM2
    linarith
  have oAC : offEdge ax ay (ax + tx + mx) (ay + ty + my) := by
    intro hc
    rw [eac] at hc
    have hXY : Y = X := by linarith
    apply pos_of_DD hD
    rw [dotAC_id ax ay tx ty mx my X Y D hX hY hDe, hXY]
    have := mul_pos (out_prod hD (fun h => hnc ⟨h.1, h.2, by rw [hXY]; exact h.1, by rw [hXY]; exact h.2⟩)) hS2
    nlinarith [this]
  have oCA : offEdge (ax + tx + mx) (ay + ty + my) ax ay := by
    intro hc
    have h1 : ax * (ay + ty + my) - ay * (ax + tx + mx) = 0 := by linarith
    have := oAC h1
    linarith
  unfold quadSum
  have e : kcr ax ay (ax + tx) (ay + ty) + kcr (ax + tx) (ay + ty) (ax + tx + mx) (ay + ty + my)
        + kcr (ax + tx + mx) (ay + ty + my) (ax + mx) (ay + my) + kcr (ax + mx) (ay + my) ax ay
      = (kcr ax ay (ax + tx) (ay + ty) + kcr (ax + tx) (ay + ty) (ax + tx + mx) (ay + ty + my)
          + kcr (ax + tx + mx) (ay + ty + my) ax ay)
        + (kcr ax ay (ax + tx + mx) (ay + ty + my) + kcr (ax + tx + mx) (ay + ty + my) (ax + mx) (ay + my)
          + kcr (ax + mx) (ay + my) ax ay) := by
    rw [kcr_swap (ax + tx + mx) (ay + ty + my) ax ay]; ring
  rw [e, triangle_winding _ _ _ _ _ _ oAB oBC oCA (by rw [eab, ebc, eca]; rintro ⟨h1, h2, h3⟩; linarith),
    triangle_winding _ _ _ _ _ _ oAC oCD oDA (by rw [eac, ecd, eda]; rintro ⟨h1, h2, h3⟩; linarith),
    eab, ebc, eca, eac, ecd, eda, triW_eq, triW_eq,
    if_neg (by rintro ⟨h1, h2, h3⟩; linarith), if_neg (by rintro ⟨h1, h2, h3⟩; exact hnc ⟨h1, by linarith, by linarith, by linarith⟩),
    if_neg (by rintro ⟨h1, h2, h3⟩; linarith), if_neg (by rintro ⟨h1, h2, h3⟩; exact hnc ⟨by linarith, by linarith, h3, by linarith⟩)]
  rfl

/-- on no edge, in the closed parallelogram: strictly inside -/
theorem para_closed_off_atm (ax ay tx ty mx my : K) (hD : 0 < tx * my - ty * mx)
    (oAB : offEdge ax ay (ax + tx) (ay + ty)) (oBC : offEdge (ax + tx) (ay + ty) (ax + tx + mx) (ay + ty + my))
    (oCD : offEdge (ax + tx + mx) (ay + ty + my) (ax + mx) (ay + my)) (oDA : offEdge (ax + mx) (ay + my) ax ay)
    (hc : 0 ≤ ax * ty - ay * tx ∧ ax * ty - ay * tx ≤ tx * my - ty * mx ∧
              0 ≤ ay * mx - ax * my ∧ ay * mx - ax * my ≤ tx * my - ty * mx) :
    0 < ax * ty - ay * tx ∧ ax * ty - ay * tx < tx * my - ty * mx ∧
      0 < ay * mx - ax * my ∧ ay * mx - ax * my < tx * my - ty * mx := by
  obtain ⟨X, hX⟩ : ∃ X, X = ax * ty - ay * tx := ⟨_, rfl⟩
  obtain ⟨Y, hY⟩ : ∃ Y, Y = ay * mx - ax * my := ⟨_, rfl⟩
  obtain ⟨D, hDe⟩ : ∃ D, D = tx * my - ty * mx := ⟨_, rfl⟩
  rw [← hX, ← hY, ← hDe] at hc ⊢
  rw [← hDe] at hD
  obtain ⟨hX0, hXD, hY0, hYD⟩ := hc
  have hT2 : 0 < tx * tx + ty * ty := sq_sum_pos_of_cross (mx := mx) (my := my) (by rw [← hDe]; exact hD.ne')
  have hM2 : 0 < mx * mx + my * my :=
    sq_sum_pos_of_cross (tx := mx) (ty := my) (mx := tx) (my := ty) (by
      have : mx * ty - my * tx = -D := by rw [hDe]; ring
      rw [this]; exact neg_ne_zero.mpr hD.ne')
  have eab : ax * (ay + ty) - ay * (ax + tx) = X := by rw [hX]; ring
  have ebc : (ax + tx) * (ay + ty + my) - (ay + ty) * (ax + tx + mx) = D - Y := by rw [hY, hDe]; ring
  have ecd : (ax + tx + mx) * (ay + my) - (ay + ty + my) * (ax + mx) = D - X := by rw [hX, hDe]; ring
  have eda : (ax + mx) * ay - (ay + my) * ax = Y := by rw [hY]; ring
  have hDD : 0 < D * D := mul_pos hD hD
  refine ⟨lt_of_le_of_ne hX0 ?_, lt_of_le_of_ne hXD ?_, lt_of_le_of_ne hY0 ?_, lt_of_le_of_ne hYD ?_⟩
  · intro h0
    have hpos := oAB (by rw [eab]; exact h0.symm)
    have hid := dotAB_id ax ay tx ty mx my X Y D hX hY hDe
    rw [← h0] at hid
    have := mul_nonpos_of_nonpos_of_nonneg (in_prod hY0 hYD) hT2.le
    have := mul_pos hDD hpos
    linarith
  · intro h0
    have hpos := oCD (by rw [ecd]; linarith)
    have hid := dotCD_id ax ay tx ty mx my X Y D hX hY hDe
    rw [h0] at hid
    have := mul_nonpos_of_nonpos_of_nonneg (in_prod hY0 hYD) hT2.le
    have := mul_pos hDD hpos
    nlinarith [this]
  · intro h0
    have hpos := oDA (by rw [eda]; exact h0.symm)
    have hid := dotDA_id ax ay tx ty mx my X Y D hX hY hDe
    rw [← h0] at hid
    have := mul_nonpos_of_nonpos_of_nonneg (in_prod hX0 hXD) hM2.le
    have := mul_pos hDD hpos
    linarith
  · intro h0
    have hpos := oBC (by rw [ebc]; linarith)
    have hid := dotBC_id ax ay tx ty mx my X Y D hX hY hDe
    rw [h0] at hid
    have := mul_nonpos_of_nonpos_of_nonneg (in_prod hX0 hXD) hM2.le
    have := mul_pos hDD hpos
    nlinarith [this]

/-! ### the same for four relative vertices `a b c d` with `a + c = b + d` -/

/-- the point is in the closed parallelogram: no edge cross product is negative -/
abbrev ClosedIn (ax ay bx by_ cx cy dx dy : K) : Prop :=
  0 ≤ ax * by_ - ay * bx ∧ 0 ≤ bx * cy - by_ * cx ∧ 0 ≤ cx * dy - cy * dx ∧ 0 ≤ dx * ay - dy * ax
/-- strictly inside: every edge cross product is positive -/
abbrev StrictIn (ax ay bx by_ cx cy dx dy : K) : Prop :=
  0 < ax * by_ - ay * bx ∧ 0 < bx * cy - by_ * cx ∧ 0 < cx * dy - cy * dx ∧ 0 < dx * ay - dy * ax

theorem para_out (ax ay bx by_ cx cy dx dy : K) (hpx : ax + cx = bx + dx) (hpy : ay + cy = by_ + dy)
    (hD : 0 < (ax * by_ - ay * bx) + (cx * dy - cy * dx)) (hnc : ¬ ClosedIn ax ay bx by_ cx cy dx dy) :
    quadSum ax ay bx by_ cx cy dx dy = 0 := by
  have e1 : ax + (bx - ax) = bx := by ring
  have e2 : ay + (by_ - ay) = by_ := by ring
  have e3 : ax + (dx - ax) = dx := by ring
  have e4 : ay + (dy - ay) = dy := by ring
  have e5 : ax + (bx - ax) + (dx - ax) = cx := by linarith
  have e6 : ay + (by_ - ay) + (dy - ay) = cy := by linarith
  have key := para_out_atm ax ay (bx - ax) (by_ - ay) (dx - ax) (dy - ay)
    (by
      have : (bx - ax) * (dy - ay) - (by_ - ay) * (dx - ax) = (ax * by_ - ay * bx) + (cx * dy - cy * dx) := by
        rw [← e5, ← e6]; ring
      rw [this]; exact hD)
    (by
      rintro ⟨h1, h2, h3, h4⟩
      apply hnc
      unfold ClosedIn
      rw [← e5, ← e6]
      refine ⟨by linarith, ?_, ?_, by linarith⟩
      · have : bx * (ay + (by_ - ay) + (dy - ay)) - by_ * (ax + (bx - ax) + (dx - ax))
            = ((bx - ax) * (dy - ay) - (by_ - ay) * (dx - ax)) - (ay * (dx - ax) - ax * (dy - ay)) := by ring
        rw [this]; linarith
      · have : (ax + (bx - ax) + (dx - ax)) * dy - (ay + (by_ - ay) + (dy - ay)) * dx
            = ((bx - ax) * (dy - ay) - (by_ - ay) * (dx - ax)) - (ax * (by_ - ay) - ay * (bx - ax)) := by ring
        rw [this]; linarith)
  rw [e5, e6, e1, e2, e3, e4] at key
  exact key

/-- **the crossing sum of a positively oriented parallelogram at a point on none of its closed edges** is `1` strictly inside
    and `0` elsewhere -/
theorem para_winding (ax ay bx by_ cx cy dx dy : K) (hpx : ax + cx = bx + dx) (hpy : ay + cy = by_ + dy)
    (hD : 0 < (ax * by_ - ay * bx) + (cx * dy - cy * dx))
    (oAB : offEdge ax ay bx by_) (oBC : offEdge bx by_ cx cy) (oCD : offEdge cx cy dx dy) (oDA : offEdge dx dy ax ay) :
    quadSum ax ay bx by_ cx cy dx dy = if StrictIn ax ay bx by_ cx cy dx dy then 1 else 0 := by
  by_cases hin : StrictIn ax ay bx by_ cx cy dx dy
  · rw [if_pos hin]
    exact para_inside _ _ _ _ _ _ _ _ hpy hin.1 hin.2.1 hin.2.2.1 hin.2.2.2
  · rw [if_neg hin]
    apply para_out _ _ _ _ _ _ _ _ hpx hpy hD
    intro hc
    apply hin
    have e1 : ax + (bx - ax) = bx := by ring
    have e2 : ay + (by_ - ay) = by_ := by ring
    have e3 : ax + (dx - ax) = dx := by ring
    have e4 : ay + (dy - ay) = dy := by ring
    have e5 : ax + (bx - ax) + (dx - ax) = cx := by linarith
    have e6 : ay + (by_ - ay) + (dy - ay) = cy := by linarith
    have eD : (bx - ax) * (dy - ay) - (by_ - ay) * (dx - ax) = (ax * by_ - ay * bx) + (cx * dy - cy * dx) := by
      rw [← e5, ← e6]; ring
    have ebc : bx * cy - by_ * cx
        = ((bx - ax) * (dy - ay) - (by_ - ay) * (dx - ax)) - (ay * (dx - ax) - ax * (dy - ay)) := by
      rw [← e5, ← e6]; ring
    have ecd : cx * dy - cy * dx
        = ((bx - ax) * (dy - ay) - (by_ - ay) * (dx - ax)) - (ax * (by_ - ay) - ay * (bx - ax)) := by
      rw [← e5, ← e6]; ring
    obtain ⟨c1, c2, c3, c4⟩ := hc
    have key := para_closed_off_atm ax ay (bx - ax) (by_ - ay) (dx - ax) (dy - ay) (by rw [eD]; exact hD)
      (by rw [e1, e2]; exact oAB) (by rw [e5, e6, e1, e2]; exact oBC) (by rw [e5, e6, e3, e4]; exact oCD)
      (by rw [e3, e4]; exact oDA)
      ⟨by linarith, by linarith, by linarith, by linarith⟩
    obtain ⟨k1, k2, k3, k4⟩ := key
    exact ⟨by linarith, by linarith, by linarith, by linarith⟩

end C04C
end Kurbo
