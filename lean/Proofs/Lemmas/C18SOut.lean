import Proofs.Lemmas.C18SSplit
/-! Helper definitions and lemmas for C18S, part 3: the shape of the OUTPUT (`SimpSub`: `MoveTo`, drawing elements, optional
    `ClosePath`), the checker "no drawing element directly after `ClosePath`", `MoveTo` points, chain / sublist facts about the
    segments of a sub-path.  Core Lean only, arbitrary `[Scalar K]`. -/
set_option linter.unusedSectionVars false
namespace Kurbo
variable {K : Type} [Scalar K]

deriving instance DecidableEq for SimpRes

/-! ### output sub-paths -/

/-- a sub-path of the output: `MoveTo start`, drawing elements, optionally `ClosePath` -/
structure SimpSub (K : Type) where
  start : Point K
  draws : List (PathEl K)
  closed : Bool

/-- its elements -/
def SimpSub.els (s : SimpSub K) : List (PathEl K) :=
  .MoveTo s.start :: s.draws ++ (if s.closed then [.ClosePath] else [])

/-- well-formed: `draws` are drawing elements and there is at least one unless the sub-path is a closed point `M p Z` -/
def SimpSub.WF (s : SimpSub K) : Prop :=
  (∀ e ∈ s.draws, e.simpDraw = true) ∧ (s.draws ≠ [] ∨ s.closed = true)

/-- does the input sub-path emit anything? (an open sub-path without non-degenerate segment does not) -/
def SimpChunk.emits (c : SimpChunk K) : Bool := !c.segs.isEmpty || c.closed

/-- the output sub-path of an input sub-path -/
def simpChunkSub (fit : List (PathEl K) → List (PathEl K)) (th : K) (c : SimpChunk K) : Option (SimpSub K) :=
  if c.emits then some ⟨c.start, simpChunkDraws fit th c.segs, c.closed⟩ else none

theorem c18s_chunkOut_sub (fit : List (PathEl K) → List (PathEl K)) (th : K) (c : SimpChunk K) :
    simpChunkOut fit th c = match simpChunkSub fit th c with | none => [] | some s => s.els := by
  obtain ⟨start, segs, closed⟩ := c
  cases segs with
  | nil =>
    rw [c18s_chunkOut_nil]
    cases closed <;> simp [simpChunkSub, SimpChunk.emits, SimpSub.els, simpChunkDraws, simpSplitGo]
  | cons s r =>
    rw [c18s_chunkOut_cons]
    simp [simpChunkSub, SimpChunk.emits, SimpSub.els]

theorem c18s_chunkSub_wf {fit : List (PathEl K) → List (PathEl K)} (hfit : C18FitSpec fit) (th : K) (c : SimpChunk K)
    (s : SimpSub K) (h : simpChunkSub fit th c = some s) : s.WF := by
  obtain ⟨start, segs, closed⟩ := c
  unfold simpChunkSub at h
  split at h
  · rename_i he
    cases h
    cases segs with
    | nil =>
      refine ⟨by intro e he; simp [simpChunkDraws, simpSplitGo] at he, Or.inr ?_⟩
      simpa [SimpChunk.emits] using he
    | cons a r =>
      obtain ⟨h1, h2, -⟩ := c18s_chunkDraws_spec hfit th (a :: r) (by simp)
      exact ⟨h2, Or.inl h1⟩
  · cases h

theorem c18s_chunks_out_subs (fit : List (PathEl K) → List (PathEl K)) (th : K) (cs : List (SimpChunk K)) :
    (cs.map (simpChunkOut fit th)).flatten = ((cs.filterMap (simpChunkSub fit th)).map SimpSub.els).flatten := by
  induction cs with
  | nil => rfl
  | cons c r ih =>
    rw [List.map_cons, List.flatten_cons, ih, c18s_chunkOut_sub, List.filterMap_cons]
    cases simpChunkSub fit th c with
    | none => rfl
    | some s => rfl

theorem c18s_filterMap_sub_start (fit : List (PathEl K) → List (PathEl K)) (th : K) (cs : List (SimpChunk K)) :
    (cs.filterMap (simpChunkSub fit th)).map SimpSub.start = (cs.filter SimpChunk.emits).map SimpChunk.start := by
  induction cs with
  | nil => rfl
  | cons c r ih =>
    have e : simpChunkSub fit th c =
        if c.emits then some ⟨c.start, simpChunkDraws fit th c.segs, c.closed⟩ else none := rfl
    rw [List.filterMap_cons, List.filter_cons, e]
    cases c.emits with
    | true => simp only [if_true, List.map_cons]; rw [← ih]
    | false => simpa using ih

/-! ### `MoveTo` points and `ClosePath` counts of the output -/

/-- the point of a `MoveTo` -/
def PathEl.simpMovePt : PathEl K → Option (Point K)
  | .MoveTo p => some p
  | _ => none

theorem c18s_draws_no_move (ds : List (PathEl K)) (h : ∀ e ∈ ds, e.simpDraw = true) :
    ds.filterMap PathEl.simpMovePt = [] := by
  induction ds with
  | nil => rfl
  | cons d r ih =>
    have hd : d.simpDraw = true := h d (by simp)
    have : d.simpMovePt = none := by cases d <;> first | rfl | cases hd
    rw [List.filterMap_cons, this]
    exact ih (fun e he => h e (by simp [he]))

theorem c18s_draws_no_close (ds : List (PathEl K)) (h : ∀ e ∈ ds, e.simpDraw = true) :
    ds.countP PathEl.simpClose = 0 := by
  rw [List.countP_eq_zero]
  intro e he
  simp [c18s_draw_not_close (h e he)]

theorem c18s_sub_movePts (s : SimpSub K) (h : s.WF) : s.els.filterMap PathEl.simpMovePt = [s.start] := by
  unfold SimpSub.els
  rw [List.cons_append, List.filterMap_cons]
  simp only [PathEl.simpMovePt, List.filterMap_append, c18s_draws_no_move _ h.1, List.nil_append]
  cases s.closed <;> simp [PathEl.simpMovePt]

theorem c18s_sub_closeCount (s : SimpSub K) (h : s.WF) :
    s.els.countP PathEl.simpClose = if s.closed then 1 else 0 := by
  unfold SimpSub.els
  rw [List.cons_append, List.countP_cons, List.countP_append, c18s_draws_no_close _ h.1]
  cases s.closed <;> simp [PathEl.simpClose]

theorem c18s_subs_movePts (subs : List (SimpSub K)) (h : ∀ s ∈ subs, s.WF) :
    ((subs.map SimpSub.els).flatten).filterMap PathEl.simpMovePt = subs.map SimpSub.start := by
  induction subs with
  | nil => rfl
  | cons s r ih =>
    rw [List.map_cons, List.flatten_cons, List.filterMap_append, c18s_sub_movePts s (h s (by simp)),
      ih (fun x hx => h x (by simp [hx]))]
    rfl

theorem c18s_subs_closeCount (subs : List (SimpSub K)) (h : ∀ s ∈ subs, s.WF) :
    ((subs.map SimpSub.els).flatten).countP PathEl.simpClose = (subs.filter SimpSub.closed).length := by
  induction subs with
  | nil => rfl
  | cons s r ih =>
    rw [List.map_cons, List.flatten_cons, List.countP_append, c18s_sub_closeCount s (h s (by simp)),
      ih (fun x hx => h x (by simp [hx])), List.filter_cons]
    cases s.closed <;> simp <;> omega

theorem c18s_filterMap_sub_closed (fit : List (PathEl K) → List (PathEl K)) (th : K) (cs : List (SimpChunk K)) :
    ((cs.filterMap (simpChunkSub fit th)).filter SimpSub.closed).length = (cs.filter SimpChunk.closed).length := by
  induction cs with
  | nil => rfl
  | cons c r ih =>
    have e : simpChunkSub fit th c =
        if c.emits then some ⟨c.start, simpChunkDraws fit th c.segs, c.closed⟩ else none := rfl
    rw [List.filterMap_cons, List.filter_cons, e]
    cases hc : c.closed with
    | true =>
      have : c.emits = true := by simp [SimpChunk.emits, hc]
      simp only [this, if_true, List.filter_cons, List.length_cons]
      rw [ih]
    | false =>
      cases he : c.emits with
      | true => simp only [if_true, List.filter_cons, Bool.false_eq_true, if_false]; exact ih
      | false => simp only [Bool.false_eq_true, if_false]; exact ih

theorem c18s_replicate_close_count (k : Nat) :
    (List.replicate k (PathEl.ClosePath : PathEl K)).countP PathEl.simpClose = k := by
  induction k with
  | zero => rfl
  | succ n ih => rw [List.replicate_succ, List.countP_cons, ih]; simp [PathEl.simpClose]

theorem c18s_replicate_movePts (k : Nat) :
    (List.replicate k (PathEl.ClosePath : PathEl K)).filterMap PathEl.simpMovePt = [] := by
  induction k with
  | zero => rfl
  | succ n ih => rw [List.replicate_succ, List.filterMap_cons]; simp [PathEl.simpMovePt, ih]

/-! ### no drawing element directly after `ClosePath` -/

/-- checker: no drawing element directly follows a `ClosePath` (`prev` = the element before the list was `ClosePath`) -/
def simpFollowOK : Bool → List (PathEl K) → Bool
  | _, [] => true
  | prev, e :: r => !(prev && e.simpDraw) && simpFollowOK e.simpClose r

theorem c18s_followOK_sound : ∀ (A : List (PathEl K)) (prev : Bool) (out : List (PathEl K)),
    simpFollowOK prev out = true → ∀ e B, out = A ++ PathEl.ClosePath :: e :: B → e.simpDraw = false := by
  intro A
  induction A with
  | nil =>
    intro prev out h e B ho
    subst ho
    simp [simpFollowOK, PathEl.simpClose] at h
    exact h.2.1
  | cons a A' ih =>
    intro prev out h e B ho
    subst ho
    simp only [List.cons_append, simpFollowOK, Bool.and_eq_true] at h
    exact ih _ _ h.2 e B rfl

theorem c18s_followOK_draws (T : List (PathEl K)) :
    ∀ (ds : List (PathEl K)), (∀ e ∈ ds, e.simpDraw = true) → simpFollowOK false (ds ++ T) = simpFollowOK false T := by
  intro ds
  induction ds with
  | nil => intro _; rfl
  | cons d r ih =>
    intro h
    have hd : d.simpDraw = true := h d (by simp)
    simp only [List.cons_append, simpFollowOK, c18s_draw_not_close hd, Bool.false_and, Bool.not_false, Bool.true_and]
    exact ih (fun e he => h e (by simp [he]))

theorem c18s_followOK_sub (s : SimpSub K) (h : s.WF) (Y : List (PathEl K)) (prev : Bool) :
    simpFollowOK prev (s.els ++ Y) = simpFollowOK s.closed Y := by
  unfold SimpSub.els
  simp only [List.cons_append, simpFollowOK, PathEl.simpDraw, PathEl.simpClose, Bool.and_false, Bool.not_false,
    Bool.true_and, List.append_assoc]
  rw [c18s_followOK_draws _ _ h.1]
  cases s.closed <;> simp [simpFollowOK, PathEl.simpDraw, PathEl.simpClose]

theorem c18s_followOK_subs (subs : List (SimpSub K)) (h : ∀ s ∈ subs, s.WF) :
    ∀ prev, simpFollowOK prev ((subs.map SimpSub.els).flatten) = true := by
  induction subs with
  | nil => intro _; rfl
  | cons s r ih =>
    intro prev
    rw [List.map_cons, List.flatten_cons, c18s_followOK_sub s (h s (by simp))]
    exact ih (fun x hx => h x (by simp [hx])) _

theorem c18s_followOK_replicate (Y : List (PathEl K)) (hY : ∀ prev, simpFollowOK prev Y = true) :
    ∀ (k : Nat) prev, simpFollowOK prev (List.replicate k PathEl.ClosePath ++ Y) = true := by
  intro k
  induction k with
  | zero => intro prev; simpa using hY prev
  | succ n ih =>
    intro prev
    rw [List.replicate_succ, List.cons_append]
    simp only [simpFollowOK, PathEl.simpDraw, Bool.and_false, Bool.not_false, Bool.true_and]
    exact ih _

/-! ### the segments of a sub-path: a connected chain made of the non-degenerate drawing elements -/

/-- the segments form a connected chain beginning at `last` (bit for bit: each start point IS the previous end point) -/
def simpChain : Point K → List (PathSeg K) → Prop
  | _, [] => True
  | last, s :: r => s.start = last ∧ simpChain s.end r

theorem c18s_headSegs_chain : ∀ (ds : List (PathEl K)) (last : Point K), simpChain last (simpHeadSegs last ds) := by
  intro ds
  induction ds with
  | nil => intro _; trivial
  | cons d r ih =>
    intro last
    simp only [simpHeadSegs]
    split
    · cases hs : simpElSeg last d with
      | none => exact ih last
      | some s => exact ⟨c18s_elSeg_start hs, ih s.end⟩
    · trivial

theorem c18s_headSegs_sublist : ∀ (ds : List (PathEl K)) (last : Point K),
    ((simpHeadSegs last ds).map PathSeg.drawEl).Sublist ds := by
  intro ds
  induction ds with
  | nil => intro _; exact List.Sublist.slnil
  | cons d r ih =>
    intro last
    simp only [simpHeadSegs]
    split
    · cases hs : simpElSeg last d with
      | none => exact List.Sublist.cons _ (ih last)
      | some s =>
        simp only [List.map_cons, c18s_elSeg_drawEl hs]
        exact List.Sublist.cons_cons _ (ih s.end)
    · exact List.nil_sublist _

/-! ### the queue invariant -/

/-- the queue is empty, or a `MoveTo` followed by at least one drawing element -/
def SimpQueueInv (q : List (PathEl K)) : Prop :=
  q = [] ∨ ∃ p ds, q = .MoveTo p :: ds ∧ ds ≠ [] ∧ ∀ e ∈ ds, e.simpDraw = true

theorem c18s_queueInv_add_seg (s : SimpSt K) (seg : PathSeg K) (h : SimpQueueInv s.queue) :
    SimpQueueInv (s.add_seg seg).queue := by
  right
  rcases h with h | ⟨p, ds, h, -, hd⟩
  · refine ⟨seg.start, [seg.drawEl], by simp [SimpSt.add_seg, h], by simp, ?_⟩
    intro e he; simp at he; subst he; exact c18s_drawEl_draw seg
  · refine ⟨p, ds ++ [seg.drawEl], by simp [SimpSt.add_seg, h], by simp, ?_⟩
    intro e he
    rcases List.mem_append.1 he with h' | h'
    · exact hd e h'
    · simp at h'; subst h'; exact c18s_drawEl_draw seg

theorem c18s_flush_queue (fit : List (PathEl K) → List (PathEl K)) (s : SimpSt K) : (s.flush fit).queue = [] := by
  unfold SimpSt.flush
  split
  · rename_i h; simpa using h
  · rfl

/-- one iteration of the element loop as a state transformer (`none` = panic); `c18s_loop_cons`: the loop IS its iteration -/
def simpStep (fit : List (PathEl K) → List (PathEl K)) (th : K) (l : SimpLoop K) (el : PathEl K) : Option (SimpLoop K) :=
  match el with
  | .MoveTo p =>
    some { l with st := { l.st.flush fit with needs_moveto := true }, last_pt := some p, start_pt := some p, last_seg := none }
  | .ClosePath =>
    let st := l.st.flush fit
    let st := if st.needs_moveto then
        match l.start_pt with
        | some p => { st with result := st.result ++ [.MoveTo p] }
        | none => st
      else st
    let st := { st with result := st.result ++ [.ClosePath], needs_moveto := true }
    some { l with st := st, last_seg := none, last_pt := l.start_pt }
  | el =>
    match l.last_pt with
    | none => none
    | some last =>
      match simpElSeg last el with
      | none => some l
      | some s => some (l.push fit th s)

theorem c18s_loop_cons (fit : List (PathEl K) → List (PathEl K)) (th : K) (l : SimpLoop K) (el : PathEl K)
    (r : List (PathEl K)) :
    simplifyLoop fit th (el :: r) l =
      match simpStep fit th l el with
      | none => .panic
      | some l' => simplifyLoop fit th r l' := by
  cases el with
  | MoveTo p => simp only [simplifyLoop, simpStep]
  | ClosePath => simp only [simplifyLoop]; rfl
  | LineTo p =>
    rw [c18s_loop_draw fit th l r rfl]; simp only [simpStep]
    cases l.last_pt with
    | none => rfl
    | some last => simp only []; cases simpElSeg last (PathEl.LineTo p) <;> rfl
  | QuadTo p1 p2 =>
    rw [c18s_loop_draw fit th l r rfl]; simp only [simpStep]
    cases l.last_pt with
    | none => rfl
    | some last => simp only []; cases simpElSeg last (PathEl.QuadTo p1 p2) <;> rfl
  | CurveTo p1 p2 p3 =>
    rw [c18s_loop_draw fit th l r rfl]; simp only [simpStep]
    cases l.last_pt with
    | none => rfl
    | some last => simp only []; cases simpElSeg last (PathEl.CurveTo p1 p2 p3) <;> rfl

/-! ### corners and single segments inside one sub-path -/

theorem c18s_split_snoc_corner (th : K) (A : List (PathSeg K)) (s : PathSeg K)
    (hA : ∀ a, A.getLast? = some a → simpCorner th a s = true) :
    simpSplitGo th [] (A ++ [s]) = simpSplitGo th [] A ++ [[s]] := by
  cases hl : A.getLast? with
  | none =>
    have : A = [] := List.getLast?_eq_none_iff.1 hl
    subst this; simp [simpSplitGo]
  | some a =>
    rw [c18s_split_append_corner th s [] A [] a (by simpa using hl) (hA a hl)]
    simp [simpSplitGo]

theorem c18s_split_single (th : K) (A : List (PathSeg K)) (s : PathSeg K) (B : List (PathSeg K))
    (hA : ∀ a, A.getLast? = some a → simpCorner th a s = true)
    (hB : ∀ b, B.head? = some b → simpCorner th s b = true) :
    simpSplitGo th [] (A ++ s :: B) = simpSplitGo th [] A ++ [s] :: simpSplitGo th [] B := by
  cases B with
  | nil => rw [c18s_split_snoc_corner th A s hA]; simp [simpSplitGo]
  | cons b B' =>
    have e : A ++ s :: b :: B' = (A ++ [s]) ++ b :: B' := by simp
    rw [e, c18s_split_append_corner th b B' (A ++ [s]) [] s (by simp) (hB b rfl), c18s_split_snoc_corner th A s hA]
    simp

theorem c18s_corner_vertex_chunk {fit : List (PathEl K) → List (PathEl K)} (hfit : C18FitSpec fit) (th : K)
    (segs A : List (PathSeg K)) (s s' : PathSeg K) (B : List (PathSeg K)) (h : segs = A ++ s :: s' :: B)
    (hc : simpCorner th s s' = true) :
    ∃ e ∈ simpChunkDraws fit th segs, e.end_point = some s.end := by
  have e1 : segs = (A ++ [s]) ++ s' :: B := by simp [h]
  have hsplit := c18s_split_append_corner th s' B (A ++ [s]) [] s (by simp) hc
  obtain ⟨g, h1, h2⟩ := c18s_split_getLast th (A ++ [s]) [] (by simp)
  have hgm : g ∈ simpSplitGo th [] (A ++ [s]) := List.mem_of_getLast? h1
  have hg : g ≠ [] := c18s_split_ne th _ [] g hgm
  obtain ⟨o1, -, o3⟩ := c18s_stretchOut_spec hfit g hg
  have h2' : g.getLast? = some s := by rw [h2]; simp
  rw [h2'] at o3
  unfold simpLastEnd at o3
  cases hl : (simpStretchOut fit g).getLast? with
  | none => exact absurd (List.getLast?_eq_none_iff.1 hl) o1
  | some x =>
    rw [hl] at o3
    refine ⟨x, ?_, by simpa using o3⟩
    unfold simpChunkDraws
    rw [e1, hsplit]
    refine List.mem_flatten.2 ⟨simpStretchOut fit g, ?_, List.mem_of_getLast? hl⟩
    exact List.mem_map.2 ⟨g, by simp [hgm], rfl⟩

theorem c18s_chunkDraws_mem_out (fit : List (PathEl K) → List (PathEl K)) (th : K) (c : SimpChunk K) (e : PathEl K)
    (he : e ∈ simpChunkDraws fit th c.segs) : e ∈ simpChunkOut fit th c := by
  obtain ⟨start, segs, closed⟩ := c
  cases segs with
  | nil => simp [simpChunkDraws, simpSplitGo] at he
  | cons a r =>
    rw [c18s_chunkOut_cons]
    simp only [List.cons_append, List.mem_cons, List.mem_append]
    exact Or.inr (Or.inl he)

theorem c18s_flatten_map_mem {α β : Type} (f : α → List β) (cs : List α) (c : α) (hc : c ∈ cs) :
    ∃ X Y, (cs.map f).flatten = X ++ f c ++ Y := by
  obtain ⟨s, t, rfl⟩ := List.append_of_mem hc
  exact ⟨(s.map f).flatten, (t.map f).flatten, by simp⟩

/-! ### leading `ClosePath`s, continued -/

theorem c18s_lead_replicate (X : List (PathEl K)) (hX : simpLead X = 0) :
    ∀ k : Nat, simpLead (List.replicate k PathEl.ClosePath ++ X) = k ∧
      (List.replicate k PathEl.ClosePath ++ X).drop k = X := by
  intro k
  induction k with
  | zero => exact ⟨by simpa using hX, by simp⟩
  | succ n ih =>
    rw [List.replicate_succ, List.cons_append]
    exact ⟨by simp only [simpLead, ih.1], by simp [ih.2]⟩

end Kurbo
