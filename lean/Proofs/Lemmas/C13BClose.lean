import Proofs.Lemmas.C13BFrame
/-! C13B: the iterator followed to the `ClosePath` of a closed polyline sub-path.
    * `c13b_working_closeB` / `c13b_working_closeA`: from a `Working` state (first dash over) on the closing line / with
      `LineTo`s and the `ClosePath` still in the input;
    * `c13b_stash_closeB` / `c13b_stash_closeA`: the same from a `ToStash` state (first dash still under way). -/
set_option linter.unusedSectionVars false
namespace Kurbo
open DashSpec
variable {K : Type} [Field K] [LinearOrder K] [IsStrictOrderedRing K] [FloorRing K] [Scalar K] [LawfulScalar K]

/-- `sF` is the state right after `handle_closepath`, at the end of a closed sub-path that was being followed in `s`;
    `rest` = the input after the `ClosePath` -/
structure c13b_Closed (s sF : DashIt K) (rest : List (PathEl K)) : Prop where
  state : sF.state = .FromStash
  cp : sF.closepath_pending = true
  done : sF.input_done = s.input_done
  inner : sF.inner = rest
  phase : sF.PhaseInit
  init : s.SameInit sF

/-! ### inverting the specification's walk -/
section
omit [FloorRing K] [Scalar K] [LawfulScalar K]

theorem c13b_onPart_zero (act : Bool) : onPart act (0 : K) = 0 := by
  unfold onPart; cases act <;> simp

theorem c13b_walk_end_inv (n : Nat) (pat : Nat → K) (f : Nat) (ph ph' : Ph K) (x o : K) (hnlt : ¬ ph.rem < x)
    (h : walk n pat f ph x = some (o, ph')) : o = onPart ph.act x ∧ ph' = { ph with rem := ph.rem - x } ∧ 0 < f := by
  cases f with
  | zero => simp [walk] at h
  | succ f =>
    unfold walk at h
    rw [if_neg hnlt] at h
    simp only [Option.some.injEq, Prod.mk.injEq] at h
    exact ⟨h.1.symm, h.2.symm, Nat.succ_pos _⟩

theorem c13b_walk_switch_inv (n : Nat) (pat : Nat → K) (f : Nat) (ph ph' : Ph K) (x o : K) (hlt : ph.rem < x)
    (h : walk n pat f ph x = some (o, ph')) :
    ∃ f' o1, f = f' + 1 ∧ walk n pat f' (ph.next n pat) (x - ph.rem) = some (o1, ph') ∧ o = onPart ph.act ph.rem + o1 := by
  cases f with
  | zero => simp [walk] at h
  | succ f =>
    unfold walk at h
    rw [if_pos hlt] at h
    cases hc : walk n pat f (ph.next n pat) (x - ph.rem) with
    | none => rw [hc] at h; simp at h
    | some q =>
      obtain ⟨o1, ph1⟩ := q
      rw [hc] at h
      simp only [Option.some.injEq, Prod.mk.injEq] at h
      obtain ⟨ho, hp⟩ := h
      subst hp
      exact ⟨f, o1, rfl, hc, ho.symm⟩

theorem c13b_walkList_cons_inv (n : Nat) (pat : Nat → K) (f : Nat) (ph ph' : Ph K) (x o : K) (ls : List K)
    (h : walkList n pat f ph (x :: ls) = some (o, ph')) :
    ∃ o1 ph1 o2, walk n pat f ph x = some (o1, ph1) ∧ walkList n pat f ph1 ls = some (o2, ph') ∧ o = o1 + o2 := by
  unfold walkList at h
  cases hc : walk n pat f ph x with
  | none => rw [hc] at h; simp at h
  | some q =>
    obtain ⟨o1, ph1⟩ := q
    rw [hc] at h
    simp only at h
    cases hc2 : walkList n pat f ph1 ls with
    | none => rw [hc2] at h; simp at h
    | some q2 =>
      obtain ⟨o2, ph2⟩ := q2
      rw [hc2] at h
      simp only [Option.some.injEq, Prod.mk.injEq] at h
      obtain ⟨ho, hp⟩ := h
      subst hp
      exact ⟨o1, ph1, o2, rfl, hc2, ho.symm⟩

theorem c13b_walkList_cons (n : Nat) (pat : Nat → K) (f : Nat) (ph ph1 ph' : Ph K) (x o1 o2 : K) (ls : List K)
    (h1 : walk n pat f ph x = some (o1, ph1)) (h2 : walkList n pat f ph1 ls = some (o2, ph')) :
    walkList n pat f ph (x :: ls) = some (o1 + o2, ph') := by
  rw [walkList, h1]
  simp only [h2]

/-- the current entry ends inside the first stretch: one switch further -/
theorem c13b_walkList_switch_inv (n : Nat) (pat : Nat → K) (f : Nat) (ph ph' : Ph K) (x o : K) (ls : List K)
    (hlt : ph.rem < x) (h : walkList n pat f ph (x :: ls) = some (o, ph')) :
    ∃ o1, walkList n pat f (ph.next n pat) ((x - ph.rem) :: ls) = some (o1, ph') ∧ o = onPart ph.act ph.rem + o1 := by
  obtain ⟨o1, ph1, o2, e1, e2, e3⟩ := c13b_walkList_cons_inv n pat f ph ph' x o ls h
  obtain ⟨f', o1', rfl, e4, e5⟩ := c13b_walk_switch_inv n pat f ph ph1 x o1 hlt e1
  refine ⟨o1' + o2, c13b_walkList_cons n pat _ _ ph1 ph' _ o1' o2 ls (walk_mono n pat f' 1 _ _ _ e4) e2, ?_⟩
  rw [e3, e5, add_assoc]

/-- the first stretch ends inside the current entry -/
theorem c13b_walkList_end_inv (n : Nat) (pat : Nat → K) (f : Nat) (ph ph' : Ph K) (x o : K) (ls : List K)
    (hnlt : ¬ ph.rem < x) (h : walkList n pat f ph (x :: ls) = some (o, ph')) :
    ∃ o2, walkList n pat f { ph with rem := ph.rem - x } ls = some (o2, ph') ∧ o = onPart ph.act x + o2 ∧ 0 < f := by
  obtain ⟨o1, ph1, o2, e1, e2, e3⟩ := c13b_walkList_cons_inv n pat f ph ph' x o ls h
  obtain ⟨a1, a2, a3⟩ := c13b_walk_end_inv n pat f ph ph1 x o1 hnlt e1
  subst a2
  exact ⟨o2, e2, by rw [e3, a1], a3⟩
end

variable [LawfulHypotSq K]

theorem c13b_line_arclen_self (p : Point K) (a : K) : (Line.mk p p).arclen a = 0 := by
  have h1 := line_eval_dist (Line.mk p p) 0 0 a le_rfl
  have h0 := line_arclen_nonneg (Line.mk p p) a
  have h2 : ((Line.mk p p).arclen a) ^ 2 = 0 := by
    simp only [Line.arclen, Vec2.hypot, kdefs, scalar_norm]
    rw [LawfulHypotSq.hypot_sq]
    ring
  exact pow_eq_zero_iff (two_ne_zero) |>.mp h2

/-! ### the `Working` part, up to `handle_closepath` -/

/-- **On the closing line** (`closepath_pending`), state `Working`: a chain of `step`s dashes the rest of the line, the last
    of them runs `handle_closepath`.  `ph'` = the specification's position at the closing point: if it is on, playback of
    the stash starts at index 1 and the last element emitted is `LineTo` the closing point. -/
theorem c13b_working_closeB (l : Line K) (L : K) (f : Nat) (s : DashIt K) (o : K) (ph' : Ph K)
    (hpat : ∀ i, 0 ≤ cyc s.dashes i) (hon : OnLine s l L) (hcp : s.closepath_pending = true)
    (hw : walk s.dashes.size (cyc s.dashes) f s.ph s.seg_remaining = some (o, ph')) :
    ∃ E sF, Steps s E sF ∧ c13b_Closed s sF s.inner ∧ sF.stash = s.stash ∧
      sF.stash_ix = (if ph'.act then 1 else s.stash_ix) ∧
      ∀ pen, (s.is_active = true → pen = l.eval s.t) →
        drawnLen pen E = o ∧ (ph'.act = true → c13_penAfter pen E = l.p1 ∧ ∃ E', E = E' ++ [.LineTo l.p1]) := by
  obtain ⟨outs, s₁, h1, hon1, hd1, hn1, hph, hin1, haux, hdraw⟩ := seg_sim l L f s o ph' hpat hon hw
  have hst : (s₁.state == .ToStash && s₁.stash.isEmpty) = false := by rw [hon1.working]; rfl
  have hstep := step_line_end_working s₁ l hon1.seg hst (by rw [hon1.working]; decide) hn1
  rw [c13b_get_input_pending _ (by show s₁.closepath_pending = true; exact haux.1.trans hcp),
    c13b_handle_working _ (by show s₁.state = .Working; exact hon1.working)] at hstep
  have hsteps : Steps s (outs ++ finEl s₁ l) _ := h1.trans (by rw [← finEl_eq]; exact Steps.single hon1.working hstep)
  have hinit := c13b_steps_sameInit h1
  refine ⟨_, _, hsteps, ⟨rfl, haux.1.trans hcp, haux.2.2.2, hin1, ⟨rfl, rfl, rfl⟩, hinit⟩, haux.2.1, ?_, ?_⟩
  · subst hph
    show (if s₁.is_active then 1 else s₁.stash_ix) = if s₁.is_active then 1 else s.stash_ix
    rw [haux.2.2.1]
  · intro pen hpen
    obtain ⟨d1, d2⟩ := hdraw pen hpen
    refine ⟨d1, fun ha => ?_⟩
    have ha1 : s₁.is_active = true := by subst hph; exact ha
    refine ⟨d2 ha1, outs, ?_⟩
    rw [finEl, if_pos ha1]

/-- **With `LineTo`s and the `ClosePath` still ahead**, state `Working`: the specification walks the rest of the current
    segment, the further segments and the closing line (of length 0 if the sub-path ends at its start). -/
theorem c13b_working_closeA (pts : List (Point K)) (rest : List (PathEl K)) (l : Line K) (L : K) (f : Nat) (s : DashIt K)
    (o : K) (ph' : Ph K) (hpat : ∀ i, 0 ≤ cyc s.dashes i) (hon : OnLine s l L) (hcp : s.closepath_pending = false)
    (hin : s.inner = pts.map .LineTo ++ .ClosePath :: rest)
    (hw : walkList s.dashes.size (cyc s.dashes) f s.ph (s.seg_remaining :: polyLens s.last_pt (pts ++ [s.start_pt]))
      = some (o, ph')) :
    ∃ E sF, Steps s E sF ∧ c13b_Closed s sF rest ∧ sF.stash = s.stash ∧
      sF.stash_ix = (if ph'.act then 1 else s.stash_ix) ∧
      ∀ pen, (s.is_active = true → pen = l.eval s.t) →
        drawnLen pen E = o ∧
          (ph'.act = true → c13_penAfter pen E = s.start_pt ∧ ∃ E', E = E' ++ [.LineTo s.start_pt]) := by
  rw [c13b_polyLens_snoc, ← List.cons_append] at hw
  obtain ⟨o1, ph1, o2, e1, e2, e3⟩ := c13b_walkList_append _ _ _ _ _ _ _ _ hw
  have e2' := c13b_walkList_single _ _ _ _ _ _ _ e2
  obtain ⟨outs, s₁, l₁, L₁, h1, hon1, hd1, hn1, hph, hin1, haux, hdraw⟩ :=
    polyline_sim pts (.ClosePath :: rest) l L f s o1 ph1 hpat hon hcp hin e1
  obtain ⟨fr1, fr2⟩ := c13b_steps_frame h1 pts (.ClosePath :: rest) hcp (by simp) hin hin1
  have hinit := c13b_steps_sameInit h1
  have hst : (s₁.state == .ToStash && s₁.stash.isEmpty) = false := by rw [hon1.working]; rfl
  have hstep := step_line_end_working s₁ l₁ hon1.seg hst (by rw [hon1.working]; decide) hn1
  have hcp1 : s₁.closepath_pending = false := haux.1.trans hcp
  rw [← fr2, ← fr1] at e2'
  by_cases heq : s₁.last_pt = s₁.start_pt
  · -- the sub-path ends at its start: closed at once; the specification's closing line has length 0
    rw [c13b_get_input_close_eq ({ s₁ with dash_remaining := s₁.dash_remaining - s₁.seg_remaining } : DashIt K) rest
      hcp1 hin1 heq, c13b_handle_working _ (by show s₁.state = .Working; exact hon1.working)] at hstep
    rw [heq, c13b_line_arclen_self] at e2'
    have hr1 : ¬ ph1.rem < 0 := by
      subst hph
      show ¬ s₁.dash_remaining - s₁.seg_remaining < 0
      have := not_lt.mp hn1
      linarith
    obtain ⟨a1, a2, -⟩ := c13b_walk_end_inv _ _ _ _ _ _ _ hr1 e2'
    rw [c13b_onPart_zero] at a1
    have hact : ph'.act = s₁.is_active := by rw [a2]; subst hph; rfl
    have hsteps : Steps s (outs ++ finEl s₁ l₁) _ :=
      h1.trans (by rw [← finEl_eq]; exact Steps.single hon1.working hstep)
    refine ⟨_, _, hsteps, ⟨rfl, rfl, haux.2.2.2, rfl, ⟨rfl, rfl, rfl⟩, hinit⟩, haux.2.1, ?_, ?_⟩
    · rw [hact]
      show (if s₁.is_active then 1 else s₁.stash_ix) = if s₁.is_active then 1 else s.stash_ix
      rw [haux.2.2.1]
    · intro pen hpen
      obtain ⟨d1, d2⟩ := hdraw pen hpen
      refine ⟨by rw [d1, e3, a1, add_zero], fun ha => ?_⟩
      have ha1 : s₁.is_active = true := by rw [← hact]; exact ha
      have hp1 : l₁.p1 = s.start_pt := by rw [← hon1.last, heq, fr1]
      refine ⟨by rw [d2 ha1, hp1], outs, ?_⟩
      rw [finEl, if_pos ha1, hp1]
  · -- the closing line is loaded and dashed
    rw [c13b_get_input_close_ne ({ s₁ with dash_remaining := s₁.dash_remaining - s₁.seg_remaining } : DashIt K) rest
      hcp1 hin1 heq] at hstep
    obtain ⟨s₂, hs2⟩ : ∃ s₂ : DashIt K, s₂ = ({ s₁ with dash_remaining := s₁.dash_remaining - s₁.seg_remaining }
      : DashIt K).c13b_loadClose rest := ⟨_, rfl⟩
    rw [← hs2] at hstep
    have hon2 : OnLine s₂ ⟨s₁.last_pt, s₁.start_pt⟩ ((Line.mk s₁.last_pt s₁.start_pt).arclen 0) := by
      subst hs2
      exact ⟨rfl, rfl, zero_lt_one, by simp [DashIt.c13b_loadClose], hon1.working, hon1.ix,
        sub_nonneg.mpr (not_lt.mp hn1), rfl⟩
    have hd2 : s₂.dashes = s.dashes := by subst hs2; exact hd1
    have hph2 : s₂.ph = ph1 := by subst hs2; exact hph.symm
    have hsr2 : s₂.seg_remaining = (Line.mk s₁.last_pt s₁.start_pt).arclen 0 := by subst hs2; rfl
    have hw2 : walk s₂.dashes.size (cyc s₂.dashes) f s₂.ph s₂.seg_remaining = some (o2, ph') := by
      rw [hd2, hph2, hsr2]; exact e2'
    obtain ⟨E₂, sF, g1, g2, g3, g4, g5⟩ := c13b_working_closeB _ _ f s₂ o2 ph' (by rw [hd2]; exact hpat) hon2
      (by subst hs2; rfl) hw2
    have hsteps : Steps s (outs ++ finEl s₁ l₁ ++ E₂) sF :=
      (h1.trans (by rw [← finEl_eq]; exact Steps.single hon1.working hstep)).trans g1
    have hact2 : s₂.is_active = s₁.is_active := by subst hs2; rfl
    have ht2 : s₂.t = 0 := by subst hs2; rfl
    refine ⟨_, sF, hsteps, ⟨g2.state, g2.cp, ?_, ?_, g2.phase, ?_⟩, ?_, ?_, ?_⟩
    · rw [g2.done]; subst hs2; exact haux.2.2.2
    · rw [g2.inner]; subst hs2; rfl
    · refine DashIt.SameInit.trans (DashIt.SameInit.trans hinit ?_) g2.init
      subst hs2; exact ⟨rfl, rfl, rfl, rfl⟩
    · rw [g3]; subst hs2; exact haux.2.1
    · rw [g4]; subst hs2
      show (if ph'.act then 1 else s₁.stash_ix) = _
      rw [haux.2.2.1]
    · intro pen hpen
      obtain ⟨d1, d2⟩ := hdraw pen hpen
      obtain ⟨d3, d4⟩ := g5 (c13_penAfter pen (outs ++ finEl s₁ l₁)) (by
        intro ha
        rw [d2 (hact2 ▸ ha), ht2, (line_eval_zero_one _).1, ← hon1.last])
      refine ⟨by rw [drawnLen_append, d1, d3, e3], fun ha => ?_⟩
      obtain ⟨d5, E', d6⟩ := d4 ha
      refine ⟨by rw [penAfter_append, d5, fr1], outs ++ finEl s₁ l₁ ++ E', ?_⟩
      rw [d6, fr1]
      simp only [List.append_assoc]

/-! ### the first dash (state `ToStash`) -/

/-- the state after the first dash ended inside the current segment: the `LineTo` to the switch point went to the stash -/
def DashIt.c13b_sw (s : DashIt K) (l : Line K) (L : K) : DashIt K :=
  { s.switched L with stash := s.stash.push (.LineTo (l.eval (s.t + s.dash_remaining / L))) }

/-- the first dash ends inside the current segment -/
theorem c13b_stash_switch (l : Line K) (L : K) (s : DashIt K) (hpat : ∀ i, 0 ≤ cyc s.dashes i) (hon : OnLineS s l L)
    (hlt : s.dash_remaining < s.seg_remaining) :
    (∀ (n fuel : Nat) (acc : List (PathEl K)), collectFrom n (fuel + 1) s acc = collectFrom n fuel (s.c13b_sw l L) acc) ∧
    OnLine (s.c13b_sw l L) l L ∧ (s.c13b_sw l L).is_active = false ∧
    (s.c13b_sw l L).ph = s.ph.next s.dashes.size (cyc s.dashes) ∧
    (l.eval (s.t + s.dash_remaining / L) - l.eval s.t).hypot = s.dash_remaining := by
  have honW := hon.toWorking
  have hLpos : 0 < L := honW.len_pos hlt
  have hst : (s.state == .ToStash && s.stash.isEmpty) = false := by rw [hon.stashing, hon.nonempty]; rfl
  have hstep := step_line_switch s l L hon.seg hon.len hLpos hon.t_lt hst hon.ix hlt
  have hel : (if s.is_active = true then PathEl.LineTo (l.eval (s.t + s.dash_remaining / L))
      else PathEl.MoveTo (l.eval (s.t + s.dash_remaining / L))) = PathEl.LineTo (l.eval (s.t + s.dash_remaining / L)) := by
    rw [hon.active]; rfl
  rw [hel] at hstep
  have h2 := honW.switched hpat hlt
  refine ⟨fun n fuel acc => collect_stash_some n fuel s (s.switched L) _ acc hon.stashing hstep, ?_, ?_, ?_, ?_⟩
  · refine ⟨h2.seg, h2.len, h2.t_lt, h2.rem, ?_, h2.ix, h2.dash_nonneg, h2.last⟩
    show (if s.is_active then DashState.Working else s.state) = .Working
    rw [hon.active]; rfl
  · show (!s.is_active) = false
    rw [hon.active]; rfl
  · simp only [DashIt.c13b_sw, DashIt.switched, DashIt.ph, Ph.next, cyc, Nat.mod_mod]
  · have htle : s.t ≤ s.t + s.dash_remaining / L := by
      have := div_nonneg hon.dash_nonneg hLpos.le
      linarith
    rw [line_eval_dist l _ _ 0 htle, hon.len]
    field_simp
    ring

/-- **First dash on the closing line** (`closepath_pending`, state `ToStash`).  `collect()` reaches the state `sF` right
    after `handle_closepath`; `N` = what the first dash still adds to the stash, `E` = what is emitted after it.
    If the first dash ends before the closing point (`dash_remaining < seg_remaining`), playback starts at index 1 iff the
    pattern is on at the closing point; otherwise the whole stash is played back and `N = [LineTo p, ClosePath]` –
    the last `LineTo` is pushed to the stash before `get_input` appends the `ClosePath`. -/
theorem c13b_stash_closeB (l : Line K) (L : K) (f : Nat) (s : DashIt K) (o : K) (ph' : Ph K)
    (hpat : ∀ i, 0 ≤ cyc s.dashes i) (hon : OnLineS s l L) (hcp : s.closepath_pending = true) (hix : s.stash_ix = 0)
    (hw : walk s.dashes.size (cyc s.dashes) f s.ph s.seg_remaining = some (o, ph'))
    (n fuel : Nat) (acc out : List (PathEl K)) (hc : collectFrom n fuel s acc = .ok out) :
    ∃ n' fuel' sF N E, collectFrom n' fuel' sF (E.reverse ++ acc) = .ok out ∧ c13b_Closed s sF s.inner ∧
      sF.stash.toList = s.stash.toList ++ N ∧ (∀ pen, drawnLen (l.eval s.t) N + drawnLen pen E = o) ∧
      (s.dash_remaining < s.seg_remaining → sF.stash_ix = (if ph'.act then 1 else 0) ∧
        (∀ el ∈ N, ∃ p, el = PathEl.LineTo p) ∧
        (ph'.act = true → (∀ pen, c13_penAfter pen E = l.p1) ∧ ∃ E', E = E' ++ [.LineTo l.p1]) ∧
        drawnLen (l.eval s.t) N = s.dash_remaining) ∧
      (¬ s.dash_remaining < s.seg_remaining → sF.stash_ix = 0 ∧ E = [] ∧ N = [.LineTo l.p1, .ClosePath]) := by
  cases fuel with
  | zero => exact absurd hc (collectFrom_zero _ _ _ _)
  | succ fuel =>
    by_cases hlt : s.dash_remaining < s.seg_remaining
    · obtain ⟨c1, c2, c3, c4, c5⟩ := c13b_stash_switch l L s hpat hon hlt
      rw [c1] at hc
      obtain ⟨f', o1, rfl, w1, w2⟩ := c13b_walk_switch_inv _ _ _ _ _ _ _ (show s.ph.rem < s.seg_remaining from hlt) hw
      obtain ⟨E, sF, g1, g2, g3, g4, g5⟩ := c13b_working_closeB l L f' (s.c13b_sw l L) o1 ph' hpat c2 hcp
        (by rw [c4]; exact w1)
      obtain ⟨n', fuel', hc'⟩ := collect_steps g1 n fuel acc out hc
      refine ⟨n', fuel', sF, [.LineTo (l.eval (s.t + s.dash_remaining / L))], E, hc',
        ⟨g2.state, g2.cp, g2.done, g2.inner, g2.phase, DashIt.SameInit.trans ⟨rfl, rfl, rfl, rfl⟩ g2.init⟩, ?_, ?_, ?_, ?_⟩
      · rw [g3]; simp [DashIt.c13b_sw]
      · intro pen
        have := (g5 pen (fun h => by rw [c3] at h; cases h)).1
        simp only [drawnLen, add_zero]
        rw [c5, this, w2]
        simp only [onPart, DashIt.ph, hon.active, if_true]
      · intro _
        refine ⟨by rw [g4]; show (if ph'.act then 1 else s.stash_ix) = _; rw [hix], ?_, ?_, ?_⟩
        · intro el hel
          rw [List.mem_singleton] at hel
          exact ⟨_, hel⟩
        · intro ha
          refine ⟨fun pen => ((g5 pen (fun h => by rw [c3] at h; cases h)).2 ha).1, ?_⟩
          exact ((g5 (l.eval s.t) (fun h => by rw [c3] at h; cases h)).2 ha).2
        · simp only [drawnLen, add_zero]
          exact c5
      · intro h; exact absurd hlt h
    · have hst : (s.state == .ToStash && s.stash.isEmpty) = false := by rw [hon.stashing, hon.nonempty]; rfl
      have hstep := step_line_end_stash s l hon.seg hst hon.stashing hon.active hlt
      rw [c13b_get_input_pending _ (by show s.closepath_pending = true; exact hcp),
        c13b_handle_toStash _ (by show s.state = .ToStash; exact hon.stashing)] at hstep
      rw [collect_stash_none n fuel s _ acc hon.stashing hstep] at hc
      obtain ⟨a1, -, -⟩ := c13b_walk_end_inv _ _ _ _ _ _ _ (show ¬ s.ph.rem < s.seg_remaining from hlt) hw
      refine ⟨n, fuel, _, [.LineTo l.p1, .ClosePath], [], hc,
        ⟨rfl, hcp, rfl, rfl, ⟨rfl, rfl, rfl⟩, ⟨rfl, rfl, rfl, rfl⟩⟩, ?_, ?_, ?_, ?_⟩
      · simp [DashIt.c13b_closedS]
      · intro pen
        simp only [drawnLen, add_zero]
        rw [hon.dist_end, a1]
        simp only [onPart, DashIt.ph, hon.active, if_true]
      · intro h; exact absurd h hlt
      · intro _; exact ⟨hix, rfl, rfl⟩

/-- what the first dash adds to the stash when the whole closed sub-path lies inside it: the remaining `LineTo`s, the
    closing line if the sub-path does not end at its start, and the `ClosePath` LAST (`p` = end of the current segment, then
    the remaining vertices) -/
def c13b_wholeN (start : Point K) : Point K → List (Point K) → List (PathEl K)
  | p, [] => if p.peq start then [.LineTo p, .ClosePath] else [.LineTo p, .LineTo start, .ClosePath]
  | p, q :: r => .LineTo p :: c13b_wholeN start q r

/-- the first dash ends inside the current segment, `LineTo`s and the `ClosePath` still ahead -/
theorem c13b_stash_switchA (pts : List (Point K)) (rest : List (PathEl K)) (l : Line K) (L : K) (f : Nat)
    (s : DashIt K) (o : K) (ph' : Ph K)
    (hpat : ∀ i, 0 ≤ cyc s.dashes i) (hon : OnLineS s l L) (hcp : s.closepath_pending = false) (hix : s.stash_ix = 0)
    (hin : s.inner = pts.map .LineTo ++ .ClosePath :: rest)
    (hw : walkList s.dashes.size (cyc s.dashes) f s.ph (s.seg_remaining :: polyLens s.last_pt (pts ++ [s.start_pt]))
      = some (o, ph'))
    (hlt : s.dash_remaining < s.seg_remaining)
    (n fuel : Nat) (acc out : List (PathEl K)) (hc : collectFrom n fuel s acc = .ok out) :
    ∃ n' fuel' sF N E, collectFrom n' fuel' sF (E.reverse ++ acc) = .ok out ∧ c13b_Closed s sF rest ∧
      sF.stash.toList = s.stash.toList ++ N ∧ (∀ pen, drawnLen (l.eval s.t) N + drawnLen pen E = o) ∧
      (s.dash_remaining < s.seg_remaining + (polyLens s.last_pt (pts ++ [s.start_pt])).sum →
        sF.stash_ix = (if ph'.act then 1 else 0) ∧ (∀ el ∈ N, ∃ p, el = PathEl.LineTo p) ∧
        (ph'.act = true → (∀ pen, c13_penAfter pen E = s.start_pt) ∧ ∃ E', E = E' ++ [.LineTo s.start_pt]) ∧
        drawnLen (l.eval s.t) N = s.dash_remaining) ∧
      (¬ s.dash_remaining < s.seg_remaining + (polyLens s.last_pt (pts ++ [s.start_pt])).sum →
        sF.stash_ix = 0 ∧ E = [] ∧ N = c13b_wholeN s.start_pt l.p1 pts) := by
  cases fuel with
  | zero => exact absurd hc (collectFrom_zero _ _ _ _)
  | succ fuel =>
    obtain ⟨c1, c2, c3, c4, c5⟩ := c13b_stash_switch l L s hpat hon hlt
    rw [c1] at hc
    obtain ⟨o1, w1, w2⟩ := c13b_walkList_switch_inv _ _ _ _ _ _ _ _ (show s.ph.rem < s.seg_remaining from hlt) hw
    obtain ⟨E, sF, g1, g2, g3, g4, g5⟩ := c13b_working_closeA pts rest l L f (s.c13b_sw l L) o1 ph' hpat c2 hcp hin
      (by rw [c4]; exact w1)
    obtain ⟨n', fuel', hc'⟩ := collect_steps g1 n fuel acc out hc
    have hsum : 0 ≤ (polyLens s.last_pt (pts ++ [s.start_pt])).sum := List.sum_nonneg (polyLens_nonneg _ _)
    refine ⟨n', fuel', sF, [.LineTo (l.eval (s.t + s.dash_remaining / L))], E, hc',
      ⟨g2.state, g2.cp, g2.done, g2.inner, g2.phase, DashIt.SameInit.trans ⟨rfl, rfl, rfl, rfl⟩ g2.init⟩, ?_, ?_, ?_, ?_⟩
    · rw [g3]; simp [DashIt.c13b_sw]
    · intro pen
      have := (g5 pen (fun h => by rw [c3] at h; cases h)).1
      simp only [drawnLen, add_zero]
      rw [c5, this, w2]
      simp only [onPart, DashIt.ph, hon.active, if_true]
    · intro _
      refine ⟨by rw [g4]; show (if ph'.act then 1 else s.stash_ix) = _; rw [hix], ?_, ?_, ?_⟩
      · intro el hel
        rw [List.mem_singleton] at hel
        exact ⟨_, hel⟩
      · intro ha
        refine ⟨fun pen => ((g5 pen (fun h => by rw [c3] at h; cases h)).2 ha).1, ?_⟩
        exact ((g5 (l.eval s.t) (fun h => by rw [c3] at h; cases h)).2 ha).2
      · simp only [drawnLen, add_zero]
        exact c5
    · intro h
      exact absurd (by linarith) h

/-- **First dash with `LineTo`s and the `ClosePath` still ahead** (state `ToStash`). -/
theorem c13b_stash_closeA : ∀ (pts : List (Point K)) (rest : List (PathEl K)) (l : Line K) (L : K) (f : Nat)
    (s : DashIt K) (o : K) (ph' : Ph K),
    (∀ i, 0 ≤ cyc s.dashes i) → OnLineS s l L → s.closepath_pending = false → s.stash_ix = 0 →
    s.inner = pts.map .LineTo ++ .ClosePath :: rest →
    walkList s.dashes.size (cyc s.dashes) f s.ph (s.seg_remaining :: polyLens s.last_pt (pts ++ [s.start_pt]))
      = some (o, ph') →
    ∀ (n fuel : Nat) (acc out : List (PathEl K)), collectFrom n fuel s acc = .ok out →
    ∃ n' fuel' sF N E, collectFrom n' fuel' sF (E.reverse ++ acc) = .ok out ∧ c13b_Closed s sF rest ∧
      sF.stash.toList = s.stash.toList ++ N ∧ (∀ pen, drawnLen (l.eval s.t) N + drawnLen pen E = o) ∧
      (s.dash_remaining < s.seg_remaining + (polyLens s.last_pt (pts ++ [s.start_pt])).sum →
        sF.stash_ix = (if ph'.act then 1 else 0) ∧ (∀ el ∈ N, ∃ p, el = PathEl.LineTo p) ∧
        (ph'.act = true → (∀ pen, c13_penAfter pen E = s.start_pt) ∧ ∃ E', E = E' ++ [.LineTo s.start_pt]) ∧
        drawnLen (l.eval s.t) N = s.dash_remaining) ∧
      (¬ s.dash_remaining < s.seg_remaining + (polyLens s.last_pt (pts ++ [s.start_pt])).sum →
        sF.stash_ix = 0 ∧ E = [] ∧ N = c13b_wholeN s.start_pt l.p1 pts) := by
  intro pts
  induction pts with
  | nil =>
    intro rest l L f s o ph' hpat hon hcp hix hin hw n fuel acc out hc
    by_cases hlt : s.dash_remaining < s.seg_remaining
    · exact c13b_stash_switchA [] rest l L f s o ph' hpat hon hcp hix hin hw hlt n fuel acc out hc
    have hin' : s.inner = .ClosePath :: rest := by simpa using hin
    have hpl : polyLens s.last_pt ([] ++ [s.start_pt]) = [(Line.mk s.last_pt s.start_pt).arclen 0] := rfl
    rw [hpl] at hw ⊢
    cases fuel with
    | zero => exact absurd hc (collectFrom_zero _ _ _ _)
    | succ fuel =>
      have hst : (s.state == .ToStash && s.stash.isEmpty) = false := by rw [hon.stashing, hon.nonempty]; rfl
      have hstep := step_line_end_stash s l hon.seg hst hon.stashing hon.active hlt
      obtain ⟨o2, w1, w2, -⟩ := c13b_walkList_end_inv _ _ _ _ _ _ _ _ (show ¬ s.ph.rem < s.seg_remaining from hlt) hw
      have w3 := c13b_walkList_single _ _ _ _ _ _ _ w1
      have hsum : [(Line.mk s.last_pt s.start_pt).arclen 0].sum = (Line.mk s.last_pt s.start_pt).arclen 0 := by simp
      rw [hsum]
      by_cases heq : s.last_pt = s.start_pt
      · -- the sub-path ends at its start: the last `LineTo` is stashed, then `ClosePath` at once
        rw [c13b_get_input_close_eq ({ s with stash := s.stash.push (.LineTo l.p1), dash_remaining := s.dash_remaining - s.seg_remaining } : DashIt K) rest
          hcp hin' heq, c13b_handle_toStash _ (by show s.state = .ToStash; exact hon.stashing)] at hstep
        rw [collect_stash_none n fuel s _ acc hon.stashing hstep] at hc
        rw [heq, c13b_line_arclen_self] at w3 ⊢
        have hr : ¬ (s.ph.rem - s.seg_remaining) < 0 := by
          have := not_lt.mp hlt
          show ¬ s.dash_remaining - s.seg_remaining < 0
          linarith
        obtain ⟨a1, -, -⟩ := c13b_walk_end_inv _ _ _ _ _ _ _ hr w3
        rw [c13b_onPart_zero] at a1
        refine ⟨n, fuel, _, [.LineTo l.p1, .ClosePath], [], hc,
          ⟨rfl, rfl, rfl, rfl, ⟨rfl, rfl, rfl⟩, ⟨rfl, rfl, rfl, rfl⟩⟩, ?_, ?_, ?_, ?_⟩
        · simp [DashIt.c13b_closedS]
        · intro pen
          simp only [drawnLen, add_zero]
          rw [hon.dist_end, w2, a1, add_zero]
          simp only [onPart, DashIt.ph, hon.active, if_true]
        · intro h
          rw [add_zero] at h
          exact absurd h hlt
        · intro _
          refine ⟨hix, rfl, ?_⟩
          simp only [c13b_wholeN]
          rw [if_pos ((c13b_peq_iff _ _).mpr (hon.last.symm.trans heq))]
      · -- the closing line is loaded, still inside the first dash
        rw [c13b_get_input_close_ne ({ s with stash := s.stash.push (.LineTo l.p1), dash_remaining := s.dash_remaining - s.seg_remaining } : DashIt K) rest
          hcp hin' heq] at hstep
        rw [collect_stash_none n fuel s _ acc hon.stashing hstep] at hc
        obtain ⟨s4, hs4⟩ : ∃ s4 : DashIt K, s4 = { (({ s with dash_remaining := s.dash_remaining - s.seg_remaining }
          : DashIt K).c13b_loadClose rest) with stash := s.stash.push (.LineTo l.p1) } := ⟨_, rfl⟩
        have hc4 : collectFrom n fuel s4 acc = .ok out := by rw [hs4]; exact hc
        have hon4 : OnLineS s4 ⟨s.last_pt, s.start_pt⟩ ((Line.mk s.last_pt s.start_pt).arclen 0) := by
          subst hs4
          exact ⟨rfl, rfl, zero_lt_one, by simp [DashIt.c13b_loadClose], hon.stashing, hon.active, by simp, hon.ix,
            sub_nonneg.mpr (not_lt.mp hlt), rfl⟩
        obtain ⟨n', fuel', sF, N', E, b1, b2, b3, b4, b5, b6⟩ := c13b_stash_closeB ⟨s.last_pt, s.start_pt⟩ _ f s4 o2 ph'
          (by subst hs4; exact hpat) hon4 (by subst hs4; rfl) (by subst hs4; exact hix) (by subst hs4; exact w3)
          n fuel acc out hc4
        have htot : (s.dash_remaining < s.seg_remaining + (Line.mk s.last_pt s.start_pt).arclen 0) ↔
            (s4.dash_remaining < s4.seg_remaining) := by
          subst hs4
          show _ ↔ (s.dash_remaining - s.seg_remaining < (Line.mk s.last_pt s.start_pt).arclen 0)
          constructor <;> intro h <;> linarith
        have e0 : (Line.mk s.last_pt s.start_pt).eval s4.t = l.p1 := by
          subst hs4
          show (Line.mk s.last_pt s.start_pt).eval 0 = l.p1
          rw [(line_eval_zero_one _).1, hon.last]
        refine ⟨n', fuel', sF, .LineTo l.p1 :: N', E, b1, ⟨b2.state, b2.cp, ?_, ?_, b2.phase, ?_⟩, ?_, ?_, ?_, ?_⟩
        · rw [b2.done]; subst hs4; rfl
        · rw [b2.inner]; subst hs4; rfl
        · refine DashIt.SameInit.trans ?_ b2.init
          subst hs4; exact ⟨rfl, rfl, rfl, rfl⟩
        · rw [b3]; subst hs4; simp
        · intro pen
          have := b4 pen
          rw [e0] at this
          simp only [drawnLen]
          rw [hon.dist_end, w2, ← this]
          simp only [onPart, DashIt.ph, hon.active, if_true]
          ring
        · intro h
          obtain ⟨d1, d2, d3, d4⟩ := b5 (htot.mp h)
          refine ⟨d1, ?_, d3, ?_⟩
          · intro el hel
            rcases List.mem_cons.mp hel with rfl | hel
            · exact ⟨_, rfl⟩
            · exact d2 el hel
          · have hr4 : s4.dash_remaining = s.dash_remaining - s.seg_remaining := by subst hs4; rfl
            rw [e0, hr4] at d4
            simp only [drawnLen]
            rw [hon.dist_end, d4]
            ring
        · intro h
          obtain ⟨d1, d2, d3⟩ := b6 (fun h' => h (htot.mpr h'))
          refine ⟨d1, d2, ?_⟩
          rw [d3]
          simp only [c13b_wholeN]
          rw [if_neg (fun hp => heq (hon.last.trans ((c13b_peq_iff _ _).mp hp)))]
  | cons q pts ih =>
    intro rest l L f s o ph' hpat hon hcp hix hin hw n fuel acc out hc
    by_cases hlt : s.dash_remaining < s.seg_remaining
    · exact c13b_stash_switchA (q :: pts) rest l L f s o ph' hpat hon hcp hix hin hw hlt n fuel acc out hc
    have hin' : s.inner = .LineTo q :: (pts.map .LineTo ++ .ClosePath :: rest) := by simpa using hin
    have hpl : polyLens s.last_pt ((q :: pts) ++ [s.start_pt])
        = (Line.mk s.last_pt q).arclen 0 :: polyLens q (pts ++ [s.start_pt]) := rfl
    rw [hpl] at hw ⊢
    cases fuel with
    | zero => exact absurd hc (collectFrom_zero _ _ _ _)
    | succ fuel =>
      have hst : (s.state == .ToStash && s.stash.isEmpty) = false := by rw [hon.stashing, hon.nonempty]; rfl
      have hstep := step_line_end_stash s l hon.seg hst hon.stashing hon.active hlt
      rw [get_input_lineTo ({ s with stash := s.stash.push (.LineTo l.p1), dash_remaining := s.dash_remaining - s.seg_remaining } : DashIt K) q
        _ hcp hin'] at hstep
      rw [collect_stash_none n fuel s _ acc hon.stashing hstep] at hc
      obtain ⟨s4, hs4⟩ : ∃ s4 : DashIt K, s4 = { (({ s with dash_remaining := s.dash_remaining - s.seg_remaining }
        : DashIt K).loadLine q (pts.map .LineTo ++ .ClosePath :: rest)) with stash := s.stash.push (.LineTo l.p1) } :=
        ⟨_, rfl⟩
      have hc4 : collectFrom n fuel s4 acc = .ok out := by rw [hs4]; exact hc
      have hon4 : OnLineS s4 ⟨s.last_pt, q⟩ ((Line.mk s.last_pt q).arclen 0) := by
        subst hs4
        exact ⟨rfl, rfl, zero_lt_one, by simp [DashIt.loadLine], hon.stashing, hon.active, by simp, hon.ix,
          sub_nonneg.mpr (not_lt.mp hlt), rfl⟩
      obtain ⟨o2, w1, w2, -⟩ := c13b_walkList_end_inv _ _ _ _ _ _ _ _ (show ¬ s.ph.rem < s.seg_remaining from hlt) hw
      obtain ⟨n', fuel', sF, N', E, b1, b2, b3, b4, b5, b6⟩ := ih rest ⟨s.last_pt, q⟩ _ f s4 o2 ph'
        (by subst hs4; exact hpat) hon4 (by subst hs4; exact hcp) (by subst hs4; exact hix) (by subst hs4; rfl)
        (by subst hs4; exact w1) n fuel acc out hc4
      have hst4 : s4.start_pt = s.start_pt := by subst hs4; rfl
      have hl4 : s4.last_pt = q := by subst hs4; rfl
      rw [hst4, hl4] at b5 b6
      have htot : (s.dash_remaining < s.seg_remaining +
            ((Line.mk s.last_pt q).arclen 0 :: polyLens q (pts ++ [s.start_pt])).sum) ↔
          (s4.dash_remaining < s4.seg_remaining + (polyLens q (pts ++ [s.start_pt])).sum) := by
        subst hs4
        rw [List.sum_cons]
        show _ ↔ (s.dash_remaining - s.seg_remaining < (Line.mk s.last_pt q).arclen 0 + _)
        constructor <;> intro h <;> linarith
      have e0 : (Line.mk s.last_pt q).eval s4.t = l.p1 := by
        subst hs4
        show (Line.mk s.last_pt q).eval 0 = l.p1
        rw [(line_eval_zero_one _).1, hon.last]
      refine ⟨n', fuel', sF, .LineTo l.p1 :: N', E, b1, ⟨b2.state, b2.cp, ?_, b2.inner, b2.phase, ?_⟩, ?_, ?_, ?_, ?_⟩
      · rw [b2.done]; subst hs4; rfl
      · refine DashIt.SameInit.trans ?_ b2.init
        subst hs4; exact ⟨rfl, rfl, rfl, rfl⟩
      · rw [b3]; subst hs4; simp
      · intro pen
        have := b4 pen
        rw [e0] at this
        simp only [drawnLen]
        rw [hon.dist_end, w2, ← this]
        simp only [onPart, DashIt.ph, hon.active, if_true]
        ring
      · intro h
        obtain ⟨d1, d2, d3, d4⟩ := b5 (htot.mp h)
        refine ⟨d1, ?_, d3, ?_⟩
        · intro el hel
          rcases List.mem_cons.mp hel with rfl | hel
          · exact ⟨_, rfl⟩
          · exact d2 el hel
        · have hr4 : s4.dash_remaining = s.dash_remaining - s.seg_remaining := by subst hs4; rfl
          rw [e0, hr4] at d4
          simp only [drawnLen]
          rw [hon.dist_end, d4]
          ring
      · intro h
        obtain ⟨d1, d2, d3⟩ := b6 (fun h' => h (htot.mpr h'))
        refine ⟨d1, d2, ?_⟩
        rw [d3]
        rfl

end Kurbo
