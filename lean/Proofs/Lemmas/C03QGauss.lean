import Proofs.Lemmas.C03Q
/-! Helper lemmas for `Proofs/C03Q.lean`, branch (1) on a straight, uniformly parametrised quadratic (`p1` the midpoint):
    the three `hypot`s of the 3-point rule reduce to `|β p2 − α p0| + γ |p2 − p0| + |α p2 − β p0|`. -/
namespace Kurbo

/-- Euclidean length of the vector `(x, y)` -/
noncomputable def c03q_hyp (x y : ℝ) : ℝ := √(x ^ 2 + y ^ 2)

theorem c03q_hyp_nonneg (x y : ℝ) : 0 ≤ c03q_hyp x y := Real.sqrt_nonneg _

theorem c03q_hyp_scale {k : ℝ} (hk : 0 ≤ k) (x y : ℝ) : c03q_hyp (k * x) (k * y) = k * c03q_hyp x y := by
  unfold c03q_hyp
  have : (k * x) ^ 2 + (k * y) ^ 2 = k ^ 2 * (x ^ 2 + y ^ 2) := by ring
  rw [this, Real.sqrt_mul (by positivity), Real.sqrt_sq hk]

theorem c03q_hyp_neg (x y : ℝ) : c03q_hyp (-x) (-y) = c03q_hyp x y := by
  unfold c03q_hyp; congr 1; ring

/-- triangle inequality -/
theorem c03q_hyp_add_le (a b c d : ℝ) : c03q_hyp (a + c) (b + d) ≤ c03q_hyp a b + c03q_hyp c d := by
  unfold c03q_hyp
  have hp := Real.sqrt_nonneg (a ^ 2 + b ^ 2)
  have hq := Real.sqrt_nonneg (c ^ 2 + d ^ 2)
  have hpp := Real.sq_sqrt (show 0 ≤ a ^ 2 + b ^ 2 by positivity)
  have hqq := Real.sq_sqrt (show 0 ≤ c ^ 2 + d ^ 2 by positivity)
  have hcs : a * c + b * d ≤ √(a ^ 2 + b ^ 2) * √(c ^ 2 + d ^ 2) := by
    rw [← Real.sqrt_mul (by positivity)]
    apply Real.le_sqrt_of_sq_le
    nlinarith [sq_nonneg (a * d - b * c)]
  apply Real.sqrt_le_iff.mpr
  refine ⟨by positivity, ?_⟩
  nlinarith

/-- `| |u + e| − |u| | ≤ |e|` -/
theorem c03q_hyp_perturb (a b c d : ℝ) : |c03q_hyp (a + c) (b + d) - c03q_hyp a b| ≤ c03q_hyp c d := by
  have h1 := c03q_hyp_add_le a b c d
  have h2 := c03q_hyp_add_le (a + c) (b + d) (-c) (-d)
  rw [c03q_hyp_neg] at h2
  have e1 : a + c + -c = a := by ring
  have e2 : b + d + -d = b := by ring
  rw [e1, e2] at h2
  rw [abs_le]
  constructor <;> linarith

/-- with `p1` the midpoint of `p0 p2` the Gauss–Legendre branch is
    `|β p2 − α p0| + γ |p2 − p0| + |α p2 − β p0|` -/
theorem c03q_gauss_midpoint (q : QuadBez ℝ)
    (hx : q.p0.x - 2 * q.p1.x + q.p2.x = 0) (hy : q.p0.y - 2 * q.p1.y + q.p2.y = 0) :
    c03q_gauss q =
      c03q_hyp (2777777777777777 / 10000000000000000 * q.p2.x - 2777777777777775 / 10000000000000000 * q.p0.x)
               (2777777777777777 / 10000000000000000 * q.p2.y - 2777777777777775 / 10000000000000000 * q.p0.y)
      + 4444444444444444 / 10000000000000000 * c03q_hyp (q.p2.x - q.p0.x) (q.p2.y - q.p0.y)
      + c03q_hyp (2777777777777775 / 10000000000000000 * q.p2.x - 2777777777777777 / 10000000000000000 * q.p0.x)
                 (2777777777777775 / 10000000000000000 * q.p2.y - 2777777777777777 / 10000000000000000 * q.p0.y) := by
  have h1x : q.p1.x = (q.p0.x + q.p2.x) / 2 := by linarith
  have h1y : q.p1.y = (q.p0.y + q.p2.y) / 2 := by linarith
  rw [← c03q_hyp_scale (by norm_num)]
  unfold c03q_gauss c03q_hyp
  rw [h1x, h1y]
  congr 1
  · congr 1
    · congr 1; ring
    · congr 1; ring
  · congr 1; ring

/-- the reduced expression differs from `|p2 − p0|` by at most `6e-16 |p2 − p0| + 2e-16 (|p0| + |p2|)` -/
theorem c03q_gauss_defect (x0 y0 x2 y2 : ℝ) :
    |(c03q_hyp (2777777777777777 / 10000000000000000 * x2 - 2777777777777775 / 10000000000000000 * x0)
               (2777777777777777 / 10000000000000000 * y2 - 2777777777777775 / 10000000000000000 * y0)
      + 4444444444444444 / 10000000000000000 * c03q_hyp (x2 - x0) (y2 - y0)
      + c03q_hyp (2777777777777775 / 10000000000000000 * x2 - 2777777777777777 / 10000000000000000 * x0)
                 (2777777777777775 / 10000000000000000 * y2 - 2777777777777777 / 10000000000000000 * y0))
      - c03q_hyp (x2 - x0) (y2 - y0)|
    ≤ 6 / 10000000000000000 * c03q_hyp (x2 - x0) (y2 - y0)
      + 2 / 10000000000000000 * (c03q_hyp x0 y0 + c03q_hyp x2 y2) := by
  have e1x : 2777777777777777 / 10000000000000000 * x2 - 2777777777777775 / 10000000000000000 * x0
      = 2777777777777775 / 10000000000000000 * (x2 - x0) + 2 / 10000000000000000 * x2 := by ring
  have e1y : 2777777777777777 / 10000000000000000 * y2 - 2777777777777775 / 10000000000000000 * y0
      = 2777777777777775 / 10000000000000000 * (y2 - y0) + 2 / 10000000000000000 * y2 := by ring
  have e3x : 2777777777777775 / 10000000000000000 * x2 - 2777777777777777 / 10000000000000000 * x0
      = 2777777777777775 / 10000000000000000 * (x2 - x0) + -(2 / 10000000000000000 * x0) := by ring
  have e3y : 2777777777777775 / 10000000000000000 * y2 - 2777777777777777 / 10000000000000000 * y0
      = 2777777777777775 / 10000000000000000 * (y2 - y0) + -(2 / 10000000000000000 * y0) := by ring
  have p1 := c03q_hyp_perturb (2777777777777775 / 10000000000000000 * (x2 - x0))
    (2777777777777775 / 10000000000000000 * (y2 - y0)) (2 / 10000000000000000 * x2) (2 / 10000000000000000 * y2)
  have p3 := c03q_hyp_perturb (2777777777777775 / 10000000000000000 * (x2 - x0))
    (2777777777777775 / 10000000000000000 * (y2 - y0)) (-(2 / 10000000000000000 * x0)) (-(2 / 10000000000000000 * y0))
  rw [c03q_hyp_neg] at p3
  rw [c03q_hyp_scale (by norm_num), c03q_hyp_scale (by norm_num)] at p1 p3
  rw [e1x, e1y, e3x, e3y]
  have hu := c03q_hyp_nonneg (x2 - x0) (y2 - y0)
  have h0 := c03q_hyp_nonneg x0 y0
  have h2 := c03q_hyp_nonneg x2 y2
  have p1' := abs_le.mp p1
  have p3' := abs_le.mp p3
  rw [abs_le]
  constructor <;> linarith [p1'.1, p1'.2, p3'.1, p3'.2]

end Kurbo
