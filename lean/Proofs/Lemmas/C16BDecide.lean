import Proofs.Lemmas.C16BLoop
/-! C16B: the well-formedness predicates (`SepOk`, `NumChunk.Ok`, `PtChunk.Ok`, `C16Cmd.ArgsOk`, `C16Spelled.Ok`,
    `c16b_SpelledOk`) are decidable, so the hypotheses of `parse_spelled` can be checked by `decide` on a concrete spelling. -/
namespace Kurbo

theorem c16b_sepOk_iff (s r : List UInt8) :
    SepOk s r ↔ (s.getLast? = some 44 ∧ ∀ c ∈ s.dropLast, isWs c = true) ∨
      ((∀ c ∈ s, isWs c = true) ∧ StopsAt (fun c => isWs c || c == 44) r) := by
  constructor
  · rintro ⟨ws, hws, rfl | ⟨rfl, hr⟩⟩
    · left; simpa using hws
    · right; exact ⟨hws, hr⟩
  · rintro (⟨h1, h2⟩ | ⟨h1, h2⟩)
    · obtain ⟨ys, rfl⟩ := List.getLast?_eq_some_iff.mp h1
      exact ⟨ys, by simpa using h2, .inl rfl⟩
    · exact ⟨s, h1, .inr ⟨rfl, h2⟩⟩

instance (s r : List UInt8) : Decidable (SepOk s r) := decidable_of_iff _ (c16b_sepOk_iff s r).symm

instance (k : NumChunk) (r : List UInt8) : Decidable (k.Ok r) :=
  decidable_of_iff ((∀ c ∈ k.ws, isWs c = true) ∧ k.p.Valid ∧ k.p.Stops (k.sep ++ r) ∧ SepOk k.sep r)
    ⟨fun ⟨a, b, c, d⟩ => ⟨a, b, c, d⟩, fun h => ⟨h.ws, h.valid, h.stops, h.sep⟩⟩

instance (q : PtChunk) (r : List UInt8) : Decidable (q.Ok r) := by unfold PtChunk.Ok; infer_instance

instance (c : C16Cmd NumChunk) (r : List UInt8) : Decidable (c.ArgsOk r) := by
  cases c <;> unfold C16Cmd.ArgsOk <;> infer_instance

instance (s : C16Spelled) (lc : UInt8) (r : List UInt8) : Decidable (s.Ok lc r) :=
  decidable_of_iff ((∀ b ∈ s.ws, isWs b = true) ∧ s.cmd.ArgsOk r ∧
      (s.explicit = false → s.ws = [] ∧ s.cmd.letter = lc ∧ s.cmd.isMove = false ∧ s.cmd.isClose = false))
    ⟨fun ⟨a, b, c⟩ => ⟨a, b, c⟩, fun h => ⟨h.ws, h.args, h.implicit⟩⟩

instance c16b_decSpelledOk : (lc : UInt8) → (ss : List C16Spelled) → (tail : List UInt8) → Decidable (c16b_SpelledOk lc ss tail)
  | _, [], tail => inferInstanceAs (Decidable (∀ b ∈ tail, isWs b = true))
  | lc, s :: ss, tail =>
    have := c16b_decSpelledOk (c16b_nextCmd lc s.cmd) ss tail
    inferInstanceAs (Decidable (s.Ok lc (c16b_spell ss tail) ∧ c16b_SpelledOk (c16b_nextCmd lc s.cmd) ss tail))

instance {α : Type} (cs : List (C16Cmd α)) : Decidable (c16b_startsWithMove cs) := by
  cases cs <;> unfold c16b_startsWithMove <;> infer_instance

end Kurbo
