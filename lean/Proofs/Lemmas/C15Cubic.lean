import Kurbo.Solve
import Proofs.Lawful
import Proofs.Lemmas.C15Quad
import Mathlib.Tactic.LinearCombination
/-! helper lemmas for C15, cubic part -/
set_option linter.unusedSectionVars false
namespace Kurbo

/-! ### structural facts (every `Scalar`, also `Float`) -/
section structural
variable {K : Type} [Scalar K]

theorem solveQuadratic_length_le' (c0 c1 c2 : K) : (solveQuadratic c0 c1 c2).length ≤ 2 := by
  unfold solveQuadratic
  simp only
  split_ifs <;> simp

theorem solveCubic_length_le' (c0 c1 c2 c3 : K) : (solveCubic c0 c1 c2 c3).length ≤ 3 := by
  unfold solveCubic
  simp only
  split_ifs
  · exact le_trans (solveQuadratic_length_le' c0 c1 c2) (by norm_num)
  all_goals simp
end structural

variable {K : Type} [Field K] [LinearOrder K] [IsStrictOrderedRing K] [FloorRing K] [Scalar K] [LawfulScalar K]

def cubD0 (a1 a2 : K) : K := -a2 * a2 + a1
def cubD1 (a0 a1 a2 : K) : K := -a1 * a2 + a0
def cubD2 (a0 a1 a2 : K) : K := a2 * a0 - a1 * a1
def cubD (a0 a1 a2 : K) : K := 4 * cubD0 a1 a2 * cubD2 a0 a1 a2 - cubD1 a0 a1 a2 * cubD1 a0 a1 a2
def cubDe (a0 a1 a2 : K) : K := -2 * a2 * cubD0 a1 a2 + cubD1 a0 a1 a2

/-- `solve_cubic` after the division by `c3`, on the scaled coefficients (`x³ + 3·a2·x² + 3·a1·x + a0`), with the
    field operations of `K` and the transcendental functions of the `Scalar` instance -/
def cubicCore (a0 a1 a2 : K) : List K :=
  if cubD a0 a1 a2 < 0 then
    [Scalar.cbrt (-(1 / 2) * cubDe a0 a1 a2 + Scalar.sqrt (-(1 / 4) * cubD a0 a1 a2))
      + Scalar.cbrt (-(1 / 2) * cubDe a0 a1 a2 - Scalar.sqrt (-(1 / 4) * cubD a0 a1 a2)) - a2]
  else if cubD a0 a1 a2 = 0 then
    [(if cubDe a0 a1 a2 < 0 then -|Scalar.sqrt (-cubD0 a1 a2)| else |Scalar.sqrt (-cubD0 a1 a2)|) - a2,
     -2 * (if cubDe a0 a1 a2 < 0 then -|Scalar.sqrt (-cubD0 a1 a2)| else |Scalar.sqrt (-cubD0 a1 a2)|) - a2]
  else
    [2 * Scalar.sqrt (-cubD0 a1 a2) * Scalar.cos (Scalar.atan2 (Scalar.sqrt (cubD a0 a1 a2)) (-cubDe a0 a1 a2) * (1 / 3)) + -a2,
     2 * Scalar.sqrt (-cubD0 a1 a2) * (1 / 2 * (-Scalar.cos (Scalar.atan2 (Scalar.sqrt (cubD a0 a1 a2)) (-cubDe a0 a1 a2) * (1 / 3))
        + Scalar.sin (Scalar.atan2 (Scalar.sqrt (cubD a0 a1 a2)) (-cubDe a0 a1 a2) * (1 / 3)) * Scalar.sqrt 3)) + -a2,
     2 * Scalar.sqrt (-cubD0 a1 a2) * (1 / 2 * (-Scalar.cos (Scalar.atan2 (Scalar.sqrt (cubD a0 a1 a2)) (-cubDe a0 a1 a2) * (1 / 3))
        - Scalar.sin (Scalar.atan2 (Scalar.sqrt (cubD a0 a1 a2)) (-cubDe a0 a1 a2) * (1 / 3)) * Scalar.sqrt 3)) + -a2]

theorem solveCubic_c3_zero (c0 c1 c2 : K) : solveCubic c0 c1 c2 0 = solveQuadratic c0 c1 c2 := by
  unfold solveCubic
  simp only [scalar_norm]
  simp

theorem solveCubic_eq_core (c0 c1 c2 c3 : K) (h3 : c3 ≠ 0) :
    solveCubic c0 c1 c2 c3 = cubicCore (c0 * (1 / c3)) (c1 * (1 / 3 * (1 / c3))) (c2 * (1 / 3 * (1 / c3))) := by
  unfold solveCubic cubicCore cubDe cubD cubD0 cubD1 cubD2
  simp only [scalar_norm]
  push_cast
  simp only [ne_eq, h3, not_false_eq_true, decide_true, Bool.and_self, Bool.not_true, Bool.false_eq_true, if_false,
    decide_eq_true_eq]

end Kurbo
