import Proofs.Lemmas.C16AGeom
/-! C16A helpers, part 2: the angles of `Arc::from_svg_arc` over ℝ – the end angle hits `end_v`, the range of the sweep angle,
    the sign of its sine, and with it the large-arc choice. -/
namespace Kurbo.SvgArcR
open Real

section
variable {la sw : Bool} {px py rx ry : ℝ}

/-- the raw difference of the two `atan2`s lies in `(−2π, 2π)`, so the `%` does nothing -/
theorem rawDiff_abs_lt (z w : ℂ) : |Complex.arg w - Complex.arg z| < 2 * π := by
  have h1 := Complex.neg_pi_lt_arg z
  have h2 := Complex.arg_le_pi z
  have h3 := Complex.neg_pi_lt_arg w
  have h4 := Complex.arg_le_pi w
  rw [abs_lt]; constructor <;> linarith

theorem sweepAngle_eq (la sw : Bool) (px py rx ry : ℝ) :
    sweepAngle la sw px py rx ry
      = fixSweep sw (Complex.arg (endV la sw px py rx ry) - Complex.arg (startV la sw px py rx ry)) := by
  unfold sweepAngle
  rw [fmodR_of_abs_lt (by positivity) (rawDiff_abs_lt _ _)]

/-- `start_angle + sweep_angle ≡ atan2(end_v)  (mod 2π)` -/
theorem start_add_sweep (la sw : Bool) (px py rx ry : ℝ) :
    ∃ k : ℤ, Complex.arg (startV la sw px py rx ry) + sweepAngle la sw px py rx ry
      = Complex.arg (endV la sw px py rx ry) + k * (2 * π) := by
  obtain ⟨k, hk⟩ := fixSweep_int sw (Complex.arg (endV la sw px py rx ry) - Complex.arg (startV la sw px py rx ry))
  exact ⟨k, by rw [sweepAngle_eq, hk]; ring⟩

theorem cos_end (hrx : 0 < rx) (hry : 0 < ry) (hp : px ≠ 0 ∨ py ≠ 0)
    (hle : (rx * py) * (rx * py) + (ry * px) * (ry * px) ≤ (rx * ry) * (rx * ry)) :
    cos (Complex.arg (startV la sw px py rx ry) + sweepAngle la sw px py rx ry) = (endV la sw px py rx ry).re := by
  obtain ⟨k, hk⟩ := start_add_sweep la sw px py rx ry
  rw [hk, Real.cos_add_int_mul_two_pi, cos_arg_unit (endV_normSq hrx hry hp hle)]

theorem sin_end (hrx : 0 < rx) (hry : 0 < ry) (hp : px ≠ 0 ∨ py ≠ 0)
    (hle : (rx * py) * (rx * py) + (ry * px) * (ry * px) ≤ (rx * ry) * (rx * ry)) :
    sin (Complex.arg (startV la sw px py rx ry) + sweepAngle la sw px py rx ry) = (endV la sw px py rx ry).im := by
  obtain ⟨k, hk⟩ := start_add_sweep la sw px py rx ry
  rw [hk, Real.sin_add_int_mul_two_pi, sin_arg_unit (endV_normSq hrx hry hp hle)]

/-- the raw difference is not zero: `start_v ≠ end_v` -/
theorem rawDiff_ne_zero (hrx : 0 < rx) (hry : 0 < ry) (hp : px ≠ 0 ∨ py ≠ 0)
    (hle : (rx * py) * (rx * py) + (ry * px) * (ry * px) ≤ (rx * ry) * (rx * ry)) :
    Complex.arg (endV la sw px py rx ry) - Complex.arg (startV la sw px py rx ry) ≠ 0 := by
  intro h
  exact startV_ne_endV (la := la) (sw := sw) hrx hry hp
    (eq_of_arg_eq_unit (startV_normSq hrx hry hp hle) (endV_normSq hrx hry hp hle) (by linarith))

/-- sweep flag set: `0 < sweep_angle < 2π` -/
theorem sweep_range_true (hrx : 0 < rx) (hry : 0 < ry) (hp : px ≠ 0 ∨ py ≠ 0)
    (hle : (rx * py) * (rx * py) + (ry * px) * (ry * px) ≤ (rx * ry) * (rx * ry)) :
    0 < sweepAngle la true px py rx ry ∧ sweepAngle la true px py rx ry < 2 * π := by
  have hne := rawDiff_ne_zero (la := la) (sw := true) hrx hry hp hle
  have hab := abs_lt.mp (rawDiff_abs_lt (startV la true px py rx ry) (endV la true px py rx ry))
  rw [sweepAngle_eq, fixSweep_true]
  set d := Complex.arg (endV la true px py rx ry) - Complex.arg (startV la true px py rx ry)
  by_cases h : d < 0
  · rw [if_pos h]; constructor <;> linarith
  · rw [if_neg h]
    have : 0 < d := lt_of_le_of_ne (not_lt.mp h) (Ne.symm hne)
    exact ⟨this, hab.2⟩

/-- sweep flag clear: `−2π < sweep_angle < 0` -/
theorem sweep_range_false (hrx : 0 < rx) (hry : 0 < ry) (hp : px ≠ 0 ∨ py ≠ 0)
    (hle : (rx * py) * (rx * py) + (ry * px) * (ry * px) ≤ (rx * ry) * (rx * ry)) :
    -(2 * π) < sweepAngle la false px py rx ry ∧ sweepAngle la false px py rx ry < 0 := by
  have hne := rawDiff_ne_zero (la := la) (sw := false) hrx hry hp hle
  have hab := abs_lt.mp (rawDiff_abs_lt (startV la false px py rx ry) (endV la false px py rx ry))
  rw [sweepAngle_eq, fixSweep_false]
  set d := Complex.arg (endV la false px py rx ry) - Complex.arg (startV la false px py rx ry)
  by_cases h : 0 < d
  · rw [if_pos h]; constructor <;> linarith
  · rw [if_neg h]
    have : d < 0 := lt_of_le_of_ne (not_lt.mp h) hne
    exact ⟨hab.1, this⟩

/-- `sin(sweep_angle) = start_v × end_v = 2·coe·S/(rx·ry)²` -/
theorem sin_sweep (hrx : 0 < rx) (hry : 0 < ry) (hp : px ≠ 0 ∨ py ≠ 0)
    (hle : (rx * py) * (rx * py) + (ry * px) * (ry * px) ≤ (rx * ry) * (rx * ry)) :
    sin (sweepAngle la sw px py rx ry)
      = 2 * coe la sw px py rx ry * ((rx * py) * (rx * py) + (ry * px) * (ry * px)) / ((rx * ry) * (rx * ry)) := by
  obtain ⟨k, hk⟩ := fixSweep_int sw (Complex.arg (endV la sw px py rx ry) - Complex.arg (startV la sw px py rx ry))
  rw [sweepAngle_eq, hk, Real.sin_add_int_mul_two_pi, Real.sin_sub,
    sin_arg_unit (endV_normSq hrx hry hp hle), cos_arg_unit (endV_normSq hrx hry hp hle),
    sin_arg_unit (startV_normSq hrx hry hp hle), cos_arg_unit (startV_normSq hrx hry hp hle),
    ← cross_eq hrx hry]
  ring

/-- sign of `sin(sweep_angle)` = sign of `coe` -/
theorem sin_sweep_sign (hrx : 0 < rx) (hry : 0 < ry) (hp : px ≠ 0 ∨ py ≠ 0)
    (hle : (rx * py) * (rx * py) + (ry * px) * (ry * px) ≤ (rx * ry) * (rx * ry)) :
    (0 < coe la sw px py rx ry → 0 < sin (sweepAngle la sw px py rx ry)) ∧
    (coe la sw px py rx ry < 0 → sin (sweepAngle la sw px py rx ry) < 0) ∧
    (coe la sw px py rx ry = 0 → sin (sweepAngle la sw px py rx ry) = 0) := by
  have hS := sumsq_pos hrx hry hp
  have hR : 0 < (rx * ry) * (rx * ry) := by positivity
  rw [sin_sweep hrx hry hp hle]
  refine ⟨fun h => ?_, fun h => ?_, fun h => ?_⟩
  · exact div_pos (mul_pos (by linarith) hS) hR
  · exact div_neg_of_neg_of_pos (mul_neg_of_neg_of_pos (by linarith) hS) hR
  · rw [h]; simp

/-- large-arc choice, radii strictly large enough: `π < |sweep_angle|` iff the large-arc flag is set -/
theorem large_arc_strict (hrx : 0 < rx) (hry : 0 < ry) (hp : px ≠ 0 ∨ py ≠ 0)
    (hlt : (rx * py) * (rx * py) + (ry * px) * (ry * px) < (rx * ry) * (rx * ry)) :
    (la = true → π < |sweepAngle la sw px py rx ry|) ∧ (la = false → |sweepAngle la sw px py rx ry| < π) := by
  have hle := hlt.le
  obtain ⟨hneg, hpos⟩ := coe_sign (la := la) (sw := sw) hrx hry hp hlt
  obtain ⟨s1, s2, -⟩ := sin_sweep_sign (la := la) (sw := sw) hrx hry hp hle
  cases sw
  · obtain ⟨r1, r2⟩ := sweep_range_false (la := la) hrx hry hp hle
    rw [abs_of_neg r2]
    set σ := sweepAngle la false px py rx ry
    constructor
    · intro h
      have hs : 0 < sin σ := s1 (hpos (by rw [h]; decide))
      have : sin (-σ) < 0 := by rw [Real.sin_neg]; linarith
      exact pi_lt_of_sin_neg (by linarith) this
    · intro h
      have hs : sin σ < 0 := s2 (hneg h)
      have : 0 < sin (-σ) := by rw [Real.sin_neg]; linarith
      exact lt_pi_of_sin_pos (by linarith) this
  · obtain ⟨r1, r2⟩ := sweep_range_true (la := la) hrx hry hp hle
    rw [abs_of_pos r1]
    set σ := sweepAngle la true px py rx ry
    constructor
    · intro h
      exact pi_lt_of_sin_neg r1 (s2 (hneg h))
    · intro h
      exact lt_pi_of_sin_pos r2 (s1 (hpos (by rw [h]; decide)))

/-- large-arc choice, boundary case `S = (rx·ry)²` (radii scaled up, or fitting exactly): a half turn whatever the flag -/
theorem half_turn (hrx : 0 < rx) (hry : 0 < ry) (hp : px ≠ 0 ∨ py ≠ 0)
    (heq : (rx * py) * (rx * py) + (ry * px) * (ry * px) = (rx * ry) * (rx * ry)) :
    |sweepAngle la sw px py rx ry| = π := by
  have hle := heq.le
  obtain ⟨-, -, s0⟩ := sin_sweep_sign (la := la) (sw := sw) hrx hry hp hle
  have hs := s0 (coe_eq_zero heq)
  cases sw
  · obtain ⟨r1, r2⟩ := sweep_range_false (la := la) hrx hry hp hle
    rw [abs_of_neg r2]
    exact eq_pi_of_sin_zero (by linarith) (by linarith) (by rw [Real.sin_neg, hs, neg_zero])
  · obtain ⟨r1, r2⟩ := sweep_range_true (la := la) hrx hry hp hle
    rw [abs_of_pos r1]
    exact eq_pi_of_sin_zero r1 r2 hs

end
end Kurbo.SvgArcR
