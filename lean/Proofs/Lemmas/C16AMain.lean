import Proofs.Lemmas.C16AStage
import Proofs.Lemmas.C07Inst
/-! C16A helpers, part 4: the hypotheses of the geometry lemmas discharged for the values the model computes
    (`is_straight_line = false` gives positive radii and a non-zero chord; the sanitized radii are large enough), and the
    closed form of `Arc.from_svg_arc` over ℝ. -/
set_option linter.unusedSectionVars false
namespace Kurbo
open Real SvgArcR

section real
variable [Scalar ℝ] [LawfulScalar ℝ] [LawfulReal] [LawfulRealAngle]

theorem is_straight_line_false_iff (arc : SvgArc ℝ) :
    arc.is_straight_line = false ↔ (1/100000 < |arc.radii.x| ∧ 1/100000 < |arc.radii.y| ∧ arc.from ≠ arc.to) := by
  unfold SvgArc.is_straight_line
  rw [Bool.or_eq_false_iff, Bool.or_eq_false_iff, peq_false_iff]
  simp only [scalar_norm, decide_eq_false_iff_not, not_le]
  push_cast
  exact and_assoc

/-- the chord is not zero in the frame of the axes either -/
theorem p_ne_zero {arc : SvgArc ℝ} (h : arc.from ≠ arc.to) : pX arc ≠ 0 ∨ pY arc ≠ 0 := by
  by_contra hc
  rw [not_or, not_not, not_not] at hc
  obtain ⟨h1, h2⟩ := hc
  apply h
  have hcs := Real.cos_sq_add_sin_sq arc.x_rotation
  unfold pX at h1; unfold pY at h2
  have hx : arc.from.x - arc.to.x = 0 := by
    linear_combination (2 * cos arc.x_rotation) * h1 - (2 * sin arc.x_rotation) * h2 - (arc.from.x - arc.to.x) * hcs
  have hy : arc.from.y - arc.to.y = 0 := by
    linear_combination (2 * sin arc.x_rotation) * h1 + (2 * cos arc.x_rotation) * h2 - (arc.from.y - arc.to.y) * hcs
  have e1 : arc.from = ⟨arc.from.x, arc.from.y⟩ := rfl
  have e2 : arc.to = ⟨arc.to.x, arc.to.y⟩ := rfl
  rw [e1, e2, Point.mk.injEq]
  constructor <;> linarith

/-- the common factor by which the radii are scaled up: `√rf` if `rf > 1`, else `1` -/
noncomputable def scaleR (arc : SvgArc ℝ) : ℝ := if 1 < rfR arc then √(rfR arc) else 1

/-- the sanitized radii -/
noncomputable def radX (arc : SvgArc ℝ) : ℝ := |arc.radii.x| * scaleR arc
noncomputable def radY (arc : SvgArc ℝ) : ℝ := |arc.radii.y| * scaleR arc

theorem svgRadii_eq' (arc : SvgArc ℝ) : svgRadii arc = (radX arc, radY arc) := by
  rw [svgRadii_eq]; unfold radX radY scaleR
  split_ifs <;> simp

theorem scaleR_pos (arc : SvgArc ℝ) : 0 < scaleR arc := by
  unfold scaleR; split_ifs with h
  · exact Real.sqrt_pos.mpr (by linarith)
  · exact one_pos

theorem rfR_le_scale_sq (arc : SvgArc ℝ) : rfR arc ≤ scaleR arc ^ 2 := by
  unfold scaleR; split_ifs with h
  · rw [Real.sq_sqrt (by linarith)]
  · linarith [not_lt.mp h]

/-- `S = rf·(rx₀·ry₀)²·t²` and `(rx·ry)² = (rx₀·ry₀)²·t⁴` for `rx = rx₀·t`, `ry = ry₀·t` -/
theorem sumsq_scaled (arc : SvgArc ℝ) (hx : 0 < |arc.radii.x|) (hy : 0 < |arc.radii.y|) (t : ℝ) :
    (|arc.radii.x| * t * pY arc) * (|arc.radii.x| * t * pY arc) + (|arc.radii.y| * t * pX arc) * (|arc.radii.y| * t * pX arc)
      = rfR arc * (|arc.radii.x| * |arc.radii.y|) ^ 2 * t ^ 2 := by
  unfold rfR
  have := hx.ne'; have := hy.ne'
  field_simp
  ring

/-- the sanitized radii are large enough: `S ≤ (rx·ry)²` -/
theorem sumsq_le (arc : SvgArc ℝ) (hx : 0 < |arc.radii.x|) (hy : 0 < |arc.radii.y|) :
    (radX arc * pY arc) * (radX arc * pY arc) + (radY arc * pX arc) * (radY arc * pX arc)
      ≤ (radX arc * radY arc) * (radX arc * radY arc) := by
  unfold radX radY
  rw [sumsq_scaled arc hx hy]
  have ht := scaleR_pos arc
  have h1 := rfR_le_scale_sq arc
  have hA : 0 < (|arc.radii.x| * |arc.radii.y|) ^ 2 * scaleR arc ^ 2 := by positivity
  calc rfR arc * (|arc.radii.x| * |arc.radii.y|) ^ 2 * scaleR arc ^ 2
      = rfR arc * ((|arc.radii.x| * |arc.radii.y|) ^ 2 * scaleR arc ^ 2) := by ring
    _ ≤ scaleR arc ^ 2 * ((|arc.radii.x| * |arc.radii.y|) ^ 2 * scaleR arc ^ 2) :=
        mul_le_mul_of_nonneg_right h1 hA.le
    _ = _ := by ring

/-- strictly, when `rf < 1` -/
theorem sumsq_lt (arc : SvgArc ℝ) (hx : 0 < |arc.radii.x|) (hy : 0 < |arc.radii.y|) (hrf : rfR arc < 1) :
    (radX arc * pY arc) * (radX arc * pY arc) + (radY arc * pX arc) * (radY arc * pX arc)
      < (radX arc * radY arc) * (radX arc * radY arc) := by
  have hs : scaleR arc = 1 := by unfold scaleR; rw [if_neg (by linarith)]
  unfold radX radY
  rw [sumsq_scaled arc hx hy, hs]
  have hA : 0 < (|arc.radii.x| * |arc.radii.y|) ^ 2 := by positivity
  nlinarith

/-- with equality, when `1 ≤ rf` -/
theorem sumsq_eq (arc : SvgArc ℝ) (hx : 0 < |arc.radii.x|) (hy : 0 < |arc.radii.y|) (hrf : 1 ≤ rfR arc) :
    (radX arc * pY arc) * (radX arc * pY arc) + (radY arc * pX arc) * (radY arc * pX arc)
      = (radX arc * radY arc) * (radX arc * radY arc) := by
  have hs : scaleR arc ^ 2 = rfR arc := by
    unfold scaleR
    rcases hrf.lt_or_eq with h | h
    · rw [if_pos h, Real.sq_sqrt (by linarith)]
    · rw [if_neg (by linarith), ← h]; norm_num
  unfold radX radY
  rw [sumsq_scaled arc hx hy, ← hs]
  ring

/-- closed form of the model function over ℝ -/
theorem from_svg_arc_real (arc : SvgArc ℝ) (h : arc.is_straight_line = false) :
    Arc.from_svg_arc arc = some
      { center := ⟨cos arc.x_rotation * tcx arc.large_arc arc.sweep (pX arc) (pY arc) (radX arc) (radY arc)
                    - sin arc.x_rotation * tcy arc.large_arc arc.sweep (pX arc) (pY arc) (radX arc) (radY arc)
                    + (arc.from.x + arc.to.x) * (1/2),
                   sin arc.x_rotation * tcx arc.large_arc arc.sweep (pX arc) (pY arc) (radX arc) (radY arc)
                    + cos arc.x_rotation * tcy arc.large_arc arc.sweep (pX arc) (pY arc) (radX arc) (radY arc)
                    + (arc.from.y + arc.to.y) * (1/2)⟩,
        radii := ⟨radX arc, radY arc⟩,
        start_angle := Complex.arg (startV arc.large_arc arc.sweep (pX arc) (pY arc) (radX arc) (radY arc)),
        sweep_angle := sweepAngle arc.large_arc arc.sweep (pX arc) (pY arc) (radX arc) (radY arc),
        x_rotation := arc.x_rotation } := by
  rw [from_svg_arc_stages, h, svgRadii_eq', svgTail_eq]
  rfl

/-- the facts every geometric statement needs -/
theorem svg_hyps (arc : SvgArc ℝ) (h : arc.is_straight_line = false) :
    0 < radX arc ∧ 0 < radY arc ∧ (pX arc ≠ 0 ∨ pY arc ≠ 0) ∧
    (radX arc * pY arc) * (radX arc * pY arc) + (radY arc * pX arc) * (radY arc * pX arc)
      ≤ (radX arc * radY arc) * (radX arc * radY arc) := by
  obtain ⟨h1, h2, h3⟩ := (is_straight_line_false_iff arc).mp h
  have hx : 0 < |arc.radii.x| := by linarith
  have hy : 0 < |arc.radii.y| := by linarith
  exact ⟨mul_pos hx (scaleR_pos arc), mul_pos hy (scaleR_pos arc), p_ne_zero h3, sumsq_le arc hx hy⟩

/-- ellipse point at the angle of a unit vector `(u, v)`: centre + R(φ)·(rx·u, ry·v), start version -/
theorem start_point_alg (c s fx fy tx ty px py tx' ty' : ℝ) (hcs : c ^ 2 + s ^ 2 = 1)
    (hpx : px = c * ((fx - tx) * (1/2)) + s * ((fy - ty) * (1/2)))
    (hpy : py = -s * ((fx - tx) * (1/2)) + c * ((fy - ty) * (1/2))) :
    (c * tx' - s * ty' + (fx + tx) * (1/2)) + ((px - tx') * c - (py - ty') * s) = fx ∧
    (s * tx' + c * ty' + (fy + ty) * (1/2)) + ((px - tx') * s + (py - ty') * c) = fy := by
  subst hpx hpy
  constructor
  · linear_combination ((fx - tx) * (1/2)) * hcs
  · linear_combination ((fy - ty) * (1/2)) * hcs

theorem end_point_alg (c s fx fy tx ty px py tx' ty' : ℝ) (hcs : c ^ 2 + s ^ 2 = 1)
    (hpx : px = c * ((fx - tx) * (1/2)) + s * ((fy - ty) * (1/2)))
    (hpy : py = -s * ((fx - tx) * (1/2)) + c * ((fy - ty) * (1/2))) :
    (c * tx' - s * ty' + (fx + tx) * (1/2)) + ((-px - tx') * c - (-py - ty') * s) = tx ∧
    (s * tx' + c * ty' + (fy + ty) * (1/2)) + ((-px - tx') * s + (-py - ty') * c) = ty := by
  subst hpx hpy
  constructor
  · linear_combination (-(fx - tx) * (1/2)) * hcs
  · linear_combination (-(fy - ty) * (1/2)) * hcs

end real
end Kurbo

namespace Kurbo
open Real SvgArcR
section real2
variable [Scalar ℝ] [LawfulScalar ℝ] [LawfulReal] [LawfulRealAngle]

/-- the point of the arc at an angle whose cosine and sine are known -/
theorem ellipse_point_of_unit (ctr : Point ℝ) (rx ry rot θ u v : ℝ) (hc : cos θ = u) (hs : sin θ = v) :
    ctr + sampleEllipse ⟨rx, ry⟩ rot θ
      = ⟨ctr.x + (rx * u * cos rot - ry * v * sin rot), ctr.y + (rx * u * sin rot + ry * v * cos rot)⟩ := by
  rw [sampleEllipse_eq]
  simp only [kdefs, scalar_norm, LawfulReal.sin_eq, LawfulReal.cos_eq, hc, hs]

/-- start point, on the closed form -/
theorem start_point_real (arc : SvgArc ℝ) (h : arc.is_straight_line = false) (a : Arc ℝ)
    (ha : Arc.from_svg_arc arc = some a) :
    a.center + sampleEllipse a.radii a.x_rotation a.start_angle = arc.from := by
  rw [from_svg_arc_real arc h] at ha
  obtain ⟨hrx, hry, hp, hle⟩ := svg_hyps arc h
  have ha := (Option.some.inj ha).symm
  subst ha
  have hn := startV_normSq (la := arc.large_arc) (sw := arc.sweep) hrx hry hp hle
  rw [ellipse_point_of_unit _ _ _ _ _ _ _ (cos_arg_unit hn) (sin_arg_unit hn)]
  simp only [startV]
  rw [mul_div_cancel₀ _ hrx.ne', mul_div_cancel₀ _ hry.ne']
  obtain ⟨e1, e2⟩ := start_point_alg (cos arc.x_rotation) (sin arc.x_rotation) arc.from.x arc.from.y arc.to.x arc.to.y
    (pX arc) (pY arc) (tcx arc.large_arc arc.sweep (pX arc) (pY arc) (radX arc) (radY arc))
    (tcy arc.large_arc arc.sweep (pX arc) (pY arc) (radX arc) (radY arc)) (Real.cos_sq_add_sin_sq _) rfl rfl
  rw [e1, e2]

/-- end point, on the closed form -/
theorem end_point_real (arc : SvgArc ℝ) (h : arc.is_straight_line = false) (a : Arc ℝ)
    (ha : Arc.from_svg_arc arc = some a) :
    a.center + sampleEllipse a.radii a.x_rotation (a.start_angle + a.sweep_angle) = arc.to := by
  rw [from_svg_arc_real arc h] at ha
  obtain ⟨hrx, hry, hp, hle⟩ := svg_hyps arc h
  have ha := (Option.some.inj ha).symm
  subst ha
  rw [ellipse_point_of_unit _ _ _ _ _ _ _ (cos_end (la := arc.large_arc) (sw := arc.sweep) hrx hry hp hle)
    (sin_end (la := arc.large_arc) (sw := arc.sweep) hrx hry hp hle)]
  simp only [endV]
  rw [mul_div_cancel₀ _ hrx.ne', mul_div_cancel₀ _ hry.ne']
  obtain ⟨e1, e2⟩ := end_point_alg (cos arc.x_rotation) (sin arc.x_rotation) arc.from.x arc.from.y arc.to.x arc.to.y
    (pX arc) (pY arc) (tcx arc.large_arc arc.sweep (pX arc) (pY arc) (radX arc) (radY arc))
    (tcy arc.large_arc arc.sweep (pX arc) (pY arc) (radX arc) (radY arc)) (Real.cos_sq_add_sin_sq _) rfl rfl
  rw [e1, e2]

end real2
end Kurbo

namespace Kurbo
open Real SvgArcR
section real3
variable [Scalar ℝ] [LawfulScalar ℝ] [LawfulReal] [LawfulRealAngle]

theorem rot_eq_zero {c s x y : ℝ} (hcs : c ^ 2 + s ^ 2 = 1) (h1 : c * x - s * y = 0) (h2 : s * x + c * y = 0) :
    x = 0 ∧ y = 0 :=
  ⟨by linear_combination c * h1 + s * h2 - x * hcs, by linear_combination c * h2 - s * h1 - y * hcs⟩

/-- `coe ≠ 0`, `p ≠ 0` ⇒ the centre is off the chord midpoint (in the frame of the axes) -/
theorem tc_ne_zero {la sw : Bool} {px py rx ry : ℝ} (hrx : 0 < rx) (hry : 0 < ry) (hp : px ≠ 0 ∨ py ≠ 0)
    (hk : coe la sw px py rx ry ≠ 0) :
    ¬ (tcx la sw px py rx ry = 0 ∧ tcy la sw px py rx ry = 0) := by
  rintro ⟨h1, h2⟩
  unfold tcx at h1; unfold tcy at h2
  rw [div_eq_zero_iff] at h1 h2
  rcases hp with h0 | h0
  · rcases h2 with h2 | h2
    · rcases mul_eq_zero.mp h2 with h3 | h3
      · exact hk (neg_eq_zero.mp h3)
      · exact (mul_ne_zero hry.ne' h0) h3
    · exact hrx.ne' h2
  · rcases h1 with h1 | h1
    · rcases mul_eq_zero.mp h1 with h3 | h3
      · exact hk h3
      · exact (mul_ne_zero hrx.ne' h0) h3
    · exact hry.ne' h1

/-- the centre is the chord midpoint exactly when `1 ≤ rf` -/
theorem center_mid_iff (arc : SvgArc ℝ) (h : arc.is_straight_line = false) (a : Arc ℝ)
    (ha : Arc.from_svg_arc arc = some a) :
    a.center = ⟨(arc.from.x + arc.to.x) * (1/2), (arc.from.y + arc.to.y) * (1/2)⟩ ↔ 1 ≤ rfR arc := by
  rw [from_svg_arc_real arc h] at ha
  obtain ⟨hrx, hry, hp, hle⟩ := svg_hyps arc h
  obtain ⟨h1, h2, -⟩ := (is_straight_line_false_iff arc).mp h
  have hx : 0 < |arc.radii.x| := by linarith
  have hy : 0 < |arc.radii.y| := by linarith
  have ha := (Option.some.inj ha).symm
  subst ha
  simp only [Point.mk.injEq]
  constructor
  · rintro ⟨e1, e2⟩
    by_contra hlt
    have hlt := not_le.mp hlt
    have hk : coe arc.large_arc arc.sweep (pX arc) (pY arc) (radX arc) (radY arc) ≠ 0 := by
      obtain ⟨s1, s2⟩ := coe_sign (la := arc.large_arc) (sw := arc.sweep) hrx hry hp (sumsq_lt arc hx hy hlt)
      by_cases hf : arc.large_arc = arc.sweep
      · exact (s1 hf).ne
      · exact (s2 hf).ne'
    exact tc_ne_zero hrx hry hp hk (rot_eq_zero (Real.cos_sq_add_sin_sq _) (by linarith) (by linarith))
  · intro hge
    have hk := coe_eq_zero (la := arc.large_arc) (sw := arc.sweep) (sumsq_eq arc hx hy hge)
    simp only [tcx, tcy, hk]
    constructor <;> ring

end real3
end Kurbo

namespace Kurbo
/-! ### the concrete arcs of the non-vacuity examples -/
/-- `(0,0) → (2,0)`, radii `(1,1)`: the radii fit exactly (`rf = 1`) -/
noncomputable def exFit : SvgArc ℝ := ⟨⟨0, 0⟩, ⟨2, 0⟩, ⟨1, 1⟩, 0, false, true⟩
/-- `(0,0) → (2,0)`, radii `(2,−2)` (a negative radius is allowed), large arc, negative direction: `rf = 1/4` -/
noncomputable def exBig : SvgArc ℝ := ⟨⟨0, 0⟩, ⟨2, 0⟩, ⟨2, -2⟩, 0, true, false⟩
/-- `(0,0) → (2,0)`, radii `(1/2,1/2)`: too small, `rf = 4`, scaled up by `√4` -/
noncomputable def exSmall : SvgArc ℝ := ⟨⟨0, 0⟩, ⟨2, 0⟩, ⟨1/2, 1/2⟩, 0, false, true⟩

end Kurbo
