import Kurbo.Types
import Mathlib.Algebra.BigOperators.Finprod
import Mathlib.Topology.Order.IntermediateValue
import Mathlib.Topology.MetricSpace.Pseudo.Lemmas
import Mathlib.Order.Monotone.Defs
import Mathlib.Tactic.Linarith
import Mathlib.Tactic.Ring
import Mathlib.Tactic.FieldSimp
/-! C01P – the SPECIFICATION of the ray-crossing count, and its calculus (pure real analysis; no model function, no
    solver, no `winding_inner` occurs in this file).

    For a parametrised curve `f : ℝ → Point ℝ`, a parameter interval `[a, b]` and a query point `p`,
    `rayCross f p a b` is the signed number of crossings of `f|[a,b]` with the closed leftward horizontal ray
    `{(x, p.y) | x ≤ p.x}` from `p`, with the half-open rule "a curve point ON the row counts as not above":

    * a parameter `t ∈ [a,b]` is *on the ray* when `y(t) = p.y` and `x(t) ≤ p.x`;
    * its local index is `[the curve is strictly above the row just after t] − [… just before t]`, where "just after
      `b`" and "just before `a`" count as not above (`locIdx`);
    * `rayCross` is minus the sum of the local indices over the parameters on the ray (`finsum`: the sum over the
      finitely many parameters with non-zero index).  Upward crossings count `−1`, downward ones `+1` (the sign
      convention of `PathSeg::winding_inner`), tangential touches `0`.

    `pieceCross f p a b` is the closed form on ONE piece: row sign times "some parameter of the piece is on the ray".
    Proved here: on a piece on which `y` is strictly monotone / strictly antitone / constant the two agree
    (`rayCross_piece`); additivity over adjacent intervals (`rayCross_add`); invariance under increasing affine
    reparametrisation (`rayCross_comp_affine`) and negation under reversal (`rayCross_comp_neg`); the behaviour of two
    pieces meeting on the row (`pieceCross_join`). -/
set_option linter.unusedSectionVars false
set_option linter.unusedVariables false
set_option linter.unusedSimpArgs false
namespace Kurbo
namespace Ray
open Set Function
noncomputable section
open Classical

/-- the ordinate `y` is strictly above the level `c` immediately after the parameter `t` -/
def AboveAfter (y : ℝ → ℝ) (c t : ℝ) : Prop := ∃ ε, 0 < ε ∧ ∀ s, t < s → s < t + ε → c < y s
/-- the ordinate `y` is strictly above the level `c` immediately before the parameter `t` -/
def AboveBefore (y : ℝ → ℝ) (c t : ℝ) : Prop := ∃ ε, 0 < ε ∧ ∀ s, t - ε < s → s < t → c < y s

/-- local crossing index at `t` of the ordinate restricted to `[a,b]`: `+1` not-above → above, `−1` above → not-above,
    `0` no change of side; beyond the ends of `[a,b]` counts as not above -/
def locIdx (y : ℝ → ℝ) (c a b t : ℝ) : ℤ :=
  (if t < b ∧ AboveAfter y c t then 1 else 0) - (if a < t ∧ AboveBefore y c t then 1 else 0)

/-- contribution of the parameter `t`: non-zero only for `t ∈ [a,b]` on the leftward ray from `p` -/
def crossTerm (f : ℝ → Point ℝ) (p : Point ℝ) (a b t : ℝ) : ℤ :=
  if a ≤ t ∧ t ≤ b ∧ (f t).y = p.y ∧ (f t).x ≤ p.x then - locIdx (fun s => (f s).y) p.y a b t else 0

/-- **the specification**: signed number of crossings of `f|[a,b]` with the leftward ray from `p` -/
def rayCross (f : ℝ → Point ℝ) (p : Point ℝ) (a b : ℝ) : ℤ := ∑ᶠ t, crossTerm f p a b t

/-- closed form for one piece: `−1` (upward) / `+1` (downward) when `p.y` is in the half-open row of the end
    ordinates and some parameter of the piece is on the ray -/
def pieceCross (f : ℝ → Point ℝ) (p : Point ℝ) (a b : ℝ) : ℤ :=
  if (f a).y ≤ p.y ∧ p.y < (f b).y then
    (if ∃ t, a ≤ t ∧ t ≤ b ∧ (f t).y = p.y ∧ (f t).x ≤ p.x then -1 else 0)
  else if (f b).y ≤ p.y ∧ p.y < (f a).y then
    (if ∃ t, a ≤ t ∧ t ≤ b ∧ (f t).y = p.y ∧ (f t).x ≤ p.x then 1 else 0)
  else 0

/-- the parameters with a non-zero contribution are finitely many -/
def FinCross (f : ℝ → Point ℝ) (p : Point ℝ) (a b : ℝ) : Prop := (support (crossTerm f p a b)).Finite

/-! ### one-sided behaviour from pointwise information on `[a,b]` -/
section sides
variable {y : ℝ → ℝ} {c a b t : ℝ}

theorem aboveAfter_of (h : ∀ s ∈ Icc a b, t < s → c < y s) (hat : a ≤ t) (htb : t < b) : AboveAfter y c t :=
  ⟨b - t, by linarith, fun s h1 h2 => h s ⟨by linarith, by linarith⟩ h1⟩

theorem aboveBefore_of (h : ∀ s ∈ Icc a b, s < t → c < y s) (hat : a < t) (htb : t ≤ b) : AboveBefore y c t :=
  ⟨t - a, by linarith, fun s h1 h2 => h s ⟨by linarith, by linarith⟩ h2⟩

theorem not_aboveAfter_of (h : ∀ s ∈ Icc a b, t < s → y s ≤ c) (hat : a ≤ t) (htb : t < b) : ¬ AboveAfter y c t := by
  rintro ⟨ε, hε, hh⟩
  have h1 : t < min b (t + ε / 2) := lt_min htb (by linarith)
  have h2 : min b (t + ε / 2) < t + ε := lt_of_le_of_lt (min_le_right _ _) (by linarith)
  have h3 : min b (t + ε / 2) ∈ Icc a b := ⟨by linarith, min_le_left _ _⟩
  exact absurd (hh _ h1 h2) (not_lt.mpr (h _ h3 h1))

theorem not_aboveBefore_of (h : ∀ s ∈ Icc a b, s < t → y s ≤ c) (hat : a < t) (htb : t ≤ b) : ¬ AboveBefore y c t := by
  rintro ⟨ε, hε, hh⟩
  have h1 : max a (t - ε / 2) < t := max_lt hat (by linarith)
  have h2 : t - ε < max a (t - ε / 2) := lt_of_lt_of_le (by linarith) (le_max_right _ _)
  have h3 : max a (t - ε / 2) ∈ Icc a b := ⟨le_max_left _ _, by linarith⟩
  exact absurd (hh _ h2 h1) (not_lt.mpr (h _ h3 h1))

end sides

/-! ### one piece -/
section piece
variable {f : ℝ → Point ℝ} {p : Point ℝ} {a b : ℝ}

theorem crossTerm_of_not {t : ℝ} (h : ¬ (a ≤ t ∧ t ≤ b ∧ (f t).y = p.y ∧ (f t).x ≤ p.x)) :
    crossTerm f p a b t = 0 := by unfold crossTerm; rw [if_neg h]

theorem finCross_of_zero (h : ∀ t, crossTerm f p a b t = 0) : FinCross f p a b := by
  have : support (crossTerm f p a b) = ∅ := by
    ext t; simp only [mem_support, ne_eq, mem_empty_iff_false, iff_false, not_not]; exact h t
  unfold FinCross; rw [this]; exact finite_empty

theorem rayCross_of_zero (h : ∀ t, crossTerm f p a b t = 0) : rayCross f p a b = 0 :=
  finsum_eq_zero_of_forall_eq_zero h

theorem finCross_of_single (ts : ℝ) (h : ∀ t, t ≠ ts → crossTerm f p a b t = 0) : FinCross f p a b :=
  (finite_singleton ts).subset fun t ht => by
    by_contra hne
    exact ht (h t hne)

/-- strictly increasing ordinate -/
theorem rayCross_strictMono (hab : a ≤ b) (hc : ContinuousOn (fun t => (f t).y) (Icc a b))
    (hm : StrictMonoOn (fun t => (f t).y) (Icc a b)) :
    FinCross f p a b ∧ rayCross f p a b = pieceCross f p a b := by
  have hmono := hm.monotoneOn
  by_cases hrow : (f a).y ≤ p.y ∧ p.y < (f b).y
  · obtain ⟨ts, hts, hys⟩ := intermediate_value_Icc hab hc ⟨hrow.1, hrow.2.le⟩
    have hys : (f ts).y = p.y := hys
    have htb : ts < b := by
      rcases lt_or_eq_of_le hts.2 with h | h
      · exact h
      · rw [h] at hys; linarith [hrow.2]
    have huniq : ∀ t, a ≤ t → t ≤ b → (f t).y = p.y → t = ts := fun t h1 h2 h3 =>
      hm.injOn ⟨h1, h2⟩ hts (show (f t).y = (f ts).y by rw [h3, hys])
    have hzero : ∀ t, t ≠ ts → crossTerm f p a b t = 0 := fun t hne =>
      crossTerm_of_not fun h => hne (huniq t h.1 h.2.1 h.2.2.1)
    have hidx : locIdx (fun s => (f s).y) p.y a b ts = 1 := by
      unfold locIdx
      rw [if_pos ⟨htb, aboveAfter_of (a := a) (b := b)
          (fun s hs h => by rw [← hys]; exact hm hts hs h) hts.1 htb⟩,
        if_neg (fun h => not_aboveBefore_of (a := a) (b := b)
          (fun s hs hlt => by rw [← hys]; exact (hm hs hts hlt).le) h.1 hts.2 h.2)]
      rfl
    refine ⟨finCross_of_single ts hzero, ?_⟩
    unfold rayCross
    rw [finsum_eq_single _ ts hzero]
    unfold pieceCross crossTerm
    rw [if_pos hrow]
    by_cases hx : (f ts).x ≤ p.x
    · rw [if_pos ⟨hts.1, hts.2, hys, hx⟩, if_pos ⟨ts, hts.1, hts.2, hys, hx⟩, hidx]
    · rw [if_neg (fun h => hx h.2.2.2), if_neg]
      rintro ⟨t, h1, h2, h3, h4⟩
      rw [huniq t h1 h2 h3] at h4
      exact hx h4
  · have hzero : ∀ t, crossTerm f p a b t = 0 := by
      intro t
      by_cases hcnd : a ≤ t ∧ t ≤ b ∧ (f t).y = p.y ∧ (f t).x ≤ p.x
      · obtain ⟨h1, h2, h3, h4⟩ := hcnd
        have hya : (f a).y ≤ p.y := by rw [← h3]; exact hmono ⟨le_rfl, hab⟩ ⟨h1, h2⟩ h1
        have hyb : (f b).y ≤ p.y := not_lt.mp fun h => hrow ⟨hya, h⟩
        have htb : t = b := by
          rcases lt_or_eq_of_le h2 with h | h
          · have := hm ⟨h1, h2⟩ ⟨hab, le_rfl⟩ h
            simp only at this
            linarith
          · exact h
        subst htb
        unfold crossTerm
        rw [if_pos ⟨h1, h2, h3, h4⟩]
        unfold locIdx
        rw [if_neg (fun h => lt_irrefl _ h.1),
          if_neg (fun h => not_aboveBefore_of (a := a) (b := t)
            (fun s hs hlt => by rw [← h3]; exact (hm hs ⟨h1, le_rfl⟩ hlt).le) h.1 le_rfl h.2)]
        rfl
      · exact crossTerm_of_not hcnd
    refine ⟨finCross_of_zero hzero, ?_⟩
    rw [rayCross_of_zero hzero]
    unfold pieceCross
    rw [if_neg hrow, if_neg]
    rintro ⟨h1, h2⟩
    have := hmono ⟨le_rfl, hab⟩ ⟨hab, le_rfl⟩ hab
    simp only at this
    linarith

/-- strictly decreasing ordinate -/
theorem rayCross_strictAnti (hab : a ≤ b) (hc : ContinuousOn (fun t => (f t).y) (Icc a b))
    (hm : StrictAntiOn (fun t => (f t).y) (Icc a b)) :
    FinCross f p a b ∧ rayCross f p a b = pieceCross f p a b := by
  have hanti := hm.antitoneOn
  have hba : (f b).y ≤ (f a).y := hanti ⟨le_rfl, hab⟩ ⟨hab, le_rfl⟩ hab
  by_cases hrow : (f b).y ≤ p.y ∧ p.y < (f a).y
  · obtain ⟨ts, hts, hys⟩ := intermediate_value_Icc' hab hc ⟨hrow.1, hrow.2.le⟩
    have hys : (f ts).y = p.y := hys
    have hat : a < ts := by
      rcases lt_or_eq_of_le hts.1 with h | h
      · exact h
      · rw [← h] at hys; linarith [hrow.2]
    have huniq : ∀ t, a ≤ t → t ≤ b → (f t).y = p.y → t = ts := fun t h1 h2 h3 =>
      hm.injOn ⟨h1, h2⟩ hts (show (f t).y = (f ts).y by rw [h3, hys])
    have hzero : ∀ t, t ≠ ts → crossTerm f p a b t = 0 := fun t hne =>
      crossTerm_of_not fun h => hne (huniq t h.1 h.2.1 h.2.2.1)
    have hidx : locIdx (fun s => (f s).y) p.y a b ts = -1 := by
      unfold locIdx
      rw [if_neg (fun h => not_aboveAfter_of (a := a) (b := b)
          (fun s hs hlt => by rw [← hys]; exact (hm hts hs hlt).le) hts.1 h.1 h.2),
        if_pos ⟨hat, aboveBefore_of (a := a) (b := b)
          (fun s hs h => by rw [← hys]; exact hm hs hts h) hat hts.2⟩]
      rfl
    refine ⟨finCross_of_single ts hzero, ?_⟩
    unfold rayCross
    rw [finsum_eq_single _ ts hzero]
    unfold pieceCross crossTerm
    rw [if_neg (show ¬ ((f a).y ≤ p.y ∧ p.y < (f b).y) from fun h => by linarith [h.1, h.2, hrow.1, hrow.2]),
      if_pos hrow]
    by_cases hx : (f ts).x ≤ p.x
    · rw [if_pos ⟨hts.1, hts.2, hys, hx⟩, if_pos ⟨ts, hts.1, hts.2, hys, hx⟩, hidx]; rfl
    · rw [if_neg (fun h => hx h.2.2.2), if_neg]
      rintro ⟨t, h1, h2, h3, h4⟩
      rw [huniq t h1 h2 h3] at h4
      exact hx h4
  · have hzero : ∀ t, crossTerm f p a b t = 0 := by
      intro t
      by_cases hcnd : a ≤ t ∧ t ≤ b ∧ (f t).y = p.y ∧ (f t).x ≤ p.x
      · obtain ⟨h1, h2, h3, h4⟩ := hcnd
        have hyb : (f b).y ≤ p.y := by rw [← h3]; exact hanti ⟨h1, h2⟩ ⟨hab, le_rfl⟩ h2
        have hya : (f a).y ≤ p.y := not_lt.mp fun h => hrow ⟨hyb, h⟩
        have hta : t = a := by
          rcases lt_or_eq_of_le h1 with h | h
          · have := hm ⟨le_rfl, hab⟩ ⟨h1, h2⟩ h
            simp only at this
            linarith
          · exact h.symm
        subst hta
        unfold crossTerm
        rw [if_pos ⟨h1, h2, h3, h4⟩]
        unfold locIdx
        rw [if_neg (fun h => not_aboveAfter_of (a := t) (b := b)
            (fun s hs hlt => by rw [← h3]; exact (hm ⟨le_rfl, h2⟩ hs hlt).le) le_rfl h.1 h.2),
          if_neg (fun h => lt_irrefl _ h.1)]
        rfl
      · exact crossTerm_of_not hcnd
    refine ⟨finCross_of_zero hzero, ?_⟩
    rw [rayCross_of_zero hzero]
    unfold pieceCross
    rw [if_neg (fun h => by linarith [h.1, h.2]), if_neg hrow]

/-- constant ordinate -/
theorem rayCross_const (hab : a ≤ b) (hk : ∀ t ∈ Icc a b, (f t).y = (f a).y) :
    FinCross f p a b ∧ rayCross f p a b = pieceCross f p a b := by
  have hzero : ∀ t, crossTerm f p a b t = 0 := by
    intro t
    by_cases hcnd : a ≤ t ∧ t ≤ b ∧ (f t).y = p.y ∧ (f t).x ≤ p.x
    · obtain ⟨h1, h2, h3, h4⟩ := hcnd
      have hall : ∀ s ∈ Icc a b, (f s).y ≤ p.y := fun s hs => by
        rw [hk s hs, ← hk t ⟨h1, h2⟩, h3]
      unfold crossTerm
      rw [if_pos ⟨h1, h2, h3, h4⟩]
      unfold locIdx
      rw [if_neg (fun h => not_aboveAfter_of (a := a) (b := b) (fun s hs _ => hall s hs) h1 h.1 h.2),
        if_neg (fun h => not_aboveBefore_of (a := a) (b := b) (fun s hs _ => hall s hs) h.1 h2 h.2)]
      rfl
    · exact crossTerm_of_not hcnd
  refine ⟨finCross_of_zero hzero, ?_⟩
  rw [rayCross_of_zero hzero]
  unfold pieceCross
  have e : (f b).y = (f a).y := hk b ⟨hab, le_rfl⟩
  rw [if_neg (fun h => by linarith [h.1, h.2]), if_neg (fun h => by linarith [h.1, h.2])]

/-- **one y-monotone piece**: the crossing count is the closed form -/
theorem rayCross_piece (hab : a ≤ b) (hc : ContinuousOn (fun t => (f t).y) (Icc a b))
    (hm : StrictMonoOn (fun t => (f t).y) (Icc a b) ∨ StrictAntiOn (fun t => (f t).y) (Icc a b) ∨
      ∀ t ∈ Icc a b, (f t).y = (f a).y) :
    FinCross f p a b ∧ rayCross f p a b = pieceCross f p a b := by
  rcases hm with h | h | h
  · exact rayCross_strictMono hab hc h
  · exact rayCross_strictAnti hab hc h
  · exact rayCross_const hab h

/-- the closed form on a y-injective piece, evaluated at the crossing parameter -/
theorem pieceCross_at {ts : ℝ} (hinj : InjOn (fun t => (f t).y) (Icc a b)) (h0 : a ≤ ts) (h1 : ts ≤ b)
    (hy : (f ts).y = p.y) :
    pieceCross f p a b =
      (if (f a).y ≤ p.y ∧ p.y < (f b).y then -1 else if (f b).y ≤ p.y ∧ p.y < (f a).y then 1 else 0)
        * (if (f ts).x ≤ p.x then 1 else 0) := by
  have hiff : (∃ t, a ≤ t ∧ t ≤ b ∧ (f t).y = p.y ∧ (f t).x ≤ p.x) ↔ (f ts).x ≤ p.x := by
    constructor
    · rintro ⟨t, h2, h3, h4, h5⟩
      have : t = ts := hinj ⟨h2, h3⟩ ⟨h0, h1⟩ (show (f t).y = (f ts).y by rw [h4, hy])
      rw [← this]; exact h5
    · intro h; exact ⟨ts, h0, h1, hy, h⟩
  unfold pieceCross
  by_cases hx : (f ts).x ≤ p.x
  · rw [if_pos (hiff.mpr hx), if_pos (hiff.mpr hx), if_pos hx, mul_one]
  · rw [if_neg (fun h => hx (hiff.mp h)), if_neg (fun h => hx (hiff.mp h)), if_neg hx, mul_zero]
    split_ifs <;> rfl

/-- outside the half-open row the closed form is `0` -/
theorem pieceCross_offRow (h1 : ¬ ((f a).y ≤ p.y ∧ p.y < (f b).y)) (h2 : ¬ ((f b).y ≤ p.y ∧ p.y < (f a).y)) :
    pieceCross f p a b = 0 := by
  unfold pieceCross; rw [if_neg h1, if_neg h2]

end piece

/-! ### additivity over adjacent intervals -/
section additivity
variable {f : ℝ → Point ℝ} {p : Point ℝ} {a b c : ℝ}

theorem crossTerm_add (hab : a ≤ b) (hbc : b ≤ c) (t : ℝ) :
    crossTerm f p a c t = crossTerm f p a b t + crossTerm f p b c t := by
  by_cases hr : (f t).y = p.y ∧ (f t).x ≤ p.x
  · obtain ⟨hr1, hr2⟩ := hr
    rcases lt_trichotomy t b with h | h | h
    · have e1 : crossTerm f p b c t = 0 := crossTerm_of_not fun hh => absurd hh.1 (not_le.mpr h)
      rw [e1, add_zero]
      unfold crossTerm locIdx
      have h2 : t < c := lt_of_lt_of_le h hbc
      simp only [h, h2, h.le, h2.le, hr1, hr2, true_and, and_true]
    · subst h
      unfold crossTerm locIdx
      simp only [hab, hbc, le_refl, lt_irrefl, hr1, hr2, true_and, and_true, false_and, if_false, if_true]
      by_cases hB : a < t ∧ AboveBefore (fun s => (f s).y) p.y t
      · have hB' : a < t := hB.1
        by_cases hA : t < c ∧ AboveAfter (fun s => (f s).y) p.y t
        · simp only [hB, hA, if_true]; ring
        · simp only [hB, hA, if_true, if_false]; ring
      · by_cases hA : t < c ∧ AboveAfter (fun s => (f s).y) p.y t
        · simp only [hB, hA, if_true, if_false]; ring
        · simp only [hB, hA, if_false]; ring
    · have e1 : crossTerm f p a b t = 0 := crossTerm_of_not fun hh => absurd hh.2.1 (not_le.mpr h)
      rw [e1, zero_add]
      unfold crossTerm locIdx
      have h2 : a < t := lt_of_le_of_lt hab h
      simp only [h, h2, h.le, h2.le, hr1, hr2, true_and, and_true]
  · rw [crossTerm_of_not fun hh => hr hh.2.2, crossTerm_of_not fun hh => hr hh.2.2,
      crossTerm_of_not fun hh => hr hh.2.2, add_zero]

/-- **additivity**: the count over `[a,c]` is the sum of the counts over `[a,b]` and `[b,c]` -/
theorem rayCross_add (hab : a ≤ b) (hbc : b ≤ c) (h1 : FinCross f p a b) (h2 : FinCross f p b c) :
    FinCross f p a c ∧ rayCross f p a c = rayCross f p a b + rayCross f p b c := by
  constructor
  · refine (h1.union h2).subset fun t ht => ?_
    by_contra hne
    rw [mem_union, not_or, mem_support, mem_support, not_not, not_not] at hne
    exact ht (by rw [crossTerm_add hab hbc, hne.1, hne.2, add_zero])
  · unfold rayCross
    rw [← finsum_add_distrib h1 h2]
    exact finsum_congr (crossTerm_add hab hbc)

/-- finiteness passes to sub-intervals -/
theorem finCross_sub {a' b' : ℝ} (h : FinCross f p a' b') (ha : a' ≤ a) (hb : b ≤ b') : FinCross f p a b := by
  refine ((h.union (finite_singleton a)).union (finite_singleton b)).subset fun t ht => ?_
  by_contra hne
  simp only [mem_union, mem_singleton_iff, not_or, mem_support, not_not] at hne
  obtain ⟨⟨h0, hta⟩, htb⟩ := hne
  apply ht
  by_cases hcnd : a ≤ t ∧ t ≤ b ∧ (f t).y = p.y ∧ (f t).x ≤ p.x
  · obtain ⟨c1, c2, c3, c4⟩ := hcnd
    have l1 : a < t := lt_of_le_of_ne c1 (Ne.symm hta)
    have l2 : t < b := lt_of_le_of_ne c2 htb
    rw [← h0]
    unfold crossTerm locIdx
    have l3 : a' < t := lt_of_le_of_lt ha l1
    have l4 : t < b' := lt_of_lt_of_le l2 hb
    simp only [l1, l2, l3, l4, l1.le, l2.le, l3.le, l4.le, c3, c4, true_and, and_true]
  · exact crossTerm_of_not hcnd

end additivity

/-! ### reparametrisation -/
section reparam
variable {f : ℝ → Point ℝ} {p : Point ℝ}

theorem aboveAfter_affine (y : ℝ → ℝ) (c m k : ℝ) (hk : 0 < k) (u : ℝ) :
    AboveAfter (fun v => y (m + v * k)) c u ↔ AboveAfter y c (m + u * k) := by
  constructor
  · rintro ⟨ε, hε, h⟩
    refine ⟨ε * k, by positivity, fun s h1 h2 => ?_⟩
    have e : s = m + ((s - m) / k) * k := by field_simp; ring
    rw [e]
    apply h
    · rw [lt_div_iff₀ hk]; linarith
    · rw [div_lt_iff₀ hk]; nlinarith
  · rintro ⟨ε, hε, h⟩
    refine ⟨ε / k, by positivity, fun s h1 h2 => ?_⟩
    apply h
    · nlinarith
    · have : s * k < (u + ε / k) * k := by nlinarith
      have e : (u + ε / k) * k = u * k + ε := by field_simp
      linarith

theorem aboveBefore_affine (y : ℝ → ℝ) (c m k : ℝ) (hk : 0 < k) (u : ℝ) :
    AboveBefore (fun v => y (m + v * k)) c u ↔ AboveBefore y c (m + u * k) := by
  constructor
  · rintro ⟨ε, hε, h⟩
    refine ⟨ε * k, by positivity, fun s h1 h2 => ?_⟩
    have e : s = m + ((s - m) / k) * k := by field_simp; ring
    rw [e]
    apply h
    · rw [lt_div_iff₀ hk]; nlinarith
    · rw [div_lt_iff₀ hk]; linarith
  · rintro ⟨ε, hε, h⟩
    refine ⟨ε / k, by positivity, fun s h1 h2 => ?_⟩
    apply h
    · have : (u - ε / k) * k < s * k := by nlinarith
      have e : (u - ε / k) * k = u * k - ε := by field_simp
      linarith
    · nlinarith

theorem crossTerm_affine (m k : ℝ) (hk : 0 < k) (a b u : ℝ) :
    crossTerm (fun v => f (m + v * k)) p a b u = crossTerm f p (m + a * k) (m + b * k) (m + u * k) := by
  unfold crossTerm locIdx
  have e1 : a ≤ u ↔ m + a * k ≤ m + u * k := by
    constructor <;> intro h <;> nlinarith
  have e2 : u ≤ b ↔ m + u * k ≤ m + b * k := by
    constructor <;> intro h <;> nlinarith
  have e3 : a < u ↔ m + a * k < m + u * k := by
    constructor <;> intro h <;> nlinarith
  have e4 : u < b ↔ m + u * k < m + b * k := by
    constructor <;> intro h <;> nlinarith
  have e5 := aboveAfter_affine (fun s => (f s).y) p.y m k hk u
  have e6 := aboveBefore_affine (fun s => (f s).y) p.y m k hk u
  simp only [e1, e2, e3, e4, e5, e6]

theorem affine_bijective (m k : ℝ) (hk : k ≠ 0) : Bijective (fun u : ℝ => m + u * k) := by
  constructor
  · intro u v h
    have : u * k = v * k := by simpa using h
    exact mul_right_cancel₀ hk this
  · intro t
    exact ⟨(t - m) / k, by field_simp; ring⟩

/-- **increasing affine reparametrisation** `v ↦ m + v·k`, `k > 0` -/
theorem rayCross_comp_affine (m k : ℝ) (hk : 0 < k) (a b : ℝ) :
    rayCross (fun v => f (m + v * k)) p a b = rayCross f p (m + a * k) (m + b * k) := by
  unfold rayCross
  exact finsum_eq_of_bijective (fun u : ℝ => m + u * k) (affine_bijective m k hk.ne')
    (fun u => crossTerm_affine m k hk a b u)

theorem aboveAfter_neg (y : ℝ → ℝ) (c m u : ℝ) :
    AboveAfter (fun v => y (m - v)) c u ↔ AboveBefore y c (m - u) := by
  constructor
  · rintro ⟨ε, hε, h⟩
    refine ⟨ε, hε, fun s h1 h2 => ?_⟩
    have e : s = m - (m - s) := by ring
    rw [e]; apply h <;> linarith
  · rintro ⟨ε, hε, h⟩
    exact ⟨ε, hε, fun s h1 h2 => h (m - s) (by linarith) (by linarith)⟩

theorem aboveBefore_neg (y : ℝ → ℝ) (c m u : ℝ) :
    AboveBefore (fun v => y (m - v)) c u ↔ AboveAfter y c (m - u) := by
  constructor
  · rintro ⟨ε, hε, h⟩
    refine ⟨ε, hε, fun s h1 h2 => ?_⟩
    have e : s = m - (m - s) := by ring
    rw [e]; apply h <;> linarith
  · rintro ⟨ε, hε, h⟩
    exact ⟨ε, hε, fun s h1 h2 => h (m - s) (by linarith) (by linarith)⟩

theorem crossTerm_neg (m a b u : ℝ) :
    crossTerm (fun v => f (m - v)) p a b u = - crossTerm f p (m - b) (m - a) (m - u) := by
  unfold crossTerm locIdx
  have e1 : a ≤ u ↔ m - u ≤ m - a := by constructor <;> intro h <;> linarith
  have e2 : u ≤ b ↔ m - b ≤ m - u := by constructor <;> intro h <;> linarith
  have e3 : a < u ↔ m - u < m - a := by constructor <;> intro h <;> linarith
  have e4 : u < b ↔ m - b < m - u := by constructor <;> intro h <;> linarith
  have e5 := aboveAfter_neg (fun s => (f s).y) p.y m u
  have e6 := aboveBefore_neg (fun s => (f s).y) p.y m u
  simp only [e1, e2, e3, e4, e5, e6]
  by_cases hc : m - b ≤ m - u ∧ m - u ≤ m - a ∧ (f (m - u)).y = p.y ∧ (f (m - u)).x ≤ p.x
  · rw [if_pos ⟨hc.2.1, hc.1, hc.2.2⟩, if_pos hc]; ring
  · rw [if_neg (fun h => hc ⟨h.2.1, h.1, h.2.2⟩), if_neg hc]; rfl

/-- **reversal** `v ↦ m − v` negates the count -/
theorem rayCross_comp_neg (m a b : ℝ) :
    rayCross (fun v => f (m - v)) p a b = - rayCross f p (m - b) (m - a) := by
  unfold rayCross
  rw [← finsum_neg_distrib]
  refine finsum_eq_of_bijective (fun u : ℝ => m - u) ?_ (fun u => crossTerm_neg m a b u)
  constructor
  · intro u v h
    have : m - u = m - v := h
    linarith
  · intro t; exact ⟨m - t, by ring⟩

end reparam

/-! ### two pieces meeting on the row of the query point -/
section join
variable {f g : ℝ → Point ℝ} {p : Point ℝ} {a b c d : ℝ}

/-- two y-injective, non-degenerate pieces `f|[a,b]` and `g|[c,d]` sharing the point `f b = g c` whose ordinate is
    `p.y` (a vertex of the path, or an extremum of a segment, on the row of the query point): the two contributions
    add up to ONE crossing when the curve passes through the row there and the shared point is on the ray, and to
    ZERO when it only touches the row (local extremum) or when the shared point is right of `p` -/
theorem pieceCross_join (hab : a < b) (hcd : c < d) (hfg : f b = g c) (hy : (f b).y = p.y)
    (hf : InjOn (fun t => (f t).y) (Icc a b)) (hg : InjOn (fun t => (g t).y) (Icc c d)) :
    pieceCross f p a b + pieceCross g p c d =
      if (f b).x ≤ p.x then
        (if (f a).y < p.y ∧ p.y < (g d).y then -1 else if (g d).y < p.y ∧ p.y < (f a).y then 1 else 0)
      else 0 := by
  have hyg : (g c).y = p.y := by rw [← hfg]; exact hy
  rw [pieceCross_at hf hab.le le_rfl hy, pieceCross_at hg le_rfl hcd.le hyg, ← hfg]
  have hane : (f a).y ≠ p.y := fun h =>
    absurd (hf ⟨le_rfl, hab.le⟩ ⟨hab.le, le_rfl⟩ (show (f a).y = (f b).y by rw [h, hy])) hab.ne
  have hdne : (g d).y ≠ p.y := fun h =>
    absurd (hg ⟨hcd.le, le_rfl⟩ ⟨le_rfl, hcd.le⟩ (show (g d).y = (g c).y by rw [h, hyg])) hcd.ne'
  rw [hy]
  simp only [lt_irrefl, and_false, le_refl, true_and, if_false]
  by_cases hx : (f b).x ≤ p.x
  · simp only [hx, if_true, mul_one]
    rcases lt_or_gt_of_ne hane with ha | ha <;> rcases lt_or_gt_of_ne hdne with hd | hd
    · simp only [ha, hd, lt_asymm ha, lt_asymm hd, if_true, if_false, and_true, and_false, true_and, false_and]
      rfl
    · simp only [ha, hd, lt_asymm ha, lt_asymm hd, if_true, if_false, and_true, and_false, true_and, false_and]
      rfl
    · simp only [ha, hd, lt_asymm ha, lt_asymm hd, if_true, if_false, and_true, and_false, true_and, false_and]
      rfl
    · simp only [ha, hd, lt_asymm ha, lt_asymm hd, if_true, if_false, and_true, and_false, true_and, false_and]
      rfl
  · simp only [hx, if_false, mul_zero, add_zero]

end join

end
end Ray
end Kurbo
