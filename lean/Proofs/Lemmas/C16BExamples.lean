import Proofs.Lemmas.C16BCanon
import Proofs.Lemmas.C16BDecide
import Proofs.Lemmas.C16BWriter
/-! C16B: concrete data for the non-vacuity examples of `Proofs/C16B.lean`. -/
namespace Kurbo

/-- spelling of the integers `-9 … 9` (one digit, `-` for negative ones) -/
def c16b_exSpell (x : Rat) : NumParts := { sign := if x < 0 then [45] else [], ip := [48 + x.num.natAbs.toUInt8] }

/-- `M1 2 L3 4 c1 0 2 -1 3 0 S8 1 9 0 h-2 Zt1 1 Q1 2 3 4 T5 4 V7 z` -/
def c16b_exCmds : List (C16Cmd Rat) :=
  [.moveTo false ⟨1, 2⟩, .lineTo false ⟨3, 4⟩, .curveTo true ⟨1, 0⟩ ⟨2, -1⟩ ⟨3, 0⟩, .smoothCurveTo false ⟨8, 1⟩ ⟨9, 0⟩,
   .horiz true (-2), .close false, .smoothQuadTo true ⟨1, 1⟩, .quadTo false ⟨1, 2⟩ ⟨3, 4⟩, .smoothQuadTo false ⟨5, 4⟩,
   .vert false 7, .close true]

/-- `" M1,2 3 4l-1-.5Z\n"`: leading white space, a comma, an implicit `L` after `M`, packed signs and a leading period, trailing
    white space -/
def c16b_exSpelled : List C16Spelled :=
  [{ ws := [32], cmd := .moveTo false ⟨{ p := { ip := [49] }, sep := [44] }, { p := { ip := [50] }, sep := [32] }⟩ },
   { explicit := false, cmd := .lineTo false ⟨{ p := { ip := [51] }, sep := [32] }, { p := { ip := [52] } }⟩ },
   { cmd := .lineTo true ⟨{ p := { sign := [45], ip := [49] } }, { p := { sign := [45], ip := [], dot := true, fd := [53] } }⟩ },
   { cmd := .close false }]

/-- `M1,2 L3,4 Q5,6 7,8 C1,2 3,4 -5,6 Z M1,1 L2,2 Z` -/
def c16b_exEls : List (PathEl Rat) :=
  [.MoveTo ⟨1, 2⟩, .LineTo ⟨3, 4⟩, .QuadTo ⟨5, 6⟩ ⟨7, 8⟩, .CurveTo ⟨1, 2⟩ ⟨3, 4⟩ ⟨-5, 6⟩, .ClosePath, .MoveTo ⟨1, 1⟩,
   .LineTo ⟨2, 2⟩, .ClosePath]

def c16b_decCloseThenMove {α : Type} : (cs : List (C16Cmd α)) → Decidable (c16b_closeThenMove cs)
  | [] => isTrue trivial
  | [_] => isTrue trivial
  | c :: d :: cs =>
    have := c16b_decCloseThenMove (d :: cs)
    inferInstanceAs (Decidable ((c.isClose = true → d.isMove = true) ∧ c16b_closeThenMove (d :: cs)))

instance {α : Type} (cs : List (C16Cmd α)) : Decidable (c16b_closeThenMove cs) := c16b_decCloseThenMove cs

end Kurbo
