import Mathlib.Analysis.Calculus.Deriv.Polynomial
import Mathlib.Analysis.Calculus.LocalExtr.Basic
import Mathlib.Topology.Order.Compact
import Mathlib.Tactic.Ring
import Mathlib.Tactic.Linarith
/-! calculus helper lemmas (ℝ) -/
namespace Kurbo

theorem hasDerivAt_poly3 (k0 k1 k2 k3 t : ℝ) :
    HasDerivAt (fun x : ℝ => k0 + k1 * x + k2 * x ^ 2 + k3 * x ^ 3) (k1 + k2 * (2 * t) + k3 * (3 * t ^ 2)) t := by
  open Polynomial in
  have h := (C k0 + C k1 * X + C k2 * X ^ 2 + C k3 * X ^ 3 : ℝ[X]).hasDerivAt t
  simp only [eval_add, eval_mul, eval_C, eval_X, eval_pow, derivative_add, derivative_mul, derivative_C,
    derivative_X, derivative_X_pow, zero_mul, zero_add, mul_one, Nat.cast_ofNat] at h
  have e : k1 + k2 * (2 * t) + k3 * (3 * t ^ 2) = k1 + k2 * (2 * t ^ (2 - 1)) + k3 * (3 * t ^ (3 - 1)) := by norm_num
  rw [e]; exact h

/-- a differentiable function on [0,1] is bounded by any bound on its end values and its interior critical values -/
theorem le_of_crit_bound {f f' : ℝ → ℝ} (hf : ∀ t, HasDerivAt f (f' t) t) (crit : ℝ → Prop)
    (hcrit : ∀ t, 0 < t → t < 1 → f' t = 0 → crit t) (M : ℝ)
    (h0 : f 0 ≤ M) (h1 : f 1 ≤ M) (hM : ∀ t, 0 < t → t < 1 → crit t → f t ≤ M) :
    ∀ t ∈ Set.Icc (0:ℝ) 1, f t ≤ M := by
  have hcont : ContinuousOn f (Set.Icc 0 1) := fun t _ => (hf t).continuousAt.continuousWithinAt
  obtain ⟨ts, hts, hmax⟩ := isCompact_Icc.exists_isMaxOn (⟨0, by simp⟩ : (Set.Icc (0:ℝ) 1).Nonempty) hcont
  intro t ht
  have hle : f t ≤ f ts := hmax ht
  suffices f ts ≤ M by linarith
  rcases hts.1.eq_or_lt with e0 | e0
  · rw [← e0]; exact h0
  rcases hts.2.eq_or_lt with e1 | e1
  · rw [e1]; exact h1
  have hloc : IsLocalMax f ts := hmax.isLocalMax (Icc_mem_nhds e0 e1)
  have hd : f' ts = 0 := hloc.hasDerivAt_eq_zero (hf ts)
  exact hM ts e0 e1 (hcrit ts e0 e1 hd)

end Kurbo
