import Proofs.KDefs
import Proofs.Lemmas.C10Struct
import Proofs.Lemmas.C07Inst
import Proofs.Lemmas.C15Real
import Mathlib.Analysis.SpecialFunctions.Trigonometric.Basic
import Mathlib.Analysis.SpecialFunctions.Trigonometric.Deriv
import Mathlib.Tactic.LinearCombination
/-! Helper lemmas for C10, part 2: lawful scalars and the real numbers with the trigonometric laws. -/
set_option linter.unusedSectionVars false
namespace Kurbo

/-! ### any lawful scalar -/
section lawful
variable {K : Type} [Field K] [LinearOrder K] [IsStrictOrderedRing K] [FloorRing K] [Scalar K] [LawfulScalar K]

@[scalar_norm] theorem sn_natK (n : Nat) : (natK n : K) = (n : K) := by
  unfold natK; rw [sn_ofRat]; simp

theorem ofNat_zero_eq : (@OfNat.ofNat K 0 Ops.instOfNat) = (0 : K) := by
  simp only [scalar_norm]; push_cast; rfl

theorem fracPi2_eq : (fracPi2 : K) = Scalar.pi / 2 := by
  unfold fracPi2; simp only [scalar_norm]; push_cast; rfl

theorem twoPi_eq : (twoPi : K) = 2 * Scalar.pi := by
  unfold twoPi; simp only [scalar_norm]; push_cast; rfl

theorem accAngle_eq (start step : K) (k : Nat) : accAngle start step k = start + k * step := by
  induction k with
  | zero => simp [accAngle]
  | succ k ih => rw [accAngle, sn_add, ih]; push_cast; ring

theorem sampleEllipse_eq (radii : Vec2 K) (rot θ : K) :
    sampleEllipse radii rot θ
      = ⟨radii.x * Scalar.cos θ * Scalar.cos rot - radii.y * Scalar.sin θ * Scalar.sin rot,
         radii.x * Scalar.cos θ * Scalar.sin rot + radii.y * Scalar.sin θ * Scalar.cos rot⟩ := by
  simp only [sampleEllipse, rotatePt, kdefs, scalar_norm]

theorem circleTheta_eq (n k : Nat) : (circleTheta n k : K) = 2 * Scalar.pi / n * k := by
  simp only [circleTheta, scalar_norm]; push_cast; rfl

theorem circleTh0_eq (n k : Nat) : (circleTh0 n k : K) = 2 * Scalar.pi / n * k := by
  simp only [circleTh0, circleTheta, scalar_norm]; push_cast; ring

theorem circleStart_eq (c : Circle K) : circleStart c = ⟨c.center.x + c.radius, c.center.y⟩ := by
  simp only [circleStart, scalar_norm]

/-- the literal `(0, 1)` of the last piece: the chain of a circle ends EXACTLY on the `MoveTo` point -/
theorem circle_chain_closed (c : Circle K) (n : Nat) :
    chainStart (circleStart c) (circleEnd c n) n = circleStart c := by
  cases n with
  | zero => rfl
  | succ n =>
    show circleEnd c (n + 1) n = _
    rw [circleEnd_last, circleStart_eq]
    simp only [scalar_norm, Point.mk.injEq]; push_cast
    constructor <;> ring

/-- control arms of an arc piece: `p1 − p0 = arm·S'(θ_k)`, `p3 − p2 = arm·S'(θ_{k+1})` with `S' θ = S(θ + π/2)` -/
theorem arc_arms (c : Point K) (radii : Vec2 K) (rot arm step start : K) (k : Nat) :
    arcC1 c radii rot arm step start k - arcPt c radii rot step start k
      = (⟨arm * (sampleEllipse radii rot (accAngle start step k + fracPi2)).x,
          arm * (sampleEllipse radii rot (accAngle start step k + fracPi2)).y⟩ : Vec2 K) ∧
    arcPt c radii rot step start (k + 1) - arcC2 c radii rot arm step start k
      = (⟨arm * (sampleEllipse radii rot (accAngle start step (k + 1) + fracPi2)).x,
          arm * (sampleEllipse radii rot (accAngle start step (k + 1) + fracPi2)).y⟩ : Vec2 K) := by
  simp only [arcC1, arcC2, arcPt, kdefs, scalar_norm, Vec2.mk.injEq]
  refine ⟨⟨?_, ?_⟩, ⟨?_, ?_⟩⟩ <;> ring

/-- lawful scalar: the circle contour closes exactly, so `segs` is the `n` cubics and nothing else -/
theorem circle_segs_lawful (c : Circle K) (tol : K) :
    segs (c.path_elements tol)
      = some (curveSegs (circleStart c) (circleC1 c (c.pathParams tol).2 (c.pathParams tol).1)
          (circleC2 c (c.pathParams tol).2 (c.pathParams tol).1) (circleEnd c (c.pathParams tol).1) (c.pathParams tol).1) := by
  rw [circle_path_elements_eq, segs_moveTo_curveEls_close, circle_chain_closed, peq_self]
  simp
end lawful

/-! ### the real numbers with the trigonometric laws -/

/-- `Scalar.sin/cos/tan/pi` of a `Scalar ℝ` instance are the real functions / the real number they are named after -/
class LawfulTrig [Scalar ℝ] : Prop where
  sin_eq : ∀ x : ℝ, Scalar.sin x = Real.sin x
  cos_eq : ∀ x : ℝ, Scalar.cos x = Real.cos x
  tan_eq : ∀ x : ℝ, Scalar.tan x = Real.tan x
  pi_eq : (Scalar.pi : ℝ) = Real.pi

/-- `as usize` and `powf` over ℝ (saturation at `usize::MAX` is not modelled) -/
class LawfulCount [Scalar ℝ] : Prop where
  toUSize_eq : ∀ x : ℝ, Scalar.toUSize x = ⌊x⌋₊
  powf_eq : ∀ x y : ℝ, Scalar.powf x y = x ^ y

theorem realScalar_lawfulTrig : @LawfulTrig realScalar :=
  letI := realScalar
  { sin_eq := fun _ => rfl, cos_eq := fun _ => rfl, tan_eq := fun _ => rfl, pi_eq := rfl }

theorem realScalar_lawfulCount : @LawfulCount realScalar :=
  letI := realScalar
  { toUSize_eq := fun _ => rfl, powf_eq := fun _ _ => rfl }

/-- `p` lies on the ellipse with centre `c`, semi-axes `rx, ry`, the `rx`-axis turned by `rot` from the x-axis:
    in the frame of the axes, `(u/rx)² + (v/ry)² = 1` -/
def OnEllipse (c : Point ℝ) (rx ry rot : ℝ) (p : Point ℝ) : Prop :=
  (((p.x - c.x) * Real.cos rot + (p.y - c.y) * Real.sin rot) / rx) ^ 2
    + ((-(p.x - c.x) * Real.sin rot + (p.y - c.y) * Real.cos rot) / ry) ^ 2 = 1

/-- `p` lies on the circle with centre `c` and radius `r` (any sign of `r`) -/
def OnCircle (c : Point ℝ) (r : ℝ) (p : Point ℝ) : Prop := (p.x - c.x) ^ 2 + (p.y - c.y) ^ 2 = r ^ 2

/-- the ideal circle point at angle `θ` -/
noncomputable def circlePt (c : Point ℝ) (r θ : ℝ) : Point ℝ := ⟨c.x + r * Real.cos θ, c.y + r * Real.sin θ⟩

theorem circlePt_onCircle (c : Point ℝ) (r θ : ℝ) : OnCircle c r (circlePt c r θ) := by
  simp only [OnCircle, circlePt]
  linear_combination r ^ 2 * Real.cos_sq_add_sin_sq θ

/-- `θ_k = 2π·k/n` -/
noncomputable def circleAngle (n k : Nat) : ℝ := 2 * Real.pi / n * k

theorem circleAngle_zero (n : Nat) : circleAngle n 0 = 0 := by simp [circleAngle]
theorem circleAngle_full (n : Nat) (hn : n ≠ 0) : circleAngle n n = 2 * Real.pi := by
  have : (n : ℝ) ≠ 0 := by exact_mod_cast hn
  unfold circleAngle; field_simp

/-- the cubic that approximates the arc from angle `α` to angle `β` of the circle `(ctr, r)` with arm length `a·r` -/
noncomputable def circleArcCubic (ctr : Point ℝ) (r a α β : ℝ) : CubicBez ℝ :=
  ⟨circlePt ctr r α,
   ⟨ctr.x + r * (Real.cos α - a * Real.sin α), ctr.y + r * (Real.sin α + a * Real.cos α)⟩,
   ⟨ctr.x + r * (Real.cos β + a * Real.sin β), ctr.y + r * (Real.sin β - a * Real.cos β)⟩,
   circlePt ctr r β⟩

theorem four_lt_rpow_sixth {x : ℝ} (hx : 4096 < x) : 4 < x ^ ((1:ℝ)/6) := by
  have h4 : (4:ℝ) = (4096:ℝ) ^ ((1:ℝ)/6) := by
    have := Real.pow_rpow_inv_natCast (x := (4:ℝ)) (n := 6) (by norm_num) (by norm_num)
    rw [show ((4:ℝ)^6) = 4096 by norm_num] at this
    rw [show ((1:ℝ)/6) = ((6:ℕ):ℝ)⁻¹ by norm_num, this]
  calc (4:ℝ) = (4096:ℝ) ^ ((1:ℝ)/6) := h4
    _ < x ^ ((1:ℝ)/6) := Real.rpow_lt_rpow (by norm_num) hx (by norm_num)

theorem cos_q2 : Real.cos (Real.pi / 2 * 2) = -1 := by rw [show Real.pi / 2 * 2 = Real.pi by ring, Real.cos_pi]
theorem sin_q2 : Real.sin (Real.pi / 2 * 2) = 0 := by rw [show Real.pi / 2 * 2 = Real.pi by ring, Real.sin_pi]
theorem cos_q3 : Real.cos (Real.pi / 2 * 3) = 0 := by
  rw [show Real.pi / 2 * 3 = Real.pi + Real.pi / 2 by ring, Real.cos_add_pi_div_two, Real.sin_pi, neg_zero]
theorem sin_q3 : Real.sin (Real.pi / 2 * 3) = -1 := by
  rw [show Real.pi / 2 * 3 = Real.pi + Real.pi / 2 by ring, Real.sin_add_pi_div_two, Real.cos_pi]
theorem cos_q4 : Real.cos (Real.pi / 2 * 3 + Real.pi / 2) = 1 := by
  rw [show Real.pi / 2 * 3 + Real.pi / 2 = 2 * Real.pi by ring, Real.cos_two_pi]
theorem sin_q4 : Real.sin (Real.pi / 2 * 3 + Real.pi / 2) = 0 := by
  rw [show Real.pi / 2 * 3 + Real.pi / 2 = 2 * Real.pi by ring, Real.sin_two_pi]
theorem cos_q2' : Real.cos (Real.pi / 2 * 1 + Real.pi / 2) = -1 := by
  rw [show Real.pi / 2 * 1 + Real.pi / 2 = Real.pi by ring, Real.cos_pi]
theorem sin_q2' : Real.sin (Real.pi / 2 * 1 + Real.pi / 2) = 0 := by
  rw [show Real.pi / 2 * 1 + Real.pi / 2 = Real.pi by ring, Real.sin_pi]
theorem cos_q3' : Real.cos (Real.pi / 2 * 2 + Real.pi / 2) = 0 := by
  rw [show Real.pi / 2 * 2 + Real.pi / 2 = Real.pi / 2 * 3 by ring, cos_q3]
theorem sin_q3' : Real.sin (Real.pi / 2 * 2 + Real.pi / 2) = -1 := by
  rw [show Real.pi / 2 * 2 + Real.pi / 2 = Real.pi / 2 * 3 by ring, sin_q3]

section real
variable [Scalar ℝ] [LawfulScalar ℝ] [LawfulTrig]
open LawfulTrig

theorem sampleEllipse_real (radii : Vec2 ℝ) (rot θ : ℝ) :
    sampleEllipse radii rot θ
      = ⟨radii.x * Real.cos θ * Real.cos rot - radii.y * Real.sin θ * Real.sin rot,
         radii.x * Real.cos θ * Real.sin rot + radii.y * Real.sin θ * Real.cos rot⟩ := by
  rw [sampleEllipse_eq]; simp only [sin_eq, cos_eq]

theorem fracPi2_real : (fracPi2 : ℝ) = Real.pi / 2 := by rw [fracPi2_eq, pi_eq]
theorem twoPi_real : (twoPi : ℝ) = 2 * Real.pi := by rw [twoPi_eq, pi_eq]

/-- turned back by `−rot`, the sample is `(rx·cos θ, ry·sin θ)` -/
theorem sampleEllipse_unrotate (radii : Vec2 ℝ) (rot θ : ℝ) :
    (sampleEllipse radii rot θ).x * Real.cos rot + (sampleEllipse radii rot θ).y * Real.sin rot = radii.x * Real.cos θ ∧
    -(sampleEllipse radii rot θ).x * Real.sin rot + (sampleEllipse radii rot θ).y * Real.cos rot = radii.y * Real.sin θ := by
  rw [sampleEllipse_real]
  constructor
  · linear_combination radii.x * Real.cos θ * Real.cos_sq_add_sin_sq rot
  · linear_combination radii.y * Real.sin θ * Real.cos_sq_add_sin_sq rot

theorem center_add_onEllipse (c : Point ℝ) (radii : Vec2 ℝ) (rot θ : ℝ) (hx : radii.x ≠ 0) (hy : radii.y ≠ 0) :
    OnEllipse c radii.x radii.y rot (c + sampleEllipse radii rot θ) := by
  obtain ⟨h1, h2⟩ := sampleEllipse_unrotate radii rot θ
  simp only [OnEllipse, kdefs, scalar_norm]
  rw [show c.x + (sampleEllipse radii rot θ).x - c.x = (sampleEllipse radii rot θ).x by ring,
    show c.y + (sampleEllipse radii rot θ).y - c.y = (sampleEllipse radii rot θ).y by ring, h1, h2]
  rw [mul_div_cancel_left₀ _ hx, mul_div_cancel_left₀ _ hy]
  exact Real.cos_sq_add_sin_sq θ

/-- the derivative of `θ ↦ sampleEllipse radii rot θ` is `sampleEllipse radii rot (θ + π/2)` -/
theorem sampleEllipse_hasDerivAt (radii : Vec2 ℝ) (rot θ : ℝ) :
    HasDerivAt (fun t => (sampleEllipse radii rot t).x) (sampleEllipse radii rot (θ + fracPi2)).x θ ∧
    HasDerivAt (fun t => (sampleEllipse radii rot t).y) (sampleEllipse radii rot (θ + fracPi2)).y θ := by
  simp only [sampleEllipse_real, fracPi2_real, Real.cos_add_pi_div_two, Real.sin_add_pi_div_two]
  constructor
  · have h := (((Real.hasDerivAt_cos θ).const_mul radii.x).mul_const (Real.cos rot)).fun_sub
      (((Real.hasDerivAt_sin θ).const_mul radii.y).mul_const (Real.sin rot))
    exact h
  · have h := (((Real.hasDerivAt_cos θ).const_mul radii.x).mul_const (Real.sin rot)).fun_add
      (((Real.hasDerivAt_sin θ).const_mul radii.y).mul_const (Real.cos rot))
    exact h

theorem circleSC_real (n k : Nat) (hn : n ≠ 0) :
    (circleSC n k : ℝ × ℝ) = (Real.sin (circleAngle n k), Real.cos (circleAngle n k)) := by
  unfold circleSC
  by_cases h : k = n
  · subst h
    simp only [beq_self_eq_true, if_true, circleAngle_full k hn, Real.sin_two_pi, Real.cos_two_pi, scalar_norm]
    push_cast; rfl
  · have : (k == n) = false := by simpa using h
    rw [this]
    simp only [Bool.false_eq_true, if_false, circleTheta_eq, sin_eq, cos_eq, pi_eq, circleAngle]

theorem circleStart_real (c : Circle ℝ) : circleStart c = circlePt c.center c.radius 0 := by
  rw [circleStart_eq]; simp [circlePt]

theorem circleC1_real (c : Circle ℝ) (a : ℝ) (n k : Nat) :
    circleC1 c a n k = (circleArcCubic c.center c.radius a (circleAngle n k) (circleAngle n (k + 1))).p1 := by
  simp only [circleC1, circleTh0_eq, sin_eq, cos_eq, pi_eq, scalar_norm, circleArcCubic, circleAngle]

theorem circleC2_real (c : Circle ℝ) (a : ℝ) (n k : Nat) (hn : n ≠ 0) :
    circleC2 c a n k = (circleArcCubic c.center c.radius a (circleAngle n k) (circleAngle n (k + 1))).p2 := by
  simp only [circleC2, circleSC_real _ _ hn, scalar_norm, circleArcCubic]

theorem circleEnd_real (c : Circle ℝ) (n k : Nat) (hn : n ≠ 0) :
    circleEnd c n k = circlePt c.center c.radius (circleAngle n (k + 1)) := by
  simp only [circleEnd, circleSC_real _ _ hn, scalar_norm, circlePt]

theorem chainStart_circle_real (c : Circle ℝ) (n k : Nat) (hn : n ≠ 0) :
    chainStart (circleStart c) (circleEnd c n) k = circlePt c.center c.radius (circleAngle n k) := by
  cases k with
  | zero => rw [chainStart, circleStart_real, circleAngle_zero]
  | succ k => rw [chainStart, circleEnd_real c n k hn]
/-- with equal radii and no rotation the sample point is the circle point -/
theorem center_add_sample_circle (c : Point ℝ) (r θ : ℝ) :
    c + sampleEllipse (⟨r, r⟩ : Vec2 ℝ) (0 : ℝ) θ = circlePt c r θ := by
  rw [sampleEllipse_real]
  simp only [kdefs, scalar_norm, circlePt, Real.cos_zero, Real.sin_zero, Point.mk.injEq]
  constructor <;> ring

theorem center_add_sample_circle' (c : Point ℝ) (r θ : ℝ) :
    c + sampleEllipse (Vec2.new r r) (@OfNat.ofNat ℝ 0 Ops.instOfNat) θ = circlePt c r θ := by
  have : (@OfNat.ofNat ℝ 0 Ops.instOfNat) = (0 : ℝ) := by simp only [scalar_norm]; push_cast; rfl
  rw [this]; exact center_add_sample_circle c r θ

theorem pointOnCircle_real (c : Point ℝ) (r θ : ℝ) : pointOnCircle c r θ = circlePt c r θ := by
  simp only [pointOnCircle, kdefs, scalar_norm, sin_eq, cos_eq, circlePt, Point.mk.injEq]
  constructor <;> ring

/-- start point of an arc -/
noncomputable def Arc.startPt (a : Arc ℝ) : Point ℝ := a.center + sampleEllipse a.radii a.x_rotation a.start_angle
/-- the point of the arc's ellipse at `start + sweep` -/
noncomputable def Arc.endPt (a : Arc ℝ) : Point ℝ :=
  a.center + sampleEllipse a.radii a.x_rotation (a.start_angle + a.sweep_angle)

theorem roundedRect_arc_starts_real (s : RoundedRect ℝ) :
    s.arcTL.startPt = s.p0 ∧ s.arcTR.startPt = s.p1 ∧ s.arcBR.startPt = s.p2 ∧ s.arcBL.startPt = s.p3 := by
  simp only [Arc.startPt, RoundedRect.arcTL, RoundedRect.arcTR, RoundedRect.arcBR, RoundedRect.arcBL, cornerArc,
    RoundedRect.p0, RoundedRect.p1, RoundedRect.p2, RoundedRect.p3, sampleEllipse_real, kdefs, scalar_norm, fracPi2_real]
  push_cast
  simp only [Real.cos_zero, Real.sin_zero, cos_q2, sin_q2, cos_q3, sin_q3, mul_zero, mul_one, Real.cos_pi_div_two,
    Real.sin_pi_div_two, Point.mk.injEq]
  refine ⟨⟨?_, ?_⟩, ⟨?_, ?_⟩, ⟨?_, ?_⟩, ⟨?_, ?_⟩⟩ <;> ring

theorem roundedRect_arc_ends_real (s : RoundedRect ℝ) :
    s.arcTL.endPt = ⟨s.rect.x0 + s.radii.top_left, s.rect.y0⟩ ∧ s.arcTR.endPt = ⟨s.rect.x1, s.rect.y0 + s.radii.top_right⟩ ∧
    s.arcBR.endPt = ⟨s.rect.x1 - s.radii.bottom_right, s.rect.y1⟩ ∧ s.arcBL.endPt = ⟨s.rect.x0, s.rect.y1 - s.radii.bottom_left⟩ := by
  simp only [Arc.endPt, RoundedRect.arcTL, RoundedRect.arcTR, RoundedRect.arcBR, RoundedRect.arcBL, cornerArc,
    sampleEllipse_real, kdefs, scalar_norm, fracPi2_real]
  push_cast
  simp only [Real.cos_zero, Real.sin_zero, cos_q3', sin_q3', cos_q4, sin_q4, mul_zero, mul_one, zero_add,
    Real.cos_pi_div_two, Real.sin_pi_div_two, Point.mk.injEq, add_halves, Real.cos_pi, Real.sin_pi]
  refine ⟨⟨?_, ?_⟩, ⟨?_, ?_⟩, ⟨?_, ?_⟩, ⟨?_, ?_⟩⟩ <;> ring
/-- every element of `Arc::append_iter` ends on the ideal ellipse -/
theorem append_iter_onEllipse (a : Arc ℝ) (tol : ℝ) (hx : a.radii.x ≠ 0) (hy : a.radii.y ≠ 0) :
    ∀ el ∈ a.append_iter tol, ∃ p, el.end_point = some p ∧ OnEllipse a.center a.radii.x a.radii.y a.x_rotation p := by
  intro el h
  rw [append_iter_eq] at h
  obtain ⟨k, -, rfl⟩ := mem_curveEls h
  exact ⟨_, rfl, center_add_onEllipse _ _ _ _ hx hy⟩

/-- circular arcs (equal radii, no rotation): every element ends on the ideal circle (any radius, also `0`) -/
theorem append_iter_onCircle (a : Arc ℝ) (tol r : ℝ) (hr : a.radii = ⟨r, r⟩) (hrot : a.x_rotation = 0) :
    ∀ el ∈ a.append_iter tol, ∃ p, el.end_point = some p ∧ OnCircle a.center r p := by
  intro el h
  rw [append_iter_eq] at h
  obtain ⟨k, -, rfl⟩ := mem_curveEls h
  refine ⟨_, rfl, ?_⟩
  rw [arcEnd, arcPt, hr, hrot, center_add_sample_circle]
  exact circlePt_onCircle _ _ _

theorem circlePt_hasDerivAt (ctr : Point ℝ) (r θ : ℝ) :
    HasDerivAt (fun t => (circlePt ctr r t).x) (-(r * Real.sin θ)) θ ∧
    HasDerivAt (fun t => (circlePt ctr r t).y) (r * Real.cos θ) θ := by
  simp only [circlePt]
  constructor
  · have h := ((Real.hasDerivAt_cos θ).const_mul r).const_add ctr.x
    rw [show -(r * Real.sin θ) = r * -Real.sin θ by ring]; exact h
  · exact ((Real.hasDerivAt_sin θ).const_mul r).const_add ctr.y


theorem circle_segs_real (c : Circle ℝ) (tol : ℝ) (hn : (c.pathParams tol).1 ≠ 0) :
    segs (c.path_elements tol)
      = some ((List.range (c.pathParams tol).1).map fun k => PathSeg.Cubic
          (circleArcCubic c.center c.radius (c.pathParams tol).2
            (circleAngle (c.pathParams tol).1 k) (circleAngle (c.pathParams tol).1 (k + 1)))) := by
  rw [circle_segs_lawful]
  congr 1
  apply List.map_congr_left
  intro k _
  rw [chainStart_circle_real c _ k hn, circleC1_real, circleC2_real c _ _ k hn, circleEnd_real c _ k hn]
  rfl

theorem circle_elements_onCircle (c : Circle ℝ) (tol : ℝ) :
    ∀ el ∈ c.path_elements tol, el = PathEl.ClosePath ∨ ∃ p, el.end_point = some p ∧ OnCircle c.center c.radius p := by
  intro el h
  rw [circle_path_elements_eq, List.mem_cons, List.mem_append, List.mem_singleton] at h
  rcases h with rfl | h | rfl
  · exact Or.inr ⟨_, rfl, by rw [circleStart_real]; exact circlePt_onCircle _ _ _⟩
  · obtain ⟨k, hk, rfl⟩ := mem_curveEls h
    have hn : (c.pathParams tol).1 ≠ 0 := by omega
    exact Or.inr ⟨_, rfl, by rw [circleEnd_real c _ k hn]; exact circlePt_onCircle _ _ _⟩
  · exact Or.inl rfl

/-- control arms of a circular-arc cubic: `a` times the derivative of `θ ↦ circlePt θ` at the two end angles -/
theorem circleArcCubic_arms (ctr : Point ℝ) (r a α β : ℝ) :
    (circleArcCubic ctr r a α β).p1 - (circleArcCubic ctr r a α β).p0 = (⟨a * -(r * Real.sin α), a * (r * Real.cos α)⟩ : Vec2 ℝ) ∧
    (circleArcCubic ctr r a α β).p3 - (circleArcCubic ctr r a α β).p2 = (⟨a * -(r * Real.sin β), a * (r * Real.cos β)⟩ : Vec2 ℝ) := by
  simp only [circleArcCubic, circlePt, kdefs, scalar_norm, Vec2.mk.injEq]
  refine ⟨⟨?_, ?_⟩, ⟨?_, ?_⟩⟩ <;> ring

theorem cseg_arc_points_real (s : CircleSegment ℝ) :
    s.outer_arc.startPt = pointOnCircle s.center s.outer_radius s.start_angle ∧
    s.outer_arc.endPt = pointOnCircle s.center s.outer_radius (s.start_angle + s.sweep_angle) ∧
    s.inner_arc.startPt = pointOnCircle s.center s.inner_radius (s.start_angle + s.sweep_angle) ∧
    s.inner_arc.endPt = pointOnCircle s.center s.inner_radius s.start_angle := by
  simp only [Arc.startPt, Arc.endPt, CircleSegment.outer_arc, CircleSegment.inner_arc, center_add_sample_circle',
    pointOnCircle_real]
  refine ⟨trivial, trivial, by simp only [scalar_norm], ?_⟩
  simp only [scalar_norm]
  rw [show s.start_angle + s.sweep_angle + -s.sweep_angle = s.start_angle by ring]

/-- a full turn returns to the start point -/
theorem ellipse_arc_closed_real (e : Ellipse ℝ) : e.arc.endPt = e.arc.startPt := by
  simp only [Arc.startPt, Arc.endPt, Ellipse.arc, sampleEllipse_real, twoPi_real, scalar_norm]
  push_cast
  rw [show (0 : ℝ) + 2 * Real.pi = 2 * Real.pi by ring, Real.cos_two_pi, Real.sin_two_pi, Real.cos_zero, Real.sin_zero]

end real

section count
variable [Scalar ℝ] [LawfulScalar ℝ] [LawfulTrig] [LawfulCount]
open LawfulTrig LawfulCount

theorem appendParams_real (a : Arc ℝ) (tol : ℝ) :
    (a.appendParams tol).2.2 = a.sweep_angle / ((a.appendParams tol).1 : ℝ)
      ∧ (a.appendParams tol).2.1
          = 4 / 3 * Real.tan |1 / 4 * (a.sweep_angle / ((a.appendParams tol).1 : ℝ))| * (if a.sweep_angle < 0 then -1 else 1)
      ∧ ((a.appendParams tol).1 = 0 → a.sweep_angle = 0)
      ∧ 3999999 / 1000000 * |a.sweep_angle| ≤ 2 * Real.pi * ((a.appendParams tol).1 : ℝ) := by
  simp only [Arc.appendParams, scalar_norm, toUSize_eq, pi_eq, tan_eq]
  push_cast
  set m := max (Scalar.powf (11163 / 10000 * (max a.radii.x a.radii.y / tol)) (1 / 6)) (3999999 / 1000000 : ℝ) with hm
  have hm0 : (3999999 / 1000000 : ℝ) ≤ m := le_max_right _ _
  have hpi : 0 < 2 * Real.pi := by positivity
  set x := m * |a.sweep_angle| * (1 / (2 * Real.pi)) with hx
  have hs : 0 ≤ |a.sweep_angle| := abs_nonneg _
  have hx0 : 0 ≤ x := by positivity
  have hc0 : (0 : ℝ) ≤ (⌈x⌉ : ℝ) := by exact_mod_cast Int.ceil_nonneg hx0
  have hN : ((⌊(⌈x⌉ : ℝ)⌋₊ : ℕ) : ℝ) = (⌈x⌉ : ℝ) := by
    rw [natCast_floor_eq_intCast_floor hc0, Int.floor_intCast]
  have hxle : x ≤ (⌈x⌉ : ℝ) := Int.le_ceil x
  have hx2 : m * |a.sweep_angle| = x * (2 * Real.pi) := by rw [hx]; field_simp
  refine ⟨by rw [hN], by rw [hN], ?_, ?_⟩
  · intro h0
    have : (⌈x⌉ : ℝ) = 0 := by rw [← hN, h0]; simp
    have hx' : x = 0 := le_antisymm (by linarith) hx0
    have : m * |a.sweep_angle| = 0 := by rw [hx2, hx']; ring
    have : |a.sweep_angle| = 0 := by nlinarith
    exact abs_eq_zero.mp this
  · rw [hN]
    nlinarith

/-- exactly one traversal: the angle accumulated over all pieces is `start + sweep` -/
theorem arc_accAngle_total (a : Arc ℝ) (tol : ℝ) :
    accAngle a.start_angle (a.appendParams tol).2.2 (a.appendParams tol).1 = a.start_angle + a.sweep_angle := by
  obtain ⟨h1, -, h3, -⟩ := appendParams_real a tol
  rw [accAngle_eq, h1]
  by_cases h0 : (a.appendParams tol).1 = 0
  · rw [h3 h0, h0]; simp
  · have : ((a.appendParams tol).1 : ℝ) ≠ 0 := by exact_mod_cast h0
    field_simp

/-- the two branches of `Circle::path_elements` -/
theorem pathParams_real (c : Circle ℝ) (tol : ℝ) :
    (|c.radius| / tol < 100000000 / 19608 ∧ c.pathParams tol = (4, 551915024494 / 1000000000000)) ∨
    (100000000 / 19608 ≤ |c.radius| / tol ∧ 5 ≤ (c.pathParams tol).1 ∧
      (c.pathParams tol).2 = 4 / 3 * Real.tan (Real.pi / 2 / ((c.pathParams tol).1 : ℝ))) := by
  unfold Circle.pathParams
  simp only [scalar_norm, fracPi2_real, tan_eq, toUSize_eq, powf_eq]
  push_cast
  by_cases h : |c.radius| / tol < 1 / (19608 / 100000000)
  · left
    rw [if_pos (by simpa using h)]
    refine ⟨by rwa [one_div_div] at h, rfl⟩
  · right
    rw [if_neg (by simpa using h)]
    have h' : 100000000 / 19608 ≤ |c.radius| / tol := by rw [one_div_div] at h; exact not_lt.mp h
    refine ⟨h', ?_, rfl⟩
    show 5 ≤ ⌊((⌈(11163 / 10000 * (|c.radius| / tol)) ^ ((1:ℝ) / 6)⌉ : ℤ) : ℝ)⌋₊
    have h4 := four_lt_rpow_sixth (x := 11163 / 10000 * (|c.radius| / tol)) (by
      have : (5099 : ℝ) < 100000000 / 19608 := by norm_num
      nlinarith)
    apply Nat.le_floor
    have : (4 : ℤ) < ⌈(11163 / 10000 * (|c.radius| / tol)) ^ ((1:ℝ) / 6)⌉ := Int.lt_ceil.mpr (by exact_mod_cast h4)
    have : (5 : ℤ) ≤ ⌈(11163 / 10000 * (|c.radius| / tol)) ^ ((1:ℝ) / 6)⌉ := this
    exact_mod_cast this
/-- the last piece of an arc ends at angle `start + sweep` -/
theorem arc_last_point_real (a : Arc ℝ) (tol : ℝ) :
    arcPt a.center a.radii a.x_rotation (a.appendParams tol).2.2 a.start_angle (a.appendParams tol).1 = a.endPt := by
  rw [arcPt, arc_accAngle_total, Arc.endPt]

/-- drawing the arc's pieces from its start point leaves the pen at angle `start + sweep` (also when there is no piece) -/
theorem penAfter_arc_real (a : Arc ℝ) (tol : ℝ) : penAfter a.startPt (a.append_iter tol) = a.endPt := by
  rw [append_iter_eq, show a.startPt = arcPt a.center a.radii a.x_rotation (a.appendParams tol).2.2 a.start_angle 0 from rfl,
    penAfter_curveEls, chainStart_arc, arc_last_point_real]

end count

end Kurbo
