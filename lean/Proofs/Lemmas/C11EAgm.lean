import Proofs.KDefs
import Proofs.Lemmas.C15Real
import Kurbo.EllipsePerimeter
import Mathlib.Algebra.BigOperators.Group.Finset.Basic
import Mathlib.Algebra.Order.BigOperators.Group.Finset
import Mathlib.Algebra.Order.Floor.Semiring
import Mathlib.Data.Nat.Log
/-! Helper lemmas for C11E, part 1: the arithmetic-geometric-mean loop of `agm_elliptic_perimeter`.

    * `agmSeq s n`: the state at the head of pass `n` when no pass before it stopped (proof-side name for `agmStep^[n] s`);
    * `agmLoop_of_first_stop`: the fuelled loop of the model, for ANY scalar type: if pass `n` is the first one whose stopping
      test succeeds and there is fuel for it, the loop returns `agmExit (agmSeq s n)` after `n + 1` passes;
    * over ℝ: the invariant `AgmInv` (`0 < g ≤ a ≤ 1`, `0 ≤ c`, `c² = a² − g²`, `mul = 2ⁿ/2`), one step of it
      (`agmInv_step`: monotonicity of `a`, `g`, the contraction `c' ≤ c/2`, `term' ≤ term/2`), the sequence facts, the tail
      bound and the pass bound. -/
set_option linter.unusedSectionVars false
namespace Kurbo

/-! ### structure of the loop (any scalar) -/
section generic
variable {K : Type} [Scalar K]

/-- the state at the head of pass `n` (counting from 0) when the passes before it did not stop -/
def agmSeq (s : AgmState K) : ℕ → AgmState K
  | 0 => s
  | n + 1 => agmStep (agmSeq s n)

theorem agmSeq_step (s : AgmState K) (n : ℕ) : agmSeq (agmStep s) n = agmSeq s (n + 1) := by
  induction n with
  | zero => rfl
  | succ n ih => show agmStep _ = agmStep _; rw [ih]

/-- if pass `n` is the first pass whose test `term <= accuracy * g` succeeds and `n < fuel`, the loop leaves there -/
theorem agmLoop_of_first_stop (acc : K) : ∀ (n fuel k : ℕ) (s : AgmState K),
    (∀ i < n, (agmSeq s i).stops acc = false) → (agmSeq s n).stops acc = true → n < fuel →
    agmLoop acc fuel k s = (agmExit (agmSeq s n), k + n + 1) := by
  intro n
  induction n with
  | zero =>
    intro fuel k s _ hs hf
    obtain ⟨f, rfl⟩ := Nat.exists_eq_succ_of_ne_zero (Nat.ne_of_gt hf)
    have hs' : s.stops acc = true := hs
    show (if s.stops acc = true then _ else _) = _
    rw [if_pos hs']; rfl
  | succ n ih =>
    intro fuel k s hno hs hf
    obtain ⟨f, rfl⟩ := Nat.exists_eq_succ_of_ne_zero (Nat.ne_of_gt (Nat.lt_of_le_of_lt (Nat.zero_le _) hf))
    have h0 : s.stops acc = false := hno 0 (Nat.succ_pos n)
    show (if s.stops acc = true then _ else _) = _
    rw [if_neg (by rw [h0]; exact Bool.false_ne_true)]
    rw [ih f (k + 1) (agmStep s) (fun i hi => by rw [agmSeq_step]; exact hno (i + 1) (Nat.succ_lt_succ hi))
      (by rw [agmSeq_step]; exact hs) (Nat.lt_of_succ_lt_succ hf)]
    rw [agmSeq_step]
    congr 1
    omega

end generic

/-! ### the AGM step over ℝ -/
section real
open Real

/-- one arithmetic-geometric-mean step on `0 < g ≤ a` -/
theorem agm_core {a g : ℝ} (hg : 0 < g) (hga : g ≤ a) :
    g ≤ √(a * g) ∧ √(a * g) ≤ (a + g) / 2 ∧ (a + g) / 2 ≤ a ∧ 0 ≤ (a - g) / 2 ∧
      ((a - g) / 2) ^ 2 = ((a + g) / 2) ^ 2 - √(a * g) ^ 2 := by
  have ha : 0 < a := lt_of_lt_of_le hg hga
  have hag : 0 ≤ a * g := (mul_pos ha hg).le
  refine ⟨?_, ?_, by linarith, by linarith, ?_⟩
  · apply Real.le_sqrt_of_sq_le
    nlinarith
  · rw [Real.sqrt_le_iff]
    refine ⟨by linarith, ?_⟩
    nlinarith [sq_nonneg (a - g)]
  · rw [Real.sq_sqrt hag]; ring

/-- the contraction claimed in the source comment: `c_{n+1} = (a_n − g_n)/2 ≤ c_n/2` when `c_n² = a_n² − g_n²` -/
theorem agm_contract {a g c : ℝ} (hg : 0 < g) (hga : g ≤ a) (hc : 0 ≤ c) (hcc : c ^ 2 = a ^ 2 - g ^ 2) :
    (a - g) / 2 ≤ c / 2 := by
  have h1 : (a - g) ^ 2 ≤ c ^ 2 := by rw [hcc]; nlinarith
  have h2 : a - g ≤ c := (pow_le_pow_iff_left₀ (by linarith) hc (by norm_num)).1 h1
  linarith

variable [Scalar ℝ] [LawfulScalar ℝ] [LawfulReal]

/-- the loop invariant at the head of pass `n` -/
structure AgmInv (s : AgmState ℝ) (n : ℕ) : Prop where
  g_pos : 0 < s.g
  g_le_a : s.g ≤ s.a
  a_le_one : s.a ≤ 1
  c_nonneg : 0 ≤ s.c
  c_sq : s.c ^ 2 = s.a ^ 2 - s.g ^ 2
  mul_eq : s.mul = 2 ^ n / 2

theorem agmState_fields (x y : ℝ) :
    (agmState x y).sum = 1 ∧ (agmState x y).a = 1 ∧ (agmState x y).g = y / x ∧
      (agmState x y).c = √(1 - (y / x) ^ 2) ∧ (agmState x y).mul = 1 / 2 := by
  simp only [agmState, scalar_norm, LawfulReal.sqrt_eq]
  norm_num

theorem agmStep_fields (s : AgmState ℝ) :
    (agmStep s).sum = s.sum - s.mul * s.c ^ 2 ∧ (agmStep s).a = (s.a + s.g) / 2 ∧ (agmStep s).g = √(s.a * s.g) ∧
      (agmStep s).c = (s.a - s.g) / 2 ∧ (agmStep s).mul = s.mul * 2 := by
  simp only [agmStep, AgmState.term, scalar_norm, LawfulReal.sqrt_eq]
  norm_num

theorem agm_term_eq (s : AgmState ℝ) : s.term = s.mul * s.c ^ 2 := by
  simp only [AgmState.term, scalar_norm]

theorem agm_stops_iff (acc : ℝ) (s : AgmState ℝ) : s.stops acc = true ↔ s.term ≤ acc * s.g := by
  simp only [AgmState.stops, scalar_norm, decide_eq_true_eq]

theorem agmExit_fields (s : AgmState ℝ) :
    (agmExit s).sum = s.sum - s.term - s.term ∧ (agmExit s).a = (s.a + s.g) / 2 ∧ (agmExit s).g = s.g ∧ (agmExit s).c = s.c ∧
      (agmExit s).mul = s.mul := by
  simp only [agmExit, scalar_norm]
  norm_num

/-- since 93c0fd9 the `a` of the exit state is the arithmetic mean the NEXT pass would have started with -/
theorem agmExit_a_eq_step (s : AgmState ℝ) : (agmExit s).a = (agmStep s).a := by
  rw [(agmExit_fields s).2.1, (agmStep_fields s).2.1]

theorem agmInv_init {x y : ℝ} (hy : 0 < y) (hyx : y ≤ x) : AgmInv (agmState x y) 0 := by
  obtain ⟨_, ha, hg, hc, hm⟩ := agmState_fields x y
  have hx : 0 < x := lt_of_lt_of_le hy hyx
  have hq : 0 < y / x := div_pos hy hx
  have hq1 : y / x ≤ 1 := (div_le_one hx).2 hyx
  have h0 : 0 ≤ 1 - (y / x) ^ 2 := by nlinarith
  refine ⟨by rw [hg]; exact hq, by rw [hg, ha]; exact hq1, by rw [ha], by rw [hc]; exact Real.sqrt_nonneg _, ?_, by rw [hm]; norm_num⟩
  rw [hc, ha, hg, Real.sq_sqrt h0]; ring

/-- one pass keeps the invariant; `g` does not decrease, `a` does not increase, `c' = (a − g)/2 ≤ c/2`, `term' ≤ term/2` -/
theorem agmInv_step {s : AgmState ℝ} {n : ℕ} (h : AgmInv s n) :
    AgmInv (agmStep s) (n + 1) ∧ s.g ≤ (agmStep s).g ∧ (agmStep s).a ≤ s.a ∧ (agmStep s).c = (s.a - s.g) / 2 ∧
      (agmStep s).c ≤ s.c / 2 ∧ (agmStep s).term ≤ s.term / 2 := by
  obtain ⟨_, ha, hg, hc, hm⟩ := agmStep_fields s
  obtain ⟨k1, k2, k3, k4, k5⟩ := agm_core h.g_pos h.g_le_a
  have hcon := agm_contract h.g_pos h.g_le_a h.c_nonneg h.c_sq
  have hc0 : 0 ≤ (agmStep s).c := by rw [hc]; exact k4
  have hcle : (agmStep s).c ≤ s.c / 2 := by rw [hc]; exact hcon
  have hmul : 0 ≤ s.mul := by rw [h.mul_eq]; positivity
  refine ⟨⟨?_, ?_, ?_, hc0, ?_, ?_⟩, by rw [hg]; exact k1, by rw [ha]; exact k3, hc, hcle, ?_⟩
  · rw [hg]; exact lt_of_lt_of_le h.g_pos k1
  · rw [hg, ha]; exact k2
  · rw [ha]; linarith [h.a_le_one]
  · rw [hc, ha, hg]; exact k5
  · rw [hm, h.mul_eq]; ring
  · rw [agm_term_eq, agm_term_eq, hm]
    have hsq : (agmStep s).c ^ 2 ≤ (s.c / 2) ^ 2 := pow_le_pow_left₀ hc0 hcle 2
    have : s.mul * 2 * (agmStep s).c ^ 2 ≤ s.mul * 2 * (s.c / 2) ^ 2 :=
      mul_le_mul_of_nonneg_left hsq (by positivity)
    calc s.mul * 2 * (agmStep s).c ^ 2 ≤ s.mul * 2 * (s.c / 2) ^ 2 := this
      _ = s.mul * s.c ^ 2 / 2 := by ring

theorem agmInv_seq {s : AgmState ℝ} (h : AgmInv s 0) (n : ℕ) : AgmInv (agmSeq s n) n := by
  induction n with
  | zero => exact h
  | succ n ih => exact (agmInv_step ih).1

theorem agm_term_nonneg {s : AgmState ℝ} {n : ℕ} (h : AgmInv s n) : 0 ≤ s.term := by
  rw [agm_term_eq, h.mul_eq]; positivity

theorem agmSeq_term_half {s : AgmState ℝ} (h : AgmInv s 0) (n : ℕ) : (agmSeq s (n + 1)).term ≤ (agmSeq s n).term / 2 :=
  (agmInv_step (agmInv_seq h n)).2.2.2.2.2

theorem agmSeq_term_le {s : AgmState ℝ} (h : AgmInv s 0) (n : ℕ) : (agmSeq s n).term ≤ s.term / 2 ^ n := by
  induction n with
  | zero => simp [agmSeq]
  | succ n ih =>
    have := agmSeq_term_half h n
    calc (agmSeq s (n + 1)).term ≤ (agmSeq s n).term / 2 := this
      _ ≤ s.term / 2 ^ n / 2 := by linarith
      _ = s.term / 2 ^ (n + 1) := by rw [pow_succ]; field_simp

theorem agmSeq_g_mono {s : AgmState ℝ} (h : AgmInv s 0) {m n : ℕ} (hmn : m ≤ n) : (agmSeq s m).g ≤ (agmSeq s n).g := by
  induction n, hmn using Nat.le_induction with
  | base => exact le_refl _
  | succ n _ ih => exact le_trans ih (agmInv_step (agmInv_seq h n)).2.1

theorem agmSeq_a_anti {s : AgmState ℝ} (h : AgmInv s 0) {m n : ℕ} (hmn : m ≤ n) : (agmSeq s n).a ≤ (agmSeq s m).a := by
  induction n, hmn using Nat.le_induction with
  | base => exact le_refl _
  | succ n _ ih => exact le_trans (agmInv_step (agmInv_seq h n)).2.2.1 ih

/-- the gap of an invariant state: `a − g = c²/(a + g) ≤ c²/(2g)` (second order in `c`) -/
theorem agmInv_gap {s : AgmState ℝ} {n : ℕ} (h : AgmInv s n) :
    s.a - s.g = s.c ^ 2 / (s.a + s.g) ∧ s.c ^ 2 / (s.a + s.g) ≤ s.c ^ 2 / (2 * s.g) := by
  have hg := h.g_pos
  have ha : 0 < s.a := lt_of_lt_of_le hg h.g_le_a
  have hs : 0 < s.a + s.g := add_pos ha hg
  refine ⟨?_, ?_⟩
  · rw [h.c_sq, eq_div_iff hs.ne']; ring
  · exact div_le_div_of_nonneg_left (sq_nonneg _) (by positivity) (by linarith [h.g_le_a])

/-- one pass lowers `a` by exactly the next `c`: `a − a' = c'` (first order in `c'`) -/
theorem agmStep_a_drop (s : AgmState ℝ) : s.a - (agmStep s).a = (agmStep s).c := by
  rw [(agmStep_fields s).2.1, (agmStep_fields s).2.2.2.1]; ring

/-- all later `g` and `a` lie between `g_n` and `a_n` -/
theorem agmSeq_between {s : AgmState ℝ} (h : AgmInv s 0) {n m : ℕ} (hnm : n ≤ m) :
    (agmSeq s n).g ≤ (agmSeq s m).g ∧ (agmSeq s m).g ≤ (agmSeq s m).a ∧ (agmSeq s m).a ≤ (agmSeq s n).a :=
  ⟨agmSeq_g_mono h hnm, (agmInv_seq h m).g_le_a, agmSeq_a_anti h hnm⟩

/-- `sum` at the head of pass `n` is `sum₀ − Σ_{i<n} term_i` -/
theorem agmSeq_sum (s : AgmState ℝ) (n : ℕ) :
    (agmSeq s n).sum = s.sum - ∑ i ∈ Finset.range n, (agmSeq s i).term := by
  induction n with
  | zero => simp [agmSeq]
  | succ n ih =>
    show (agmStep (agmSeq s n)).sum = _
    rw [(agmStep_fields _).1, ih, Finset.sum_range_succ, agm_term_eq]; ring

/-- the tail bound behind the stopping rule: `Σ_{i=n+1}^{n+m} term_i ≤ term_n − term_{n+m}` -/
theorem agmSeq_tail {s : AgmState ℝ} (h : AgmInv s 0) (n m : ℕ) :
    ∑ i ∈ Finset.range m, (agmSeq s (n + 1 + i)).term ≤ (agmSeq s n).term - (agmSeq s (n + m)).term := by
  induction m with
  | zero => simp
  | succ m ih =>
    rw [Finset.sum_range_succ]
    have h1 := agmSeq_term_half h (n + m)
    have e1 : n + 1 + m = n + m + 1 := by omega
    have e2 : n + (m + 1) = n + m + 1 := by omega
    rw [e1, e2]
    linarith

/-- every partial sum of the terms is at most `c₀² = a₀² − g₀² < 1`: the partial sums `1 − Σ term_i` of the series stay positive -/
theorem agmSeq_partial_le {s : AgmState ℝ} (h : AgmInv s 0) (j : ℕ) :
    ∑ i ∈ Finset.range j, (agmSeq s i).term ≤ s.c ^ 2 ∧ s.c ^ 2 < 1 := by
  have hc1 : s.c ^ 2 < 1 := by
    rw [h.c_sq]; nlinarith [h.g_pos, h.g_le_a, h.a_le_one]
  refine ⟨?_, hc1⟩
  cases j with
  | zero => simp only [Finset.range_zero, Finset.sum_empty]; exact sq_nonneg _
  | succ j =>
    rw [Finset.sum_range_succ']
    have ht := agmSeq_tail h 0 j
    have hnn := agm_term_nonneg (agmInv_seq h (0 + j))
    have e : ∑ i ∈ Finset.range j, (agmSeq s (0 + 1 + i)).term = ∑ i ∈ Finset.range j, (agmSeq s (i + 1)).term :=
      Finset.sum_congr rfl fun i _ => by rw [show 0 + 1 + i = i + 1 by omega]
    rw [e] at ht
    have h0 : (agmSeq s 0).term = s.c ^ 2 / 2 := by
      show s.term = _
      rw [agm_term_eq, h.mul_eq]; ring
    rw [h0] at ht ⊢
    linarith

/-- pass `j` stops as soon as `c₀² ≤ 2^(j+1) · acc · g₀` -/
theorem agmSeq_stops_of_bound {s : AgmState ℝ} (h : AgmInv s 0) {acc : ℝ} (hacc : 0 < acc) {j : ℕ}
    (hb : s.c ^ 2 ≤ 2 ^ (j + 1) * (acc * s.g)) : (agmSeq s j).stops acc = true := by
  rw [agm_stops_iff]
  have h1 := agmSeq_term_le h j
  have h2 : s.term = s.c ^ 2 / 2 := by rw [agm_term_eq, h.mul_eq]; ring
  have h3 : s.g ≤ (agmSeq s j).g := by simpa [agmSeq] using agmSeq_g_mono h (Nat.zero_le j)
  have h4 : s.term / 2 ^ j ≤ acc * s.g := by
    rw [h2, div_div, div_le_iff₀ (by positivity)]
    calc s.c ^ 2 ≤ 2 ^ (j + 1) * (acc * s.g) := hb
      _ = acc * s.g * (2 * 2 ^ j) := by rw [pow_succ]; ring
  calc (agmSeq s j).term ≤ s.term / 2 ^ j := h1
    _ ≤ acc * s.g := h4
    _ ≤ acc * (agmSeq s j).g := mul_le_mul_of_nonneg_left h3 hacc.le

/-- the loop from an invariant state: there is a first stopping pass `n < max N 1`, the loop returns its exit state whenever
    `fuel > n` -/
theorem agmLoop_exit {s : AgmState ℝ} (h : AgmInv s 0) {acc : ℝ} (hacc : 0 < acc) {N : ℕ}
    (hb : s.c ^ 2 ≤ 2 ^ N * (acc * s.g)) :
    ∃ n, n < max N 1 ∧ (agmSeq s n).stops acc = true ∧ (∀ i < n, (agmSeq s i).stops acc = false) ∧
      ∀ fuel, n < fuel → agmLoop acc fuel 0 s = (agmExit (agmSeq s n), n + 1) := by
  have hP : ∃ j, (agmSeq s j).stops acc = true := by
    refine ⟨max N 1 - 1, agmSeq_stops_of_bound h hacc ?_⟩
    have e : max N 1 - 1 + 1 = max N 1 := Nat.sub_add_cancel (le_max_right N 1)
    rw [e]
    have hpos : 0 ≤ acc * s.g := (mul_pos hacc h.g_pos).le
    calc s.c ^ 2 ≤ 2 ^ N * (acc * s.g) := hb
      _ ≤ 2 ^ max N 1 * (acc * s.g) :=
        mul_le_mul_of_nonneg_right (pow_le_pow_right₀ (by norm_num) (le_max_left N 1)) hpos
  classical
  refine ⟨Nat.find hP, ?_, Nat.find_spec hP, ?_, ?_⟩
  · have hle : Nat.find hP ≤ max N 1 - 1 := by
      apply Nat.find_min' hP
      apply agmSeq_stops_of_bound h hacc
      have e : max N 1 - 1 + 1 = max N 1 := Nat.sub_add_cancel (le_max_right N 1)
      rw [e]
      have hpos : 0 ≤ acc * s.g := (mul_pos hacc h.g_pos).le
      calc s.c ^ 2 ≤ 2 ^ N * (acc * s.g) := hb
        _ ≤ 2 ^ max N 1 * (acc * s.g) :=
          mul_le_mul_of_nonneg_right (pow_le_pow_right₀ (by norm_num) (le_max_left N 1)) hpos
    have : 1 ≤ max N 1 := le_max_right N 1
    omega
  · intro i hi
    have := Nat.find_min hP hi
    simpa using this
  · intro fuel hf
    have hno : ∀ i < Nat.find hP, (agmSeq s i).stops acc = false := by
      intro i hi
      have := Nat.find_min hP hi
      simpa using this
    have := agmLoop_of_first_stop acc (Nat.find hP) fuel 0 s hno (Nat.find_spec hP) hf
    simpa using this

end real
end Kurbo
