import Proofs.KDefs
import Proofs.Lemmas.C04Contours
import Proofs.Lemmas.C04Field
/-! Helper definitions and lemmas for C04, part 7 (lawful ordered field + the law of `hypot`): the offset vector, the miter
    point, caps. -/
set_option linter.unusedSectionVars false
set_option linter.unusedVariables false
namespace Kurbo

/-- `hypot` is the Euclidean norm: non-negative with the right square (true of `√(x²+y²)` over ℝ; `Rat`'s executable `hypot`
    only approximates irrational roots and is not an instance) -/
class C04HypotLaw (K : Type) [Field K] [LinearOrder K] [Scalar K] : Prop where
  hypot_nonneg : ∀ x y : K, 0 ≤ Scalar.hypot x y
  hypot_mul_self : ∀ x y : K, Scalar.hypot x y * Scalar.hypot x y = x * x + y * y

variable {K : Type} [Field K] [LinearOrder K] [IsStrictOrderedRing K] [FloorRing K] [Scalar K] [LawfulScalar K]

theorem c04_norm_x (w : K) (t : Vec2 K) : (c04_norm w t).x = -t.y * (1 / 2 * w / Scalar.hypot t.x t.y) := by
  simp only [c04_norm, Vec2.hypot, kdefs, scalar_norm]
  push_cast
  ring

theorem c04_norm_y (w : K) (t : Vec2 K) : (c04_norm w t).y = t.x * (1 / 2 * w / Scalar.hypot t.x t.y) := by
  simp only [c04_norm, Vec2.hypot, kdefs, scalar_norm]
  push_cast
  ring

/-- the offset vector is orthogonal to the tangent (also for a zero tangent) -/
theorem c04_norm_dot (w : K) (t : Vec2 K) : (c04_norm w t).dot t = 0 := by
  simp only [Vec2.dot, scalar_norm, c04_norm_x, c04_norm_y]
  ring

section hypot
variable [C04HypotLaw K]

theorem c04_hypot_pos (x y : K) (h : x ≠ 0 ∨ y ≠ 0) : 0 < Scalar.hypot x y := by
  have h1 := C04HypotLaw.hypot_nonneg x y
  have h2 := C04HypotLaw.hypot_mul_self x y
  rcases h1.lt_or_eq with h3 | h3
  · exact h3
  · exfalso
    rw [← h3, mul_zero] at h2
    have hx := mul_self_nonneg x
    have hy := mul_self_nonneg y
    rcases h with h | h
    · exact h (mul_self_eq_zero.1 (by linarith))
    · exact h (mul_self_eq_zero.1 (by linarith))

/-- `hypot (ab × cd) (ab · cd) = |ab|·|cd|` (Lagrange's identity) -/
theorem c04_hypot_cross_dot (ax ay cx cy : K) :
    Scalar.hypot (ax * cy - ay * cx) (ax * cx + ay * cy) = Scalar.hypot ax ay * Scalar.hypot cx cy := by
  have h1 := C04HypotLaw.hypot_nonneg (ax * cy - ay * cx) (ax * cx + ay * cy)
  have h2 : 0 ≤ Scalar.hypot ax ay * Scalar.hypot cx cy :=
    mul_nonneg (C04HypotLaw.hypot_nonneg _ _) (C04HypotLaw.hypot_nonneg _ _)
  rw [← mul_self_inj h1 h2, C04HypotLaw.hypot_mul_self]
  have ea := C04HypotLaw.hypot_mul_self ax ay
  have ec := C04HypotLaw.hypot_mul_self cx cy
  have : Scalar.hypot ax ay * Scalar.hypot cx cy * (Scalar.hypot ax ay * Scalar.hypot cx cy)
      = (Scalar.hypot ax ay * Scalar.hypot ax ay) * (Scalar.hypot cx cy * Scalar.hypot cx cy) := by ring
  rw [this, ea, ec]
  ring

/-- the offset vector has length half the width -/
theorem c04_norm_hypot2 (w : K) (t : Vec2 K) (ht : t.x ≠ 0 ∨ t.y ≠ 0) : (c04_norm w t).hypot2 = (w / 2) ^ 2 := by
  have hp := c04_hypot_pos t.x t.y ht
  have hs := C04HypotLaw.hypot_mul_self t.x t.y
  simp only [Vec2.hypot2, Vec2.dot, scalar_norm, c04_norm_x, c04_norm_y]
  have hne : Scalar.hypot t.x t.y ≠ 0 := hp.ne'
  field_simp
  linear_combination (-(w ^ 2)) * hs

/-- the offset vector is on the positive (cross product) side of the tangent -/
theorem c04_norm_cross (w : K) (t : Vec2 K) (ht : t.x ≠ 0 ∨ t.y ≠ 0) :
    t.cross (c04_norm w t) = w / 2 * t.hypot := by
  have hp := c04_hypot_pos t.x t.y ht
  have hs := C04HypotLaw.hypot_mul_self t.x t.y
  simp only [Vec2.cross, Vec2.hypot, scalar_norm, c04_norm_x, c04_norm_y]
  have hne : Scalar.hypot t.x t.y ≠ 0 := hp.ne'
  field_simp
  linear_combination (-w) * hs

end hypot

/-! ### `do_line`: the two offset points -/

theorem c04_offsets_opposite (p1 : Point K) (n : Vec2 K) :
    (p1 + n) - p1 = n ∧ (p1 - n) - p1 = -n ∧ ∀ p0 : Point K, (p1 - n) - (p0 - n) = p1 - p0 ∧ (p1 + n) - (p0 + n) = p1 - p0 := by
  obtain ⟨x, y⟩ := n
  obtain ⟨px, py⟩ := p1
  refine ⟨by kring, by kring, fun p0 => ?_⟩
  obtain ⟨qx, qy⟩ := p0
  exact ⟨by kring, by kring⟩

theorem c04_offset_dist (p1 : Point K) (n : Vec2 K) :
    (p1 - n).distance_squared p1 = n.hypot2 ∧ (p1 + n).distance_squared p1 = n.hypot2 := by
  constructor <;> kring

/-! ### bevel: the chord stays in the disc -/

theorem c04_bevel_chord (p0 : Point K) (a b : Vec2 K) (rr s : K) (ha : a.hypot2 = rr) (hb : b.hypot2 = rr)
    (h0 : 0 ≤ s) (h1 : s ≤ 1) : ((p0 - a).lerp (p0 - b) s).distance_squared p0 ≤ rr := by
  simp only [kdefs, scalar_norm] at ha hb ⊢
  have := c04_chord_within a.x a.y b.x b.y s rr ha hb h0 h1
  refine le_of_eq_of_le ?_ this
  ring

/-! ### square cap -/

theorem c04_affine_mul_point (a : Affine K) (p : Point K) :
    a * p = ⟨a.c0 * p.x + a.c2 * p.y + a.c4, a.c1 * p.x + a.c3 * p.y + a.c5⟩ := by
  show Affine.mul_Point a p = _
  simp only [Affine.mul_Point, kdefs, scalar_norm]

/-- the corners of the square cap -/
theorem c04_squareCap_eq (close : Bool) (s : Point K) (n : Vec2 K) :
    squareCap close s n =
      [PathEl.LineTo ⟨s.x + n.x - n.y, s.y + n.y + n.x⟩, PathEl.LineTo ⟨s.x - n.x - n.y, s.y - n.y + n.x⟩] ++
      (if close then [PathEl.ClosePath] else [PathEl.LineTo ⟨s.x - n.x, s.y - n.y⟩]) := by
  simp only [squareCap, c04_affine_mul_point, kdefs, scalar_norm]
  push_cast
  cases close
  · simp only [Bool.false_eq_true, if_false, List.cons_append, List.nil_append, List.cons.injEq,
      PathEl.LineTo.injEq, Point.mk.injEq, and_true]
    refine ⟨⟨?_, ?_⟩, ⟨?_, ?_⟩, ?_, ?_⟩ <;> ring
  · simp only [if_true, List.cons_append, List.nil_append, List.cons.injEq,
      PathEl.LineTo.injEq, Point.mk.injEq, and_true]
    refine ⟨⟨?_, ?_⟩, ?_, ?_⟩ <;> ring

theorem c04_squareCap_dist (s : Point K) (n : Vec2 K) :
    (⟨s.x + n.x - n.y, s.y + n.y + n.x⟩ : Point K).distance_squared s = 2 * n.hypot2 ∧
    (⟨s.x - n.x - n.y, s.y - n.y + n.x⟩ : Point K).distance_squared s = 2 * n.hypot2 ∧
    (⟨s.x - n.x, s.y - n.y⟩ : Point K).distance_squared s = n.hypot2 := by
  refine ⟨?_, ?_, ?_⟩ <;> kring

/-! ### inner-join pivot -/

theorem c04_pivot_pos (p0 : Point K) (cross : K) (h : 0 < cross) :
    c04_pivotF p0 cross = [] ∧ c04_pivotB p0 cross = [PathEl.LineTo p0] := by
  simp only [c04_pivotF, c04_pivotB, scalar_norm, Nat.cast_zero, decide_eq_true_eq, h, if_true, and_self]
theorem c04_pivot_neg (p0 : Point K) (cross : K) (h : cross < 0) :
    c04_pivotF p0 cross = [PathEl.LineTo p0] ∧ c04_pivotB p0 cross = [] := by
  simp only [c04_pivotF, c04_pivotB, scalar_norm, Nat.cast_zero, decide_eq_true_eq, h, not_lt_of_gt h, if_true, if_false,
    and_self]
theorem c04_pivot_zero (p0 : Point K) : c04_pivotF p0 (0 : K) = [] ∧ c04_pivotB p0 (0 : K) = [] := by
  simp only [c04_pivotF, c04_pivotB, scalar_norm, Nat.cast_zero, decide_eq_true_eq, lt_irrefl, if_false, and_self]

/-! ### the miter point -/

/-- the miter point relative to the join point (`σ = -1` forward side, `σ = 1` backward side; `r` half the width, `a`, `c` the
    lengths of the tangents `ab`, `cd`) -/
def c04_miterRel (σ r a c : K) (ab cd : Vec2 K) : K × K :=
  let h := (ab.x * (σ * (r / c * cd.x) - σ * (r / a * ab.x)) - ab.y * (σ * (r / c * -cd.y) - σ * (r / a * -ab.y)))
    / (ab.x * cd.y - ab.y * cd.x)
  (σ * (r / c * -cd.y) - cd.x * h, σ * (r / c * cd.x) - cd.y * h)

theorem c04_miterPtF_coords (w : K) (p0 : Point K) (ab cd : Vec2 K) :
    (c04_miterPtF w p0 ab cd).x = p0.x + (c04_miterRel (-1) (1 / 2 * w) (Scalar.hypot ab.x ab.y) (Scalar.hypot cd.x cd.y) ab cd).1 ∧
    (c04_miterPtF w p0 ab cd).y = p0.y + (c04_miterRel (-1) (1 / 2 * w) (Scalar.hypot ab.x ab.y) (Scalar.hypot cd.x cd.y) ab cd).2 := by
  simp only [c04_miterPtF, c04_miterRel, kdefs, scalar_norm, c04_norm_x, c04_norm_y]
  constructor <;> ring

theorem c04_miterPtB_coords (w : K) (p0 : Point K) (ab cd : Vec2 K) :
    (c04_miterPtB w p0 ab cd).x = p0.x + (c04_miterRel 1 (1 / 2 * w) (Scalar.hypot ab.x ab.y) (Scalar.hypot cd.x cd.y) ab cd).1 ∧
    (c04_miterPtB w p0 ab cd).y = p0.y + (c04_miterRel 1 (1 / 2 * w) (Scalar.hypot ab.x ab.y) (Scalar.hypot cd.x cd.y) ab cd).2 := by
  simp only [c04_miterPtB, c04_miterRel, kdefs, scalar_norm, c04_norm_x, c04_norm_y]
  constructor <;> ring

section miter
variable [C04HypotLaw K]

theorem c04_miterRel_spec (σ w : K) (ab cd : Vec2 K) (hσ : σ * σ = 1) (hab : ab.x ≠ 0 ∨ ab.y ≠ 0) (hcd : cd.x ≠ 0 ∨ cd.y ≠ 0)
    (hX : ab.x * cd.y - ab.y * cd.x ≠ 0) :
    let m := c04_miterRel σ (1 / 2 * w) (Scalar.hypot ab.x ab.y) (Scalar.hypot cd.x cd.y) ab cd
    let hyp := Scalar.hypot (ab.x * cd.y - ab.y * cd.x) (ab.x * cd.x + ab.y * cd.y)
    (m.1 * m.1 + m.2 * m.2) * (hyp + (ab.x * cd.x + ab.y * cd.y)) = 2 * (w / 2) ^ 2 * hyp ∧
    ab.x * (m.2 - σ * (1 / 2 * w / Scalar.hypot ab.x ab.y * ab.x)) - ab.y * (m.1 - σ * (1 / 2 * w / Scalar.hypot ab.x ab.y * -ab.y)) = 0 := by
  intro m hyp
  have core := c04_miter_core ab.x ab.y cd.x cd.y (Scalar.hypot ab.x ab.y) (Scalar.hypot cd.x cd.y) (1 / 2 * w) σ
    _ _ _ m.1 m.2 (C04HypotLaw.hypot_mul_self _ _) (C04HypotLaw.hypot_mul_self _ _)
    (c04_hypot_pos _ _ hab).ne' (c04_hypot_pos _ _ hcd).ne' hX hσ rfl rfl rfl rfl rfl
  refine ⟨?_, core.2⟩
  have e : hyp = Scalar.hypot ab.x ab.y * Scalar.hypot cd.x cd.y := c04_hypot_cross_dot _ _ _ _
  rw [e, core.1]
  ring

/-- the forward miter point: its distance from the join point, and it lies on both offset lines -/
theorem c04_miterPtF_spec (w : K) (p0 : Point K) (ab cd : Vec2 K) (hab : ab.x ≠ 0 ∨ ab.y ≠ 0) (hcd : cd.x ≠ 0 ∨ cd.y ≠ 0)
    (hX : ab.cross cd ≠ 0) :
    (c04_miterPtF w p0 ab cd).distance_squared p0 * (Scalar.hypot (ab.cross cd) (ab.dot cd) + ab.dot cd)
        = 2 * (w / 2) ^ 2 * Scalar.hypot (ab.cross cd) (ab.dot cd) ∧
    (c04_miterPtF w p0 ab cd - (p0 - c04_norm w cd)).cross cd = 0 ∧
    (c04_miterPtF w p0 ab cd - (p0 - c04_norm w ab)).cross ab = 0 := by
  obtain ⟨ex, ey⟩ := c04_miterPtF_coords w p0 ab cd
  simp only [Vec2.cross, scalar_norm] at hX
  obtain ⟨s1, s2⟩ := c04_miterRel_spec (-1) w ab cd (by ring) hab hcd hX
  simp only [Point.distance_squared, Vec2.hypot2, Vec2.dot, Vec2.cross, kdefs, scalar_norm, ex, ey, c04_norm_x, c04_norm_y]
  refine ⟨?_, ?_, ?_⟩
  · rw [← s1]; ring
  · simp only [c04_miterRel]; ring
  · linear_combination (-1) * s2

/-- the backward miter point: its distance from the join point, and it lies on both offset lines -/
theorem c04_miterPtB_spec (w : K) (p0 : Point K) (ab cd : Vec2 K) (hab : ab.x ≠ 0 ∨ ab.y ≠ 0) (hcd : cd.x ≠ 0 ∨ cd.y ≠ 0)
    (hX : ab.cross cd ≠ 0) :
    (c04_miterPtB w p0 ab cd).distance_squared p0 * (Scalar.hypot (ab.cross cd) (ab.dot cd) + ab.dot cd)
        = 2 * (w / 2) ^ 2 * Scalar.hypot (ab.cross cd) (ab.dot cd) ∧
    (c04_miterPtB w p0 ab cd - (p0 + c04_norm w cd)).cross cd = 0 ∧
    (c04_miterPtB w p0 ab cd - (p0 + c04_norm w ab)).cross ab = 0 := by
  obtain ⟨ex, ey⟩ := c04_miterPtB_coords w p0 ab cd
  simp only [Vec2.cross, scalar_norm] at hX
  obtain ⟨s1, s2⟩ := c04_miterRel_spec 1 w ab cd (by ring) hab hcd hX
  simp only [Point.distance_squared, Vec2.hypot2, Vec2.dot, Vec2.cross, kdefs, scalar_norm, ex, ey, c04_norm_x, c04_norm_y]
  refine ⟨?_, ?_, ?_⟩
  · rw [← s1]; ring
  · simp only [c04_miterRel]; ring
  · linear_combination (-1) * s2

theorem c04_miterTest_iff (c : StrokeCtx K) (style : StrokeStyle K) (tan0 : Vec2 K) :
    c04_miterTest c style tan0 = true ↔
      2 * Scalar.hypot (c.last_tan.cross tan0) (c.last_tan.dot tan0)
        < (Scalar.hypot (c.last_tan.cross tan0) (c.last_tan.dot tan0) + c.last_tan.dot tan0) * style.miter_limit ^ 2 := by
  simp only [c04_miterTest, scalar_norm, decide_eq_true_eq]
  push_cast
  rfl

/-- a miter point that passes the miter-limit test is within `width/2 · miter_limit` of the join point -/
theorem c04_miter_within_ctx (c : StrokeCtx K) (style : StrokeStyle K) (tan0 : Vec2 K)
    (hab : c.last_tan.x ≠ 0 ∨ c.last_tan.y ≠ 0) (hcd : tan0.x ≠ 0 ∨ tan0.y ≠ 0) (ht : c04_miterTest c style tan0 = true) :
    (0 < c.last_tan.cross tan0 →
      (c04_miterPtF style.width c.last_pt c.last_tan tan0).distance_squared c.last_pt ≤ (style.width / 2 * style.miter_limit) ^ 2) ∧
    (c.last_tan.cross tan0 < 0 →
      (c04_miterPtB style.width c.last_pt c.last_tan tan0).distance_squared c.last_pt ≤ (style.width / 2 * style.miter_limit) ^ 2) := by
  rw [c04_miterTest_iff] at ht
  have hh := C04HypotLaw.hypot_nonneg (c.last_tan.cross tan0) (c.last_tan.dot tan0)
  constructor
  · intro hX
    exact c04_miter_within_core _ _ _ _ _ (c04_miterPtF_spec style.width c.last_pt c.last_tan tan0 hab hcd hX.ne').1 hh ht
  · intro hX
    exact c04_miter_within_core _ _ _ _ _ (c04_miterPtB_spec style.width c.last_pt c.last_tan tan0 hab hcd hX.ne).1 hh ht

end miter

/-- over a lawful scalar the point equality test is sound -/
theorem c04_peqSound : c04_PeqSound K := by
  intro a b h
  simp only [Point.peq, scalar_norm, Bool.and_eq_true, decide_eq_true_eq] at h
  cases a; cases b
  simp only at h
  rw [h.1, h.2]

theorem c04_peq_false_ne {a b : Point K} (h : a.peq b = false) : a ≠ b := by
  intro e
  subst e
  simp [Point.peq, scalar_norm] at h

/-- a non-zero difference of points has a non-zero coordinate -/
theorem c04_sub_ne_zero {a b : Point K} (h : a ≠ b) : (a - b).x ≠ 0 ∨ (a - b).y ≠ 0 := by
  by_contra hn
  simp only [kdefs, scalar_norm, not_or, not_not] at hn
  apply h
  cases a; cases b
  simp only [Point.mk.injEq]
  simp only at hn
  exact ⟨by linarith [hn.1], by linarith [hn.2]⟩

theorem c04_joinTest_iff (c : StrokeCtx K) (tan0 : Vec2 K) :
    c04_joinTest c tan0 = true ↔
      (c.last_tan.dot tan0 ≤ 0 ∨
        Scalar.hypot (c.last_tan.cross tan0) (c.last_tan.dot tan0) * c.join_thresh ≤ |c.last_tan.cross tan0|) := by
  simp only [c04_joinTest, scalar_norm, Bool.or_eq_true, decide_eq_true_eq]
  push_cast
  rfl

theorem c04_miterFB_pos (c : StrokeCtx K) (style : StrokeStyle K) (tan0 : Vec2 K) (h : 0 < c.last_tan.cross tan0) :
    c04_miterF c style tan0 =
      (if c04_miterTest c style tan0 then [PathEl.LineTo (c04_miterPtF style.width c.last_pt c.last_tan tan0)] else []) ∧
    c04_miterB c style tan0 = [] := by
  simp only [c04_miterF, c04_miterB, scalar_norm, Nat.cast_zero, decide_eq_true_eq, h, if_true, ite_self, and_self]

theorem c04_miterFB_neg (c : StrokeCtx K) (style : StrokeStyle K) (tan0 : Vec2 K) (h : c.last_tan.cross tan0 < 0) :
    c04_miterF c style tan0 = [] ∧
    c04_miterB c style tan0 =
      (if c04_miterTest c style tan0 then [PathEl.LineTo (c04_miterPtB style.width c.last_pt c.last_tan tan0)] else []) := by
  simp only [c04_miterF, c04_miterB, scalar_norm, Nat.cast_zero, decide_eq_true_eq, h, not_lt_of_gt h, if_true, if_false,
    ite_self, and_self]

theorem c04_miterFB_zero (c : StrokeCtx K) (style : StrokeStyle K) (tan0 : Vec2 K) (h : c.last_tan.cross tan0 = 0) :
    c04_miterF c style tan0 = [] ∧ c04_miterB c style tan0 = [] := by
  simp only [c04_miterF, c04_miterB, scalar_norm, Nat.cast_zero, decide_eq_true_eq, h, lt_irrefl, if_false, ite_self, and_self]

end Kurbo
