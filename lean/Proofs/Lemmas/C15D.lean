import Kurbo.Quartic
import Proofs.Lemmas.C15Real
import Mathlib.Analysis.SpecialFunctions.Trigonometric.Inverse
import Mathlib.Tactic.LinearCombination
/-! helper lemmas for C15D: `depressed_cubic_dominant` over ℝ – the start value `phi_0` is a root of `x³ + g x + h`
    (trigonometric branch, Cardano branch, the overflow-guarded rewritings of both), and the Newton refinement. -/
set_option linter.unusedSectionVars false
namespace Kurbo
open Real

/-- `f64::acos` is the real arc cosine (the law `LawfulReal` lacks; inhabited by `realScalar`, see below) -/
class LawfulAcos [Scalar ℝ] : Prop where
  acos_eq : ∀ x : ℝ, Scalar.acos x = Real.arccos x

theorem realScalar_lawfulAcos : @LawfulAcos realScalar :=
  letI := realScalar
  { acos_eq := fun _ => rfl }

/-! ### the plain formulas (`k = None`), with `q = −g/3`, `r = h/2`: the cubic is `x³ − 3q·x + 2r` -/

/-- trigonometric branch -/
noncomputable def phi0Trig (q r : ℝ) : ℝ :=
  -2 * √q * (if r / √(q ^ 3) < 0 then -|cos (arccos |r / √(q ^ 3)| * (1 / 3))| else |cos (arccos |r / √(q ^ 3)| * (1 / 3))|)

/-- the radicand of the cube root in the Cardano branch: `−r − copysign(√(r² − q³), r)` -/
noncomputable def cardanoArg (q r : ℝ) : ℝ :=
  -r - if r < 0 then -|√(r * r - q ^ 3)| else |√(r * r - q ^ 3)|

/-- `a + b` with `b = q / a` (or 0) -/
noncomputable def cardanoSum (q a : ℝ) : ℝ := a + if a = 0 then 0 else q / a

/-- Cardano branch -/
noncomputable def phi0Card (q r : ℝ) : ℝ := cardanoSum q (realCbrt (cardanoArg q r))

noncomputable def phi0Plain (q r : ℝ) : ℝ := if r * r < q ^ 3 then phi0Trig q r else phi0Card q r

theorem pos_of_sq_lt_cube {q r : ℝ} (h : r * r < q ^ 3) : 0 < q := by
  by_contra hq
  have hq' : q ≤ 0 := not_lt.mp hq
  have : q ^ 3 ≤ 0 := by
    have e : q ^ 3 = q * q ^ 2 := by ring
    rw [e]; exact mul_nonpos_of_nonpos_of_nonneg hq' (sq_nonneg q)
  nlinarith [mul_self_nonneg r]

theorem sqrt_cube {q : ℝ} (hq : 0 ≤ q) : √(q ^ 3) = q * √q := by
  have e : q ^ 3 = (q * √q) ^ 2 := by
    have := Real.mul_self_sqrt hq
    calc q ^ 3 = q ^ 2 * (√q * √q) := by rw [this]; ring
      _ = (q * √q) ^ 2 := by ring
  rw [e]; exact Real.sqrt_sq (mul_nonneg hq (Real.sqrt_nonneg _))

theorem phi0Trig_root {q r : ℝ} (h : r * r < q ^ 3) :
    phi0Trig q r ^ 3 - 3 * q * phi0Trig q r + 2 * r = 0 := by
  have hq : 0 < q := pos_of_sq_lt_cube h
  obtain ⟨s, hs⟩ : ∃ s, s = √q := ⟨_, rfl⟩
  have hs0 : 0 < s := by rw [hs]; exact Real.sqrt_pos.mpr hq
  have hs2 : s * s = q := by rw [hs]; exact Real.mul_self_sqrt hq.le
  have hs3 : √(q ^ 3) = s ^ 3 := by rw [sqrt_cube hq.le, ← hs, ← hs2]; ring
  unfold phi0Trig
  have hrle : |r| ≤ √(q ^ 3) := Real.abs_le_sqrt (by nlinarith)
  rw [hs3] at hrle
  rw [← hs, hs3]
  set t := r / s ^ 3 with ht
  have hs3pos : (0 : ℝ) < s ^ 3 := by positivity
  have htr : t * s ^ 3 = r := by rw [ht]; field_simp
  have htabs : |t| ≤ 1 := by
    rw [ht, abs_div, abs_of_pos hs3pos, div_le_one hs3pos]; exact hrle
  set θ := arccos |t| * (1 / 3) with hθ
  have h3θ : cos (3 * θ) = |t| := by
    have : 3 * θ = arccos |t| := by rw [hθ]; ring
    rw [this, Real.cos_arccos (by linarith [abs_nonneg t]) htabs]
  have hc0 : 0 ≤ cos θ := by
    apply Real.cos_nonneg_of_neg_pi_div_two_le_of_le
    · have := Real.arccos_nonneg |t|
      have := Real.pi_pos
      rw [hθ]; linarith
    · have := Real.arccos_le_pi |t|
      have := Real.pi_pos
      rw [hθ]; linarith
  rw [abs_of_nonneg hc0]
  have h3 := Real.cos_three_mul θ
  rw [h3θ] at h3
  set c := cos θ
  by_cases htn : t < 0
  · rw [if_pos htn]
    rw [abs_of_neg htn] at h3
    linear_combination (-2 * s ^ 3) * h3 + (-2) * htr + (6 * s * c) * hs2
  · rw [if_neg htn]
    rw [abs_of_nonneg (not_lt.mp htn)] at h3
    linear_combination (2 * s ^ 3) * h3 + (-2) * htr + (-6 * s * c) * hs2

theorem cardanoArg_quad {q r : ℝ} (h : q ^ 3 ≤ r * r) :
    cardanoArg q r ^ 2 + 2 * r * cardanoArg q r + q ^ 3 = 0 := by
  unfold cardanoArg
  have hd : √(r * r - q ^ 3) * √(r * r - q ^ 3) = r * r - q ^ 3 := Real.mul_self_sqrt (by linarith)
  rw [abs_of_nonneg (Real.sqrt_nonneg _)]
  set d := √(r * r - q ^ 3)
  split_ifs
  · linear_combination hd
  · linear_combination hd

theorem cardanoArg_eq_zero {q r : ℝ} (h0 : cardanoArg q r = 0) : r = 0 := by
  unfold cardanoArg at h0
  rw [abs_of_nonneg (Real.sqrt_nonneg _)] at h0
  have := Real.sqrt_nonneg (r * r - q ^ 3)
  split_ifs at h0 with hr
  · linarith
  · linarith [not_lt.mp hr]

/-- the algebra of Cardano's formula: `A² + 2rA + q³ = 0`, `a³ = A` -/
theorem cardanoSum_root {q r A a : ℝ} (hA : A ^ 2 + 2 * r * A + q ^ 3 = 0) (ha3 : a ^ 3 = A) (hr : A = 0 → r = 0) :
    cardanoSum q a ^ 3 - 3 * q * cardanoSum q a + 2 * r = 0 := by
  unfold cardanoSum
  by_cases ha : a = 0
  · rw [if_pos ha]
    have hA0 : A = 0 := by rw [← ha3, ha]; ring
    have hr0 := hr hA0
    have hq3 : q ^ 3 = 0 := by rw [hA0] at hA; linear_combination hA
    have hq : q = 0 := by simpa using hq3
    rw [ha, hq, hr0]; ring
  · rw [if_neg ha]
    have hAne : A ≠ 0 := by rw [← ha3]; exact pow_ne_zero 3 ha
    set b := q / a with hb
    have hab : a * b = q := by rw [hb]; field_simp
    have hb3 : A * b ^ 3 = q ^ 3 := by rw [← ha3, ← hab]; ring
    have hsum : A + b ^ 3 + 2 * r = 0 := by
      have : A * (A + b ^ 3 + 2 * r) = 0 := by linear_combination hA + hb3
      rcases mul_eq_zero.mp this with h' | h'
      · exact absurd h' hAne
      · exact h'
    linear_combination ha3 + hsum + 3 * (a + b) * hab

theorem phi0Card_root {q r : ℝ} (h : q ^ 3 ≤ r * r) :
    phi0Card q r ^ 3 - 3 * q * phi0Card q r + 2 * r = 0 :=
  cardanoSum_root (cardanoArg_quad h) (realCbrt_pow _) cardanoArg_eq_zero

theorem phi0Plain_root (q r : ℝ) : phi0Plain q r ^ 3 - 3 * q * phi0Plain q r + 2 * r = 0 := by
  unfold phi0Plain
  split_ifs with h
  · exact phi0Trig_root h
  · exact phi0Card_root (not_lt.mp h)

/-! ### the overflow-guarded formulas (`k = Some kv`, `r ≠ 0`) are the plain ones rewritten -/

/-- `phi_0` as computed when `k = Some kv` and `r ≠ 0` -/
noncomputable def phi0Guard (q r kv : ℝ) : ℝ :=
  if kv < 0 then
    -2 * √q * (if r / q / √q < 0 then -|cos (arccos |r / q / √q| * (1 / 3))| else |cos (arccos |r / q / √q| * (1 / 3))|)
  else
    cardanoSum q (realCbrt
      (if |q| < |r| then -r * (1 + √kv)
       else -r - if r < 0 then -|√|q| * q * √kv| else |√|q| * q * √kv|))

theorem trigArg_eq {q : ℝ} (hq : 0 < q) (r : ℝ) : r / q / √q = r / √(q ^ 3) := by
  rw [sqrt_cube hq.le, div_div]

theorem kv_A {q r : ℝ} (hr : r ≠ 0) : 1 - q * (q / r) ^ 2 = (r * r - q ^ 3) / (r * r) := by
  field_simp

theorem kv_B {q : ℝ} (hq : q ≠ 0) (r : ℝ) :
    (if q < 0 then -1 else 1) * ((r / q) ^ 2 / q - 1) = (r * r - q ^ 3) / |q| ^ 3 := by
  split_ifs with h
  · rw [abs_of_neg h]; field_simp
  · have h' : 0 < q := lt_of_le_of_ne (not_lt.mp h) (Ne.symm hq)
    rw [abs_of_pos h']; field_simp

theorem guardArg_A {q r : ℝ} (hr : r ≠ 0) (hD : q ^ 3 ≤ r * r) :
    -r * (1 + √((r * r - q ^ 3) / (r * r))) = cardanoArg q r := by
  unfold cardanoArg
  rw [Real.sqrt_div (by linarith), Real.sqrt_mul_self_eq_abs, abs_of_nonneg (Real.sqrt_nonneg _)]
  set d := √(r * r - q ^ 3)
  split_ifs with h
  · rw [abs_of_neg h]; field_simp; ring
  · have h' : 0 < r := lt_of_le_of_ne (not_lt.mp h) (Ne.symm hr)
    rw [abs_of_pos h']; field_simp; ring

theorem guardAbs_B {q : ℝ} (hq : q ≠ 0) (r : ℝ) (hD : q ^ 3 ≤ r * r) :
    |√|q| * q * √((r * r - q ^ 3) / |q| ^ 3)| = |√(r * r - q ^ 3)| := by
  have ha : 0 < |q| := abs_pos.mpr hq
  rw [Real.sqrt_div (by linarith), sqrt_cube ha.le]
  set d := √(r * r - q ^ 3)
  have hw : 0 < √|q| := Real.sqrt_pos.mpr ha
  set w := √|q|
  have e : w * q * (d / (|q| * w)) = q / |q| * d := by field_simp
  rw [e, abs_mul, abs_div, abs_abs, div_self ha.ne', one_mul]

theorem phi0Guard_eq_plain {q r kv : ℝ} (hr : r ≠ 0)
    (hk : (|q| < |r| ∧ kv = 1 - q * (q / r) ^ 2) ∨
      (¬ |q| < |r| ∧ kv = (if q < 0 then -1 else 1) * ((r / q) ^ 2 / q - 1))) :
    phi0Guard q r kv = phi0Plain q r := by
  have hr2 : 0 < r * r := mul_self_pos.mpr hr
  -- in both cases `kv = (r² − q³) / p` with `p > 0`
  have hneg : kv < 0 ↔ r * r < q ^ 3 := by
    rcases hk with ⟨_, e⟩ | ⟨hlt, e⟩
    · rw [e, kv_A hr, div_lt_iff₀ hr2, zero_mul, sub_neg]
    · have hq : q ≠ 0 := by
        rintro rfl
        exact hlt (by rw [abs_zero]; exact abs_pos.mpr hr)
      have hp : 0 < |q| ^ 3 := pow_pos (abs_pos.mpr hq) 3
      rw [e, kv_B hq, div_lt_iff₀ hp, zero_mul, sub_neg]
  unfold phi0Guard phi0Plain
  by_cases hD : r * r < q ^ 3
  · rw [if_pos (hneg.mpr hD), if_pos hD]
    unfold phi0Trig
    rw [trigArg_eq (pos_of_sq_lt_cube hD)]
  · rw [if_neg (fun h' => hD (hneg.mp h')), if_neg hD]
    have hD' := not_lt.mp hD
    unfold phi0Card
    congr 2
    rcases hk with ⟨hlt, e⟩ | ⟨hlt, e⟩
    · rw [if_pos hlt, e, kv_A hr, guardArg_A hr hD']
    · have hq : q ≠ 0 := by
        rintro rfl
        exact hlt (by rw [abs_zero]; exact abs_pos.mpr hr)
      rw [if_neg hlt, e, kv_B hq, guardAbs_B hq r hD']
      rfl

/-- `k = Some …`, `r = 0`: the cubic is `x (x² + g)` -/
theorem phi0_r_zero_root (g : ℝ) :
    (if 0 < g then 0 else √(-g)) ^ 3 + g * (if 0 < g then 0 else √(-g)) + 0 = 0 := by
  split_ifs with h
  · ring
  · have := Real.mul_self_sqrt (show 0 ≤ -g by linarith [not_lt.mp h])
    set x := √(-g)
    linear_combination x * this

/-! ### "dominant": `phi_0² ≥ 3q = −g`, hence no real root is larger in magnitude -/

theorem phi0Trig_sq_ge {q r : ℝ} (h : r * r < q ^ 3) : 3 * q ≤ phi0Trig q r ^ 2 := by
  have hq := pos_of_sq_lt_cube h
  unfold phi0Trig
  generalize r / √(q ^ 3) = t
  set θ := arccos |t| * (1 / 3) with hθ
  have hθ0 : 0 ≤ θ := by have := Real.arccos_nonneg |t|; rw [hθ]; linarith
  have hθ1 : θ ≤ π / 6 := by have := Real.arccos_le_pi_div_two.mpr (abs_nonneg t); rw [hθ]; linarith
  have hc : √3 / 2 ≤ cos θ := by
    rw [← Real.cos_pi_div_six]
    exact Real.cos_le_cos_of_nonneg_of_le_pi hθ0 (by linarith [Real.pi_pos]) hθ1
  have h3 : (√3) ^ 2 = 3 := Real.sq_sqrt (by norm_num)
  have hs3 : 0 ≤ √3 := Real.sqrt_nonneg _
  have hc2 : 3 / 4 ≤ cos θ ^ 2 := by nlinarith
  have hsq : (√q) ^ 2 = q := Real.sq_sqrt hq.le
  have e : (-2 * √q * (if t < 0 then -|cos θ| else |cos θ|)) ^ 2 = 4 * q * cos θ ^ 2 := by
    split_ifs <;> rw [mul_pow, mul_pow, hsq] <;> simp only [neg_sq, sq_abs] <;> ring
  rw [e]; nlinarith

theorem cardanoSum_sq_ge {q a : ℝ} (h0 : a = 0 → q ≤ 0) : 3 * q ≤ cardanoSum q a ^ 2 := by
  unfold cardanoSum
  by_cases ha : a = 0
  · rw [if_pos ha, ha]; have := h0 ha; nlinarith
  · rw [if_neg ha]
    set b := q / a with hb
    have hab : a * b = q := by rw [hb]; field_simp
    rw [← hab]; nlinarith [sq_nonneg (a - b), sq_nonneg a, sq_nonneg b]

theorem phi0Card_sq_ge {q r : ℝ} (h : q ^ 3 ≤ r * r) : 3 * q ≤ phi0Card q r ^ 2 := by
  apply cardanoSum_sq_ge
  intro ha
  have hA0 : cardanoArg q r = 0 := by rw [← realCbrt_pow (cardanoArg q r), ha]; ring
  have hq3 : q ^ 3 = 0 := by have := cardanoArg_quad h; rw [hA0] at this; linear_combination this
  have hq : q = 0 := by simpa using hq3
  exact hq.le

theorem phi0Plain_sq_ge (q r : ℝ) : 3 * q ≤ phi0Plain q r ^ 2 := by
  unfold phi0Plain
  split_ifs with h
  · exact phi0Trig_sq_ge h
  · exact phi0Card_sq_ge (not_lt.mp h)

/-- a root `x` of `x³ + g x + h` with `x² ≥ −g` is a root of largest magnitude -/
theorem dominant_of_sq_ge {g h x y : ℝ} (hx : x ^ 3 + g * x + h = 0) (hy : y ^ 3 + g * y + h = 0)
    (hsq : -g ≤ x ^ 2) : |y| ≤ |x| := by
  have hfac : (y - x) * (y ^ 2 + x * y + x ^ 2 + g) = 0 := by linear_combination hy - hx
  rcases mul_eq_zero.mp hfac with h1 | h1
  · rw [sub_eq_zero.mp h1]
  · rw [← sq_le_sq]
    by_contra hlt
    have hlt' : x ^ 2 < y ^ 2 := not_le.mp hlt
    have h2 : y ^ 2 ≤ -(x * y) := by linarith
    have h3 := pow_le_pow_left₀ (sq_nonneg y) h2 2
    rw [neg_sq] at h3
    have hy2 : 0 < y ^ 2 := lt_of_le_of_lt (sq_nonneg x) hlt'
    have : y ^ 2 * (x ^ 2 - y ^ 2) < 0 := mul_neg_of_pos_of_neg hy2 (by linarith)
    nlinarith

/-! ### the Newton refinement (any lawful scalar) -/
section newton
variable {K : Type} [Field K] [LinearOrder K] [IsStrictOrderedRing K] [FloorRing K] [Scalar K] [LawfulScalar K]

theorem dcdNewton_succ (g h : K) (n : Nat) (x f : K) :
    dcdNewton g h (n + 1) x f =
      if 3 * x * x + g = 0 then x
      else if ((x - f / (3 * x * x + g)) * (x - f / (3 * x * x + g)) + g) * (x - f / (3 * x * x + g)) + h = 0 then
        x - f / (3 * x * x + g)
      else if |f| ≤ |((x - f / (3 * x * x + g)) * (x - f / (3 * x * x + g)) + g) * (x - f / (3 * x * x + g)) + h| then x
      else dcdNewton g h n (x - f / (3 * x * x + g))
        (((x - f / (3 * x * x + g)) * (x - f / (3 * x * x + g)) + g) * (x - f / (3 * x * x + g)) + h) := by
  rw [dcdNewton]
  simp only [scalar_norm, Nat.cast_ofNat, Nat.cast_zero, decide_eq_true_eq]

/-- an exact root is a fixed point of the loop, whatever the iteration count -/
theorem dcdNewton_fixed {g h x : K} (hroot : (x * x + g) * x + h = 0) (n : Nat) : dcdNewton g h n x 0 = x := by
  cases n with
  | zero => rfl
  | succ n =>
    rw [dcdNewton_succ]
    by_cases hd : 3 * x * x + g = 0
    · rw [if_pos hd]
    · rw [if_neg hd]
      have e : x - 0 / (3 * x * x + g) = x := by rw [zero_div, sub_zero]
      rw [e, if_pos hroot]

/-- the loop only accepts strict improvements of `|f|`: the residual of the result is at most the residual of the input -/
theorem dcdNewton_res_le (g h : K) (n : Nat) : ∀ x f : K, f = (x * x + g) * x + h →
    |(dcdNewton g h n x f * dcdNewton g h n x f + g) * dcdNewton g h n x f + h| ≤ |f| := by
  induction n with
  | zero => intro x f hf; rw [hf]; exact le_refl _
  | succ n ih =>
    intro x f hf
    rw [dcdNewton_succ]
    by_cases hd : 3 * x * x + g = 0
    · rw [if_pos hd, hf]
    · rw [if_neg hd]
      generalize x - f / (3 * x * x + g) = nx
      by_cases h0 : (nx * nx + g) * nx + h = 0
      · rw [if_pos h0, h0, abs_zero]; exact abs_nonneg _
      · rw [if_neg h0]
        by_cases hge : |f| ≤ |(nx * nx + g) * nx + h|
        · rw [if_pos hge, hf]
        · rw [if_neg hge]
          exact (ih nx _ rfl).trans (not_le.mp hge).le

theorem depressedCubicDominant_eq (g h : K) :
    depressedCubicDominant g h =
      if |(dcdPhi0 g h * dcdPhi0 g h + g) * dcdPhi0 g h + h| <
          (dcdEpsM : K) * max (max (dcdPhi0 g h ^ 3) (g * dcdPhi0 g h)) h then dcdPhi0 g h
      else dcdNewton g h 8 (dcdPhi0 g h) ((dcdPhi0 g h * dcdPhi0 g h + g) * dcdPhi0 g h + h) := by
  unfold depressedCubicDominant
  simp only [scalar_norm, decide_eq_true_eq]

/-- if the start value is an exact root, it is returned (early return or fixed point of the loop) -/
theorem depressedCubicDominant_of_root {g h : K} (hroot : (dcdPhi0 g h * dcdPhi0 g h + g) * dcdPhi0 g h + h = 0) :
    depressedCubicDominant g h = dcdPhi0 g h := by
  rw [depressedCubicDominant_eq, hroot]
  split_ifs
  · rfl
  · exact dcdNewton_fixed hroot 8

/-- in general the returned value has a residual no larger than the start value's -/
theorem depressedCubicDominant_res_le' (g h : K) :
    |(depressedCubicDominant g h * depressedCubicDominant g h + g) * depressedCubicDominant g h + h| ≤
      |(dcdPhi0 g h * dcdPhi0 g h + g) * dcdPhi0 g h + h| := by
  rw [depressedCubicDominant_eq]
  split_ifs
  · exact le_refl _
  · exact dcdNewton_res_le g h 8 _ _ rfl
end newton

/-! ### the model's `phi_0` -/
section model
variable [Scalar ℝ] [LawfulScalar ℝ] [LawfulReal] [LawfulAcos]

theorem dcdK_cases (q r : ℝ) : dcdK q r = none ∨ (|q| < |r| ∧ dcdK q r = some (1 - q * (q / r) ^ 2)) ∨
    (¬ |q| < |r| ∧ dcdK q r = some ((if q < 0 then -1 else 1) * ((r / q) ^ 2 / q - 1))) := by
  unfold dcdK
  simp only [scalar_norm, Nat.cast_one, Bool.and_eq_true, decide_eq_true_eq]
  by_cases h1 : |q| < (dcdQBig : ℝ) ∧ |r| < (dcdRBig : ℝ)
  · rw [if_pos h1]; exact Or.inl rfl
  · rw [if_neg h1]
    by_cases h2 : |q| < |r|
    · rw [if_pos h2]; exact Or.inr (Or.inl ⟨h2, rfl⟩)
    · rw [if_neg h2]; exact Or.inr (Or.inr ⟨h2, rfl⟩)

theorem dcdPhi0_none (g h : ℝ) (hk : dcdK (-1 / 3 * g) (1 / 2 * h) = none) :
    dcdPhi0 g h = phi0Plain (-1 / 3 * g) (1 / 2 * h) := by
  unfold dcdPhi0
  simp only [scalar_norm, LawfulReal.sqrt_eq, LawfulReal.cbrt_eq, LawfulReal.cos_eq, LawfulAcos.acos_eq]
  push_cast
  rw [hk]
  simp only [Option.isSome_none, Bool.false_eq_true, if_false, decide_eq_true_eq]
  rfl

theorem dcdPhi0_some_zero (g h kv : ℝ) (hk : dcdK (-1 / 3 * g) (1 / 2 * h) = some kv) (hr : 1 / 2 * h = 0) :
    dcdPhi0 g h = if 0 < g then 0 else √(-g) := by
  unfold dcdPhi0
  simp only [scalar_norm, LawfulReal.sqrt_eq, LawfulReal.cbrt_eq, LawfulReal.cos_eq, LawfulAcos.acos_eq]
  push_cast
  rw [hk]
  simp only [Option.isSome_some, decide_eq_true_eq, hr, Bool.true_and, decide_true, if_true]

theorem dcdPhi0_some_ne (g h kv : ℝ) (hk : dcdK (-1 / 3 * g) (1 / 2 * h) = some kv) (hr : 1 / 2 * h ≠ 0) :
    dcdPhi0 g h = phi0Guard (-1 / 3 * g) (1 / 2 * h) kv := by
  unfold dcdPhi0
  simp only [scalar_norm, LawfulReal.sqrt_eq, LawfulReal.cbrt_eq, LawfulReal.cos_eq, LawfulAcos.acos_eq]
  push_cast
  rw [hk]
  simp only [Option.isSome_some, decide_eq_true_eq, hr, Bool.true_and, decide_false, if_true, Bool.false_eq_true, if_false]
  rfl

/-- the start value is `phi0Plain` unless `k = Some …` and `r = 0` -/
theorem dcdPhi0_eq_plain (g h : ℝ) (hcase : dcdK (-1 / 3 * g) (1 / 2 * h) = none ∨ 1 / 2 * h ≠ 0) :
    dcdPhi0 g h = phi0Plain (-1 / 3 * g) (1 / 2 * h) := by
  rcases dcdK_cases (-1 / 3 * g) (1 / 2 * h) with hk | ⟨hlt, hk⟩ | ⟨hlt, hk⟩
  · exact dcdPhi0_none g h hk
  · have hr : 1 / 2 * h ≠ 0 := hcase.resolve_left (by rw [hk]; exact Option.some_ne_none _)
    rw [dcdPhi0_some_ne g h _ hk hr]
    exact phi0Guard_eq_plain hr (Or.inl ⟨hlt, rfl⟩)
  · have hr : 1 / 2 * h ≠ 0 := hcase.resolve_left (by rw [hk]; exact Option.some_ne_none _)
    rw [dcdPhi0_some_ne g h _ hk hr]
    exact phi0Guard_eq_plain hr (Or.inr ⟨hlt, rfl⟩)

theorem dcdPhi0_root' (g h : ℝ) : dcdPhi0 g h ^ 3 + g * dcdPhi0 g h + h = 0 := by
  by_cases hcase : dcdK (-1 / 3 * g) (1 / 2 * h) = none ∨ 1 / 2 * h ≠ 0
  · rw [dcdPhi0_eq_plain g h hcase]
    have := phi0Plain_root (-1 / 3 * g) (1 / 2 * h)
    linear_combination this
  · rw [not_or, not_not] at hcase
    obtain ⟨hk, hr⟩ := hcase
    obtain ⟨kv, hkv⟩ := Option.ne_none_iff_exists'.mp hk
    rw [dcdPhi0_some_zero g h kv hkv hr]
    have h0 : h = 0 := by linarith
    rw [h0]; exact phi0_r_zero_root g

theorem dcdPhi0_sq_ge' (g h : ℝ) : -g ≤ dcdPhi0 g h ^ 2 := by
  by_cases hcase : dcdK (-1 / 3 * g) (1 / 2 * h) = none ∨ 1 / 2 * h ≠ 0
  · rw [dcdPhi0_eq_plain g h hcase]
    have := phi0Plain_sq_ge (-1 / 3 * g) (1 / 2 * h)
    linarith
  · rw [not_or, not_not] at hcase
    obtain ⟨hk, hr⟩ := hcase
    obtain ⟨kv, hkv⟩ := Option.ne_none_iff_exists'.mp hk
    rw [dcdPhi0_some_zero g h kv hkv hr]
    split_ifs with hg
    · nlinarith
    · rw [Real.sq_sqrt (by linarith [not_lt.mp hg])]

theorem depressedCubicDominant_root' (g h : ℝ) :
    depressedCubicDominant g h ^ 3 + g * depressedCubicDominant g h + h = 0 := by
  have hr := dcdPhi0_root' g h
  rw [depressedCubicDominant_of_root (by linear_combination hr)]
  exact hr
end model

end Kurbo
