import Mathlib.Analysis.SpecialFunctions.Complex.Arg
import Mathlib.Tactic.Linarith
import Mathlib.Tactic.Positivity
/-! C01 helper (pure Mathlib, no model): the angle `phi` with the branch cut on the lower side of the negative real
    axis, the strict crossing indicator `kcross`, and the per-edge lemma `edge_angle`. -/
open Complex Real

namespace Kurbo

/-- angle in [-π, π) with the branch cut (negative real axis) attached to the lower half plane -/
noncomputable def phi (z : ℂ) : ℝ := -(arg ((starRingEnd ℂ) z))

theorem phi_eq_arg_of_ne_pi {z : ℂ} (h : arg z ≠ π) : phi z = arg z := by
  unfold phi; rw [arg_conj]; simp [h]

theorem phi_of_arg_pi {z : ℂ} (h : arg z = π) : phi z = -π := by
  unfold phi; rw [arg_conj]; simp [h]

theorem phi_mem (z : ℂ) : -π ≤ phi z ∧ phi z < π := by
  by_cases h : arg z = π
  · rw [phi_of_arg_pi h]; constructor <;> linarith [pi_pos]
  · rw [phi_eq_arg_of_ne_pi h]
    exact ⟨(neg_pi_lt_arg z).le, lt_of_le_of_ne (arg_le_pi z) h⟩

theorem sin_phi (z : ℂ) : Real.sin (phi z) = z.im / ‖z‖ := by
  by_cases h : arg z = π
  · rw [phi_of_arg_pi h]
    have := arg_eq_pi_iff.mp h
    simp [this.2]
  · rw [phi_eq_arg_of_ne_pi h, sin_arg]

theorem cos_phi {z : ℂ} (hz : z ≠ 0) : Real.cos (phi z) = z.re / ‖z‖ := by
  by_cases h : arg z = π
  · rw [phi_of_arg_pi h, Real.cos_neg, ← h, cos_arg hz]
  · rw [phi_eq_arg_of_ne_pi h, cos_arg hz]

/-- cross product in terms of the angle difference -/
theorem cross_eq_sin {a b : ℂ} (ha : a ≠ 0) (hb : b ≠ 0) :
    a.re * b.im - a.im * b.re = ‖a‖ * ‖b‖ * Real.sin (phi b - phi a) := by
  rw [Real.sin_sub, sin_phi, sin_phi, cos_phi ha, cos_phi hb]
  have h1 : ‖a‖ ≠ 0 := norm_ne_zero_iff.mpr ha
  have h2 : ‖b‖ ≠ 0 := norm_ne_zero_iff.mpr hb
  field_simp

theorem phi_nonneg_iff {z : ℂ} : 0 ≤ phi z ↔ (0 ≤ z.im ∧ ¬ (z.re < 0 ∧ z.im = 0)) := by
  by_cases h : arg z = π
  · rw [phi_of_arg_pi h]
    have := arg_eq_pi_iff.mp h
    constructor
    · intro h'; linarith [pi_pos]
    · intro h'; exact absurd this h'.2
  · rw [phi_eq_arg_of_ne_pi h, arg_nonneg_iff]
    constructor
    · intro h'; exact ⟨h', fun hh => h (arg_eq_pi_iff.mpr hh)⟩
    · intro h'; exact h'.1


theorem phi_pos_of_im_pos {z : ℂ} (h : 0 < z.im) : 0 < phi z ∧ phi z < π := by
  have hne : arg z ≠ π := fun hh => by have := (arg_eq_pi_iff.mp hh).2; linarith
  rw [phi_eq_arg_of_ne_pi hne]
  refine ⟨?_, lt_of_le_of_ne (arg_le_pi z) hne⟩
  have h0 : 0 ≤ arg z := arg_nonneg_iff.mpr h.le
  rcases h0.lt_or_eq with h1 | h1
  · exact h1
  · have := (arg_eq_zero_iff.mp h1.symm).2; linarith

theorem phi_nonpos_of_im_nonpos {z : ℂ} (h : z.im ≤ 0) : phi z ≤ 0 := by
  by_cases hpi : arg z = π
  · rw [phi_of_arg_pi hpi]; linarith [pi_pos]
  · rw [phi_eq_arg_of_ne_pi hpi]
    rcases h.lt_or_eq with h1 | h1
    · exact (arg_neg_iff.mpr h1).le
    · -- im = 0, arg ≠ π → re ≥ 0 → arg = 0
      have : 0 ≤ z.re := by
        by_contra hneg
        exact hpi (arg_eq_pi_iff.mpr ⟨not_le.mp hneg, h1⟩)
      rw [arg_eq_zero_iff.mpr ⟨this, h1⟩]

/-- the angle difference is `arg (b/a)` up to a multiple of 2π -/
theorem phi_sub_eq {a b : ℂ} (ha : a ≠ 0) (hb : b ≠ 0) :
    ∃ m : ℤ, phi b - phi a = arg (b / a) + 2 * π * m := by
  have hphi : ∀ z : ℂ, ((phi z : ℝ) : Real.Angle) = (arg z : Real.Angle) := by
    intro z
    by_cases hpi : arg z = π
    · rw [phi_of_arg_pi hpi, hpi]; simp
    · rw [phi_eq_arg_of_ne_pi hpi]
  have h : (((phi b - phi a : ℝ)) : Real.Angle) = ((arg (b / a) : ℝ) : Real.Angle) := by
    rw [arg_div_coe_angle hb ha, Real.Angle.coe_sub, hphi, hphi]
  obtain ⟨m, hm⟩ := Real.Angle.angle_eq_iff_two_pi_dvd_sub.mp h
  exact ⟨m, by linarith⟩

/-- kurbo's contribution of the edge a → b to the winding number about the origin
    (leftward ray, half-open rule, line branch of `winding_inner`) -/
noncomputable def kcross (a b : ℂ) : ℤ :=
  if b.im ≤ 0 ∧ 0 < a.im ∧ 0 < a.re * b.im - a.im * b.re then 1
  else if a.im ≤ 0 ∧ 0 < b.im ∧ a.re * b.im - a.im * b.re < 0 then -1
  else 0


theorem int_eq_zero_of_abs_lt {m : ℤ} (h1 : -(1:ℝ) < m) (h2 : (m:ℝ) < 1) : m = 0 := by
  have a : (-1 : ℤ) < m := by exact_mod_cast h1
  have b : m < 1 := by exact_mod_cast h2
  omega

/-- **Edge lemma.** For an edge a → b that does not pass through the origin, the change of the
cut-below angle equals the principal angle `arg (b/a)` minus 2π times kurbo's crossing contribution. -/
theorem edge_angle {a b : ℂ} (ha : a ≠ 0) (hb : b ≠ 0) (hseg : arg (b / a) ≠ π) :
    phi b - phi a = arg (b / a) - 2 * π * (kcross a b : ℝ) := by
  obtain ⟨m, hm⟩ := phi_sub_eq ha hb
  have hα1 : -π < arg (b / a) := neg_pi_lt_arg _
  have hα2 : arg (b / a) < π := lt_of_le_of_ne (arg_le_pi _) hseg
  have hcross := cross_eq_sin ha hb
  have hn : 0 < ‖a‖ * ‖b‖ := mul_pos (norm_pos_iff.mpr ha) (norm_pos_iff.mpr hb)
  have hπ := pi_pos
  rcases lt_or_ge 0 a.im with hai | hai
  · -- a above
    obtain ⟨ha1, ha2⟩ := phi_pos_of_im_pos hai
    rcases lt_or_ge 0 b.im with hbi | hbi
    · -- both above : m = 0, kcross = 0
      obtain ⟨hb1, hb2⟩ := phi_pos_of_im_pos hbi
      have hm0 : m = 0 := by
        apply int_eq_zero_of_abs_lt <;> nlinarith
      have hk : kcross a b = 0 := by
        unfold kcross
        rw [if_neg (by intro h; linarith [h.1]), if_neg (by intro h; linarith [h.1])]
      rw [hk, hm, hm0]; simp
    · -- a above, b below or on axis
      have hb1 := (phi_mem b).1
      have hb2 := phi_nonpos_of_im_nonpos hbi
      have hmle : m ≤ 0 := by
        have : (m:ℝ) < 1 := by nlinarith
        have : m < 1 := by exact_mod_cast this
        omega
      have hmge : -1 ≤ m := by
        have : (-2:ℝ) < m := by nlinarith
        have : (-2:ℤ) < m := by exact_mod_cast this
        omega
      have hcases : m = 0 ∨ m = -1 := by omega
      rcases hcases with hm0 | hm1
      · -- δ = α ∈ (-π, 0): sin < 0, cross < 0, kcross = 0
        rw [hm0] at hm
        have hδ : phi b - phi a = arg (b / a) := by simpa using hm
        have hsin : Real.sin (phi b - phi a) < 0 :=
          Real.sin_neg_of_neg_of_neg_pi_lt (by linarith) (by rw [hδ]; exact hα1)
        have hc : a.re * b.im - a.im * b.re < 0 := by rw [hcross]; exact mul_neg_of_pos_of_neg hn hsin
        have hk : kcross a b = 0 := by
          unfold kcross
          rw [if_neg (by intro h; linarith [h.2.2]), if_neg (by intro h; linarith [h.1])]
        rw [hk, hδ]; simp
      · -- δ = α - 2π ∈ (-2π, -π): sin > 0, cross > 0, kcross = 1
        rw [hm1] at hm
        have hδ : phi b - phi a = arg (b / a) - 2 * π := by push_cast at hm; linarith
        have hsin : 0 < Real.sin (phi b - phi a) := by
          have : Real.sin (phi b - phi a) = Real.sin (arg (b / a)) := by rw [hδ, Real.sin_sub_two_pi]
          rw [this]
          apply Real.sin_pos_of_pos_of_lt_pi _ hα2
          linarith
        have hc : 0 < a.re * b.im - a.im * b.re := by rw [hcross]; exact mul_pos hn hsin
        have hk : kcross a b = 1 := by
          unfold kcross
          rw [if_pos ⟨hbi, hai, hc⟩]
        rw [hk, hδ]; simp
  · -- a below or on axis
    have ha1 := (phi_mem a).1
    have ha2 := phi_nonpos_of_im_nonpos hai
    rcases lt_or_ge 0 b.im with hbi | hbi
    · obtain ⟨hb1, hb2⟩ := phi_pos_of_im_pos hbi
      have hmge : 0 ≤ m := by
        have : (-1:ℝ) < m := by nlinarith
        have : (-1:ℤ) < m := by exact_mod_cast this
        omega
      have hmle : m ≤ 1 := by
        have : (m:ℝ) < 2 := by nlinarith
        have : m < 2 := by exact_mod_cast this
        omega
      have hcases : m = 0 ∨ m = 1 := by omega
      rcases hcases with hm0 | hm1
      · rw [hm0] at hm
        have hδ : phi b - phi a = arg (b / a) := by simpa using hm
        have hsin : 0 < Real.sin (phi b - phi a) :=
          Real.sin_pos_of_pos_of_lt_pi (by linarith) (by rw [hδ]; exact hα2)
        have hc : 0 < a.re * b.im - a.im * b.re := by rw [hcross]; exact mul_pos hn hsin
        have hk : kcross a b = 0 := by
          unfold kcross
          rw [if_neg (by intro h; linarith [h.2.1]), if_neg (by intro h; linarith [h.2.2])]
        rw [hk, hδ]; simp
      · rw [hm1] at hm
        have hδ : phi b - phi a = arg (b / a) + 2 * π := by push_cast at hm; linarith
        have hsin : Real.sin (phi b - phi a) < 0 := by
          have : Real.sin (phi b - phi a) = Real.sin (arg (b / a)) := by rw [hδ, Real.sin_add_two_pi]
          rw [this]
          apply Real.sin_neg_of_neg_of_neg_pi_lt _ hα1
          linarith
        have hc : a.re * b.im - a.im * b.re < 0 := by rw [hcross]; exact mul_neg_of_pos_of_neg hn hsin
        have hk : kcross a b = -1 := by
          unfold kcross
          rw [if_neg (by intro h; linarith [h.2.1]), if_pos ⟨hai, hbi, hc⟩]
        rw [hk, hδ]; push_cast; ring
    · have hb1 := (phi_mem b).1
      have hb2 := phi_nonpos_of_im_nonpos hbi
      have hm0 : m = 0 := by
        apply int_eq_zero_of_abs_lt <;> nlinarith
      have hk : kcross a b = 0 := by
        unfold kcross
        rw [if_neg (by intro h; linarith [h.2.1]), if_neg (by intro h; linarith [h.2.1])]
      rw [hk, hm, hm0]; simp

end Kurbo
