import Proofs.Lawful
import Proofs.Lemmas.C07
/-! `LawfulPeq` holds for every lawful scalar, in particular for `Rat`.
    (`Float` is not an instance: `NaN == NaN` is `false`, so `peq a a = false` for a point with a NaN coordinate.) -/
namespace Kurbo

instance instLawfulPeqOfLawfulScalar {K : Type} [Field K] [LinearOrder K] [IsStrictOrderedRing K] [FloorRing K]
    [Scalar K] [LawfulScalar K] : LawfulPeq K where
  peq_iff a b := by
    obtain ⟨ax, ay⟩ := a
    obtain ⟨bx, b_y⟩ := b
    simp only [Point.peq, LawfulScalar.beq_eq, Bool.and_eq_true, decide_eq_true_eq, Point.mk.injEq]

example : LawfulPeq Rat := inferInstance

end Kurbo
