import Proofs.Lemmas.C04Inv
/-! Helper definitions and lemmas for C04, part 5 (structure; any `[Scalar K]`, core Lean only): the loop invariant behind
    `stroke_polyline_total`, `stroke_contours_closed`, `stroke_output_empty_iff`. -/
set_option linter.unusedSectionVars false
set_option linter.unusedVariables false
namespace Kurbo
variable {K : Type} [Scalar K]

/-! ### does the source have a non-degenerate segment? -/

/-- the stroker's view of the source: start point of the sub-path, current point, and whether some `LineTo`/`ClosePath` so far
    moved the current point (compared with the crate's `!=` on points) -/
structure C04Trk (K : Type) where
  start : Point K
  last : Point K
  seen : Bool

def c04_trkStep (s : C04Trk K) : PathEl K → C04Trk K
  | .MoveTo p => ⟨p, p, s.seen⟩
  | .LineTo p1 => if !(p1.peq s.last) then ⟨s.start, p1, true⟩ else s
  | .ClosePath => if !(s.last.peq s.start) then ⟨s.start, s.start, true⟩ else s
  | _ => s

/-- the initial current point of `StrokeCtx::default()` is the origin -/
def c04_trkInit : C04Trk K := open Ops in ⟨⟨0, 0⟩, ⟨0, 0⟩, false⟩

def c04_trk (els : List (PathEl K)) : C04Trk K := els.foldl c04_trkStep c04_trkInit

/-- some `LineTo` target differs from the current point, or some `ClosePath` finds the current point away from the start -/
def c04_hasSegment (els : List (PathEl K)) : Bool := (c04_trk els).seen

theorem c04_trk_snoc (pre : List (PathEl K)) (el : PathEl K) : c04_trk (pre ++ [el]) = c04_trkStep (c04_trk pre) el := by
  unfold c04_trk
  rw [List.foldl_append]
  rfl

/-- the context agrees with the tracker -/
structure C04TrkOK (s : C04Trk K) (c : StrokeCtx K) : Prop where
  start : c.start_pt = s.start
  last : c.last_pt = s.last
  unseen : s.seen = false → c.output = [] ∧ c.forward_path = []
  seen : s.seen = true → c.output ≠ [] ∨ c.forward_path ≠ []

/-! ### the loop invariant -/

/-- output so far is a list of good contours -/
def c04_OutGood (style : StrokeStyle K) (out : List (PathEl K)) : Prop :=
  ∃ cs : List (List (PathEl K)), out = cs.flatten ∧ ∀ x ∈ cs, c04_Good style x

theorem c04_OutGood_append {style : StrokeStyle K} {out : List (PathEl K)} {cs : List (List (PathEl K))}
    (h : c04_OutGood style out) (hcs : ∀ x ∈ cs, c04_Good style x) : c04_OutGood style (out ++ cs.flatten) := by
  obtain ⟨cs0, e0, h0⟩ := h
  refine ⟨cs0 ++ cs, by rw [List.flatten_append, e0], ?_⟩
  intro x hx
  rcases List.mem_append.1 hx with h | h
  · exact h0 x h
  · exact hcs x h

theorem c04_Good_ne_nil {style : StrokeStyle K} {x : List (PathEl K)} (h : c04_Good style x) : x ≠ [] := by
  rcases h with ⟨p, mid, rfl, _⟩ | ⟨_, q, tl, s, n, mid, rfl, _⟩ <;> exact List.cons_ne_nil _ _

def c04_I (style : StrokeStyle K) (pre : List (PathEl K)) (c : StrokeCtx K) : Prop :=
  C04Inv c ∧ c04_OutGood style c.output ∧ C04TrkOK (c04_trk pre) c

theorem c04_I_init (style : StrokeStyle K) (jt : K) :
    c04_I style []
      ({ start_pt := open Ops in ⟨0, 0⟩, start_norm := open Ops in ⟨0, 0⟩, start_tan := open Ops in ⟨0, 0⟩,
         last_pt := open Ops in ⟨0, 0⟩, last_tan := open Ops in ⟨0, 0⟩, join_thresh := jt } : StrokeCtx K) := by
  refine ⟨⟨Or.inl ⟨rfl, rfl⟩, fun _ _ => rfl, fun _ q t h => (nomatch h), fun _ q t h => (nomatch h)⟩,
    ⟨[], rfl, fun _ h => (nomatch h)⟩, ⟨rfl, rfl, fun _ => ⟨rfl, rfl⟩, fun h => (nomatch h)⟩⟩

theorem c04_append_ne_nil_of_left {α : Type} {a b : List α} (h : a ≠ []) : a ++ b ≠ [] :=
  fun h0 => h (List.append_eq_nil_iff.1 h0).1

theorem c04_I_step (style : StrokeStyle K) (pre : List (PathEl K)) (c : StrokeCtx K) (el : PathEl K)
    (hel : c04_isPoly el = true) (hI : c04_I style pre c) :
    ∃ c', c04_step style c el = some c' ∧ c04_I style (pre ++ [el]) c' := by
  obtain ⟨hinv, hout, htrk⟩ := hI
  cases el with
  | QuadTo _ _ => cases hel
  | CurveTo _ _ _ => cases hel
  | MoveTo p =>
    obtain ⟨cs1, hgood, hlen, hnil, hfin⟩ := c04_finish_spec style c hinv
    have hst : c04_step style c (.MoveTo p) = some
        { c with output := c.output ++ cs1.flatten, forward_path := [], backward_path := [], start_pt := p, last_pt := p } := by
      simp only [c04_step, hfin]
    refine ⟨_, hst, ?_, ?_, ?_⟩
    · exact ⟨Or.inl ⟨rfl, rfl⟩, fun _ _ => rfl, fun _ q t h => (nomatch h), fun _ q t h => (nomatch h)⟩
    · exact c04_OutGood_append hout hgood
    · rw [c04_trk_snoc]
      refine ⟨rfl, rfl, ?_, ?_⟩
      · intro hs
        obtain ⟨ho, hf⟩ := htrk.unseen hs
        refine ⟨?_, rfl⟩
        show c.output ++ cs1.flatten = []
        rw [ho, hnil hf]; rfl
      · intro hs
        left
        show c.output ++ cs1.flatten ≠ []
        rcases htrk.seen hs with h | h
        · exact c04_append_ne_nil_of_left h
        · have h1 := hlen h
          match cs1, h1, hgood with
          | [x], _, hg =>
            have := c04_Good_ne_nil (hg x List.mem_cons_self)
            intro h0
            rw [List.flatten_cons, List.flatten_nil, List.append_nil] at h0
            exact this (List.append_eq_nil_iff.1 h0).2
  | LineTo p1 =>
    by_cases hd : p1.peq c.last_pt = true
    · refine ⟨c, by simp only [c04_step, hd, Bool.not_true, Bool.false_eq_true, if_false], hinv, hout, ?_⟩
      rw [c04_trk_snoc]
      have : c04_trkStep (c04_trk pre) (.LineTo p1) = c04_trk pre := by
        simp only [c04_trkStep, ← htrk.last, hd, Bool.not_true, Bool.false_eq_true, if_false]
      rw [this]; exact htrk
    · have hd' : p1.peq c.last_pt = false := by simpa using hd
      obtain ⟨hinv', hne, ho, hs, hl⟩ := c04_stepLine_inv style c p1 hinv
      refine ⟨c04_stepLine style c p1, by simp only [c04_step, hd', Bool.not_false, if_true], hinv', by rw [ho]; exact hout, ?_⟩
      rw [c04_trk_snoc]
      have : c04_trkStep (c04_trk pre) (.LineTo p1) = ⟨(c04_trk pre).start, p1, true⟩ := by
        simp only [c04_trkStep, ← htrk.last, hd', Bool.not_false, if_true]
      rw [this]
      exact ⟨hs.trans htrk.start, hl, fun h => (nomatch h), fun _ => Or.inr hne⟩
  | ClosePath =>
    have hstep : c04_step style c .ClosePath = (c04_closePrep style c).finish_closed style := rfl
    rw [hstep, c04_closePrep_eq]
    by_cases hd : c.last_pt.peq c.start_pt = true
    · have htk : c04_trk (pre ++ [.ClosePath]) = c04_trk pre := by
        rw [c04_trk_snoc]
        simp only [c04_trkStep, ← htrk.last, ← htrk.start, hd, Bool.not_true, Bool.false_eq_true, if_false]
      simp only [hd, Bool.not_true, Bool.false_eq_true, if_false]
      by_cases he : c.forward_path = []
      · exact ⟨c, c04_finish_closed_empty c style he, hinv, hout, by rw [htk]; exact htrk⟩
      · obtain ⟨x1, x2, c', hx1, hx2, hfc, ho, hf, hb, hs, hl⟩ := c04_finish_closed_spec style c hinv he
        refine ⟨c', hfc, ⟨Or.inl ⟨hf, hb⟩, ?_, ?_, ?_⟩, ?_, ?_⟩
        · intro hps _
          rw [hl, hs]
          exact hps _ _ hd
        · intro _ q t h; rw [hf] at h; cases h
        · intro _ q t h; rw [hb] at h; cases h
        · rw [ho]
          have := c04_OutGood_append (cs := [x1, x2]) hout (by
            intro x hx
            simp only [List.mem_cons, List.not_mem_nil, or_false] at hx
            rcases hx with rfl | rfl
            · exact Or.inl hx1
            · exact Or.inl hx2)
          simpa using this
        · rw [htk]
          refine ⟨hs.trans htrk.start, hl.trans htrk.last, ?_, ?_⟩
          · intro hsn
            exact absurd (htrk.unseen hsn).2 he
          · intro _
            left
            rw [ho]
            obtain ⟨p, mid, rfl, _⟩ := hx1
            simp
    · have hd' : c.last_pt.peq c.start_pt = false := by simpa using hd
      have htk : c04_trk (pre ++ [.ClosePath]) = ⟨(c04_trk pre).start, (c04_trk pre).start, true⟩ := by
        rw [c04_trk_snoc]
        simp only [c04_trkStep, ← htrk.last, ← htrk.start, hd', Bool.not_false, if_true]
      simp only [hd', Bool.not_false, if_true]
      obtain ⟨hinv1, hne1, ho1, hs1, hl1⟩ := c04_stepLine_inv style c c.start_pt hinv
      obtain ⟨x1, x2, c', hx1, hx2, hfc, ho, hf, hb, hs, hl⟩ :=
        c04_finish_closed_spec style (c04_stepLine style c c.start_pt) hinv1 hne1
      refine ⟨c', hfc, ⟨Or.inl ⟨hf, hb⟩, ?_, ?_, ?_⟩, ?_, ?_⟩
      · intro _ _
        rw [hl, hs, hl1, hs1]
      · intro _ q t h; rw [hf] at h; cases h
      · intro _ q t h; rw [hb] at h; cases h
      · rw [ho, ho1]
        have := c04_OutGood_append (cs := [x1, x2]) hout (by
          intro x hx
          simp only [List.mem_cons, List.not_mem_nil, or_false] at hx
          rcases hx with rfl | rfl
          · exact Or.inl hx1
          · exact Or.inl hx2)
        simpa using this
      · rw [htk]
        refine ⟨?_, ?_, fun h => (nomatch h), ?_⟩
        · show c'.start_pt = (c04_trk pre).start
          rw [hs, hs1]; exact htrk.start
        · show c'.last_pt = (c04_trk pre).start
          rw [hl, hl1]; exact htrk.start
        · intro _
          left
          rw [ho]
          obtain ⟨p, mid, rfl, _⟩ := hx1
          simp

theorem c04_I_fin (style : StrokeStyle K) (pre : List (PathEl K)) (c : StrokeCtx K) (hI : c04_I style pre c) :
    ∃ c', c.finish style = some c' := by
  obtain ⟨cs, _, _, _, h⟩ := c04_finish_spec style c hI.1
  exact ⟨_, h⟩

/-- the summary of the element loop on a polyline: the result is the output of `finish` on a context satisfying the invariant -/
theorem c04_strokeUndashed_inv (els : List (PathEl K)) (style : StrokeStyle K) (tolerance : K)
    (hp : ∀ e ∈ els, c04_isPoly e = true) :
    ∃ cf c', c04_I style els cf ∧ cf.finish style = some c' ∧ strokeUndashed els style tolerance = .ok c'.output := by
  have := c04_strokeLoop_rule style (c04_I style) (c04_I_step style) (c04_I_fin style) els [] _ hp
    (c04_I_init style (open Ops in (2 : K) * tolerance / style.width))
  unfold strokeUndashed
  simpa only [List.nil_append] using this

/-- the result of `stroke_undashed` on a polyline: a list of good contours, empty iff the source has no segment -/
theorem c04_strokeUndashed_summary (els : List (PathEl K)) (style : StrokeStyle K) (tolerance : K)
    (hp : ∀ e ∈ els, c04_isPoly e = true) :
    ∃ out, strokeUndashed els style tolerance = .ok out ∧ c04_OutGood style out ∧
      (out = [] ↔ c04_hasSegment els = false) := by
  obtain ⟨cf, c', ⟨hinv, hout, htrk⟩, hfin, hres⟩ := c04_strokeUndashed_inv els style tolerance hp
  obtain ⟨cs, hgood, hlen, hnil, hfin'⟩ := c04_finish_spec style cf hinv
  rw [hfin'] at hfin
  injection hfin with hfin
  subst hfin
  refine ⟨_, hres, c04_OutGood_append hout hgood, ?_⟩
  show cf.output ++ cs.flatten = [] ↔ (c04_trk els).seen = false
  constructor
  · intro h0
    cases hs : (c04_trk els).seen with
    | false => rfl
    | true =>
      exfalso
      rcases htrk.seen hs with h | h
      · exact h (List.append_eq_nil_iff.1 h0).1
      · have h1 := hlen h
        match cs, h1, hgood with
        | [x], _, hg =>
          have := c04_Good_ne_nil (hg x List.mem_cons_self)
          rw [List.flatten_cons, List.flatten_nil, List.append_nil] at h0
          exact this (List.append_eq_nil_iff.1 h0).2
  · intro hs
    obtain ⟨ho, hf⟩ := htrk.unseen hs
    rw [ho, hnil hf]
    rfl

end Kurbo
