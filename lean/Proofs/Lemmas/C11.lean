import Proofs.Lemmas.C01
import Proofs.Lemmas.C20
import Proofs.Lemmas.C11Tri
import Kurbo.Shapes
import Mathlib.Tactic.LinearCombination
/-! C11 helpers: path queries (`pathWinding`, `pathArea`, `pathBoundingBox`) of closed triangles and quadrilaterals made
    of lines, written out; crossing indicators of axis-parallel edges; the closed forms of `Rect.winding`,
    `Triangle.winding`; the one-dimensional tiling lemma; the quadrant-level equivalence of `RoundedRect::winding`
    (port of the design-round prototype `Proofs_RR`); points off a segment (`c11_offEdge_of_not_onSeg`). -/
set_option linter.unusedSectionVars false
namespace Kurbo
variable {K : Type} [Field K] [LinearOrder K] [IsStrictOrderedRing K] [FloorRing K] [Scalar K] [LawfulScalar K]

/-! ### polygons with three and four vertices: the path queries written out -/

theorem kc_self (a : Vec2 K) : kc a a = 0 := kcr_self _ _

theorem crossSum_closeIte (e p0 q : Point K) :
    crossSum (if e = p0 then [] else [PathSeg.Line ⟨e, p0⟩]) q = kc (e - q) (p0 - q) := by
  by_cases h : e = p0
  · rw [if_pos h, h, kc_self]; rfl
  · rw [if_neg h, crossSum_cons, crossSum_nil, add_zero]; rfl

theorem segs_quadrilateral (a b c d : Point K) :
    segs [.MoveTo a, .LineTo b, .LineTo c, .LineTo d, .ClosePath]
      = some ([PathSeg.Line ⟨a, b⟩, .Line ⟨b, c⟩, .Line ⟨c, d⟩] ++ (if d = a then [] else [PathSeg.Line ⟨d, a⟩])) :=
  segs_polygon a [b, c, d]

theorem segs_tri (a b c : Point K) :
    segs [.MoveTo a, .LineTo b, .LineTo c, .ClosePath]
      = some ([PathSeg.Line ⟨a, b⟩, .Line ⟨b, c⟩] ++ (if c = a then [] else [PathSeg.Line ⟨c, a⟩])) :=
  segs_polygon a [b, c]

theorem allLines_tri (a b c : Point K) : AllLines [PathEl.MoveTo a, .LineTo b, .LineTo c, .ClosePath] :=
  allLines_polygon a [b, c]
theorem allLines_quadrilateral (a b c d : Point K) :
    AllLines [PathEl.MoveTo a, .LineTo b, .LineTo c, .LineTo d, .ClosePath] :=
  allLines_polygon a [b, c, d]

theorem pathWinding_tri (a b c q : Point K) :
    pathWinding [.MoveTo a, .LineTo b, .LineTo c, .ClosePath] q
      = some (kc (a - q) (b - q) + kc (b - q) (c - q) + kc (c - q) (a - q)) := by
  have h := segs_tri a b c
  rw [segs_eq_segsFrom] at h
  rw [pathWinding_eq_crossSum (allLines_tri a b c) h q, crossSum_append, crossSum_closeIte]
  simp only [crossSum_cons, crossSum_nil, PathSeg.start, PathSeg.end, Line.start, Line.end]
  congr 1; ring

theorem pathWinding_quadrilateral (a b c d q : Point K) :
    pathWinding [.MoveTo a, .LineTo b, .LineTo c, .LineTo d, .ClosePath] q
      = some (kc (a - q) (b - q) + kc (b - q) (c - q) + kc (c - q) (d - q) + kc (d - q) (a - q)) := by
  have h := segs_quadrilateral a b c d
  rw [segs_eq_segsFrom] at h
  rw [pathWinding_eq_crossSum (allLines_quadrilateral a b c d) h q, crossSum_append, crossSum_closeIte]
  simp only [crossSum_cons, crossSum_nil, PathSeg.start, PathSeg.end, Line.start, Line.end]
  congr 1; ring

theorem line_signed_area_eq (a b : Point K) :
    (PathSeg.Line ⟨a, b⟩).signed_area = (a.x * b.y - a.y * b.x) / 2 := by
  simp only [PathSeg.signed_area, kdefs, scalar_norm]; push_cast; ring

theorem areaSum_closeIte (e p0 : Point K) :
    areaSum (if e = p0 then [] else [PathSeg.Line ⟨e, p0⟩]) = (e.x * p0.y - e.y * p0.x) / 2 := by
  by_cases h : e = p0
  · rw [if_pos h, h, areaSum_nil]; ring
  · rw [if_neg h, areaSum_cons, areaSum_nil, add_zero, line_signed_area_eq]

theorem pathArea_quadrilateral (a b c d : Point K) :
    pathArea [.MoveTo a, .LineTo b, .LineTo c, .LineTo d, .ClosePath]
      = some (((a.x * b.y - a.y * b.x) + (b.x * c.y - b.y * c.x) + (c.x * d.y - c.y * d.x) + (d.x * a.y - d.y * a.x)) / 2) := by
  rw [pathArea_eq_areaSum, segs_quadrilateral, Option.map_some, areaSum_append, areaSum_closeIte]
  simp only [areaSum_cons, areaSum_nil, line_signed_area_eq]
  congr 1; ring


theorem pathArea_tri (a b c : Point K) :
    pathArea [.MoveTo a, .LineTo b, .LineTo c, .ClosePath]
      = some (((a.x * b.y - a.y * b.x) + (b.x * c.y - b.y * c.x) + (c.x * a.y - c.y * a.x)) / 2) := by
  rw [pathArea_eq_areaSum, segs_tri, Option.map_some, areaSum_append, areaSum_closeIte]
  simp only [areaSum_cons, areaSum_nil, line_signed_area_eq]
  congr 1; ring

/-! ### bounding boxes of line segments and their unions -/

theorem line_bounding_box (a b : Point K) :
    (PathSeg.Line ⟨a, b⟩).bounding_box = ⟨min a.x b.x, min a.y b.y, max a.x b.x, max a.y b.y⟩ := by
  simp only [PathSeg.bounding_box, PathSeg.extrema, List.foldl_nil, PathSeg.start, PathSeg.end, Line.start, Line.end,
    Rect.from_points_eq]

/-- closes goals `m = m'` where both sides are nested `min`s (or nested `max`s) over the same atoms -/
macro "minmax_eq" : tactic => `(tactic| (
  apply le_antisymm <;>
  ((try simp only [le_min_iff, max_le_iff]) <;>
   simp only [min_le_iff, le_max_iff, le_refl, true_or, or_true, and_self, true_and, and_true])))

theorem pathBoundingBox_tri (a b c : Point K) :
    pathBoundingBox [.MoveTo a, .LineTo b, .LineTo c, .ClosePath]
      = some ⟨min a.x (min b.x c.x), min a.y (min b.y c.y), max a.x (max b.x c.x), max a.y (max b.y c.y)⟩ := by
  unfold pathBoundingBox
  rw [segs_tri, Option.map_some]
  by_cases h : c = a
  · subst h
    simp only [if_true, List.append_nil, List.foldl_cons, List.foldl_nil, line_bounding_box, Rect.union_eq,
      Option.some.injEq, Rect.mk.injEq]
    refine ⟨?_, ?_, ?_, ?_⟩ <;> minmax_eq
  · simp only [if_neg h, List.cons_append, List.nil_append, List.foldl_cons, List.foldl_nil, line_bounding_box,
      Rect.union_eq, Option.some.injEq, Rect.mk.injEq]
    refine ⟨?_, ?_, ?_, ?_⟩ <;> minmax_eq

theorem pathBoundingBox_quadrilateral (a b c d : Point K) :
    pathBoundingBox [.MoveTo a, .LineTo b, .LineTo c, .LineTo d, .ClosePath]
      = some ⟨min (min a.x b.x) (min c.x d.x), min (min a.y b.y) (min c.y d.y),
              max (max a.x b.x) (max c.x d.x), max (max a.y b.y) (max c.y d.y)⟩ := by
  unfold pathBoundingBox
  rw [segs_quadrilateral, Option.map_some]
  by_cases h : d = a
  · subst h
    simp only [if_true, List.append_nil, List.foldl_cons, List.foldl_nil, line_bounding_box, Rect.union_eq,
      Option.some.injEq, Rect.mk.injEq]
    refine ⟨?_, ?_, ?_, ?_⟩ <;> minmax_eq
  · simp only [if_neg h, List.cons_append, List.nil_append, List.foldl_cons, List.foldl_nil, line_bounding_box,
      Rect.union_eq, Option.some.injEq, Rect.mk.injEq]
    refine ⟨?_, ?_, ?_, ?_⟩ <;> minmax_eq

/-! ### axis-parallel edges and `Rect.winding` -/

theorem kc_horizontal (a b q : Point K) (h : a.y = b.y) : kc (a - q) (b - q) = 0 := by
  unfold kc kcr
  simp only [vsub_x, vsub_y, h, lt_self_iff_false, if_false]

theorem kc_vertical (x ya yb : K) (q : Point K) :
    kc ((⟨x, ya⟩ : Point K) - q) ((⟨x, yb⟩ : Point K) - q) =
      if ya < yb then (if ya ≤ q.y ∧ q.y < yb ∧ x ≤ q.x then -1 else 0)
      else if yb < ya then (if yb ≤ q.y ∧ q.y < ya ∧ x ≤ q.x then 1 else 0) else 0 := by
  unfold kc kcr
  simp only [vsub_x, vsub_y]
  have e : (x - q.x) * (yb - q.y) - (ya - q.y) * (x - q.x) = (x - q.x) * (yb - ya) := by ring
  rw [e]
  rcases lt_trichotomy ya yb with h | h | h
  · have h' : ya - q.y < yb - q.y := by linarith
    simp only [h, h', if_true]
    have hc : (x - q.x) * (yb - ya) ≤ 0 ↔ x ≤ q.x := by
      constructor
      · intro hh; by_contra hx; push Not at hx
        have := mul_pos (sub_pos.mpr hx) (sub_pos.mpr h); linarith
      · intro hh; exact mul_nonpos_of_nonpos_of_nonneg (by linarith) (by linarith)
    refine if_congr ?_ rfl rfl
    constructor
    · rintro ⟨h1, h2, h3⟩; exact ⟨by linarith, by linarith, hc.mp h3⟩
    · rintro ⟨h1, h2, h3⟩; exact ⟨by linarith, by linarith, hc.mpr h3⟩
  · subst h; simp only [lt_self_iff_false, if_false]
  · have h' : yb - q.y < ya - q.y := by linarith
    have hn : ¬ ya < yb := not_lt.mpr h.le
    have hn' : ¬ ya - q.y < yb - q.y := by linarith
    simp only [h, h', hn, hn', if_true, if_false]
    have hc : 0 ≤ (x - q.x) * (yb - ya) ↔ x ≤ q.x := by
      constructor
      · intro hh; by_contra hx; push Not at hx
        have := mul_pos (sub_pos.mpr hx) (sub_pos.mpr h); nlinarith
      · intro hh; exact mul_nonneg_of_nonpos_of_nonpos (by linarith) (by linarith)
    refine if_congr ?_ rfl rfl
    constructor
    · rintro ⟨h1, h2, h3⟩; exact ⟨by linarith, by linarith, hc.mp h3⟩
    · rintro ⟨h1, h2, h3⟩; exact ⟨by linarith, by linarith, hc.mpr h3⟩

theorem bxor_decide_iff (a b : Prop) [Decidable a] [Decidable b] : ((decide a ^^ decide b) = true) ↔ (a ↔ ¬ b) := by
  by_cases ha : a <;> by_cases hb : b <;> simp [ha, hb]

/-- `Rect::winding` with the `Bool`s turned into `Prop`s -/
theorem Rect.winding_eq (r : Rect K) (p : Point K) : r.winding p =
    if min r.x0 r.x1 ≤ p.x ∧ p.x < max r.x0 r.x1 ∧ min r.y0 r.y1 ≤ p.y ∧ p.y < max r.y0 r.y1 then
      (if (r.x0 < r.x1 ↔ ¬ r.y0 < r.y1) then -1 else 1) else 0 := by
  unfold Rect.winding
  simp only [scalar_norm, Bool.and_eq_true, decide_eq_true_eq, bxor_decide_iff, and_assoc]

/-- the four edges of the outline of a rectangle against the closed form, all corner orders, all points -/
theorem rect_crossings_eq_winding (r : Rect K) (p : Point K) :
    kc ((⟨r.x0, r.y0⟩ : Point K) - p) ((⟨r.x1, r.y0⟩ : Point K) - p)
      + kc ((⟨r.x1, r.y0⟩ : Point K) - p) ((⟨r.x1, r.y1⟩ : Point K) - p)
      + kc ((⟨r.x1, r.y1⟩ : Point K) - p) ((⟨r.x0, r.y1⟩ : Point K) - p)
      + kc ((⟨r.x0, r.y1⟩ : Point K) - p) ((⟨r.x0, r.y0⟩ : Point K) - p) = r.winding p := by
  rw [kc_horizontal (⟨r.x0, r.y0⟩ : Point K) ⟨r.x1, r.y0⟩ p rfl,
    kc_horizontal (⟨r.x1, r.y1⟩ : Point K) ⟨r.x0, r.y1⟩ p rfl, kc_vertical, kc_vertical, Rect.winding_eq]
  simp only [zero_add, add_zero]
  rcases lt_trichotomy r.y0 r.y1 with hy | hy | hy
  · simp only [hy, if_true, lt_asymm hy, if_false, min_eq_left hy.le, max_eq_right hy.le, not_true, iff_false, not_lt]
    rcases lt_trichotomy r.x0 r.x1 with hx | hx | hx
    · simp only [min_eq_left hx.le, max_eq_right hx.le, not_le.mpr hx, if_false]
      split_ifs <;> first | rfl | omega | (exfalso; simp_all; done) | (exfalso; simp_all; linarith)
    · simp only [hx, le_refl, min_self, max_self, if_true]
      split_ifs <;> first | rfl | omega | (exfalso; simp_all; done) | (exfalso; simp_all; linarith)
    · simp only [min_eq_right hx.le, max_eq_left hx.le, hx.le, if_true]
      split_ifs <;> first | rfl | omega | (exfalso; simp_all; done) | (exfalso; simp_all; linarith)
  · simp only [hy, lt_irrefl, if_false, min_self, max_self]
    split_ifs <;> first | rfl | omega | (exfalso; simp_all; done) | (exfalso; simp_all; linarith)
  · simp only [hy, if_true, lt_asymm hy, if_false, min_eq_right hy.le, max_eq_left hy.le, not_false_iff, iff_true]
    rcases lt_trichotomy r.x0 r.x1 with hx | hx | hx
    · simp only [hx, min_eq_left hx.le, max_eq_right hx.le, if_true]
      split_ifs <;> first | rfl | omega | (exfalso; simp_all; done) | (exfalso; simp_all; linarith)
    · simp only [hx, lt_irrefl, min_self, max_self, if_false]
      split_ifs <;> first | rfl | omega | (exfalso; simp_all; done) | (exfalso; simp_all; linarith)
    · simp only [lt_asymm hx, min_eq_right hx.le, max_eq_left hx.le, if_false]
      split_ifs <;> first | rfl | omega | (exfalso; simp_all; done) | (exfalso; simp_all; linarith)


/-! ### `Triangle.winding` as the three-signum form; points off a segment -/

/-- the value of `Triangle::winding` from three scalars (the cross products) -/
theorem triWindingAux (c0 c1 c2 : K) :
    (if (decide ((if c0 < 0 then (-1 : K) else 1) = if c1 < 0 then (-1 : K) else 1) &&
          decide ((if c1 < 0 then (-1 : K) else 1) = if c2 < 0 then (-1 : K) else 1)) = true then
      (if decide ((if c0 < 0 then (-1 : K) else 1) < 0) = true then (-1 : Int)
       else if decide ((0 : K) < if c0 < 0 then (-1 : K) else 1) = true then 1 else 0)
     else 0) = C11Tri.triW c0 c1 c2 := by
  have n1 : (-1 : K) ≠ 1 := by norm_num
  have n2 : (1 : K) ≠ -1 := by norm_num
  have n3 : (-1 : K) < 0 := by norm_num
  have n4 : ¬ (1 : K) < 0 := by norm_num
  have n5 : (0 : K) < 1 := by norm_num
  unfold C11Tri.triW C11Tri.sgI
  by_cases h0 : c0 < 0 <;> by_cases h1 : c1 < 0 <;> by_cases h2 : c2 < 0 <;>
    simp [h0, h1, h2, n1, n2, n3, n4, n5]

theorem Triangle.winding_eq_triW (t : Triangle K) (p : Point K) :
    t.winding p = C11Tri.triW
      ((t.a.x - p.x) * (t.b.y - p.y) - (t.a.y - p.y) * (t.b.x - p.x))
      ((t.b.x - p.x) * (t.c.y - p.y) - (t.b.y - p.y) * (t.c.x - p.x))
      ((t.c.x - p.x) * (t.a.y - p.y) - (t.c.y - p.y) * (t.a.x - p.x)) := by
  have e0 : (t.b.x - t.a.x) * (p.y - t.a.y) - (t.b.y - t.a.y) * (p.x - t.a.x)
      = (t.a.x - p.x) * (t.b.y - p.y) - (t.a.y - p.y) * (t.b.x - p.x) := by ring
  have e1 : (t.c.x - t.b.x) * (p.y - t.b.y) - (t.c.y - t.b.y) * (p.x - t.b.x)
      = (t.b.x - p.x) * (t.c.y - p.y) - (t.b.y - p.y) * (t.c.x - p.x) := by ring
  have e2 : (t.a.x - t.c.x) * (p.y - t.c.y) - (t.a.y - t.c.y) * (p.x - t.c.x)
      = (t.c.x - p.x) * (t.a.y - p.y) - (t.c.y - p.y) * (t.a.x - p.x) := by ring
  unfold Triangle.winding
  simp only [kdefs, scalar_norm, Nat.cast_zero, e0, e1, e2]
  exact triWindingAux _ _ _

/-- a point on no point of the closed segment `a b` is, when it lies on the supporting line, strictly outside
    (`offEdge` of the triangle prototype, in coordinates relative to `p`) -/
theorem c11_offEdge_of_not_onSeg (a b p : Point K) (h : ¬ OnSeg (.Line ⟨a, b⟩) p) :
    C11Tri.offEdge (a.x - p.x) (a.y - p.y) (b.x - p.x) (b.y - p.y) := by
  intro hc
  by_contra hd
  push Not at hd
  apply h
  rw [onSeg_line_iff]
  by_cases hab : b.x - a.x = 0 ∧ b.y - a.y = 0
  · obtain ⟨h1, h2⟩ := hab
    have e1 : b.x = a.x := by linarith
    have e2 : b.y = a.y := by linarith
    rw [e1, e2] at hd
    have hx : a.x - p.x = 0 := by nlinarith [mul_self_nonneg (a.x - p.x), mul_self_nonneg (a.y - p.y)]
    have hy : a.y - p.y = 0 := by nlinarith [mul_self_nonneg (a.x - p.x), mul_self_nonneg (a.y - p.y)]
    exact ⟨0, le_refl _, zero_le_one, by linarith, by linarith⟩
  · have hdd : 0 < (b.x - a.x) * (b.x - a.x) + (b.y - a.y) * (b.y - a.y) := by
      rcases not_and_or.mp hab with h1 | h1
      · have := mul_self_pos.mpr h1; nlinarith [mul_self_nonneg (b.y - a.y)]
      · have := mul_self_pos.mpr h1; nlinarith [mul_self_nonneg (b.x - a.x)]
    set dd := (b.x - a.x) * (b.x - a.x) + (b.y - a.y) * (b.y - a.y) with hdd_def
    set num := (a.x - p.x) * (a.x - b.x) + (a.y - p.y) * (a.y - b.y) with hnum
    have hn0 : 0 ≤ num := by
      rw [hnum]; nlinarith [mul_self_nonneg (a.x - p.x), mul_self_nonneg (a.y - p.y)]
    have hn1 : num ≤ dd := by
      rw [hnum, hdd_def]; nlinarith [mul_self_nonneg (b.x - p.x), mul_self_nonneg (b.y - p.y)]
    have hx : (a.x - p.x) * dd + (b.x - a.x) * num = 0 := by
      rw [hnum, hdd_def]; linear_combination (b.y - a.y) * hc
    have hy : (a.y - p.y) * dd + (b.y - a.y) * num = 0 := by
      rw [hnum, hdd_def]; linear_combination (-(b.x - a.x)) * hc
    refine ⟨num / dd, div_nonneg hn0 hdd.le, (div_le_one hdd).mpr hn1, ?_, ?_⟩
    · have : (b.x - a.x) * (num / dd) = p.x - a.x := by
        field_simp; linear_combination hx
      linarith
    · have : (b.y - a.y) * (num / dd) = p.y - a.y := by
        field_simp; linear_combination hy
      linarith


/-! ### half-open intervals of a monotone sequence tile the line -/

theorem tile_exists (a : ℕ → K) (n : ℕ) (x : K) (h0 : a 0 ≤ x) (h1 : x < a n) :
    ∃ i, i < n ∧ a i ≤ x ∧ x < a (i + 1) := by
  induction n with
  | zero => exact absurd h1 (not_lt.mpr h0)
  | succ n ih =>
    rcases lt_or_ge x (a n) with h | h
    · obtain ⟨i, hi, h2, h3⟩ := ih h
      exact ⟨i, Nat.lt_succ_of_lt hi, h2, h3⟩
    · exact ⟨n, Nat.lt_succ_self n, h, h1⟩

theorem tile_unique (a : ℕ → K) (ha : Monotone a) (x : K) (i j : ℕ)
    (hi : a i ≤ x ∧ x < a (i + 1)) (hj : a j ≤ x ∧ x < a (j + 1)) : i = j := by
  rcases lt_trichotomy i j with h | h | h
  · have := ha (Nat.succ_le_of_lt h); exact absurd (lt_of_lt_of_le hi.2 (le_trans this hj.1)) (lt_irrefl _)
  · exact h
  · have := ha (Nat.succ_le_of_lt h); exact absurd (lt_of_lt_of_le hj.2 (le_trans this hi.1)) (lt_irrefl _)

theorem tile_inside (a : ℕ → K) (ha : Monotone a) (n : ℕ) (x : K) (i : ℕ) (hi : i < n)
    (h : a i ≤ x ∧ x < a (i + 1)) : a 0 ≤ x ∧ x < a n :=
  ⟨le_trans (ha (Nat.zero_le i)) h.1, lt_of_lt_of_le h.2 (ha (Nat.succ_le_of_lt hi))⟩

/-! ### `Rect.winding` is half-open membership in the normalised rectangle -/

theorem Rect.winding_ne_zero_iff (r : Rect K) (p : Point K) :
    r.winding p ≠ 0 ↔ min r.x0 r.x1 ≤ p.x ∧ p.x < max r.x0 r.x1 ∧ min r.y0 r.y1 ≤ p.y ∧ p.y < max r.y0 r.y1 := by
  rw [Rect.winding_eq]
  split_ifs with h1 h2
  · exact ⟨fun _ => h1, fun _ => by decide⟩
  · exact ⟨fun _ => h1, fun _ => by decide⟩
  · exact ⟨fun h => absurd rfl h, fun h => absurd h h1⟩

theorem Rect.Nonneg.winding_eq {r : Rect K} (h : r.Nonneg) (p : Point K) :
    r.winding p = if r.x0 ≤ p.x ∧ p.x < r.x1 ∧ r.y0 ≤ p.y ∧ p.y < r.y1 then 1 else 0 := by
  rw [Rect.winding_eq, min_eq_left h.1, max_eq_right h.1, min_eq_left h.2, max_eq_right h.2]
  by_cases hc : r.x0 ≤ p.x ∧ p.x < r.x1 ∧ r.y0 ≤ p.y ∧ p.y < r.y1
  · have hx : r.x0 < r.x1 := lt_of_le_of_lt hc.1 hc.2.1
    have hy : r.y0 < r.y1 := lt_of_le_of_lt hc.2.2.1 hc.2.2.2
    rw [if_pos hc, if_pos hc, if_neg]
    simp only [hx, hy, not_true_eq_false, iff_false, not_false_eq_true]
  · rw [if_neg hc, if_neg hc]

theorem Rect.Nonneg.winding_ne_zero_iff {r : Rect K} (h : r.Nonneg) (p : Point K) :
    r.winding p ≠ 0 ↔ r.x0 ≤ p.x ∧ p.x < r.x1 ∧ r.y0 ≤ p.y ∧ p.y < r.y1 := by
  rw [Rect.winding_ne_zero_iff, min_eq_left h.1, max_eq_right h.1, min_eq_left h.2, max_eq_right h.2]



/-! ### a Euclidean `hypot` -/

/-- `Scalar.hypot` is the Euclidean norm (a lawful `K` need not have square roots, so this is a hypothesis) -/
def HypotLaw (K : Type) [Field K] [LinearOrder K] [Scalar K] : Prop :=
  ∀ x y : K, 0 ≤ Scalar.hypot x y ∧ Scalar.hypot x y ^ 2 = x ^ 2 + y ^ 2

theorem HypotLaw.axis_x (h : HypotLaw K) (x : K) : Scalar.hypot x 0 = |x| := by
  obtain ⟨h0, h2⟩ := h x 0
  have : Scalar.hypot x 0 ^ 2 = |x| ^ 2 := by rw [h2, sq_abs]; ring
  exact (pow_left_inj₀ h0 (abs_nonneg x) (by norm_num)).mp this

theorem HypotLaw.axis_y (h : HypotLaw K) (y : K) : Scalar.hypot 0 y = |y| := by
  obtain ⟨h0, h2⟩ := h 0 y
  have : Scalar.hypot 0 y ^ 2 = |y| ^ 2 := by rw [h2, sq_abs]; ring
  exact (pow_left_inj₀ h0 (abs_nonneg y) (by norm_num)).mp this

theorem HypotLaw.neg (h : HypotLaw K) (x y : K) : Scalar.hypot (-x) (-y) = Scalar.hypot x y := by
  obtain ⟨h0, h2⟩ := h x y
  obtain ⟨h0', h2'⟩ := h (-x) (-y)
  have : Scalar.hypot (-x) (-y) ^ 2 = Scalar.hypot x y ^ 2 := by rw [h2, h2']; ring
  exact (pow_left_inj₀ h0' h0 (by norm_num)).mp this


/-! ### a single line as a path -/

theorem segs_line (a b : Point K) : segs [PathEl.MoveTo a, .LineTo b] = some [PathSeg.Line ⟨a, b⟩] := by
  have hb : IsBody [PathEl.LineTo b] := by
    intro e he; simp only [List.mem_cons, List.not_mem_nil, or_false] at he; subst he; trivial
  rw [segs_eq_segsFrom, segsFrom_open_subpath none a [PathEl.LineTo b] hb]; rfl

theorem pathBoundingBox_line (a b : Point K) :
    pathBoundingBox [PathEl.MoveTo a, .LineTo b] = some ⟨min a.x b.x, min a.y b.y, max a.x b.x, max a.y b.y⟩ := by
  unfold pathBoundingBox
  rw [segs_line, Option.map_some]
  simp only [List.foldl_nil, line_bounding_box]

theorem lerp_between (u v t : K) (h0 : 0 ≤ t) (h1 : t ≤ 1) : min u v ≤ u + (v - u) * t ∧ u + (v - u) * t ≤ max u v := by
  rcases le_total u v with h | h
  · rw [min_eq_left h, max_eq_right h]
    constructor <;> nlinarith [mul_nonneg (sub_nonneg.2 h) h0, mul_nonneg (sub_nonneg.2 h) (sub_nonneg.2 h1)]
  · rw [min_eq_right h, max_eq_left h]
    constructor <;> nlinarith [mul_nonneg (sub_nonneg.2 h) h0, mul_nonneg (sub_nonneg.2 h) (sub_nonneg.2 h1)]


/-- a point is on no point of a segment if the two coordinate equations have no common solution in `[0,1]` -/
theorem notOnSeg_of (a b p : Point K)
    (h : ∀ t : K, 0 ≤ t → t ≤ 1 → p.x = a.x + (b.x - a.x) * t → p.y = a.y + (b.y - a.y) * t → False) :
    ¬ OnSeg (.Line ⟨a, b⟩) p := by
  rw [onSeg_line_iff]
  rintro ⟨t, h0, h1, hx, hy⟩
  exact h t h0 h1 hx hy

end Kurbo
