import Proofs.Lemmas.C08Box
import Proofs.Lemmas.C07
/-! C08 helpers, path level: the control points of every segment of a path are points of its elements;
    `controlBox` contains all of them. -/
set_option linter.unusedSectionVars false
namespace Kurbo

section anyScalar
variable {K : Type} [Scalar K]

/-- the points stored in a path element (specification vocabulary; the list `control_box` folds over) -/
def elPoints : PathEl K → List (Point K)
  | .MoveTo p => [p]
  | .LineTo p => [p]
  | .QuadTo a b => [a, b]
  | .CurveTo a b c => [a, b, c]
  | .ClosePath => []

theorem end_point_mem_elPoints (el : PathEl K) (p : Point K) (h : el.end_point = some p) : p ∈ elPoints el := by
  cases el <;> simp only [PathEl.end_point, Option.some.injEq] at h <;> try (subst h; simp [elPoints])
  cases h

theorem stepT_pts (P : Point K → Prop) (sl : Point K × Point K) (el : PathEl K) (h1 : P sl.1) (h2 : P sl.2)
    (hel : ∀ p ∈ elPoints el, P p) :
    P (stepT sl el).1.1 ∧ P (stepT sl el).1.2 ∧
      ∀ s, (stepT sl el).2 = some s → ∀ p ∈ PathSeg.controlPoints s, P p := by
  cases el with
  | MoveTo p =>
    simp only [stepT]
    exact ⟨hel p (by simp [elPoints]), hel p (by simp [elPoints]), by simp⟩
  | LineTo p =>
    simp only [stepT, Option.some.injEq]
    refine ⟨h1, hel p (by simp [elPoints]), ?_⟩
    rintro s rfl q hq
    simp only [PathSeg.controlPoints, List.mem_cons, List.not_mem_nil, or_false] at hq
    rcases hq with rfl | rfl
    · exact h2
    · exact hel _ (by simp [elPoints])
  | QuadTo a b =>
    simp only [stepT, Option.some.injEq]
    refine ⟨h1, hel b (by simp [elPoints]), ?_⟩
    rintro s rfl q hq
    simp only [PathSeg.controlPoints, List.mem_cons, List.not_mem_nil, or_false] at hq
    rcases hq with rfl | rfl | rfl
    · exact h2
    · exact hel _ (by simp [elPoints])
    · exact hel _ (by simp [elPoints])
  | CurveTo a b c =>
    simp only [stepT, Option.some.injEq]
    refine ⟨h1, hel c (by simp [elPoints]), ?_⟩
    rintro s rfl q hq
    simp only [PathSeg.controlPoints, List.mem_cons, List.not_mem_nil, or_false] at hq
    rcases hq with rfl | rfl | rfl | rfl
    · exact h2
    · exact hel _ (by simp [elPoints])
    · exact hel _ (by simp [elPoints])
    · exact hel _ (by simp [elPoints])
  | ClosePath =>
    simp only [stepT]
    split
    · refine ⟨h1, h1, ?_⟩
      simp only [Option.some.injEq]
      rintro s rfl q hq
      simp only [PathSeg.controlPoints, List.mem_cons, List.not_mem_nil, or_false] at hq
      rcases hq with rfl | rfl
      · exact h2
      · exact h1
    · exact ⟨h1, h2, by simp⟩

theorem segsIdxT_pts (P : Point K → Prop) (els : List (PathEl K)) (sl : Point K × Point K) (ix : Nat)
    (h1 : P sl.1) (h2 : P sl.2) (hel : ∀ el ∈ els, ∀ p ∈ elPoints el, P p) :
    ∀ is ∈ segsIdxT sl ix els, ∀ p ∈ PathSeg.controlPoints is.2, P p := by
  induction els generalizing sl ix with
  | nil => simp [segsIdxT]
  | cons el rest ih =>
    obtain ⟨a, b, c⟩ := stepT_pts P sl el h1 h2 (hel el (by simp))
    intro is his
    simp only [segsIdxT, List.mem_append] at his
    rcases his with his | his
    · cases ho : (stepT sl el).2 with
      | none => rw [ho] at his; simp [outIdx] at his
      | some s =>
        rw [ho] at his
        simp only [outIdx, List.mem_singleton] at his
        subst his
        exact c s ho
    · exact ih _ _ a b (fun e he => hel e (by simp [he])) is his

/-- every control point of every segment of a path is a point of one of its elements -/
theorem segs_pts (P : Point K → Prop) (els : List (PathEl K)) (ss : List (PathSeg K)) (h : segs els = some ss)
    (hel : ∀ el ∈ els, ∀ p ∈ elPoints el, P p) : ∀ s ∈ ss, ∀ p ∈ PathSeg.controlPoints s, P p := by
  unfold segs segsIdx at h
  cases els with
  | nil =>
    simp only [segsIdxFrom, Option.map_some, List.map_nil, Option.some.injEq] at h
    subst h; simp
  | cons el rest =>
    simp only [segsIdxFrom] at h
    rw [segStep_none] at h
    cases hep : el.end_point with
    | none => rw [hep] at h; simp at h
    | some p0 =>
      rw [hep] at h
      simp only [segStep_some, segsIdxFrom_some] at h
      have hp0 : P p0 := hel el (by simp) p0 (end_point_mem_elPoints el p0 hep)
      obtain ⟨a, b, c⟩ := stepT_pts P (p0, p0) el hp0 hp0 (hel el (by simp))
      have hrest := segsIdxT_pts P rest (stepT (p0, p0) el).1 1 a b (fun e he => hel e (by simp [he]))
      cases ho : (stepT (p0, p0) el).2 with
      | none =>
        rw [ho] at h
        simp only [Option.map_some, Option.some.injEq] at h
        subst h
        intro s hs
        obtain ⟨is, his, rfl⟩ := List.mem_map.mp hs
        exact hrest is his
      | some s0 =>
        rw [ho] at h
        simp only [Option.map_some, Option.some.injEq, List.map_cons] at h
        subst h
        intro s hs
        rcases List.mem_cons.mp hs with rfl | hs
        · exact c _ ho
        · obtain ⟨is, his, rfl⟩ := List.mem_map.mp hs
          exact hrest is his

theorem controlBox_cons (els : List (PathEl K)) (p : Point K) (rest : List (Point K))
    (h : els.flatMap elPoints = p :: rest) :
    controlBox els = rest.foldl (fun bb q => bb.union_pt q) (Rect.from_points p p) := by
  have hf : ∀ g : PathEl K → List (Point K), (∀ el, g el = elPoints el) → List.flatMap g els = p :: rest := by
    intro g hg
    rw [show g = elPoints from funext hg]; exact h
  unfold controlBox
  simp only []
  rw [hf]
  intro el; cases el <;> rfl

end anyScalar

section lawful
variable {K : Type} [Field K] [LinearOrder K] [IsStrictOrderedRing K] [FloorRing K] [Scalar K] [LawfulScalar K]

/-- `control_box` contains every point stored in the element list -/
theorem controlBox_contains_elPoints (els : List (PathEl K)) :
    ∀ el ∈ els, ∀ p ∈ elPoints el, (controlBox els).ContainsClosed p := by
  intro el hel p hp
  have hmem : p ∈ els.flatMap elPoints := List.mem_flatMap.mpr ⟨el, hel, hp⟩
  cases hpts : els.flatMap elPoints with
  | nil => rw [hpts] at hmem; simp at hmem
  | cons p0 rest =>
    rw [controlBox_cons els p0 rest hpts]
    rw [hpts] at hmem
    obtain ⟨h1, h2⟩ := foldl_union_pt_contains (fun q : Point K => q) rest (Rect.from_points p0 p0)
    rcases List.mem_cons.mp hmem with rfl | hm
    · exact h1.closed (Rect.from_points_contains p p).1
    · exact h2 p hm

end lawful
end Kurbo
