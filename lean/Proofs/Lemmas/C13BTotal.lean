import Proofs.Lemmas.C13BClose
/-! C13B: one closed polyline sub-path `M p0 L q L q₁ … Z`, end to end: from a state in which the iterator is ready to
    fetch a sub-path (`c13b_Ready`) to the state in which it is ready to fetch the next one. -/
set_option linter.unusedSectionVars false
namespace Kurbo
open DashSpec
variable {K : Type} [Field K] [LinearOrder K] [IsStrictOrderedRing K] [FloorRing K] [Scalar K] [LawfulScalar K]

/-- the iterator is about to fetch a sub-path: state `NeedInput`, nothing stashed, nothing pending; the initial phase
    computed by `dash_impl` is sane -/
structure c13b_Ready (s : DashIt K) : Prop where
  state : s.state = .NeedInput
  done : s.input_done = false
  cp : s.closepath_pending = false
  stash : s.stash = #[]
  stash_ix : s.stash_ix = 0
  ix : s.init_dash_ix < s.dashes.size
  rem : 0 ≤ s.init_dash_remaining

/-- the pattern position at which every sub-path starts -/
def DashIt.c13b_initPh (s : DashIt K) : Ph K := ⟨s.init_dash_ix, s.init_dash_remaining, s.init_is_active⟩

/-- what `dash_impl` builds is ready -/
theorem c13b_dashImpl_ready (inner : List (PathEl K)) (off : K) (dashes : Array K) (it : DashIt K)
    (hit : dashImpl inner off dashes = some it) (hn : 0 < dashes.size) (h0 : 0 ≤ it.dash_remaining) :
    c13b_Ready it ∧ it.inner = inner ∧ it.dashes = dashes ∧ it.c13b_initPh = it.ph ∧ it.PhaseInit := by
  obtain ⟨it', a1, a2, a3, a4, a5, a6, a7, a8, a9, a10⟩ := dashImpl_ok inner off dashes 100000 hn
  rw [hit] at a1
  cases a1
  refine ⟨⟨a6, a9, a10, a7, a8, a2.2, by rw [← a5.2.1]; exact h0⟩, a4, a3, ?_, a5⟩
  unfold DashIt.c13b_initPh DashIt.ph
  rw [a5.1, a5.2.1, a5.2.2]

variable [LawfulHypotSq K]

/-- **One closed polyline sub-path.**  `s0` ready, input `M p0 L q L q₁ … L qₖ Z` followed by `rest`; the specification
    walks the perimeter `|p0 q| + … + |qₖ p0|` (the closing line has length 0 if `qₖ = p0`) from the initial pattern
    position, covering the on-length `o` and ending at `ph'`.  If `collect()` returns `out`, it passes through a state
    `sE` that is again ready, with `rest` as input and the same `init_*` fields, having appended `O` to what it had
    collected; the strokes of `O` have total length `o`, and `O` is built from the stashed first dash `MoveTo p0 :: N`
    and what was emitted after it, `E`, as the three cases say. -/
theorem c13b_closed_subpath (p0 q : Point K) (pts : List (Point K)) (rest : List (PathEl K)) (s0 : DashIt K)
    (hr : c13b_Ready s0) (hin : s0.inner = .MoveTo p0 :: .LineTo q :: (pts.map .LineTo ++ .ClosePath :: rest))
    (hpat : ∀ i, 0 ≤ cyc s0.dashes i) (f : Nat) (o : K) (ph' : Ph K)
    (hw : walkList s0.dashes.size (cyc s0.dashes) f s0.c13b_initPh (polyLens p0 (q :: (pts ++ [p0]))) = some (o, ph'))
    (n fuel : Nat) (acc out : List (PathEl K)) (hc : collectFrom n fuel s0 acc = .ok out) :
    ∃ n' fuel' sE O, collectFrom n' fuel' sE (O.reverse ++ acc) = .ok out ∧ c13b_Ready sE ∧ sE.inner = rest ∧
      s0.SameInit sE ∧ sE.PhaseInit ∧ (∀ pen, drawnLen pen O = o) ∧
      (s0.init_is_active = false → (ph'.act = true → ∃ E', O = E' ++ [.LineTo p0])) ∧
      (s0.init_is_active = true → ∃ N E, (∀ pen, drawnLen p0 N + drawnLen pen E = o) ∧
        (s0.init_dash_remaining < (polyLens p0 (q :: (pts ++ [p0]))).sum →
          (∀ el ∈ N, ∃ p, el = PathEl.LineTo p) ∧
          (ph'.act = true → O = E ++ N ∧ (∀ pen, c13_penAfter pen E = p0) ∧ ∃ E', E = E' ++ [.LineTo p0]) ∧
          (ph'.act = false → O = E ++ .MoveTo p0 :: N) ∧ drawnLen p0 N = s0.init_dash_remaining) ∧
        (¬ s0.init_dash_remaining < (polyLens p0 (q :: (pts ++ [p0]))).sum →
          E = [] ∧ N = c13b_wholeN p0 q pts ∧ O = .MoveTo p0 :: N)) := by
  cases fuel with
  | zero => exact absurd hc (collectFrom_zero _ _ _ _)
  | succ fuel =>
  cases fuel with
  | zero =>
    exfalso
    have hgi := get_input_moveTo_lineTo s0 p0 q _ hr.cp (by rw [hr.stash]; rfl) hin
    have hnext := next_needInput s0 0 hr.state hr.done (by rw [hgi]; exact hr.done) (by rw [hgi]; exact hr.state)
    unfold collectFrom at hc
    rw [hnext] at hc
    unfold DashIt.next at hc
    cases hc
  | succ fuel =>
    -- `NeedInput`: fetch `MoveTo p0, LineTo q`
    have hgi := get_input_moveTo_lineTo s0 p0 q _ hr.cp (by rw [hr.stash]; rfl) hin
    have hnext := next_needInput s0 (fuel + 1) hr.state hr.done (by rw [hgi]; exact hr.done) (by rw [hgi]; exact hr.state)
    unfold collectFrom at hc
    rw [hnext, hgi] at hc
    obtain ⟨sA, hsA⟩ : ∃ sA : DashIt K, sA = s0.startState p0 q (pts.map .LineTo ++ .ClosePath :: rest) := ⟨_, rfl⟩
    have hcA : collectFrom n (fuel + 1) sA acc = .ok out := by rw [hsA]; exact hc
    have hst0 : (sA.state == .ToStash && sA.stash.isEmpty) = true := by
      subst hsA; show (true && s0.stash.isEmpty) = true; rw [hr.stash]; rfl
    have hstepA := step_stash_start sA hst0
    have hactA : sA.is_active = s0.init_is_active := by subst hsA; rfl
    have hphA : sA.ph = s0.c13b_initPh := by subst hsA; rfl
    have hdA : sA.dashes = s0.dashes := by subst hsA; rfl
    have hwA : walkList sA.dashes.size (cyc sA.dashes) f sA.ph (sA.seg_remaining :: polyLens sA.last_pt (pts ++ [sA.start_pt]))
        = some (o, ph') := by
      rw [hdA, hphA]; subst hsA; exact hw
    have hcurA : sA.current_seg.start = p0 := by subst hsA; rfl
    have hsum : (polyLens p0 (q :: (pts ++ [p0]))).sum
        = (Line.mk p0 q).arclen 0 + (polyLens q (pts ++ [p0])).sum := by
      rw [polyLens, List.sum_cons]
    cases hact : s0.init_is_active
    · -- the pattern is off at the offset: straight to `Working`; the stash stays empty
      rw [if_neg (by rw [hactA, hact]; exact Bool.false_ne_true)] at hstepA
      rw [collect_stash_none n fuel sA _ acc (by subst hsA; rfl) hstepA] at hcA
      obtain ⟨sB, hsB⟩ : ∃ sB : DashIt K, sB = { sA with state := .Working } := ⟨_, rfl⟩
      rw [← hsB] at hcA
      have honB : OnLine sB ⟨p0, q⟩ ((Line.mk p0 q).arclen 0) := by
        subst hsB
        refine ⟨by subst hsA; rfl, rfl, by subst hsA; exact zero_lt_one,
          by subst hsA; simp [DashIt.startState, DashIt.loadLine, DashIt.reset_phase],
          rfl, by subst hsA; exact hr.ix, by subst hsA; exact hr.rem, by subst hsA; rfl⟩
      obtain ⟨E, sF, g1, g2, g3, g4, g5⟩ := c13b_working_closeA pts rest ⟨p0, q⟩ _ f sB o ph'
        (by subst hsB; rw [hdA]; exact hpat) honB (by subst hsB; subst hsA; exact hr.cp) (by subst hsB; subst hsA; rfl)
        (by subst hsB; exact hwA)
      obtain ⟨n1, fuel1, hc1⟩ := collect_steps g1 n fuel acc out hcA
      have hstF : sF.stash = #[] := by rw [g3]; subst hsB; subst hsA; exact hr.stash
      have hdF : sF.input_done = false := by rw [g2.done]; subst hsB; subst hsA; exact hr.done
      obtain ⟨n2, fuel2, hc2⟩ := c13b_collect_replay_cp _ sF n1 fuel1 _ out rfl g2.state hdF g2.cp hc1
      rw [hstF] at hc2
      have hinitB : s0.SameInit sB := by subst hsB; subst hsA; exact ⟨rfl, rfl, rfl, rfl⟩
      have hinitF := DashIt.SameInit.trans hinitB g2.init
      have hpen : ∀ pen, sB.is_active = true → pen = (Line.mk p0 q).eval sB.t := by
        intro pen h
        subst hsB
        rw [hactA, hact] at h
        cases h
      refine ⟨n2, fuel2, sF.c13b_afterClose, E, by simpa using hc2,
        ⟨rfl, hdF, rfl, rfl, rfl, ?_, ?_⟩, g2.inner, hinitF, g2.phase, fun pen => (g5 pen (hpen pen)).1, ?_, ?_⟩
      · show sF.init_dash_ix < sF.dashes.size
        rw [hinitF.1, hinitF.2.1]; exact hr.ix
      · show 0 ≤ sF.init_dash_remaining
        rw [hinitF.2.2.1]; exact hr.rem
      · intro _ ha
        have := ((g5 p0 (hpen p0)).2 ha).2
        subst hsB; subst hsA
        exact this
      · intro h; cases h
    · -- the pattern is on at the offset: the opening `MoveTo` is stashed, then the first dash
      rw [if_pos (by rw [hactA, hact]), hcurA] at hstepA
      rw [collect_stash_some n fuel sA sA _ acc (by subst hsA; rfl) hstepA] at hcA
      obtain ⟨sB, hsB⟩ : ∃ sB : DashIt K, sB = { sA with stash := sA.stash.push (.MoveTo p0) } := ⟨_, rfl⟩
      rw [← hsB] at hcA
      have honB : OnLineS sB ⟨p0, q⟩ ((Line.mk p0 q).arclen 0) := by
        subst hsB
        refine ⟨by subst hsA; rfl, rfl, by subst hsA; exact zero_lt_one,
          by subst hsA; simp [DashIt.startState, DashIt.loadLine, DashIt.reset_phase],
          by subst hsA; rfl, by rw [← hact, ← hactA], by simp, by subst hsA; exact hr.ix, by subst hsA; exact hr.rem,
          by subst hsA; rfl⟩
      obtain ⟨n1, fuel1, sF, N, E, b1, b2, b3, b4, b5, b6⟩ := c13b_stash_closeA pts rest ⟨p0, q⟩ _ f sB o ph'
        (by subst hsB; rw [hdA]; exact hpat) honB (by subst hsB; subst hsA; exact hr.cp)
        (by subst hsB; subst hsA; exact hr.stash_ix) (by subst hsB; subst hsA; rfl) (by subst hsB; exact hwA)
        n fuel acc out hcA
      have hstF : sF.stash.toList = .MoveTo p0 :: N := by
        rw [b3]; subst hsB; subst hsA
        show (s0.stash.push (PathEl.MoveTo p0)).toList ++ N = _
        rw [hr.stash]; rfl
      have hdF : sF.input_done = false := by rw [b2.done]; subst hsB; subst hsA; exact hr.done
      obtain ⟨n2, fuel2, hc2⟩ := c13b_collect_replay_cp _ sF n1 fuel1 _ out rfl b2.state hdF b2.cp b1
      rw [hstF] at hc2
      have hinitB : s0.SameInit sB := by subst hsB; subst hsA; exact ⟨rfl, rfl, rfl, rfl⟩
      have hinitF := DashIt.SameInit.trans hinitB b2.init
      have e0 : (Line.mk p0 q).eval sB.t = p0 := by
        subst hsB; subst hsA
        show (Line.mk p0 q).eval 0 = p0
        rw [(line_eval_zero_one _).1]
      rw [e0] at b4 b5
      have hstB : sB.start_pt = p0 := by subst hsB; subst hsA; rfl
      have hlB : sB.last_pt = q := by subst hsB; subst hsA; rfl
      have hremB : sB.dash_remaining = s0.init_dash_remaining := by subst hsB; subst hsA; rfl
      have hsegB : sB.seg_remaining = (Line.mk p0 q).arclen 0 := by subst hsB; subst hsA; rfl
      rw [hstB, hlB, hremB, hsegB, ← hsum] at b5 b6
      have hreadyE : c13b_Ready sF.c13b_afterClose := by
        refine ⟨rfl, hdF, rfl, rfl, rfl, ?_, ?_⟩
        · show sF.init_dash_ix < sF.dashes.size
          rw [hinitF.1, hinitF.2.1]; exact hr.ix
        · show 0 ≤ sF.init_dash_remaining
          rw [hinitF.2.2.1]; exact hr.rem
      refine ⟨n2, fuel2, sF.c13b_afterClose, E ++ List.drop sF.stash_ix (.MoveTo p0 :: N), by simpa using hc2,
        hreadyE, b2.inner, hinitF, b2.phase, ?_, (fun h => by cases h), fun _ => ⟨N, E, b4, ?_, ?_⟩⟩
      · -- total length
        intro pen
        by_cases hlt : s0.init_dash_remaining < (polyLens p0 (q :: (pts ++ [p0]))).sum
        · obtain ⟨d1, -, d3, -⟩ := b5 hlt
          cases ha : ph'.act
          · rw [d1, ha]
            simp only [Bool.false_eq_true, if_false, List.drop_zero]
            rw [drawnLen_append]
            simp only [drawnLen]
            rw [add_comm]; exact b4 pen
          · rw [d1, ha]
            simp only [if_true, List.drop_one, List.tail_cons]
            rw [drawnLen_append, (d3 ha).1 pen, add_comm]
            exact b4 pen
        · obtain ⟨d1, d2, -⟩ := b6 hlt
          rw [d1, d2]
          simp only [List.drop_zero, List.nil_append, drawnLen]
          have := b4 pen
          rw [d2] at this
          simpa [drawnLen] using this
      · intro hlt
        obtain ⟨d1, d2, d3, d4⟩ := b5 hlt
        refine ⟨d2, fun ha => ?_, fun ha => ?_, d4⟩
        · rw [d1, ha]
          simp only [if_true, List.drop_one, List.tail_cons]
          exact ⟨trivial, d3 ha⟩
        · rw [d1, ha]
          simp only [Bool.false_eq_true, if_false, List.drop_zero]
      · intro hlt
        obtain ⟨d1, d2, d3⟩ := b6 hlt
        refine ⟨d2, d3, ?_⟩
        rw [d1, d2]
        simp only [List.drop_zero, List.nil_append]

/-- the same started by `dash`: `it` = what `dash_impl` builds -/
theorem c13b_dash_closed_reach (p0 q : Point K) (pts : List (Point K)) (rest : List (PathEl K)) (off : K)
    (dashes : Array K) (budget : Nat) (it : DashIt K)
    (hit : dashImpl (.MoveTo p0 :: .LineTo q :: (pts.map .LineTo ++ .ClosePath :: rest)) off dashes = some it)
    (hn : 0 < dashes.size) (h0 : 0 ≤ it.dash_remaining) (hpat : ∀ i, 0 ≤ cyc dashes i)
    (f : Nat) (o : K) (ph' : Ph K)
    (hw : walkList dashes.size (cyc dashes) f it.ph (polyLens p0 (q :: (pts ++ [p0]))) = some (o, ph'))
    (out : List (PathEl K))
    (hout : dash (.MoveTo p0 :: .LineTo q :: (pts.map .LineTo ++ .ClosePath :: rest)) off dashes budget = .ok out) :
    ∃ n' fuel' sE O, collectFrom n' fuel' sE O.reverse = .ok out ∧ c13b_Ready sE ∧ sE.inner = rest ∧
      it.SameInit sE ∧ sE.PhaseInit ∧ (∀ pen, drawnLen pen O = o) ∧
      (it.is_active = false → (ph'.act = true → ∃ E', O = E' ++ [.LineTo p0])) ∧
      (it.is_active = true → ∃ N E, (∀ pen, drawnLen p0 N + drawnLen pen E = o) ∧
        (it.dash_remaining < (polyLens p0 (q :: (pts ++ [p0]))).sum →
          (∀ el ∈ N, ∃ p, el = PathEl.LineTo p) ∧
          (ph'.act = true → O = E ++ N ∧ (∀ pen, c13_penAfter pen E = p0) ∧ ∃ E', E = E' ++ [.LineTo p0]) ∧
          (ph'.act = false → O = E ++ .MoveTo p0 :: N) ∧ drawnLen p0 N = it.dash_remaining) ∧
        (¬ it.dash_remaining < (polyLens p0 (q :: (pts ++ [p0]))).sum →
          E = [] ∧ N = c13b_wholeN p0 q pts ∧ O = .MoveTo p0 :: N)) := by
  obtain ⟨r1, r2, r3, r4, r5⟩ := c13b_dashImpl_ready _ off dashes it hit hn h0
  unfold dash at hout
  rw [hit] at hout
  simp only at hout
  cases budget with
  | zero => exact absurd hout (dashCollect_zero _ _ _)
  | succ n =>
    rw [dashCollect_succ] at hout
    obtain ⟨n', fuel', sE, O, c1, c2, c3, c4, c5, c6, c7, c8⟩ := c13b_closed_subpath p0 q pts rest it r1 r2
      (by rw [r3]; exact hpat) f o ph' (by rw [r3, r4]; exact hw) n 100000 [] out hout
    rw [← r5.2.2] at c7 c8
    rw [← r5.2.1] at c8
    exact ⟨n', fuel', sE, O, by simpa using c1, c2, c3, c4, c5, c6, c7, c8⟩

/-- … and when the input ends after the `ClosePath`, `out` is exactly what was collected -/
theorem c13b_dash_closed_out (p0 q : Point K) (pts : List (Point K)) (off : K)
    (dashes : Array K) (budget : Nat) (it : DashIt K)
    (hit : dashImpl (.MoveTo p0 :: .LineTo q :: (pts.map .LineTo ++ [.ClosePath])) off dashes = some it)
    (hn : 0 < dashes.size) (h0 : 0 ≤ it.dash_remaining) (hpat : ∀ i, 0 ≤ cyc dashes i)
    (f : Nat) (o : K) (ph' : Ph K)
    (hw : walkList dashes.size (cyc dashes) f it.ph (polyLens p0 (q :: (pts ++ [p0]))) = some (o, ph'))
    (out : List (PathEl K))
    (hout : dash (.MoveTo p0 :: .LineTo q :: (pts.map .LineTo ++ [.ClosePath])) off dashes budget = .ok out) :
    (∀ pen, drawnLen pen out = o) ∧
      (it.is_active = false → (ph'.act = true → ∃ E', out = E' ++ [.LineTo p0])) ∧
      (it.is_active = true → ∃ N E, (∀ pen, drawnLen p0 N + drawnLen pen E = o) ∧
        (it.dash_remaining < (polyLens p0 (q :: (pts ++ [p0]))).sum →
          (∀ el ∈ N, ∃ p, el = PathEl.LineTo p) ∧
          (ph'.act = true → out = E ++ N ∧ (∀ pen, c13_penAfter pen E = p0) ∧ ∃ E', E = E' ++ [.LineTo p0]) ∧
          (ph'.act = false → out = E ++ .MoveTo p0 :: N) ∧ drawnLen p0 N = it.dash_remaining) ∧
        (¬ it.dash_remaining < (polyLens p0 (q :: (pts ++ [p0]))).sum →
          E = [] ∧ N = c13b_wholeN p0 q pts ∧ out = .MoveTo p0 :: N)) := by
  obtain ⟨n', fuel', sE, O, c1, c2, c3, c4, c5, c6, c7, c8⟩ :=
    c13b_dash_closed_reach p0 q pts [] off dashes budget it hit hn h0 hpat f o ph' hw out hout
  have := c13b_collect_end sE n' fuel' _ out c2.state c2.done c2.cp c3 c1
  rw [List.reverse_reverse] at this
  subst this
  exact ⟨c6, c7, c8⟩

/-! ### the shape of the stash when the whole sub-path lies inside the first dash -/
section
omit [LawfulHypotSq K]
theorem c13b_lastPt_eq_getLast (q : Point K) (pts : List (Point K)) :
    c13b_lastPt q pts = (q :: pts).getLast (List.cons_ne_nil q pts) := by
  induction pts generalizing q with
  | nil => rfl
  | cons r pts ih => rw [c13b_lastPt, ih, List.getLast_cons_cons]

theorem c13b_wholeN_ne (start p : Point K) (pts : List (Point K)) (h : c13b_lastPt p pts ≠ start) :
    c13b_wholeN start p pts = (p :: pts).map .LineTo ++ [.LineTo start, .ClosePath] := by
  induction pts generalizing p with
  | nil =>
    have h' : p ≠ start := h
    simp only [c13b_wholeN]
    rw [if_neg (fun hp => h' ((c13b_peq_iff _ _).mp hp))]
    rfl
  | cons r pts ih =>
    rw [c13b_wholeN, ih r h]
    rfl

theorem c13b_wholeN_eq (start p : Point K) (pts : List (Point K)) (h : c13b_lastPt p pts = start) :
    c13b_wholeN start p pts = (p :: pts).map .LineTo ++ [.ClosePath] := by
  induction pts generalizing p with
  | nil =>
    have h' : p = start := h
    simp only [c13b_wholeN]
    rw [if_pos ((c13b_peq_iff _ _).mpr h')]
    rfl
  | cons r pts ih =>
    rw [c13b_wholeN, ih r h]
    rfl
end

end Kurbo
