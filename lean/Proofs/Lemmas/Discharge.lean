import Proofs.C15
import Proofs.Lemmas.C08Ext
/-! Discharges the solver hypotheses that other property files take as explicit parameters, from the C15 theorems. -/
namespace Kurbo

/-- over ℝ with the real `sqrt` law the quadratic solver meets `QuadSolverSpec` (the hypothesis of the C08 cubic theorems) -/
theorem quadSolverSpec_real [Scalar ℝ] [LawfulScalar ℝ] [LawfulReal] : QuadSolverSpec ℝ where
  quad c0 c1 c2 h2 := (solveQuadratic_spec_real c0 c1 c2 (fun h => h2 h.2.2)).1
  linear c0 c1 h1 := (solveQuadratic_linear c0 c1 h1).1
  zero := solveQuadratic_all_zero
  const c0 h0 := solveQuadratic_const c0 h0
  length_le c0 c1 c2 := solveQuadratic_length_le c0 c1 c2
  sorted c0 c1 c2 := by
    by_cases h : c0 = 0 ∧ c1 = 0 ∧ c2 = 0
    · obtain ⟨rfl, rfl, rfl⟩ := h
      rw [solveQuadratic_all_zero]; simp
    · exact (solveQuadratic_spec_real c0 c1 c2 h).2.1.imp (fun h => h.le)

end Kurbo
