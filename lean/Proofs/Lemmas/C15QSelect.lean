import Proofs.Lemmas.C15QFactor
/-! helper lemmas for C15Q: the resolvent cubic of `factor_quartic_inner` does not depend on the shift `s` (nor, up to the
    scaling by `K_C`, on `rescale`), and an exact root `phi` of it makes the first LDLᵀ candidate exact -/
set_option linter.unusedSectionVars false
namespace Kurbo
variable {K : Type} [Field K] [LinearOrder K] [IsStrictOrderedRing K] [FloorRing K] [Scalar K] [LawfulScalar K]

/-- coefficients of the depressed resolvent cubic `φ³ + g φ + h` of `x⁴ + a x³ + b x² + c x + d` -/
def resolventG (a b c d : K) : K := a * c - 4 * d - 1 / 3 * b ^ 2
def resolventH (a b c d : K) : K := (a * c + 8 * d - 2 / 9 * b ^ 2) * (1 / 3) * b - c ^ 2 - a ^ 2 * d

theorem quarticKC_pos : (0 : K) < quarticKC := by
  unfold quarticKC; rw [sn_ofRat]; push_cast; positivity

/-- the shift of the quartic leaves the depressed resolvent unchanged (whatever `s` is) -/
theorem resolventGH_false (a b c d : K) :
    resolventGH a b c d false = (resolventG a b c d, resolventH a b c d) := by
  unfold resolventGH resolventG resolventH
  simp only [scalar_norm]
  generalize quarticShift a b = s
  simp only [Bool.false_eq_true, if_false]
  push_cast
  rw [Prod.mk.injEq]; constructor <;> ring

theorem resolventGH_true (a b c d : K) :
    resolventGH a b c d true =
      (resolventG a b c d / (quarticKC : K) ^ 2, resolventH a b c d / (quarticKC : K) ^ 3) := by
  have hk : (quarticKC : K) ≠ 0 := quarticKC_pos.ne'
  unfold resolventGH resolventG resolventH
  simp only [scalar_norm]
  generalize quarticShift a b = s
  generalize (quarticKC : K) = kc at hk ⊢
  simp only [if_true]
  push_cast
  rw [Prod.mk.injEq]; constructor <;> (field_simp; ring)

theorem quarticPhi_false (a b c d : K) :
    quarticPhi a b c d false = some (depressedCubicDominant (resolventG a b c d) (resolventH a b c d)) := by
  unfold quarticPhi
  simp only [scalar_norm, resolventGH_false]
  simp

theorem quarticPhi_true (a b c d : K) :
    quarticPhi a b c d true = some (depressedCubicDominant (resolventG a b c d / (quarticKC : K) ^ 2)
      (resolventH a b c d / (quarticKC : K) ^ 3) * quarticKC) := by
  unfold quarticPhi
  simp only [scalar_norm, resolventGH_true]
  simp

theorem resolvent_root_rescale {G H kc x : K} (hk : kc ≠ 0) (hx : x ^ 3 + G / kc ^ 2 * x + H / kc ^ 3 = 0) :
    (x * kc) ^ 3 + G * (x * kc) + H = 0 := by
  have e : (x * kc) ^ 3 + G * (x * kc) + H = kc ^ 3 * (x ^ 3 + G / kc ^ 2 * x + H / kc ^ 3) := by
    field_simp
  rw [e, hx, mul_zero]

/-! ### the candidate loop -/

theorem ldlEps_eq (b c d l_1 l_3 d_2 l_2 : K) :
    ldlEps b c d l_1 l_3 d_2 l_2 =
      epsRel (d_2 + l_1 * l_1 + 2 * l_3) b + epsRel (2 * (d_2 * l_2 + l_1 * l_3)) c + epsRel (d_2 * l_2 * l_2 + l_3 * l_3) d := by
  unfold ldlEps
  simp only [scalar_norm]
  push_cast
  rfl

theorem ldlEps_nonneg (b c d l_1 l_3 d_2 l_2 : K) : 0 ≤ ldlEps b c d l_1 l_3 d_2 l_2 := by
  rw [ldlEps_eq]
  have := epsRel_nonneg' (d_2 + l_1 * l_1 + 2 * l_3) b
  have := epsRel_nonneg' (2 * (d_2 * l_2 + l_1 * l_3)) c
  have := epsRel_nonneg' (d_2 * l_2 * l_2 + l_3 * l_3) d
  linarith

theorem ldlEps_eq_zero_iff (b c d l_1 l_3 d_2 l_2 : K) :
    ldlEps b c d l_1 l_3 d_2 l_2 = 0 ↔
      d_2 + l_1 * l_1 + 2 * l_3 = b ∧ 2 * (d_2 * l_2 + l_1 * l_3) = c ∧ d_2 * l_2 * l_2 + l_3 * l_3 = d := by
  rw [ldlEps_eq]
  have h1 := epsRel_nonneg' (d_2 + l_1 * l_1 + 2 * l_3) b
  have h2 := epsRel_nonneg' (2 * (d_2 * l_2 + l_1 * l_3)) c
  have h3 := epsRel_nonneg' (d_2 * l_2 * l_2 + l_3 * l_3) d
  rw [← epsRel_eq_zero_iff' (d_2 + l_1 * l_1 + 2 * l_3) b, ← epsRel_eq_zero_iff' (2 * (d_2 * l_2 + l_1 * l_3)) c,
    ← epsRel_eq_zero_iff' (d_2 * l_2 * l_2 + l_3 * l_3) d]
  constructor
  · intro h; exact ⟨by linarith, by linarith, by linarith⟩
  · rintro ⟨e1, e2, e3⟩; rw [e1, e2, e3]; ring

theorem ldlPick_of_zero (b c d l_1 l_3 : K) (best : K × K × K) (cand : K × K) (h : best.2.2 = 0) :
    ldlPick b c d l_1 l_3 best cand = best := by
  unfold ldlPick
  simp only [scalar_norm]
  rw [if_neg]
  rw [h, decide_eq_true_eq]
  exact not_lt.mpr (ldlEps_nonneg _ _ _ _ _ _ _)

theorem ldlPick_fst (b c d l_1 l_3 : K) (best : K × K × K) (cand : K × K) :
    (ldlPick b c d l_1 l_3 best cand).1 = best.1 ∨ (ldlPick b c d l_1 l_3 best cand).1 = cand.1 := by
  unfold ldlPick
  dsimp only
  split_ifs
  · right; rfl
  · left; rfl

/-- an exact first candidate wins the loop -/
theorem ldlBest_of_exact (b c d l_1 l_3 : K) (c1 c2 c3 : K × K) (h : ldlEps b c d l_1 l_3 c1.1 c1.2 = 0) :
    ldlBest b c d l_1 l_3 c1 c2 c3 = (c1.1, c1.2, 0) := by
  unfold ldlBest
  rw [h]
  have e1 : ldlPick b c d l_1 l_3 (c1.1, c1.2, (0 : K)) c2 = (c1.1, c1.2, 0) := ldlPick_of_zero _ _ _ _ _ _ _ rfl
  rw [e1]; exact ldlPick_of_zero _ _ _ _ _ _ _ rfl

theorem ldlBest_fst_zero (b c d l_1 l_3 : K) (c1 c2 c3 : K × K) (h1 : c1.1 = 0) (h2 : c2.1 = 0) (h3 : c3.1 = 0) :
    (ldlBest b c d l_1 l_3 c1 c2 c3).1 = 0 := by
  unfold ldlBest
  rcases ldlPick_fst b c d l_1 l_3 (ldlPick b c d l_1 l_3 (c1.1, c1.2, ldlEps b c d l_1 l_3 c1.1 c1.2) c2) c3 with e | e
  · rw [e]
    rcases ldlPick_fst b c d l_1 l_3 (c1.1, c1.2, ldlEps b c d l_1 l_3 c1.1 c1.2) c2 with e' | e'
    · rw [e']; exact h1
    · rw [e']; exact h2
  · rw [e]; exact h3

theorem ldlNoiseZero_eq (b phi l_1 d_2 : K) :
    ldlNoiseZero b phi l_1 d_2 = if |d_2| ≤ 64 * (1 / 4503599627370496) * (|b| + |phi| + l_1 * l_1) then 0 else d_2 := by
  unfold ldlNoiseZero f64Epsilon
  simp only [scalar_norm, decide_eq_true_eq]
  push_cast
  rfl

theorem ldlNoiseZero_zero (b phi l_1 : K) : ldlNoiseZero b phi l_1 0 = 0 := by
  rw [ldlNoiseZero_eq]; split_ifs <;> rfl

/-! ### `ldlSelect` on an exact resolvent root -/

/-- `d_2_cand_1` as a function of `phi` -/
def ldlD1 (a b phi : K) : K := 2 / 3 * b - phi - a * (1 / 2) * (a * (1 / 2))

/-- the right-hand side of the test `|d_2| <= 64 ε (|b| + |phi| + l_1²)` (ε = 2⁻⁵²) -/
def ldlNoise (a b phi : K) : K := 64 * (1 / 4503599627370496) * (|b| + |phi| + a * (1 / 2) * (a * (1 / 2)))

/-- the cubic in `phi` is exactly the third LDLᵀ identity of the first candidate -/
theorem resolvent_key (a b c d phi : K) :
    (c - a * (1 / 6 * b + 1 / 2 * phi)) ^ 2 - 4 * ldlD1 a b phi * (d - (1 / 6 * b + 1 / 2 * phi) * (1 / 6 * b + 1 / 2 * phi)) =
      -(phi ^ 3 + resolventG a b c d * phi + resolventH a b c d) := by
  unfold ldlD1 resolventG resolventH; ring

/-- `phi` an exact root, `d_2_cand_1 ≠ 0` and not within the noise threshold: `ldlSelect` returns the first candidate and
    it is an exact LDLᵀ decomposition -/
theorem ldlSelect_exact_ne {a b c d phi : K} (hphi : phi ^ 3 + resolventG a b c d * phi + resolventH a b c d = 0)
    (hthr : 64 * (1 / 4503599627370496) * (|b| + |phi| + a * (1 / 2) * (a * (1 / 2))) < |ldlD1 a b phi|) :
    (ldlSelect a b c d phi).2.2.1 = ldlD1 a b phi ∧
    2 * (ldlSelect a b c d phi).1 = a ∧
    (ldlSelect a b c d phi).2.2.1 + (ldlSelect a b c d phi).1 * (ldlSelect a b c d phi).1 + 2 * (ldlSelect a b c d phi).2.1 = b ∧
    2 * ((ldlSelect a b c d phi).2.2.1 * (ldlSelect a b c d phi).2.2.2 + (ldlSelect a b c d phi).1 * (ldlSelect a b c d phi).2.1) = c ∧
    (ldlSelect a b c d phi).2.2.1 * (ldlSelect a b c d phi).2.2.2 * (ldlSelect a b c d phi).2.2.2 +
      (ldlSelect a b c d phi).2.1 * (ldlSelect a b c d phi).2.1 = d := by
  have hkey := resolvent_key a b c d phi
  rw [hphi, neg_zero] at hkey
  have hD : ldlD1 a b phi ≠ 0 := by
    intro h0; rw [h0, abs_zero] at hthr
    have : (0 : K) ≤ 64 * (1 / 4503599627370496) * (|b| + |phi| + a * (1 / 2) * (a * (1 / 2))) := by
      have := abs_nonneg b; have := abs_nonneg phi; have := mul_self_nonneg (a * (1 / 2)); positivity
    linarith
  unfold ldlSelect
  simp only [scalar_norm]
  push_cast
  have hD' : 2 / 3 * b - phi - a * (1 / 2) * (a * (1 / 2)) = ldlD1 a b phi := rfl
  rw [hD']
  set L3 := 1 / 6 * b + 1 / 2 * phi with hL3
  have he : ldlEps b c d (a * (1 / 2)) L3 (ldlD1 a b phi) (1 / 2 * (c - a * L3) / ldlD1 a b phi) = 0 := by
    rw [ldlEps_eq_zero_iff]
    refine ⟨?_, ?_, ?_⟩
    · unfold ldlD1; rw [hL3]; ring
    · field_simp; ring
    · field_simp; linear_combination (1 : K) * hkey
  rw [ldlBest_of_exact _ _ _ _ _ (ldlD1 a b phi, 1 / 2 * (c - a * L3) / ldlD1 a b phi) _ _ he]
  dsimp only
  rw [ldlNoiseZero_eq, if_neg (not_le.mpr hthr)]
  have he' := (ldlEps_eq_zero_iff _ _ _ _ _ _ _).mp he
  exact ⟨rfl, by ring, he'.1, he'.2.1, he'.2.2⟩

/-- `phi` an exact root and `d_2_cand_1 = 0`: `ldlSelect` returns `d_2 = 0`, and `(x² + l_1 x + l_3)²` reproduces the
    coefficients `a`, `b`, `c` -/
theorem ldlSelect_exact_zero {a b c d phi : K} (hphi : phi ^ 3 + resolventG a b c d * phi + resolventH a b c d = 0)
    (hD : ldlD1 a b phi = 0) :
    (ldlSelect a b c d phi).2.2.1 = 0 ∧
    2 * (ldlSelect a b c d phi).1 = a ∧
    (ldlSelect a b c d phi).1 * (ldlSelect a b c d phi).1 + 2 * (ldlSelect a b c d phi).2.1 = b ∧
    2 * ((ldlSelect a b c d phi).1 * (ldlSelect a b c d phi).2.1) = c := by
  have hkey := resolvent_key a b c d phi
  rw [hphi, neg_zero, hD, mul_zero, zero_mul, sub_zero] at hkey
  have hdelt : c - a * (1 / 6 * b + 1 / 2 * phi) = 0 := pow_eq_zero_iff (two_ne_zero) |>.mp hkey
  unfold ldlSelect
  simp only [scalar_norm]
  push_cast
  have hD' : 2 / 3 * b - phi - a * (1 / 2) * (a * (1 / 2)) = ldlD1 a b phi := rfl
  rw [hD', hD, hdelt]
  refine ⟨?_, by ring, ?_, ?_⟩
  · rw [ldlBest_fst_zero _ _ _ _ _ _ _ _ rfl (by simp) rfl, ldlNoiseZero_zero]
  · unfold ldlD1 at hD; linear_combination (-1 : K) * hD
  · linear_combination (-1 : K) * hdelt

end Kurbo
