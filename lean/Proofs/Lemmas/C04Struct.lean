import Kurbo.Stroke
/-! Helper definitions and lemmas for C04, part 1 (structure; any `[Scalar K]`, no arithmetic law, core Lean only):
    the shape of what `do_join` / `do_line` / `inner_join_pivot` append, `extend_reversed`, the context invariant,
    `finish` / `finish_closed`. -/
set_option linter.unusedSectionVars false
set_option linter.unusedVariables false
namespace Kurbo
variable {K : Type} [Scalar K]

/-! ### element classes -/

/-- the elements a source polyline is made of -/
def c04_isPoly : PathEl K → Bool
  | .MoveTo _ => true
  | .LineTo _ => true
  | .ClosePath => true
  | _ => false

/-- the drawing elements the stroker puts after the `MoveTo` of a forward/backward path -/
def c04_isSeg : PathEl K → Bool
  | .LineTo _ => true
  | .CurveTo _ _ _ => true
  | _ => false

/-- `LineTo` -/
def c04_isLine : PathEl K → Bool
  | .LineTo _ => true
  | _ => false

/-- `CurveTo` -/
def c04_isCurve : PathEl K → Bool
  | .CurveTo _ _ _ => true
  | _ => false

/-- every element is a `LineTo` or a `CurveTo` -/
def c04_Segs (l : List (PathEl K)) : Prop := ∀ e ∈ l, c04_isSeg e = true

theorem c04_Segs_nil : c04_Segs ([] : List (PathEl K)) := fun _ h => by cases h
theorem c04_Segs_append {a b : List (PathEl K)} (ha : c04_Segs a) (hb : c04_Segs b) : c04_Segs (a ++ b) := by
  intro e he
  rcases List.mem_append.1 he with h | h
  · exact ha e h
  · exact hb e h
theorem c04_Segs_line (p : Point K) : c04_Segs [PathEl.LineTo p] := by
  intro e he
  rw [List.mem_singleton] at he
  subst he; rfl
theorem c04_Segs_of_curves {l : List (PathEl K)} (h : ∀ e ∈ l, c04_isCurve e = true) : c04_Segs l := by
  intro e he
  have := h e he
  cases e <;> first | rfl | cases this
theorem c04_Segs_of_lines {l : List (PathEl K)} (h : ∀ e ∈ l, c04_isLine e = true) : c04_Segs l := by
  intro e he
  have := h e he
  cases e <;> first | rfl | cases this
theorem c04_Segs_append_left {a b : List (PathEl K)} (h : c04_Segs (a ++ b)) : c04_Segs a :=
  fun e he => h e (List.mem_append_left _ he)
theorem c04_Segs_append_right {a b : List (PathEl K)} (h : c04_Segs (a ++ b)) : c04_Segs b :=
  fun e he => h e (List.mem_append_right _ he)

/-- a forward/backward path in progress: `MoveTo` followed by drawing elements -/
def c04_PathOK (l : List (PathEl K)) : Prop := ∃ p t, l = PathEl.MoveTo p :: t ∧ c04_Segs t

theorem c04_PathOK_append {l a : List (PathEl K)} (hl : c04_PathOK l) (ha : c04_Segs a) : c04_PathOK (l ++ a) := by
  obtain ⟨p, t, rfl, ht⟩ := hl
  exact ⟨p, t ++ a, rfl, c04_Segs_append ht ha⟩

theorem c04_PathOK_ne_nil {l : List (PathEl K)} (hl : c04_PathOK l) : l ≠ [] := by
  obtain ⟨p, t, rfl, _⟩ := hl
  exact List.cons_ne_nil _ _

/-! ### round joins and caps: only `CurveTo` -/

theorem c04_roundJoinWith_curves (tol : K) (a : Affine K) (angle : K) : ∀ e ∈ roundJoinWith tol a angle, c04_isCurve e = true := by
  intro e he
  unfold roundJoinWith at he
  rw [List.mem_filterMap] at he
  obtain ⟨x, _, hx⟩ := he
  cases x <;> cases hx <;> rfl

theorem c04_roundJoin_curves (tol : K) (c : Point K) (n : Vec2 K) (angle : K) : ∀ e ∈ roundJoin tol c n angle, c04_isCurve e = true :=
  c04_roundJoinWith_curves _ _ _
theorem c04_roundJoinRev_curves (tol : K) (c : Point K) (n : Vec2 K) (angle : K) : ∀ e ∈ roundJoinRev tol c n angle, c04_isCurve e = true :=
  c04_roundJoinWith_curves _ _ _
theorem c04_roundCap_curves (tol : K) (c : Point K) (n : Vec2 K) : ∀ e ∈ roundCap tol c n, c04_isCurve e = true :=
  c04_roundJoinWith_curves _ _ _

/-! ### what one step appends -/

/-- append `f` to the forward path and `b` to the backward path -/
def c04_ext (c : StrokeCtx K) (f b : List (PathEl K)) : StrokeCtx K :=
  { c with forward_path := c.forward_path ++ f, backward_path := c.backward_path ++ b }

@[simp] theorem c04_ext_forward (c : StrokeCtx K) (f b) : (c04_ext c f b).forward_path = c.forward_path ++ f := rfl
@[simp] theorem c04_ext_backward (c : StrokeCtx K) (f b) : (c04_ext c f b).backward_path = c.backward_path ++ b := rfl
@[simp] theorem c04_ext_output (c : StrokeCtx K) (f b) : (c04_ext c f b).output = c.output := rfl
@[simp] theorem c04_ext_start_pt (c : StrokeCtx K) (f b) : (c04_ext c f b).start_pt = c.start_pt := rfl
@[simp] theorem c04_ext_start_norm (c : StrokeCtx K) (f b) : (c04_ext c f b).start_norm = c.start_norm := rfl
@[simp] theorem c04_ext_start_tan (c : StrokeCtx K) (f b) : (c04_ext c f b).start_tan = c.start_tan := rfl
@[simp] theorem c04_ext_last_pt (c : StrokeCtx K) (f b) : (c04_ext c f b).last_pt = c.last_pt := rfl
@[simp] theorem c04_ext_last_tan (c : StrokeCtx K) (f b) : (c04_ext c f b).last_tan = c.last_tan := rfl
@[simp] theorem c04_ext_join_thresh (c : StrokeCtx K) (f b) : (c04_ext c f b).join_thresh = c.join_thresh := rfl

theorem c04_ext_nil (c : StrokeCtx K) : c04_ext c [] [] = c := by
  cases c; simp [c04_ext]
theorem c04_ext_ext (c : StrokeCtx K) (f b f' b' : List (PathEl K)) :
    c04_ext (c04_ext c f b) f' b' = c04_ext c (f ++ f') (b ++ b') := by
  cases c; simp [c04_ext]

/-- the offset vector of `do_join` / `do_line`: the tangent turned by 90° and scaled to half the width -/
def c04_norm (width : K) (tan0 : Vec2 K) : Vec2 K :=
  open Ops in ((Scalar.ofRat (1/2) : K) * width / tan0.hypot) * (⟨-tan0.y, tan0.x⟩ : Vec2 K)

/-- what `inner_join_pivot` appends to the forward path -/
def c04_pivotF (p0 : Point K) (cross : K) : List (PathEl K) :=
  open Ops in if (0 : K) <. cross then [] else if cross <. (0 : K) then [.LineTo p0] else []
/-- what `inner_join_pivot` appends to the backward path -/
def c04_pivotB (p0 : Point K) (cross : K) : List (PathEl K) :=
  open Ops in if (0 : K) <. cross then [.LineTo p0] else []

theorem c04_inner_join_pivot_eq (c : StrokeCtx K) (p0 : Point K) (cross : K) :
    c.inner_join_pivot p0 cross = c04_ext c (c04_pivotF p0 cross) (c04_pivotB p0 cross) := by
  unfold StrokeCtx.inner_join_pivot c04_pivotF c04_pivotB
  split
  · cases c; simp [c04_ext]
  · split
    · cases c; simp [c04_ext]
    · cases c; simp [c04_ext]

/-! ### `do_join` and `do_line` as "append these two lists" -/

/-- the miter point `do_join` puts on the forward path (`cross > 0`) -/
def c04_miterPtF (width : K) (p0 : Point K) (ab cd : Vec2 K) : Point K :=
  open Ops in
  let fp_last := p0 - c04_norm width ab
  let fp_this := p0 - c04_norm width cd
  let h := ab.cross (fp_this - fp_last) / ab.cross cd
  fp_this - cd * h

/-- the miter point `do_join` puts on the backward path (`cross < 0`) -/
def c04_miterPtB (width : K) (p0 : Point K) (ab cd : Vec2 K) : Point K :=
  open Ops in
  let fp_last := p0 + c04_norm width ab
  let fp_this := p0 + c04_norm width cd
  let h := ab.cross (fp_this - fp_last) / ab.cross cd
  fp_this - cd * h

/-- the miter-limit test of `do_join` -/
def c04_miterTest (c : StrokeCtx K) (style : StrokeStyle K) (tan0 : Vec2 K) : Bool :=
  open Ops in
  let cross := c.last_tan.cross tan0
  let dot := c.last_tan.dot tan0
  let hypot := Scalar.hypot cross dot
  (2 : K) * hypot <. (hypot + dot) * spowi style.miter_limit 2

/-- the miter point appended to the forward path, if any -/
def c04_miterF (c : StrokeCtx K) (style : StrokeStyle K) (tan0 : Vec2 K) : List (PathEl K) :=
  open Ops in
  if c04_miterTest c style tan0 then
    if (0 : K) <. c.last_tan.cross tan0 then [.LineTo (c04_miterPtF style.width c.last_pt c.last_tan tan0)] else []
  else []

/-- the miter point appended to the backward path, if any -/
def c04_miterB (c : StrokeCtx K) (style : StrokeStyle K) (tan0 : Vec2 K) : List (PathEl K) :=
  open Ops in
  if c04_miterTest c style tan0 then
    if (0 : K) <. c.last_tan.cross tan0 then []
    else if c.last_tan.cross tan0 <. (0 : K) then [.LineTo (c04_miterPtB style.width c.last_pt c.last_tan tan0)] else []
  else []

/-- the join-skip test of `do_join` (`true`: a join is made) -/
def c04_joinTest (c : StrokeCtx K) (tan0 : Vec2 K) : Bool :=
  open Ops in
  let cross := c.last_tan.cross tan0
  let dot := c.last_tan.dot tan0
  let hypot := Scalar.hypot cross dot
  (dot <=. (0 : K)) || (hypot * c.join_thresh <=. sabs cross)

/-- what `do_join` appends to (forward path, backward path) when the paths are not empty -/
def c04_joinApp (c : StrokeCtx K) (style : StrokeStyle K) (tan0 : Vec2 K) : List (PathEl K) × List (PathEl K) :=
  open Ops in
  let norm := c04_norm style.width tan0
  let p0 := c.last_pt
  let cross := c.last_tan.cross tan0
  let dot := c.last_tan.dot tan0
  if c04_joinTest c tan0 then
    if style.join = 0 then
      (c04_pivotF p0 cross ++ [.LineTo (p0 - norm)], c04_pivotB p0 cross ++ [.LineTo (p0 + norm)])
    else if style.join = 1 then
      (c04_miterF c style tan0 ++ (c04_pivotF p0 cross ++ [.LineTo (p0 - norm)]),
       c04_miterB c style tan0 ++ (c04_pivotB p0 cross ++ [.LineTo (p0 + norm)]))
    else
      let angle := Scalar.atan2 cross dot
      if (0 : K) <. angle then
        (c04_pivotF p0 cross ++ roundJoin c.join_thresh p0 norm angle, c04_pivotB p0 cross ++ [.LineTo (p0 + norm)])
      else
        (c04_pivotF p0 cross ++ [.LineTo (p0 - norm)], c04_pivotB p0 cross ++ roundJoinRev c.join_thresh p0 (-norm) (-angle))
  else ([], [])

open Ops in
theorem c04_do_join_nonempty (c : StrokeCtx K) (style : StrokeStyle K) (tan0 : Vec2 K) (hne : c.forward_path ≠ []) :
    c.do_join style tan0 = c04_ext c (c04_joinApp c style tan0).1 (c04_joinApp c style tan0).2 := by
  have he : c.forward_path.isEmpty = false := by
    cases h : c.forward_path with
    | nil => exact absurd h hne
    | cons a l => rfl
  obtain ⟨w, j, ml, sc, ec⟩ := style
  unfold StrokeCtx.do_join c04_joinApp
  simp only [he, Bool.false_eq_true, if_false]
  by_cases ht : c04_joinTest c tan0 = true
  · have ht' := ht
    simp only [c04_joinTest] at ht'
    simp only [ht, ht', if_true]
    split
    · simp only [c04_inner_join_pivot_eq, if_true]
      cases c; simp [c04_ext, c04_norm]
    · simp only [c04_inner_join_pivot_eq, c04_miterF, c04_miterB, if_true, if_false, Nat.succ_ne_zero]
      by_cases hm : c04_miterTest c ⟨w, 1, ml, sc, ec⟩ tan0 = true
      · have hm' := hm
        simp only [c04_miterTest] at hm'
        simp only [hm, hm', if_true]
        by_cases h1 : ((0 : K) <. c.last_tan.cross tan0) = true
        · simp only [h1, if_true]
          cases c; simp [c04_ext, c04_norm, c04_miterPtF]
        · simp only [h1, if_false, Bool.false_eq_true]
          by_cases h2 : (c.last_tan.cross tan0 <. (0 : K)) = true
          · simp only [h2, if_true]
            cases c; simp [c04_ext, c04_norm, c04_miterPtB]
          · simp only [h2, if_false, Bool.false_eq_true]
            cases c; simp [c04_ext, c04_norm]
      · have hm' := hm
        simp only [c04_miterTest] at hm'
        simp only [hm, hm', if_false, Bool.false_eq_true]
        cases c; simp [c04_ext, c04_norm]
    · rename_i h0 h1
      have h0' : ¬ (j = 0) := fun h => h0 h
      have h1' : ¬ (j = 1) := fun h => h1 h
      simp only [c04_inner_join_pivot_eq, if_neg h0', if_neg h1']
      split
      · cases c; simp [c04_ext, c04_norm]
      · cases c; simp [c04_ext, c04_norm]
  · have ht' := ht
    simp only [c04_joinTest] at ht'
    simp only [ht, ht', if_false, Bool.false_eq_true]
    exact (c04_ext_nil c).symm

theorem c04_do_join_empty (c : StrokeCtx K) (style : StrokeStyle K) (tan0 : Vec2 K) (he : c.forward_path = []) :
    c.do_join style tan0 =
      { c with forward_path := [.MoveTo (c.last_pt - c04_norm style.width tan0)],
               backward_path := c.backward_path ++ [.MoveTo (c.last_pt + c04_norm style.width tan0)],
               start_tan := tan0, start_norm := c04_norm style.width tan0 } := by
  unfold StrokeCtx.do_join
  simp only [he, List.isEmpty_nil, if_true, List.nil_append]
  rfl

theorem c04_do_line_eq (c : StrokeCtx K) (style : StrokeStyle K) (t : Vec2 K) (p1 : Point K) :
    c.do_line style t p1 =
      { c04_ext c [.LineTo (p1 - c04_norm style.width t)] [.LineTo (p1 + c04_norm style.width t)] with last_pt := p1 } := rfl

theorem c04_pivotF_lines (p0 : Point K) (cross : K) : ∀ e ∈ c04_pivotF p0 cross, c04_isLine e = true := by
  unfold c04_pivotF
  intro e he
  split at he
  · cases he
  · split at he
    · rw [List.mem_singleton] at he; subst he; rfl
    · cases he
theorem c04_pivotB_lines (p0 : Point K) (cross : K) : ∀ e ∈ c04_pivotB p0 cross, c04_isLine e = true := by
  unfold c04_pivotB
  intro e he
  split at he
  · rw [List.mem_singleton] at he; subst he; rfl
  · cases he
theorem c04_miterF_lines (c : StrokeCtx K) (style : StrokeStyle K) (tan0 : Vec2 K) :
    ∀ e ∈ c04_miterF c style tan0, c04_isLine e = true := by
  unfold c04_miterF
  intro e he
  split at he
  · split at he
    · rw [List.mem_singleton] at he; subst he; rfl
    · cases he
  · cases he
theorem c04_miterB_lines (c : StrokeCtx K) (style : StrokeStyle K) (tan0 : Vec2 K) :
    ∀ e ∈ c04_miterB c style tan0, c04_isLine e = true := by
  unfold c04_miterB
  intro e he
  split at he
  · split at he
    · cases he
    · split at he
      · rw [List.mem_singleton] at he; subst he; rfl
      · cases he
  · cases he

theorem c04_joinApp_segs (c : StrokeCtx K) (style : StrokeStyle K) (tan0 : Vec2 K) :
    c04_Segs (c04_joinApp c style tan0).1 ∧ c04_Segs (c04_joinApp c style tan0).2 := by
  have pf := c04_Segs_of_lines (c04_pivotF_lines c.last_pt (c.last_tan.cross tan0))
  have pb := c04_Segs_of_lines (c04_pivotB_lines c.last_pt (c.last_tan.cross tan0))
  have mf := c04_Segs_of_lines (c04_miterF_lines c style tan0)
  have mb := c04_Segs_of_lines (c04_miterB_lines c style tan0)
  unfold c04_joinApp
  simp only []
  split
  · split
    · exact ⟨c04_Segs_append pf (c04_Segs_line _), c04_Segs_append pb (c04_Segs_line _)⟩
    · split
      · exact ⟨c04_Segs_append mf (c04_Segs_append pf (c04_Segs_line _)),
          c04_Segs_append mb (c04_Segs_append pb (c04_Segs_line _))⟩
      · split
        · exact ⟨c04_Segs_append pf (c04_Segs_of_curves (c04_roundJoin_curves _ _ _ _)), c04_Segs_append pb (c04_Segs_line _)⟩
        · exact ⟨c04_Segs_append pf (c04_Segs_line _), c04_Segs_append pb (c04_Segs_of_curves (c04_roundJoinRev_curves _ _ _ _))⟩
  · exact ⟨c04_Segs_nil, c04_Segs_nil⟩

/-- with bevel or miter joins only `LineTo`s are appended -/
theorem c04_joinApp_lines (c : StrokeCtx K) (style : StrokeStyle K) (tan0 : Vec2 K) (hj : style.join = 0 ∨ style.join = 1) :
    (∀ e ∈ (c04_joinApp c style tan0).1, c04_isLine e = true) ∧ (∀ e ∈ (c04_joinApp c style tan0).2, c04_isLine e = true) := by
  have pf := c04_pivotF_lines c.last_pt (c.last_tan.cross tan0)
  have pb := c04_pivotB_lines c.last_pt (c.last_tan.cross tan0)
  have mf := c04_miterF_lines c style tan0
  have mb := c04_miterB_lines c style tan0
  have single : ∀ p : Point K, ∀ e ∈ [PathEl.LineTo p], c04_isLine e = true := by
    intro p e he; rw [List.mem_singleton] at he; subst he; rfl
  have app : ∀ {a b : List (PathEl K)}, (∀ e ∈ a, c04_isLine e = true) → (∀ e ∈ b, c04_isLine e = true) →
      ∀ e ∈ a ++ b, c04_isLine e = true := by
    intro a b ha hb e he
    rcases List.mem_append.1 he with h | h
    · exact ha e h
    · exact hb e h
  unfold c04_joinApp
  simp only []
  split
  · split
    · exact ⟨app pf (single _), app pb (single _)⟩
    · split
      · exact ⟨app mf (app pf (single _)), app mb (app pb (single _))⟩
      · rename_i h0 h1
        rcases hj with h | h
        · exact absurd h h0
        · exact absurd h h1
  · exact ⟨fun e h => (nomatch h), fun e h => (nomatch h)⟩

/-- bevel join: pivot on the inner side, then the new offset points -/
theorem c04_joinApp_bevel (c : StrokeCtx K) (style : StrokeStyle K) (tan0 : Vec2 K) (hj : style.join = 0)
    (ht : c04_joinTest c tan0 = true) :
    c04_joinApp c style tan0 =
      (c04_pivotF c.last_pt (c.last_tan.cross tan0) ++ [.LineTo (c.last_pt - c04_norm style.width tan0)],
       c04_pivotB c.last_pt (c.last_tan.cross tan0) ++ [.LineTo (c.last_pt + c04_norm style.width tan0)]) := by
  simp only [c04_joinApp, ht, hj, if_true]

/-- miter join: the miter point (if within the limit) on the outer side, pivot on the inner side, then the new offset points -/
theorem c04_joinApp_miter (c : StrokeCtx K) (style : StrokeStyle K) (tan0 : Vec2 K) (hj : style.join = 1)
    (ht : c04_joinTest c tan0 = true) :
    c04_joinApp c style tan0 =
      (c04_miterF c style tan0 ++ (c04_pivotF c.last_pt (c.last_tan.cross tan0) ++ [.LineTo (c.last_pt - c04_norm style.width tan0)]),
       c04_miterB c style tan0 ++ (c04_pivotB c.last_pt (c.last_tan.cross tan0) ++ [.LineTo (c.last_pt + c04_norm style.width tan0)])) := by
  simp only [c04_joinApp, ht, hj, if_true, Nat.succ_ne_zero, if_false]

/-- no join (the tangents are nearly parallel): nothing is appended -/
theorem c04_joinApp_skip (c : StrokeCtx K) (style : StrokeStyle K) (tan0 : Vec2 K) (ht : c04_joinTest c tan0 = false) :
    c04_joinApp c style tan0 = ([], []) := by
  simp only [c04_joinApp, ht, Bool.false_eq_true, if_false]

/-- every element `do_join` appends with a bevel or miter join is a pivot, a miter point or one of the two new offset points -/
theorem c04_joinApp_forall (P : PathEl K → Prop) (c : StrokeCtx K) (style : StrokeStyle K) (tan0 : Vec2 K)
    (hj : style.join = 0 ∨ style.join = 1)
    (hpf : ∀ e ∈ c04_pivotF c.last_pt (c.last_tan.cross tan0), P e) (hpb : ∀ e ∈ c04_pivotB c.last_pt (c.last_tan.cross tan0), P e)
    (hmf : style.join = 1 → ∀ e ∈ c04_miterF c style tan0, P e) (hmb : style.join = 1 → ∀ e ∈ c04_miterB c style tan0, P e)
    (hf : P (.LineTo (c.last_pt - c04_norm style.width tan0))) (hb : P (.LineTo (c.last_pt + c04_norm style.width tan0))) :
    (∀ e ∈ (c04_joinApp c style tan0).1, P e) ∧ (∀ e ∈ (c04_joinApp c style tan0).2, P e) := by
  have single : ∀ x : PathEl K, P x → ∀ e ∈ [x], P e := by
    intro x hx e he; rw [List.mem_singleton] at he; subst he; exact hx
  have app : ∀ {a b : List (PathEl K)}, (∀ e ∈ a, P e) → (∀ e ∈ b, P e) → ∀ e ∈ a ++ b, P e := by
    intro a b ha hb e he
    rcases List.mem_append.1 he with h | h
    · exact ha e h
    · exact hb e h
  unfold c04_joinApp
  simp only []
  split
  · split
    · exact ⟨app hpf (single _ hf), app hpb (single _ hb)⟩
    · split
      · rename_i h1
        exact ⟨app (hmf h1) (app hpf (single _ hf)), app (hmb h1) (app hpb (single _ hb))⟩
      · rename_i h0 h1
        rcases hj with h | h
        · exact absurd h h0
        · exact absurd h h1
  · exact ⟨fun e h => (nomatch h), fun e h => (nomatch h)⟩

theorem c04_pivotF_mem {p0 : Point K} {cross : K} {e : PathEl K} (he : e ∈ c04_pivotF p0 cross) : e = .LineTo p0 := by
  unfold c04_pivotF at he
  split at he
  · cases he
  · split at he
    · exact List.mem_singleton.1 he
    · cases he
theorem c04_pivotB_mem {p0 : Point K} {cross : K} {e : PathEl K} (he : e ∈ c04_pivotB p0 cross) : e = .LineTo p0 := by
  unfold c04_pivotB at he
  split at he
  · exact List.mem_singleton.1 he
  · cases he

open Ops in
theorem c04_miterF_mem {c : StrokeCtx K} {style : StrokeStyle K} {tan0 : Vec2 K} {e : PathEl K} (he : e ∈ c04_miterF c style tan0) :
    e = .LineTo (c04_miterPtF style.width c.last_pt c.last_tan tan0) ∧ c04_miterTest c style tan0 = true ∧
      ((0 : K) <. c.last_tan.cross tan0) = true := by
  unfold c04_miterF at he
  split at he
  · split at he
    · exact ⟨List.mem_singleton.1 he, ‹_›, ‹_›⟩
    · cases he
  · cases he

open Ops in
theorem c04_miterB_mem {c : StrokeCtx K} {style : StrokeStyle K} {tan0 : Vec2 K} {e : PathEl K} (he : e ∈ c04_miterB c style tan0) :
    e = .LineTo (c04_miterPtB style.width c.last_pt c.last_tan tan0) ∧ c04_miterTest c style tan0 = true ∧
      (c.last_tan.cross tan0 <. (0 : K)) = true := by
  unfold c04_miterB at he
  split at he
  · split at he
    · cases he
    · split at he
      · exact ⟨List.mem_singleton.1 he, ‹_›, ‹_›⟩
      · cases he
  · cases he

end Kurbo
