import Kurbo.PathMut
/-! C07M: vocabulary and helper lemmas for `Proofs/C07M.lean` – the list function each `BezPath` mutator computes (`mutSpec`), the
    values the `pop`s of a history return (`popValues`), the invariant `BezPath::from_vec` / `push` assert (`PathInv`), the classes of
    builder steps. -/
set_option linter.unusedSectionVars false
namespace Kurbo
variable {K : Type} [Scalar K]

/-- the "obvious list function" of a builder step -/
def mutSpec (s : List (PathEl K)) : MutOp K → List (PathEl K)
  | .new => []
  | .with_capacity _ => []
  | .from_vec v => v
  | .push el => s ++ [el]
  | .pop => s.dropLast
  | .truncate n => s.take n
  | .extend els => s ++ els
  | .move_to p => s ++ [.MoveTo p]
  | .line_to p => s ++ [.LineTo p]
  | .quad_to p1 p2 => s ++ [.QuadTo p1 p2]
  | .curve_to p1 p2 p3 => s ++ [.CurveTo p1 p2 p3]
  | .close_path => s ++ [.ClosePath]
  | .apply_affine a => s.map (fun el => a * el)

/-- the values returned by the `pop`s of a history run on `s` under the list semantics -/
def popValues (s : List (PathEl K)) : List (MutOp K) → List (Option (PathEl K))
  | [] => []
  | .pop :: ops => s.getLast? :: popValues s.dropLast ops
  | op :: ops => popValues (mutSpec s op) ops

/-- the invariant asserted by `from_vec` and `push`: empty, or the first element is a `MoveTo` -/
def PathInv (s : List (PathEl K)) : Prop := s = [] ∨ BezPath.firstIsMoveTo s = true

instance (s : List (PathEl K)) : Decidable (PathInv s) := inferInstanceAs (Decidable (_ ∨ _))

/-- the element a drawing method (`move_to`, `line_to`, `quad_to`, `curve_to`, `close_path`) or `push` appends -/
def MutOp.appended : MutOp K → Option (PathEl K)
  | .push el => some el
  | .move_to p => some (.MoveTo p)
  | .line_to p => some (.LineTo p)
  | .quad_to p1 p2 => some (.QuadTo p1 p2)
  | .curve_to p1 p2 p3 => some (.CurveTo p1 p2 p3)
  | .close_path => some .ClosePath
  | _ => none

/-- the five drawing methods -/
def MutOp.isDrawing : MutOp K → Bool
  | .move_to _ | .line_to _ | .quad_to _ _ | .curve_to _ _ _ | .close_path => true
  | _ => false

/-- steps that keep a non-empty path non-empty: the drawing methods, `push`, `extend`, `apply_affine` -/
def MutOp.isGrowing : MutOp K → Bool
  | .move_to _ | .line_to _ | .quad_to _ _ | .curve_to _ _ _ | .close_path | .push _ | .extend _ | .apply_affine _ => true
  | _ => false

/-- the steps that assert `!self.0.is_empty()` before pushing -/
def MutOp.needsNonEmpty : MutOp K → Bool
  | .line_to _ | .quad_to _ _ | .curve_to _ _ _ | .close_path => true
  | _ => false

theorem firstIsMoveTo_append {s : List (PathEl K)} (h : BezPath.firstIsMoveTo s = true) (t : List (PathEl K)) :
    BezPath.firstIsMoveTo (s ++ t) = true := by
  cases s with
  | nil => cases h
  | cons e r => cases e <;> first | rfl | cases h

theorem firstIsMoveTo_ne_nil {s : List (PathEl K)} (h : BezPath.firstIsMoveTo s = true) : s ≠ [] := by
  intro hs; rw [hs] at h; cases h

theorem firstIsMoveTo_singleton (el : PathEl K) : BezPath.firstIsMoveTo [el] = (match el with | .MoveTo _ => true | _ => false) := by
  cases el <;> rfl

theorem firstIsMoveTo_append_of_ne_nil {s : List (PathEl K)} (h : s ≠ []) (t : List (PathEl K)) :
    BezPath.firstIsMoveTo (s ++ t) = BezPath.firstIsMoveTo s := by
  cases s with
  | nil => exact absurd rfl h
  | cons e r => cases e <;> rfl

theorem firstIsMoveTo_map (a : Affine K) (s : List (PathEl K)) :
    BezPath.firstIsMoveTo (s.map (fun el => a * el)) = BezPath.firstIsMoveTo s := by
  cases s with
  | nil => rfl
  | cons e r => cases e <;> rfl

theorem firstIsMoveTo_take {s : List (PathEl K)} (h : BezPath.firstIsMoveTo s = true) (n : Nat) :
    n = 0 ∨ BezPath.firstIsMoveTo (s.take n) = true := by
  cases n with
  | zero => exact .inl rfl
  | succ n =>
    right
    cases s with
    | nil => cases h
    | cons e r => cases e <;> first | rfl | cases h

/-- `push` in terms of the state: it panics exactly when the new vector does not start with a `MoveTo` -/
theorem push_eq (s : BezPath K) (el : PathEl K) :
    s.push el = if BezPath.firstIsMoveTo (s ++ [el]) then .ok (s ++ [el]) else .panic .mustBeginWithMoveTo := rfl

theorem push_ok_of_first {s : BezPath K} (h : BezPath.firstIsMoveTo s = true) (el : PathEl K) : s.push el = .ok (s ++ [el]) := by
  rw [push_eq, firstIsMoveTo_append h]; rfl

/-- a step that does not panic computes `mutSpec`, and returns a value exactly for `pop` -/
theorem mutStep_ok {s s' : BezPath K} {op : MutOp K} {out : Option (Option (PathEl K))} (h : mutStep s op = .ok (s', out)) :
    s' = mutSpec s op ∧ out = (match op with | .pop => some s.getLast? | _ => none) := by
  have hpush : ∀ (el : PathEl K) (q : BezPath K), s.push el = .ok q → q = s ++ [el] := by
    intro el q hq
    rw [push_eq] at hq
    split at hq
    · injection hq with hq; exact hq.symm
    · cases hq
  cases op with
  | new => simp only [mutStep, MutRes.ok.injEq, Prod.mk.injEq] at h; exact ⟨h.1.symm, h.2.symm⟩
  | with_capacity n => simp only [mutStep, MutRes.ok.injEq, Prod.mk.injEq] at h; exact ⟨h.1.symm, h.2.symm⟩
  | from_vec v =>
    simp only [mutStep, BezPath.from_vec] at h
    split at h
    · rename_i p hp
      split at hp
      · injection hp with hp; injection h with h; injection h with h1 h2; exact ⟨by rw [← h1, ← hp]; rfl, h2.symm⟩
      · cases hp
    · cases h
  | push el =>
    simp only [mutStep] at h
    split at h
    · rename_i p hp; injection h with h; injection h with h1 h2; exact ⟨by rw [← h1]; exact hpush el p hp, h2.symm⟩
    · cases h
  | pop => simp only [mutStep, BezPath.pop, MutRes.ok.injEq, Prod.mk.injEq] at h; exact ⟨h.1.symm, h.2.symm⟩
  | truncate n => simp only [mutStep, MutRes.ok.injEq, Prod.mk.injEq] at h; exact ⟨h.1.symm, h.2.symm⟩
  | extend els => simp only [mutStep, MutRes.ok.injEq, Prod.mk.injEq] at h; exact ⟨h.1.symm, h.2.symm⟩
  | move_to p =>
    simp only [mutStep, BezPath.move_to] at h
    split at h
    · rename_i q hq; injection h with h; injection h with h1 h2; exact ⟨by rw [← h1]; exact hpush _ q hq, h2.symm⟩
    · cases h
  | line_to p =>
    simp only [mutStep, BezPath.line_to] at h
    split at h
    · rename_i q hq
      split at hq
      · cases hq
      · injection h with h; injection h with h1 h2; exact ⟨by rw [← h1]; exact hpush _ q hq, h2.symm⟩
    · cases h
  | quad_to p1 p2 =>
    simp only [mutStep, BezPath.quad_to] at h
    split at h
    · rename_i q hq
      split at hq
      · cases hq
      · injection h with h; injection h with h1 h2; exact ⟨by rw [← h1]; exact hpush _ q hq, h2.symm⟩
    · cases h
  | curve_to p1 p2 p3 =>
    simp only [mutStep, BezPath.curve_to] at h
    split at h
    · rename_i q hq
      split at hq
      · cases hq
      · injection h with h; injection h with h1 h2; exact ⟨by rw [← h1]; exact hpush _ q hq, h2.symm⟩
    · cases h
  | close_path =>
    simp only [mutStep, BezPath.close_path] at h
    split at h
    · rename_i q hq
      split at hq
      · cases hq
      · injection h with h; injection h with h1 h2; exact ⟨by rw [← h1]; exact hpush _ q hq, h2.symm⟩
    · cases h
  | apply_affine a => simp only [mutStep, MutRes.ok.injEq, Prod.mk.injEq] at h; exact ⟨h.1.symm, h.2.symm⟩

/-- the value a step contributes to the list of popped values -/
def popOut (out : Option (Option (PathEl K))) : List (Option (PathEl K)) :=
  match out with
  | some r => [r]
  | none => []

/-- `mutRun` unfolded by one successful step -/
theorem mutRun_cons_ok {s p : BezPath K} {op : MutOp K} {out : Option (Option (PathEl K))} (ops : List (MutOp K))
    (h : mutStep s op = .ok (p, out)) :
    mutRun s (op :: ops) = (match mutRun p ops with
      | .panic m => .panic m
      | .ok (q, outs) => .ok (q, popOut out ++ outs)) := by
  cases out <;> simp only [mutRun, h, popOut] <;> cases mutRun p ops <;> rfl

theorem mutRun_cons_panic {s : BezPath K} {op : MutOp K} {m : PanicMsg} (ops : List (MutOp K)) (h : mutStep s op = .panic m) :
    mutRun s (op :: ops) = .panic m := by
  simp only [mutRun, h]

/-- a growing step on a path that starts with a `MoveTo` does not panic, and the path still starts with a `MoveTo` -/
theorem mutStep_growing {s : BezPath K} (hs : BezPath.firstIsMoveTo s = true) (op : MutOp K) (hop : op.isGrowing = true) :
    mutStep s op = .ok (mutSpec s op, none) ∧ BezPath.firstIsMoveTo (mutSpec s op) = true := by
  have hne : s.isEmpty = false := by
    cases s with
    | nil => cases hs
    | cons e r => rfl
  cases op <;> first
    | (simp only [MutOp.isGrowing, Bool.false_eq_true] at hop; done)
    | (refine ⟨?_, ?_⟩
       · simp only [mutStep, BezPath.move_to, BezPath.line_to, BezPath.quad_to, BezPath.curve_to, BezPath.close_path, hne,
           Bool.false_eq_true, if_false, push_ok_of_first hs, mutSpec, BezPath.extend, BezPath.apply_affine]
       · simp only [mutSpec, firstIsMoveTo_append hs, firstIsMoveTo_map, hs])

end Kurbo
