import Proofs.Lemmas.C16B
/-! C16B: facts about the meaning `c16b_run` that do not involve the parser: the number of path elements (`c16b_run_length`),
    absolute forms (`c16b_absolutize`) and normal forms (`c16b_normalize`: absolute `M L Q C Z` only) have the same path. -/
set_option linter.unusedSectionVars false
namespace Kurbo

/-! ### number of elements -/

/-- number of path elements a command list produces: one per command, plus the implicit `MoveTo` that every non-move command
    directly after a `Z` flushes (`pending` = such a `MoveTo` is pending at the start) -/
def c16b_elemCount {α : Type} (pending : Bool) : List (C16Cmd α) → Nat
  | [] => 0
  | c :: cs => (if pending && !c.isMove then 2 else 1) + c16b_elemCount c.isClose cs

theorem c16b_elemCount_bounds {α : Type} (pending : Bool) (cs : List (C16Cmd α)) :
    cs.length ≤ c16b_elemCount pending cs ∧ c16b_elemCount pending cs ≤ 2 * cs.length := by
  induction cs generalizing pending with
  | nil => simp [c16b_elemCount]
  | cons c cs ih =>
    have := ih c.isClose
    simp only [c16b_elemCount, List.length_cons]
    split <;> omega

/-- every `Z` is followed by an `M` or by the end -/
def c16b_closeThenMove {α : Type} : List (C16Cmd α) → Prop
  | [] => True
  | [_] => True
  | c :: d :: cs => (c.isClose = true → d.isMove = true) ∧ c16b_closeThenMove (d :: cs)

theorem c16b_elemCount_of_closeThenMove {α : Type} (pending : Bool) (cs : List (C16Cmd α)) (h : c16b_closeThenMove cs)
    (hp : pending = true → c16b_startsWithMove cs) : c16b_elemCount pending cs = cs.length := by
  induction cs generalizing pending with
  | nil => rfl
  | cons c cs ih =>
    have h1 : (pending && !c.isMove) = false := by
      cases pending with
      | false => rfl
      | true => have : c.isMove = true := hp rfl; simp [this]
    simp only [c16b_elemCount, h1, List.length_cons]
    cases cs with
    | nil => simp [c16b_elemCount]
    | cons d cs =>
      rw [ih c.isClose h.2 (fun hc => h.1 hc)]
      simp only [List.length_cons, Bool.false_eq_true, if_false]; omega

section
variable {K : Type} [Scalar K]

theorem c16b_flushed_path_length (st : SvgSt K) :
    st.flushed.path.length = st.path.length + (if st.implicit_moveto.isSome then 1 else 0) := by
  rw [SvgSt.flushed_path]
  cases st.implicit_moveto <;> simp

theorem c16b_interp_length (st : SvgSt K) (c : C16Cmd K) :
    (c16b_interp st c).path.length =
      st.path.length + (if st.implicit_moveto.isSome && !c.isMove then 2 else 1) ∧
    (c16b_interp st c).implicit_moveto.isSome = c.isClose := by
  cases c <;>
    simp only [c16b_interp, C16Cmd.isMove, C16Cmd.isClose, List.length_append, List.length_cons, List.length_nil,
      c16b_flushed_path_length, SvgSt.flushed_implicit_moveto, Option.isSome_none, Option.isSome_some, Bool.not_true,
      Bool.not_false, Bool.and_false, Bool.and_true, Bool.false_eq_true, if_false, and_true] <;>
    cases st.implicit_moveto <;> simp

theorem c16b_run_length (st : SvgSt K) (cs : List (C16Cmd K)) :
    (c16b_run st cs).path.length = st.path.length + c16b_elemCount st.implicit_moveto.isSome cs := by
  induction cs generalizing st with
  | nil => simp [c16b_elemCount]
  | cons c cs ih =>
    rw [c16b_run_cons, ih, (c16b_interp_length st c).1, (c16b_interp_length st c).2]
    simp only [c16b_elemCount]; omega

/-! ### states that differ only in the case / kind of the remembered command -/

/-- `last_cmd` is one of `Q q T t` (the test of the `t` arm) -/
def c16b_quadish (c : UInt8) : Bool := c == 113 || c == 81 || c == 116 || c == 84
/-- `last_cmd` is one of `C c S s` (the test of the `s` arm) -/
def c16b_cubicish (c : UInt8) : Bool := c == 99 || c == 67 || c == 115 || c == 83

/-- the two states agree on everything the later commands and the result depend on: all fields but `last_cmd`, and of
    `last_cmd` whether it is a quadratic / a cubic command -/
structure c16b_StEq (a b : SvgSt K) : Prop where
  path : a.path = b.path
  last_ctrl : a.last_ctrl = b.last_ctrl
  first_pt : a.first_pt = b.first_pt
  implicit_moveto : a.implicit_moveto = b.implicit_moveto
  last_pt : a.last_pt = b.last_pt
  quadish : c16b_quadish a.last_cmd = c16b_quadish b.last_cmd
  cubicish : c16b_cubicish a.last_cmd = c16b_cubicish b.last_cmd

theorem c16b_StEq.refl (a : SvgSt K) : c16b_StEq a a := ⟨rfl, rfl, rfl, rfl, rfl, rfl, rfl⟩
theorem c16b_StEq.symm {a b : SvgSt K} (h : c16b_StEq a b) : c16b_StEq b a :=
  ⟨h.path.symm, h.last_ctrl.symm, h.first_pt.symm, h.implicit_moveto.symm, h.last_pt.symm, h.quadish.symm, h.cubicish.symm⟩
theorem c16b_StEq.trans {a b c : SvgSt K} (h : c16b_StEq a b) (h' : c16b_StEq b c) : c16b_StEq a c :=
  ⟨h.path.trans h'.path, h.last_ctrl.trans h'.last_ctrl, h.first_pt.trans h'.first_pt,
    h.implicit_moveto.trans h'.implicit_moveto, h.last_pt.trans h'.last_pt, h.quadish.trans h'.quadish,
    h.cubicish.trans h'.cubicish⟩

theorem c16b_StEq.flushed_path {a b : SvgSt K} (h : c16b_StEq a b) : a.flushed.path = b.flushed.path := by
  rw [SvgSt.flushed_path, SvgSt.flushed_path, h.path, h.implicit_moveto]

theorem c16b_smoothQuadCtrl_eq (st : SvgSt K) : st.flushed.smoothQuadCtrl =
    match st.last_ctrl with
    | some ctrl => if c16b_quadish st.last_cmd then reflectCtrl st.last_pt ctrl else st.last_pt
    | none => st.last_pt := by
  unfold SvgSt.smoothQuadCtrl
  simp only [SvgSt.flushed_last_ctrl, SvgSt.flushed_last_cmd, SvgSt.flushed_last_pt]
  rfl

theorem c16b_smoothCubicCtrl_eq (st : SvgSt K) : st.flushed.smoothCubicCtrl =
    match st.last_ctrl with
    | some ctrl => if c16b_cubicish st.last_cmd then reflectCtrl st.last_pt ctrl else st.last_pt
    | none => st.last_pt := by
  unfold SvgSt.smoothCubicCtrl
  simp only [SvgSt.flushed_last_ctrl, SvgSt.flushed_last_cmd, SvgSt.flushed_last_pt]
  rfl

theorem c16b_StEq.smoothQuadCtrl {a b : SvgSt K} (h : c16b_StEq a b) :
    a.flushed.smoothQuadCtrl = b.flushed.smoothQuadCtrl := by
  rw [c16b_smoothQuadCtrl_eq, c16b_smoothQuadCtrl_eq, h.last_ctrl, h.quadish, h.last_pt]

theorem c16b_StEq.smoothCubicCtrl {a b : SvgSt K} (h : c16b_StEq a b) :
    a.flushed.smoothCubicCtrl = b.flushed.smoothCubicCtrl := by
  rw [c16b_smoothCubicCtrl_eq, c16b_smoothCubicCtrl_eq, h.last_ctrl, h.cubicish, h.last_pt]

/-! ### absolute form and normal form of a command -/

/-- the same command with an upper-case letter and absolute coordinates, in the state `st` -/
def c16b_absCmd (st : SvgSt K) : C16Cmd K → C16Cmd K
  | .moveTo rel p => .moveTo false (c16b_pt rel st.last_pt p)
  | .lineTo rel p => .lineTo false (c16b_pt rel st.last_pt p)
  | .horiz rel x => .horiz false (if rel then Scalar.add x st.last_pt.x else x)
  | .vert rel y => .vert false (if rel then Scalar.add y st.last_pt.y else y)
  | .quadTo rel p1 p2 => .quadTo false (c16b_pt rel st.last_pt p1) (c16b_pt rel st.last_pt p2)
  | .smoothQuadTo rel p => .smoothQuadTo false (c16b_pt rel st.last_pt p)
  | .curveTo rel p1 p2 p3 => .curveTo false (c16b_pt rel st.last_pt p1) (c16b_pt rel st.last_pt p2) (c16b_pt rel st.last_pt p3)
  | .smoothCurveTo rel p2 p3 => .smoothCurveTo false (c16b_pt rel st.last_pt p2) (c16b_pt rel st.last_pt p3)
  | .close _ => .close false

/-- the normal form of a command in the state `st`: one of the absolute `M L Q C Z` – `H`/`V` become `L`, `T` becomes `Q` and
    `S` becomes `C` with the control point the parser computes -/
def c16b_normCmd (st : SvgSt K) : C16Cmd K → C16Cmd K
  | .moveTo rel p => .moveTo false (c16b_pt rel st.last_pt p)
  | .lineTo rel p => .lineTo false (c16b_pt rel st.last_pt p)
  | .horiz rel x => .lineTo false ⟨if rel then Scalar.add x st.last_pt.x else x, st.last_pt.y⟩
  | .vert rel y => .lineTo false ⟨st.last_pt.x, if rel then Scalar.add y st.last_pt.y else y⟩
  | .quadTo rel p1 p2 => .quadTo false (c16b_pt rel st.last_pt p1) (c16b_pt rel st.last_pt p2)
  | .smoothQuadTo rel p => .quadTo false st.flushed.smoothQuadCtrl (c16b_pt rel st.last_pt p)
  | .curveTo rel p1 p2 p3 => .curveTo false (c16b_pt rel st.last_pt p1) (c16b_pt rel st.last_pt p2) (c16b_pt rel st.last_pt p3)
  | .smoothCurveTo rel p2 p3 =>
    .curveTo false st.flushed.smoothCubicCtrl (c16b_pt rel st.last_pt p2) (c16b_pt rel st.last_pt p3)
  | .close _ => .close false

/-- thread the state through the list and replace every command by its absolute form -/
def c16b_absolutize (st : SvgSt K) : List (C16Cmd K) → List (C16Cmd K)
  | [] => []
  | c :: cs => c16b_absCmd st c :: c16b_absolutize (c16b_interp st c) cs

/-- thread the state through the list and replace every command by its normal form -/
def c16b_normalize (st : SvgSt K) : List (C16Cmd K) → List (C16Cmd K)
  | [] => []
  | c :: cs => c16b_normCmd st c :: c16b_normalize (c16b_interp st c) cs

@[simp] theorem c16b_pt_false (last p : Point K) : c16b_pt false last p = p := rfl

theorem c16b_interp_absCmd {a b : SvgSt K} (h : c16b_StEq a b) (c : C16Cmd K) :
    c16b_StEq (c16b_interp a c) (c16b_interp b (c16b_absCmd a c)) := by
  have hf := h.flushed_path
  cases c with
  | close rel =>
    constructor <;> simp only [c16b_interp, c16b_absCmd, hf, h.first_pt, SvgSt.flushed_first_pt, SvgSt.flushed_last_cmd,
      h.quadish, h.cubicish]
  | moveTo rel p =>
    constructor <;> (try cases rel) <;>
      simp [c16b_interp, c16b_absCmd, h.path, h.last_pt, c16b_quadish, c16b_cubicish]
  | smoothQuadTo rel p =>
    constructor <;> (try cases rel) <;>
      simp [c16b_interp, c16b_absCmd, hf, h.last_pt, h.first_pt, h.smoothQuadCtrl, c16b_quadish, c16b_cubicish]
  | smoothCurveTo rel p2 p3 =>
    constructor <;> (try cases rel) <;>
      simp [c16b_interp, c16b_absCmd, hf, h.last_pt, h.first_pt, h.smoothCubicCtrl, c16b_quadish, c16b_cubicish]
  | lineTo rel p =>
    constructor <;> (try cases rel) <;>
      simp [c16b_interp, c16b_absCmd, hf, h.last_pt, h.first_pt, c16b_quadish, c16b_cubicish]
  | horiz rel x =>
    constructor <;> (try cases rel) <;>
      simp [c16b_interp, c16b_absCmd, hf, h.last_pt, h.first_pt, c16b_quadish, c16b_cubicish]
  | vert rel y =>
    constructor <;> (try cases rel) <;>
      simp [c16b_interp, c16b_absCmd, hf, h.last_pt, h.first_pt, c16b_quadish, c16b_cubicish]
  | quadTo rel p1 p2 =>
    constructor <;> (try cases rel) <;>
      simp [c16b_interp, c16b_absCmd, hf, h.last_pt, h.first_pt, c16b_quadish, c16b_cubicish]
  | curveTo rel p1 p2 p3 =>
    constructor <;> (try cases rel) <;>
      simp [c16b_interp, c16b_absCmd, hf, h.last_pt, h.first_pt, c16b_quadish, c16b_cubicish]

theorem c16b_interp_normCmd {a b : SvgSt K} (h : c16b_StEq a b) (c : C16Cmd K) :
    c16b_StEq (c16b_interp a c) (c16b_interp b (c16b_normCmd a c)) := by
  have hf := h.flushed_path
  cases c with
  | close rel =>
    constructor <;> simp only [c16b_interp, c16b_normCmd, hf, h.first_pt, SvgSt.flushed_first_pt, SvgSt.flushed_last_cmd,
      h.quadish, h.cubicish]
  | moveTo rel p =>
    constructor <;> (try cases rel) <;>
      simp [c16b_interp, c16b_normCmd, h.path, h.last_pt, c16b_quadish, c16b_cubicish]
  | smoothQuadTo rel p =>
    constructor <;> (try cases rel) <;>
      simp [c16b_interp, c16b_normCmd, hf, h.last_pt, h.first_pt, c16b_quadish, c16b_cubicish]
  | smoothCurveTo rel p2 p3 =>
    constructor <;> (try cases rel) <;>
      simp [c16b_interp, c16b_normCmd, hf, h.last_pt, h.first_pt, c16b_quadish, c16b_cubicish]
  | lineTo rel p =>
    constructor <;> (try cases rel) <;>
      simp [c16b_interp, c16b_normCmd, hf, h.last_pt, h.first_pt, c16b_quadish, c16b_cubicish]
  | horiz rel x =>
    constructor <;> (try cases rel) <;>
      simp [c16b_interp, c16b_normCmd, hf, h.last_pt, h.first_pt, c16b_quadish, c16b_cubicish]
  | vert rel y =>
    constructor <;> (try cases rel) <;>
      simp [c16b_interp, c16b_normCmd, hf, h.last_pt, h.first_pt, c16b_quadish, c16b_cubicish]
  | quadTo rel p1 p2 =>
    constructor <;> (try cases rel) <;>
      simp [c16b_interp, c16b_normCmd, hf, h.last_pt, h.first_pt, c16b_quadish, c16b_cubicish]
  | curveTo rel p1 p2 p3 =>
    constructor <;> (try cases rel) <;>
      simp [c16b_interp, c16b_normCmd, hf, h.last_pt, h.first_pt, c16b_quadish, c16b_cubicish]

/-- interpreting the absolute forms (from an equivalent state) gives an equivalent state – in particular the same path -/
theorem c16b_run_absolutize {a b : SvgSt K} (h : c16b_StEq a b) (cs : List (C16Cmd K)) :
    c16b_StEq (c16b_run a cs) (c16b_run b (c16b_absolutize a cs)) := by
  induction cs generalizing a b with
  | nil => exact h
  | cons c cs ih => exact ih (c16b_interp_absCmd h c)

theorem c16b_run_normalize {a b : SvgSt K} (h : c16b_StEq a b) (cs : List (C16Cmd K)) :
    c16b_StEq (c16b_run a cs) (c16b_run b (c16b_normalize a cs)) := by
  induction cs generalizing a b with
  | nil => exact h
  | cons c cs ih => exact ih (c16b_interp_normCmd h c)

theorem c16b_absolutize_startsWithMove (st : SvgSt K) (cs : List (C16Cmd K)) (h : c16b_startsWithMove cs) :
    c16b_startsWithMove (c16b_absolutize st cs) := by
  cases cs with
  | nil => trivial
  | cons c cs => cases c <;> first | trivial | cases h

theorem c16b_normalize_startsWithMove (st : SvgSt K) (cs : List (C16Cmd K)) (h : c16b_startsWithMove cs) :
    c16b_startsWithMove (c16b_normalize st cs) := by
  cases cs with
  | nil => trivial
  | cons c cs => cases c <;> first | trivial | cases h

/-- a normal form uses absolute `M L Q C Z` only -/
def C16Cmd.isNormal {α : Type} : C16Cmd α → Bool
  | .moveTo false _ | .lineTo false _ | .quadTo false _ _ | .curveTo false _ _ _ | .close false => true
  | _ => false

theorem c16b_normalize_isNormal (st : SvgSt K) (cs : List (C16Cmd K)) : ∀ c ∈ c16b_normalize st cs, c.isNormal = true := by
  induction cs generalizing st with
  | nil => intro c hc; cases hc
  | cons d cs ih =>
    intro c hc
    simp only [c16b_normalize, List.mem_cons] at hc
    rcases hc with rfl | hc
    · cases d <;> rfl
    · exact ih _ c hc

end
end Kurbo
