import Proofs.Lemmas.C04Loop
/-! Helper definitions and lemmas for C04, part 4 (structure; any `[Scalar K]`, core Lean only): the context invariant, the
    contours emitted by `finish` / `finish_closed`. -/
set_option linter.unusedSectionVars false
set_option linter.unusedVariables false
namespace Kurbo
variable {K : Type} [Scalar K]

/-! ### the fields `do_join` leaves alone; `stepLine` written out -/

theorem c04_do_join_fields (c : StrokeCtx K) (style : StrokeStyle K) (t : Vec2 K) :
    (c.do_join style t).start_pt = c.start_pt ∧ (c.do_join style t).last_pt = c.last_pt ∧
    (c.do_join style t).output = c.output ∧ (c.do_join style t).join_thresh = c.join_thresh ∧
    (c.do_join style t).last_tan = c.last_tan := by
  by_cases he : c.forward_path = []
  · rw [c04_do_join_empty c style t he]; exact ⟨rfl, rfl, rfl, rfl, rfl⟩
  · rw [c04_do_join_nonempty c style t he]; exact ⟨rfl, rfl, rfl, rfl, rfl⟩

theorem c04_stepLine_empty (style : StrokeStyle K) (c : StrokeCtx K) (p1 : Point K) (he : c.forward_path = []) :
    c04_stepLine style c p1 = { c with
      forward_path := [.MoveTo (c.last_pt - c04_norm style.width (p1 - c.last_pt)), .LineTo (p1 - c04_norm style.width (p1 - c.last_pt))],
      backward_path := c.backward_path ++
        [.MoveTo (c.last_pt + c04_norm style.width (p1 - c.last_pt)), .LineTo (p1 + c04_norm style.width (p1 - c.last_pt))],
      start_tan := p1 - c.last_pt, start_norm := c04_norm style.width (p1 - c.last_pt),
      last_tan := p1 - c.last_pt, last_pt := p1 } := by
  unfold c04_stepLine
  simp only [c04_do_join_empty c style _ he, c04_do_line_eq, c04_ext, List.cons_append, List.nil_append, List.append_assoc]

theorem c04_stepLine_nonempty (style : StrokeStyle K) (c : StrokeCtx K) (p1 : Point K) (hne : c.forward_path ≠ []) :
    c04_stepLine style c p1 = { c with
      forward_path := c.forward_path ++
        ((c04_joinApp c style (p1 - c.last_pt)).1 ++ [.LineTo (p1 - c04_norm style.width (p1 - c.last_pt))]),
      backward_path := c.backward_path ++
        ((c04_joinApp c style (p1 - c.last_pt)).2 ++ [.LineTo (p1 + c04_norm style.width (p1 - c.last_pt))]),
      last_tan := p1 - c.last_pt, last_pt := p1 } := by
  unfold c04_stepLine
  simp only [c04_do_join_nonempty c style _ hne, c04_do_line_eq, c04_ext, List.append_assoc]

theorem c04_closePrep_eq (style : StrokeStyle K) (c : StrokeCtx K) :
    c04_closePrep style c = if !(c.last_pt.peq c.start_pt) then c04_stepLine style c c.start_pt else c := by
  unfold c04_closePrep c04_stepLine
  simp only []
  split
  · have h : ({ c.do_join style (c.start_pt - c.last_pt) with last_tan := c.start_pt - c.last_pt } : StrokeCtx K).start_pt
        = c.start_pt := (c04_do_join_fields c style _).1
    rw [h]
  · rfl

/-! ### the invariant -/

/-- `Point` equality test is sound (true of every lawful scalar; false of `Float`: `0.0 == -0.0`) -/
def c04_PeqSound (K : Type) [Scalar K] : Prop := ∀ a b : Point K, a.peq b = true → a = b

/-- invariant of the stroker context between two elements of a polyline source -/
structure C04Inv (c : StrokeCtx K) : Prop where
  /-- both paths empty, or both `MoveTo` followed by `LineTo`/`CurveTo` only -/
  shape : (c.forward_path = [] ∧ c.backward_path = []) ∨ (c04_PathOK c.forward_path ∧ c04_PathOK c.backward_path)
  /-- before the first segment of a sub-path the current point is the start point -/
  start_eq : c04_PeqSound K → c.forward_path = [] → c.last_pt = c.start_pt
  /-- the forward path starts at `start_pt - start_norm` -/
  head_f : c04_PeqSound K → ∀ q t, c.forward_path = PathEl.MoveTo q :: t → q = c.start_pt - c.start_norm
  /-- the backward path starts at `start_pt + start_norm` -/
  head_b : c04_PeqSound K → ∀ q t, c.backward_path = PathEl.MoveTo q :: t → q = c.start_pt + c.start_norm

theorem C04Inv.empty_iff {c : StrokeCtx K} (h : C04Inv c) : c.forward_path = [] → c.backward_path = [] := by
  intro he
  rcases h.shape with ⟨_, hb⟩ | ⟨hf, _⟩
  · exact hb
  · exact absurd he (c04_PathOK_ne_nil hf)

theorem C04Inv.ok_of_ne {c : StrokeCtx K} (h : C04Inv c) (hne : c.forward_path ≠ []) :
    c04_PathOK c.forward_path ∧ c04_PathOK c.backward_path := by
  rcases h.shape with ⟨hf, _⟩ | h2
  · exact absurd hf hne
  · exact h2

theorem c04_stepLine_inv (style : StrokeStyle K) (c : StrokeCtx K) (p1 : Point K) (h : C04Inv c) :
    C04Inv (c04_stepLine style c p1) ∧ (c04_stepLine style c p1).forward_path ≠ [] ∧
    (c04_stepLine style c p1).output = c.output ∧ (c04_stepLine style c p1).start_pt = c.start_pt ∧
    (c04_stepLine style c p1).last_pt = p1 := by
  by_cases he : c.forward_path = []
  · have hb := h.empty_iff he
    rw [c04_stepLine_empty style c p1 he]
    refine ⟨⟨?_, ?_, ?_, ?_⟩, ?_, rfl, rfl, rfl⟩
    · right
      simp only [hb, List.nil_append]
      exact ⟨⟨_, _, rfl, c04_Segs_line _⟩, ⟨_, _, rfl, c04_Segs_line _⟩⟩
    · intro _ h0; cases h0
    · intro hs q t hq
      simp only [List.cons.injEq, PathEl.MoveTo.injEq] at hq
      rw [← hq.1, h.start_eq hs he]
    · intro hs q t hq
      simp only [hb, List.nil_append, List.cons.injEq, PathEl.MoveTo.injEq] at hq
      rw [← hq.1, h.start_eq hs he]
    · exact List.cons_ne_nil _ _
  · obtain ⟨hf, hb⟩ := h.ok_of_ne he
    have hs := c04_joinApp_segs c style (p1 - c.last_pt)
    rw [c04_stepLine_nonempty style c p1 he]
    refine ⟨⟨?_, ?_, ?_, ?_⟩, ?_, rfl, rfl, rfl⟩
    · right
      exact ⟨c04_PathOK_append hf (c04_Segs_append hs.1 (c04_Segs_line _)),
        c04_PathOK_append hb (c04_Segs_append hs.2 (c04_Segs_line _))⟩
    · intro _ h0
      exact absurd (List.append_eq_nil_iff.1 h0).1 he
    · intro hps q t hq
      obtain ⟨q0, t0, e0, _⟩ := hf
      have := h.head_f hps q0 t0 e0
      simp only [e0, List.cons_append, List.cons.injEq, PathEl.MoveTo.injEq] at hq
      rw [← hq.1]; exact this
    · intro hps q t hq
      obtain ⟨q0, t0, e0, _⟩ := hb
      have := h.head_b hps q0 t0 e0
      simp only [e0, List.cons_append, List.cons.injEq, PathEl.MoveTo.injEq] at hq
      rw [← hq.1]; exact this
    · intro h0
      exact absurd (List.append_eq_nil_iff.1 h0).1 he

/-! ### contours -/

/-- a closed contour: `MoveTo`, drawing elements, one `ClosePath` at the end -/
def c04_ClosedContour (l : List (PathEl K)) : Prop :=
  ∃ p mid, l = PathEl.MoveTo p :: (mid ++ [PathEl.ClosePath]) ∧ c04_Segs mid

/-- a contour that ends with a round start cap (the crate emits no `ClosePath` there): `MoveTo q`, drawing elements, then the
    `CurveTo`s of `round_cap s n`; `q = s - n` when point equality is sound -/
def c04_RoundContour (l : List (PathEl K)) : Prop :=
  ∃ q tol s n mid, l = PathEl.MoveTo q :: (mid ++ roundCap tol s n) ∧ c04_Segs mid ∧ (c04_PeqSound K → q = s - n)

/-- what the stroker emits: closed contours, and with a round start cap also round-ended contours -/
def c04_Good (style : StrokeStyle K) (x : List (PathEl K)) : Prop :=
  c04_ClosedContour x ∨ (style.start_cap = 2 ∧ c04_RoundContour x)

theorem c04_squareCap_false_lines (s : Point K) (n : Vec2 K) : ∀ e ∈ squareCap false s n, c04_isLine e = true := by
  intro e he
  simp only [squareCap, Bool.false_eq_true, if_false, List.cons_append, List.nil_append, List.mem_cons,
    List.not_mem_nil, or_false] at he
  rcases he with rfl | rfl | rfl <;> rfl

theorem c04_endCap_segs (tol : K) (style : StrokeStyle K) (lp rp : Point K) : c04_Segs (c04_endCap tol style lp rp) := by
  unfold c04_endCap
  split
  · exact c04_Segs_line _
  · exact c04_Segs_of_curves (c04_roundCap_curves _ _ _)
  · exact c04_Segs_of_lines (c04_squareCap_false_lines _ _)

open Ops in
theorem c04_startCap_closed (tol : K) (style : StrokeStyle K) (s : Point K) (n : Vec2 K) (h : style.start_cap ≠ 2) :
    ∃ m, c04_Segs m ∧ m.length ≤ 2 ∧ c04_startCap tol style s n = m ++ [PathEl.ClosePath] := by
  unfold c04_startCap
  split
  · exact ⟨[], c04_Segs_nil, by simp, rfl⟩
  · rename_i h2; exact absurd h2 h
  · refine ⟨[.LineTo (Affine.new n.x n.y (-n.y) n.x s.x s.y * (⟨1, 1⟩ : Point K)),
        .LineTo (Affine.new n.x n.y (-n.y) n.x s.x s.y * (⟨-(1 : K), 1⟩ : Point K))], ?_, ?_,
        by simp only [squareCap, if_true]⟩
    · intro e he
      simp only [List.mem_cons, List.not_mem_nil, or_false] at he
      rcases he with rfl | rfl <;> rfl
    · simp

theorem c04_startCap_round (tol : K) (style : StrokeStyle K) (s : Point K) (n : Vec2 K) (h : style.start_cap = 2) :
    c04_startCap tol style s n = roundCap tol s n := by
  unfold c04_startCap
  rw [h]
  rfl

/-- `finish` under the invariant: no panic; the paths are reset; at most one contour is appended to the output (exactly one
    when a sub-path is in progress) -/
theorem c04_finish_spec (style : StrokeStyle K) (c : StrokeCtx K) (h : C04Inv c) :
    ∃ cs : List (List (PathEl K)), (∀ x ∈ cs, c04_Good style x) ∧ (c.forward_path ≠ [] → cs.length = 1) ∧
      (c.forward_path = [] → cs = []) ∧
      c.finish style = some { c with output := c.output ++ cs.flatten, forward_path := [], backward_path := [] } := by
  by_cases he : c.forward_path = []
  · have hb := h.empty_iff he
    refine ⟨[], fun _ hx => (nomatch hx), fun hne => absurd he hne, fun _ => rfl, ?_⟩
    rw [c04_finish_empty c style he]
    obtain ⟨o, f, b, _, _, _, _, _, _⟩ := c
    simp only at he hb
    subst he; subst hb
    simp
  · obtain ⟨hf, hb⟩ := h.ok_of_ne he
    obtain ⟨rp, hrp⟩ := c04_lastEndPoint_PathOK hb
    obtain ⟨rev, hrev, hsegs, _⟩ := c04_extendReversed_segs hb
    refine ⟨[c.forward_path ++ c04_endCap c.join_thresh style c.last_pt rp ++ rev ++ c04_startCap c.join_thresh style c.start_pt c.start_norm], ?_,
      fun _ => rfl, fun h0 => absurd h0 he, ?_⟩
    · intro x hx
      rw [List.mem_singleton] at hx
      subst hx
      obtain ⟨q, t, e0, ht⟩ := hf
      have hmid : c04_Segs (t ++ c04_endCap c.join_thresh style c.last_pt rp ++ rev) :=
        c04_Segs_append (c04_Segs_append ht (c04_endCap_segs _ _ _ _)) hsegs
      by_cases h2 : style.start_cap = 2
      · right
        refine ⟨h2, q, c.join_thresh, c.start_pt, c.start_norm, _, ?_, hmid, fun hs => h.head_f hs q t e0⟩
        rw [c04_startCap_round _ style _ _ h2, e0]
        simp only [List.cons_append, List.append_assoc]
      · left
        obtain ⟨m, hm, _, em⟩ := c04_startCap_closed c.join_thresh style c.start_pt c.start_norm h2
        refine ⟨q, (t ++ c04_endCap c.join_thresh style c.last_pt rp ++ rev) ++ m, ?_, c04_Segs_append hmid hm⟩
        rw [em, e0]
        simp only [List.cons_append, List.append_assoc]
    · rw [c04_finish_eq c style he hrp hrev]
      simp only [List.flatten_cons, List.flatten_nil, List.append_nil, List.append_assoc]

/-- `finish_closed` under the invariant with a sub-path in progress: no panic; the paths are reset; exactly two closed
    contours are appended to the output -/
theorem c04_finish_closed_spec (style : StrokeStyle K) (c : StrokeCtx K) (h : C04Inv c) (hne : c.forward_path ≠ []) :
    ∃ x1 x2 c', c04_ClosedContour x1 ∧ c04_ClosedContour x2 ∧ c.finish_closed style = some c' ∧
      c'.output = c.output ++ (x1 ++ x2) ∧ c'.forward_path = [] ∧ c'.backward_path = [] ∧
      c'.start_pt = c.start_pt ∧ c'.last_pt = c.last_pt := by
  obtain ⟨hf, hb⟩ := h.ok_of_ne hne
  have hs := c04_joinApp_segs c style c.start_tan
  have hj := c04_do_join_nonempty c style c.start_tan hne
  have hf' : c04_PathOK (c.do_join style c.start_tan).forward_path := by
    rw [hj]; exact c04_PathOK_append hf hs.1
  have hb' : c04_PathOK (c.do_join style c.start_tan).backward_path := by
    rw [hj]; exact c04_PathOK_append hb hs.2
  obtain ⟨rp, hrp⟩ := c04_lastEndPoint_PathOK hb'
  obtain ⟨rev, hrev, hsegs, _⟩ := c04_extendReversed_segs hb'
  obtain ⟨q, t, e0, ht⟩ := hf'
  refine ⟨(c.do_join style c.start_tan).forward_path ++ [.ClosePath], PathEl.MoveTo rp :: (rev ++ [.ClosePath]), _,
    ⟨q, t, ?_, ht⟩, ⟨rp, rev, rfl, hsegs⟩, c04_finish_closed_eq c style hne hrp hrev, ?_, rfl, rfl, ?_, ?_⟩
  · rw [e0]; rfl
  · simp only [(c04_do_join_fields c style c.start_tan).2.2.1, List.append_assoc, List.cons_append, List.nil_append]
  · exact (c04_do_join_fields c style c.start_tan).1
  · exact (c04_do_join_fields c style c.start_tan).2.1

end Kurbo
