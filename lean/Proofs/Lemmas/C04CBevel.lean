import Proofs.Lemmas.C04CSquare
/-! Helper lemmas for C04C, part 5: two segments with a bevel join and butt caps – the nine-vertex outline (left and right
    turn), its crossing sum split into the two swept rectangles and the bevel triangle (`= R1 + R2 + T` at EVERY query point, by
    inserting the join point on the two inner rectangle edges), and the lower bound `≥ 1` on either open rectangle. -/
set_option linter.unusedSectionVars false
set_option linter.unusedVariables false
namespace Kurbo
open PathEl
variable {K : Type} [Field K] [LinearOrder K] [IsStrictOrderedRing K] [FloorRing K] [Scalar K] [LawfulScalar K]

/-- outline of `[MoveTo p0, LineTo p1, LineTo p2]`, bevel join, butt caps, LEFT turn: right side `p0 − n1, p1 − n1`, bevel edge to
    `p1 − n2`, `p2 − n2`, end cap to `p2 + n2`, left side back `p1 + n2`, the JOIN POINT `p1` (inner-join pivot), `p1 + n1`,
    `p0 + n1`, `ClosePath` -/
def c04c_bevelL (p0 p1 p2 : Point K) (n1 n2 : Vec2 K) : List (PathEl K) :=
  [MoveTo (p0 - n1), LineTo (p1 - n1), LineTo (p1 - n2), LineTo (p2 - n2), LineTo (p2 + n2), LineTo (p1 + n2), LineTo p1,
   LineTo (p1 + n1), LineTo (p0 + n1), ClosePath]

/-- the same for a RIGHT turn: the pivot `p1` is on the right (forward) side, the bevel edge `p1 + n2 → p1 + n1` on the left -/
def c04c_bevelR (p0 p1 p2 : Point K) (n1 n2 : Vec2 K) : List (PathEl K) :=
  [MoveTo (p0 - n1), LineTo (p1 - n1), LineTo p1, LineTo (p1 - n2), LineTo (p2 - n2), LineTo (p2 + n2), LineTo (p1 + n2),
   LineTo (p1 + n1), LineTo (p0 + n1), ClosePath]

/-- crossing sum of the rectangle `a − n, b − n, b + n, a + n` about `q` -/
def c04c_rectSum (a b q : Point K) (n : Vec2 K) : Int :=
  C04C.quadSum (a.x - n.x - q.x) (a.y - n.y - q.y) (b.x - n.x - q.x) (b.y - n.y - q.y)
    (b.x + n.x - q.x) (b.y + n.y - q.y) (a.x + n.x - q.x) (a.y + n.y - q.y)

theorem c04c_bevelL_winding (p0 p1 p2 q : Point K) (n1 n2 : Vec2 K) :
    pathWinding (c04c_bevelL p0 p1 p2 n1 n2) q
      = some (c04c_rectSum p0 p1 q n1 + c04c_rectSum p1 p2 q n2 +
          (kcr (p1.x - n1.x - q.x) (p1.y - n1.y - q.y) (p1.x - n2.x - q.x) (p1.y - n2.y - q.y)
            + kcr (p1.x - n2.x - q.x) (p1.y - n2.y - q.y) (p1.x - q.x) (p1.y - q.y)
            + kcr (p1.x - q.x) (p1.y - q.y) (p1.x - n1.x - q.x) (p1.y - n1.y - q.y))) := by
  show pathWinding (polygon (p0 - n1) [p1 - n1, p1 - n2, p2 - n2, p2 + n2, p1 + n2, p1, p1 + n1, p0 + n1]) q = _
  rw [c04c_pathWinding_polygon]
  simp only [lineChain, crossSum_cons, crossSum_nil, List.getLast_cons_cons, List.getLast_singleton, kc, vsub_x, vsub_y,
    PathSeg.start, PathSeg.end, Line.start, Line.end, point_sub_vec, point_add_vec, scalar_norm, add_zero]
  have i1 := c04c_kcr_insert (p1.x - n1.x - q.x) (p1.y - n1.y - q.y) (p1.x - q.x) (p1.y - q.y)
    (p1.x + n1.x - q.x) (p1.y + n1.y - q.y) n1.x n1.y 1 1 zero_le_one zero_le_one (by ring) (by ring) (by ring) (by ring)
  have i2 := c04c_kcr_insert (p1.x + n2.x - q.x) (p1.y + n2.y - q.y) (p1.x - q.x) (p1.y - q.y)
    (p1.x - n2.x - q.x) (p1.y - n2.y - q.y) (-n2.x) (-n2.y) 1 1 zero_le_one zero_le_one (by ring) (by ring) (by ring) (by ring)
  have s1 := kcr_swap (p1.x - n1.x - q.x) (p1.y - n1.y - q.y) (p1.x - q.x) (p1.y - q.y)
  have s2 := kcr_swap (p1.x - q.x) (p1.y - q.y) (p1.x - n2.x - q.x) (p1.y - n2.y - q.y)
  unfold c04c_rectSum C04C.quadSum
  congr 1
  omega

theorem c04c_bevelR_winding (p0 p1 p2 q : Point K) (n1 n2 : Vec2 K) :
    pathWinding (c04c_bevelR p0 p1 p2 n1 n2) q
      = some (c04c_rectSum p0 p1 q n1 + c04c_rectSum p1 p2 q n2 +
          (kcr (p1.x + n2.x - q.x) (p1.y + n2.y - q.y) (p1.x + n1.x - q.x) (p1.y + n1.y - q.y)
            + kcr (p1.x + n1.x - q.x) (p1.y + n1.y - q.y) (p1.x - q.x) (p1.y - q.y)
            + kcr (p1.x - q.x) (p1.y - q.y) (p1.x + n2.x - q.x) (p1.y + n2.y - q.y))) := by
  show pathWinding (polygon (p0 - n1) [p1 - n1, p1, p1 - n2, p2 - n2, p2 + n2, p1 + n2, p1 + n1, p0 + n1]) q = _
  rw [c04c_pathWinding_polygon]
  simp only [lineChain, crossSum_cons, crossSum_nil, List.getLast_cons_cons, List.getLast_singleton, kc, vsub_x, vsub_y,
    PathSeg.start, PathSeg.end, Line.start, Line.end, point_sub_vec, point_add_vec, scalar_norm, add_zero]
  have i1 := c04c_kcr_insert (p1.x - n1.x - q.x) (p1.y - n1.y - q.y) (p1.x - q.x) (p1.y - q.y)
    (p1.x + n1.x - q.x) (p1.y + n1.y - q.y) n1.x n1.y 1 1 zero_le_one zero_le_one (by ring) (by ring) (by ring) (by ring)
  have i2 := c04c_kcr_insert (p1.x + n2.x - q.x) (p1.y + n2.y - q.y) (p1.x - q.x) (p1.y - q.y)
    (p1.x - n2.x - q.x) (p1.y - n2.y - q.y) (-n2.x) (-n2.y) 1 1 zero_le_one zero_le_one (by ring) (by ring) (by ring) (by ring)
  have s1 := kcr_swap (p1.x + n1.x - q.x) (p1.y + n1.y - q.y) (p1.x - q.x) (p1.y - q.y)
  have s2 := kcr_swap (p1.x - q.x) (p1.y - q.y) (p1.x + n2.x - q.x) (p1.y + n2.y - q.y)
  unfold c04c_rectSum C04C.quadSum
  congr 1
  omega

/-! ### model level -/
section model
variable [C04HypotLaw K]

theorem c04c_rectSum_cover (w : K) (a b q : Point K) (hw : 0 < w) (hne : a ≠ b) (hin : c04c_InRect a b w q) :
    c04c_rectSum a b q (c04_norm w (b - a)) = 1 := by
  obtain ⟨hx, hy⟩ := c04c_norm_coords w a b
  have h := (c04c_rect_strictIn_iff a.x a.y b.x b.y q.x q.y (c04c_k w a b) _ _ hx hy
    (c04c_k_pos w a b hw hne)).mpr ((c04c_inRect_iff w a b q hw hne).mp hin)
  exact C04C.para_inside _ _ _ _ _ _ _ _ (by ring) h.1 h.2.1 h.2.2.1 h.2.2.2

theorem c04c_rectSum_nonneg (w : K) (a b q : Point K) (hw : 0 < w) (hne : a ≠ b) :
    0 ≤ c04c_rectSum a b q (c04_norm w (b - a)) :=
  C04C.para_nonneg _ _ _ _ _ _ _ _ (by ring) (by ring) (c04c_rect_D w a b q hw hne)

/-- `n1 × n2 = k1·k2·(t1 × t2)` -/
theorem c04c_norm_cross_norm (w : K) (p0 p1 p2 : Point K) :
    (c04_norm w (p1 - p0)).x * (c04_norm w (p2 - p1)).y - (c04_norm w (p1 - p0)).y * (c04_norm w (p2 - p1)).x
      = c04c_k w p0 p1 * c04c_k w p1 p2 * ((p1 - p0).cross (p2 - p1)) := by
  obtain ⟨hx1, hy1⟩ := c04c_norm_coords w p0 p1
  obtain ⟨hx2, hy2⟩ := c04c_norm_coords w p1 p2
  rw [hx1, hy1, hx2, hy2]
  simp only [Vec2.cross, scalar_norm, vsub_x, vsub_y]
  ring

/-- the bevel triangle `p1 − n1, p1 − n2, p1` of a left turn is positively oriented: crossing sum `≥ 0` everywhere -/
theorem c04c_bevelTriL_nonneg (w : K) (p0 p1 p2 q : Point K) (hw : 0 < w) (h01 : p0 ≠ p1) (h12 : p1 ≠ p2)
    (hc : 0 < (p1 - p0).cross (p2 - p1)) :
    let n1 := c04_norm w (p1 - p0); let n2 := c04_norm w (p2 - p1)
    0 ≤ kcr (p1.x - n1.x - q.x) (p1.y - n1.y - q.y) (p1.x - n2.x - q.x) (p1.y - n2.y - q.y)
        + kcr (p1.x - n2.x - q.x) (p1.y - n2.y - q.y) (p1.x - q.x) (p1.y - q.y)
        + kcr (p1.x - q.x) (p1.y - q.y) (p1.x - n1.x - q.x) (p1.y - n1.y - q.y) := by
  intro n1 n2
  apply C04C.tri_nonneg
  have e := c04c_norm_cross_norm w p0 p1 p2
  have hpos := mul_pos (mul_pos (c04c_k_pos w p0 p1 hw h01) (c04c_k_pos w p1 p2 hw h12)) hc
  have : (p1.x - n1.x - q.x) * (p1.y - n2.y - q.y) - (p1.y - n1.y - q.y) * (p1.x - n2.x - q.x)
      + ((p1.x - n2.x - q.x) * (p1.y - q.y) - (p1.y - n2.y - q.y) * (p1.x - q.x))
      + ((p1.x - q.x) * (p1.y - n1.y - q.y) - (p1.y - q.y) * (p1.x - n1.x - q.x))
      = n1.x * n2.y - n1.y * n2.x := by ring
  rw [this, e]
  exact hpos

/-- the bevel triangle `p1 + n2, p1 + n1, p1` of a right turn is positively oriented -/
theorem c04c_bevelTriR_nonneg (w : K) (p0 p1 p2 q : Point K) (hw : 0 < w) (h01 : p0 ≠ p1) (h12 : p1 ≠ p2)
    (hc : (p1 - p0).cross (p2 - p1) < 0) :
    let n1 := c04_norm w (p1 - p0); let n2 := c04_norm w (p2 - p1)
    0 ≤ kcr (p1.x + n2.x - q.x) (p1.y + n2.y - q.y) (p1.x + n1.x - q.x) (p1.y + n1.y - q.y)
        + kcr (p1.x + n1.x - q.x) (p1.y + n1.y - q.y) (p1.x - q.x) (p1.y - q.y)
        + kcr (p1.x - q.x) (p1.y - q.y) (p1.x + n2.x - q.x) (p1.y + n2.y - q.y) := by
  intro n1 n2
  apply C04C.tri_nonneg
  have e := c04c_norm_cross_norm w p0 p1 p2
  have hpos := mul_neg_of_pos_of_neg (mul_pos (c04c_k_pos w p0 p1 hw h01) (c04c_k_pos w p1 p2 hw h12)) hc
  have : (p1.x + n2.x - q.x) * (p1.y + n1.y - q.y) - (p1.y + n2.y - q.y) * (p1.x + n1.x - q.x)
      + ((p1.x + n1.x - q.x) * (p1.y - q.y) - (p1.y + n1.y - q.y) * (p1.x - q.x))
      + ((p1.x - q.x) * (p1.y + n2.y - q.y) - (p1.y - q.y) * (p1.x + n2.x - q.x))
      = -(n1.x * n2.y - n1.y * n2.x) := by ring
  rw [this, e]
  linarith

/-- the join-skip test in ordinary arithmetic -/
theorem c04c_joinTest2_iff (p0 p1 p2 : Point K) (w tol : K) :
    c04c_joinTest2 p0 p1 p2 w tol = true ↔
      ((p1 - p0).dot (p2 - p1) ≤ 0 ∨
        Scalar.hypot ((p1 - p0).cross (p2 - p1)) ((p1 - p0).dot (p2 - p1)) * (2 * tol / w) ≤ |(p1 - p0).cross (p2 - p1)|) := by
  simp only [c04c_joinTest2, scalar_norm, Bool.or_eq_true, decide_eq_true_eq]
  push_cast
  rfl

theorem c04c_peq_false {a b : Point K} (h : a ≠ b) : b.peq a = false :=
  Bool.eq_false_iff.mpr fun h' => h (c04_peqSound _ _ h').symm

theorem c04c_strokeTwo_left' (p0 p1 p2 : Point K) (style : StrokeStyle K) (tol : K) (h01 : p0 ≠ p1) (h12 : p1 ≠ p2)
    (hj : style.join = 0) (hs : style.start_cap = 0) (he : style.end_cap = 0)
    (ht : c04c_joinTest2 p0 p1 p2 style.width tol = true) (hc : 0 < (p1 - p0).cross (p2 - p1)) :
    strokeUndashed [MoveTo p0, LineTo p1, LineTo p2] style tol =
      .ok (c04c_bevelL p0 p1 p2 (c04_norm style.width (p1 - p0)) (c04_norm style.width (p2 - p1))) := by
  rw [c04c_strokeTwo_left p0 p1 p2 style tol (c04c_peq_false h01) (c04c_peq_false h12) hj ht
    (by simp only [scalar_norm, Nat.cast_zero, decide_eq_true_eq]; exact hc)]
  simp only [c04_endCap, c04_startCap, he, hs, List.cons_append, List.nil_append, c04c_bevelL]

theorem c04c_strokeTwo_right' (p0 p1 p2 : Point K) (style : StrokeStyle K) (tol : K) (h01 : p0 ≠ p1) (h12 : p1 ≠ p2)
    (hj : style.join = 0) (hs : style.start_cap = 0) (he : style.end_cap = 0)
    (ht : c04c_joinTest2 p0 p1 p2 style.width tol = true) (hc : (p1 - p0).cross (p2 - p1) < 0) :
    strokeUndashed [MoveTo p0, LineTo p1, LineTo p2] style tol =
      .ok (c04c_bevelR p0 p1 p2 (c04_norm style.width (p1 - p0)) (c04_norm style.width (p2 - p1))) := by
  rw [c04c_strokeTwo_right p0 p1 p2 style tol (c04c_peq_false h01) (c04c_peq_false h12) hj ht
    (by simp only [scalar_norm, Nat.cast_zero, decide_eq_false_iff_not, not_lt]; exact hc.le)
    (by simp only [scalar_norm, Nat.cast_zero, decide_eq_true_eq]; exact hc)]
  simp only [c04_endCap, c04_startCap, he, hs, List.cons_append, List.nil_append, c04c_bevelR]

/-- **coverage, two segments with a bevel join**: on either open swept rectangle the winding number is `≥ 1` -/
theorem c04c_bevelL_cover (w : K) (p0 p1 p2 q : Point K) (hw : 0 < w) (h01 : p0 ≠ p1) (h12 : p1 ≠ p2)
    (hc : 0 < (p1 - p0).cross (p2 - p1)) (hq : c04c_InRect p0 p1 w q ∨ c04c_InRect p1 p2 w q) :
    ∃ wn : Int, pathWinding (c04c_bevelL p0 p1 p2 (c04_norm w (p1 - p0)) (c04_norm w (p2 - p1))) q = some wn ∧ 1 ≤ wn := by
  rw [c04c_bevelL_winding]
  refine ⟨_, rfl, ?_⟩
  have hT := c04c_bevelTriL_nonneg w p0 p1 p2 q hw h01 h12 hc
  have r1 := c04c_rectSum_nonneg w p0 p1 q hw h01
  have r2 := c04c_rectSum_nonneg w p1 p2 q hw h12
  simp only at hT
  rcases hq with hq | hq
  · have := c04c_rectSum_cover w p0 p1 q hw h01 hq
    omega
  · have := c04c_rectSum_cover w p1 p2 q hw h12 hq
    omega

theorem c04c_bevelR_cover (w : K) (p0 p1 p2 q : Point K) (hw : 0 < w) (h01 : p0 ≠ p1) (h12 : p1 ≠ p2)
    (hc : (p1 - p0).cross (p2 - p1) < 0) (hq : c04c_InRect p0 p1 w q ∨ c04c_InRect p1 p2 w q) :
    ∃ wn : Int, pathWinding (c04c_bevelR p0 p1 p2 (c04_norm w (p1 - p0)) (c04_norm w (p2 - p1))) q = some wn ∧ 1 ≤ wn := by
  rw [c04c_bevelR_winding]
  refine ⟨_, rfl, ?_⟩
  have hT := c04c_bevelTriR_nonneg w p0 p1 p2 q hw h01 h12 hc
  have r1 := c04c_rectSum_nonneg w p0 p1 q hw h01
  have r2 := c04c_rectSum_nonneg w p1 p2 q hw h12
  simp only at hT
  rcases hq with hq | hq
  · have := c04c_rectSum_cover w p0 p1 q hw h01 hq
    omega
  · have := c04c_rectSum_cover w p1 p2 q hw h12 hq
    omega

/-- at EVERY point the winding number of the bevel-join outline is `≥ 0` -/
theorem c04c_bevelL_nonneg (w : K) (p0 p1 p2 q : Point K) (hw : 0 < w) (h01 : p0 ≠ p1) (h12 : p1 ≠ p2)
    (hc : 0 < (p1 - p0).cross (p2 - p1)) :
    ∃ wn : Int, pathWinding (c04c_bevelL p0 p1 p2 (c04_norm w (p1 - p0)) (c04_norm w (p2 - p1))) q = some wn ∧ 0 ≤ wn := by
  rw [c04c_bevelL_winding]
  refine ⟨_, rfl, ?_⟩
  have hT := c04c_bevelTriL_nonneg w p0 p1 p2 q hw h01 h12 hc
  have r1 := c04c_rectSum_nonneg w p0 p1 q hw h01
  have r2 := c04c_rectSum_nonneg w p1 p2 q hw h12
  simp only at hT
  omega

theorem c04c_bevelR_nonneg (w : K) (p0 p1 p2 q : Point K) (hw : 0 < w) (h01 : p0 ≠ p1) (h12 : p1 ≠ p2)
    (hc : (p1 - p0).cross (p2 - p1) < 0) :
    ∃ wn : Int, pathWinding (c04c_bevelR p0 p1 p2 (c04_norm w (p1 - p0)) (c04_norm w (p2 - p1))) q = some wn ∧ 0 ≤ wn := by
  rw [c04c_bevelR_winding]
  refine ⟨_, rfl, ?_⟩
  have hT := c04c_bevelTriR_nonneg w p0 p1 p2 q hw h01 h12 hc
  have r1 := c04c_rectSum_nonneg w p0 p1 q hw h01
  have r2 := c04c_rectSum_nonneg w p1 p2 q hw h12
  simp only at hT
  omega

end model
end Kurbo
