import Proofs.Lemmas.C04Struct
/-! Helper definitions and lemmas for C04, part 2 (structure; any `[Scalar K]`, core Lean only): `extend_reversed`. -/
set_option linter.unusedSectionVars false
set_option linter.unusedVariables false
namespace Kurbo
variable {K : Type} [Scalar K]

/-- `LineTo`, `QuadTo` or `CurveTo` -/
def c04_isDraw : PathEl K → Bool
  | .LineTo _ => true
  | .QuadTo _ _ => true
  | .CurveTo _ _ _ => true
  | _ => false

theorem c04_isDraw_of_isSeg {e : PathEl K} (h : c04_isSeg e = true) : c04_isDraw e = true := by
  cases e <;> first | rfl | cases h

/-- the element `el` drawn backwards, to the end point of its predecessor `prev`: control points in reverse order -/
def c04_revEl (prev el : PathEl K) : PathEl K :=
  match prev.end_point with
  | some e =>
    match el with
    | .LineTo _ => .LineTo e
    | .QuadTo p1 _ => .QuadTo p1 e
    | .CurveTo p1 p2 _ => .CurveTo p2 p1 e
    | x => x
  | none => el

/-- `extend_reversed` on a list whose elements all have an end point (no `ClosePath`) and whose tail consists of drawing
    elements: it succeeds; the result is, in reverse order, every element of the tail drawn back to the end point of its
    predecessor -/
theorem c04_extendReversedGo_spec : ∀ l : List (PathEl K), (∀ e ∈ l, e.end_point.isSome = true) →
    (∀ e ∈ l.tail, c04_isDraw e = true) →
    extendReversedGo l = some ((List.zipWith c04_revEl l l.tail).reverse) := by
  intro l
  induction l with
  | nil => intro _ _; rfl
  | cons prev t ih =>
    cases t with
    | nil => intro _ _; rfl
    | cons el rest =>
      intro h1 h2
      have ih' := ih (fun e he => h1 e (List.mem_cons_of_mem _ he))
        (fun e he => h2 e (List.mem_cons_of_mem _ he))
      have hp := h1 prev List.mem_cons_self
      obtain ⟨pe, hpe⟩ := Option.isSome_iff_exists.1 hp
      have hel : c04_isDraw el = true := h2 el List.mem_cons_self
      rw [extendReversedGo, ih']
      simp only [hpe, List.tail_cons, List.zipWith_cons_cons, List.reverse_cons]
      cases el <;> first | (cases hel; done) | simp [c04_revEl, hpe]

theorem c04_revEl_isSeg {prev el : PathEl K} (h : c04_isSeg el = true) : c04_isSeg (c04_revEl prev el) = true := by
  unfold c04_revEl
  cases prev.end_point with
  | none => exact h
  | some e => cases el <;> first | rfl | cases h

theorem c04_revEl_isLine {prev el : PathEl K} (h : c04_isLine el = true) : c04_isLine (c04_revEl prev el) = true := by
  unfold c04_revEl
  cases prev.end_point with
  | none => exact h
  | some e => cases el <;> first | rfl | cases h

theorem c04_PathOK_endpoints {l : List (PathEl K)} (hl : c04_PathOK l) : ∀ e ∈ l, e.end_point.isSome = true := by
  obtain ⟨p, t, rfl, ht⟩ := hl
  intro e he
  rcases List.mem_cons.1 he with h | h
  · subst h; rfl
  · have := ht e h
    cases e <;> first | rfl | cases this

theorem c04_PathOK_tail_draw {l : List (PathEl K)} (hl : c04_PathOK l) : ∀ e ∈ l.tail, c04_isDraw e = true := by
  obtain ⟨p, t, rfl, ht⟩ := hl
  intro e he
  exact c04_isDraw_of_isSeg (ht e he)

/-- `extend_reversed` of a path in progress -/
theorem c04_extendReversed_PathOK {l : List (PathEl K)} (hl : c04_PathOK l) :
    extendReversed l = some ((List.zipWith c04_revEl l l.tail).reverse) :=
  c04_extendReversedGo_spec l (c04_PathOK_endpoints hl) (c04_PathOK_tail_draw hl)

theorem c04_zipWith_revEl_segs : ∀ (l t : List (PathEl K)), c04_Segs t → c04_Segs (List.zipWith c04_revEl l t) := by
  intro l
  induction l with
  | nil => intro t _; simp only [List.zipWith_nil_left]; exact c04_Segs_nil
  | cons a l ih =>
    intro t ht
    cases t with
    | nil => simp only [List.zipWith_nil_right]; exact c04_Segs_nil
    | cons b t =>
      simp only [List.zipWith_cons_cons]
      intro e he
      rcases List.mem_cons.1 he with h | h
      · subst h; exact c04_revEl_isSeg (ht b List.mem_cons_self)
      · exact ih t (fun x hx => ht x (List.mem_cons_of_mem _ hx)) e h

theorem c04_Segs_reverse {l : List (PathEl K)} (h : c04_Segs l) : c04_Segs l.reverse :=
  fun e he => h e (List.mem_reverse.1 he)

/-- the reversed backward path consists of drawing elements -/
theorem c04_extendReversed_segs {l : List (PathEl K)} (hl : c04_PathOK l) :
    ∃ r, extendReversed l = some r ∧ c04_Segs r ∧ r.length = l.length - 1 := by
  refine ⟨_, c04_extendReversed_PathOK hl, ?_, ?_⟩
  · obtain ⟨p, t, rfl, ht⟩ := hl
    exact c04_Segs_reverse (c04_zipWith_revEl_segs _ _ ht)
  · simp only [List.length_reverse, List.length_zipWith, List.length_tail]
    omega

/-- the reversed path returns to the start of the path -/
theorem c04_extendReversed_returns {p : Point K} {e : PathEl K} {t : List (PathEl K)} (ht : c04_Segs (e :: t)) :
    ∃ r, extendReversed (PathEl.MoveTo p :: e :: t) = some (r ++ [c04_revEl (.MoveTo p) e]) ∧
      (c04_revEl (.MoveTo p) e).end_point = some p := by
  have hl : c04_PathOK (PathEl.MoveTo p :: e :: t) := ⟨p, e :: t, rfl, ht⟩
  refine ⟨(List.zipWith c04_revEl (e :: t) t).reverse, ?_, ?_⟩
  · rw [c04_extendReversed_PathOK hl]
    simp only [List.tail_cons, List.zipWith_cons_cons, List.reverse_cons]
  · have := ht e List.mem_cons_self
    cases e <;> first | rfl | cases this

/-! ### polylines: the reversed list of points -/

theorem c04_zipWith_revEl_lines : ∀ (pts : List (Point K)) (h : PathEl K) (p : Point K), h.end_point = some p →
    List.zipWith c04_revEl (h :: pts.map PathEl.LineTo) (pts.map PathEl.LineTo) = ((p :: pts).dropLast).map PathEl.LineTo := by
  intro pts
  induction pts with
  | nil => intro h p _; rfl
  | cons q qs ih =>
    intro h p hp
    simp only [List.map_cons, List.zipWith_cons_cons]
    rw [ih (.LineTo q) q rfl]
    simp [c04_revEl, hp, List.dropLast]

/-- `extend_reversed` of `MoveTo p, LineTo q₁, …, LineTo qₙ` is `LineTo qₙ₋₁, …, LineTo q₁, LineTo p` -/
theorem c04_extendReversed_lines (p : Point K) (pts : List (Point K)) :
    extendReversed (PathEl.MoveTo p :: pts.map PathEl.LineTo) = some (((p :: pts).dropLast.reverse).map PathEl.LineTo) := by
  have hl : c04_PathOK (PathEl.MoveTo p :: pts.map PathEl.LineTo) := by
    refine ⟨p, _, rfl, ?_⟩
    intro e he
    obtain ⟨q, _, rfl⟩ := List.mem_map.1 he
    rfl
  rw [c04_extendReversed_PathOK hl, List.tail_cons, c04_zipWith_revEl_lines pts (.MoveTo p) p rfl, List.map_reverse]

/-- end point of the last element of a path in progress -/
theorem c04_lastEndPoint_PathOK {l : List (PathEl K)} (hl : c04_PathOK l) : ∃ q, lastEndPoint l = some q := by
  have hne := c04_PathOK_ne_nil hl
  have hmem := List.getLast_mem hne
  have := c04_PathOK_endpoints hl _ hmem
  obtain ⟨q, hq⟩ := Option.isSome_iff_exists.1 this
  refine ⟨q, ?_⟩
  unfold lastEndPoint
  rw [List.getLast?_eq_some_getLast hne]
  exact hq

end Kurbo
