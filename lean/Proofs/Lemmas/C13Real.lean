import Proofs.Lemmas.C13Open
import Proofs.Lemmas.C15Real
import Mathlib.Tactic.IntervalCases
/-! `LawfulHypotSq` is inhabited: ℝ with `hypot x y = √(x·x + y·y)` (`realScalar` of C15); a witness state over ℝ for the
    hypotheses of the geometric theorems of C13. -/
namespace Kurbo
open DashSpec

theorem realScalar_lawfulHypotSq : @LawfulHypotSq ℝ _ _ realScalar :=
  letI := realScalar
  { hypot_nonneg := fun x y => Real.sqrt_nonneg _
    hypot_sq := fun x y => by
      show Real.sqrt (x * x + y * y) ^ 2 = x ^ 2 + y ^ 2
      rw [Real.sq_sqrt (by nlinarith [mul_self_nonneg x, mul_self_nonneg y])]
      ring }

/-- the iterator inside the segment (0,0)–(21,0), 1 unit done, pattern [1,5,2,5], in the first gap; `LineTo (21,5)` next -/
noncomputable def exReal : DashIt ℝ :=
  { inner := [.LineTo ⟨21, 5⟩], dashes := #[1, 5, 2, 5], dash_ix := 1, init_dash_ix := 0, init_dash_remaining := 1,
    init_is_active := true, is_active := false, state := .Working, current_seg := .Line ⟨⟨0, 0⟩, ⟨21, 0⟩⟩, t := 1 / 21,
    dash_remaining := 5, seg_remaining := 20, start_pt := ⟨0, 0⟩, last_pt := ⟨21, 0⟩ }

/-- the hypotheses of `dash_step_line_switch`, `dash_segment_refines`, `dash_open_polyline_refines` are satisfiable -/
theorem exReal_witness : ∃ (_ : Scalar ℝ) (_ : LawfulScalar ℝ) (_ : LawfulHypotSq ℝ) (s : DashIt ℝ) (l : Line ℝ) (L : ℝ),
    OnLine s l L ∧ s.dash_remaining < s.seg_remaining ∧ 0 < L ∧ (∀ i, 0 ≤ cyc s.dashes i) ∧ (∀ i, 1 ≤ cyc s.dashes i) ∧
      s.closepath_pending = false ∧ s.inner = [(⟨21, 5⟩ : Point ℝ)].map .LineTo ++ [] ∧
      (s.state == .ToStash && s.stash.isEmpty) = false ∧
      (∀ x ∈ s.seg_remaining :: polyLens s.last_pt [(⟨21, 5⟩ : Point ℝ)], 0 ≤ x ∧ x ≤ 20) := by
  let _ := realScalar
  have _ := realScalar_lawful
  have hge : ∀ i, (hi : i < exReal.dashes.size) → (1 : ℝ) ≤ exReal.dashes[i] := by
    intro i hi
    have hi' : i < 4 := hi
    interval_cases i <;> simp [exReal]
  have h1 : ∀ i, 1 ≤ cyc exReal.dashes i := cyc_ge exReal.dashes (by decide) 1 hge
  refine ⟨realScalar, realScalar_lawful, realScalar_lawfulHypotSq, exReal, ⟨⟨0, 0⟩, ⟨21, 0⟩⟩, 21, ?_, ?_, by norm_num,
    fun i => le_trans zero_le_one (h1 i), h1, rfl, rfl, rfl, ?_⟩
  · refine ⟨rfl, ?_, ?_, ?_, rfl, by decide, ?_, rfl⟩
    · show Real.sqrt ((21 - 0) * (21 - 0) + (0 - 0) * (0 - 0)) = 21
      rw [show ((21 : ℝ) - 0) * (21 - 0) + (0 - 0) * (0 - 0) = 21 ^ 2 by norm_num]
      exact Real.sqrt_sq (by norm_num)
    · show (1 / 21 : ℝ) < 1
      norm_num
    · show (20 : ℝ) = (1 - 1 / 21) * 21
      norm_num
    · show (0 : ℝ) ≤ 5
      norm_num
  · show (5 : ℝ) < 20
    norm_num
  · have e : polyLens exReal.last_pt [(⟨21, 5⟩ : Point ℝ)] = [5] := by
      show [Real.sqrt ((21 - 21) * (21 - 21) + (5 - 0) * (5 - 0))] = [5]
      rw [show ((21 : ℝ) - 21) * (21 - 21) + (5 - 0) * (5 - 0) = 5 ^ 2 by norm_num, Real.sqrt_sq (by norm_num)]
    rw [e]
    intro x hx
    have : x = 20 ∨ x = 5 := by simpa [exReal] using hx
    rcases this with rfl | rfl <;> norm_num

/-- `dash` does return over ℝ: the segment (0,0)–(1,0) with pattern [2], offset 0 (inside the first dash) comes back whole;
    pattern positive, `steps = 0` -/
theorem exReal_dash_ok : ∃ (_ : Scalar ℝ) (_ : LawfulScalar ℝ) (_ : LawfulHypotSq ℝ),
    dash [.MoveTo ⟨0, 0⟩, .LineTo ⟨1, 0⟩] (0 : ℝ) #[2] 10 = .ok [.MoveTo ⟨0, 0⟩, .LineTo ⟨1, 0⟩] ∧
    (∀ i, (h : i < (#[2] : Array ℝ).size) → 0 < (#[2] : Array ℝ)[i]) ∧
    (∀ k < 0, prefixSum (#[2] : Array ℝ) k < 0) ∧ (0 : ℝ) ≤ prefixSum #[2] 0 := by
  let _ := realScalar
  have _ := realScalar_lawful
  have hps : prefixSum (#[2] : Array ℝ) 0 = 2 := by simp [prefixSum, cyc, patOf]
  have hlast : (0 : ℝ) ≤ prefixSum #[2] 0 := by rw [hps]; norm_num
  have hpos : ∀ i, (h : i < (#[2] : Array ℝ).size) → 0 < (#[2] : Array ℝ)[i] := by
    intro i hi
    have hi' : i < 1 := hi
    interval_cases i
    simp
  refine ⟨realScalar, realScalar_lawful, realScalar_lawfulHypotSq, ?_, hpos, fun k hk => absurd hk (Nat.not_lt_zero k), hlast⟩
  obtain ⟨it, h1, -, h3, h4, -, -⟩ := dashImpl_phase [.MoveTo ⟨0, 0⟩, .LineTo ⟨1, 0⟩] (#[2] : Array ℝ) (by decide) 0 0
    100000 (by omega) (fun k hk => absurd hk (Nat.not_lt_zero k)) hlast
  refine dash_short_segment ⟨0, 0⟩ ⟨1, 0⟩ 0 #[2] 10 it h1 (by decide) (by rw [h4]; rfl) ?_ (by omega)
  rw [h3, hps]
  have e : (Line.mk (⟨0, 0⟩ : Point ℝ) ⟨1, 0⟩).arclen 0 = 1 := by
    show Real.sqrt ((1 - 0) * (1 - 0) + (0 - 0) * (0 - 0)) = 1
    rw [show ((1 : ℝ) - 0) * (1 - 0) + (0 - 0) * (0 - 0) = 1 by norm_num, Real.sqrt_one]
  rw [e]
  norm_num

end Kurbo
