import Proofs.Lemmas.C15QBasic
/-! helper lemmas for C15Q: exactness of the quadratic pair that `factor_quartic_inner` forms from an exact LDLᵀ
    decomposition (both branches), before the Newton loop -/
set_option linter.unusedSectionVars false
namespace Kurbo

section structural
variable {K : Type} [Scalar K]

/-- the candidate loop keeps a pair that every finite candidate equals -/
theorem alphaPick_inv (a b c beta_1 beta_2 : K) (first : Bool) (st : K × K × K) (cand : K × K × Bool) (x y : K)
    (hc : cand.2.2 = true → cand.1 = x ∧ cand.2.1 = y) (hs : st.1 = x ∧ st.2.1 = y) :
    (alphaPick a b c beta_1 beta_2 first st cand).1 = x ∧ (alphaPick a b c beta_1 beta_2 first st cand).2.1 = y := by
  unfold alphaPick
  by_cases h : cand.2.2 = true
  · rw [if_pos h]
    dsimp only
    split_ifs
    · exact hc h
    · exact hs
  · rw [if_neg h]; exact hs
end structural

variable {K : Type} [Field K] [LinearOrder K] [IsStrictOrderedRing K] [FloorRing K] [Scalar K] [LawfulScalar K]

theorem sn_sne (a b : K) : sne a b = decide (a ≠ b) := by
  unfold sne; rw [sn_beq]; simp

theorem betaFixNeg_exact {d beta_1 beta_2 : K} (h : beta_1 * beta_2 = d) : betaFixNeg d beta_1 beta_2 = (beta_1, beta_2) := by
  unfold betaFixNeg
  simp only [scalar_norm, decide_eq_true_eq]
  split_ifs with h1 h2
  · have hne : beta_1 ≠ 0 := fun h0 => by rw [h0, abs_zero] at h1; exact absurd h1 (not_lt.mpr (abs_nonneg _))
    rw [← h]; congr 1; field_simp
  · have hne : beta_2 ≠ 0 := fun h0 => by rw [h0, abs_zero] at h2; exact absurd h2 (not_lt.mpr (abs_nonneg _))
    rw [← h]; congr 1; field_simp
  · rfl

theorem betaFixZero_exact {d beta_1 beta_2 : K} (h : beta_1 * beta_2 = d) : betaFixZero d beta_1 beta_2 = (beta_1, beta_2) := by
  unfold betaFixZero
  simp only [scalar_norm, decide_eq_true_eq]
  split_ifs with h1 h2
  · have hne : beta_1 ≠ 0 := fun h0 => by rw [h0, abs_zero] at h1; exact absurd h1 (not_lt.mpr (abs_nonneg _))
    rw [← h]; congr 1; field_simp
  · have hne : beta_2 ≠ 0 := fun h0 => by rw [h0, abs_zero] at h2; exact absurd h2 (not_lt.mpr (abs_nonneg _))
    rw [← h]; congr 1; field_simp
  · rfl

/-- every finite alpha candidate is exact when the pair is: the selection returns the pair it started from -/
theorem alphaSelect_exact {a b c alpha_1 alpha_2 beta_1 beta_2 : K} (h1 : alpha_1 + alpha_2 = a)
    (h2 : beta_1 + alpha_1 * alpha_2 + beta_2 = b) (h3 : beta_1 * alpha_2 + alpha_1 * beta_2 = c) :
    alphaSelect a b c alpha_1 alpha_2 beta_1 beta_2 = (alpha_1, alpha_2) := by
  unfold alphaSelect
  by_cases hne : sne (sabs alpha_1) (sabs alpha_2) = true
  · rw [if_pos hne]
    have hc : ∀ cand : K × K × Bool,
        (cand = (alphaCands a b c alpha_1 alpha_2 beta_1 beta_2).1 ∨ cand = (alphaCands a b c alpha_1 alpha_2 beta_1 beta_2).2.1 ∨
          cand = (alphaCands a b c alpha_1 alpha_2 beta_1 beta_2).2.2) →
        cand.2.2 = true → cand.1 = alpha_1 ∧ cand.2.1 = alpha_2 := by
      intro cand hmem
      unfold alphaCands at hmem
      simp only [scalar_norm, decide_eq_true_eq, Bool.and_true, Bool.true_and] at hmem
      by_cases hlt : |alpha_1| < |alpha_2|
      · rw [if_pos hlt] at hmem
        rcases hmem with rfl | rfl | rfl
        · intro _; exact ⟨by linear_combination (-1 : K) * h1, rfl⟩
        · intro hf
          have hb : beta_2 ≠ 0 := by simpa using hf
          refine ⟨?_, rfl⟩
          show (c - beta_1 * alpha_2) / beta_2 = alpha_1
          rw [div_eq_iff hb]; linear_combination (-1 : K) * h3
        · intro hf
          have ha : alpha_2 ≠ 0 := by simpa using hf
          refine ⟨?_, rfl⟩
          show (b - beta_2 - beta_1) / alpha_2 = alpha_1
          rw [div_eq_iff ha]; linear_combination (-1 : K) * h2
      · rw [if_neg hlt] at hmem
        rcases hmem with rfl | rfl | rfl
        · intro _; exact ⟨rfl, by linear_combination (-1 : K) * h1⟩
        · intro hf
          have hb : beta_1 ≠ 0 := by simpa using hf
          refine ⟨rfl, ?_⟩
          show (c - alpha_1 * beta_2) / beta_1 = alpha_2
          rw [div_eq_iff hb]; linear_combination (-1 : K) * h3
        · intro hf
          have ha : alpha_1 ≠ 0 := by simpa using hf
          refine ⟨rfl, ?_⟩
          show (b - beta_2 - beta_1) / alpha_1 = alpha_2
          rw [div_eq_iff ha]; linear_combination (-1 : K) * h2
    dsimp only
    rw [Prod.mk.injEq]
    apply alphaPick_inv _ _ _ _ _ _ _ _ _ _ (hc _ (Or.inr (Or.inr rfl)))
    apply alphaPick_inv _ _ _ _ _ _ _ _ _ _ (hc _ (Or.inr (Or.inl rfl)))
    apply alphaPick_inv _ _ _ _ _ _ _ _ _ _ (hc _ (Or.inl rfl))
    exact ⟨rfl, rfl⟩
  · rw [if_neg hne]

/-- `d_2 < 0`: from an exact LDLᵀ decomposition the pair before the Newton loop is `x² + (l_1 ± √−d_2) x + (l_3 ± √−d_2·l_2)` -/
theorem ldlInit_neg_eq {a b c d l_1 l_3 d_2 l_2 : K} (ha : 2 * l_1 = a) (h1 : d_2 + l_1 * l_1 + 2 * l_3 = b)
    (h2 : 2 * (d_2 * l_2 + l_1 * l_3) = c) (h3 : d_2 * l_2 * l_2 + l_3 * l_3 = d) (hd : d_2 < 0)
    (hs : SqrtExact (-d_2)) :
    ldlInit a b c d l_1 l_3 d_2 l_2 =
      some (l_1 + Scalar.sqrt (-d_2), l_3 + Scalar.sqrt (-d_2) * l_2, l_1 - Scalar.sqrt (-d_2), l_3 - Scalar.sqrt (-d_2) * l_2) := by
  obtain ⟨-, hss⟩ := hs
  unfold ldlInit
  simp only [scalar_norm, Nat.cast_zero]
  rw [if_pos (by simpa using hd)]
  generalize Scalar.sqrt (-d_2) = sq at hss ⊢
  have hbb : (l_3 + sq * l_2) * (l_3 - sq * l_2) = d := by linear_combination h3 - l_2 * l_2 * hss
  rw [betaFixNeg_exact hbb]
  dsimp only
  rw [alphaSelect_exact (a := a) (b := b) (c := c) (by linear_combination ha)
    (by linear_combination h1 - hss) (by linear_combination h2 - 2 * l_2 * hss)]

/-- `d_2 = 0`: the quartic is `(x² + l_1 x + l_3)² + d_3`, `d_3 = d − l_3²`, and the pair is `x² + l_1 x + (l_3 ± √−d_3)` -/
theorem ldlInit_zero_eq {a b c d l_1 l_3 l_2 : K} (hs : SqrtExact (-(d - l_3 * l_3))) :
    ldlInit a b c d l_1 l_3 0 l_2 =
      some (l_1, l_3 + Scalar.sqrt (-(d - l_3 * l_3)), l_1, l_3 - Scalar.sqrt (-(d - l_3 * l_3))) := by
  obtain ⟨-, hss⟩ := hs
  unfold ldlInit
  simp only [scalar_norm, Nat.cast_zero]
  rw [if_neg (by simp), if_pos (by simp)]
  generalize Scalar.sqrt (-(d - l_3 * l_3)) = r at hss ⊢
  have hbb : (l_3 + r) * (l_3 - r) = d := by linear_combination (-1 : K) * hss
  rw [betaFixZero_exact hbb]

theorem ldlInit_pos_eq {a b c d l_1 l_3 d_2 l_2 : K} (hd : 0 < d_2) : ldlInit a b c d l_1 l_3 d_2 l_2 = none := by
  unfold ldlInit
  simp only [scalar_norm, Nat.cast_zero]
  rw [if_neg (by simpa using hd.le), if_neg (by simpa using hd.ne')]

theorem ldlInit_isSome_iff (a b c d l_1 l_3 d_2 l_2 : K) : (ldlInit a b c d l_1 l_3 d_2 l_2).isSome ↔ d_2 ≤ 0 := by
  rcases lt_trichotomy d_2 0 with hd | hd | hd
  · unfold ldlInit
    simp only [scalar_norm, Nat.cast_zero]
    rw [if_pos (by simpa using hd)]
    simp [hd.le]
  · subst hd
    unfold ldlInit
    simp only [scalar_norm, Nat.cast_zero]
    rw [if_neg (by simp), if_pos (by simp)]
    simp
  · rw [ldlInit_pos_eq hd]; simp [not_le.mpr hd]

/-- LDLᵀ form of the quartic: `(x² + l_1 x + l_3)² + d_2 (x + l_2)²` -/
theorem ldl_quartic_form {a b c d l_1 l_3 d_2 l_2 : K} (ha : 2 * l_1 = a) (h1 : d_2 + l_1 * l_1 + 2 * l_3 = b)
    (h2 : 2 * (d_2 * l_2 + l_1 * l_3) = c) (h3 : d_2 * l_2 * l_2 + l_3 * l_3 = d) (x : K) :
    x ^ 4 + a * x ^ 3 + b * x ^ 2 + c * x + d = (x ^ 2 + l_1 * x + l_3) ^ 2 + d_2 * (x + l_2) ^ 2 := by
  rw [← ha, ← h1, ← h2, ← h3]; ring

/-- `d_2 > 0` (the branch that returns `None`): the quartic is a sum of two squares; its only possible real root is the
    common zero `x = −l_2` of both squares -/
theorem ldl_pos_root_iff {a b c d l_1 l_3 d_2 l_2 : K} (ha : 2 * l_1 = a) (h1 : d_2 + l_1 * l_1 + 2 * l_3 = b)
    (h2 : 2 * (d_2 * l_2 + l_1 * l_3) = c) (h3 : d_2 * l_2 * l_2 + l_3 * l_3 = d) (hd : 0 < d_2) (x : K) :
    x ^ 4 + a * x ^ 3 + b * x ^ 2 + c * x + d = 0 ↔ x = -l_2 ∧ l_2 ^ 2 - l_1 * l_2 + l_3 = 0 := by
  rw [ldl_quartic_form ha h1 h2 h3 x]
  constructor
  · intro h
    have hA : 0 ≤ (x ^ 2 + l_1 * x + l_3) ^ 2 := sq_nonneg _
    have hB : 0 ≤ d_2 * (x + l_2) ^ 2 := mul_nonneg hd.le (sq_nonneg _)
    have hB0 : d_2 * (x + l_2) ^ 2 = 0 := by linarith
    have hA0 : (x ^ 2 + l_1 * x + l_3) ^ 2 = 0 := by linarith
    have hx : x + l_2 = 0 := by
      rcases mul_eq_zero.mp hB0 with h' | h'
      · exact absurd h' hd.ne'
      · exact pow_eq_zero_iff (two_ne_zero) |>.mp h'
    have hq : x ^ 2 + l_1 * x + l_3 = 0 := pow_eq_zero_iff (two_ne_zero) |>.mp hA0
    have hx' : x = -l_2 := by linear_combination hx
    refine ⟨hx', ?_⟩
    rw [hx'] at hq; linear_combination hq
  · rintro ⟨rfl, hq⟩
    have : (-l_2) ^ 2 + l_1 * (-l_2) + l_3 = 0 := by linear_combination hq
    rw [this]; ring

end Kurbo
