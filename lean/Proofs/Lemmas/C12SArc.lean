import Proofs.Lemmas.C12SSvd
/-! Helper lemmas for C12S, part 2: `Ellipse::new`, `Affine * Ellipse`, `Affine * Arc` over ℝ. -/
set_option linter.unusedSectionVars false
namespace Kurbo
open Real

/-- the ideal point of an arc at angle `θ`: `center + sample_ellipse(radii, x_rotation, θ)` -/
def Arc.pointAt {K : Type} [Scalar K] (a : Arc K) (θ : K) : Point K := a.center + sampleEllipse a.radii a.x_rotation θ

section lawful
variable {K : Type} [Field K] [LinearOrder K] [IsStrictOrderedRing K] [FloorRing K] [Scalar K] [LawfulScalar K]

theorem c12s_mul_action (A B : Affine K) (p : Point K) : (A * B) * p = A * (B * p) := by kaff

/-- `Ellipse::new(c, radii, rot).inner` maps `(x, y)` to `c + R(rot)·(|rx|·x, |ry|·y)` (any lawful scalar,
    `Scalar.sin/cos` arbitrary) -/
theorem ellipse_new_act (c : Point K) (radii : Vec2 K) (rot : K) (p : Point K) :
    (Ellipse.new c radii rot).inner * p
      = ⟨c.x + (Scalar.cos rot * (|radii.x| * p.x) - Scalar.sin rot * (|radii.y| * p.y)),
         c.y + (Scalar.sin rot * (|radii.x| * p.x) + Scalar.cos rot * (|radii.y| * p.y))⟩ := by
  simp only [Ellipse.new, Ellipse.private_new]
  kaff

theorem ellipse_new_det (c : Point K) (radii : Vec2 K) (rot : K) :
    (Ellipse.new c radii rot).inner.determinant
      = |radii.x| * |radii.y| * (Scalar.cos rot * Scalar.cos rot + Scalar.sin rot * Scalar.sin rot) := by
  simp only [Ellipse.new, Ellipse.private_new]
  kaff

theorem ellipse_new_center (c : Point K) (radii : Vec2 K) (rot : K) : (Ellipse.new c radii rot).center = c := by
  cases c
  simp only [Ellipse.new, Ellipse.private_new, Ellipse.center, Vec2.to_point]
  kaff

end lawful

section real
variable [Scalar ℝ] [LawfulScalar ℝ] [LawfulTrig]

theorem ellipse_new_det_real (c : Point ℝ) (radii : Vec2 ℝ) (rot : ℝ) :
    (Ellipse.new c radii rot).inner.determinant = |radii.x| * |radii.y| := by
  rw [ellipse_new_det, LawfulTrig.sin_eq, LawfulTrig.cos_eq]
  linear_combination (|radii.x| * |radii.y|) * Real.cos_sq_add_sin_sq rot

/-- `Ellipse::new` maps the unit-circle point at angle `α` to the sample of the ellipse with radii `(|rx|, |ry|)` -/
theorem ellipse_new_unit (c : Point ℝ) (radii : Vec2 ℝ) (rot α : ℝ) :
    (Ellipse.new c radii rot).inner * (⟨cos α, sin α⟩ : Point ℝ)
      = c + sampleEllipse ⟨|radii.x|, |radii.y|⟩ rot α := by
  rw [ellipse_new_act, sampleEllipse_real, LawfulTrig.sin_eq, LawfulTrig.cos_eq]
  simp only [kdefs, scalar_norm, Point.mk.injEq]
  constructor <;> ring

/-- the sample with signed radii is the sample with the absolute radii at the angle `τ·θ + κ`,
    `τ = sign (rx·ry)`, `κ = 0` for `rx > 0` and `π` for `rx < 0` -/
theorem sampleEllipse_abs (radii : Vec2 ℝ) (rot θ : ℝ) (hx : radii.x ≠ 0) (hy : radii.y ≠ 0) :
    sampleEllipse radii rot θ
      = sampleEllipse ⟨|radii.x|, |radii.y|⟩ rot
          (sgnNeg (radii.x * radii.y) * θ + (if radii.x < 0 then Real.pi else 0)) := by
  rw [sampleEllipse_real, sampleEllipse_real]
  rcases lt_or_gt_of_ne hx with hx | hx <;> rcases lt_or_gt_of_ne hy with hy | hy
  · rw [sgnNeg_of_nonneg (not_lt.mpr (mul_pos_of_neg_of_neg hx hy).le), if_pos hx, abs_of_neg hx, abs_of_neg hy,
      one_mul, Real.cos_add_pi, Real.sin_add_pi]
    simp only [Vec2.mk.injEq]; constructor <;> ring
  · rw [sgnNeg_of_neg (mul_neg_of_neg_of_pos hx hy), if_pos hx, abs_of_neg hx, abs_of_pos hy,
      show -1 * θ + Real.pi = Real.pi - θ by ring, Real.cos_pi_sub, Real.sin_pi_sub]
    simp only [Vec2.mk.injEq]; constructor <;> ring
  · rw [sgnNeg_of_neg (mul_neg_of_pos_of_neg hx hy), if_neg (not_lt.mpr hx.le), abs_of_pos hx, abs_of_neg hy,
      show -1 * θ + 0 = -θ by ring, Real.cos_neg, Real.sin_neg]
    simp only [Vec2.mk.injEq]; constructor <;> ring
  · rw [sgnNeg_of_nonneg (not_lt.mpr (mul_pos hx hy).le), if_neg (not_lt.mpr hx.le), abs_of_pos hx, abs_of_pos hy,
      one_mul, add_zero]

/-- samples depend on the angle only through its cosine and sine -/
theorem sampleEllipse_congr (radii : Vec2 ℝ) (rot α β x : ℝ) (hc : cos α = cos β) (hs : sin α = sin β) :
    sampleEllipse radii rot (α + x) = sampleEllipse radii rot (β + x) := by
  rw [sampleEllipse_real, sampleEllipse_real, Real.cos_add, Real.sin_add, Real.cos_add, Real.sin_add, hc, hs]

end real

section arc
variable [Scalar ℝ] [LawfulScalar ℝ] [LawfulTrig] [LawfulReal]

/-- the affine map of the image ellipse of `Affine * Arc` -/
def arcImgInner (A : Affine ℝ) (arc : Arc ℝ) : Affine ℝ := A * (Ellipse.new arc.center arc.radii arc.x_rotation).inner

theorem mul_Arc_center (A : Affine ℝ) (arc : Arc ℝ) :
    (A.mul_Arc arc).center = (arcImgInner A arc).translation.to_point := rfl
theorem mul_Arc_radii (A : Affine ℝ) (arc : Arc ℝ) : (A.mul_Arc arc).radii = (arcImgInner A arc).svd.1 := rfl
theorem mul_Arc_rot (A : Affine ℝ) (arc : Arc ℝ) : (A.mul_Arc arc).x_rotation = (arcImgInner A arc).svd.2 := rfl

theorem mul_Arc_sweep (A : Affine ℝ) (arc : Arc ℝ) :
    (A.mul_Arc arc).sweep_angle = sgnNeg A.determinant * arc.sweep_angle := by
  unfold Affine.mul_Arc
  simp only [scalar_norm, decide_eq_true_eq]
  unfold sgnNeg
  push_cast
  split_ifs <;> ring

/-- the start angle as the model computes it -/
theorem mul_Arc_start (A : Affine ℝ) (arc : Arc ℝ) :
    (A.mul_Arc arc).start_angle
      = Complex.arg
          ⟨(cos (A.mul_Arc arc).x_rotation * ((A * arc.pointAt arc.start_angle).x - (A.mul_Arc arc).center.x)
              + sin (A.mul_Arc arc).x_rotation * ((A * arc.pointAt arc.start_angle).y - (A.mul_Arc arc).center.y))
            * (A.mul_Arc arc).radii.y,
           (cos (A.mul_Arc arc).x_rotation * ((A * arc.pointAt arc.start_angle).y - (A.mul_Arc arc).center.y)
              - sin (A.mul_Arc arc).x_rotation * ((A * arc.pointAt arc.start_angle).x - (A.mul_Arc arc).center.x))
            * (A.mul_Arc arc).radii.x⟩ := by
  rw [mul_Arc_center, mul_Arc_radii, mul_Arc_rot]
  unfold Affine.mul_Arc
  simp only [LawfulReal.atan2_eq, LawfulReal.sin_eq, LawfulReal.cos_eq, Arc.pointAt, Vec2.new, kdefs, scalar_norm]
  rfl

/-- `A * arc.pointAt θ` in the frame of the image ellipse: the point at `σ·(τ·θ + κ − ψ)` -/
theorem arc_point_image (A : Affine ℝ) (arc : Arc ℝ) (hdet : A.determinant ≠ 0)
    (hx : arc.radii.x ≠ 0) (hy : arc.radii.y ≠ 0) (θ : ℝ) :
    A * arc.pointAt θ
      = (A.mul_Arc arc).center + sampleEllipse (A.mul_Arc arc).radii (A.mul_Arc arc).x_rotation
          (sgnNeg A.determinant * (sgnNeg (arc.radii.x * arc.radii.y) * θ
            + (if arc.radii.x < 0 then Real.pi else 0) - svdPhase (arcImgInner A arc))) := by
  have hdetB : (arcImgInner A arc).determinant = A.determinant * (|arc.radii.x| * |arc.radii.y|) := by
    unfold arcImgInner
    rw [← ellipse_new_det_real arc.center arc.radii arc.x_rotation]
    kaff
  have hpos : 0 < |arc.radii.x| * |arc.radii.y| := mul_pos (abs_pos.mpr hx) (abs_pos.mpr hy)
  have hB : (arcImgInner A arc).determinant ≠ 0 := by rw [hdetB]; exact mul_ne_zero hdet hpos.ne'
  have hsg : sgnNeg (arcImgInner A arc).determinant = sgnNeg A.determinant := by
    unfold sgnNeg
    rw [hdetB]
    by_cases h : A.determinant < 0
    · rw [if_pos h, if_pos (mul_neg_of_neg_of_pos h hpos)]
    · rw [if_neg h, if_neg (not_lt.mpr (mul_nonneg (not_lt.mp h) hpos.le))]
  rw [mul_Arc_center, mul_Arc_radii, mul_Arc_rot, ← hsg, ← svd_point _ hB]
  unfold arcImgInner
  rw [c12s_mul_action, ellipse_new_unit, ← sampleEllipse_abs _ _ _ hx hy]
  rfl

/-- `cos`/`sin` of the start angle of `A * arc` are those of `σ·(τ·start + κ − ψ)` -/
theorem mul_Arc_start_cos_sin (A : Affine ℝ) (arc : Arc ℝ) (hdet : A.determinant ≠ 0)
    (hx : arc.radii.x ≠ 0) (hy : arc.radii.y ≠ 0) :
    cos (A.mul_Arc arc).start_angle
        = cos (sgnNeg A.determinant * (sgnNeg (arc.radii.x * arc.radii.y) * arc.start_angle
            + (if arc.radii.x < 0 then Real.pi else 0) - svdPhase (arcImgInner A arc))) ∧
    sin (A.mul_Arc arc).start_angle
        = sin (sgnNeg A.determinant * (sgnNeg (arc.radii.x * arc.radii.y) * arc.start_angle
            + (if arc.radii.x < 0 then Real.pi else 0) - svdPhase (arcImgInner A arc))) := by
  have hpos : 0 < |arc.radii.x| * |arc.radii.y| := mul_pos (abs_pos.mpr hx) (abs_pos.mpr hy)
  have hB : (arcImgInner A arc).determinant ≠ 0 := by
    have : (arcImgInner A arc).determinant = A.determinant * (|arc.radii.x| * |arc.radii.y|) := by
      unfold arcImgInner
      rw [← ellipse_new_det_real arc.center arc.radii arc.x_rotation]
      kaff
    rw [this]; exact mul_ne_zero hdet hpos.ne'
  obtain ⟨hrx, hry⟩ := svd_radii_pos _ hB
  rw [← mul_Arc_radii] at hrx hry
  rw [mul_Arc_start, arc_point_image A arc hdet hx hy]
  generalize sgnNeg A.determinant * (sgnNeg (arc.radii.x * arc.radii.y) * arc.start_angle
    + (if arc.radii.x < 0 then Real.pi else 0) - svdPhase (arcImgInner A arc)) = θ'
  obtain ⟨u1, u2⟩ := sampleEllipse_unrotate (A.mul_Arc arc).radii (A.mul_Arc arc).x_rotation θ'
  generalize (A.mul_Arc arc).radii = r at *
  generalize (A.mul_Arc arc).x_rotation = φ at *
  generalize (A.mul_Arc arc).center = ctr at *
  generalize sampleEllipse r φ θ' = w at *
  have hρ : 0 < r.x * r.y := mul_pos hrx hry
  have e1 : (cos φ * ((ctr + w).x - ctr.x) + sin φ * ((ctr + w).y - ctr.y)) * r.y = (r.x * r.y) * cos θ' := by
    simp only [kdefs, scalar_norm]
    linear_combination r.y * u1
  have e2 : (cos φ * ((ctr + w).y - ctr.y) - sin φ * ((ctr + w).x - ctr.x)) * r.x = (r.x * r.y) * sin θ' := by
    simp only [kdefs, scalar_norm]
    linear_combination r.x * u2
  rw [e1, e2]
  obtain ⟨hc, hs⟩ := hyp_cos_sin_arg ((r.x * r.y) * cos θ') ((r.x * r.y) * sin θ')
  have hsq : Real.sqrt (((r.x * r.y) * cos θ') ^ 2 + ((r.x * r.y) * sin θ') ^ 2) = r.x * r.y := by
    rw [show ((r.x * r.y) * cos θ') ^ 2 + ((r.x * r.y) * sin θ') ^ 2 = (r.x * r.y) ^ 2 by
      linear_combination (r.x * r.y) ^ 2 * Real.cos_sq_add_sin_sq θ']
    exact Real.sqrt_sq hρ.le
  rw [hsq] at hc hs
  exact ⟨mul_left_cancel₀ hρ.ne' hc, mul_left_cancel₀ hρ.ne' hs⟩

/-- THE ARC IMAGE, general form (radii of any signs): the point of `A * arc` at parameter `s` is the image of the point
    of `arc` at the angle `start + τ·s·sweep`, `τ = sign (rx·ry)` -/
theorem mul_Arc_point_general (A : Affine ℝ) (arc : Arc ℝ) (hdet : A.determinant ≠ 0)
    (hx : arc.radii.x ≠ 0) (hy : arc.radii.y ≠ 0) (s : ℝ) :
    (A.mul_Arc arc).pointAt ((A.mul_Arc arc).start_angle + s * (A.mul_Arc arc).sweep_angle)
      = A * arc.pointAt (arc.start_angle + sgnNeg (arc.radii.x * arc.radii.y) * (s * arc.sweep_angle)) := by
  obtain ⟨hc, hs⟩ := mul_Arc_start_cos_sin A arc hdet hx hy
  rw [arc_point_image A arc hdet hx hy, Arc.pointAt, sampleEllipse_congr _ _ _ _ _ hc hs, mul_Arc_sweep]
  congr 2
  have := sgnNeg_sq (arc.radii.x * arc.radii.y)
  linear_combination (-(sgnNeg A.determinant * s * arc.sweep_angle)) * this

end arc
end Kurbo
