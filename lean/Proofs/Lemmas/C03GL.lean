import Kurbo.GLTables
/-! C03 helper definitions: moments of a quadrature table over exact rationals (core Lean only). -/
namespace Kurbo.GL

def absR (r : Rat) : Rat := if r < 0 then -r else r
/-- Σ wᵢ xᵢᵏ -/
def moment (t : List (Rat × Rat)) (k : Nat) : Rat := (t.map fun wx => wx.1 * wx.2 ^ k).foldl (· + ·) 0
/-- ∫₋₁¹ xᵏ dx -/
def exactMoment (k : Nat) : Rat := if k % 2 = 0 then 2 / (k + 1 : Nat) else 0

/-- a full table with n nodes integrates xᵏ exactly for all k < 2n (degree 2n − 1), to 1e-13 -/
def fullOk (t : List (Rat × Rat)) : Bool :=
  (List.range (2 * t.length)).all fun k => absR (moment t k - exactMoment k) ≤ 1 / 10 ^ 13
/-- a half table (the positive nodes of a symmetric rule with 2m nodes): the even moments, doubled; the odd ones vanish by symmetry -/
def halfOk (t : List (Rat × Rat)) : Bool :=
  (List.range (2 * t.length)).all fun j => absR (2 * moment t (2 * j) - exactMoment (2 * j)) ≤ 1 / 10 ^ 13
/-- all nodes in [-1, 1] (half tables: in [0, 1]) and all weights positive -/
def nodesOk (t : List (Rat × Rat)) : Bool := t.all fun wx => 0 < wx.1 && -1 ≤ wx.2 && wx.2 ≤ 1

end Kurbo.GL
