import Kurbo.Quartic
import Proofs.Lemmas.C15Quad
/-! helper lemmas for C15Q: `eps_rel`, the error sums `calc_eps_q` / `calc_eps_t`, and the Newton loop of
    `factor_quartic_inner` (any lawful scalar) -/
set_option linter.unusedSectionVars false
namespace Kurbo
variable {K : Type} [Field K] [LinearOrder K] [IsStrictOrderedRing K] [FloorRing K] [Scalar K] [LawfulScalar K]

theorem epsRel_eq (raw a : K) : epsRel raw a = if a = 0 then |raw| else |(raw - a) / a| := by
  unfold epsRel
  simp only [scalar_norm, Nat.cast_zero, decide_eq_true_eq]

theorem epsRel_nonneg' (raw a : K) : 0 ≤ epsRel raw a := by
  rw [epsRel_eq]; split_ifs <;> exact abs_nonneg _

theorem epsRel_eq_zero_iff' (raw a : K) : epsRel raw a = 0 ↔ raw = a := by
  rw [epsRel_eq]
  by_cases h : a = 0
  · rw [if_pos h, abs_eq_zero, h]
  · rw [if_neg h, abs_eq_zero, div_eq_zero_iff, sub_eq_zero]
    exact ⟨fun h' => h'.resolve_right h, Or.inl⟩

theorem calcEpsQ_eq (a b c a1 b1 a2 b2 : K) :
    calcEpsQ a b c a1 b1 a2 b2 = epsRel (a1 + a2) a + epsRel (b1 + a1 * a2 + b2) b + epsRel (b1 * a2 + a1 * b2) c := by
  unfold calcEpsQ
  simp only [scalar_norm]

theorem calcEpsT_eq (a b c d a1 b1 a2 b2 : K) :
    calcEpsT a b c d a1 b1 a2 b2 = calcEpsQ a b c a1 b1 a2 b2 + epsRel (b1 * b2) d := by
  unfold calcEpsT
  simp only [scalar_norm]

theorem calcEpsQ_nonneg' (a b c a1 b1 a2 b2 : K) : 0 ≤ calcEpsQ a b c a1 b1 a2 b2 := by
  rw [calcEpsQ_eq]
  have := epsRel_nonneg' (a1 + a2) a
  have := epsRel_nonneg' (b1 + a1 * a2 + b2) b
  have := epsRel_nonneg' (b1 * a2 + a1 * b2) c
  linarith

theorem calcEpsT_nonneg' (a b c d a1 b1 a2 b2 : K) : 0 ≤ calcEpsT a b c d a1 b1 a2 b2 := by
  rw [calcEpsT_eq]
  have := calcEpsQ_nonneg' a b c a1 b1 a2 b2
  have := epsRel_nonneg' (b1 * b2) d
  linarith

/-- the factor pair `(x² + a1 x + b1)(x² + a2 x + b2)` reproduces the first three coefficients -/
theorem calcEpsQ_eq_zero_iff' (a b c a1 b1 a2 b2 : K) :
    calcEpsQ a b c a1 b1 a2 b2 = 0 ↔ a1 + a2 = a ∧ b1 + a1 * a2 + b2 = b ∧ b1 * a2 + a1 * b2 = c := by
  rw [calcEpsQ_eq]
  have h1 := epsRel_nonneg' (a1 + a2) a
  have h2 := epsRel_nonneg' (b1 + a1 * a2 + b2) b
  have h3 := epsRel_nonneg' (b1 * a2 + a1 * b2) c
  rw [← epsRel_eq_zero_iff' (a1 + a2) a, ← epsRel_eq_zero_iff' (b1 + a1 * a2 + b2) b,
    ← epsRel_eq_zero_iff' (b1 * a2 + a1 * b2) c]
  constructor
  · intro h; exact ⟨by linarith, by linarith, by linarith⟩
  · rintro ⟨e1, e2, e3⟩; rw [e1, e2, e3]; ring

theorem calcEpsT_eq_zero_iff' (a b c d a1 b1 a2 b2 : K) :
    calcEpsT a b c d a1 b1 a2 b2 = 0 ↔
      a1 + a2 = a ∧ b1 + a1 * a2 + b2 = b ∧ b1 * a2 + a1 * b2 = c ∧ b1 * b2 = d := by
  rw [calcEpsT_eq]
  have h1 := calcEpsQ_nonneg' a b c a1 b1 a2 b2
  have h2 := epsRel_nonneg' (b1 * b2) d
  rw [← epsRel_eq_zero_iff' (b1 * b2) d, ← and_assoc, ← and_assoc, and_assoc (a := a1 + a2 = a),
    ← calcEpsQ_eq_zero_iff' a b c a1 b1 a2 b2]
  constructor
  · intro h; exact ⟨by linarith, by linarith⟩
  · rintro ⟨e1, e2⟩; rw [e1, e2]; ring

/-- four coefficient identities = the polynomial identity -/
theorem factor_identity {a b c d a1 b1 a2 b2 : K} (h1 : a1 + a2 = a) (h2 : b1 + a1 * a2 + b2 = b)
    (h3 : b1 * a2 + a1 * b2 = c) (h4 : b1 * b2 = d) (x : K) :
    (x ^ 2 + a1 * x + b1) * (x ^ 2 + a2 * x + b2) = x ^ 4 + a * x ^ 3 + b * x ^ 2 + c * x + d := by
  rw [← h1, ← h2, ← h3, ← h4]; ring

/-! ### the Newton loop -/

/-- `calc_eps_t` of a state -/
def newtonEps (a b c d : K) (z : K × K × K × K) : K := calcEpsT a b c d z.1 z.2.1 z.2.2.1 z.2.2.2

theorem quarticNewton_zero' (a b c d : K) (n : Nat) (z : K × K × K × K) :
    quarticNewton a b c d n z 0 = z := by
  cases n with
  | zero => rfl
  | succ n =>
    unfold quarticNewton
    simp only [scalar_norm, Nat.cast_zero, decide_true, if_true]

theorem quarticNewton_succ (a b c d : K) (n : Nat) (z : K × K × K × K) (eps_t : K) :
    quarticNewton a b c d (n + 1) z eps_t =
      if eps_t = 0 then z
      else match quarticNewtonStep a b c d z.1 z.2.1 z.2.2.1 z.2.2.2 with
        | none => z
        | some z' => if newtonEps a b c d z' < eps_t then quarticNewton a b c d n z' (newtonEps a b c d z') else z := by
  rw [quarticNewton]
  simp only [scalar_norm, Nat.cast_zero, decide_eq_true_eq, newtonEps]
  by_cases h : eps_t = 0
  · rw [if_pos h, if_pos h]
  · rw [if_neg h, if_neg h]
    cases quarticNewtonStep a b c d z.1 z.2.1 z.2.2.1 z.2.2.2 <;> rfl

/-- the loop only accepts strict improvements of `eps_t` -/
theorem quarticNewton_le' (a b c d : K) (n : Nat) (z : K × K × K × K) :
    newtonEps a b c d (quarticNewton a b c d n z (newtonEps a b c d z)) ≤ newtonEps a b c d z := by
  induction n generalizing z with
  | zero => exact le_of_eq rfl
  | succ n ih =>
    rw [quarticNewton_succ]
    by_cases h0 : newtonEps a b c d z = 0
    · rw [if_pos h0]
    · rw [if_neg h0]
      cases hstep : quarticNewtonStep a b c d z.1 z.2.1 z.2.2.1 z.2.2.2 with
      | none => exact le_refl _
      | some z' =>
        simp only
        by_cases hlt : newtonEps a b c d z' < newtonEps a b c d z
        · rw [if_pos hlt]; exact (ih z').trans hlt.le
        · rw [if_neg hlt]

/-- the result is the input or strictly better -/
theorem quarticNewton_eq_or_lt' (a b c d : K) (n : Nat) (z : K × K × K × K) :
    quarticNewton a b c d n z (newtonEps a b c d z) = z ∨
      newtonEps a b c d (quarticNewton a b c d n z (newtonEps a b c d z)) < newtonEps a b c d z := by
  cases n with
  | zero => left; rfl
  | succ n =>
    rw [quarticNewton_succ]
    by_cases h0 : newtonEps a b c d z = 0
    · rw [if_pos h0]; left; trivial
    · rw [if_neg h0]
      cases hstep : quarticNewtonStep a b c d z.1 z.2.1 z.2.2.1 z.2.2.2 with
      | none => left; rfl
      | some z' =>
        simp only
        by_cases hlt : newtonEps a b c d z' < newtonEps a b c d z
        · rw [if_pos hlt]; right; exact lt_of_le_of_lt (quarticNewton_le' a b c d n z') hlt
        · rw [if_neg hlt]; left; trivial

end Kurbo
