import Mathlib.Analysis.SpecialFunctions.Trigonometric.Bounds
import Mathlib.Analysis.SpecialFunctions.Trigonometric.Deriv
import Mathlib.Analysis.Calculus.Deriv.MeanValue
/-! Helper lemmas for C10A, part 1: Taylor enclosures of `sin` and `cos` two orders beyond Mathlib's
    (`1 − x²/2 ≤ cos x`, `x − x³/6 ≤ sin x`), each obtained from the one before by the sign of a derivative:
    * `cos x ≤ 1 − x²/2 + x⁴/24`                  (`0 ≤ x`)
    * `sin x ≤ x − x³/6 + x⁵/120`                 (`0 ≤ x`)
    * `1 − x²/2 + x⁴/24 − x⁶/720 ≤ cos x`         (`0 ≤ x`) -/
namespace Kurbo

/-- `cos x ≤ 1 − x²/2 + x⁴/24` for `x ≥ 0` -/
theorem c10a_cos_le_taylor4 {x : ℝ} (hx : 0 ≤ x) : Real.cos x ≤ 1 - x ^ 2 / 2 + x ^ 4 / 24 := by
  let f (t : ℝ) : ℝ := (1 - t ^ 2 / 2 + t ^ 4 / 24) - Real.cos t
  have hderiv (t : ℝ) : deriv f t = Real.sin t - (t - t ^ 3 / 6) := by
    simp (disch := fun_prop) [f]
    ring
  have hmono : MonotoneOn f (Set.Ici 0) := by
    apply monotoneOn_of_deriv_nonneg (convex_Ici 0) (by fun_prop) (by fun_prop)
    intro t ht
    rw [interior_Ici] at ht
    rw [hderiv]
    have := Real.sin_ge_sub_cube (le_of_lt ht)
    linarith
  have h0 : f 0 ≤ f x := hmono (by simp) hx hx
  simp only [f, Real.cos_zero] at h0
  norm_num at h0
  linarith

/-- `sin x ≤ x − x³/6 + x⁵/120` for `x ≥ 0` -/
theorem c10a_sin_le_taylor5 {x : ℝ} (hx : 0 ≤ x) : Real.sin x ≤ x - x ^ 3 / 6 + x ^ 5 / 120 := by
  let f (t : ℝ) : ℝ := (t - t ^ 3 / 6 + t ^ 5 / 120) - Real.sin t
  have hderiv (t : ℝ) : deriv f t = (1 - t ^ 2 / 2 + t ^ 4 / 24) - Real.cos t := by
    simp (disch := fun_prop) [f]
    ring
  have hmono : MonotoneOn f (Set.Ici 0) := by
    apply monotoneOn_of_deriv_nonneg (convex_Ici 0) (by fun_prop) (by fun_prop)
    intro t ht
    rw [interior_Ici] at ht
    rw [hderiv]
    have := c10a_cos_le_taylor4 (le_of_lt ht)
    linarith
  have h0 : f 0 ≤ f x := hmono (by simp) hx hx
  simp only [f, Real.sin_zero] at h0
  norm_num at h0
  linarith

/-- `1 − x²/2 + x⁴/24 − x⁶/720 ≤ cos x` for `x ≥ 0` -/
theorem c10a_cos_ge_taylor6 {x : ℝ} (hx : 0 ≤ x) : 1 - x ^ 2 / 2 + x ^ 4 / 24 - x ^ 6 / 720 ≤ Real.cos x := by
  let f (t : ℝ) : ℝ := Real.cos t - (1 - t ^ 2 / 2 + t ^ 4 / 24 - t ^ 6 / 720)
  have hderiv (t : ℝ) : deriv f t = (t - t ^ 3 / 6 + t ^ 5 / 120) - Real.sin t := by
    simp (disch := fun_prop) [f]
    ring
  have hmono : MonotoneOn f (Set.Ici 0) := by
    apply monotoneOn_of_deriv_nonneg (convex_Ici 0) (by fun_prop) (by fun_prop)
    intro t ht
    rw [interior_Ici] at ht
    rw [hderiv]
    have := c10a_sin_le_taylor5 (le_of_lt ht)
    linarith
  have h0 : f 0 ≤ f x := hmono (by simp) hx hx
  simp only [f, Real.cos_zero] at h0
  norm_num at h0
  linarith

end Kurbo
