import Proofs.KDefs
/-! Helper definitions and lemmas for C20 (Rect / Size / Insets / rounding algebra).

    * the specification vocabulary (`Rect.Nonneg`, `Rect.ContainsRectP`, `Rect.ContainsClosed`, `IsInt`,
      `Rect.IsIntegral`),
    * closed forms of the kernel functions in Mathlib arithmetic (`Rect.union_eq`, `Rect.intersect_eq`, …),
    * bridges from the `Bool`-valued model predicates to `Prop`s,
    * scalar rounding lemmas (`strunc`, `sround`, `fexpand`). -/
set_option linter.unusedSectionVars false
namespace Kurbo
variable {K : Type} [Field K] [LinearOrder K] [IsStrictOrderedRing K] [FloorRing K] [Scalar K] [LawfulScalar K]

/-! ### vocabulary -/

/-- non-negative extent on both axes (`x0 ≤ x1`, `y0 ≤ y1`) -/
def Rect.Nonneg (r : Rect K) : Prop := r.x0 ≤ r.x1 ∧ r.y0 ≤ r.y1
/-- positive extent on both axes -/
def Rect.Pos (r : Rect K) : Prop := r.x0 < r.x1 ∧ r.y0 < r.y1
/-- `Prop` version of `Rect.contains_rect`: `b ⊆ a` as closed boxes -/
def Rect.ContainsRectP (a b : Rect K) : Prop := a.x0 ≤ b.x0 ∧ a.y0 ≤ b.y0 ∧ b.x1 ≤ a.x1 ∧ b.y1 ≤ a.y1
/-- `p` lies in the *closed* rectangle -/
def Rect.ContainsClosed (r : Rect K) (p : Point K) : Prop := r.x0 ≤ p.x ∧ p.x ≤ r.x1 ∧ r.y0 ≤ p.y ∧ p.y ≤ r.y1
/-- `p` lies in the half-open rectangle `[x0,x1) × [y0,y1)` -/
def Rect.ContainsHalfOpen (r : Rect K) (p : Point K) : Prop := r.x0 ≤ p.x ∧ p.x < r.x1 ∧ r.y0 ≤ p.y ∧ p.y < r.y1
/-- the closed boxes of `a` and `b` share no point … stated on coordinates: separated on some axis -/
def Rect.Separated (a b : Rect K) : Prop := b.x1 < a.x0 ∨ a.x1 < b.x0 ∨ b.y1 < a.y0 ∨ a.y1 < b.y0
/-- `x` is (the image of) an integer -/
def IsInt (x : K) : Prop := ∃ n : ℤ, x = (n : K)
/-- all four coordinates are integers -/
def Rect.IsIntegral (r : Rect K) : Prop := IsInt r.x0 ∧ IsInt r.y0 ∧ IsInt r.x1 ∧ IsInt r.y1

theorem isInt_intCast (n : ℤ) : IsInt (n : K) := ⟨n, rfl⟩
theorem IsInt.neg {x : K} (h : IsInt x) : IsInt (-x) := by
  obtain ⟨n, rfl⟩ := h; exact ⟨-n, by push_cast; rfl⟩
theorem IsInt.abs {x : K} (h : IsInt x) : IsInt |x| := by
  rcases abs_choice x with e | e <;> rw [e]
  · exact h
  · exact h.neg
theorem IsInt.min {x y : K} (hx : IsInt x) (hy : IsInt y) : IsInt (min x y) := by
  rcases min_choice x y with e | e <;> rw [e] <;> assumption
theorem IsInt.max {x y : K} (hx : IsInt x) (hy : IsInt y) : IsInt (max x y) := by
  rcases max_choice x y with e | e <;> rw [e] <;> assumption

/-- an integer below `x` is below `⌊x⌋` -/
theorem IsInt.le_floor {q x : K} (hq : IsInt q) (h : q ≤ x) : q ≤ (⌊x⌋ : K) := by
  obtain ⟨n, rfl⟩ := hq
  exact_mod_cast Int.le_floor.mpr h
/-- an integer above `x` is above `⌈x⌉` -/
theorem IsInt.ceil_le {q x : K} (hq : IsInt q) (h : x ≤ q) : (⌈x⌉ : K) ≤ q := by
  obtain ⟨n, rfl⟩ := hq
  exact_mod_cast Int.ceil_le.mpr h
theorem IsInt.floor_eq {x : K} (h : IsInt x) : (⌊x⌋ : K) = x := by
  obtain ⟨n, rfl⟩ := h; simp
theorem IsInt.ceil_eq {x : K} (h : IsInt x) : (⌈x⌉ : K) = x := by
  obtain ⟨n, rfl⟩ := h; simp

theorem Rect.ContainsRectP.refl (a : Rect K) : a.ContainsRectP a := ⟨le_rfl, le_rfl, le_rfl, le_rfl⟩
theorem Rect.ContainsRectP.trans {a b c : Rect K} (h1 : a.ContainsRectP b) (h2 : b.ContainsRectP c) :
    a.ContainsRectP c :=
  ⟨h1.1.trans h2.1, h1.2.1.trans h2.2.1, h2.2.2.1.trans h1.2.2.1, h2.2.2.2.trans h1.2.2.2⟩
theorem Rect.ContainsRectP.antisymm {a b : Rect K} (h1 : a.ContainsRectP b) (h2 : b.ContainsRectP a) : a = b := by
  cases a; cases b
  simp only [Rect.ContainsRectP] at h1 h2
  simp only [Rect.mk.injEq]
  exact ⟨le_antisymm h1.1 h2.1, le_antisymm h1.2.1 h2.2.1, le_antisymm h2.2.2.1 h1.2.2.1, le_antisymm h2.2.2.2 h1.2.2.2⟩
/-- containment of boxes is containment of their closed point sets -/
theorem Rect.ContainsRectP.closed {a b : Rect K} (h : a.ContainsRectP b) {p : Point K} (hp : b.ContainsClosed p) :
    a.ContainsClosed p :=
  ⟨h.1.trans hp.1, hp.2.1.trans h.2.2.1, h.2.1.trans hp.2.2.1, hp.2.2.2.trans h.2.2.2⟩
/-- … and conversely for a box of non-negative extent: `ContainsRectP` *is* set inclusion -/
theorem Rect.containsRectP_iff_closed {a b : Rect K} (hb : b.Nonneg) :
    a.ContainsRectP b ↔ ∀ p, b.ContainsClosed p → a.ContainsClosed p := by
  constructor
  · intro h p hp; exact h.closed hp
  · intro h
    have h0 := h ⟨b.x0, b.y0⟩ ⟨le_rfl, hb.1, le_rfl, hb.2⟩
    have h1 := h ⟨b.x1, b.y1⟩ ⟨hb.1, le_rfl, hb.2, le_rfl⟩
    exact ⟨h0.1, h0.2.2.1, h1.2.1, h1.2.2.2⟩

/-! ### closed forms of the kernel functions -/

theorem Rect.width_eq (r : Rect K) : r.width = r.x1 - r.x0 := by simp only [Rect.width, scalar_norm]
theorem Rect.height_eq (r : Rect K) : r.height = r.y1 - r.y0 := by simp only [Rect.height, scalar_norm]
theorem Rect.area_eq (r : Rect K) : r.area = (r.x1 - r.x0) * (r.y1 - r.y0) := by
  simp only [Rect.area, Rect.width, Rect.height, scalar_norm]

theorem Rect.union_eq (a b : Rect K) :
    a.union b = ⟨min a.x0 b.x0, min a.y0 b.y0, max a.x1 b.x1, max a.y1 b.y1⟩ := by
  simp only [Rect.union, Rect.new, scalar_norm]
theorem Rect.union_pt_eq (a : Rect K) (p : Point K) :
    a.union_pt p = ⟨min a.x0 p.x, min a.y0 p.y, max a.x1 p.x, max a.y1 p.y⟩ := by
  simp only [Rect.union_pt, Rect.new, scalar_norm]
theorem Rect.intersect_eq (a b : Rect K) :
    a.intersect b = ⟨max a.x0 b.x0, max a.y0 b.y0, max (min a.x1 b.x1) (max a.x0 b.x0),
      max (min a.y1 b.y1) (max a.y0 b.y0)⟩ := by
  simp only [Rect.intersect, Rect.new, scalar_norm]
theorem Rect.abs_eq (r : Rect K) : r.abs = ⟨min r.x0 r.x1, min r.y0 r.y1, max r.x0 r.x1, max r.y0 r.y1⟩ := by
  cases r; simp only [Rect.abs, Rect.new, scalar_norm]
theorem Rect.mabs_eq (r : Rect K) : MAbs.abs r = r.abs := rfl
theorem Rect.from_points_eq (p q : Point K) :
    Rect.from_points p q = ⟨min p.x q.x, min p.y q.y, max p.x q.x, max p.y q.y⟩ := by
  simp only [Rect.from_points, Rect.mabs_eq, Rect.abs_eq, Rect.new]
theorem Rect.inflate_eq (r : Rect K) (w h : K) : r.inflate w h = ⟨r.x0 - w, r.y0 - h, r.x1 + w, r.y1 + h⟩ := by
  simp only [Rect.inflate, Rect.new, scalar_norm]

theorem Rect.expand_eq (r : Rect K) :
    r.expand = ⟨if r.x0 ≤ r.x1 then (⌊r.x0⌋ : K) else (⌈r.x0⌉ : K), if r.y0 ≤ r.y1 then (⌊r.y0⌋ : K) else (⌈r.y0⌉ : K),
      if r.x0 ≤ r.x1 then (⌈r.x1⌉ : K) else (⌊r.x1⌋ : K), if r.y0 ≤ r.y1 then (⌈r.y1⌉ : K) else (⌊r.y1⌋ : K)⟩ := by
  simp only [Rect.expand, Rect.new, scalar_norm]
  by_cases hx : r.x0 ≤ r.x1 <;> by_cases hy : r.y0 ≤ r.y1 <;> simp [hx, hy]
theorem Rect.trunc_eq (r : Rect K) :
    r.trunc = ⟨if r.x0 ≤ r.x1 then (⌈r.x0⌉ : K) else (⌊r.x0⌋ : K), if r.y0 ≤ r.y1 then (⌈r.y0⌉ : K) else (⌊r.y0⌋ : K),
      if r.x0 ≤ r.x1 then (⌊r.x1⌋ : K) else (⌈r.x1⌉ : K), if r.y0 ≤ r.y1 then (⌊r.y1⌋ : K) else (⌈r.y1⌉ : K)⟩ := by
  simp only [Rect.trunc, Rect.new, scalar_norm]
  by_cases hx : r.x0 ≤ r.x1 <;> by_cases hy : r.y0 ≤ r.y1 <;> simp [hx, hy]
/-- on non-negative extent: floor the low corner, ceil the high corner -/
theorem Rect.Nonneg.expand_eq {r : Rect K} (h : r.Nonneg) :
    r.expand = ⟨(⌊r.x0⌋ : K), (⌊r.y0⌋ : K), (⌈r.x1⌉ : K), (⌈r.y1⌉ : K)⟩ := by
  simp only [Rect.expand_eq, if_pos h.1, if_pos h.2]
/-- on non-negative extent: ceil the low corner, floor the high corner -/
theorem Rect.Nonneg.trunc_eq {r : Rect K} (h : r.Nonneg) :
    r.trunc = ⟨(⌈r.x0⌉ : K), (⌈r.y0⌉ : K), (⌊r.x1⌋ : K), (⌊r.y1⌋ : K)⟩ := by
  simp only [Rect.trunc_eq, if_pos h.1, if_pos h.2]

theorem Insets.add_Rect_eq (i : Insets K) (r : Rect K) :
    i + r = (⟨min r.x0 r.x1 - i.x0, min r.y0 r.y1 - i.y0, max r.x0 r.x1 + i.x1, max r.y0 r.y1 + i.y1⟩ : Rect K) := by
  show Insets.add_Rect i r = _
  simp only [Insets.add_Rect, Rect.mabs_eq, Rect.abs_eq, Rect.new, scalar_norm]
theorem Rect.add_Insets_eq (r : Rect K) (i : Insets K) :
    r + i = (⟨min r.x0 r.x1 - i.x0, min r.y0 r.y1 - i.y0, max r.x0 r.x1 + i.x1, max r.y0 r.y1 + i.y1⟩ : Rect K) := by
  show Rect.add_Insets r i = _
  rw [Rect.add_Insets, Insets.add_Rect_eq]
theorem Insets.neg_eq (i : Insets K) : -i = (⟨-i.x0, -i.y0, -i.x1, -i.y1⟩ : Insets K) := by
  show Insets.neg i = _
  simp only [Insets.neg, Insets.new, scalar_norm]
theorem Rect.sub_Insets_eq (r : Rect K) (i : Insets K) :
    r - i = (⟨min r.x0 r.x1 + i.x0, min r.y0 r.y1 + i.y0, max r.x0 r.x1 - i.x1, max r.y0 r.y1 - i.y1⟩ : Rect K) := by
  show Rect.sub_Insets r i = _
  rw [Rect.sub_Insets]
  show Insets.sub_Rect i r = _
  rw [Insets.sub_Rect, Rect.add_Insets_eq, Insets.neg_eq]
  simp only [Rect.mk.injEq]
  refine ⟨?_, ?_, ?_, ?_⟩ <;> ring
theorem Insets.sub_Rect_eq (i : Insets K) (r : Rect K) : i - r = r - i := rfl
theorem Rect.sub_Rect_eq (a b : Rect K) :
    a - b = (⟨b.x0 - a.x0, b.y0 - a.y0, a.x1 - b.x1, a.y1 - b.y1⟩ : Insets K) := by
  show Rect.sub_Rect a b = _
  simp only [Rect.sub_Rect, scalar_norm]

/-! ### `Bool` ↔ `Prop` bridges -/

theorem Rect.contains_rect_iff (a b : Rect K) : a.contains_rect b = true ↔ a.ContainsRectP b := by
  simp only [Rect.contains_rect, Rect.ContainsRectP, scalar_norm, Bool.and_eq_true, decide_eq_true_eq, and_assoc]
theorem Rect.contains_iff (r : Rect K) (p : Point K) : r.contains p = true ↔ r.ContainsHalfOpen p := by
  simp only [Rect.contains, Rect.ContainsHalfOpen, scalar_norm, Bool.and_eq_true, decide_eq_true_eq, and_assoc]
theorem Rect.overlaps_iff (a b : Rect K) :
    a.overlaps b = true ↔ a.x0 ≤ b.x1 ∧ b.x0 ≤ a.x1 ∧ a.y0 ≤ b.y1 ∧ b.y0 ≤ a.y1 := by
  simp only [Rect.overlaps, scalar_norm, Bool.and_eq_true, decide_eq_true_eq, and_assoc]
theorem Rect.not_overlaps_iff (a b : Rect K) : a.overlaps b = false ↔ a.Separated b := by
  rw [← Bool.not_eq_true, Rect.overlaps_iff, Rect.Separated]
  simp only [not_and_or, not_le]
theorem Rect.is_zero_area_iff (r : Rect K) : r.is_zero_area = true ↔ r.x1 = r.x0 ∨ r.y1 = r.y0 := by
  simp only [Rect.is_zero_area, Rect.area, Rect.width, Rect.height, scalar_norm, decide_eq_true_eq,
    Nat.cast_zero, mul_eq_zero, sub_eq_zero]

theorem Rect.Nonneg.abs_eq_self {r : Rect K} (h : r.Nonneg) : r.abs = r := by
  rw [Rect.abs_eq]; cases r
  simp only [Rect.Nonneg] at h
  simp only [min_eq_left h.1, min_eq_left h.2, max_eq_right h.1, max_eq_right h.2]

/-! ### scalar rounding -/

/-- closed form of `Scalar.trunc` (round toward zero) -/
theorem strunc_eq (x : K) : (MTrunc.trunc x : K) = if x < 0 then (⌈x⌉ : K) else (⌊x⌋ : K) := by
  simp only [scalar_norm]
/-- closed form of `Scalar.round` (half away from zero) -/
theorem sround_eq (x : K) : (MRound.round x : K) = if x < 0 then (⌈x - 1/2⌉ : K) else (⌊x + 1/2⌋ : K) := by
  simp only [scalar_norm]

/-- `FloatExt::expand` = round away from zero: floor on negatives, ceil otherwise -/
theorem fexpand_eq (x : K) : fexpand x = if x < 0 then (⌊x⌋ : K) else (⌈x⌉ : K) := by
  rw [sn_fexpand]
  by_cases h : x < 0
  · simp only [h, if_true]
    rw [abs_of_neg h]
    have h0 : (0 : K) ≤ (⌈-x⌉ : K) := by
      have : (0 : ℤ) ≤ ⌈-x⌉ := Int.ceil_nonneg (by linarith)
      exact_mod_cast this
    rw [abs_of_nonneg h0, Int.ceil_neg]; push_cast; ring
  · simp only [h, if_false]
    have hx : 0 ≤ x := not_lt.mp h
    rw [abs_of_nonneg hx]
    have h0 : (0 : K) ≤ (⌈x⌉ : K) := by
      have : (0 : ℤ) ≤ ⌈x⌉ := Int.ceil_nonneg hx
      exact_mod_cast this
    rw [abs_of_nonneg h0]

theorem floor_le_ceil_cast (x : K) : (⌊x⌋ : K) ≤ (⌈x⌉ : K) := by
  exact_mod_cast Int.floor_le_ceil x

theorem floor_le_strunc (x : K) : (⌊x⌋ : K) ≤ MTrunc.trunc x := by
  rw [strunc_eq]; split_ifs
  · exact floor_le_ceil_cast x
  · exact le_rfl
theorem strunc_le_ceil (x : K) : (MTrunc.trunc x : K) ≤ (⌈x⌉ : K) := by
  rw [strunc_eq]; split_ifs
  · exact le_rfl
  · exact floor_le_ceil_cast x
/-- truncation moves toward zero -/
theorem abs_strunc_le (x : K) : |(MTrunc.trunc x : K)| ≤ |x| := by
  rw [strunc_eq]; split_ifs with h
  · have h1 : (⌈x⌉ : K) ≤ 0 := by
      have : ⌈x⌉ ≤ (0 : ℤ) := Int.ceil_le.mpr (by simpa using h.le)
      exact_mod_cast this
    rw [abs_of_nonpos h1, abs_of_neg h]
    have := Int.le_ceil x; linarith
  · have hx : 0 ≤ x := not_lt.mp h
    have h1 : (0 : K) ≤ (⌊x⌋ : K) := by
      have : (0 : ℤ) ≤ ⌊x⌋ := Int.floor_nonneg.mpr hx
      exact_mod_cast this
    rw [abs_of_nonneg h1, abs_of_nonneg hx]
    exact Int.floor_le x
theorem isInt_strunc (x : K) : IsInt (MTrunc.trunc x : K) := by
  rw [strunc_eq]; split_ifs <;> exact isInt_intCast _

theorem floor_le_sround (x : K) : (⌊x⌋ : K) ≤ MRound.round x := by
  rw [sround_eq]; split_ifs with h
  · -- ⌊x⌋ - 1 < x - 1/2 ≤ ⌈x - 1/2⌉
    have h1 : ((⌊x⌋ - 1 : ℤ) : K) < (⌈x - 1/2⌉ : K) := by
      have := Int.floor_le x
      have := Int.le_ceil (x - 1/2)
      push_cast; linarith
    have h2 : ⌊x⌋ - 1 < ⌈x - 1/2⌉ := by exact_mod_cast h1
    have h3 : ⌊x⌋ ≤ ⌈x - 1/2⌉ := by omega
    exact_mod_cast h3
  · have : ⌊x⌋ ≤ ⌊x + 1/2⌋ := Int.floor_mono (by linarith)
    exact_mod_cast this
theorem sround_le_ceil (x : K) : (MRound.round x : K) ≤ (⌈x⌉ : K) := by
  rw [sround_eq]; split_ifs with h
  · have : ⌈x - 1/2⌉ ≤ ⌈x⌉ := Int.ceil_mono (by linarith)
    exact_mod_cast this
  · have h1 : (⌊x + 1/2⌋ : K) < ((⌈x⌉ + 1 : ℤ) : K) := by
      have := Int.floor_le (x + 1/2)
      have := Int.le_ceil x
      push_cast; linarith
    have h2 : ⌊x + 1/2⌋ < ⌈x⌉ + 1 := by exact_mod_cast h1
    have h3 : ⌊x + 1/2⌋ ≤ ⌈x⌉ := by omega
    exact_mod_cast h3
/-- rounding moves by at most one half -/
theorem abs_sround_sub_le (x : K) : |(MRound.round x : K) - x| ≤ 1/2 := by
  rw [sround_eq, abs_le]; split_ifs with h
  · have h1 := Int.le_ceil (x - 1/2)
    have h2 := Int.ceil_lt_add_one (x - 1/2)
    constructor <;> linarith
  · have h1 := Int.floor_le (x + 1/2)
    have h2 := Int.lt_floor_add_one (x + 1/2)
    constructor <;> linarith
theorem isInt_sround (x : K) : IsInt (MRound.round x : K) := by
  rw [sround_eq]; split_ifs <;> exact isInt_intCast _

theorem sfloor_eq (x : K) : (MFloor.floor x : K) = (⌊x⌋ : K) := by simp only [scalar_norm]
theorem sceil_eq (x : K) : (MCeil.ceil x : K) = (⌈x⌉ : K) := by simp only [scalar_norm]
theorem sexpand_eq (x : K) : (MExpand.expand x : K) = if x < 0 then (⌊x⌋ : K) else (⌈x⌉ : K) := fexpand_eq x

theorem isInt_fexpand (x : K) : IsInt (fexpand x) := by
  rw [fexpand_eq]; split_ifs <;> exact isInt_intCast _
theorem floor_le_fexpand (x : K) : (⌊x⌋ : K) ≤ fexpand x := by
  rw [fexpand_eq]; split_ifs
  · exact le_rfl
  · exact floor_le_ceil_cast x
theorem fexpand_le_ceil (x : K) : fexpand x ≤ (⌈x⌉ : K) := by
  rw [fexpand_eq]; split_ifs
  · exact floor_le_ceil_cast x
  · exact le_rfl
/-- `expand` moves away from zero -/
theorem abs_le_abs_fexpand (x : K) : |x| ≤ |fexpand x| := by
  rw [fexpand_eq]; split_ifs with h
  · have h1 : (⌊x⌋ : K) ≤ x := Int.floor_le x
    rw [abs_of_neg h, abs_of_neg (lt_of_le_of_lt h1 h)]; linarith
  · have hx : 0 ≤ x := not_lt.mp h
    have h1 : x ≤ (⌈x⌉ : K) := Int.le_ceil x
    rw [abs_of_nonneg hx, abs_of_nonneg (hx.trans h1)]; exact h1
/-- `expand` keeps the sign (and zero) -/
theorem fexpand_sign (x : K) : (x < 0 → fexpand x < 0) ∧ (0 < x → 0 < fexpand x) ∧ (x = 0 → fexpand x = 0) := by
  rw [fexpand_eq]
  refine ⟨fun h => ?_, fun h => ?_, fun h => ?_⟩
  · rw [if_pos h]; exact lt_of_le_of_lt (Int.floor_le x) h
  · rw [if_neg (not_lt.mpr h.le)]; exact lt_of_lt_of_le h (Int.le_ceil x)
  · subst h; simp
/-- `expand` is the integer of least magnitude that is at least as large in magnitude and has the same sign -/
theorem fexpand_least (x q : K) (hq : IsInt q) (h : if x < 0 then q ≤ x else x ≤ q) :
    if x < 0 then q ≤ fexpand x else fexpand x ≤ q := by
  rw [fexpand_eq]
  by_cases hx : x < 0
  · simp only [hx, if_true] at h ⊢; exact hq.le_floor h
  · simp only [hx, if_false] at h ⊢; exact hq.ceil_le h

/-! ### component-wise rounding of Point / Vec2 / Size / Rect -/

/-- component-wise order on points -/
def Point.Le (a b : Point K) : Prop := a.x ≤ b.x ∧ a.y ≤ b.y
/-- component-wise order on vectors -/
def Vec2.Le (a b : Vec2 K) : Prop := a.x ≤ b.x ∧ a.y ≤ b.y
/-- component-wise order on sizes -/
def Size.Le (a b : Size K) : Prop := a.width ≤ b.width ∧ a.height ≤ b.height
/-- coordinate-wise order on rectangles (all four coordinates; *not* containment) -/
def Rect.CoordLe (a b : Rect K) : Prop := a.x0 ≤ b.x0 ∧ a.y0 ≤ b.y0 ∧ a.x1 ≤ b.x1 ∧ a.y1 ≤ b.y1

theorem Point.floor_eq (p : Point K) : p.floor = ⟨Scalar.floor p.x, Scalar.floor p.y⟩ := rfl
theorem Point.ceil_eq (p : Point K) : p.ceil = ⟨Scalar.ceil p.x, Scalar.ceil p.y⟩ := rfl
theorem Point.round_eq (p : Point K) : p.round = ⟨Scalar.round p.x, Scalar.round p.y⟩ := rfl
theorem Point.trunc_eq (p : Point K) : p.trunc = ⟨Scalar.trunc p.x, Scalar.trunc p.y⟩ := rfl
theorem Point.expand_eq (p : Point K) : p.expand = ⟨fexpand p.x, fexpand p.y⟩ := rfl
theorem Vec2.floor_eq (p : Vec2 K) : p.floor = ⟨Scalar.floor p.x, Scalar.floor p.y⟩ := rfl
theorem Vec2.ceil_eq (p : Vec2 K) : p.ceil = ⟨Scalar.ceil p.x, Scalar.ceil p.y⟩ := rfl
theorem Vec2.round_eq (p : Vec2 K) : p.round = ⟨Scalar.round p.x, Scalar.round p.y⟩ := rfl
theorem Vec2.trunc_eq (p : Vec2 K) : p.trunc = ⟨Scalar.trunc p.x, Scalar.trunc p.y⟩ := rfl
theorem Vec2.expand_eq (p : Vec2 K) : p.expand = ⟨fexpand p.x, fexpand p.y⟩ := rfl
theorem Size.floor_eq (p : Size K) : p.floor = ⟨Scalar.floor p.width, Scalar.floor p.height⟩ := rfl
theorem Size.ceil_eq (p : Size K) : p.ceil = ⟨Scalar.ceil p.width, Scalar.ceil p.height⟩ := rfl
theorem Size.round_eq (p : Size K) : p.round = ⟨Scalar.round p.width, Scalar.round p.height⟩ := rfl
theorem Size.trunc_eq (p : Size K) : p.trunc = ⟨Scalar.trunc p.width, Scalar.trunc p.height⟩ := rfl
theorem Size.expand_eq (p : Size K) : p.expand = ⟨fexpand p.width, fexpand p.height⟩ := rfl
theorem Rect.floor_eq (r : Rect K) :
    r.floor = ⟨Scalar.floor r.x0, Scalar.floor r.y0, Scalar.floor r.x1, Scalar.floor r.y1⟩ := rfl
theorem Rect.ceil_eq (r : Rect K) :
    r.ceil = ⟨Scalar.ceil r.x0, Scalar.ceil r.y0, Scalar.ceil r.x1, Scalar.ceil r.y1⟩ := rfl
theorem Rect.round_eq (r : Rect K) :
    r.round = ⟨Scalar.round r.x0, Scalar.round r.y0, Scalar.round r.x1, Scalar.round r.y1⟩ := rfl

/-- all scalar facts at once, on the raw `Scalar` operations -/
theorem scalar_round_facts (x : K) :
    Scalar.floor x ≤ Scalar.trunc x ∧ Scalar.trunc x ≤ Scalar.ceil x ∧
    Scalar.floor x ≤ Scalar.round x ∧ Scalar.round x ≤ Scalar.ceil x ∧
    Scalar.floor x ≤ fexpand x ∧ fexpand x ≤ Scalar.ceil x := by
  rw [sn_floor, sn_ceil]
  exact ⟨floor_le_strunc x, strunc_le_ceil x, floor_le_sround x, sround_le_ceil x, floor_le_fexpand x,
    fexpand_le_ceil x⟩

end Kurbo
